import Proofs.Lemmas.RoundTripNF
import Proofs.Lemmas.RoundTripVClass3
/-!
# Round trip, part 19: the printed text consists of code points `≤ 0x10FFFF`

`printPattern_le`: when every literal code point of the AST is `≤ 0x10FFFF` (`cpOK`) and the names are
printable (`lexOK`), so is every code point of `printPattern f a` — the hypothesis the theorems about
compiled programs (`Proofs/Certs.lean`) have on a pattern.
-/
namespace Regress.RoundTrip
open Regress Regress.IR Regress.Parse Regress.Lower Regress.Print

/-- Every code point of the text is `≤ 0x10FFFF`. -/
def LE (l : List Nat) : Prop := ∀ c ∈ l, c ≤ 0x10FFFF

theorem LE.nil : LE [] := by intro c hc; cases hc

theorem LE.append {a b : List Nat} (ha : LE a) (hb : LE b) : LE (a ++ b) := by
  intro c hc
  rcases List.mem_append.1 hc with h | h
  · exact ha c h
  · exact hb c h

theorem LE.of_small {l : List Nat} (h : ∀ c ∈ l, c < 0x80) : LE l := by
  intro c hc; have := h c hc; omega

theorem hexDig_small : ∀ d, d < 16 → hexDig d < 0x80 := by decide

theorem printChar_le {c : Nat} (h : c ≤ 0x10FFFF) : LE (printChar c) := by
  rcases printChar_cases c with ⟨_, e⟩ | ⟨_, _, e⟩ | ⟨_, _, _, _, e⟩ | ⟨_, _, e⟩ <;> rw [e]
  · intro d hd; simp at hd; subst hd; exact h
  · apply LE.of_small
    intro d hd
    simp only [hex2, List.mem_cons, List.not_mem_nil, or_false] at hd
    rcases hd with rfl | rfl | rfl | rfl
    · decide
    · decide
    · exact hexDig_small _ (Nat.mod_lt _ (by decide))
    · exact hexDig_small _ (Nat.mod_lt _ (by decide))
  · apply LE.of_small
    intro d hd
    simp only [hex4, List.mem_cons, List.not_mem_nil, or_false] at hd
    rcases hd with rfl | rfl | rfl | rfl | rfl | rfl
    · decide
    · decide
    · exact hexDig_small _ (Nat.mod_lt _ (by decide))
    · exact hexDig_small _ (Nat.mod_lt _ (by decide))
    · exact hexDig_small _ (Nat.mod_lt _ (by decide))
    · exact hexDig_small _ (Nat.mod_lt _ (by decide))
  · intro d hd; simp at hd; subst hd; exact h

theorem printDec_le (n : Nat) : LE (printDec n) := by
  apply LE.of_small
  intro d hd
  have := printDec_digit n d hd
  simp only [isAsciiDigit, Bool.and_eq_true, decide_eq_true_eq] at this
  omega

theorem printQuant_le (mn : Nat) (mx : Option Nat) (g : Bool) : LE (printQuant mn mx g) := by
  simp only [printQuant]
  refine ((((LE.append (LE.append (LE.append ?_ (printDec_le mn)) ?_) ?_).append ?_)).append ?_)
  · exact LE.of_small (by decide)
  · exact LE.of_small (by decide)
  · cases mx with
    | none => exact LE.nil
    | some m => exact printDec_le m
  · exact LE.of_small (by decide)
  · cases g
    · exact LE.of_small (by decide)
    · exact LE.nil

theorem printEsc_le (e : ES.ClassEsc) : LE (printEsc e) := by
  cases e <;> exact LE.of_small (by decide)

theorem printProp_le (neg : Bool) (kind name : Nat) (h : propNameOK name = true) : LE (printProp neg kind name) := by
  simp only [propNameOK, Bool.and_eq_true, List.all_eq_true] at h
  simp only [printProp]
  refine ((LE.append (LE.append ?_ ?_) ?_).append ?_)
  · cases neg <;> exact LE.of_small (by decide)
  · match kind with
    | 0 => exact LE.nil
    | 1 => exact LE.of_small (by decide)
    | 2 => exact LE.of_small (by decide)
    | k + 3 => exact LE.of_small (by simp only [propPrefix]; decide)
  · apply LE.of_small
    intro d hd
    have := h.2 d hd
    simp only [Props.isAsciiAlnum, Bool.or_eq_true, Bool.and_eq_true, decide_eq_true_eq, beq_iff_eq] at this
    omega
  · exact LE.of_small (by decide)

theorem isChar_le {c : Nat} (h : isChar c = true) : c ≤ 0x10FFFF := by
  simp only [isChar, Bool.or_eq_true, Bool.and_eq_true, decide_eq_true_eq] at h
  omega

theorem name_le {nm : List Nat} (h : nameOK nm = true) : LE nm := by
  obtain ⟨c, cs, rfl⟩ := nameOK_ne_nil h
  obtain ⟨h1, _, ht⟩ := nameOK_cons h
  intro d hd
  rcases List.mem_cons.1 hd with rfl | hd
  · exact isChar_le h1
  · exact isChar_le (ht d hd).1

theorem printMods_le (add rem : ES.Mods) : LE (printMods add rem) := by
  obtain ⟨ai, am, as⟩ := add
  obtain ⟨ri, rm, rs⟩ := rem
  cases ai <;> cases am <;> cases as <;> cases ri <;> cases rm <;> cases rs <;>
    exact LE.of_small (by decide)

theorem wrap_le {b : List Nat} (h : LE b) : LE (wrap b) := by
  simp only [wrap]
  exact ((LE.of_small (by decide)).append h).append (LE.of_small (by decide))

/-! ## Classes -/

theorem printClassItem_le (i : ES.ClassItem) (hc : cpItem i = true) (hl : lexItem i = true) :
    LE (printClassItem i) := by
  cases i with
  | c c => simp only [cpItem, decide_eq_true_eq] at hc; exact printChar_le hc
  | r lo hi =>
    simp only [cpItem, Bool.and_eq_true, decide_eq_true_eq] at hc
    exact ((printChar_le hc.1).append (LE.of_small (by decide))).append (printChar_le hc.2)
  | esc e => exact printEsc_le e
  | prop g k nm => exact printProp_le g k nm hl

theorem printClassItems_le : ∀ (items : List ES.ClassItem), items.all cpItem = true →
    items.all lexItem = true → LE (printClassItems items) := by
  intro items
  induction items with
  | nil => intro _ _; exact LE.nil
  | cons i is ih =>
    intro hc hl
    simp only [List.all_cons, Bool.and_eq_true] at hc hl
    exact (printClassItem_le i hc.1 hl.1).append (ih hc.2 hl.2)

theorem printString_le : ∀ (s : List Nat), s.all (fun c => decide (c ≤ 0x10FFFF)) = true → LE (printString s) := by
  intro s
  induction s with
  | nil => intro _; exact LE.nil
  | cons c cs ih =>
    intro h
    simp only [List.all_cons, Bool.and_eq_true, decide_eq_true_eq] at h
    exact (printChar_le h.1).append (ih h.2)

theorem printStringsTail_le : ∀ (ss : List (List Nat)),
    ss.all (fun s => s.all (fun c => decide (c ≤ 0x10FFFF))) = true → LE (printStringsTail ss) := by
  intro ss
  induction ss with
  | nil => intro _; exact LE.nil
  | cons s ss ih =>
    intro h
    simp only [List.all_cons, Bool.and_eq_true] at h
    simp only [printStringsTail]
    exact ((LE.of_small (by decide)).append (printString_le s h.1)).append (ih h.2)

theorem printStrings_le (ss : List (List Nat))
    (h : ss.all (fun s => s.all (fun c => decide (c ≤ 0x10FFFF))) = true) : LE (printStrings ss) := by
  cases ss with
  | nil => exact LE.nil
  | cons s ss =>
    simp only [List.all_cons, Bool.and_eq_true] at h
    exact (printString_le s h.1).append (printStringsTail_le ss h.2)

theorem printVUnion_le : ∀ (ops : List ES.VOp), (∀ o ∈ ops, LE (printVOp o)) → LE (printVUnion ops) := by
  intro ops
  induction ops with
  | nil => intro _; exact LE.nil
  | cons o os ih => intro h; exact (h o (by simp)).append (ih (fun p hp => h p (by simp [hp])))

theorem printVSepTail_le (sep : Nat) (hs : sep < 0x80) : ∀ (ops : List ES.VOp), (∀ o ∈ ops, LE (printVOp o)) →
    LE (printVSepTail sep ops) := by
  intro ops
  induction ops with
  | nil => intro _; exact LE.nil
  | cons o os ih =>
    intro h
    simp only [printVSepTail]
    exact ((LE.of_small (by intro c hc; simp at hc; subst hc; exact hs)).append (h o (by simp))).append
      (ih (fun p hp => h p (by simp [hp])))

theorem vBody_le (op : ES.VSetOp) (ops : List ES.VOp) (h : ∀ o ∈ ops, LE (printVOp o)) : LE (vBody op ops) := by
  cases op
  · exact printVUnion_le ops h
  · cases ops with
    | nil => exact LE.nil
    | cons o os => exact (h o (by simp)).append (printVSepTail_le 0x26 (by decide) os (fun p hp => h p (by simp [hp])))
  · cases ops with
    | nil => exact LE.nil
    | cons o os => exact (h o (by simp)).append (printVSepTail_le 0x2D (by decide) os (fun p hp => h p (by simp [hp])))

theorem printVOp_le (o : ES.VOp) : cpVOp o = true → lexVOp o = true → LE (printVOp o) := by
  induction o using ES.VOp.rec
    (motive_2 := fun ops => cpVOps ops = true → lexVOps ops = true → ∀ o ∈ ops, LE (printVOp o)) with
  | c c => intro hc _; simp only [cpVOp, decide_eq_true_eq] at hc; exact printChar_le hc
  | r lo hi =>
    intro hc _
    simp only [cpVOp, Bool.and_eq_true, decide_eq_true_eq] at hc
    exact ((printChar_le hc.1).append (LE.of_small (by decide))).append (printChar_le hc.2)
  | esc e => intro _ _; exact printEsc_le e
  | prop g k nm => intro _ hl; exact printProp_le g k nm hl
  | q strs =>
    intro hc _
    simp only [cpVOp] at hc
    simp only [printVOp]
    exact ((LE.of_small (by decide)).append (printStrings_le strs hc)).append (LE.of_small (by decide))
  | cls g op ops ih =>
    intro hc hl
    simp only [cpVOp] at hc
    simp only [lexVOp] at hl
    rw [printVOp_cls]
    refine (((LE.of_small (by decide)).append ?_).append (vBody_le op ops (ih hc hl))).append (LE.of_small (by decide))
    cases g
    · exact LE.nil
    · exact LE.of_small (by decide)
  | nil => rename_i hc hl o ho; cases ho
  | cons a as iha ihas =>
    rename_i hc hl o ho
    simp only [cpVOps, Bool.and_eq_true] at hc
    simp only [lexVOps, Bool.and_eq_true] at hl
    rcases List.mem_cons.1 ho with rfl | ho
    · exact iha hc.1 hl.1
    · exact ihas hc.2 hl.2 o ho

/-! ## Patterns -/

theorem prTerms_le : ∀ (ns : List ES.Node), (∀ n ∈ ns, LE (pr .term n)) → LE (prTerms ns) := by
  intro ns
  induction ns with
  | nil => intro _; exact LE.nil
  | cons n ns ih => intro h; exact (h n (by simp)).append (ih (fun m hm => h m (by simp [hm])))

theorem prAltsTail_le : ∀ (ns : List ES.Node), (∀ n ∈ ns, LE (pr .alt n)) → LE (prAltsTail ns) := by
  intro ns
  induction ns with
  | nil => intro _; exact LE.nil
  | cons n ns ih =>
    intro h
    simp only [prAltsTail]
    exact ((LE.of_small (by decide)).append (h n (by simp))).append (ih (fun m hm => h m (by simp [hm])))

theorem prAlts_le (ns : List ES.Node) (h : ∀ n ∈ ns, LE (pr .alt n)) : LE (prAlts ns) := by
  cases ns with
  | nil => exact LE.nil
  | cons n ns => exact (h n (by simp)).append (prAltsTail_le ns (fun m hm => h m (by simp [hm])))

theorem le_ctx {n : ES.Node} {t : List Nat} (h : LE t) (hp : ∀ ctx, pr ctx n = t ∨ pr ctx n = wrap t) :
    ∀ ctx, LE (pr ctx n) := by
  intro ctx
  rcases hp ctx with e | e <;> rw [e]
  · exact h
  · exact wrap_le h

theorem pr_le (n : ES.Node) : cpOK n = true → lexOK n = true → ∀ ctx, LE (pr ctx n) := by
  induction n using ES.Node.rec
    (motive_2 := fun ns => cpOKList ns = true → lexOKList ns = true → ∀ n ∈ ns, ∀ ctx, LE (pr ctx n)) with
  | empty =>
    intro _ _
    exact le_ctx (t := []) LE.nil (by intro ctx; cases ctx <;> simp [pr])
  | char c =>
    intro hc _ ctx
    simp only [cpOK, decide_eq_true_eq] at hc
    simpa only [pr] using printChar_le hc
  | dot => intro _ _ ctx; simp only [pr]; exact LE.of_small (by decide)
  | bol => intro _ _ ctx; simp only [pr]; exact LE.of_small (by decide)
  | eol => intro _ _ ctx; simp only [pr]; exact LE.of_small (by decide)
  | wb => intro _ _ ctx; simp only [pr]; exact LE.of_small (by decide)
  | nwb => intro _ _ ctx; simp only [pr]; exact LE.of_small (by decide)
  | cat ns ih =>
    intro hc hl
    simp only [cpOK] at hc
    simp only [lexOK] at hl
    have := ih hc hl
    exact le_ctx (prTerms_le ns (fun n hn => this n hn .term)) (by intro ctx; cases ctx <;> simp [pr])
  | alt ns ih =>
    intro hc hl
    simp only [cpOK] at hc
    simp only [lexOK] at hl
    have := ih hc hl
    exact le_ctx (prAlts_le ns (fun n hn => this n hn .alt)) (by intro ctx; cases ctx <;> simp [pr])
  | group idx nm n ih =>
    intro hc hl ctx
    simp only [cpOK] at hc
    simp only [lexOK, Bool.and_eq_true] at hl
    simp only [pr]
    refine (LE.append ?_ (ih hc hl.2 .disj)).append (LE.of_small (by decide))
    cases nm with
    | none => exact LE.of_small (by decide)
    | some nm =>
      simp only [groupOpen]
      exact ((LE.of_small (by decide)).append (name_le hl.1)).append (LE.of_small (by decide))
  | nc n ih =>
    intro hc hl ctx
    simp only [cpOK] at hc
    simp only [lexOK] at hl
    simp only [pr]
    exact wrap_le (ih hc hl .disj)
  | mod a r n ih =>
    intro hc hl ctx
    simp only [cpOK] at hc
    simp only [lexOK] at hl
    simp only [pr]
    exact ((((LE.of_small (by decide)).append (printMods_le a r)).append (LE.of_small (by decide))).append
      (ih hc hl .disj)).append (LE.of_small (by decide))
  | look ahead neg n ih =>
    intro hc hl ctx
    simp only [cpOK] at hc
    simp only [lexOK] at hl
    simp only [pr]
    refine (LE.append ?_ (ih hc hl .disj)).append (LE.of_small (by decide))
    cases ahead <;> cases neg <;> exact LE.of_small (by decide)
  | bref k => intro _ _ ctx; simp only [pr]; exact (LE.of_small (by decide)).append (printDec_le k)
  | nref nm =>
    intro _ hl ctx
    simp only [lexOK] at hl
    simp only [pr]
    exact ((LE.of_small (by decide)).append (name_le hl)).append (LE.of_small (by decide))
  | quant mn mx g n ih =>
    intro hc hl
    simp only [cpOK] at hc
    simp only [lexOK] at hl
    exact le_ctx ((ih hc hl .atom).append (printQuant_le mn mx g)) (by intro ctx; cases ctx <;> simp [pr])
  | esc e => intro _ _ ctx; simp only [pr]; exact printEsc_le e
  | prop g k nm => intro _ hl ctx; simp only [lexOK] at hl; simp only [pr]; exact printProp_le g k nm hl
  | cls g items =>
    intro hc hl ctx
    simp only [cpOK] at hc
    simp only [lexOK] at hl
    simp only [pr, printClass]
    refine (((LE.of_small (by decide)).append ?_).append (printClassItems_le items hc hl)).append
      (LE.of_small (by decide))
    cases g
    · exact LE.nil
    · exact LE.of_small (by decide)
  | vcls g op ops =>
    intro hc hl ctx
    simp only [cpOK] at hc
    simp only [lexOK] at hl
    simp only [pr, printVClass]
    exact printVOp_le (.cls g op ops) (by simpa only [cpVOp] using hc) (by simpa only [lexVOp] using hl)
  | nil => rename_i hc hl n hn ctx; cases hn
  | cons a as iha ihas =>
    rename_i hc hl n hn ctx
    simp only [cpOKList, Bool.and_eq_true] at hc
    simp only [lexOKList, Bool.and_eq_true] at hl
    rcases List.mem_cons.1 hn with rfl | hn
    · exact iha hc.1 hl.1 ctx
    · exact ihas hc.2 hl.2 n hn ctx

/-! ## Normalization -/

theorem cpOKList_append (xs ys : List ES.Node) : cpOKList (xs ++ ys) = (cpOKList xs && cpOKList ys) := by
  induction xs with
  | nil => simp [cpOKList]
  | cons x xs ih => simp [cpOKList, ih, Bool.and_assoc]

theorem catItems_cp {m : ES.Node} (h : cpOK m = true) : cpOKList (catItems m) = true := by
  cases m <;> simp_all [catItems, cpOK, cpOKList]

theorem altItems_cp {m : ES.Node} (h : cpOK m = true) : cpOKList (altItems m) = true := by
  cases m <;> simp_all [altItems, cpOK, cpOKList]

theorem cpOK_normalize (n : ES.Node) : cpOK n = true → cpOK (normalize n) = true := by
  induction n using ES.Node.rec
    (motive_2 := fun ns => cpOKList ns = true →
      cpOKList (normCat ns) = true ∧ cpOKList (normAlt ns) = true) with
  | cat ns ih => intro h; simp only [cpOK] at h; simpa only [normalize, cpOK] using (ih h).1
  | alt ns ih => intro h; simp only [cpOK] at h; simpa only [normalize, cpOK] using (ih h).2
  | group i nm n ih => intro h; simp only [cpOK] at h; simpa only [normalize, cpOK] using ih h
  | nc n ih => intro h; simp only [cpOK] at h; simpa only [normalize, cpOK] using ih h
  | mod a r n ih => intro h; simp only [cpOK] at h; simpa only [normalize, cpOK] using ih h
  | look a g n ih => intro h; simp only [cpOK] at h; simpa only [normalize, cpOK] using ih h
  | quant mn mx g n ih => intro h; simp only [cpOK] at h; simpa only [normalize, cpOK] using ih h
  | nil => simp [normCat, normAlt, cpOKList]
  | cons a as iha ihas =>
    rename_i h
    simp only [cpOKList, Bool.and_eq_true] at h
    have h1 := iha h.1
    have h2 := ihas h.2
    simp only [normCat, normAlt, cpOKList_append, Bool.and_eq_true]
    exact ⟨⟨catItems_cp h1, h2.1⟩, altItems_cp h1, h2.2⟩
  | empty => intro h; exact h
  | char c => intro h; exact h
  | dot => intro h; exact h
  | bol => intro h; exact h
  | eol => intro h; exact h
  | wb => intro h; exact h
  | nwb => intro h; exact h
  | bref k => intro h; exact h
  | nref nm => intro h; exact h
  | esc e => intro h; exact h
  | prop g k nm => intro h; exact h
  | cls g items => intro h; exact h
  | vcls g op ops => intro h; exact h

/-- Every code point of the printed pattern is `≤ 0x10FFFF`. -/
theorem printPattern_le (f : ES.Flags) (a : ES.Node) (hc : cpOK a = true) (hl : lexOK a = true) :
    ∀ c ∈ printPattern f a, c ≤ 0x10FFFF :=
  pr_le (normalize a) (cpOK_normalize a hc) (lexOK_normalize a hl) .disj

end Regress.RoundTrip
