import Proofs.Lemmas.SemGood
import Proofs.Lemmas.ESLaws
import RegressModel.Spec.ToIR
/-!
# ES specification ⇒ IR semantics: the simulation relation

The ES matchers of `Spec/ESMatch.lean` are in continuation-passing style over *code point indices*;
the IR semantics `sem` of `IR/Sem.lean` returns the list of successes over *byte offsets*.  This
file fixes the relation between the two kinds of state and the shape of the simulation statement:

* `Rel cs x st` — the ES state `x` and the IR state `st` denote the same cursor (`st.pos` is the
  byte offset of code point index `x.endIndex`) and the same captures: a defined ES capture `(a, b)`
  is the IR group `(some (off a), some (off b))`; an undefined ES capture is an IR group with at
  least one half unset (`GroupData::as_range() = None`; a group that is currently open has one half
  set).
* `ResRel cs r q` — a `MatchResult` `r` of the specification against `q : Option St` (first success
  of the engine): `outOfFuel` is related to everything, `failure` to `none`, `success y` to `some s`
  with `Rel cs y s`.
* `Sim inp cs m ir fwd lo hi` — for related entry states (`total` groups in all, the groups `[lo, hi)` of
  the node still pristine, `Fresh`), and continuations that are related on the successes of `ir`, running the ES
  matcher `m` is related to trying the continuation on the successes of `ir` in order.
-/
namespace Regress.Lower

open Regress Regress.IR Regress.VM

/-! ## States -/

/-- An ES capture against an IR group. -/
def CapRel (cs : List Nat) (e : Option (Nat × Nat)) (c : Cap) : Prop :=
  match e with
  | some (a, b) => a ≤ b ∧ b ≤ cs.length ∧ c = (some (Utf8.off cs a), some (Utf8.off cs b))
  | none => c.1 = none ∨ c.2 = none

theorem CapRel.none_none (cs : List Nat) : CapRel cs none (none, none) := Or.inl rfl

/-- ES state against IR state. -/
structure Rel (cs : List Nat) (x : ES.State) (st : St) : Prop where
  idx : x.endIndex ≤ cs.length
  pos : st.pos = Utf8.off cs x.endIndex
  len : x.captures.length = st.caps.length
  caps : ∀ i : Nat, CapRel cs ((x.captures[i]?).getD none) ((st.caps[i]?).getD (none, none))

/-- The groups `[lo, hi)` exist and are pristine. -/
def Fresh (st : St) (lo hi : Nat) : Prop :=
  hi ≤ st.caps.length ∧ ∀ i, lo ≤ i → i < hi → st.caps[i]? = some (none, none)

theorem Fresh.mono {st : St} {lo hi lo' hi' : Nat} (h : Fresh st lo hi) (h1 : lo ≤ lo') (h2 : hi' ≤ hi) :
    Fresh st lo' hi' :=
  ⟨Nat.le_trans h2 h.1, fun i hi1 hi2 => h.2 i (Nat.le_trans h1 hi1) (Nat.lt_of_lt_of_le hi2 h2)⟩

/-- `s` differs from `st` at most in the groups `[lo, hi)`. -/
def Frame (lo hi : Nat) (st s : St) : Prop :=
  s.caps.length = st.caps.length ∧ ∀ i, (i < lo ∨ hi ≤ i) → s.caps[i]? = st.caps[i]?

theorem Frame.refl (lo hi : Nat) (st : St) : Frame lo hi st st := ⟨rfl, fun _ _ => rfl⟩

theorem Frame.trans {lo hi : Nat} {a b c : St} (h1 : Frame lo hi a b) (h2 : Frame lo hi b c) :
    Frame lo hi a c :=
  ⟨h2.1.trans h1.1, fun i hi' => (h2.2 i hi').trans (h1.2 i hi')⟩

theorem Frame.mono {lo hi lo' hi' : Nat} {a b : St} (h : Frame lo hi a b) (h1 : lo' ≤ lo) (h2 : hi ≤ hi') :
    Frame lo' hi' a b :=
  ⟨h.1, fun i hi'' => h.2 i (by omega)⟩

theorem Fresh.of_frame {st s : St} {lo hi a b : Nat} (h : Fresh st a b) (hf : Frame lo hi st s)
    (hd : b ≤ lo ∨ hi ≤ a) : Fresh s a b := by
  refine ⟨by rw [hf.1]; exact h.1, fun i h1 h2 => ?_⟩
  rw [hf.2 i (by omega)]; exact h.2 i h1 h2

/-- The ES direction of a look-behind flag. -/
def dirOf (back : Bool) : ES.Direction := if back then .backward else .forward

@[simp] theorem dirOf_true : dirOf true = .backward := rfl
@[simp] theorem dirOf_false : dirOf false = .forward := rfl

/-! ## Results -/

def ResRel (cs : List Nat) (r : ES.MatchResult) (q : Option St) : Prop :=
  match r with
  | .outOfFuel => True
  | .failure => q = none
  | .success y => ∃ s, q = some s ∧ Rel cs y s

theorem ResRel.oof (cs : List Nat) (q : Option St) : ResRel cs .outOfFuel q := trivial

/-- The simulation statement for one node. -/
def Sim (inp : Input) (cs : List Nat) (total : Nat) (m : ES.Matcher) (ir : Node) (fwd : Bool) (lo hi : Nat) :
    Prop :=
  ∀ (fuel : Nat) (x : ES.State) (st : St) (c : ES.Cont) (k : St → Option St),
    Rel cs x st → st.caps.length = total → Fresh st lo hi →
    (∀ y s, s ∈ sem inp ir fwd st → Rel cs y s → ResRel cs (c y) (k s)) →
    ResRel cs (m.run fuel x c) ((sem inp ir fwd st).findSome? k)

/-- Two nodes with the same successes simulate the same matchers. -/
theorem Sim.congr_sem {inp : Input} {cs : List Nat} {total : Nat} {m : ES.Matcher} {ir ir' : Node} {fwd : Bool}
    {lo hi : Nat} (h : Sim inp cs total m ir fwd lo hi) (he : ∀ st, sem inp ir' fwd st = sem inp ir fwd st) :
    Sim inp cs total m ir' fwd lo hi := by
  intro fuel x st c k hr hl hf hc
  rw [he]
  exact h fuel x st c k hr hl hf (fun y s hs => hc y s (by rw [he]; exact hs))

/-! ## `findSome?` -/

theorem findSome?_append' {α β} (l l' : List α) (k : α → Option β) :
    (l ++ l').findSome? k = (l.findSome? k).or (l'.findSome? k) := by
  induction l with
  | nil => simp
  | cons a t ih =>
    simp only [List.cons_append, List.findSome?_cons]
    cases k a <;> simp [ih]

theorem findSome?_map' {α β γ} (l : List α) (g : α → β) (k : β → Option γ) :
    (l.map g).findSome? k = l.findSome? (fun a => k (g a)) := by
  induction l with
  | nil => rfl
  | cons a t ih => simp only [List.map_cons, List.findSome?_cons, ih]

theorem findSome?_optSt (st : St) (o : Option Nat) (k : St → Option St) :
    (optSt st o).findSome? k = match o with
      | none => none
      | some p => k { st with pos := p } := by
  cases o <;> simp [optSt]

theorem findSome?_guardSt (st : St) (b : Bool) (k : St → Option St) :
    (guardSt st b).findSome? k = if b then k st else none := by
  cases b <;> simp [guardSt]

/-! ## The capture table: length and frame -/

theorem resetFrom_length (caps : List Cap) (i g0 g1 : Nat) : (resetFrom caps i g0 g1).length = caps.length := by
  induction caps generalizing i with
  | nil => rfl
  | cons c cs ih => simp [resetFrom, ih]

theorem resetFrom_getElem? (caps : List Cap) : ∀ (i g0 g1 k : Nat),
    (resetFrom caps i g0 g1)[k]? =
      (caps[k]?).map (fun c => if g0 ≤ i + k ∧ i + k < g1 then (none, none) else c) := by
  induction caps with
  | nil => intro i g0 g1 k; simp [resetFrom]
  | cons c cs ih =>
    intro i g0 g1 k
    cases k with
    | zero =>
      simp only [resetFrom, List.getElem?_cons_zero, Option.map_some, Nat.add_zero]
      by_cases h : g0 ≤ i ∧ i < g1
      · simp [h]
      · have : ¬ ((decide (g0 ≤ i) && decide (i < g1)) = true) := by simpa using h
        simp [h, this]
    | succ k =>
      simp only [resetFrom, List.getElem?_cons_succ]
      rw [ih]
      have : i + 1 + k = i + (k + 1) := by omega
      rw [this]

@[simp] theorem setStart_pos (st : St) (g p : Nat) : (st.setStart g p).pos = st.pos := rfl
@[simp] theorem setEnd_pos (st : St) (g p : Nat) : (st.setEnd g p).pos = st.pos := rfl
@[simp] theorem resetGroups_pos (st : St) (g0 g1 : Nat) : (st.resetGroups g0 g1).pos = st.pos := rfl
@[simp] theorem setStart_caps_length (st : St) (g p : Nat) : (st.setStart g p).caps.length = st.caps.length := by
  simp [St.setStart]
@[simp] theorem setEnd_caps_length (st : St) (g p : Nat) : (st.setEnd g p).caps.length = st.caps.length := by
  simp [St.setEnd]
@[simp] theorem resetGroups_caps_length (st : St) (g0 g1 : Nat) :
    (st.resetGroups g0 g1).caps.length = st.caps.length := by
  simp [St.resetGroups, resetFrom_length]

theorem frame_setStart (st : St) (g p lo hi : Nat) (h1 : lo ≤ g) (h2 : g < hi) : Frame lo hi st (st.setStart g p) := by
  refine ⟨by simp, fun i hi' => ?_⟩
  simp only [St.setStart, List.getElem?_modify]
  have : g ≠ i := by omega
  simp [this]

theorem frame_setEnd (st : St) (g p lo hi : Nat) (h1 : lo ≤ g) (h2 : g < hi) : Frame lo hi st (st.setEnd g p) := by
  refine ⟨by simp, fun i hi' => ?_⟩
  simp only [St.setEnd, List.getElem?_modify]
  have : g ≠ i := by omega
  simp [this]

theorem frame_resetGroups (st : St) (g0 g1 lo hi : Nat) (h1 : lo ≤ g0) (h2 : g1 ≤ hi) :
    Frame lo hi st (st.resetGroups g0 g1) := by
  refine ⟨by simp, fun i hi' => ?_⟩
  simp only [St.resetGroups, resetFrom_getElem?, Nat.zero_add]
  have : ¬ (g0 ≤ i ∧ i < g1) := by omega
  cases st.caps[i]? <;> simp [this]

/-- Every group id and every loop reset range of the node lies in `[lo, hi)`. -/
def InRange (lo hi : Nat) : Node → Prop
  | .cat ns => ∀ n ∈ ns, InRange lo hi n
  | .alt l r => InRange lo hi l ∧ InRange lo hi r
  | .group id _ c => lo ≤ id ∧ id < hi ∧ InRange lo hi c
  | .look _ _ _ _ c => InRange lo hi c
  | .loop b _ g0 g1 => lo ≤ g0 ∧ g1 ≤ hi ∧ InRange lo hi b
  | .loop1 b _ => InRange lo hi b
  | _ => True

theorem loopIter_frame {body : St → List St} (q : Quant) (g0 g1 lo hi : Nat) (h1 : lo ≤ g0) (h2 : g1 ≤ hi)
    (hb : ∀ s s', s' ∈ body s → Frame lo hi s s') :
    ∀ k iter entry st s, s ∈ loopIter body q g0 g1 k iter entry st → Frame lo hi st s := by
  intro k
  induction k with
  | zero => intro _ _ _ _ h; simp [loopIter] at h
  | succ k ih =>
    intro iter entry st s h
    have taken : ∀ s, s ∈ (body (st.resetGroups g0 g1)).flatMap (loopIter body q g0 g1 k (iter + 1) st.pos) →
        Frame lo hi st s := by
      intro s hs
      obtain ⟨s1, hs1, hs2⟩ := List.mem_flatMap.1 hs
      exact ((frame_resetGroups st g0 g1 lo hi h1 h2).trans (hb _ _ hs1)).trans (ih _ _ _ _ hs2)
    simp only [loopIter] at h
    split at h
    · simp at h
    · split at h
      · simp at h
      · simp at h; rw [h]; exact Frame.refl _ _ _
      · exact taken s h
      · split at h
        · rcases List.mem_append.1 h with h | h
          · exact taken s h
          · simp at h; rw [h]; exact Frame.refl _ _ _
        · rcases List.mem_cons.1 h with h | h
          · rw [h]; exact Frame.refl _ _ _
          · exact taken s h

theorem loop1Iter_frame {body : St → List St} (q : Quant) (lo hi : Nat)
    (hb : ∀ s s', s' ∈ body s → Frame lo hi s s') :
    ∀ k iter st s, s ∈ loop1Iter body q k iter st → Frame lo hi st s := by
  intro k
  induction k with
  | zero => intro _ _ _ h; simp [loop1Iter] at h
  | succ k ih =>
    intro iter st s h
    simp only [loop1Iter] at h
    split at h
    · simp at h
    · simp at h; rw [h]; exact Frame.refl _ _ _
    · rename_i st' htk _
      have hst' : st' ∈ body st := by
        split at htk
        · exact List.mem_of_mem_head? htk
        · cases htk
      exact (hb _ _ hst').trans (ih _ _ _ h)
    · rename_i st' htk _
      have hst' : st' ∈ body st := by
        split at htk
        · exact List.mem_of_mem_head? htk
        · cases htk
      split at h
      · rcases List.mem_append.1 h with h | h
        · exact (hb _ _ hst').trans (ih _ _ _ h)
        · simp at h; rw [h]; exact Frame.refl _ _ _
      · rcases List.mem_cons.1 h with h | h
        · rw [h]; exact Frame.refl _ _ _
        · exact (hb _ _ hst').trans (ih _ _ _ h)

theorem frame_withPos (lo hi : Nat) (st : St) (p : Nat) : Frame lo hi st { st with pos := p } :=
  ⟨rfl, fun _ _ => rfl⟩

theorem optSt_frame {lo hi : Nat} {st s : St} {o : Option Nat} (h : s ∈ optSt st o) : Frame lo hi st s := by
  obtain ⟨p, _, rfl⟩ := mem_optSt h
  exact frame_withPos lo hi st p

mutual
/-- A node only touches the groups in its range. -/
theorem sem_frame (inp : Input) (lo hi : Nat) :
    ∀ (n : Node) (fwd : Bool) (st s : St), InRange lo hi n → s ∈ sem inp n fwd st → Frame lo hi st s
  | .empty, fwd, st, s, _, h => by simp [sem] at h; rw [h]; exact Frame.refl _ _ _
  | .goal, fwd, st, s, _, h => by simp [sem] at h; rw [h]; exact Frame.refl _ _ _
  | .char c, fwd, st, s, _, h => by simp only [sem] at h; exact optSt_frame h
  | .byteSeq bs, fwd, st, s, _, h => by simp only [sem] at h; exact optSt_frame h
  | .byteSet bs, fwd, st, s, _, h => by simp only [sem] at h; exact optSt_frame h
  | .charSet cs, fwd, st, s, _, h => by simp only [sem] at h; exact optSt_frame h
  | .cat ns, fwd, st, s, hr, h => by
    simp only [sem] at h; simp only [InRange] at hr; exact semCat_frame inp lo hi ns fwd st s hr h
  | .alt l r, fwd, st, s, hr, h => by
    simp only [sem] at h; simp only [InRange] at hr
    rcases List.mem_append.1 h with h | h
    · exact sem_frame inp lo hi l fwd st s hr.1 h
    · exact sem_frame inp lo hi r fwd st s hr.2 h
  | .matchAny, fwd, st, s, _, h => by simp only [sem] at h; exact optSt_frame h
  | .matchAnyExceptLT, fwd, st, s, _, h => by simp only [sem] at h; exact optSt_frame h
  | .anchor _ _, fwd, st, s, _, h => by
    simp only [sem] at h; rw [mem_guardSt h]; exact Frame.refl _ _ _
  | .wordBoundary _ _, fwd, st, s, _, h => by
    simp only [sem] at h; rw [mem_guardSt h]; exact Frame.refl _ _ _
  | .group id _ c, fwd, st, s, hr, h => by
    simp only [sem] at h; simp only [InRange] at hr
    obtain ⟨s1, h1, rfl⟩ := List.mem_map.1 h
    have := sem_frame inp lo hi c fwd _ s1 hr.2.2 h1
    cases fwd
    · exact ((frame_setEnd st id st.pos lo hi hr.1 hr.2.1).trans this).trans
        (frame_setStart s1 id s1.pos lo hi hr.1 hr.2.1)
    · exact ((frame_setStart st id st.pos lo hi hr.1 hr.2.1).trans this).trans
        (frame_setEnd s1 id s1.pos lo hi hr.1 hr.2.1)
  | .backRef g icase, fwd, st, s, _, h => by
    simp only [sem] at h
    split at h
    · simp at h
    · split at h
      · simp at h
      · exact optSt_frame h
      · simp at h; rw [h]; exact Frame.refl _ _ _
  | .bracket bc, fwd, st, s, _, h => by simp only [sem] at h; exact optSt_frame h
  | .stringSet alts icase, fwd, st, s, _, h => by
    simp only [sem] at h
    obtain ⟨a, _, h2⟩ := List.mem_flatMap.1 h
    exact optSt_frame h2
  | .look negate backwards _ _ c, fwd, st, s, hr, h => by
    simp only [sem] at h; simp only [InRange] at hr
    split at h
    · split at h <;> simp at h
      rw [h]; exact Frame.refl _ _ _
    · rename_i s1 t heq
      split at h <;> simp at h
      rw [h]
      have : Frame lo hi st s1 := sem_frame inp lo hi c (!backwards) st s1 hr (by rw [heq]; simp)
      exact ⟨this.1, this.2⟩
  | .loop body q g0 g1, fwd, st, s, hr, h => by
    simp only [sem] at h; simp only [InRange] at hr
    exact loopIter_frame q g0 g1 lo hi hr.1 hr.2.1
      (fun s1 s2 h12 => sem_frame inp lo hi body fwd s1 s2 hr.2.2 h12) _ _ _ _ _ h
  | .loop1 body q, fwd, st, s, hr, h => by
    simp only [sem] at h; simp only [InRange] at hr
    exact loop1Iter_frame q lo hi (fun s1 s2 h12 => sem_frame inp lo hi body fwd s1 s2 hr h12) _ _ _ _ h
theorem semCat_frame (inp : Input) (lo hi : Nat) :
    ∀ (ns : List Node) (fwd : Bool) (st s : St), (∀ n ∈ ns, InRange lo hi n) → s ∈ semCat inp ns fwd st →
      Frame lo hi st s
  | [], fwd, st, s, _, h => by simp [semCat] at h; rw [h]; exact Frame.refl _ _ _
  | n :: ns, fwd, st, s, hr, h => by
    simp only [semCat] at h
    obtain ⟨s1, h1, h2⟩ := List.mem_flatMap.1 h
    exact (sem_frame inp lo hi n fwd st s1 (hr n (by simp)) h1).trans
      (semCat_frame inp lo hi ns fwd s1 s (fun m hm => hr m (by simp [hm])) h2)
end

theorem InRange.mono {lo hi lo' hi' : Nat} (h1 : lo' ≤ lo) (h2 : hi ≤ hi') :
    ∀ (n : Node), InRange lo hi n → InRange lo' hi' n
  | .cat ns, h => by
    simp only [InRange] at h ⊢
    intro n hn
    exact InRange.mono h1 h2 n (h n hn)
  | .alt l r, h => by
    simp only [InRange] at h ⊢; exact ⟨InRange.mono h1 h2 l h.1, InRange.mono h1 h2 r h.2⟩
  | .group id _ c, h => by
    simp only [InRange] at h ⊢; exact ⟨by omega, by omega, InRange.mono h1 h2 c h.2.2⟩
  | .look _ _ _ _ c, h => by simp only [InRange] at h ⊢; exact InRange.mono h1 h2 c h
  | .loop b _ g0 g1, h => by
    simp only [InRange] at h ⊢; exact ⟨by omega, by omega, InRange.mono h1 h2 b h.2.2⟩
  | .loop1 b _, h => by simp only [InRange] at h ⊢; exact InRange.mono h1 h2 b h
  | .empty, _ => by simp [InRange]
  | .goal, _ => by simp [InRange]
  | .char _, _ => by simp [InRange]
  | .byteSeq _, _ => by simp [InRange]
  | .byteSet _, _ => by simp [InRange]
  | .charSet _, _ => by simp [InRange]
  | .matchAny, _ => by simp [InRange]
  | .matchAnyExceptLT, _ => by simp [InRange]
  | .anchor _ _, _ => by simp [InRange]
  | .wordBoundary _ _, _ => by simp [InRange]
  | .backRef _ _, _ => by simp [InRange]
  | .bracket _, _ => by simp [InRange]
  | .stringSet _ _, _ => by simp [InRange]

end Regress.Lower
