import RegressModel.Sets.CodePointSet

/-! Helper lemmas for the `CodePointSet` model (`Proofs/C12.lean`). -/

namespace Regress.CPS

/-! ## Well-formedness -/

theorem ivOk_iff (iv : Interval) : ivOk iv ↔ iv.first ≤ iv.last ∧ iv.last ≤ 0x10FFFF := Iff.rfl

theorem wf_iff_WF (s : IvList) : wf s = true ↔ WF s := by
  induction s with
  | nil => simp [wf, WF]
  | cons a t ih =>
    cases t with
    | nil => simp [wf, WF, ivOk]
    | cons b r => simp only [wf, WF, ivOk, Bool.and_eq_true, decide_eq_true_eq, ih, and_assoc]

instance (s : IvList) : Decidable (WF s) := decidable_of_iff _ (wf_iff_WF s)

/-- Pairwise form of well-formedness. -/
theorem WF_iff (s : IvList) :
    WF s ↔ (∀ iv ∈ s, ivOk iv) ∧ s.Pairwise (fun a b => a.last + 1 < b.first) := by
  induction s with
  | nil => simp [WF]
  | cons a t ih =>
    cases t with
    | nil => simp [WF]
    | cons b r =>
      simp only [WF, ih]
      constructor
      · rintro ⟨ha, hab, hall, hp⟩
        refine ⟨?_, ?_⟩
        · intro iv hiv
          rcases List.mem_cons.1 hiv with rfl | h
          · exact ha
          · exact hall _ h
        · refine List.pairwise_cons.2 ⟨?_, hp⟩
          intro x hx
          rcases List.mem_cons.1 hx with rfl | h
          · exact hab
          · have := (List.pairwise_cons.1 hp).1 x h
            have hb := hall b (by simp)
            simp only [ivOk] at hb
            omega
      · rintro ⟨hall, hp⟩
        have hp' := List.pairwise_cons.1 hp
        exact ⟨hall a (by simp), hp'.1 b (by simp), fun iv h => hall iv (List.mem_cons_of_mem _ h), hp'.2⟩

/-! ## `add` -/

/-- The body of `add` after the range has been computed. -/
def addAt (s : IvList) (niv : Interval) (left right : Nat) : IvList :=
  match right - left with
  | 0 => s.take left ++ niv :: s.drop left
  | 1 =>
    match s[left]? with
    | none => s
    | some entry =>
      s.set left { first := min entry.first niv.first, last := max entry.last niv.last }
  | _ =>
    let mergedIv := ((s.drop left).take (right - left)).foldl mergeIntervals niv
    let s' := s.set left mergedIv
    s'.take (left + 1) ++ s'.drop right

theorem add_eq_addAt (s : IvList) (niv : Interval) :
    add s niv = addAt s niv (equalRange s niv).1 (equalRange s niv).2 := rfl

theorem addAt_append (A B C : IvList) (niv : Interval) :
    addAt (A ++ (B ++ C)) niv A.length (A.length + B.length)
      = A ++ (B.foldl mergeIntervals niv) :: C := by
  unfold addAt
  have h : A.length + B.length - A.length = B.length := by omega
  rw [h]
  match B with
  | [] => simp
  | [b] => simp [mergeIntervals, Nat.min_comm, Nat.max_comm]
  | b1 :: b2 :: B' =>
    simp
    rw [List.take_length_add_append]
    simp

theorem mergecmp_lt (a b : Interval) : (a.mergecmp b == Ordering.lt) = true ↔ a.last + 1 < b.first := by
  simp only [Interval.mergecmp, Interval.isStrictlyBefore]
  by_cases h1 : a.last + 1 < b.first <;> by_cases h2 : b.last + 1 < a.first <;> simp [h1, h2]

theorem mergecmp_eq (a b : Interval) :
    (a.mergecmp b == Ordering.eq) = true ↔ ¬ a.last + 1 < b.first ∧ ¬ b.last + 1 < a.first := by
  simp only [Interval.mergecmp, Interval.isStrictlyBefore]
  by_cases h1 : a.last + 1 < b.first <;> by_cases h2 : b.last + 1 < a.first <;> simp [h1, h2]

theorem drop_length_takeWhile {α} (p : α → Bool) (l : List α) :
    l.drop (l.takeWhile p).length = l.dropWhile p := by
  induction l with
  | nil => rfl
  | cons a t ih =>
    by_cases h : p a <;> simp [h, ih]

theorem mem_dropWhile_not {α} (R : α → α → Prop) (p : α → Bool) (l : List α)
    (hmono : ∀ x ∈ l, ∀ y ∈ l, R x y → p y = true → p x = true) (hp : l.Pairwise R) :
    ∀ x ∈ l.dropWhile p, p x = false := by
  induction l with
  | nil => simp
  | cons a t ih =>
    have hp' := List.pairwise_cons.1 hp
    by_cases h : p a = true
    · simp only [List.dropWhile_cons, h, if_true]
      exact ih (fun x hx y hy => hmono x (List.mem_cons_of_mem _ hx) y (List.mem_cons_of_mem _ hy)) hp'.2
    · simp only [List.dropWhile_cons, h]
      intro x hx
      rcases List.mem_cons.1 hx with rfl | hx'
      · simpa using h
      · cases hpx : p x with
        | false => rfl
        | true =>
          exact absurd (hmono a (by simp) x (List.mem_cons_of_mem _ hx') (hp'.1 x hx') hpx) h

theorem mem_nil (c : Nat) : mem [] c ↔ False := by simp [mem]
theorem mem_cons (a : Interval) (s : IvList) (c : Nat) :
    mem (a :: s) c ↔ (a.first ≤ c ∧ c ≤ a.last) ∨ mem s c := by simp [mem]
theorem mem_append (s t : IvList) (c : Nat) : mem (s ++ t) c ↔ mem s c ∨ mem t c := by
  simp only [mem, List.mem_append]
  constructor
  · rintro ⟨iv, h | h, hc⟩
    · exact Or.inl ⟨iv, h, hc⟩
    · exact Or.inr ⟨iv, h, hc⟩
  · rintro (⟨iv, h, hc⟩ | ⟨iv, h, hc⟩)
    · exact ⟨iv, Or.inl h, hc⟩
    · exact ⟨iv, Or.inr h, hc⟩

/-- Folding `mergeIntervals` over a list of intervals each mergeable with (an interval inside) the
accumulator: the result is the convex hull and covers exactly the union. -/
theorem foldl_merge (B : IvList) : ∀ (x : Interval), x.first ≤ x.last →
    (∀ b ∈ B, b.first ≤ b.last ∧ ¬ b.last + 1 < x.first ∧ ¬ x.last + 1 < b.first) →
    let m := B.foldl mergeIntervals x
    m.first ≤ x.first ∧ x.last ≤ m.last ∧
    (m.first = x.first ∨ ∃ b ∈ B, m.first = b.first) ∧
    (m.last = x.last ∨ ∃ b ∈ B, m.last = b.last) ∧
    ∀ c, (m.first ≤ c ∧ c ≤ m.last) ↔ ((x.first ≤ c ∧ c ≤ x.last) ∨ mem B c) := by
  induction B with
  | nil => intro x hx _; simp [mem_nil]
  | cons b B ih =>
    intro x hx hB
    have hb := hB b (by simp)
    have hy1 : (mergeIntervals x b).first = min x.first b.first := rfl
    have hy2 : (mergeIntervals x b).last = max x.last b.last := rfl
    simp only [List.foldl_cons]
    generalize mergeIntervals x b = y at hy1 hy2
    have hy1' : y.first ≤ x.first ∧ y.first ≤ b.first ∧ (y.first = x.first ∨ y.first = b.first) := by omega
    have hy2' : x.last ≤ y.last ∧ b.last ≤ y.last ∧ (y.last = x.last ∨ y.last = b.last) := by omega
    clear hy1 hy2
    have := ih y (by omega) (by
      intro b' hb'
      have := hB b' (List.mem_cons_of_mem _ hb')
      omega)
    obtain ⟨h1, h2, h3, h4, h5⟩ := this
    refine ⟨Nat.le_trans h1 hy1'.1, Nat.le_trans hy2'.1 h2, ?_, ?_, ?_⟩
    · rcases h3 with h | ⟨b', hb', h⟩
      · by_cases hm : x.first ≤ b.first
        · left; omega
        · right; exact ⟨b, by simp, by omega⟩
      · right; exact ⟨b', List.mem_cons_of_mem _ hb', h⟩
    · rcases h4 with h | ⟨b', hb', h⟩
      · by_cases hm : b.last ≤ x.last
        · left; omega
        · right; exact ⟨b, by simp, by omega⟩
      · right; exact ⟨b', List.mem_cons_of_mem _ hb', h⟩
    · intro c
      clear h3 h4
      rw [h5 c, mem_cons]
      constructor
      · rintro (h | h)
        · omega
        · exact Or.inr (Or.inr h)
      · rintro (h | h | h)
        · left; omega
        · left; omega
        · exact Or.inr h

theorem mem_takeWhile_pos {α} (p : α → Bool) (l : List α) : ∀ x ∈ l.takeWhile p, p x = true := by
  induction l with
  | nil => simp
  | cons a t ih =>
    by_cases h : p a = true
    · simp only [List.takeWhile_cons, h, if_true, List.mem_cons]
      rintro x (rfl | hx)
      · exact h
      · exact ih x hx
    · simp [h]

theorem add_parts (s : IvList) (niv : Interval) (hs : WF s) :
    ∃ A B C, s = A ++ (B ++ C) ∧ add s niv = A ++ (B.foldl mergeIntervals niv) :: C ∧
      (∀ a ∈ A, a.last + 1 < niv.first) ∧
      (∀ b ∈ B, ¬ b.last + 1 < niv.first ∧ ¬ niv.last + 1 < b.first) ∧
      (∀ c ∈ C, niv.last + 1 < c.first) := by
  obtain ⟨hok, hpw⟩ := (WF_iff s).1 hs
  let pL : Interval → Bool := fun iv => iv.mergecmp niv == Ordering.lt
  let pE : Interval → Bool := fun iv => iv.mergecmp niv == Ordering.eq
  obtain ⟨A, hA⟩ : ∃ A, A = s.takeWhile pL := ⟨_, rfl⟩
  obtain ⟨R, hR⟩ : ∃ R, R = s.dropWhile pL := ⟨_, rfl⟩
  obtain ⟨B, hB⟩ : ∃ B, B = R.takeWhile pE := ⟨_, rfl⟩
  obtain ⟨C, hC⟩ : ∃ C, C = R.dropWhile pE := ⟨_, rfl⟩
  have e1 : s = A ++ R := by rw [hA, hR, List.takeWhile_append_dropWhile]
  have e2 : R = B ++ C := by rw [hB, hC, List.takeWhile_append_dropWhile]
  have e : s = A ++ (B ++ C) := by rw [← e2]; exact e1
  have hRsub : ∀ x ∈ R, x ∈ s := by intro x hx; rw [e1]; exact List.mem_append_right _ hx
  have hRpw : R.Pairwise (fun a b => a.last + 1 < b.first) := by
    rw [e1] at hpw; exact (List.pairwise_append.1 hpw).2.1
  -- every element of `R` is not `Less`
  have hRnl : ∀ x ∈ R, pL x = false := by
    rw [hR]
    apply mem_dropWhile_not (fun a b => a.last + 1 < b.first) pL s _ hpw
    intro x hx y hy hxy hpy
    have := (mergecmp_lt y niv).1 hpy
    have hyok := hok y hy
    apply (mergecmp_lt x niv).2
    simp only [ivOk] at hyok
    omega
  have hCne : ∀ x ∈ C, pE x = false := by
    rw [hC]
    apply mem_dropWhile_not (fun a b => a.last + 1 < b.first) pE R _ hRpw
    intro x hx y hy hxy hpy
    have h1 := (mergecmp_eq y niv).1 hpy
    have hxok := hok x (hRsub x hx)
    have hxl := hRnl x hx
    have : ¬ x.last + 1 < niv.first := by
      intro h; have hh : pL x = true := (mergecmp_lt x niv).2 h; rw [hh] at hxl; cases hxl
    apply (mergecmp_eq x niv).2
    simp only [ivOk] at hxok
    omega
  refine ⟨A, B, C, e, ?_, ?_, ?_, ?_⟩
  · rw [add_eq_addAt]
    have hl : (equalRange s niv).1 = A.length := by simp [equalRange, hA, pL]
    have hr : (equalRange s niv).2 = A.length + B.length := by
      simp only [equalRange]
      rw [drop_length_takeWhile]
      simp [hA, hB, hR, pL, pE]
    rw [hl, hr]
    conv => lhs; arg 1; rw [e]
    exact addAt_append A B C niv
  · intro a ha
    rw [hA] at ha
    exact (mergecmp_lt a niv).1 (mem_takeWhile_pos _ _ a ha)
  · intro b hb
    rw [hB] at hb
    exact (mergecmp_eq b niv).1 (mem_takeWhile_pos _ _ b hb)
  · intro c hc
    have h1 := hRnl c (by rw [e2]; exact List.mem_append_right _ hc)
    have h2 := hCne c hc
    have h1' : ¬ c.last + 1 < niv.first := by
      intro h; have hh : pL c = true := (mergecmp_lt c niv).2 h; rw [hh] at h1; cases h1
    have h2' : ¬ (¬ c.last + 1 < niv.first ∧ ¬ niv.last + 1 < c.first) := by
      intro h; have hh : pE c = true := (mergecmp_eq c niv).2 h; rw [hh] at h2; cases h2
    omega

/-! ## `inverted` -/

/-- Accumulator-free form of `invertedLoop`. -/
def invAux : IvList → Nat → IvList
  | [], start => if start ≤ 0x10FFFF then [{ first := start, last := 0x10FFFF }] else []
  | iv :: rest, start =>
    (if start < iv.first then [{ first := start, last := iv.first - 1 }] else [])
      ++ invAux rest (iv.last + 1)

theorem invertedLoop_eq (s : IvList) : ∀ (start : Nat) (acc : IvList),
    invertedLoop s start acc = acc ++ invAux s start := by
  induction s with
  | nil => intro start acc; simp only [invertedLoop, invAux]; split <;> simp
  | cons iv rest ih =>
    intro start acc
    simp only [invertedLoop, invAux, ih]
    split <;> simp

theorem inverted_eq (s : IvList) : inverted s = invAux s 0 := by
  simp [inverted, invertedLoop_eq]

theorem invertedIntervalCountLoop_eq (s : IvList) : ∀ (start result : Nat),
    invertedIntervalCountLoop s start result = result + (invAux s start).length := by
  induction s with
  | nil => intro start result; simp only [invertedIntervalCountLoop, invAux]; split <;> simp
  | cons iv rest ih =>
    intro start result
    simp only [invertedIntervalCountLoop, invAux, ih]
    split <;> simp <;> omega

/-- Main invariant of the inversion loop. -/
theorem invAux_spec (s : IvList) : ∀ (start : Nat), WF s → (∀ iv ∈ s, start ≤ iv.first) →
    WF (invAux s start) ∧ (∀ x ∈ invAux s start, start ≤ x.first) ∧
    ∀ c, mem (invAux s start) c ↔ (start ≤ c ∧ c ≤ 0x10FFFF ∧ ¬ mem s c) := by
  induction s with
  | nil =>
    intro start _ _
    simp only [invAux]
    split
    · simp [WF, ivOk, mem_cons, mem_nil]; omega
    · simp [WF, mem_nil]; omega
  | cons iv rest ih =>
    intro start hs hst
    obtain ⟨hok, hpw⟩ := (WF_iff _).1 hs
    have hiv := hok iv (by simp)
    have hpw' := List.pairwise_cons.1 hpw
    have hrest : WF rest := (WF_iff _).2 ⟨fun x h => hok x (List.mem_cons_of_mem _ h), hpw'.2⟩
    obtain ⟨h1, h2, h3⟩ := ih (iv.last + 1) hrest (fun x hx => by have := hpw'.1 x hx; omega)
    have hst0 := hst iv (by simp)
    simp only [ivOk] at hiv
    simp only [invAux]
    split
    · refine ⟨?_, ?_, ?_⟩
      · rw [WF_iff]
        obtain ⟨hok1, hpw1⟩ := (WF_iff _).1 h1
        refine ⟨?_, ?_⟩
        · intro x hx
          rcases List.mem_append.1 hx with h | h
          · simp at h; subst h; simp [ivOk]; omega
          · exact hok1 x h
        · simp only [List.singleton_append]
          refine List.pairwise_cons.2 ⟨?_, hpw1⟩
          intro x hx
          have := h2 x hx
          simp; omega
      · intro x hx
        rcases List.mem_append.1 hx with h | h
        · simp at h; subst h; simp
        · have := h2 x h; omega
      · intro c
        have hlb : mem rest c → iv.last + 1 < c := by
          rintro ⟨x, hx, hx1, hx2⟩
          have := hpw'.1 x hx; omega
        simp only [mem_append, mem_cons, mem_nil, h3 c, or_false]
        by_cases hm : mem rest c
        · have := hlb hm; simp [hm]; omega
        · simp [hm]; omega
    · refine ⟨?_, ?_, ?_⟩
      · simpa using h1
      · intro x hx
        have := h2 x (by simpa using hx); omega
      · intro c
        have hlb : mem rest c → iv.last + 1 < c := by
          rintro ⟨x, hx, hx1, hx2⟩
          have := hpw'.1 x hx; omega
        simp only [List.nil_append, mem_cons, h3 c]
        by_cases hm : mem rest c
        · have := hlb hm; simp [hm]
        · simp [hm]; omega

/-! ## `intersect` -/

def cap (iv siv : Interval) : Interval :=
  { first := max iv.first siv.first, last := min iv.last siv.last }

theorem overlaps_iff (a b : Interval) :
    a.overlaps b = true ↔ ¬ a.last < b.first ∧ ¬ b.last < a.first := by
  simp [Interval.overlaps, Interval.isBefore]

/-- Accumulator-free form of `intersectInner`. -/
def capList (iv : Interval) : IvList → IvList
  | [] => []
  | siv :: rest => (if iv.overlaps siv then [cap iv siv] else []) ++ capList iv rest

theorem intersectInner_eq (iv : Interval) (s : IvList) : ∀ acc,
    intersectInner iv s acc = acc ++ capList iv s := by
  induction s with
  | nil => intro acc; simp [intersectInner, capList]
  | cons siv rest ih =>
    intro acc
    simp only [intersectInner, capList, ih, cap]
    split <;> simp

def capAll (s : IvList) : IvList → IvList
  | [] => []
  | iv :: rest => capList iv s ++ capAll s rest

theorem intersectLoop_eq (s t : IvList) : ∀ acc,
    intersectLoop s t acc = acc ++ capAll s t := by
  induction t with
  | nil => intro acc; simp [intersectLoop, capAll]
  | cons iv rest ih =>
    intro acc
    simp only [intersectLoop, capAll, ih, intersectInner_eq, List.append_assoc]

theorem intersect_eq (s t : IvList) : intersect s t = capAll s t := by
  simp [intersect, intersectLoop_eq]

theorem mem_capList {iv : Interval} {s : IvList} {x : Interval} :
    x ∈ capList iv s ↔ ∃ siv ∈ s, iv.overlaps siv = true ∧ x = cap iv siv := by
  induction s with
  | nil => simp [capList]
  | cons siv rest ih =>
    simp only [capList, List.mem_append, ih, List.mem_cons, exists_eq_or_imp]
    by_cases h : iv.overlaps siv = true <;> simp [h]

theorem mem_capAll {s t : IvList} {x : Interval} :
    x ∈ capAll s t ↔ ∃ iv ∈ t, ∃ siv ∈ s, iv.overlaps siv = true ∧ x = cap iv siv := by
  induction t with
  | nil => simp [capAll]
  | cons iv rest ih =>
    simp only [capAll, List.mem_append, ih, List.mem_cons, exists_eq_or_imp, mem_capList]

theorem capList_pairwise {iv : Interval} {s : IvList}
    (hp : s.Pairwise (fun a b => a.last + 1 < b.first)) :
    (capList iv s).Pairwise (fun a b => a.last + 1 < b.first) := by
  induction s with
  | nil => simp [capList]
  | cons siv rest ih =>
    have hp' := List.pairwise_cons.1 hp
    simp only [capList]
    refine List.pairwise_append.2 ⟨?_, ih hp'.2, ?_⟩
    · split <;> simp
    · intro a ha b hb
      obtain ⟨siv2, h2, -, rfl⟩ := mem_capList.1 hb
      have := hp'.1 siv2 h2
      split at ha
      · simp at ha; subst ha; simp only [cap]; omega
      · simp at ha

/-! ## `remove` -/

/-- Accumulator-free, single-recursion form of the two nested loops of `remove`: the mutated `iv` of
the Rust inner loop is pushed back on the front of the remaining intervals. -/
def rm : IvList → IvList → IvList
  | [], _ => []
  | iv :: s, [] => iv :: s
  | iv :: s, r :: rem =>
    if r.last < iv.first then rm (iv :: s) rem
    else if r.first > iv.last then iv :: rm s (r :: rem)
    else if r.last < iv.last then
      (if r.first > iv.first then [{ first := iv.first, last := r.first - 1 }] else []) ++
        rm ({ first := r.last + 1, last := iv.last } :: s) rem
    else
      (if r.first > iv.first then [{ first := iv.first, last := r.first - 1 }] else []) ++
        rm s (r :: rem)
termination_by s rem => s.length + rem.length

theorem rm_nil_right (s : IvList) : rm s [] = s := by
  cases s <;> simp [rm]

theorem removeInner_rm (s : IvList) (rem : IvList) : ∀ (iv : Interval) (acc : IvList),
    (if (removeInner iv rem acc).2.1.isEmpty
      then (removeInner iv rem acc).2.2 ++ [(removeInner iv rem acc).1]
      else (removeInner iv rem acc).2.2) ++ rm s (removeInner iv rem acc).2.1
    = acc ++ rm (iv :: s) rem := by
  induction rem with
  | nil => intro iv acc; simp [removeInner, rm_nil_right]
  | cons r rem ih =>
    intro iv acc
    rw [removeInner, rm]
    by_cases h1 : r.last < iv.first
    · simp only [h1, if_true]; exact ih iv acc
    · simp only [h1, if_false]
      by_cases h2 : r.first > iv.last
      · simp [h2]
      · simp only [h2, if_false]
        by_cases h3 : r.last < iv.last
        · simp only [h3, if_true]
          rw [ih]
          split <;> simp
        · simp only [h3, if_false, List.isEmpty_cons, Bool.false_eq_true]
          split <;> simp

theorem removeLoop_eq (s : IvList) : ∀ (rem acc : IvList),
    removeLoop s rem acc = acc ++ rm s rem := by
  induction s with
  | nil => intro rem acc; simp [removeLoop, rm]
  | cons iv s ih =>
    intro rem acc
    rw [removeLoop]
    simp only [ih]
    exact removeInner_rm s rem iv acc

theorem remove_eq (s r : IvList) : remove s r = rm s r := by
  simp [remove, removeLoop_eq]

/-- Sorted and disjoint (but possibly abutting, and not necessarily bounded by `0x10FFFF`):
every interval is non-empty (`first ≤ last`) and each interval ends before every later one starts.
This is the documented precondition of `remove`'s argument. -/
def SD (l : IvList) : Prop :=
  (∀ iv ∈ l, iv.first ≤ iv.last) ∧ l.Pairwise (fun a b => a.last < b.first)

theorem SD_nil : SD [] := by simp [SD]

theorem SD_cons (a : Interval) (l : IvList) :
    SD (a :: l) ↔ a.first ≤ a.last ∧ (∀ x ∈ l, a.last < x.first) ∧ SD l := by
  simp only [SD, List.mem_cons, forall_eq_or_imp, List.pairwise_cons]
  constructor
  · rintro ⟨⟨h1, h2⟩, h3, h4⟩; exact ⟨h1, h3, h2, h4⟩
  · rintro ⟨h1, h3, h2, h4⟩; exact ⟨⟨h1, h2⟩, h3, h4⟩

theorem WF_SD {l : IvList} (h : WF l) : SD l := by
  obtain ⟨h1, h2⟩ := (WF_iff l).1 h
  exact ⟨fun iv hiv => (h1 iv hiv).1, h2.imp (by intro a b h; omega)⟩

theorem mem_gt_of_forall {l : IvList} {L c : Nat} (h : ∀ x ∈ l, L < x.first) (hm : mem l c) : L < c := by
  obtain ⟨x, hx, h1, _⟩ := hm
  have := h x hx; omega

theorem mem_pre (a b c : Nat) :
    mem (if b > a then [{ first := a, last := b - 1 }] else []) c ↔ a ≤ c ∧ c < b := by
  split <;> simp [mem_cons, mem_nil] <;> omega

theorem rm_mem (s r : IvList) (c : Nat) : SD s → SD r →
    (mem (rm s r) c ↔ mem s c ∧ ¬ mem r c) := by
  fun_induction rm s r with
  | case1 => intro _ _; simp [mem_nil]
  | case2 iv s => intro _ _; simp [mem_nil]
  | case3 iv s r rem h1 ih =>
    intro hs hr
    obtain ⟨hr1, hr2, hr3⟩ := (SD_cons _ _).1 hr
    obtain ⟨hs1, hs2, hs3⟩ := (SD_cons _ _).1 hs
    rw [ih hs hr3]
    have hsm : mem s c → iv.last < c := mem_gt_of_forall hs2
    simp only [mem_cons]
    by_cases hm : mem s c
    · have := hsm hm; simp [hm]; omega
    · simp [hm]; omega
  | case4 iv s r rem h1 h2 ih =>
    intro hs hr
    obtain ⟨hr1, hr2, hr3⟩ := (SD_cons _ _).1 hr
    obtain ⟨hs1, hs2, hs3⟩ := (SD_cons _ _).1 hs
    have hrm : mem rem c → r.last < c := mem_gt_of_forall hr2
    have hsm : mem s c → iv.last < c := mem_gt_of_forall hs2
    simp only [mem_cons, ih hs3 hr]
    by_cases hm : mem rem c <;> by_cases hm' : mem s c
    · have := hrm hm; have := hsm hm'; simp [hm, hm']; omega
    · have := hrm hm; simp [hm, hm']; omega
    · have := hsm hm'; simp [hm, hm']; omega
    · simp [hm, hm']; omega
  | case5 iv s r rem h1 h2 h3 ih =>
    intro hs hr
    obtain ⟨hr1, hr2, hr3⟩ := (SD_cons _ _).1 hr
    obtain ⟨hs1, hs2, hs3⟩ := (SD_cons _ _).1 hs
    have hrm : mem rem c → r.last < c := mem_gt_of_forall hr2
    have hsm : mem s c → iv.last < c := mem_gt_of_forall hs2
    have hs' : SD ({ first := r.last + 1, last := iv.last } :: s) :=
      (SD_cons _ _).2 ⟨by simp; omega, hs2, hs3⟩
    simp only [mem_append, mem_cons, ih hs' hr3, mem_pre]
    by_cases hm : mem rem c <;> by_cases hm' : mem s c
    · have := hrm hm; have := hsm hm'; simp [hm, hm']; omega
    · have := hrm hm; simp [hm, hm']; omega
    · have := hsm hm'; simp [hm, hm']; omega
    · simp [hm, hm']; omega
  | case6 iv s r rem h1 h2 h3 ih =>
    intro hs hr
    obtain ⟨hr1, hr2, hr3⟩ := (SD_cons _ _).1 hr
    obtain ⟨hs1, hs2, hs3⟩ := (SD_cons _ _).1 hs
    have hrm : mem rem c → r.last < c := mem_gt_of_forall hr2
    have hsm : mem s c → iv.last < c := mem_gt_of_forall hs2
    simp only [mem_append, mem_cons, ih hs3 hr, mem_pre]
    by_cases hm : mem rem c <;> by_cases hm' : mem s c
    · have := hrm hm; have := hsm hm'; simp [hm, hm']; omega
    · have := hrm hm; simp [hm, hm']; omega
    · have := hsm hm'; simp [hm, hm']; omega
    · simp [hm, hm']; omega

theorem WF_cons (a : Interval) (l : IvList) :
    WF (a :: l) ↔ ivOk a ∧ (∀ x ∈ l, a.last + 1 < x.first) ∧ WF l := by
  simp only [WF_iff, List.mem_cons, forall_eq_or_imp, List.pairwise_cons]
  constructor
  · rintro ⟨⟨h1, h2⟩, h3, h4⟩; exact ⟨h1, h3, h2, h4⟩
  · rintro ⟨h1, h3, h2, h4⟩; exact ⟨⟨h1, h2⟩, h3, h4⟩

/-- Every output interval of `rm` lies inside an input interval. -/
theorem rm_sub (s r : IvList) :
    ∀ y ∈ rm s r, ∃ x ∈ s, x.first ≤ y.first ∧ y.last ≤ x.last := by
  fun_induction rm s r with
  | case1 => simp
  | case2 iv s => intro y hy; exact ⟨y, hy, Nat.le_refl _, Nat.le_refl _⟩
  | case3 iv s r rem h1 ih => exact ih
  | case4 iv s r rem h1 h2 ih =>
    intro y hy
    rcases List.mem_cons.1 hy with rfl | hy
    · exact ⟨y, by simp, Nat.le_refl _, Nat.le_refl _⟩
    · obtain ⟨x, hx, h⟩ := ih y hy
      exact ⟨x, List.mem_cons_of_mem _ hx, h⟩
  | case5 iv s r rem h1 h2 h3 ih =>
    intro y hy
    rcases List.mem_append.1 hy with hy | hy
    · split at hy
      · simp at hy; subst hy; exact ⟨iv, by simp, by simp, by simp; omega⟩
      · simp at hy
    · obtain ⟨x, hx, h⟩ := ih y hy
      rcases List.mem_cons.1 hx with rfl | hx
      · exact ⟨iv, by simp, by simp at h; omega, by simp at h; omega⟩
      · exact ⟨x, List.mem_cons_of_mem _ hx, h⟩
  | case6 iv s r rem h1 h2 h3 ih =>
    intro y hy
    rcases List.mem_append.1 hy with hy | hy
    · split at hy
      · simp at hy; subst hy; exact ⟨iv, by simp, by simp, by simp; omega⟩
      · simp at hy
    · obtain ⟨x, hx, h⟩ := ih y hy
      exact ⟨x, List.mem_cons_of_mem _ hx, h⟩

theorem WF_pre_append {a b : Nat} {l : IvList} (hl : WF l) (hb : b ≤ 0x10FFFF + 1)
    (h : ∀ y ∈ l, b < y.first) :
    WF ((if b > a then [{ first := a, last := b - 1 }] else []) ++ l) := by
  split
  · simp only [List.singleton_append]
    refine (WF_cons _ _).2 ⟨by simp [ivOk]; omega, ?_, hl⟩
    intro y hy; have := h y hy; simp; omega
  · simpa using hl

theorem rm_wf (s r : IvList) : WF s → SD r → WF (rm s r) := by
  fun_induction rm s r with
  | case1 => intro _ _; simp [WF]
  | case2 iv s => intro h _; exact h
  | case3 iv s r rem h1 ih =>
    intro hs hr
    exact ih hs ((SD_cons _ _).1 hr).2.2
  | case4 iv s r rem h1 h2 ih =>
    intro hs hr
    obtain ⟨hs1, hs2, hs3⟩ := (WF_cons _ _).1 hs
    refine (WF_cons _ _).2 ⟨hs1, ?_, ih hs3 hr⟩
    intro y hy
    obtain ⟨x, hx, h, _⟩ := rm_sub _ _ y hy
    have := hs2 x hx; omega
  | case5 iv s r rem h1 h2 h3 ih =>
    intro hs hr
    obtain ⟨hs1, hs2, hs3⟩ := (WF_cons _ _).1 hs
    obtain ⟨hr1, hr2, hr3⟩ := (SD_cons _ _).1 hr
    simp only [ivOk] at hs1
    have hs' : WF ({ first := r.last + 1, last := iv.last } :: s) :=
      (WF_cons _ _).2 ⟨by simp [ivOk]; omega, hs2, hs3⟩
    apply WF_pre_append (ih hs' hr3) (by omega)
    intro y hy
    obtain ⟨x, hx, h, _⟩ := rm_sub _ _ y hy
    rcases List.mem_cons.1 hx with rfl | hx
    · simp at h; omega
    · have := hs2 x hx; omega
  | case6 iv s r rem h1 h2 h3 ih =>
    intro hs hr
    obtain ⟨hs1, hs2, hs3⟩ := (WF_cons _ _).1 hs
    simp only [ivOk] at hs1
    apply WF_pre_append (ih hs3 hr) (by omega)
    intro y hy
    obtain ⟨x, hx, h, _⟩ := rm_sub _ _ y hy
    have := hs2 x hx; omega

/-! ## `contains` -/

theorem compare_eq_iff (iv : Interval) (c : Nat) :
    (iv.compare c == Ordering.eq) = true ↔ iv.first ≤ c ∧ c ≤ iv.last := by
  simp only [Interval.compare]
  by_cases h1 : iv.first > c <;> by_cases h2 : iv.last < c <;> simp [h1, h2] <;> omega

theorem contains_iff_mem (s : IvList) (c : Nat) : contains s c = true ↔ mem s c := by
  simp only [contains, List.any_eq_true, compare_eq_iff, mem]

instance (s : IvList) (c : Nat) : Decidable (mem s c) := decidable_of_iff _ (contains_iff_mem s c)

/-! ## Faithful binary search -/

/-- `l` is sorted w.r.t. the comparator `f` (as `binary_search_by` requires): `Less` elements, then
`Equal`, then `Greater`. -/
def SortedBy {α : Type} (f : α → Ordering) (l : List α) : Prop :=
  ∀ (i j : Nat) (x y : α), i < j → l[i]? = some x → l[j]? = some y →
    (f x = Ordering.gt → f y = Ordering.gt) ∧ (f y = Ordering.lt → f x = Ordering.lt)

theorem binarySearchLoop_spec {α : Type} (l : List α) (f : α → Ordering) (hs : SortedBy f l) :
    ∀ fuel size base, size ≤ fuel → 1 ≤ size → base + size ≤ l.length →
      (base = 0 ∨ ∃ x, l[base]? = some x ∧ f x ≠ Ordering.gt) →
      (∀ j y, base + size ≤ j → l[j]? = some y → f y = Ordering.gt) →
      ∃ b, binarySearchLoop l.toArray f fuel size base = some b ∧ b < l.length ∧
        (b = 0 ∨ ∃ x, l[b]? = some x ∧ f x ≠ Ordering.gt) ∧
        (∀ j y, b + 1 ≤ j → l[j]? = some y → f y = Ordering.gt) := by
  intro fuel
  induction fuel with
  | zero => intro size base h1 h2; omega
  | succ fuel ih =>
    intro size base hfuel hsz hlen hJ hK
    rw [binarySearchLoop]
    by_cases hgt : size > 1
    · simp only [hgt, if_true, List.getElem?_toArray]
      have hmid : base + size / 2 < l.length := by omega
      rw [List.getElem?_eq_getElem hmid]
      simp only
      by_cases hc : f l[base + size / 2] = Ordering.gt
      · simp only [hc, beq_self_eq_true, if_true]
        apply ih _ _ (by omega) (by omega) (by omega) hJ
        intro j y hj hy
        by_cases hjm : j = base + size / 2
        · subst hjm
          rw [List.getElem?_eq_getElem hmid] at hy
          cases hy; exact hc
        · exact (hs (base + size / 2) j _ y (by omega) (List.getElem?_eq_getElem hmid) hy).1 hc
      · have hc' : (f l[base + size / 2] == Ordering.gt) = false := by
          cases h : f l[base + size / 2] <;> simp_all
        simp only [hc', Bool.false_eq_true, if_false]
        apply ih _ _ (by omega) (by omega) (by omega)
        · exact Or.inr ⟨_, List.getElem?_eq_getElem hmid, hc⟩
        · intro j y hj hy
          exact hK j y (by omega) hy
    · simp only [hgt, if_false]
      have : size = 1 := by omega
      subst this
      exact ⟨base, rfl, by omega, hJ, hK⟩

/-- Specification of std's `binary_search_by` on input sorted w.r.t. the comparator: it never
performs an out-of-bounds access; `Ok(i)` points at an `Equal` element; `Err(i)` means there is no
`Equal` element and `i` is the partition point (`Less` before, `Greater` from `i` on). -/
theorem binarySearchBy_spec {α : Type} (l : List α) (f : α → Ordering) (hs : SortedBy f l) :
    ∃ r, binarySearchBy l.toArray f = some r ∧
      match r with
      | .ok i => ∃ x, l[i]? = some x ∧ f x = Ordering.eq
      | .error i => i ≤ l.length ∧ (∀ j y, j < i → l[j]? = some y → f y = Ordering.lt) ∧
          (∀ j y, i ≤ j → l[j]? = some y → f y = Ordering.gt) := by
  unfold binarySearchBy
  by_cases h0 : l.length = 0
  · have : l = [] := List.eq_nil_of_length_eq_zero h0
    subst this
    simp
  · have h0' : (l.length == 0) = false := by simp [h0]
    simp only [List.size_toArray, h0', Bool.false_eq_true, if_false]
    obtain ⟨b, hb, hlt, hJ, hK⟩ := binarySearchLoop_spec l f hs l.length l.length 0
      (Nat.le_refl _) (by omega) (by omega) (Or.inl rfl)
      (fun j y hj hy => by
        have : l[j]? = none := List.getElem?_eq_none (by omega)
        rw [this] at hy; cases hy)
    simp only [hb, List.getElem?_toArray, List.getElem?_eq_getElem hlt]
    cases hc : f l[b] with
    | eq => exact ⟨.ok b, by simp, l[b], List.getElem?_eq_getElem hlt, hc⟩
    | lt =>
      refine ⟨.error (b + 1), by simp, ?_⟩
      refine ⟨by omega, ?_, hK⟩
      intro j y hj hy
      by_cases hjb : j = b
      · subst hjb; rw [List.getElem?_eq_getElem hlt] at hy; cases hy; exact hc
      · exact (hs j b y _ (by omega) hy (List.getElem?_eq_getElem hlt)).2 hc
    | gt =>
      refine ⟨.error b, by simp, ?_⟩
      have hb0 : b = 0 := by
        rcases hJ with h | ⟨x, hx, hx'⟩
        · exact h
        · rw [List.getElem?_eq_getElem hlt] at hx; cases hx; exact absurd hc hx'
      subst hb0
      refine ⟨by simp, by intro j y hj; omega, ?_⟩
      intro j y hj hy
      by_cases hjb : j = 0
      · subst hjb; rw [List.getElem?_eq_getElem hlt] at hy; cases hy; exact hc
      · exact (hs 0 j _ y (by omega) (List.getElem?_eq_getElem hlt) hy).1 hc

theorem WF_getElem_lt {s : IvList} (hs : WF s) {i j : Nat} {x y : Interval} (hij : i < j)
    (hx : s[i]? = some x) (hy : s[j]? = some y) : ivOk x ∧ ivOk y ∧ x.last + 1 < y.first := by
  obtain ⟨hok, hpw⟩ := (WF_iff s).1 hs
  obtain ⟨hi, rfl⟩ := List.getElem?_eq_some_iff.1 hx
  obtain ⟨hj, rfl⟩ := List.getElem?_eq_some_iff.1 hy
  exact ⟨hok _ (List.getElem_mem hi), hok _ (List.getElem_mem hj),
    (List.pairwise_iff_getElem.1 hpw) i j hi hj hij⟩

theorem compare_lt_iff (iv : Interval) (c : Nat) (h : iv.first ≤ iv.last) :
    iv.compare c = Ordering.lt ↔ iv.last < c := by
  simp only [Interval.compare]
  by_cases h1 : iv.first > c <;> by_cases h2 : iv.last < c <;> simp [h1, h2] <;> omega

theorem compare_gt_iff (iv : Interval) (c : Nat) :
    iv.compare c = Ordering.gt ↔ c < iv.first := by
  simp only [Interval.compare]
  by_cases h1 : iv.first > c <;> by_cases h2 : iv.last < c <;> simp [h1, h2] <;> omega

theorem sortedBy_compare {s : IvList} (hs : WF s) (c : Nat) :
    SortedBy (fun iv => iv.compare c) s := by
  intro i j x y hij hx hy
  obtain ⟨hx', hy', h⟩ := WF_getElem_lt hs hij hx hy
  simp only [ivOk] at hx' hy'
  simp only [compare_lt_iff _ _ hx'.1, compare_lt_iff _ _ hy'.1, compare_gt_iff]
  omega

theorem takeWhile_length_eq {α} (p : α → Bool) (l : List α) : ∀ (i : Nat), i ≤ l.length →
    (∀ j y, j < i → l[j]? = some y → p y = true) →
    (∀ j y, i ≤ j → l[j]? = some y → p y = false) → (l.takeWhile p).length = i := by
  induction l with
  | nil => intro i hi _ _; simp at hi; simp [hi]
  | cons a t ih =>
    intro i hi h1 h2
    cases i with
    | zero =>
      have := h2 0 a (Nat.le_refl _) (by simp)
      simp [this]
    | succ i =>
      have := h1 0 a (by omega) (by simp)
      simp only [List.takeWhile_cons, this, if_true, List.length_cons, Nat.add_right_cancel_iff]
      apply ih i (by simpa using hi)
      · intro j y hj hy; exact h1 (j + 1) y (by omega) (by simpa using hy)
      · intro j y hj hy; exact h2 (j + 1) y (by omega) (by simpa using hy)

theorem SortedBy_drop {α} {f : α → Ordering} {l : List α} (h : SortedBy f l) (k : Nat) :
    SortedBy f (l.drop k) := by
  intro i j x y hij hx hy
  rw [List.getElem?_drop] at hx hy
  exact h (k + i) (k + j) x y (by omega) hx hy

theorem SortedBy_then_gt {α} {f : α → Ordering} {l : List α} (h : SortedBy f l) :
    SortedBy (fun v => (f v).then Ordering.gt) l := by
  intro i j x y hij hx hy
  have := h i j x y hij hx hy
  dsimp only
  revert this
  cases f x <;> cases f y <;> simp [Ordering.then]

theorem SortedBy_then_lt {α} {f : α → Ordering} {l : List α} (h : SortedBy f l) :
    SortedBy (fun v => (f v).then Ordering.lt) l := by
  intro i j x y hij hx hy
  have := h i j x y hij hx hy
  dsimp only
  revert this
  cases f x <;> cases f y <;> simp [Ordering.then]

/-- On input sorted w.r.t. `f`, the faithful `equal_range_by` never panics and returns the result
of the linear scan. -/
theorem equalRangeBy_spec {α} (l : List α) (f : α → Ordering) (h : SortedBy f l) :
    equalRangeBy l f =
      some ((l.takeWhile (fun v => f v == Ordering.lt)).length,
            (l.takeWhile (fun v => f v == Ordering.lt)).length +
              ((l.drop (l.takeWhile (fun v => f v == Ordering.lt)).length).takeWhile
                (fun v => f v == Ordering.eq)).length) := by
  unfold equalRangeBy
  obtain ⟨r1, hr1, hs1⟩ := binarySearchBy_spec l _ (SortedBy_then_gt h)
  rw [hr1]
  cases r1 with
  | ok i =>
    obtain ⟨x, _, hx⟩ := hs1
    revert hx; cases f x <;> simp [Ordering.then]
  | error left =>
    obtain ⟨hle, h1, h2⟩ := hs1
    have hleft : (l.takeWhile (fun v => f v == Ordering.lt)).length = left := by
      apply takeWhile_length_eq _ _ _ hle
      · intro j y hj hy
        have := h1 j y hj hy
        revert this; cases f y <;> simp [Ordering.then]
      · intro j y hj hy
        have := h2 j y hj hy
        revert this; cases f y <;> simp [Ordering.then]
    simp only
    obtain ⟨r2, hr2, hs2⟩ := binarySearchBy_spec (l.drop left) _ (SortedBy_then_lt (SortedBy_drop h left))
    rw [hr2]
    cases r2 with
    | ok i =>
      obtain ⟨x, _, hx⟩ := hs2
      revert hx; cases f x <;> simp [Ordering.then]
    | error right =>
      obtain ⟨hle2, h3, h4⟩ := hs2
      have hright : ((l.drop left).takeWhile (fun v => f v == Ordering.eq)).length = right := by
        apply takeWhile_length_eq _ _ _ hle2
        · intro j y hj hy
          have h5 := h3 j y hj hy
          have h6 := h2 (left + j) y (by omega) (by rw [List.getElem?_drop] at hy; exact hy)
          revert h5 h6; cases f y <;> simp [Ordering.then]
        · intro j y hj hy
          have := h4 j y hj hy
          revert this; cases f y <;> simp [Ordering.then]
      simp only [hleft, hright, Nat.add_comm]

theorem mergecmp_lt' (a b : Interval) : a.mergecmp b = Ordering.lt ↔ a.last + 1 < b.first := by
  simp only [Interval.mergecmp, Interval.isStrictlyBefore]
  by_cases h1 : a.last + 1 < b.first <;> by_cases h2 : b.last + 1 < a.first <;> simp [h1, h2]

theorem mergecmp_gt' (a b : Interval) :
    a.mergecmp b = Ordering.gt ↔ ¬ a.last + 1 < b.first ∧ b.last + 1 < a.first := by
  simp only [Interval.mergecmp, Interval.isStrictlyBefore]
  by_cases h1 : a.last + 1 < b.first <;> by_cases h2 : b.last + 1 < a.first <;> simp [h1, h2]

theorem sortedBy_mergecmp {s : IvList} (hs : WF s) (niv : Interval) (hn : niv.first ≤ niv.last) :
    SortedBy (fun iv => iv.mergecmp niv) s := by
  intro i j x y hij hx hy
  obtain ⟨hx', hy', h⟩ := WF_getElem_lt hs hij hx hy
  simp only [ivOk] at hx' hy'
  simp only [mergecmp_lt', mergecmp_gt']
  omega

end Regress.CPS
