import Proofs.Lemmas.KeystoneInsn
import Proofs.Lemmas.KeystoneCode
import Proofs.Lemmas.KeystoneLeaf
/-!
# Keystone, part 5: running the code of a node computes its semantics

`Frag … n fwd b e l`: whenever the PikeVM is about to run a state `s` (representing `σ`) positioned
at `b`, where the code of `n` sits (`Code … n (!fwd) b e l`), on top of a stack `rest`, then a fine
outcome decomposes into tries (`Tries`) of the successes `sem inp n fwd σ`, in order, each
represented by a state positioned at `e` whose loop slots outside the loops of `n` are those of `s`.
-/
namespace Regress.Keystone

open Regress.VM Regress.VM.Pk Regress.IR
open Regress.VM.Bt (LoopData GroupData)

/-- `j` is the id of one of the loops numbered `l, …, l + k - 1`. -/
def LoopIdIn (l k j : Nat) : Prop := ∃ x, l ≤ x ∧ x < l + k ∧ x % 65536 = j

/-- The loop slots other than those of the loops `l, …, l + k - 1` are unchanged. -/
def LoopsFrame (l k : Nat) (s t : State) : Prop := ∀ j, ¬ LoopIdIn l k j → t.loops[j]? = s.loops[j]?

theorem LoopsFrame.refl (l k : Nat) (s : State) : LoopsFrame l k s s := fun _ _ => rfl

theorem LoopsFrame.of_eq {l k : Nat} {s t : State} (h : t.loops = s.loops) : LoopsFrame l k s t :=
  fun _ _ => by rw [h]

theorem LoopsFrame.trans {l k k' : Nat} {s t u : State} (h1 : LoopsFrame l k s t)
    (h2 : LoopsFrame (l + k) k' t u) : LoopsFrame l (k + k') s u := by
  intro j hj
  rw [h2 j (fun ⟨x, h⟩ => hj ⟨x, by omega, by omega, h.2.2⟩),
    h1 j (fun ⟨x, h⟩ => hj ⟨x, by omega, by omega, h.2.2⟩)]

theorem LoopsFrame.weaken {l k l' k' : Nat} {s t : State} (h : LoopsFrame l' k' s t)
    (h1 : l ≤ l') (h2 : l' + k' ≤ l + k) : LoopsFrame l k s t :=
  fun j hj => h j (fun ⟨x, hx⟩ => hj ⟨x, by omega, by omega, hx.2.2⟩)

/-- The result `r` is represented by `t`, positioned at `e`, loop slots framed. -/
def Out (e l k : Nat) (s : State) (r : St) (t : State) : Prop :=
  Rel r t ∧ t.ip = e ∧ LoopsFrame l k s t

section
variable (prog : Prog) (inp : Input) (limit : Nat) (cs : List Nat)

/-- See the header. -/
def Frag (n : Node) (fwd : Bool) (b e l : Nat) : Prop :=
  ∀ (s : State) (σ : St), Rel σ s → Good cs σ → s.ip = b →
    ∀ (rest : Array State) (sf steps peak : Nat),
      Fine (runStates prog inp limit sf (rest.push s) fwd steps peak) →
      Tries prog inp limit fwd (Out e l (numLoops n) s) rest (sem inp n fwd σ)
        (runStates prog inp limit sf (rest.push s) fwd steps peak)

/-- The same for the children of a `Cat`. -/
def FragList (ns : List Node) (fwd : Bool) (b e l : Nat) : Prop :=
  ∀ (s : State) (σ : St), Rel σ s → Good cs σ → s.ip = b →
    ∀ (rest : Array State) (sf steps peak : Nat),
      Fine (runStates prog inp limit sf (rest.push s) fwd steps peak) →
      Tries prog inp limit fwd (Out e l (numLoopsList ns) s) rest (semCat inp ns fwd σ)
        (runStates prog inp limit sf (rest.push s) fwd steps peak)

variable {prog inp limit cs}

/-- Strengthening the representation predicate by a property of the results. -/
theorem Tries.and_mem {fwd : Bool} {P : St → State → Prop} {G : St → Prop} {rest : Array State} :
    ∀ {l : List St} {o : Outcome}, (∀ r ∈ l, G r) → Tries prog inp limit fwd P rest l o →
      Tries prog inp limit fwd (fun r t => P r t ∧ G r) rest l o
  | [], _, _, h => h
  | r :: rs, _, hg, ⟨pend, sf, steps, peak, t, hp, ho, hk⟩ =>
    ⟨pend, sf, steps, peak, t, ⟨hp, hg r (by simp)⟩, ho, fun sf' steps' peak' hf =>
      Tries.and_mem (l := rs) (fun r' hr' => hg r' (by simp [hr'])) (hk sf' steps' peak' hf)⟩

/-! ## One simple instruction -/

/-- Running a simple instruction. -/
theorem run_simple {fwd : Bool} {s : State} {i : Insn} (hi : prog.insns[s.ip]? = some i) {o : Option Nat}
    (ho : insnOpt prog inp fwd (capsOfState s) s.pos i = some o)
    {rest : Array State} {sf steps peak : Nat}
    (hf : Fine (runStates prog inp limit sf (rest.push s) fwd steps peak)) :
    match o with
    | none => ∃ sf' steps' peak', runStates prog inp limit sf (rest.push s) fwd steps peak =
        runStates prog inp limit sf' rest fwd steps' peak'
    | some p => ∃ sf' steps' peak', runStates prog inp limit sf (rest.push s) fwd steps peak =
        runStates prog inp limit sf' (rest.push { s with pos := p, ip := s.ip + 1 }) fwd steps' peak' := by
  obtain ⟨sf', rfl, he⟩ := fine_step prog inp limit hf
  rw [he] at hf ⊢
  have hs := tms_simple prog inp (lookOf prog inp limit sf') prog.insns.size s fwd (steps + 1)
    (if peak < rest.size + 1 then rest.size + 1 else peak) hi ho
  cases o with
  | none =>
    rcases hs with ⟨p', hs⟩ | ⟨e, hs⟩
    · rw [hs]; exact ⟨sf', _, _, rfl⟩
    · rw [hs] at hf; exact hf.elim
  | some p =>
    simp only [SimpleOut] at hs
    rw [hs]; exact ⟨sf', _, _, rfl⟩

/-- `Frag` for a node whose code is one simple instruction. -/
theorem frag_simple {n : Node} {fwd : Bool} {b l : Nat} {i : Insn} (hat : At prog.insns b i)
    (hopt : ∀ (σ : St), Good cs σ → ∃ o,
      insnOpt prog inp fwd σ.caps σ.pos i = some o ∧ sem inp n fwd σ = optSt σ o) :
    Frag prog inp limit cs n fwd b (b + 1) l := by
  intro s σ hrel hgood hip rest sf steps peak hf
  obtain ⟨o, ho, hsem⟩ := hopt σ hgood
  rw [← hrel.caps, ← hrel.pos] at ho
  have hi : prog.insns[s.ip]? = some i := by rw [hip]; exact hat
  have := run_simple hi ho hf
  rw [hsem]
  cases o with
  | none =>
    obtain ⟨sf', steps', peak', he⟩ := this
    exact Tries.nil_of_eq he
  | some p =>
    obtain ⟨sf', steps', peak', he⟩ := this
    refine Tries.single ⟨⟨?_, ?_, ?_⟩, ?_, ?_⟩ he
    · rfl
    · exact hrel.caps
    · exact hrel.l1
    · simp [hip]
    · exact LoopsFrame.of_eq rfl

/-! ## Straight-line code -/

/-- The instruction is simple (`insnOpt` is defined), whatever the state. -/
def IsSimple (prog : Prog) (inp : Input) (fwd : Bool) (i : Insn) : Prop :=
  ∀ caps pos, ∃ o, insnOpt prog inp fwd caps pos i = some o

/-- The effect of a simple instruction (a non-simple one counts as a failure). -/
def insnStep (prog : Prog) (inp : Input) (fwd : Bool) (caps : List Cap) (pos : Nat) (i : Insn) : Option Nat :=
  match insnOpt prog inp fwd caps pos i with
  | some o => o
  | none => none

/-- The effect of a sequence of simple instructions. -/
def seqOpt (prog : Prog) (inp : Input) (fwd : Bool) (caps : List Cap) : List Insn → Nat → Option Nat
  | [], pos => some pos
  | i :: is, pos =>
    match insnStep prog inp fwd caps pos i with
    | none => none
    | some p => seqOpt prog inp fwd caps is p

theorem run_seq {fwd : Bool} : ∀ (c : List Insn) (s : State) (b : Nat),
    (∀ i ∈ c, IsSimple prog inp fwd i) → InsnsAt prog.insns b c → s.ip = b →
    ∀ (rest : Array State) (sf steps peak : Nat),
    Fine (runStates prog inp limit sf (rest.push s) fwd steps peak) →
    match seqOpt prog inp fwd (capsOfState s) c s.pos with
    | none => ∃ sf' steps' peak', runStates prog inp limit sf (rest.push s) fwd steps peak =
        runStates prog inp limit sf' rest fwd steps' peak'
    | some p => ∃ sf' steps' peak', runStates prog inp limit sf (rest.push s) fwd steps peak =
        runStates prog inp limit sf' (rest.push { s with pos := p, ip := b + c.length }) fwd steps' peak'
  | [], s, b, _, _, hip, rest, sf, steps, peak, _ => by
    simp only [seqOpt]
    refine ⟨sf, steps, peak, ?_⟩
    congr 2
    cases s; simp at hip ⊢; exact hip
  | i :: is, s, b, hs, hat, hip, rest, sf, steps, peak, hf => by
    have hi : prog.insns[s.ip]? = some i := by
      have := hat 0 (by simp)
      simpa [At, hip] using this
    obtain ⟨o, ho⟩ := hs i (by simp) (capsOfState s) s.pos
    have h1 := run_simple hi ho hf
    simp only [seqOpt, insnStep, ho]
    cases o with
    | none => exact h1
    | some p =>
      obtain ⟨sf', steps', peak', he⟩ := h1
      rw [he] at hf ⊢
      have hat' : InsnsAt prog.insns (b + 1) is := by
        intro k hk
        have := hat (k + 1) (by simp; omega)
        simpa [At, Nat.add_assoc, Nat.add_comm 1 k] using this
      have ih := run_seq is { s with pos := p, ip := s.ip + 1 } (b + 1)
        (fun j hj => hs j (by simp [hj])) hat' (by simp [hip]) rest sf' steps' peak' hf
      have hc : capsOfState { s with pos := p, ip := s.ip + 1 } = capsOfState s := rfl
      rw [hc] at ih
      dsimp only at ih
      dsimp only
      cases hq : seqOpt prog inp fwd (capsOfState s) is p with
      | none => rw [hq] at ih; exact ih
      | some p' =>
        rw [hq] at ih
        dsimp only at ih ⊢
        obtain ⟨sf'', steps'', peak'', he'⟩ := ih
        refine ⟨sf'', steps'', peak'', ?_⟩
        rw [he']
        simp [Nat.add_assoc, Nat.add_comm 1]

/-! ## Jumps, splits, capture groups -/

theorem run_jump {fwd : Bool} {s : State} {t : Nat} (hi : prog.insns[s.ip]? = some (.jump t))
    {rest : Array State} {sf steps peak : Nat}
    (hf : Fine (runStates prog inp limit sf (rest.push s) fwd steps peak)) :
    ∃ sf' steps' peak', runStates prog inp limit sf (rest.push s) fwd steps peak =
      runStates prog inp limit sf' (rest.push { s with ip := t }) fwd steps' peak' := by
  obtain ⟨sf', rfl, he⟩ := fine_step prog inp limit hf
  rw [he]
  unfold tryMatchState
  rw [hi]
  exact ⟨sf', _, _, rfl⟩

theorem run_alt {fwd : Bool} {s : State} {t : Nat} (hi : prog.insns[s.ip]? = some (.alt t))
    {rest : Array State} {sf steps peak : Nat}
    (hf : Fine (runStates prog inp limit sf (rest.push s) fwd steps peak)) :
    ∃ sf' steps' peak', runStates prog inp limit sf (rest.push s) fwd steps peak =
      runStates prog inp limit sf' ((rest.push { s with ip := t }).push { s with ip := s.ip + 1 })
        fwd steps' peak' := by
  obtain ⟨sf', rfl, he⟩ := fine_step prog inp limit hf
  rw [he]
  unfold tryMatchState
  rw [hi]
  exact ⟨sf', _, _, rfl⟩

theorem run_groupArm {fwd : Bool} {s : State} {g : Nat} {upd : GroupData → GroupData} {site : String}
    (htms : ∀ look d steps peak, tryMatchState prog inp look (d + 1) s fwd steps peak =
      groupArm g upd s site steps peak)
    {rest : Array State} {sf steps peak : Nat}
    (hf : Fine (runStates prog inp limit sf (rest.push s) fwd steps peak)) :
    ∃ cg sf' steps' peak', s.groups[g]? = some cg ∧
      runStates prog inp limit sf (rest.push s) fwd steps peak =
      runStates prog inp limit sf' (rest.push
        { s with groups := s.groups.setIfInBounds g (upd cg), ip := s.ip + 1 }) fwd steps' peak' := by
  obtain ⟨sf', rfl, he⟩ := fine_step prog inp limit hf
  rw [he] at hf ⊢
  rw [htms] at hf ⊢
  unfold groupArm at hf ⊢
  cases hg : s.groups[g]? with
  | none => rw [hg] at hf; exact hf.elim
  | some cg => exact ⟨cg, sf', _, _, rfl, rfl⟩

theorem caps_set {groups : Array GroupData} {g : Nat} {cg v : GroupData} {f : Cap → Cap}
    (hg : groups[g]? = some cg) (hv : capOf v = f (capOf cg)) :
    (groups.setIfInBounds g v).toList.map capOf = (groups.toList.map capOf).modify g f := by
  apply List.ext_getElem?
  intro k
  rw [List.getElem?_modify]
  simp only [List.getElem?_map, Array.getElem?_toList, Array.getElem?_setIfInBounds]
  by_cases hk : g = k
  · subst hk
    have : g < groups.size := by
      rcases Nat.lt_or_ge g groups.size with h | h
      · exact h
      · rw [Array.getElem?_eq_none h] at hg; cases hg
    have hcg : groups[g] = cg := by
      rw [Array.getElem?_eq_getElem this] at hg; exact Option.some.inj hg
    simp [this, hcg, hv]
  · simp [hk]

/-- `BeginCaptureGroup` (travelling forward) / `EndCaptureGroup` (travelling backward). -/
theorem rel_setStart {σ : St} {s : State} (hrel : Rel σ s) {g : Nat} {cg : GroupData}
    (hg : s.groups[g]? = some cg) (ip : Nat) :
    Rel (σ.setStart g σ.pos)
      { s with groups := s.groups.setIfInBounds g { cg with start := some s.pos }, ip := ip } := by
  refine ⟨hrel.pos, ?_, hrel.l1⟩
  simp only [capsOfState, St.setStart]
  rw [caps_set hg (f := fun c => (some σ.pos, c.2)) (by simp [capOf, hrel.pos])]
  rw [← hrel.caps]; rfl

theorem rel_setEnd {σ : St} {s : State} (hrel : Rel σ s) {g : Nat} {cg : GroupData}
    (hg : s.groups[g]? = some cg) (ip : Nat) :
    Rel (σ.setEnd g σ.pos)
      { s with groups := s.groups.setIfInBounds g { cg with end_ := some s.pos }, ip := ip } := by
  refine ⟨hrel.pos, ?_, hrel.l1⟩
  simp only [capsOfState, St.setEnd]
  rw [caps_set hg (f := fun c => (c.1, some σ.pos)) (by simp [capOf, hrel.pos])]
  rw [← hrel.caps]; rfl

end

end Regress.Keystone
