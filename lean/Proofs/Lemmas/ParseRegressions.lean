import Proofs.C08
/-!
# Regression record: ten lexical fixes of `src/parse.rs`

One kernel-checked statement per fix, on the concrete pattern of the commit message, about the
CURRENT parser model (`RegressModel/Syntax/Parse*.lean`, tied to the real parser by the C08
differential).  `pat!`, `accepted`, `rejected`, `all_flags` are those of `Proofs/C08.lean`.
Each statement was false of the model of the code before the fix named next to it.

1. `f66b1e0` reject a quantifier after `\b` and `\B`
2. `74c9c3e` v-mode class accepts two different reserved punctuators in a row
3. `b04f230` reject a sign in `\u` escapes
4. `84282bf` v-mode class set character may not be an unescaped bracket
5. `defcb54` v-mode class intersection rejects a third `&`
6. `ae0f8b1` `[\k]` is an error when the pattern has named groups
7. `ea769d1` reversed quantifier bounds beyond `usize::MAX` are an error
8. `9326cb5` v-mode class takes a single `&` after the first operand as an ordinary character
9. `8cf1774` `\b` inside a v-mode class is backspace
10. `da32cfe` a lone `\uD8xx` escape no longer swallows the next `\u`
11. `f5d720f` v-mode class strings are compared up to case under the `i` flag (not lexical:
    `close_class_set_operand` folds the strings of `Class` / `ClassStringDisjunction` operands)
12. `8828538` negated v-mode class rejects strings by MayContainStrings, not per operand
    (`ClassSet.mayContainStrings`; the `in_negated_class` parameter is gone).
13. `5913a34` a negated v-mode class covers one-character strings of a property of strings
    (`ClassSet.absorbSingleCharacters`); the defect it repairs was exposed by 12 and is kept as a
    closed statement about the old `ClassSet::node` (`OldNode.negation_lost`).
14. `5bd5930` duplicate group names in two groups of one alternative are an error (the pre-scan
    records `(group, alternative)` per nesting level instead of `(depth, alternative)`).
-/
namespace Regress.ParseRegressions
open Regress Regress.IR Regress.Parse Regress.C08

/-- The pattern parsed to the single non-inverted bracket with exactly the intervals `ivs`
(`(cat (bracket 0 ivs) (goal))`). -/
def isBracket (r : Res Regex) (ivs : List (Nat × Nat)) : Bool :=
  match r with
  | .ok re =>
    match re.node with
    | .cat [.bracket bc, .goal] => !bc.invert && bc.ivs == ivs
    | _ => false
  | .error _ => false

/-- The pattern parsed to the single character `c` (`(cat (char c) (goal))`). -/
def isChar1 (r : Res Regex) (c : Nat) : Bool :=
  match r with
  | .ok re =>
    match re.node with
    | .cat [.char d, .goal] => d == c
    | _ => false
  | .error _ => false

/-- The `v` flag alone (`parse` turns `unicode` on as well). -/
def vFlags : Flags := { unicodeSets := true }
/-- The `u` flag alone. -/
def uFlags : Flags := { unicode := true }

/-! ## 1. A word boundary assertion is not quantifiable -/

/-- `\b*`, `\B{2}`, `\b+?`, `\B?` are syntax errors under all 64 flag combinations. -/
theorem quantified_word_boundary_rejected : ∀ fl : Flags,
    rejected (parse (pat! "\\b*") fl) = true ∧ rejected (parse (pat! "\\B{2}") fl) = true ∧
    rejected (parse (pat! "\\b+?") fl) = true ∧ rejected (parse (pat! "a\\B?") fl) = true := by
  all_flags

/-- Contrast: unquantified they are accepted; in legacy mode `\b{` is `\b` then a literal brace. -/
example : ∀ fl : Flags,
    accepted (parse (pat! "a\\b") fl) = true ∧ accepted (parse (pat! "\\Ba*") fl) = true ∧
    accepted (parse (pat! "\\b{") fl) = !uMode fl := by
  all_flags

/-! ## 2. Only a DOUBLED punctuator is a ClassSetReservedDoublePunctuator -/

theorem different_punctuators_accepted :
    isBracket (parse (pat! "[!#]") vFlags) [(0x21, 0x21), (0x23, 0x23)] = true ∧
    isBracket (parse (pat! "[+&a]") vFlags) [(0x26, 0x26), (0x2B, 0x2B), (0x61, 0x61)] = true := by
  decide +kernel

/-- Contrast: the same punctuator twice is still rejected. -/
example : rejected (parse (pat! "[!!]") vFlags) = true ∧ rejected (parse (pat! "[a##]") vFlags) = true ∧
    rejected (parse (pat! "[&&]") vFlags) = true := by
  decide +kernel

/-! ## 3. No sign in `\u` escapes -/

theorem signed_unicode_escape_rejected :
    rejected (parse (pat! "\\u{+41}") uFlags) = true ∧ rejected (parse (pat! "\\u+041") uFlags) = true ∧
    rejected (parse (pat! "[\\u{+41}]") uFlags) = true ∧ rejected (parse (pat! "\\u{+41}") vFlags) = true ∧
    rejected (parse (pat! "\\uD83D\\u+C00") uFlags) = true := by
  decide +kernel

/-- The helper itself: a sign makes every one of the three reads fail (the third falls back to the
lone high surrogate and leaves the second `\u` unread). -/
theorem signed_unicode_escape_none :
    tryEscapeUnicodeSequence (pat! "{+41}") = (none, pat! "{+41}") ∧
    tryEscapeUnicodeSequence (pat! "+041") = (none, pat! "+041") ∧
    tryEscapeUnicodeSequence (pat! "D83D\\u+C00") = (some 0xD83D, pat! "\\u+C00") := by
  decide +kernel

/-- Contrast: without a sign the escapes are read; in legacy mode `\u+041` is `u+` then `041`. -/
example : isChar1 (parse (pat! "\\u{41}") uFlags) 0x41 = true ∧ isChar1 (parse (pat! "\\u0041") {}) 0x41 = true ∧
    accepted (parse (pat! "\\u+041") {}) = true := by
  decide +kernel

/-! ## 4. `[` and `]` are not class set characters -/

theorem bracket_as_class_set_character_rejected :
    rejected (parse (pat! "[A-]]") vFlags) = true ∧ rejected (parse (pat! "[\\q{]}]") vFlags) = true ∧
    rejected (parse (pat! "[A-[]") vFlags) = true ∧ rejected (parse (pat! "[\\q{[}]") vFlags) = true := by
  decide +kernel

theorem classSetCharacter_bracket (u hn : Bool) (rest : List Nat) :
    classSetCharacter u hn (0x5B :: rest) = synErr "Invalid class set character" ∧
    classSetCharacter u hn (0x5D :: rest) = synErr "Invalid class set character" := by
  constructor <;> rfl

/-- Contrast: escaped, the bracket is a range end. -/
example : isBracket (parse (pat! "[A-\\]]") vFlags) [(0x41, 0x5D)] = true := by decide +kernel

/-! ## 5. ClassIntersection: `&&` is not followed by `&` -/

theorem triple_ampersand_rejected :
    rejected (parse (pat! "[a&&&]") vFlags) = true ∧ rejected (parse (pat! "[a&&&b]") vFlags) = true ∧
    rejected (parse (pat! "[a&&b&&&c]") vFlags) = true := by
  decide +kernel

/-- Contrast: a plain intersection, and an escaped `&` as operand. -/
example : isBracket (parse (pat! "[a&&a]") vFlags) [(0x61, 0x61)] = true ∧
    isBracket (parse (pat! "[\\&&&\\&]") vFlags) [(0x26, 0x26)] = true := by
  decide +kernel

/-! ## 6. `\k` is not an identity escape once the pattern has a named group -/

/-- `[\k]` next to a named group (before or after it) is a syntax error under all flags. -/
theorem class_k_escape_rejected_with_named_groups : ∀ fl : Flags,
    rejected (parse (pat! "(?<a>x)[\\k]") fl) = true ∧ rejected (parse (pat! "[\\k](?<a>x)") fl) = true ∧
    rejected (parse (pat! "(?<a>x)[a-\\k]") fl) = true := by
  all_flags

theorem characterEscape_k (rest : List Nat) :
    characterEscape false true (0x6B :: rest) = synErr "Invalid character escape" ∧
    characterEscape false false (0x6B :: rest) = .ok (0x6B, rest) := by
  constructor <;> rfl

/-- Contrast: with no named group `[\k]` is `k` in legacy mode (and an error under `u`/`v`). -/
example : isBracket (parse (pat! "[\\k]") {}) [(0x6B, 0x6B)] = true ∧
    rejected (parse (pat! "[\\k]") uFlags) = true ∧ rejected (parse (pat! "[\\k]") vFlags) = true := by
  decide +kernel

/-! ## 7. Reversed bounds that both saturate `usize` -/

theorem reversed_saturated_bounds_rejected : ∀ fl : Flags,
    rejected (parse (pat! "a{99999999999999999999,99999999999999999998}") fl) = true := by
  all_flags

/-- Contrast: in order (or equal) they are accepted. -/
example : ∀ fl : Flags,
    accepted (parse (pat! "a{99999999999999999998,99999999999999999999}") fl) = true ∧
    accepted (parse (pat! "a{99999999999999999999,99999999999999999999}") fl) = true := by
  all_flags

/-- `try_consume_braced_quantifier` consumed everything and read the greedy quantifier `{mn,mx}`. -/
def quantIs (r : Res (Option Quant × List Nat)) (mn : Nat) (mx : Option Nat) : Bool :=
  match r with
  | .ok (some q, []) => q.min == mn && q.max == mx && q.greedy
  | _ => false

/-- The quantifier that is read: the maximum is lowered to `usize::MAX - 1`, and only then. -/
theorem bracedQuantifier_saturated :
    quantIs (bracedQuantifier (pat! "{99999999999999999999,99999999999999999998}"))
      USIZE_MAX (some (USIZE_MAX - 1)) = true ∧
    quantIs (bracedQuantifier (pat! "{99999999999999999998,99999999999999999999}"))
      USIZE_MAX (some USIZE_MAX) = true ∧
    quantIs (bracedQuantifier (pat! "{99999999999999999999,}")) USIZE_MAX none = true ∧
    quantIs (bracedQuantifier (pat! "{18446744073709551615,18446744073709551614}"))
      USIZE_MAX (some (USIZE_MAX - 1)) = true := by
  decide +kernel

/-! ## 8. A single `&` after the first operand is an ordinary character -/

/-- `[A&-Z]` is `A` plus the range `&`–`Z` (which contains `A`): the one interval `0x26–0x5A`. -/
theorem single_ampersand_range :
    isBracket (parse (pat! "[A&-Z]") vFlags) [(0x26, 0x5A)] = true ∧
    isBracket (parse (pat! "[0&-A]") vFlags) [(0x26, 0x41)] = true ∧
    isBracket (parse (pat! "[\\d&-Z]") vFlags) [(0x26, 0x5A)] = true := by
  decide +kernel

/-- Contrast: without a range the `&` is added as before; a reversed range is an error. -/
example : isBracket (parse (pat! "[A&]") vFlags) [(0x26, 0x26), (0x41, 0x41)] = true ∧
    isBracket (parse (pat! "[A&b]") vFlags) [(0x26, 0x26), (0x41, 0x41), (0x62, 0x62)] = true ∧
    rejected (parse (pat! "[A&-!]") vFlags) = true := by
  decide +kernel

/-! ## 9. `\b` in a `v`-mode class is U+0008 -/

theorem class_set_backspace :
    isBracket (parse (pat! "[\\b]") vFlags) [(8, 8)] = true ∧
    isBracket (parse (pat! "[a\\b]") vFlags) [(8, 8), (0x61, 0x61)] = true ∧
    isBracket (parse (pat! "[\\b-\\n]") vFlags) [(8, 10)] = true ∧
    isBracket (parse (pat! "[\\q{\\b}]") vFlags) [(8, 8)] = true := by
  decide +kernel

/-- As in the other modes. -/
example : isBracket (parse (pat! "[\\b]") {}) [(8, 8)] = true ∧
    isBracket (parse (pat! "[\\b]") uFlags) [(8, 8)] = true := by
  decide +kernel

/-! ## 10. A lone high-surrogate escape leaves the next `\u` unread -/

/-- `[\uD83DA]` is `{U+0041, U+D83D}` (not `{0, 1, 4, U+D83D}`), with and without `u`. -/
theorem lone_surrogate_then_escape :
    isBracket (parse (pat! "[\\uD83D\\u0041]") {}) [(0x41, 0x41), (0xD83D, 0xD83D)] = true ∧
    isBracket (parse (pat! "[\\uD83D\\u0041]") uFlags) [(0x41, 0x41), (0xD83D, 0xD83D)] = true ∧
    isBracket (parse (pat! "[\\uD83DA]") {}) [(0x41, 0x41), (0xD83D, 0xD83D)] = true := by
  decide +kernel

theorem tryEscapeUnicodeSequence_lone_surrogate :
    tryEscapeUnicodeSequence (pat! "D83D\\u0041]") = (some 0xD83D, pat! "\\u0041]") ∧
    tryEscapeUnicodeSequence (pat! "D83D\\u00") = (some 0xD83D, pat! "\\u00") := by
  decide +kernel

/-- Contrast: a surrogate pair is still combined. -/
example : isBracket (parse (pat! "[\\uD83D\\uDC00]") {}) [(0x1F400, 0x1F400)] = true ∧
    tryEscapeUnicodeSequence (pat! "D83D\\uDC00]") = (some 0x1F400, pat! "]") := by
  decide +kernel

/-! ## 11. Under `v` + `i` the operands of `&&` and `--` have their strings case-folded -/

/-- The pattern parsed to the single string set `alts` with the given `icase`
(`(cat (strset icase alts) (goal))`). -/
def isStringSet (r : Res Regex) (alts : List (List Nat)) (icase : Bool) : Bool :=
  match r with
  | .ok re =>
    match re.node with
    | .cat [.stringSet a ic, .goal] => a == alts && ic == icase
    | _ => false
  | .error _ => false

def viFlags : Flags := { unicodeSets := true, icase := true }

/-- `[\q{ab}&&\q{AB}]` under `vi` is the string `ab` (matched ignoring case); `[\q{ab}--\q{AB}]`
is empty; a nested class and duplicates that only differ by case behave the same. -/
theorem class_strings_folded :
    isStringSet (parse (pat! "[\\q{ab}&&\\q{AB}]") viFlags) [[0x61, 0x62]] true = true ∧
    isBracket (parse (pat! "[\\q{ab}--\\q{AB}]") viFlags) [] = true ∧
    isStringSet (parse (pat! "[\\q{ab}&&[\\q{AB}c]]") viFlags) [[0x61, 0x62]] true = true ∧
    isStringSet (parse (pat! "[\\q{ab|AB|Ab}&&\\q{aB}]") viFlags) [[0x61, 0x62]] true = true := by
  decide +kernel

theorem foldAlternativeStrings_dedup :
    foldAlternativeStrings [pat! "ab", pat! "AB", pat! "c", pat! "Ab", pat! ""] =
      [pat! "ab", pat! "c", pat! ""] := by
  decide +kernel

/-- Contrast: without `i` the strings are compared exactly. -/
example : isBracket (parse (pat! "[\\q{ab}&&\\q{AB}]") vFlags) [] = true ∧
    isStringSet (parse (pat! "[\\q{ab}--\\q{AB}]") vFlags) [[0x61, 0x62]] false = true := by
  decide +kernel

/-! ## 12. A negated class is rejected when its contents MAY CONTAIN STRINGS -/

/-- The pattern parsed to the single INVERTED bracket with exactly the intervals `ivs`. -/
def isNegBracket (r : Res Regex) (ivs : List (Nat × Nat)) : Bool :=
  match r with
  | .ok re =>
    match re.node with
    | .cat [.bracket bc, .goal] => bc.invert && bc.ivs == ivs
    | _ => false
  | .error _ => false

/-- A subtraction may contain strings only if its first operand may, an intersection only if every
operand may: `[^a--\q{bc}]` is `[^a]`, `[^\q{ab}&&a]` is the complement of the empty set. -/
theorem negated_class_without_strings_accepted :
    isNegBracket (parse (pat! "[^a--\\q{bc}]") vFlags) [(0x61, 0x61)] = true ∧
    isNegBracket (parse (pat! "[^\\q{ab}&&a]") vFlags) [] = true ∧
    isNegBracket (parse (pat! "[^a&&\\q{ab}]") vFlags) [] = true ∧
    isNegBracket (parse (pat! "[^\\q{a|b}]") vFlags) [(0x61, 0x62)] = true ∧
    isBracket (parse (pat! "[a[^b--\\q{ab}]]") vFlags) [(0, 0x61), (0x63, 0x10FFFF)] = true := by
  decide +kernel

theorem negated_class_with_strings_rejected :
    rejected (parse (pat! "[^\\q{ab}]") vFlags) = true ∧ rejected (parse (pat! "[^[\\q{ab}]]") vFlags) = true ∧
    rejected (parse (pat! "[^\\q{ab}--\\q{ab}]") vFlags) = true ∧ rejected (parse (pat! "[^\\q{}]") vFlags) = true ∧
    rejected (parse (pat! "[a[^\\q{ab}]]") vFlags) = true ∧ rejected (parse (pat! "[^a\\q{ab}]") vFlags) = true ∧
    rejected (parse (pat! "[^\\q{ab}&&\\q{ab}]") vFlags) = true := by
  decide +kernel

/-- The flag itself: union ORs, intersection ANDs, subtraction keeps the first operand's. -/
theorem mayContainStrings_rules (a b : ClassSet) (s : List (List Nat)) (c : Nat) (e : CPS.IvList) :
    (a.unionOperand (.cls b)).mayContainStrings = (a.mayContainStrings || b.mayContainStrings) ∧
    (a.unionOperand (.strs s)).mayContainStrings = true ∧
    (a.unionOperand (.char c)).mayContainStrings = a.mayContainStrings ∧
    (a.intersectOperand (.cls b)).mayContainStrings = (a.mayContainStrings && b.mayContainStrings) ∧
    (a.intersectOperand (.char c)).mayContainStrings = false ∧
    (a.intersectOperand (.esc e)).mayContainStrings = false ∧
    (a.intersectOperand (.strs s)).mayContainStrings = a.mayContainStrings ∧
    (a.subtractOperand (.cls b)).mayContainStrings = a.mayContainStrings ∧
    (a.subtractOperand (.strs s)).mayContainStrings = a.mayContainStrings :=
  ⟨rfl, rfl, rfl, rfl, rfl, rfl, rfl, rfl, rfl⟩

/-! ## 13. One-character strings are absorbed into the code points before complementing -/

/-- `[^\p{RGI_Emoji}&&⌚]` is the complement of `{U+231A}` (U+231A is one of the one-character
strings of `Basic_Emoji`, which a property of strings contributes as a STRING); nested, the
complement is taken of the absorbed set too; the non-negated class is the bracket `{U+231A}`. -/
theorem negated_single_codepoint_string :
    isNegBracket (parse (pat! "[^\\p{RGI_Emoji}&&⌚]") vFlags) [(0x231A, 0x231A)] = true ∧
    isBracket (parse (pat! "[a[^\\p{RGI_Emoji}&&⌚]]") vFlags) [(0, 0x2319), (0x231B, 0x10FFFF)] = true ∧
    isBracket (parse (pat! "[\\p{RGI_Emoji}&&⌚]") vFlags) [(0x231A, 0x231A)] = true := by
  decide +kernel

theorem absorbSingleCharacters_example :
    (ClassSet.absorbSingleCharacters { cps := [], alts := [[0x62], [0x61, 0x62], [], [0x61]] }).cps
      = [{ first := 0x61, last := 0x62 }] ∧
    (ClassSet.absorbSingleCharacters { cps := [], alts := [[0x62], [0x61, 0x62], [], [0x61]] }).alts
      = [[0x61, 0x62], []] := by
  decide +kernel

/-- The old `ClassSet::node` (between `8828538` and `5913a34`), kept to record the defect: the
intersection `\p{RGI_Emoji}&&⌚` has no code points and the one string `[U+231A]`, its
MayContainStrings is `false`, so `[^…]` was accepted; the old `node(_, negate_set = true)` inverted
only the (empty) code point part and, that part being empty, returned the strings alone: the
negation was lost (the real engine matched "⌚" with `/^[^\p{RGI_Emoji}&&⌚]$/v`). -/
def OldNode.node (self : ClassSet) (icase negateSet : Bool) : Node :=
  let hasEmpty := self.alts.any (fun s => s.isEmpty)
  let self' : ClassSet := { self with alts := self.alts.filter (fun s => !s.isEmpty) }
  let node := self'.nonemptyNode icase negateSet
  if hasEmpty then makeAlt [node, .empty] else node

theorem OldNode.negation_lost :
    (match OldNode.node { cps := [], alts := [[0x231A]] } false true with
      | .stringSet [[0x231A]] false => true | _ => false) = true ∧
    (match ClassSet.node { cps := [], alts := [[0x231A]] } false true with
      | .bracket ⟨true, [(0x231A, 0x231A)]⟩ => true | _ => false) = true := by
  decide +kernel

/-! ## 14. Duplicate names: which GROUP each nesting level belongs to matters -/

/-- Two groups of the same alternative can both take part in a match, so a name used in both is a
duplicate (all 64 flag combinations): `((?<a>x)|b)(c|(?<a>y))` was accepted because both
occurrences sit at depth 1 in alternatives 0 and 1 "of depth 1". -/
theorem duplicate_name_in_two_groups_rejected : ∀ fl : Flags,
    rejected (parse (pat! "((?<a>x)|b)(c|(?<a>y))") fl) = true ∧
    rejected (parse (pat! "(?<a>x)|(?:(?<a>y)(?<a>z))") fl) = true ∧
    rejected (parse (pat! "(?:a|(?<a>x))(?:b|(?<a>y))") fl) = true := by
  all_flags

/-- Contrast: different alternatives of the same group (at any level) do not conflict. -/
theorem duplicate_name_in_alternatives_accepted : ∀ fl : Flags,
    accepted (parse (pat! "(?:(?<a>x)|b)|(?:(?<a>y)|c)") fl) = true ∧
    accepted (parse (pat! "((?<a>x))|((?<a>y))") fl) = true ∧
    accepted (parse (pat! "((?<a>x)|(?:q(?<a>y)))") fl) = true := by
  all_flags

/-- `conflicts_with` on the paths of the first example (`[(0,0),(1,0)]` vs `[(0,0),(2,1)]`: two
groups) and of `(?<a>x)|(?<a>y)` (`[(0,0)]` vs `[(0,1)]`: one group); a prefix conflicts. -/
theorem conflictsWith_examples :
    conflictsWith [(0, 0), (1, 0)] [(0, 0), (2, 1)] = true ∧
    conflictsWith [(0, 0)] [(0, 1)] = false ∧
    conflictsWith [(0, 0), (1, 0)] [(0, 0), (1, 1), (2, 0)] = false ∧
    conflictsWith [(0, 0)] [(0, 0), (1, 0)] = true ∧
    conflictsWith [(0, 0), (1, 1)] [(0, 0), (1, 1)] = true := by
  decide

/-! ## 15. Only an unescaped `>` ends a group name -/

/-- An ESCAPED `>` (`\u003E`, `\u{3e}`) inside a group name is an error (all 64 flag combinations; ES
early error: the CharacterValue of a `\u` escape in a name must be an IdentifierPartChar).  The name
loop used to resolve the escape first and test `c == '>'` afterwards, so `(?<a\u003E)` was the group
`(?<a>)` and `(?<a\u{3e}b)` the group `a` containing `b`; the same in `\k<…>`. -/
theorem escaped_gt_in_group_name_rejected : ∀ fl : Flags,
    rejected (parse (pat! "(?<a\\u003E)") fl) = true ∧
    rejected (parse (pat! "(?<a\\u{3e}b)") fl) = true ∧
    rejected (parse (pat! "(?<a>)\\k<a\\u003e") fl) = true ∧
    rejected (parse (pat! "(?<\\u003Ea>)") fl) = true := by
  all_flags

/-- Contrast: an unescaped `>` ends the name; other escaped name characters are fine. -/
theorem group_name_escapes_accepted : ∀ fl : Flags,
    accepted (parse (pat! "(?<a>)\\k<a>") fl) = true ∧
    accepted (parse (pat! "(?<a\\u0062>)\\k<ab>") fl) = true ∧
    accepted (parse (pat! "(?<\\u{61}b>)\\k<a\\u{62}>") fl) = true := by
  all_flags

/-- The model's name loop on `a\u003E)` after a first character: no name. -/
theorem nameLoop_escaped_gt :
    (match nameLoop 20 (pat! "\\u003E)") [0x61] (pat! "a\\u003E)") with
      | .ok (none, _) => true | _ => false) = true ∧
    (match nameLoop 20 (pat! ">)") [0x61] (pat! "a>)") with
      | .ok (some [0x61], [0x29]) => true | _ => false) = true := by
  decide +kernel

end Regress.ParseRegressions

#print axioms Regress.ParseRegressions.quantified_word_boundary_rejected
#print axioms Regress.ParseRegressions.different_punctuators_accepted
#print axioms Regress.ParseRegressions.signed_unicode_escape_rejected
#print axioms Regress.ParseRegressions.signed_unicode_escape_none
#print axioms Regress.ParseRegressions.bracket_as_class_set_character_rejected
#print axioms Regress.ParseRegressions.classSetCharacter_bracket
#print axioms Regress.ParseRegressions.triple_ampersand_rejected
#print axioms Regress.ParseRegressions.class_k_escape_rejected_with_named_groups
#print axioms Regress.ParseRegressions.characterEscape_k
#print axioms Regress.ParseRegressions.reversed_saturated_bounds_rejected
#print axioms Regress.ParseRegressions.bracedQuantifier_saturated
#print axioms Regress.ParseRegressions.single_ampersand_range
#print axioms Regress.ParseRegressions.class_set_backspace
#print axioms Regress.ParseRegressions.lone_surrogate_then_escape
#print axioms Regress.ParseRegressions.tryEscapeUnicodeSequence_lone_surrogate
#print axioms Regress.ParseRegressions.class_strings_folded
#print axioms Regress.ParseRegressions.foldAlternativeStrings_dedup
#print axioms Regress.ParseRegressions.negated_class_without_strings_accepted
#print axioms Regress.ParseRegressions.negated_class_with_strings_rejected
#print axioms Regress.ParseRegressions.mayContainStrings_rules
#print axioms Regress.ParseRegressions.negated_single_codepoint_string
#print axioms Regress.ParseRegressions.absorbSingleCharacters_example
#print axioms Regress.ParseRegressions.OldNode.negation_lost
#print axioms Regress.ParseRegressions.duplicate_name_in_two_groups_rejected
#print axioms Regress.ParseRegressions.duplicate_name_in_alternatives_accepted
#print axioms Regress.ParseRegressions.conflictsWith_examples
#print axioms Regress.ParseRegressions.escaped_gt_in_group_name_rejected
#print axioms Regress.ParseRegressions.group_name_escapes_accepted
#print axioms Regress.ParseRegressions.nameLoop_escaped_gt
