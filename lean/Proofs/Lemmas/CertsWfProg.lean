import Proofs.Lemmas.CertsEmit
/-!
# Certificates, part 6: `wfProg` of every emitted program
-/
namespace Regress.Certs

open Regress.VM Regress.IR Regress.Keystone Regress.VM.Safety Regress.Gen Regress.Closure

theorem emit_startPred' {r : Regex} {prog : Prog} (he : VM.emit r = .ok prog) :
    predicateForRe r = .ok prog.startPred := by
  unfold VM.emit emitWith at he
  split at he
  · cases he
  · rename_i sp hsp
    split at he
    · cases he
    · cases he; exact hsp

/-- **`wfProg` of the root layout.** -/
theorem Root.wfProg {r : Regex} {prog : Prog} {sk : Sk} (R : Root r prog sk) (he : VM.emit r = .ok prog)
    (hw : WF r.node) (hng : numGroups r.node ≤ 65535) (hnl : numLoops r.node ≤ 65535)
    (hd : groupIdsDense r.node = true) : VM.wfProg prog = true := by
  have hpos := endsPlain_size_pos R.ends
  have hsz := R.size
  simp only [VM.wfProg, Bool.and_eq_true, Bool.or_eq_true, beq_iff_eq, decide_eq_true_eq, List.all_eq_true,
    List.mem_range, Array.all_eq_true]
  refine ⟨⟨⟨⟨⟨⟨?_, ?_⟩, ?_⟩, ?_⟩, ?_⟩, ?_⟩, ?_⟩
  · rw [Array.back?_eq_getElem?]
    have := R.lay.root_last R.ends
    rw [Nat.zero_add, ← hsz] at this
    exact this
  · rw [R.loops]; exact hnl
  · rw [R.groups]; exact hng
  · have := (names_by_id r prog he hd (by rw [groupList_length]; omega)).2.1
    rcases this with h | h
    · left; simp [h]
    · right; exact h
  · intro i hi
    exact R.brackets _ (Array.getElem_mem hi)
  · intro x hx
    obtain ⟨i, hi⟩ := R.lay.get x (Nat.zero_le _) (by omega)
    rw [hi]
    exact R.lay.root_wfInsn R.ok R.gsc R.ends (by omega) x (Nat.zero_le _) (by omega) i hi
  · exact predicateForRe_wf r hw (emit_startPred' he)

/-- **`emit_wfProg`.** Every program `emit` produces from a well-formed IR tree satisfying the
IR-level side conditions is structurally well-formed. -/
theorem emit_wfProg {r : Regex} {prog : Prog} (he : VM.emit r = .ok prog) (hw : WF r.node)
    (hng : numGroups r.node ≤ 65535) (hnl : numLoops r.node ≤ 65535) (hir : irOK r.node = true) :
    VM.wfProg prog = true := by
  obtain ⟨sk, R⟩ := emit_root he hw hng hnl hir
  exact R.wfProg he hw hng hnl (irOK_parts hir).2.2.2.2

end Regress.Certs
