import Proofs.Lemmas.TotalGlue
import Proofs.Lemmas.TotalDepth
import Proofs.Lemmas.Walk
/-!
# The height of the IR during and after optimization: helper lemmas for `Proofs/OptHeight.lean`

`Node.height` (`RegressModel/IR/Walk.lean`) counts the nested activations of `MutWalker::process`
(`Walker::process`, `Node::try_duplicate`, `is_unrollable`, `contains_capture_groups`, … all recurse
the same way: one activation per node on a root-to-leaf path): a leaf (including `Cat([])`) has
height `1`, a node with children has `1 +` the maximal height of a child.  `process_fuel_exact`
makes this precise for the fuelled model `process` of `MutWalker::process`, whose fuel is consumed
one unit per nested activation: in post-order, with a visitor that does not fail, the walk runs out
of fuel **iff** `fuel < n.height` (whatever the visitor does to the nodes: in post-order the
children are walked before the visitor sees the parent).

Contents:

* `ChildRel` / `PassLift` / `processPost_rel`: lifting a node-local relation `R n n'` between the
  node before the walk and the node after the walk through `walk_mut(postorder = true, …)`.
* `PassNonInc f`: whatever the pass answers on a node, the node it leaves is not higher; all passes
  except `unroll_loops` are `PassNonInc`.
* `unroll_loops`: one walk satisfies `UR n n'` (`n'.height ≤ n.height + 1`, and `≤ n.height` when
  `n'` contains no loop), its result is `UStable` (`unroll_loops` answers `Keep` on every `Loop` in
  it), and a walk over a `UStable` tree is the identity: `run_to_fixpoint` adds the `+ 1` once.
* `fixpointTrace`: the trees after each `run_postorder` of a `run_to_fixpoint`; `optimizeTrace`: all
  trees that exist between two walks of `optimize`.
-/
namespace Regress.IR

open Regress.Gen

/-! ## Heights of lists -/

theorem heightList_filter_le (p : Node → Bool) (ns : List Node) :
    heightList (ns.filter p) ≤ heightList ns :=
  Parse.heightList_le_iff.2 fun _ hn => Parse.heightList_mem (List.mem_filter.1 hn).1

theorem heightList_replicate (k : Nat) (b : Node) (hk : 0 < k) :
    heightList (List.replicate k b) = b.height := by
  apply Nat.le_antisymm
  · exact Parse.heightList_le_iff.2 fun n hn => by rw [List.eq_of_mem_replicate hn]; exact Nat.le_refl _
  · exact Parse.heightList_mem (List.mem_replicate.2 ⟨by omega, rfl⟩)

theorem height_cat (ns : List Node) : (Node.cat ns).height = heightList ns + 1 := by
  simp [Node.height]
theorem height_alt (l r : Node) : (Node.alt l r).height = max l.height r.height + 1 := by
  simp [Node.height]
theorem height_group (i : Nat) (nm : Option (List Nat)) (c : Node) :
    (Node.group i nm c).height = c.height + 1 := by simp [Node.height]
theorem height_look (a b : Bool) (sg eg : Nat) (c : Node) :
    (Node.look a b sg eg c).height = c.height + 1 := by simp [Node.height]
theorem height_loop (b : Node) (q : Quant) (g0 g1 : Nat) :
    (Node.loop b q g0 g1).height = b.height + 1 := by simp [Node.height]
theorem height_loop1 (b : Node) (q : Quant) : (Node.loop1 b q).height = b.height + 1 := by
  simp [Node.height]
theorem height_leaf (n : Node) (h : n.isLeaf = true) : n.height = 1 := by
  cases n <;> first | rfl | simp [Node.isLeaf] at h

/-! ## Lifting a relation through the post-order walk -/

/-- Lists of the same length, related pointwise. -/
def RList (R : Node → Node → Prop) : List Node → List Node → Prop
  | [], [] => True
  | a :: as, b :: bs => R a b ∧ RList R as bs
  | _, _ => False

/-- `m` is `n` with every child replaced by an `R`-related node: the node `process` hands to the
visitor (in post-order) when the walks of the children establish `R`. -/
inductive ChildRel (R : Node → Node → Prop) : Node → Node → Prop
  | cat {ns ns' : List Node} : RList R ns ns' → ChildRel R (.cat ns) (.cat ns')
  | alt {l r l' r' : Node} : R l l' → R r r' → ChildRel R (.alt l r) (.alt l' r')
  | group {i : Nat} {nm : Option (List Nat)} {c c' : Node} : R c c' →
      ChildRel R (.group i nm c) (.group i nm c')
  | look {a b : Bool} {sg eg : Nat} {c c' : Node} : R c c' →
      ChildRel R (.look a b sg eg c) (.look a b sg eg c')
  | loop {b b' : Node} {q : Quant} {g0 g1 : Nat} : R b b' →
      ChildRel R (.loop b q g0 g1) (.loop b' q g0 g1)
  | loop1 {b b' : Node} {q : Quant} : R b b' → ChildRel R (.loop1 b q) (.loop1 b' q)
  | leaf {n : Node} : n.isLeaf = true → ChildRel R n n

/-- The visitor step re-establishes `R`. -/
def PassLift (f : PassFn) (R : Node → Node → Prop) : Prop :=
  ∀ n m w a, ChildRel R n m → f m w = .ok a → R n (a.result m)

mutual
theorem processPost_rel {f : PassFn} {R : Node → Node → Prop} (hf : PassLift f R) :
    ∀ (n : Node) (w : Walk) (c : Bool) (n' : Node) (w' : Walk) (c' : Bool),
      processPost (passVisitor f) n w c = .ok (n', w', c') → R n n'
  | .cat ns, w, c, n', w', c', h => by
    rw [processPost_cat] at h
    obtain ⟨m, wm, cm, hr, hv⟩ := finish_ok h
    split at hr
    · cases hr
    · rename_i ns' w1 c1 heq
      cases hr
      obtain ⟨a, ha, rfl, _⟩ := passVisitor_ok hv
      exact hf _ _ _ a (.cat (processPostList_rel hf ns _ _ _ _ _ heq)) ha
  | .alt l r, w, c, n', w', c', h => by
    rw [processPost_alt] at h
    obtain ⟨m, wm, cm, hr, hv⟩ := finish_ok h
    split at hr
    · cases hr
    · rename_i l' w1 c1 heq1
      split at hr
      · cases hr
      · rename_i r' w2 c2 heq2
        cases hr
        obtain ⟨a, ha, rfl, _⟩ := passVisitor_ok hv
        exact hf _ _ _ a (.alt (processPost_rel hf l _ _ _ _ _ heq1) (processPost_rel hf r _ _ _ _ _ heq2)) ha
  | .loop b q g0 g1, w, c, n', w', c', h => by
    rw [processPost_loop] at h
    obtain ⟨m, wm, cm, hr, hv⟩ := finish_ok h
    split at hr
    · cases hr
    · rename_i b' w1 c1 heq
      cases hr
      obtain ⟨a, ha, rfl, _⟩ := passVisitor_ok hv
      exact hf _ _ _ a (.loop (processPost_rel hf b _ _ _ _ _ heq)) ha
  | .loop1 b q, w, c, n', w', c', h => by
    rw [processPost_loop1] at h
    obtain ⟨m, wm, cm, hr, hv⟩ := finish_ok h
    split at hr
    · cases hr
    · rename_i b' w1 c1 heq
      cases hr
      obtain ⟨a, ha, rfl, _⟩ := passVisitor_ok hv
      exact hf _ _ _ a (.loop1 (processPost_rel hf b _ _ _ _ _ heq)) ha
  | .group i nm b, w, c, n', w', c', h => by
    rw [processPost_group] at h
    obtain ⟨m, wm, cm, hr, hv⟩ := finish_ok h
    split at hr
    · cases hr
    · rename_i b' w1 c1 heq
      cases hr
      obtain ⟨a, ha, rfl, _⟩ := passVisitor_ok hv
      exact hf _ _ _ a (.group (processPost_rel hf b _ _ _ _ _ heq)) ha
  | .look ng bw sg eg b, w, c, n', w', c', h => by
    rw [processPost_look] at h
    obtain ⟨m, wm, cm, hr, hv⟩ := finish_ok h
    split at hr
    · cases hr
    · rename_i b' w1 c1 heq
      cases hr
      obtain ⟨a, ha, rfl, _⟩ := passVisitor_ok hv
      exact hf _ _ _ a (.look (processPost_rel hf b _ _ _ _ _ heq)) ha
  | .empty, w, c, n', w', c', h => by
    rw [processPost_leaf _ _ rfl] at h; obtain ⟨a, ha, rfl, _⟩ := passVisitor_ok h; exact hf _ _ _ a (.leaf rfl) ha
  | .goal, w, c, n', w', c', h => by
    rw [processPost_leaf _ _ rfl] at h; obtain ⟨a, ha, rfl, _⟩ := passVisitor_ok h; exact hf _ _ _ a (.leaf rfl) ha
  | .char _, w, c, n', w', c', h => by
    rw [processPost_leaf _ _ rfl] at h; obtain ⟨a, ha, rfl, _⟩ := passVisitor_ok h; exact hf _ _ _ a (.leaf rfl) ha
  | .byteSeq _, w, c, n', w', c', h => by
    rw [processPost_leaf _ _ rfl] at h; obtain ⟨a, ha, rfl, _⟩ := passVisitor_ok h; exact hf _ _ _ a (.leaf rfl) ha
  | .byteSet _, w, c, n', w', c', h => by
    rw [processPost_leaf _ _ rfl] at h; obtain ⟨a, ha, rfl, _⟩ := passVisitor_ok h; exact hf _ _ _ a (.leaf rfl) ha
  | .charSet _, w, c, n', w', c', h => by
    rw [processPost_leaf _ _ rfl] at h; obtain ⟨a, ha, rfl, _⟩ := passVisitor_ok h; exact hf _ _ _ a (.leaf rfl) ha
  | .matchAny, w, c, n', w', c', h => by
    rw [processPost_leaf _ _ rfl] at h; obtain ⟨a, ha, rfl, _⟩ := passVisitor_ok h; exact hf _ _ _ a (.leaf rfl) ha
  | .matchAnyExceptLT, w, c, n', w', c', h => by
    rw [processPost_leaf _ _ rfl] at h; obtain ⟨a, ha, rfl, _⟩ := passVisitor_ok h; exact hf _ _ _ a (.leaf rfl) ha
  | .anchor _ _, w, c, n', w', c', h => by
    rw [processPost_leaf _ _ rfl] at h; obtain ⟨a, ha, rfl, _⟩ := passVisitor_ok h; exact hf _ _ _ a (.leaf rfl) ha
  | .wordBoundary _ _, w, c, n', w', c', h => by
    rw [processPost_leaf _ _ rfl] at h; obtain ⟨a, ha, rfl, _⟩ := passVisitor_ok h; exact hf _ _ _ a (.leaf rfl) ha
  | .backRef _ _, w, c, n', w', c', h => by
    rw [processPost_leaf _ _ rfl] at h; obtain ⟨a, ha, rfl, _⟩ := passVisitor_ok h; exact hf _ _ _ a (.leaf rfl) ha
  | .bracket _, w, c, n', w', c', h => by
    rw [processPost_leaf _ _ rfl] at h; obtain ⟨a, ha, rfl, _⟩ := passVisitor_ok h; exact hf _ _ _ a (.leaf rfl) ha
  | .stringSet _ _, w, c, n', w', c', h => by
    rw [processPost_leaf _ _ rfl] at h; obtain ⟨a, ha, rfl, _⟩ := passVisitor_ok h; exact hf _ _ _ a (.leaf rfl) ha
theorem processPostList_rel {f : PassFn} {R : Node → Node → Prop} (hf : PassLift f R) :
    ∀ (ns : List Node) (w : Walk) (c : Bool) (ns' : List Node) (w' : Walk) (c' : Bool),
      processPostList (passVisitor f) ns w c = .ok (ns', w', c') → RList R ns ns'
  | [], w, c, ns', w', c', h => by
    rw [processPostList_nil] at h; cases h; exact trivial
  | n :: ns, w, c, ns', w', c', h => by
    rw [processPostList_cons] at h
    split at h
    · cases h
    · rename_i n1 w1 c1 heq1
      split at h
      · cases h
      · rename_i ns1 w2 c2 heq2
        cases h
        exact ⟨processPost_rel hf n _ _ _ _ _ heq1, processPostList_rel hf ns _ _ _ _ _ heq2⟩
end

/-- `Pass::run_postorder`. -/
theorem runPostorder_rel {f : PassFn} {R : Node → Node → Prop} (hf : PassLift f R) {unicode : Bool}
    {n n' : Node} {c c' : Bool} (h : runPostorder f unicode n c = .ok (n', c')) : R n n' := by
  unfold runPostorder walkMutPost at h
  split at h
  · cases h
  · rename_i n1 w1 c1 heq
    cases h
    exact processPost_rel hf _ _ _ _ _ _ heq

/-! ## Passes that never make a node higher -/

/-- `n'` is not higher than `n`. -/
def HLe (n n' : Node) : Prop := n'.height ≤ n.height

theorem rlist_hle : ∀ {ns ns' : List Node}, RList HLe ns ns' → heightList ns' ≤ heightList ns
  | [], [], _ => Nat.le_refl _
  | a :: as, b :: bs, h => by
    have h1 : b.height ≤ a.height := h.1
    have h2 := rlist_hle h.2
    simp only [heightList]; omega
  | [], _ :: _, h => h.elim
  | _ :: _, [], h => h.elim

theorem childRel_hle {n m : Node} (h : ChildRel HLe n m) : m.height ≤ n.height := by
  cases h with
  | cat hl => have := rlist_hle hl; simp only [height_cat]; omega
  | alt h1 h2 => have h1 : _ ≤ _ := h1; have h2 : _ ≤ _ := h2; simp only [height_alt]; omega
  | group h1 => have h1 : _ ≤ _ := h1; simp only [height_group]; omega
  | look h1 => have h1 : _ ≤ _ := h1; simp only [height_look]; omega
  | loop h1 => have h1 : _ ≤ _ := h1; simp only [height_loop]; omega
  | loop1 h1 => have h1 : _ ≤ _ := h1; simp only [height_loop1]; omega
  | leaf _ => exact Nat.le_refl _

/-- Whatever the pass answers on a node, the node it leaves is not higher than the node it saw. -/
def PassNonInc (f : PassFn) : Prop := ∀ m w a, f m w = .ok a → (a.result m).height ≤ m.height

theorem PassNonInc.lift {f : PassFn} (hf : PassNonInc f) : PassLift f HLe := fun _ m w a hc ha =>
  Nat.le_trans (hf m w a ha) (childRel_hle hc)

theorem simplifyBrackets_nonInc : PassNonInc simplifyBrackets := by
  intro m w a h
  unfold simplifyBrackets at h
  split at h
  · split at h
    · rename_i newNode hr
      cases h
      unfold tryReduceBracket at hr
      split at hr
      · cases hr
      · dsimp only at hr
        split at hr
        · cases hr
        · cases hr; simp [PassAction.result, Node.height]
    · dsimp only at h
      split at h <;> cases h <;> simp [PassAction.result, Node.height]
  · cases h; exact Nat.le_refl _

theorem decatLoop_height (rest : List Node) : ∀ acc : List Node,
    heightList (decatLoop rest acc) ≤ max (heightList acc) (heightList rest) := by
  induction rest with
  | nil => intro acc; simp [decatLoop]
  | cons x xs ih =>
    intro acc
    have hgen : heightList (decatLoop xs (acc ++ [x])) ≤ max (heightList acc) (heightList (x :: xs)) := by
      refine Nat.le_trans (ih _) ?_
      rw [Parse.heightList_append]
      simp only [heightList]
      omega
    cases x <;> try (simpa [decatLoop] using hgen)
    case cat nn =>
      simp only [decatLoop]
      refine Nat.le_trans (ih _) ?_
      rw [Parse.heightList_append]
      simp only [heightList, height_cat]
      omega

theorem decat_nonInc : PassNonInc decat := by
  intro m w a h
  unfold decat at h
  split at h
  · rename_i nodes
    split at h
    · cases h; simp [PassAction.result, Node.height]
    · rename_i x; cases h; simp [PassAction.result, height_cat]
    · split at h
      · cases h
        have := decatLoop_height nodes []
        simp only [PassAction.result, height_cat]
        simp at this
        omega
      · cases h; exact Nat.le_refl _
  · cases h; exact Nat.le_refl _

theorem promote1CharLoops_nonInc : PassNonInc promote1CharLoops := by
  intro m w a h
  unfold promote1CharLoops at h
  split at h
  · split at h
    · cases h; exact Nat.le_refl _
    · split at h
      · cases h
      · cases h; simp [PassAction.result, Node.height]
  · cases h; exact Nat.le_refl _

theorem mergeLiteralBytes_height (lb : Bool) : ∀ (rest : List Node) (prev : Node),
    heightList (mergeLiteralBytes lb prev rest).1 ≤ max prev.height (heightList rest) := by
  intro rest
  induction rest with
  | nil => intro prev; simp [mergeLiteralBytes]
  | cons curr rest ih =>
    intro prev
    unfold mergeLiteralBytes
    split
    · rename_i p c pb cb
      split
      · have := ih (.byteSeq (if lb = true then cb ++ pb else pb ++ cb))
        simp only [heightList, Node.height] at this ⊢
        omega
      · have := ih (.byteSeq cb)
        simp only [heightList] at this ⊢
        omega
    · have := ih curr
      simp only [heightList] at this ⊢
      omega

theorem formLiteralBytes_nonInc : PassNonInc formLiteralBytes := by
  intro m w a h
  unfold formLiteralBytes at h
  split at h
  · split at h <;> cases h <;> simp [PassAction.result, Node.height]
  · split at h <;> cases h <;> simp [PassAction.result, Node.height]
  · split at h
    · cases h; exact Nat.le_refl _
    · rename_i first rest
      dsimp only at h
      split at h
      · cases h
        have := mergeLiteralBytes_height w.inLookbehind rest first
        simp only [PassAction.result, height_cat, heightList] at this ⊢
        omega
      · cases h; exact Nat.le_refl _
  · cases h; exact Nat.le_refl _

theorem removeEmpties_nonInc : PassNonInc removeEmpties := by
  intro m w a h
  have hp := height_pos m
  unfold removeEmpties at h
  split at h
  all_goals try (cases h; exact Nat.le_refl _)
  · split at h <;> cases h <;> first | exact hp | exact Nat.le_refl _
  · rename_i nodes
    dsimp only at h
    have hf := heightList_filter_le (fun nn => !nn.isEmpty) nodes
    split at h
    · cases h; exact Nat.le_refl _
    · split at h
      · cases h; exact hp
      · rename_i x heq
        cases h
        rw [heq] at hf
        simp only [PassAction.result, height_cat]
        simp at hf
        omega
      · cases h
        simp only [PassAction.result, height_cat]
        omega
  · split at h <;> cases h <;> first | exact hp | exact Nat.le_refl _
  · split at h <;> cases h <;> first | exact hp | exact Nat.le_refl _
  · split at h <;> cases h <;> first | exact hp | exact Nat.le_refl _

theorem propagateEarlyFails_nonInc : PassNonInc propagateEarlyFails := by
  intro m w a h
  have hp := height_pos m
  have hmf : makeAlwaysFails.height = 1 := rfl
  unfold propagateEarlyFails at h
  split at h
  · cases h; exact Nat.le_refl _
  · split at h
    · split at h <;> cases h <;> first | (simp only [PassAction.result, hmf]; exact hp) | exact Nat.le_refl _
    · rename_i left right
      dsimp only at h
      split at h <;> cases h
      · simp only [PassAction.result, hmf]; exact hp
      · exact Nat.le_refl _
      · simp only [PassAction.result, height_alt]; omega
      · simp only [PassAction.result, height_alt]; omega
    · split at h
      · cases h; exact Nat.le_refl _
      · split at h <;> cases h <;> first | (simp only [PassAction.result, hmf]; exact hp) | exact Nat.le_refl _
    · cases h; exact Nat.le_refl _

/-! ## `run_to_fixpoint`: the trees after each walk -/

/-- The trees `Pass::run_to_fixpoint` leaves after each `run_postorder`, in order (until the
`break`; the model's fuel or a panic cuts the list short). -/
def fixpointTrace (f : PassFn) (unicode : Bool) : Nat → Node → List Node
  | 0, _ => []
  | fuel + 1, n =>
    match runPostorder f unicode n false with
    | .error _ => []
    | .ok (n1, changed) => n1 :: (if !changed then [] else fixpointTrace f unicode fuel n1)

/-- The result of `run_to_fixpoint` is the last tree of the trace. -/
theorem fixpointTrace_last (f : PassFn) (unicode : Bool) : ∀ (fuel : Nat) (n n' : Node) (c : Bool),
    runToFixpoint f unicode fuel n = .ok (n', c) → (fixpointTrace f unicode fuel n).getLast? = some n' := by
  intro fuel
  induction fuel with
  | zero => intro n n' c h; simp [runToFixpoint] at h
  | succ k ih =>
    intro n n' c h
    unfold runToFixpoint at h
    unfold fixpointTrace
    split at h
    · cases h
    · rename_i n1 c1 e
      rw [e]
      dsimp only
      split at h
      · rename_i hc
        cases h
        rw [if_pos hc]; rfl
      · rename_i hc
        rw [if_neg hc]
        have := ih _ _ _ h
        rw [List.getLast?_cons, this]; rfl

/-- An invariant of the walks holds of every tree of the trace. -/
theorem fixpointTrace_inv {f : PassFn} {unicode : Bool} {I : Node → Prop}
    (hI : ∀ n n' c, I n → runPostorder f unicode n false = .ok (n', c) → I n') :
    ∀ (fuel : Nat) (n : Node), I n → ∀ t ∈ fixpointTrace f unicode fuel n, I t := by
  intro fuel
  induction fuel with
  | zero => intro n _ t ht; simp [fixpointTrace] at ht
  | succ k ih =>
    intro n hn t ht
    unfold fixpointTrace at ht
    split at ht
    · simp at ht
    · rename_i n1 c1 e
      have h1 := hI _ _ _ hn e
      rcases List.mem_cons.1 ht with rfl | ht
      · exact h1
      · split at ht
        · simp at ht
        · exact ih _ h1 t ht

/-- Every tree a `PassNonInc` pass leaves between its walks is at most as high as the tree the
pass started from. -/
theorem fixpointTrace_nonInc {f : PassFn} (hf : PassNonInc f) (unicode : Bool) (fuel : Nat) (n : Node) :
    ∀ t ∈ fixpointTrace f unicode fuel n, t.height ≤ n.height :=
  fixpointTrace_inv (I := fun t => t.height ≤ n.height)
    (fun _ _ _ hn e => Nat.le_trans (runPostorder_rel hf.lift e) hn) fuel n (Nat.le_refl _)

theorem runToFixpoint_mem_trace {f : PassFn} {unicode : Bool} {fuel : Nat} {n n' : Node} {c : Bool}
    (h : runToFixpoint f unicode fuel n = .ok (n', c)) : n' ∈ fixpointTrace f unicode fuel n :=
  List.mem_of_getLast? (fixpointTrace_last f unicode fuel n n' c h)

theorem runToFixpoint_nonInc {f : PassFn} (hf : PassNonInc f) {unicode : Bool} {fuel : Nat} {n n' : Node}
    {c : Bool} (h : runToFixpoint f unicode fuel n = .ok (n', c)) : n'.height ≤ n.height :=
  fixpointTrace_nonInc hf unicode fuel n n' (runToFixpoint_mem_trace h)

/-! ## `unroll_loops` -/

mutual
/-- The tree contains no `Loop` and no `Loop1CharBody`. -/
def noLoop : Node → Bool
  | .loop _ _ _ _ => false
  | .loop1 _ _ => false
  | .cat ns => noLoopList ns
  | .alt l r => noLoop l && noLoop r
  | .group _ _ c => noLoop c
  | .look _ _ _ _ c => noLoop c
  | _ => true
def noLoopList : List Node → Bool
  | [] => true
  | n :: ns => noLoop n && noLoopList ns
end

mutual
/-- `is_unrollable` answers `true` only for a body without loops (it has then inspected every node). -/
theorem isUnrollable_noLoop : ∀ (n : Node) (bud : Nat), (isUnrollable n bud).1 = true → noLoop n = true
  | .loop _ _ _ _, bud, h => by simp only [isUnrollable] at h; split at h <;> simp at h
  | .loop1 _ _, bud, h => by simp only [isUnrollable] at h; split at h <;> simp at h
  | .cat ns, bud, h => by
    simp only [isUnrollable] at h
    split at h
    · simp at h
    · simp only [noLoop]; exact allUnrollable_noLoop ns _ h
  | .alt l r, bud, h => by
    simp only [isUnrollable] at h
    split at h
    · simp at h
    · split at h
      · simp at h
      · rename_i b heq
        have h1 := isUnrollable_noLoop l (bud - 1) (by rw [heq])
        have h2 := isUnrollable_noLoop r b h
        simp [noLoop, h1, h2]
  | .group _ _ c, bud, h => by
    simp only [isUnrollable] at h
    split at h
    · simp at h
    · simp only [noLoop]; exact isUnrollable_noLoop c _ h
  | .look _ _ _ _ c, bud, h => by
    simp only [isUnrollable] at h
    split at h
    · simp at h
    · simp only [noLoop]; exact isUnrollable_noLoop c _ h
  | .empty, _, _ => rfl
  | .goal, _, _ => rfl
  | .char _, _, _ => rfl
  | .byteSeq _, _, _ => rfl
  | .byteSet _, _, _ => rfl
  | .charSet _, _, _ => rfl
  | .matchAny, _, _ => rfl
  | .matchAnyExceptLT, _, _ => rfl
  | .anchor _ _, _, _ => rfl
  | .wordBoundary _ _, _, _ => rfl
  | .backRef _ _, _, _ => rfl
  | .bracket _, _, _ => rfl
  | .stringSet _ _, _, _ => rfl
theorem allUnrollable_noLoop : ∀ (ns : List Node) (bud : Nat), (allUnrollable ns bud).1 = true →
    noLoopList ns = true
  | [], _, _ => rfl
  | n :: ns, bud, h => by
    simp only [allUnrollable] at h
    split at h
    · simp at h
    · rename_i b heq
      have h1 := isUnrollable_noLoop n bud (by rw [heq])
      have h2 := allUnrollable_noLoop ns b h
      simp [noLoopList, h1, h2]
end

theorem noLoopList_replicate (k : Nat) (b : Node) (h : noLoop b = true) :
    noLoopList (List.replicate k b) = true := by
  induction k with
  | zero => rfl
  | succ k ih => simp [List.replicate_succ, noLoopList, h, ih]

/-- What one walk of `unroll_loops` does to the height: at most `+ 1`, and nothing if no loop is
left in the result. -/
def UR (n n' : Node) : Prop :=
  n'.height ≤ n.height + 1 ∧ (noLoop n' = true → n'.height ≤ n.height)

theorem rlist_ur : ∀ {ns ns' : List Node}, RList UR ns ns' →
    heightList ns' ≤ heightList ns + 1 ∧ (noLoopList ns' = true → heightList ns' ≤ heightList ns)
  | [], [], _ => ⟨by simp, fun _ => Nat.le_refl _⟩
  | a :: as, b :: bs, h => by
    have h1 : UR a b := h.1
    have h2 := rlist_ur h.2
    refine ⟨?_, ?_⟩
    · have := h1.1; have := h2.1; simp only [heightList]; omega
    · intro hn
      simp only [noLoopList, Bool.and_eq_true] at hn
      have := h1.2 hn.1; have := h2.2 hn.2; simp only [heightList]; omega
  | [], _ :: _, h => h.elim
  | _ :: _, [], h => h.elim

/-- Rebuilding a node from `UR`-related children gives a `UR`-related node. -/
theorem childRel_ur {n m : Node} (h : ChildRel UR n m) : UR n m := by
  cases h with
  | cat hl =>
    have := rlist_ur hl
    refine ⟨by simp only [height_cat]; omega, fun hn => ?_⟩
    simp only [noLoop] at hn
    have := this.2 hn
    simp only [height_cat]; omega
  | alt h1 h2 =>
    refine ⟨by have := h1.1; have := h2.1; simp only [height_alt]; omega, fun hn => ?_⟩
    simp only [noLoop, Bool.and_eq_true] at hn
    have := h1.2 hn.1; have := h2.2 hn.2
    simp only [height_alt]; omega
  | group h1 =>
    refine ⟨by have := h1.1; simp only [height_group]; omega, fun hn => ?_⟩
    simp only [noLoop] at hn
    have := h1.2 hn
    simp only [height_group]; omega
  | look h1 =>
    refine ⟨by have := h1.1; simp only [height_look]; omega, fun hn => ?_⟩
    simp only [noLoop] at hn
    have := h1.2 hn
    simp only [height_look]; omega
  | loop h1 =>
    exact ⟨by have := h1.1; simp only [height_loop]; omega, fun hn => by simp [noLoop] at hn⟩
  | loop1 h1 =>
    exact ⟨by have := h1.1; simp only [height_loop1]; omega, fun hn => by simp [noLoop] at hn⟩
  | leaf _ => exact ⟨by omega, fun _ => Nat.le_refl _⟩

/-- What `unroll_loops` answers on a node: `Keep`, or (on a `Loop` whose body is free of loops)
`Modified` to the `Cat` of `min ≥ 1` copies of the body, followed by the residual `Loop` (with
`min = 0`) unless that would be `{0,0}`. -/
theorem unrollLoops_cases {m : Node} {w : Walk} {a : PassAction} (h : unrollLoops m w = .ok a) :
    a = .keep ∨ ∃ b q g0 g1 q', m = .loop b q g0 g1 ∧ noLoop b = true ∧ 0 < q.min ∧ q'.min = 0 ∧
      (a = .modified (.cat (List.replicate q.min b)) ∨
       a = .modified (.cat (List.replicate q.min b ++ [.loop b q' g0 g1]))) := by
  unfold unrollLoops at h
  split at h
  · rename_i loopee quant g0 g1
    split at h
    · cases h; exact .inl rfl
    · split at h
      · cases h; exact .inl rfl
      · rename_i hmin
        split at h
        · cases h; exact .inl rfl
        · rename_i hun
          split at h
          · cases h
          · cases h; exact .inl rfl
          · rename_i unrolled hdup
            cases h
            have hu := unrollDup_eq loopee quant.min [] unrolled hdup
            have hul : unrolled = List.replicate quant.min loopee := by simpa using hu.1
            subst hul
            have hnl : noLoop loopee = true := by
              apply isUnrollable_noLoop loopee UNROLL_BODY_BUDGET
              simpa using hun
            have hpos : 0 < quant.min := by
              simp only [Bool.or_eq_true, beq_iff_eq, decide_eq_true_eq, not_or] at hmin
              omega
            refine .inr ⟨loopee, quant, g0, g1,
              { min := 0, max := quant.max.map (fun v => usizeSub v quant.min), greedy := quant.greedy },
              rfl, hnl, hpos, rfl, ?_⟩
            split
            · exact .inr rfl
            · exact .inl rfl
  · cases h; exact .inl rfl

theorem unrollLoops_lift : PassLift unrollLoops UR := by
  intro n m w a hc ha
  rcases unrollLoops_cases ha with rfl | ⟨b', q, g0, g1, q', rfl, hnl, hpos, _, ha' | ha'⟩
  · exact childRel_ur hc
  · subst ha'
    cases hc with
    | loop h1 =>
      have hb := h1.2 hnl
      simp only [PassAction.result]
      refine ⟨?_, fun _ => ?_⟩ <;>
      · simp only [height_cat, height_loop, heightList_replicate _ _ hpos]; omega
    | leaf hl => simp [Node.isLeaf] at hl
  · subst ha'
    cases hc with
    | loop h1 =>
      have hb := h1.2 hnl
      simp only [PassAction.result]
      refine ⟨?_, fun hn => ?_⟩
      · simp only [height_cat, height_loop, Parse.heightList_append, heightList_replicate _ _ hpos,
          Parse.heightList_singleton]
        omega
      · exfalso
        simp only [noLoop] at hn
        have : ∀ (xs : List Node) (y : Node), noLoopList (xs ++ [y]) = true → noLoop y = true := by
          intro xs y
          induction xs with
          | nil => simp [noLoopList]
          | cons x xs ih => intro h; simp only [List.cons_append, noLoopList, Bool.and_eq_true] at h; exact ih h.2
        have := this _ _ hn
        simp [noLoop] at this
    | leaf hl => simp [Node.isLeaf] at hl

/-! ### A second walk of `unroll_loops` changes nothing -/

mutual
/-- `unroll_loops` answers `Keep` on every `Loop` of the tree. -/
def UStable : Node → Prop
  | .loop b q g0 g1 => UStable b ∧ ∀ w, unrollLoops (.loop b q g0 g1) w = .ok .keep
  | .loop1 b _ => UStable b
  | .cat ns => UStableList ns
  | .alt l r => UStable l ∧ UStable r
  | .group _ _ c => UStable c
  | .look _ _ _ _ c => UStable c
  | _ => True
def UStableList : List Node → Prop
  | [] => True
  | n :: ns => UStable n ∧ UStableList ns
end

theorem UStableList_iff (ns : List Node) : UStableList ns ↔ ∀ n ∈ ns, UStable n := by
  induction ns with
  | nil => simp [UStableList]
  | cons x xs ih => simp [UStableList, ih]

theorem UStable_leaf (n : Node) (h : n.isLeaf = true) : UStable n := by
  cases n <;> first | trivial | simp [Node.isLeaf] at h

theorem rlist_stable : ∀ {ns ns' : List Node}, RList (fun _ n' => UStable n') ns ns' → UStableList ns'
  | [], [], _ => trivial
  | _ :: _, _ :: _, h => ⟨h.1, rlist_stable h.2⟩
  | [], _ :: _, h => h.elim
  | _ :: _, [], h => h.elim

/-- `unroll_loops` does not look at the `Walk`. -/
theorem unrollLoops_walk (n : Node) (w w' : Walk) : unrollLoops n w = unrollLoops n w' := rfl

/-- A residual loop (`min = 0`) is kept. -/
theorem unrollLoops_min0 (b : Node) (q : Quant) (g0 g1 : Nat) (w : Walk) (h : q.min = 0) :
    unrollLoops (.loop b q g0 g1) w = .ok .keep := by
  simp only [unrollLoops, h]
  split
  · rfl
  · rfl

/-- The tree a walk of `unroll_loops` leaves is stable. -/
theorem unrollLoops_lift_stable : PassLift unrollLoops (fun _ n' => UStable n') := by
  intro n m w a hc ha
  rcases unrollLoops_cases ha with rfl | ⟨b', q, g0, g1, q', rfl, hnl, hpos, hq', ha' | ha'⟩
  · simp only [PassAction.result]
    cases hc with
    | cat hl => exact rlist_stable hl
    | alt h1 h2 => exact ⟨h1, h2⟩
    | group h1 => exact h1
    | look h1 => exact h1
    | loop h1 => exact ⟨h1, fun w' => ha⟩
    | loop1 h1 => exact h1
    | leaf hl => exact UStable_leaf _ hl
  · subst ha'
    cases hc with
    | loop h1 =>
      simp only [PassAction.result, UStable]
      rw [UStableList_iff]
      intro x hx
      rw [List.eq_of_mem_replicate hx]; exact h1
    | leaf hl => simp [Node.isLeaf] at hl
  · subst ha'
    cases hc with
    | loop h1 =>
      simp only [PassAction.result, UStable]
      rw [UStableList_iff]
      intro x hx
      rcases List.mem_append.1 hx with hx | hx
      · rw [List.eq_of_mem_replicate hx]; exact h1
      · simp only [List.mem_singleton] at hx
        subst hx
        exact ⟨h1, fun w' => unrollLoops_min0 _ _ _ _ _ hq'⟩
    | leaf hl => simp [Node.isLeaf] at hl

/-- A walk of `unroll_loops` over a stable tree is the identity. -/
def UId (n n' : Node) : Prop := UStable n → n' = n

theorem rlist_uid : ∀ {ns ns' : List Node}, RList UId ns ns' → UStableList ns → ns' = ns
  | [], [], _, _ => rfl
  | a :: as, b :: bs, h, hs => by
    have h1 : b = a := h.1 hs.1
    have h2 := rlist_uid h.2 hs.2
    rw [h1, h2]
  | [], _ :: _, h, _ => h.elim
  | _ :: _, [], h, _ => h.elim

theorem unrollLoops_nonloop_keep (n : Node) (w : Walk) (h : ∀ b q g0 g1, n ≠ .loop b q g0 g1) :
    unrollLoops n w = .ok .keep := by
  cases n <;> first | rfl | exact absurd rfl (h _ _ _ _)

theorem unrollLoops_lift_id : PassLift unrollLoops UId := by
  intro n m w a hc ha hs
  have hm : m = n := by
    cases hc with
    | cat hl => rw [rlist_uid hl hs]
    | alt h1 h2 => rw [h1 hs.1, h2 hs.2]
    | group h1 => rw [h1 hs]
    | look h1 => rw [h1 hs]
    | loop h1 => rw [h1 hs.1]
    | loop1 h1 => rw [h1 hs]
    | leaf _ => rfl
  subst hm
  have hk : unrollLoops m w = .ok .keep := by
    cases m with
    | loop b q g0 g1 => exact hs.2 w
    | _ => rfl
  rw [hk] at ha
  cases ha
  rfl

/-- Every tree `run_to_fixpoint(unroll_loops)` leaves between its walks is the tree after the
first walk: at most one level higher than the tree the pass started from. -/
theorem fixpointTrace_unroll (unicode : Bool) : ∀ (fuel : Nat) (n : Node),
    ∀ t ∈ fixpointTrace unrollLoops unicode fuel n, UR n t ∧ UStable t := by
  intro fuel n t ht
  cases fuel with
  | zero => simp [fixpointTrace] at ht
  | succ k =>
    unfold fixpointTrace at ht
    split at ht
    · simp at ht
    · rename_i n1 c1 e
      have h1 : UR n n1 := runPostorder_rel unrollLoops_lift e
      have h2 : UStable n1 := runPostorder_rel unrollLoops_lift_stable e
      rcases List.mem_cons.1 ht with rfl | ht
      · exact ⟨h1, h2⟩
      · split at ht
        · simp at ht
        · have := fixpointTrace_inv (f := unrollLoops) (unicode := unicode) (I := fun t => t = n1)
            (fun a a' c ha e' => by
              subst ha
              exact runPostorder_rel unrollLoops_lift_id e' h2) k n1 rfl t ht
          subst this
          exact ⟨h1, h2⟩

theorem runToFixpoint_unroll {unicode : Bool} {fuel : Nat} {n n' : Node} {c : Bool}
    (h : runToFixpoint unrollLoops unicode fuel n = .ok (n', c)) : n'.height ≤ n.height + 1 :=
  (fixpointTrace_unroll unicode fuel n n' (runToFixpoint_mem_trace h)).1.1

/-! ## The pipeline -/

/-- The trees `run_pass` leaves after each walk. -/
def passTrace (f : PassFn) (fuel : Nat) (r : Regex) : List Node :=
  fixpointTrace f r.flags.unicode fuel r.node

theorem runPass_node {f : PassFn} {fuel : Nat} {r r' : Regex} {c : Bool}
    (h : runPass f fuel r = .ok (r', c)) :
    runToFixpoint f r.flags.unicode fuel r.node = .ok (r'.node, c) ∧ r'.flags = r.flags := by
  unfold runPass at h
  split at h
  · cases h
  · rename_i n c1 e
    cases h
    exact ⟨e, rfl⟩

theorem passTrace_last {f : PassFn} {fuel : Nat} {r r' : Regex} {c : Bool}
    (h : runPass f fuel r = .ok (r', c)) : (passTrace f fuel r).getLast? = some r'.node :=
  fixpointTrace_last _ _ _ _ _ _ (runPass_node h).1

theorem runPass_nonInc {f : PassFn} (hf : PassNonInc f) {fuel : Nat} {r r' : Regex} {c : Bool}
    (h : runPass f fuel r = .ok (r', c)) : r'.node.height ≤ r.node.height :=
  runToFixpoint_nonInc hf (runPass_node h).1

theorem runPass_unroll {fuel : Nat} {r r' : Regex} {c : Bool}
    (h : runPass unrollLoops fuel r = .ok (r', c)) : r'.node.height ≤ r.node.height + 1 :=
  runToFixpoint_unroll (runPass_node h).1

/-- The seven `run_pass` calls of `optimize`, in the order in which they run (the body of the outer
`loop` runs once, `optimizeLoop_once`). -/
def pipeline : List PassFn :=
  [simplifyBrackets, decat, unrollLoops, promote1CharLoops, formLiteralBytes, removeEmpties,
    propagateEarlyFails]

/-- Run the passes of the list one after the other; collect the trees after each walk of each
pass. A pass that fails (panic / model fuel) ends the list after its own trace. -/
def tracePasses (fuel : Nat) : List PassFn → Regex → List Node
  | [], _ => []
  | f :: fs, r =>
    passTrace f fuel r ++
      (match runPass f fuel r with
       | .error _ => []
       | .ok (r', _) => tracePasses fuel fs r')

/-- **All trees that exist between two walks of `optimize`**: the input, then the tree after each
`run_postorder` of each of the seven `run_to_fixpoint`s. -/
def optimizeTrace (fuel : Nat) (r : Regex) : List Node := r.node :: tracePasses fuel pipeline r

/-- The stages of a successful `optimize`. -/
theorem optimize_stages {fuel : Nat} {r r' : Regex} (h : optimize fuel r = .ok r') :
    ∃ r1 r2 r3 r4 r5 r6,
      runPass simplifyBrackets fuel r = .ok (r1, false) ∧
      runPass decat fuel r1 = .ok (r2, false) ∧
      runPass unrollLoops fuel r2 = .ok (r3, false) ∧
      runPass promote1CharLoops fuel r3 = .ok (r4, false) ∧
      runPass formLiteralBytes fuel r4 = .ok (r5, false) ∧
      runPass removeEmpties fuel r5 = .ok (r6, false) ∧
      runPass propagateEarlyFails fuel r6 = .ok (r', false) := by
  unfold optimize at h
  split at h
  · cases h
  · rename_i r1 c1 e1
    have k1 := runPass_changed _ _ _ _ _ e1
    subst k1
    cases fuel with
    | zero => simp [optimizeLoop] at h
    | succ k =>
      rw [optimizeLoop_once] at h
      split at h
      · cases h
      · rename_i r7 c7 e7
        cases h
        unfold optimizeRound at e7
        split at e7
        · cases e7
        · rename_i r2 c2 e2
          have k2 := runPass_changed _ _ _ _ _ e2
          subst k2
          split at e7
          · cases e7
          · rename_i r3 c3 e3
            have k3 := runPass_changed _ _ _ _ _ e3
            subst k3
            split at e7
            · cases e7
            · rename_i r4 c4 e4
              have k4 := runPass_changed _ _ _ _ _ e4
              subst k4
              split at e7
              · cases e7
              · rename_i r5 c5 e5
                have k5 := runPass_changed _ _ _ _ _ e5
                subst k5
                split at e7
                · cases e7
                · rename_i r6 c6 e6
                  have k6 := runPass_changed _ _ _ _ _ e6
                  subst k6
                  split at e7
                  · cases e7
                  · rename_i r8 c8 e8
                    have k8 := runPass_changed _ _ _ _ _ e8
                    subst k8
                    cases e7
                    exact ⟨r1, r2, r3, r4, r5, r6, e1, e2, e3, e4, e5, e6, e8⟩

/-! ## `Node.height` is the recursion depth of the walker -/

section Exact
variable {σ ε : Type} (f : Visitor σ ε)

/-- In post-order, with a visitor that does not fail, `process` (one unit of fuel per nested
activation of `MutWalker::process`) either succeeds or runs out of fuel, and it runs out of fuel
whenever `fuel < n.height`. -/
theorem process_fuel_lt (hf : ∀ n w s, ∃ r, f n w s = .ok r) : ∀ (fuel : Nat) (n : Node) (w : Walk) (s : σ),
    ((∃ r, process f true fuel n w s = .ok r) ∨ process f true fuel n w s = .error .fuel) ∧
      (fuel < n.height → process f true fuel n w s = .error .fuel) := by
  intro fuel
  induction fuel with
  | zero =>
    intro n w s
    exact ⟨.inr rfl, fun _ => rfl⟩
  | succ k ih =>
    have hlist : ∀ (ns : List Node) (w : Walk) (s : σ),
        ((∃ r, mapNodesM (process f true k) ns w s = .ok r) ∨
          mapNodesM (process f true k) ns w s = .error .fuel) ∧
        (k < heightList ns → mapNodesM (process f true k) ns w s = .error .fuel) := by
      intro ns
      induction ns with
      | nil => intro w s; exact ⟨.inl ⟨_, rfl⟩, fun h => by simp [heightList] at h⟩
      | cons x xs ihx =>
        intro w s
        have hx := ih x w s
        simp only [mapNodesM, heightList]
        rcases hx.1 with ⟨⟨x', w1, s1⟩, e1⟩ | e1
        · rw [e1]
          dsimp only
          have hxs := ihx w1 s1
          have hxlt : ¬ k < x.height := fun hlt => by rw [hx.2 hlt] at e1; cases e1
          rcases hxs.1 with ⟨⟨xs', w2, s2⟩, e2⟩ | e2
          · rw [e2]
            refine ⟨.inl ⟨_, rfl⟩, fun hlt => ?_⟩
            have : k < heightList xs := by omega
            rw [hxs.2 this] at e2; cases e2
          · rw [e2]
            exact ⟨.inr rfl, fun _ => rfl⟩
        · rw [e1]
          exact ⟨.inr rfl, fun _ => rfl⟩
    intro n w s
    -- the visitor at the end never fails
    have hvis : ∀ (m : Node) (wm : Walk) (sm : σ),
        ∃ r, (match f m wm sm with
          | .error e => (.error (.visitor e) : Except (WalkErr ε) (Node × Walk × σ))
          | .ok r => .ok r) = .ok r := by
      intro m wm sm
      obtain ⟨r, hr⟩ := hf m wm sm
      exact ⟨r, by rw [hr]⟩
    cases n with
    | cat ns =>
      have hl := hlist ns { w with skipChildren := false, depth := w.depth + 1 } s
      simp only [process, Bool.not_true, Bool.false_eq_true, if_false, if_true, height_cat]
      rcases hl.1 with ⟨⟨ns', w1, s1⟩, e1⟩ | e1
      · simp only [e1]
        obtain ⟨r, hr⟩ := hvis (.cat ns') { w1 with depth := w1.depth - 1 } s1
        refine ⟨.inl ⟨r, hr⟩, fun hlt => ?_⟩
        have : k < heightList ns := by omega
        rw [hl.2 this] at e1; cases e1
      · simp only [e1]
        exact ⟨.inr rfl, fun _ => rfl⟩
    | alt l r =>
      have h1 := ih l { w with skipChildren := false, depth := w.depth + 1 } s
      simp only [process, Bool.not_true, Bool.false_eq_true, if_false, if_true, height_alt]
      rcases h1.1 with ⟨⟨l', w1, s1⟩, e1⟩ | e1
      · simp only [e1]
        have h2 := ih r w1 s1
        have hl : ¬ k < l.height := fun hlt => by rw [h1.2 hlt] at e1; cases e1
        rcases h2.1 with ⟨⟨r', w2, s2⟩, e2⟩ | e2
        · simp only [e2]
          obtain ⟨x, hx⟩ := hvis (.alt l' r') { w2 with depth := w2.depth - 1 } s2
          refine ⟨.inl ⟨x, hx⟩, fun hlt => ?_⟩
          have : k < r.height := by omega
          rw [h2.2 this] at e2; cases e2
        · simp only [e2]
          exact ⟨.inr rfl, fun _ => rfl⟩
      · simp only [e1]
        exact ⟨.inr rfl, fun _ => rfl⟩
    | loop b q g0 g1 =>
      have h1 := ih b { w with skipChildren := false, depth := w.depth + 1 } s
      simp only [process, Bool.not_true, Bool.false_eq_true, if_false, if_true, height_loop]
      rcases h1.1 with ⟨⟨b', w1, s1⟩, e1⟩ | e1
      · simp only [e1]
        obtain ⟨x, hx⟩ := hvis (.loop b' q g0 g1) { w1 with depth := w1.depth - 1 } s1
        refine ⟨.inl ⟨x, hx⟩, fun hlt => ?_⟩
        have : k < b.height := by omega
        rw [h1.2 this] at e1; cases e1
      · simp only [e1]
        exact ⟨.inr rfl, fun _ => rfl⟩
    | loop1 b q =>
      have h1 := ih b { w with skipChildren := false, depth := w.depth + 1 } s
      simp only [process, Bool.not_true, Bool.false_eq_true, if_false, if_true, height_loop1]
      rcases h1.1 with ⟨⟨b', w1, s1⟩, e1⟩ | e1
      · simp only [e1]
        obtain ⟨x, hx⟩ := hvis (.loop1 b' q) { w1 with depth := w1.depth - 1 } s1
        refine ⟨.inl ⟨x, hx⟩, fun hlt => ?_⟩
        have : k < b.height := by omega
        rw [h1.2 this] at e1; cases e1
      · simp only [e1]
        exact ⟨.inr rfl, fun _ => rfl⟩
    | group i nm b =>
      have h1 := ih b { w with skipChildren := false, depth := w.depth + 1 } s
      simp only [process, Bool.not_true, Bool.false_eq_true, if_false, if_true, height_group]
      rcases h1.1 with ⟨⟨b', w1, s1⟩, e1⟩ | e1
      · simp only [e1]
        obtain ⟨x, hx⟩ := hvis (.group i nm b') { w1 with depth := w1.depth - 1 } s1
        refine ⟨.inl ⟨x, hx⟩, fun hlt => ?_⟩
        have : k < b.height := by omega
        rw [h1.2 this] at e1; cases e1
      · simp only [e1]
        exact ⟨.inr rfl, fun _ => rfl⟩
    | look ng bw sg eg b =>
      have h1 := ih b { w with skipChildren := false, depth := w.depth + 1, inLookbehind := bw } s
      simp only [process, Bool.not_true, Bool.false_eq_true, if_false, if_true, height_look]
      rcases h1.1 with ⟨⟨b', w1, s1⟩, e1⟩ | e1
      · simp only [e1]
        obtain ⟨x, hx⟩ := hvis (.look ng bw sg eg b')
          { w1 with inLookbehind := w.inLookbehind, depth := w1.depth - 1 } s1
        refine ⟨.inl ⟨x, hx⟩, fun hlt => ?_⟩
        have : k < b.height := by omega
        rw [h1.2 this] at e1; cases e1
      · simp only [e1]
        exact ⟨.inr rfl, fun _ => rfl⟩
    | _ =>
      simp only [process, Bool.not_true, Bool.false_eq_true, if_false, if_true, Node.height]
      obtain ⟨x, hx⟩ := hvis _ { w with skipChildren := false, depth := w.depth + 1 - 1 } s
      exact ⟨.inl ⟨x, hx⟩, fun hlt => by omega⟩

end Exact

end Regress.IR
