import Proofs.Lemmas.KeystoneInsn
import Proofs.Lemmas.KeystoneCode
/-!
# Keystone, part 6: the instruction chosen for a leaf node computes the node's test
-/
namespace Regress.Keystone

open Regress.VM Regress.VM.Pk Regress.IR Regress.Gen

theorem charStep_congr (inp : Input) (fwd : Bool) (pos : Nat) {t t' : Nat → Bool} (h : ∀ c, t c = t' c) :
    charStep inp fwd pos t = charStep inp fwd pos t' := by
  have : t = t' := funext h
  rw [this]

theorem byteStep_congr (inp : Input) (fwd : Bool) (pos : Nat) {t t' : Nat → Bool} (h : ∀ c, t c = t' c) :
    byteStep inp fwd pos t = byteStep inp fwd pos t' := by
  have : t = t' := funext h
  rw [this]

/-! ## `CharSet` -/

theorem leaf_charSet (prog : Prog) (inp : Input) (fwd : Bool) (caps : List Cap) (pos : Nat)
    {chars : List Nat} {i : Insn} (h : charSetInsn chars = some i) :
    insnOpt prog inp fwd caps pos i = some (charStep inp fwd pos (charsetContains chars)) := by
  unfold charSetInsn at h
  split at h
  · cases h
    simp only [insnOpt]
    rw [charStep_false _ _ _ _ (by simp [charsetContains])]
  · rename_i c0 tl
    split at h
    · cases h
    · cases h
      simp only [insnOpt]
      congr 1
      apply charStep_congr
      intro c
      rw [charsetContains_eq, charsetContains_eq]
      simp only [List.mem_append, List.mem_replicate, List.mem_cons]
      apply decide_eq_decide.2
      constructor
      · rintro (h | ⟨_, h⟩)
        · exact h
        · exact Or.inl h
      · exact Or.inl

/-! ## `ByteSet` -/

theorem slice_one (bytes : Array Nat) (p : Nat) :
    Utf8.slice bytes p (p + 1) = match bytes[p]? with | some b => [b] | none => [] := by
  unfold Utf8.slice
  apply List.ext_getElem?
  intro k
  rw [Array.getElem?_toList, Array.getElem?_extract]
  cases hb : bytes[p]? with
  | none =>
    have : bytes.size ≤ p := by
      rcases Nat.lt_or_ge p bytes.size with h | h
      · rw [Array.getElem?_eq_getElem h] at hb; cases hb
      · exact h
    simp only [List.getElem?_nil]
    split
    · rw [Array.getElem?_eq_none (by omega)]
    · rfl
  | some b =>
    have hp : p < bytes.size := by
      rcases Nat.lt_or_ge p bytes.size with h | h
      · exact h
      · rw [Array.getElem?_eq_none h] at hb; cases hb
    have hb' : bytes[p] = b := by
      rw [Array.getElem?_eq_getElem hp] at hb; exact Option.some.inj hb
    cases k with
    | zero => simp [hp, hb']; omega
    | succ k => simp; omega

theorem matchBytes_single (inp : Input) (fwd : Bool) (pos x : Nat) :
    inp.matchBytes fwd pos [x] = byteStep inp fwd pos (fun b => [x].contains b) := by
  unfold Input.matchBytes Utf8.matchBytes byteStep Cursor.nextByte
  cases fwd
  · -- backward
    simp only [Bool.false_eq_true, if_false, Utf8.tryMoveLeft, List.length_cons, List.length_nil,
      Input.peekByteLeft, Utf8.peekByteLeft]
    by_cases h0 : pos = 0
    · subst h0; simp
    · have h1 : ¬ pos < 0 + 1 := by omega
      have e := slice_one inp.bytes (pos - 1)
      rw [show pos - 1 + 1 = pos by omega] at e
      by_cases hgt : pos > inp.bytes.size
      · have hn : inp.bytes[pos - 1]? = none := Array.getElem?_eq_none (by omega)
        simp [h1, hgt, e, hn]
      · cases hb : inp.bytes[pos - 1]? with
        | none => simp [h1, hgt, e, hb, h0]
        | some b =>
          by_cases hx : b = x
          · subst hx; simp [h1, hgt, e, hb, h0]
          · simp [h1, hgt, e, hb, h0, hx]
  · -- forward
    simp only [if_true, Utf8.tryMoveRight, List.length_cons, List.length_nil, Input.peekByteRight,
      Utf8.peekByteRight]
    have e := slice_one inp.bytes pos
    by_cases hlt : pos < inp.bytes.size
    · have h1 : ¬ inp.bytes.size - pos < 0 + 1 := by omega
      have h2 : ¬ pos > inp.bytes.size := by omega
      have h3 : ¬ pos = inp.bytes.size := by omega
      cases hb : inp.bytes[pos]? with
      | none => simp [h1, h2, h3, e, hb]
      | some b =>
        by_cases hx : b = x
        · subst hx; simp [h1, h2, h3, e, hb]
        · simp [h1, h2, h3, e, hb, hx]
    · have h1 : inp.bytes.size - pos < 0 + 1 := by omega
      by_cases hgt : pos > inp.bytes.size
      · simp [h1, hgt]
      · have : pos = inp.bytes.size := by omega
        simp [this]

theorem leaf_byteSet (prog : Prog) (inp : Input) (fwd : Bool) (caps : List Cap) (pos : Nat)
    {bs : List Nat} {i : Insn} (h : byteSetInsn bs = some i) :
    insnOpt prog inp fwd caps pos i = some (byteStep inp fwd pos (fun b => bs.contains b)) := by
  have hset : insnOpt prog inp fwd caps pos (.byteSet bs) =
      some (byteStep inp fwd pos (fun b => bs.contains b)) := by
    simp only [insnOpt]
    congr 1
    apply byteStep_congr
    intro c
    simp only [byteArraySetContains, List.contains_eq_any_beq]
  unfold byteSetInsn at h
  split at h
  · rename_i hl
    cases h
    have : bs = [] := List.length_eq_zero_iff.1 hl
    subst this
    simp only [insnOpt]
    rw [byteStep_false _ _ _ _ (by simp)]
  · rename_i hl
    cases h
    obtain ⟨x, rfl⟩ := List.length_eq_one_iff.1 hl
    simp only [insnOpt]
    rw [matchBytes_single]
  · cases h; exact hset
  · cases h; exact hset
  · cases h; exact hset
  · cases h

/-! ## `Bracket` as `AsciiBracket` -/

theorem testBit_set (bm : AsciiBitmap) (val v : Nat) :
    (bm.set val).bits.testBit v = (bm.bits.testBit v || decide (val = v)) := by
  simp [AsciiBitmap.set, Nat.testBit_or, Nat.one_shiftLeft, Nat.testBit_two_pow]

theorem testBit_foldl_set (n : Nat) : ∀ (a : Nat) (acc : AsciiBitmap) (v : Nat),
    ((List.range' a n).foldl AsciiBitmap.set acc).bits.testBit v =
      (acc.bits.testBit v || (decide (a ≤ v) && decide (v < a + n))) := by
  induction n with
  | zero =>
    intro a acc v
    have : ¬ (a ≤ v ∧ v < a) := by omega
    simp [this]
  | succ n ih =>
    intro a acc v
    simp only [List.range'_succ, List.foldl_cons]
    rw [ih, testBit_set]
    by_cases h1 : a = v
    · subst h1; simp
    · by_cases h2 : a + 1 ≤ v
      · have : a ≤ v := by omega
        have h3 : (decide (v < a + 1 + n)) = decide (v < a + (n + 1)) := by
          apply decide_eq_decide.2; omega
        simp [h1, h2, this, h3]
      · have : ¬ a ≤ v := by omega
        simp [h1, h2, this]

theorem bracketAsAsciiLoop_spec : ∀ (ivs : List (Nat × Nat)) (acc bm : AsciiBitmap),
    bracketAsAsciiLoop ivs acc = some bm →
      (∀ r ∈ ivs, r.2 < 128) ∧
      ∀ v, bm.bits.testBit v = (acc.bits.testBit v || ivs.any (fun r => decide (r.1 ≤ v) && decide (v ≤ r.2)))
  | [], acc, bm, h => by
    simp only [bracketAsAsciiLoop] at h; cases h
    simp
  | r :: rest, acc, bm, h => by
    simp only [bracketAsAsciiLoop] at h
    split at h
    · cases h
    · rename_i hr
      obtain ⟨h1, h2⟩ := bracketAsAsciiLoop_spec rest _ bm h
      refine ⟨fun x hx => ?_, fun v => ?_⟩
      · rcases List.mem_cons.1 hx with rfl | hx
        · omega
        · exact h1 x hx
      · rw [h2, testBit_foldl_set]
        simp only [List.any_cons, Bool.or_assoc]
        congr 2
        by_cases ha : r.1 ≤ v
        · have : (decide (v < r.1 + (r.2 + 1 - r.1))) = decide (v ≤ r.2) := by
            apply decide_eq_decide.2; omega
          rw [this]
        · simp [ha]

theorem asciiBracket_test {bc : IR.Bracket} {bm : AsciiBitmap} (h : bracketAsAscii bc = some bm) (c : Nat) :
    asciiBitmapContains bm.toList c = bracketTest { invert := bc.invert, ivs := bc.ivs } c := by
  unfold bracketAsAscii at h
  split at h
  · cases h
  · rename_i hinv
    have hinv' : bc.invert = false := by simpa using hinv
    obtain ⟨h1, h2⟩ := bracketAsAsciiLoop_spec _ _ _ h
    simp only [bracketTest, hinv']
    have hc : (bm.toList.contains c) = (decide (c < 256) && bm.contains c) := by
      unfold AsciiBitmap.toList
      rw [List.contains_eq_mem]
      rw [Bool.eq_iff_iff]
      simp [List.mem_filter]
    unfold asciiBitmapContains
    rw [hc]
    simp only [AsciiBitmap.contains, h2, Nat.zero_testBit, Bool.false_or]
    by_cases h128 : c < 128
    · have : c < 256 := by omega
      simp only [h128, this, decide_true, Bool.true_and]
      cases bc.ivs.any (fun r => decide (r.1 ≤ c) && decide (c ≤ r.2)) <;> simp
    · have hany : bc.ivs.any (fun iv => decide (iv.1 ≤ c) && decide (c ≤ iv.2)) = false := by
        rw [List.any_eq_false]
        intro r hr
        have := h1 r hr
        simp; omega
      simp [h128, hany]

theorem leaf_asciiBracket (prog : Prog) {inp : Input} {cs : List Nat} (ht : Utf8Text inp cs) (fwd : Bool)
    (caps : List Cap) {pos : Nat} (hb : AtBoundary cs pos) {bc : IR.Bracket} {bm : AsciiBitmap}
    (h : bracketAsAscii bc = some bm) :
    insnOpt prog inp fwd caps pos (.asciiBracket bm.toList) =
      some (charStep inp fwd pos (bracketTest { invert := bc.invert, ivs := bc.ivs })) := by
  simp only [insnOpt]
  congr 1
  rw [byteStep_eq_charStep ht fwd hb _ (fun b hb => by
    unfold asciiBitmapContains at hb
    simp at hb; exact hb.1)]
  exact charStep_congr _ _ _ (asciiBracket_test h)

end Regress.Keystone
