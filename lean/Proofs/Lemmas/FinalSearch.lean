import Proofs.Lemmas.FinalPlumb
/-!
# Final, part 5: C17 / C20 for the running search of programs WITH `Loop1CharBody`

`Closure.replace_all_vm`, `Closure.ctxOK_findIter`, `Closure.forward_tiles_vm` are stated for
`Closure.FindHyp` (which contains `Sim.simpleProg`: no `Loop1CharBody`).  Here the same three theorems
for `Closure2.FindHyp2` (no `simpleProg`; `Pk.lookLoopProg` instead), obtained by replacing
`Closure.findIter_eq_collect` by `Closure2.findIter_bt_eq_collect_partial`: the running search with any
budget `fuel` is the drained pure iterator whose attempts have the budget
`max fuel (Pk.lookBound prog |haystack|)`.  `FindHyp2` holds of every compiled program
(`Final.compiled_findHyp2`).
-/
namespace Regress.Final

open Regress Regress.VM Regress.Closure Regress.Closure2 Regress.Api Regress.C09 Regress.VM.Safety
open Regress.C06

section
variable {prog : Prog} {inp : Input} {cs : List Nat}

/-- The budget of the fresh-matcher environment the running search with budget `fuel` is compared with. -/
def bigFuel (prog : Prog) (inp : Input) (fuel : Nat) : Nat := max fuel (Pk.lookBound prog inp.len)

theorem findIter_bt_eq_big (H : FindHyp2 prog inp cs) (fuel : Nat) {start : Nat}
    (hs : VUtf8 inp start ∨ inp.len < start) {ms : List MatchR}
    (h : findIter .bt prog inp start fuel = .ok ms) :
    ms = collectK (searchEnvBt prog inp (bigFuel prog inp fuel)) (kindOf prog .bt) start :=
  findIter_bt_eq_collect_partial H (Nat.le_max_left _ _) (Nat.le_max_right _ _) hs h

theorem findIter_pk_eq_big (H : FindHyp2 prog inp cs) (fuel : Nat) {start : Nat}
    (hs : VUtf8 inp start ∨ inp.len < start) {ms : List MatchR}
    (h : findIter .pk prog inp start fuel = .ok ms) :
    ms = collectK (searchEnvPk prog inp (bigFuel prog inp fuel)) (kindOf prog .pk) start :=
  findIter_pk_eq_collect_partial H (Nat.le_max_left _ _) (Nat.le_max_right _ _) hs h

/-- `Closure.searcherCtx_findFrom` for `FindHyp2`. -/
theorem searcherCtx_findFrom2 (H : FindHyp2 prog inp cs)
    {fuel : Nat} (hf : NoFuelOut prog inp fuel) {p : Nat} (hp : VUtf8 inp p) :
    (searcherCtx prog inp fuel).findFrom p =
      (ctxOf (searchEnvBt prog inp (bigFuel prog inp fuel)) (kindOf prog .bt) (vb inp)).findFrom p := by
  obtain ⟨ms, hms⟩ := hf p hp
  have heq := findIter_bt_eq_big H fuel (Or.inl hp) hms
  have hOn := envOKOn_bt H.wf H.leads H.text (bigFuel prog inp fuel)
  have hvp := vb_iff.mpr hp
  rw [ctxOf_findFrom _ (hOn.v_le p hvp)]
  simp only [searcherCtx, hms]
  have hc : collectK (searchEnvBt prog inp (bigFuel prog inp fuel)) (kindOf prog .bt) p =
      Matches.collect (searchEnvBt prog inp (bigFuel prog inp fuel)) (kindOf prog .bt) ⟨some p⟩ := by
    unfold collectK Matches.new
    rw [initialPosition_eq]; simp [hOn.v_le p hvp]
  rw [hc, collect_some_eq_on hOn _ hvp] at heq
  cases hm : nextMatch (searchEnvBt prog inp (bigFuel prog inp fuel)) (kindOf prog .bt) p with
  | none => rw [hm] at heq; subst heq; rfl
  | some mn => obtain ⟨m, ns⟩ := mn; rw [hm] at heq; subst heq; rfl

/-- `Closure.ctxOK_findIter` for `FindHyp2`. -/
theorem ctxOK_findIter2 (H : FindHyp2 prog inp cs)
    {fuel : Nat} (hf : NoFuelOut prog inp fuel) : C20.CtxOK (searcherCtx prog inp fuel) := by
  have C := ctxOK_vm H.wf H.leads H.text (bigFuel prog inp fuel)
  have hff : ∀ p, p ≤ inp.len → vb inp p = true → (searcherCtx prog inp fuel).findFrom p =
      (ctxOf (searchEnvBt prog inp (bigFuel prog inp fuel)) (kindOf prog .bt) (vb inp)).findFrom p :=
    fun p _ hb => searcherCtx_findFrom2 H hf (vb_iff.mp hb)
  exact
    { find_range := fun p s e hp hb h => C.find_range p s e hp hb (by rw [← hff p hp hb]; exact h)
      find_boundary := fun p s e hp hb h => C.find_boundary p s e hp hb (by rw [← hff p hp hb]; exact h)
      find_restart := fun p s e hp hb h => by
        have h' : (ctxOf (searchEnvBt prog inp (bigFuel prog inp fuel)) (kindOf prog .bt) (vb inp)).findFrom p =
            some (s, e) := by
          rw [← hff p hp hb]; exact h
        have hr := C.find_range p s e hp hb h'
        have hbd := C.find_boundary p s e hp hb h'
        have hs : s ≤ inp.len := Nat.le_trans hr.2.1 hr.2.2
        rw [hff s hs hbd.1]
        exact C.find_restart p s e hp hb h'
      boundary_zero := C.boundary_zero
      boundary_len := C.boundary_len
      next_boundary := C.next_boundary }

/-- `Closure.forward_tiles_vm` for `FindHyp2` (programs with `Loop1CharBody`, anchored or not). -/
theorem forward_tiles_vm2 (H : FindHyp2 prog inp cs)
    {fuel : Nat} (hf : NoFuelOut prog inp fuel) {ms : List MatchR}
    (hms : findIter .bt prog inp 0 fuel = .ok ms) :
    ∃ steps, forwardSteps (searcherCtx prog inp fuel) = some steps ∧
      steps.length ≤ 2 * inp.len + 1 ∧
      C20.tilesFrom inp.len 0 steps = true ∧
      C20.onBoundaries (searcherCtx prog inp fuel) steps = true ∧
      C20.matchesOf steps = ms.map (·.range) ∧
      ∀ ops, ∃ r mid, runOps (searcherCtx prog inp fuel) ops = .ok r ∧
        r.fronts ++ mid ++ r.backs.reverse = steps ∧
        (r.frontDone = true ∨ r.backDone = true → mid = []) := by
  have C := ctxOK_findIter2 H hf
  obtain ⟨steps, h1, _, h3, h4, h5, _, h7⟩ := C20.forward_tiles _ C
  have hOn := envOKOn_bt H.wf H.leads H.text (bigFuel prog inp fuel)
  have hv0 := vb_zero H.text
  have hiter : C20.IsIter (searcherCtx prog inp fuel) 0 (ms.map (·.range)) := by
    rw [findIter_bt_eq_big H fuel (Or.inl (vb_iff.mp hv0)) hms]
    have base := isIter_collect hOn (kindOf prog .bt) hv0
    have tr : ∀ (l : List (Nat × Nat)) (cur : Option Nat), (∀ c, cur = some c → vb inp c = true) →
        C20.IsIterO (ctxOf (searchEnvBt prog inp (bigFuel prog inp fuel)) (kindOf prog .bt) (vb inp)) cur l →
        C20.IsIterO (searcherCtx prog inp fuel) cur l := by
      intro l
      induction l with
      | nil =>
        intro cur hc h
        cases cur with
        | none => trivial
        | some c =>
          simp only [C20.IsIterO] at h ⊢
          rw [searcherCtx_findFrom2 H hf (vb_iff.mp (hc c rfl))]; exact h
      | cons m l ih =>
        intro cur hc h
        cases cur with
        | none => exact h
        | some c =>
          simp only [C20.IsIterO] at h ⊢
          have hvc := hc c rfl
          refine ⟨by rw [searcherCtx_findFrom2 H hf (vb_iff.mp hvc)]; exact h.1, ?_⟩
          have Cp := ctxOK_vm H.wf H.leads H.text (bigFuel prog inp fuel)
          have hbd := Cp.find_boundary c m.1 m.2 (hOn.v_le c hvc) hvc h.1
          have hrg := Cp.find_range c m.1 m.2 (hOn.v_le c hvc) hvc h.1
          have hadv : C20.advance (searcherCtx prog inp fuel) m =
              C20.advance (ctxOf (searchEnvBt prog inp (bigFuel prog inp fuel)) (kindOf prog .bt) (vb inp)) m := rfl
          rw [hadv]
          apply ih _ _ h.2
          intro c' hc'
          unfold C20.advance at hc'
          split at hc'
          · cases hc'; exact hbd.2
          · exact (Cp.next_boundary m.2 c' hrg.2.2 hbd.2 hc').2.2
    exact tr _ _ (fun c hc => by cases hc; exact hv0) base
  refine ⟨steps, h1, h3, h4, h5, h7 _ hiter, ?_⟩
  intro ops
  obtain ⟨all, r, mid, a1, a2, a3, a4, _⟩ := C20.interleaved_tiles _ C ops
  rw [h1] at a1; cases a1
  exact ⟨r, mid, a2, a3, a4⟩

/-- `Closure.replace_all_vm` for `FindHyp2`, either executor. -/
theorem replace_all_vm2 (H : FindHyp2 prog inp cs) (ex : Exec)
    (fuel : Nat) {ms : List MatchR} (hms : findIter ex prog inp 0 fuel = .ok ms)
    (f : MatchR → List Nat) :
    let text := inp.bytes.toList
    C17.Sorted text.length 0 ms ∧
    replaceAllWith text ms f =
      C17.interleave (C17.gaps text 0 ms) (ms.map f) ++ C17.tailGap text 0 ms ∧
    C17.interleave (C17.gaps text 0 ms) (ms.map (C17.matched text)) ++ C17.tailGap text 0 ms = text ∧
    replaceAllWith text ms (fun m => slice text m.range.1 m.range.2) = text := by
  intro text
  have hv0 : VUtf8 inp 0 := vb_iff.mp (vb_zero H.text)
  have hsorted : C17.Sorted text.length 0 ms := by
    have : C17.Sorted inp.len 0 ms := by
      cases ex with
      | bt => exact (findIter_bt_valid_partial H fuel (Or.inl hv0) hms).2.2.2.1
      | pk => exact (findIter_pk_valid_partial H fuel (Or.inl hv0) hms).2.2.2.1
    simpa [text, Input.len] using this
  have := C17.unmatched_preserved text ms f hsorted
  exact ⟨hsorted, this.1, this.2, C17.replace_with_identity text ms hsorted⟩

end

end Regress.Final
