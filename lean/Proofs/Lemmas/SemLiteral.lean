import Proofs.Lemmas.SemGood
import Proofs.Lemmas.SemPasses
/-!
# `form_literal_bytes`: `Char → ByteSequence`, `CharSet → ByteSet`, merging adjacent byte sequences
-/
namespace Regress.IR

open Regress.VM Regress

/-! ## Merging adjacent byte sequences (any input, any state) -/

theorem optSt_bind (st : St) (o : Option Nat) (f : Nat → Option Nat) :
    (optSt st o).flatMap (fun s => optSt s (f s.pos)) =
      optSt st (match o with | none => none | some p => f p) := by
  cases o with
  | none => rfl
  | some p =>
    simp only [optSt, List.flatMap_cons, List.flatMap_nil, List.append_nil]

/-- Two byte sequences one after the other are one byte sequence: `x ++ y` travelling forward,
`y ++ x` travelling backward (`x` is the one executed first). -/
theorem sem_byteSeq_seq (inp : Input) (fwd : Bool) (x y : List Nat) (st : St) :
    (sem inp (.byteSeq x) fwd st).flatMap (fun s => sem inp (.byteSeq y) fwd s) =
      sem inp (.byteSeq (if fwd then x ++ y else y ++ x)) fwd st := by
  cases fwd
  · simp only [sem, Bool.false_eq_true, if_false]
    rw [optSt_bind st _ (fun p => inp.matchBytes false p y), matchBytes_append_bwd]
    cases inp.matchBytes false st.pos x <;> rfl
  · simp only [sem, if_true]
    rw [optSt_bind st _ (fun p => inp.matchBytes true p y), matchBytes_append_fwd]
    cases inp.matchBytes true st.pos x <;> rfl

theorem mergeLiteralBytes_sem (inp : Input) (lb : Bool) :
    ∀ (rest : List Node) (prev : Node) (st : St),
      semCat inp (mergeLiteralBytes lb prev rest).1 (!lb) st = semCat inp (prev :: rest) (!lb) st := by
  intro rest
  induction rest with
  | nil => intro prev st; simp [mergeLiteralBytes]
  | cons curr rest ih =>
    intro prev st
    have other : semCat inp (prev :: (mergeLiteralBytes lb curr rest).1) (!lb) st =
        semCat inp (prev :: curr :: rest) (!lb) st := by
      rw [semCat_cons, semCat_cons]
      apply flatMap_congr_mem
      intro s _
      exact ih curr s
    unfold mergeLiteralBytes
    split
    · rename_i prevBytes currBytes
      split
      · simp only
        have hnil : sem inp (.byteSeq []) (!lb) st = [st] := by simp [sem, matchBytes_nil, optSt]
        rw [semCat_cons, hnil]
        simp only [List.flatMap_cons, List.flatMap_nil, List.append_nil]
        have hfun : (fun s => semCat inp (.byteSeq currBytes :: rest) (!lb) s) =
            fun s => (sem inp (.byteSeq currBytes) (!lb) s).flatMap (fun s' => semCat inp rest (!lb) s') := by
          funext s; rw [semCat_cons]
        rw [ih, semCat_cons, semCat_cons, hfun, ← List.flatMap_assoc, sem_byteSeq_seq]
        cases lb <;> simp
      · exact other
    · exact other

theorem mergeLiteralBytes_wf (lb : Bool) :
    ∀ (rest : List Node) (prev : Node), WF prev → WFList rest → WFList (mergeLiteralBytes lb prev rest).1 := by
  intro rest
  induction rest with
  | nil => intro prev hp _; simp [mergeLiteralBytes, WFList, hp]
  | cons curr rest ih =>
    intro prev hp hr
    simp only [WFList] at hr
    have other : WFList (prev :: (mergeLiteralBytes lb curr rest).1) := by
      simp only [WFList]; exact ⟨hp, ih curr hr.1 hr.2⟩
    unfold mergeLiteralBytes
    split
    · rename_i prevBytes currBytes
      split
      · simp only [WFList]
        refine ⟨by simp only [WF]; exact ⟨[], by intro x hx; simp at hx, rfl⟩, ih _ ?_ hr.2⟩
        simp only [WF] at hp hr ⊢
        obtain ⟨c1, hc1, rfl⟩ := hp
        obtain ⟨c2, hc2, rfl⟩ := hr.1
        cases lb
        · exact ⟨c1 ++ c2, by intro x hx; rcases List.mem_append.1 hx with h | h; exact hc1 x h; exact hc2 x h, by simp⟩
        · exact ⟨c2 ++ c1, by intro x hx; rcases List.mem_append.1 hx with h | h; exact hc2 x h; exact hc1 x h, by simp⟩
      · exact other
    · exact other

theorem mergeLiteralBytes_groups (lb : Bool) :
    ∀ (rest : List Node) (prev : Node),
      numGroupsList (mergeLiteralBytes lb prev rest).1 = numGroupsList (prev :: rest) := by
  intro rest
  induction rest with
  | nil => intro prev; simp [mergeLiteralBytes]
  | cons curr rest ih =>
    intro prev
    have other : numGroupsList (prev :: (mergeLiteralBytes lb curr rest).1) = numGroupsList (prev :: curr :: rest) := by
      simp only [numGroupsList, ih curr]
    unfold mergeLiteralBytes
    split
    · split
      · simp only [numGroupsList, ih, numGroups]
      · exact other
    · exact other

/-! ## `Char → ByteSequence`, `CharSet → ByteSet` (UTF-8 text, char boundaries) -/

theorem char_eq_byteSeq {inp : Input} {cs : List Nat} (ht : Utf8Text inp cs) {c : Nat} (hc : Utf8.isScalar c = true)
    (fwd : Bool) {st : St} (hb : AtBoundary cs st.pos) :
    sem inp (.char c) fwd st = sem inp (.byteSeq (Utf8.encode c)) fwd st := by
  simp only [sem]
  congr 1
  obtain ⟨k, hk, hpos⟩ := hb
  rw [hpos]
  have henc : Utf8.encode c = Utf8.encodeAll [c] := by simp
  have hsc : Utf8.AllScalar [c] := by intro x hx; simp at hx; subst hx; exact hc
  simp only [Input.matchBytes, ht.bytes, henc]
  cases fwd
  · -- backward
    have hiff := fun s => Utf8.matchBytes_back_iff_chars ht.scalar hsc hk s
    by_cases h0 : 0 < k
    · rw [charStep_bwd_at ht h0 hk]
      have htake : cs.take k = cs.take (k - 1) ++ [cs[k - 1]'(by omega)] := by
        have := List.take_succ_eq_append_getElem (l := cs) (i := k - 1) (by omega)
        rwa [show k - 1 + 1 = k by omega] at this
      by_cases he : cs[k - 1]'(by omega) = c
      · have : (cs[k - 1]'(by omega) == c) = true := by simpa using he
        simp only [this, if_true]
        symm
        rw [hiff]
        refine ⟨?_, by simp⟩
        rw [htake, he]; exact List.suffix_append _ _
      · have : (cs[k - 1]'(by omega) == c) = false := by simpa using he
        simp only [this, Bool.false_eq_true, if_false]
        symm
        cases hm : Utf8.matchBytes (Utf8.text cs) false (Utf8.off cs k) (Utf8.encodeAll [c]) with
        | none => rfl
        | some s =>
          exfalso
          have := ((hiff s).1 hm).1
          rw [htake] at this
          obtain ⟨t, ht'⟩ := this
          have hl := (List.append_inj' ht' rfl).2
          exact he (List.cons.inj hl).1.symm
    · have : k = 0 := by omega
      subst this
      rw [charStep_bwd_start ht]
      symm
      cases hm : Utf8.matchBytes (Utf8.text cs) false (Utf8.off cs 0) (Utf8.encodeAll [c]) with
      | none => rfl
      | some s =>
        exfalso
        have := ((hiff s).1 hm).1
        simp at this
  · -- forward
    have hiff := fun e => Utf8.matchBytes_iff_chars ht.scalar hsc k e
    by_cases hlt : k < cs.length
    · rw [charStep_fwd_at ht hlt]
      have hdrop : cs.drop k = cs[k] :: cs.drop (k + 1) := List.drop_eq_getElem_cons hlt
      by_cases he : cs[k] = c
      · have : (cs[k] == c) = true := by simpa using he
        simp only [this, if_true]
        symm
        rw [hiff]
        refine ⟨?_, by simp⟩
        rw [hdrop, he]; exact ⟨_, rfl⟩
      · have : (cs[k] == c) = false := by simpa using he
        simp only [this, Bool.false_eq_true, if_false]
        symm
        cases hm : Utf8.matchBytes (Utf8.text cs) true (Utf8.off cs k) (Utf8.encodeAll [c]) with
        | none => rfl
        | some e =>
          exfalso
          have := ((hiff e).1 hm).1
          rw [hdrop] at this
          obtain ⟨t, ht'⟩ := this
          exact he (List.cons.inj ht').1.symm
    · have : k = cs.length := by omega
      subst this
      rw [charStep_fwd_end ht]
      symm
      cases hm : Utf8.matchBytes (Utf8.text cs) true (Utf8.off cs cs.length) (Utf8.encodeAll [c]) with
      | none => rfl
      | some e =>
        exfalso
        have := ((hiff e).1 hm).1
        simp at this

theorem charSet_eq_byteSet {inp : Input} {cs : List Nat} (ht : Utf8Text inp cs) {chars : List Nat}
    (hall : chars.all (fun c => decide (c ≤ 0x7F)) = true) (fwd : Bool) {st : St} (hb : AtBoundary cs st.pos) :
    sem inp (.charSet chars) fwd st = sem inp (.byteSet chars) fwd st := by
  simp only [sem]
  congr 1
  rw [byteStep_eq_charStep ht fwd hb _ (by
    intro b hbm
    have hm : b ∈ chars := by simpa using hbm
    have := List.all_eq_true.1 hall b hm
    simp at this; omega)]
  congr 1
  funext c
  rw [charsetContains_eq]
  rw [Bool.eq_iff_iff]; simp

/-! ## The pass -/

theorem formLiteralBytes_ok {inp : Input} {cs : List Nat} (ht : Utf8Text inp cs) :
    PassOK (utf8Inv cs) inp formLiteralBytes := by
  intro n w a hw h
  have keep : WF (PassAction.keep.result n) ∧ numGroups (PassAction.keep.result n) = numGroups n ∧
      NodeEq (utf8Inv cs) inp (!w.inLookbehind) n (PassAction.keep.result n) := ⟨hw, rfl, NodeEq.refl _ _ _ _⟩
  unfold formLiteralBytes at h
  split at h
  · -- Char
    rename_i c
    split at h
    · rename_i hsc
      cases h
      refine ⟨?_, rfl, ?_⟩
      · simp only [PassAction.result, WF]
        exact ⟨[c], by intro x hx; simp at hx; subst hx; exact hsc, by simp⟩
      · intro st hg
        exact ObsEq.of_eq (char_eq_byteSeq ht hsc _ hg.1)
    · cases h; exact keep
  · -- CharSet
    rename_i chars
    split at h
    · rename_i hall
      cases h
      refine ⟨?_, rfl, ?_⟩
      · simp only [PassAction.result, WF]
        intro b hb
        have := List.all_eq_true.1 hall b hb
        simp at this; omega
      · intro st hg
        exact ObsEq.of_eq (charSet_eq_byteSet ht hall _ hg.1)
    · cases h; exact keep
  · -- Cat
    rename_i nodes
    split at h
    · cases h; exact keep
    · rename_i first rest
      simp only [WF, WFList] at hw
      dsimp only at h
      split at h
      · cases h
        refine passOK_of_eq ?_ ?_ ?_
        · simp only [PassAction.result, WF]; exact mergeLiteralBytes_wf _ rest first hw.1 hw.2
        · simp only [PassAction.result, numGroups]; exact mergeLiteralBytes_groups _ rest first
        · intro st
          simp only [PassAction.result, sem]
          exact (mergeLiteralBytes_sem inp w.inLookbehind rest first st).symm
      · cases h; exact keep
  · cases h; exact keep

end Regress.IR
