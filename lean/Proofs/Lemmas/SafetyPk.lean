import Proofs.Lemmas.SafetyBt
/-!
# Memory safety of the PikeVM executor model (`Regress.VM.Pk`)

Generic in the position discipline `Spec prog inp A V` of `SafetyCommon`.
-/
namespace Regress.VM.Pk
open Regress.VM.Safety
open Regress.VM.Bt (GroupOK LoopData GroupData)

section Inv
variable (prog : Prog) (inp : Input) (A : Bool → Nat → Nat → Prop) (V : Nat → Prop)

/-- The loop and group arrays of a thread have the shape the program expects and hold only storable
positions. -/
structure DataOK (s : State) : Prop where
  loops : s.loops.size = prog.loops
  groups : s.groups.size = prog.groups
  gok : ∀ (g : Nat) (gd : GroupData), s.groups[g]? = some gd → GroupOK V gd

/-- A thread of a run started at `b` in direction `fwd`. -/
def SOK (b : Nat) (fwd : Bool) (s : State) : Prop :=
  A fwd s.ip s.pos ∧ MovedLe fwd b s.pos ∧ DataOK prog V s

/-- What `try_match_state` delivers. -/
def SMPost (b : Nat) (fwd : Bool) : SM → Prop
  | .fail s _ _ => DataOK prog V s
  | .cont s _ _ => SOK prog A V b fwd s
  | .split s n _ _ => SOK prog A V b fwd s ∧ SOK prog A V b fwd n
  | .complete s _ _ => SOK prog A V b fwd s ∧ V s.pos
  | .outOfFuel => True
  | .err _ => False

/-- What `try_at_pos` delivers. -/
def PkPost (b : Nat) (fwd : Bool) : Outcome → Prop
  | .matched e st _ _ => e = st.pos ∧ V e ∧ MovedLe fwd b e ∧ DataOK prog V st
  | .failed _ _ => True
  | .outOfFuel => True
  | .error _ => False

/-- The nested attempts of the look-arounds are safe. -/
def LookOK (Pre : State → Bool → Prop) (look : Runner) : Prop :=
  ∀ s0 d steps peak, SOK prog A V s0.pos d s0 → Pre s0 d →
    PkPost prog V s0.pos d (look s0 d steps peak)

variable {prog inp A V}

theorem DataOK.of_eq {s s' : State} (h : DataOK prog V s) (hl : s'.loops = s.loops)
    (hg : s'.groups = s.groups) : DataOK prog V s' :=
  ⟨by rw [hl]; exact h.loops, by rw [hg]; exact h.groups, by rw [hg]; exact h.gok⟩

theorem DataOK.setLoops {s : State} (h : DataOK prog V s) (id : Nat) (d : LoopData) (ip pos l1 : Nat) :
    DataOK prog V { s with loops := s.loops.setIfInBounds id d, ip := ip, pos := pos, loop1Iters := l1 } :=
  ⟨by simp [h.loops], h.groups, h.gok⟩

theorem DataOK.setGroup {s : State} (h : DataOK prog V s) (id : Nat) {d : GroupData}
    (hd : GroupOK V d) (ip : Nat) :
    DataOK prog V { s with groups := s.groups.setIfInBounds id d, ip := ip } := by
  refine ⟨h.loops, by simp [h.groups], ?_⟩
  intro g gd hg
  simp only [Array.getElem?_setIfInBounds] at hg
  split at hg
  · split at hg
    · cases hg; exact hd
    · cases hg
  · exact h.gok g gd hg

theorem nextOrFail_ok {b : Nat} {fwd : Bool} {s : State} (v : Bool) (steps peak : Nat)
    (hd : DataOK prog V s) (hA : A fwd (s.ip + 1) s.pos) (hb : MovedLe fwd b s.pos) :
    SMPost prog A V b fwd (nextOrFail v s steps peak) := by
  unfold nextOrFail
  split
  · exact ⟨hA, hb, hd.of_eq rfl rfl⟩
  · exact hd

theorem nextElemArm_ok {b : Nat} {fwd : Bool} {s : State} (h : SOK prog A V b fwd s)
    (hn : ∃ r, Cursor.next inp fwd s.pos = .ok r ∧
      ∀ c p, r = some (c, p) → A fwd (s.ip + 1) p ∧ Moved fwd s.pos p)
    {f : Nat → Except String Bool} (hf : ∀ c, ∃ v, f c = .ok v) (site : String) (steps peak : Nat) :
    SMPost prog A V b fwd (nextElemArm inp fwd s f site steps peak) := by
  obtain ⟨r, hr, hp⟩ := hn
  unfold nextElemArm
  rw [hr]
  cases r with
  | none => exact h.2.2
  | some cp =>
    obtain ⟨c, p⟩ := cp
    obtain ⟨v, hv⟩ := hf c
    simp only [hv]
    exact nextOrFail_ok v steps peak (h.2.2.of_eq rfl rfl) (hp c p rfl).1 (h.2.1.trans (hp c p rfl).2.le)

theorem scmArm_ok {b : Nat} {fwd : Bool} {s : State} (h : SOK prog A V b fwd s)
    {r : Except Unit (Option Nat)}
    (hr : ∃ r', r = .ok r' ∧ ∀ p, r' = some p → A fwd (s.ip + 1) p ∧ MovedLe fwd s.pos p)
    (site : String) (steps peak : Nat) :
    SMPost prog A V b fwd (scmArm r s site steps peak) := by
  obtain ⟨r', rfl, hp⟩ := hr
  cases r' with
  | none => exact h.2.2
  | some p => exact ⟨(hp p rfl).1, h.2.1.trans (hp p rfl).2, h.2.2.of_eq rfl rfl⟩

theorem groupArm_ok {b : Nat} {fwd : Bool} {s : State} (h : SOK prog A V b fwd s) {g : Nat}
    (hg : g < prog.groups) (hA' : A fwd (s.ip + 1) s.pos) {upd : GroupData → GroupData}
    (hupd : ∀ cg, GroupOK V cg → GroupOK V (upd cg)) (site : String) (steps peak : Nat) :
    SMPost prog A V b fwd (groupArm g upd s site steps peak) := by
  obtain ⟨cg, hcg⟩ := getElem?_of_lt' (a := s.groups) (i := g) (by rw [h.2.2.groups]; exact hg)
  unfold groupArm
  rw [hcg]
  have hok := h.2.2.gok g cg hcg
  simp only [nextOrFail, if_true]
  exact ⟨hA', h.2.1, h.2.2.setGroup g (hupd cg hok) _⟩

theorem runLoop_ok {b : Nat} {fwd : Bool} {s : State} (hd : DataOK prog V s)
    (hb : MovedLe fwd b s.pos) {id mn : Nat} {mx : Option Nat} {gr : Bool} {exit : Nat}
    (hid : id < prog.loops) (hA1 : A fwd (s.ip + 1) s.pos) (hA2 : A fwd exit s.pos)
    (init : Bool) (steps peak : Nat) :
    SMPost prog A V b fwd (runLoop s id mn mx gr exit init steps peak) := by
  obtain ⟨ld, hld⟩ := getElem?_of_lt' (a := s.loops) (i := id) (by rw [hd.loops]; exact hid)
  unfold runLoop
  simp only [hld]
  cases init with
  | true =>
    simp only [if_true]
    have hd' := fun ip => hd.setLoops id { iters := 0, entry := s.pos } ip s.pos s.loop1Iters
    cases maxPos mx <;> cases (mn == 0) <;> simp only [Bool.not_true, Bool.not_false, Bool.and_self,
      Bool.and_true, Bool.and_false, Bool.false_eq_true, if_true, if_false]
    · exact hd' _
    · exact ⟨hA2, hb, hd' _⟩
    · exact ⟨hA1, hb, hd' _⟩
    · cases gr with
      | true => exact ⟨⟨hA2, hb, hd' _⟩, ⟨hA1, hb, hd' _⟩⟩
      | false => exact ⟨⟨hA1, hb, hd' _⟩, ⟨hA2, hb, hd' _⟩⟩
  | false =>
    simp only [Bool.false_eq_true, if_false]
    split
    · exact hd.setLoops id _ s.ip s.pos s.loop1Iters
    · have hd' := fun ip => hd.setLoops id { iters := ld.iters + 1, entry := s.pos } ip s.pos s.loop1Iters
      cases Bt.ltMax (ld.iters + 1) mx <;> cases decide (ld.iters + 1 ≥ mn) <;>
        simp only [Bool.not_true, Bool.not_false, Bool.and_self,
          Bool.and_true, Bool.and_false, Bool.false_eq_true, if_true, if_false]
      · exact hd' _
      · exact ⟨hA2, hb, hd' _⟩
      · exact ⟨hA1, hb, hd' _⟩
      · cases gr with
        | true => exact ⟨⟨hA2, hb, hd' _⟩, ⟨hA1, hb, hd' _⟩⟩
        | false => exact ⟨⟨hA1, hb, hd' _⟩, ⟨hA2, hb, hd' _⟩⟩

theorem lookArm_okS {Pre : State → Bool → Prop} {look : Runner} (hl : LookOK prog A V Pre look)
    {b : Nat} {fwd : Bool} {s : State}
    (h : SOK prog A V b fwd s) (d neg : Bool) (k : Nat) (hA1 : A d (s.ip + 1) s.pos)
    (hAk : A fwd k s.pos) (hpre : Pre { s with ip := s.ip + 1 } d) (steps peak : Nat) :
    SMPost prog A V b fwd (lookArm look d neg k s steps peak) := by
  have hlk := hl { s with ip := s.ip + 1 } d steps peak ⟨hA1, MovedLe.refl _ _, h.2.2.of_eq rfl rfl⟩ hpre
  unfold lookArm
  simp only
  cases hr : look { s with ip := s.ip + 1 } d steps peak with
  | error e => rw [hr] at hlk; exact hlk.elim
  | outOfFuel => trivial
  | matched e s' st' pk' =>
    rw [hr] at hlk
    simp only
    split
    · exact ⟨hAk, h.2.1, hlk.2.2.2.of_eq rfl rfl⟩
    · exact hlk.2.2.2
  | failed st' pk' =>
    simp only
    split
    · exact ⟨hAk, h.2.1, h.2.2.of_eq rfl rfl⟩
    · exact h.2.2.of_eq rfl rfl

/-- The hypothesis under which the `backref_icase` site is safe for a thread: the referenced range
is not inverted. -/
def PkIcaseOrdered (prog : Prog) (s : State) : Prop :=
  ∀ (g : Nat) (gd : GroupData) (rs re : Nat), prog.insns[s.ip]? = some (.backRef g true) →
    s.groups[g]? = some gd → gd.asRange = some (rs, re) → rs ≤ re

theorem pkIcaseOrdered_of_nb (hnb : noIcaseBackref prog = true) (s : State) : PkIcaseOrdered prog s :=
  fun g _ _ _ hi => absurd hi (noIcaseBackref_spec hnb _ g)

/-- Every instruction except `Loop1CharBody`. -/
theorem tms_simple (hs : Spec prog inp A V) (hw : wfProg prog = true)
    {Pre : State → Bool → Prop} {look : Runner} (hl : LookOK prog A V Pre look)
    {b : Nat} {fwd : Bool} {s : State} (h : SOK prog A V b fwd s) (hnb : PkIcaseOrdered prog s)
    {insn : Insn}
    (hpre : ∀ neg sg eg k, (insn = .lookahead neg sg eg k → Pre { s with ip := s.ip + 1 } true) ∧
      (insn = .lookbehind neg sg eg k → Pre { s with ip := s.ip + 1 } false))
    (hi : prog.insns[s.ip]? = some insn) (hnl : ∀ mn mx g, insn ≠ .loop1 mn mx g)
    (d steps peak : Nat) :
    SMPost prog A V b fwd (tryMatchState prog inp look (d + 1) s fwd steps peak) := by
  obtain ⟨hA, hb, hd⟩ := h
  have hS : SOK prog A V b fwd s := ⟨hA, hb, hd⟩
  have hwi := wf_insn hw hi
  have hctrl := hs.ctrl hA hi
  have helem : isElem insn = true → ∀ (f : Nat → Except String Bool) (site : String),
      (∀ c, ∃ v, f c = .ok v) →
      SMPost prog A V b fwd (nextElemArm inp fwd s f site steps peak) :=
    fun he f site hf => nextElemArm_ok hS (hs.elem hA hi he) hf site steps peak
  have hbyte : ∀ bs, (insn = .byteSet bs ∨ insn = .asciiBracket bs) → ∀ (f : Nat → Bool) (site : String),
      (∀ x, f x = true → x ∈ bs) →
      SMPost prog A V b fwd (scmArm
        (match Cursor.nextByte inp fwd s.pos with
          | .error e => .error e
          | .ok none => .ok none
          | .ok (some (c, p)) => .ok (if f c then some p else none)) s site steps peak) := by
    intro bs hbs f site hf
    apply scmArm_ok hS
    obtain ⟨r, hr, hp⟩ := hs.byte (bs := bs) hA (by rcases hbs with h | h <;> simp [hi, h])
    rw [hr]
    cases r with
    | none => exact ⟨none, rfl, fun p h => by cases h⟩
    | some cp =>
      obtain ⟨c, p⟩ := cp
      refine ⟨_, rfl, ?_⟩
      intro q hq
      split at hq
      · rename_i hfc; cases hq; exact ⟨(hp c _ rfl (hf c hfc)).1, (hp c _ rfl (hf c hfc)).2.le⟩
      · cases hq
  have hpeek : (∀ bs, insn ≠ .byteSeq bs) →
      (∃ r, inp.peekLeft s.pos = .ok r) ∧ (∃ r, inp.peekRight s.pos = .ok r) :=
    fun hn => hs.peek (hs.adm_v hA hi hn)
  unfold tryMatchState
  rw [hi]
  cases insn with
  | goal => exact ⟨hS, hs.adm_v hA hi (by intro bs; simp)⟩
  | justFail => exact hd
  | char c => exact helem rfl _ _ (fun c2 => ⟨_, rfl⟩)
  | charSet cs => exact helem rfl _ _ (fun c2 => ⟨_, rfl⟩)
  | matchAny => exact helem rfl _ _ (fun c2 => ⟨_, rfl⟩)
  | matchAnyExceptLineTerminator => exact helem rfl _ _ (fun c2 => ⟨_, rfl⟩)
  | bracket idx =>
    simp only [wfInsn, decide_eq_true_eq] at hwi
    refine helem rfl _ _ (fun c2 => ?_)
    simp only [Array.getElem?_eq_getElem hwi]
    exact ⟨_, rfl⟩
  | byteSet bs =>
    exact hbyte bs (Or.inl rfl) (fun x => byteArraySetContains bs x) _
      (fun x h => Bt.mem_of_byteArraySetContains h)
  | asciiBracket bm =>
    exact hbyte bm (Or.inr rfl) (fun x => asciiBitmapContains bm x) _
      (fun x h => Bt.mem_of_asciiBitmapContains h)
  | byteSeq bs =>
    apply scmArm_ok hS
    refine ⟨_, rfl, ?_⟩
    intro p hp
    have := hs.seq hA hi hp
    exact ⟨this.1, this.2.le⟩
  | wordBoundary inv =>
    obtain ⟨⟨l, hl'⟩, ⟨r, hr⟩⟩ := hpeek (by intro bs; simp)
    simp only [wordBoundaryArm]
    obtain ⟨v1, h1⟩ := Bt.peekIs_ok isWordChar ⟨l, hl'⟩
    obtain ⟨v2, h2⟩ := Bt.peekIs_ok isWordChar ⟨r, hr⟩
    rw [h1, h2]
    exact nextOrFail_ok _ steps peak hd (hctrl _ (by simp [ctrlSuccs])) hb
  | wordBoundaryUnicodeICase inv =>
    obtain ⟨⟨l, hl'⟩, ⟨r, hr⟩⟩ := hpeek (by intro bs; simp)
    simp only [wordBoundaryArm]
    obtain ⟨v1, h1⟩ := Bt.peekIs_ok isWordCharUnicodeIcase ⟨l, hl'⟩
    obtain ⟨v2, h2⟩ := Bt.peekIs_ok isWordCharUnicodeIcase ⟨r, hr⟩
    rw [h1, h2]
    exact nextOrFail_ok _ steps peak hd (hctrl _ (by simp [ctrlSuccs])) hb
  | startOfLine ml =>
    obtain ⟨⟨l, hl'⟩, _⟩ := hpeek (by intro bs; simp)
    simp only [lineArm, hl']
    cases l with
    | none => exact nextOrFail_ok _ steps peak hd (hctrl _ (by simp [ctrlSuccs])) hb
    | some c => exact nextOrFail_ok _ steps peak hd (hctrl _ (by simp [ctrlSuccs])) hb
  | endOfLine ml =>
    obtain ⟨_, ⟨l, hl'⟩⟩ := hpeek (by intro bs; simp)
    simp only [lineArm, hl']
    cases l with
    | none => exact nextOrFail_ok _ steps peak hd (hctrl _ (by simp [ctrlSuccs])) hb
    | some c => exact nextOrFail_ok _ steps peak hd (hctrl _ (by simp [ctrlSuccs])) hb
  | jump t => exact ⟨hctrl _ (by simp [ctrlSuccs]), hb, hd.of_eq rfl rfl⟩
  | alt sec =>
    exact ⟨⟨hctrl _ (by simp [ctrlSuccs]), hb, hd.of_eq rfl rfl⟩,
      ⟨hctrl _ (by simp [ctrlSuccs]), hb, hd.of_eq rfl rfl⟩⟩
  | beginCaptureGroup g =>
    simp only [wfInsn, decide_eq_true_eq] at hwi
    have hv := hs.adm_v hA hi (by intro bs; simp)
    refine groupArm_ok hS hwi (hctrl _ (by simp [ctrlSuccs])) ?_ _ steps peak
    intro cg hcg
    split
    · exact ⟨fun s h => by cases h; exact hv, hcg.2⟩
    · exact ⟨hcg.1, fun s h => by cases h; exact hv⟩
  | endCaptureGroup g =>
    simp only [wfInsn, decide_eq_true_eq] at hwi
    have hv := hs.adm_v hA hi (by intro bs; simp)
    refine groupArm_ok hS hwi (hctrl _ (by simp [ctrlSuccs])) ?_ _ steps peak
    intro cg hcg
    split
    · exact ⟨hcg.1, fun s h => by cases h; exact hv⟩
    · exact ⟨fun s h => by cases h; exact hv, hcg.2⟩
  | resetCaptureGroup g =>
    simp only [wfInsn, decide_eq_true_eq] at hwi
    refine groupArm_ok hS hwi (hctrl _ (by simp [ctrlSuccs])) ?_ _ steps peak
    intro cg _
    exact ⟨fun s h => (by cases h), fun s h => (by cases h)⟩
  | backRef g ic =>
    simp only [wfInsn, decide_eq_true_eq] at hwi
    obtain ⟨cg, hcg⟩ := getElem?_of_lt' (a := s.groups) (i := g) (by rw [hd.groups]; exact hwi)
    simp only [hcg]
    have hok := hd.gok g cg hcg
    cases hr : cg.asRange with
    | none => exact nextOrFail_ok _ steps peak hd (hctrl _ (by simp [ctrlSuccs])) hb
    | some rr =>
      obtain ⟨rs, re⟩ := rr
      have hrs : V rs ∧ V re := by
        unfold GroupData.asRange at hr
        split at hr
        · rename_i s e h1 h2; cases hr; exact ⟨hok.1 _ h1, hok.2 _ h2⟩
        · cases hr
      simp only
      cases ic with
      | true =>
        simp only [if_true]
        apply scmArm_ok hS
        exact hs.backrefI hA hi hrs.1 hrs.2 (hnb g cg rs re hi hcg hr)
      | false =>
        simp only [Bool.false_eq_true, if_false]
        apply scmArm_ok hS
        exact ⟨_, rfl, fun p hp => hs.backref hA hi hrs.1 hrs.2 hp⟩
  | lookahead neg sg eg k =>
    exact lookArm_okS hl hS true neg k ((hs.look hA).1 hi) (hctrl _ (by simp [ctrlSuccs]))
      ((hpre neg sg eg k).1 rfl) steps peak
  | lookbehind neg sg eg k =>
    exact lookArm_okS hl hS false neg k ((hs.look hA).2 hi) (hctrl _ (by simp [ctrlSuccs]))
      ((hpre neg sg eg k).2 rfl) steps peak
  | enterLoop id mn mx gr exit =>
    simp only [wfInsn, Bool.and_eq_true, decide_eq_true_eq] at hwi
    exact runLoop_ok hd hb hwi.1.1 (hctrl _ (by simp [ctrlSuccs])) (hctrl _ (by simp [ctrlSuccs]))
      true steps peak
  | loopAgain bg =>
    simp only [wfInsn] at hwi
    cases hbg : prog.insns[bg]? with
    | none => rw [hbg] at hwi; cases hwi
    | some bi =>
      cases bi with
      | enterLoop id mn mx gr exit =>
        simp only [hbg]
        have hwb := wf_insn hw hbg
        simp only [wfInsn, Bool.and_eq_true, decide_eq_true_eq] at hwb
        exact runLoop_ok (s := { s with ip := bg }) (hd.of_eq rfl rfl) hb hwb.1.1
          (hctrl _ (by simp [ctrlSuccs, hbg])) (hctrl _ (by simp [ctrlSuccs, hbg])) false steps peak
      | _ => rw [hbg] at hwi; cases hwi
  | loop1 mn mx g => exact absurd rfl (hnl mn mx g)

/-- `Fail`/`Continue` at instruction `ip` (or an error / out of fuel), never `Split`/`Complete`. -/
def SMSimple (ip : Nat) : SM → Prop
  | .split _ _ _ _ => False
  | .complete _ _ _ => False
  | .cont s _ _ => s.ip = ip
  | _ => True

theorem nextOrFail_simple (v : Bool) (s : State) (steps peak : Nat) :
    SMSimple (s.ip + 1) (nextOrFail v s steps peak) := by
  unfold nextOrFail; split
  · rfl
  · trivial

theorem nextElemArm_simple (inp : Input) (fwd : Bool) (s : State) (f : Nat → Except String Bool)
    (site : String) (steps peak : Nat) :
    SMSimple (s.ip + 1) (nextElemArm inp fwd s f site steps peak) := by
  unfold nextElemArm
  split
  · trivial
  · trivial
  · split
    · trivial
    · exact nextOrFail_simple _ _ _ _

theorem scmArm_simple (r : Except Unit (Option Nat)) (s : State) (site : String) (steps peak : Nat) :
    SMSimple (s.ip + 1) (scmArm r s site steps peak) := by
  unfold scmArm; split
  · trivial
  · trivial
  · rfl

/-- The body of a `Loop1CharBody` never splits or completes, and continues at the next instruction. -/
theorem tms_body_simple {look : Runner} {s : State} {insn : Insn}
    (hi : prog.insns[s.ip]? = some insn) (hacc : scmAccepted insn = true) (fwd : Bool)
    (d steps peak : Nat) :
    SMSimple (s.ip + 1) (tryMatchState prog inp look (d + 1) s fwd steps peak) := by
  unfold tryMatchState
  rw [hi]
  cases insn <;> simp only [scmAccepted, Bool.false_eq_true] at hacc <;>
    first
    | exact nextElemArm_simple _ _ _ _ _ _ _
    | exact scmArm_simple _ _ _ _ _

/-- `Loop1CharBody`. -/
theorem tms_loop1 (hs : Spec prog inp A V) (hw : wfProg prog = true)
    {Pre : State → Bool → Prop} {look : Runner} (hl : LookOK prog A V Pre look)
    {b : Nat} {fwd : Bool} {s : State} (h : SOK prog A V b fwd s) {mn : Nat} {mx : Option Nat}
    {g : Bool} (hi : prog.insns[s.ip]? = some (.loop1 mn mx g)) (d steps peak : Nat) :
    SMPost prog A V b fwd (tryMatchState prog inp look (d + 2) s fwd steps peak) := by
  obtain ⟨hA, hb, hd⟩ := h
  have hwi := wf_insn hw hi
  simp only [wfInsn, Bool.and_eq_true, decide_eq_true_eq] at hwi
  obtain ⟨⟨_, hlt⟩, hbody⟩ := hwi
  have hl1 := hs.loop1 hA hi
  have hv : V s.pos := hs.adm_v hA hi (by intro bs; simp)
  have hexit : A fwd (s.ip + 2) s.pos := (hl1 s.pos).1.mpr hv
  obtain ⟨body, hbi⟩ := getElem?_of_lt' (a := prog.insns) (i := s.ip + 1) (by omega)
  rw [hbi] at hbody
  simp only [Bool.and_eq_true] at hbody
  have hnl : ∀ mn mx g, body ≠ .loop1 mn mx g := by
    intro a b' c hh; rw [hh] at hbody; simp [scmAccepted] at hbody
  -- the recursive call on the body
  have hin := tms_simple hs hw hl (s := { s with ip := s.ip + 1 }) (b := b)
    ⟨((hl1 s.pos).2 hv).1, hb, hd.of_eq rfl rfl⟩
    (fun g _ _ _ hi' => by
      have : prog.insns[s.ip + 1]? = some (.backRef g true) := hi'
      rw [hbi] at this; cases this; simp [scmAccepted] at hbody)
    (fun neg sg eg k => ⟨fun hh => by rw [hh] at hbody; simp [scmAccepted] at hbody,
      fun hh => by rw [hh] at hbody; simp [scmAccepted] at hbody⟩)
    hbi hnl d steps peak
  have hsimple := tms_body_simple (inp := inp) (look := look) (s := { s with ip := s.ip + 1 }) hbi hbody.1
    fwd d steps peak
  unfold tryMatchState
  rw [hi]
  simp only
  -- the four outcomes
  have hfin : ∀ (tp : Option Nat) (s1 : State) (st pk : Nat), DataOK prog V s1 → s1.ip = s.ip →
      s1.pos = s.pos → (∀ p, tp = some p → V p ∧ MovedLe fwd b p) →
      SMPost prog A V b fwd
        (match tp, decide (s.loop1Iters ≥ mn) with
          | none, false => .fail s1 st pk
          | none, true => .cont { s1 with ip := s.ip + 2, loop1Iters := 0 } st pk
          | some tp, false => .cont { s1 with pos := tp, loop1Iters := s.loop1Iters + 1 } st pk
          | some tp, true =>
            if g then
              .split { s1 with ip := s.ip + 2, loop1Iters := 0 }
                { s1 with pos := tp, loop1Iters := s.loop1Iters + 1 } st pk
            else
              .split { s1 with pos := tp, loop1Iters := s.loop1Iters + 1 }
                { s1 with ip := s.ip + 2, loop1Iters := 0 } st pk) := by
    intro tp s1 st pk hd1 hip hpos htp
    have hE : SOK prog A V b fwd { s1 with ip := s.ip + 2, loop1Iters := 0 } :=
      ⟨by simp only [hpos]; exact hexit, by simp only [hpos]; exact hb, hd1.of_eq rfl rfl⟩
    cases tp with
    | none =>
      cases decide (s.loop1Iters ≥ mn) with
      | false => exact hd1
      | true => exact hE
    | some p =>
      obtain ⟨hvp, hbp⟩ := htp p rfl
      have hT : SOK prog A V b fwd { s1 with pos := p, loop1Iters := s.loop1Iters + 1 } :=
        ⟨by simp only [hip]; exact ((hl1 p).2 hvp).2, hbp, hd1.of_eq rfl rfl⟩
      cases decide (s.loop1Iters ≥ mn) with
      | false => exact hT
      | true =>
        simp only
        split
        · exact ⟨hE, hT⟩
        · exact ⟨hT, hE⟩
  cases hmax : Bt.ltMax s.loop1Iters mx with
  | false =>
    simp only [Bool.false_eq_true, if_false]
    exact hfin none s steps peak hd rfl rfl (fun p hp => by cases hp)
  | true =>
    simp only [if_true]
    -- iters < max: run the body
    cases hr : tryMatchState prog inp look (d + 1) { s with ip := s.ip + 1 } fwd steps peak with
    | err e => rw [hr] at hin; exact hin.elim
    | outOfFuel => trivial
    | split a b' c d' => rw [hr] at hsimple; exact hsimple.elim
    | complete a b' c => rw [hr] at hsimple; exact hsimple.elim
    | cont s' st pk =>
      rw [hr] at hin hsimple
      simp only
      refine hfin (some s'.pos) _ st pk (hin.2.2.of_eq rfl rfl) rfl rfl ?_
      intro p hp
      cases hp
      have h2 : s'.ip = s.ip + 2 := hsimple
      have hA' := hin.1
      rw [h2] at hA'
      exact ⟨(hl1 _).1.mp hA', hin.2.1⟩
    | fail s' st pk =>
      rw [hr] at hin
      simp only
      exact hfin none _ st pk (hin.of_eq rfl rfl) rfl rfl (fun p hp => by cases hp)

/-- `try_match_state` with a recursion budget of at least 2. -/
theorem tms_ok (hs : Spec prog inp A V) (hw : wfProg prog = true)
    {Pre : State → Bool → Prop} {look : Runner} (hl : LookOK prog A V Pre look)
    {b : Nat} {fwd : Bool} {s : State} (h : SOK prog A V b fwd s) (hnb : PkIcaseOrdered prog s)
    (hpre : ∀ neg sg eg k,
      (prog.insns[s.ip]? = some (.lookahead neg sg eg k) → Pre { s with ip := s.ip + 1 } true) ∧
      (prog.insns[s.ip]? = some (.lookbehind neg sg eg k) → Pre { s with ip := s.ip + 1 } false))
    (d steps peak : Nat) :
    SMPost prog A V b fwd (tryMatchState prog inp look (d + 2) s fwd steps peak) := by
  obtain ⟨insn, hi⟩ := getElem?_of_lt' (hs.ip_lt h.1)
  by_cases hl1 : ∃ mn mx g, insn = .loop1 mn mx g
  · obtain ⟨mn, mx, g, rfl⟩ := hl1
    exact tms_loop1 hs hw hl h hi d steps peak
  · exact tms_simple hs hw hl h hnb
      (fun neg sg eg k => ⟨fun hh => (hpre neg sg eg k).1 (hh ▸ hi), fun hh => (hpre neg sg eg k).2 (hh ▸ hi)⟩)
      hi (fun mn mx g hh => hl1 ⟨mn, mx, g, hh⟩) (d + 1) steps peak

/-- Every thread on the stack is good. -/
def AllOK (prog : Prog) (A : Bool → Nat → Nat → Prop) (V : Nat → Prop) (b : Nat) (fwd : Bool)
    (states : Array State) : Prop :=
  ∀ (i : Nat) (s : State), states[i]? = some s → SOK prog A V b fwd s

theorem AllOK.single {b : Nat} {fwd : Bool} {s : State} (h : SOK prog A V b fwd s) :
    AllOK prog A V b fwd #[s] := by
  intro i s' hi
  have : i < (#[s]).size := lt_of_getElem?_eq_some hi
  have : i = 0 := by simp at this; omega
  subst this
  simp at hi; subst hi; exact h

theorem AllOK.pop {b : Nat} {fwd : Bool} {st : Array State} (h : AllOK prog A V b fwd st) :
    AllOK prog A V b fwd st.pop := by
  intro i s hi
  rw [Array.getElem?_pop] at hi
  split at hi
  · exact h i s hi
  · cases hi

theorem AllOK.setTop {b : Nat} {fwd : Bool} {st : Array State} {s : State}
    (h : AllOK prog A V b fwd st) (hs : SOK prog A V b fwd s) :
    AllOK prog A V b fwd (st.setIfInBounds (st.size - 1) s) := by
  intro i s' hi
  rw [Array.getElem?_setIfInBounds] at hi
  split at hi
  · split at hi
    · cases hi; exact hs
    · cases hi
  · exact h i s' hi

theorem AllOK.push {b : Nat} {fwd : Bool} {st : Array State} {s : State}
    (h : AllOK prog A V b fwd st) (hs : SOK prog A V b fwd s) :
    AllOK prog A V b fwd (st.push s) := by
  intro i s' hi
  rw [Array.getElem?_push] at hi
  split at hi
  · cases hi; exact hs
  · exact h i s' hi

/-- **Safety of the PikeVM executor, generic form.** -/
theorem runStates_safe (hs : Spec prog inp A V) (hw : wfProg prog = true)
    (hnb : noIcaseBackref prog = true) (limit : Nat) :
    ∀ sf states fwd steps peak b, AllOK prog A V b fwd states →
      PkPost prog V b fwd (runStates prog inp limit sf states fwd steps peak) := by
  intro sf
  induction sf with
  | zero => intro states fwd steps peak b _; simp [runStates, PkPost]
  | succ sf ih =>
    intro states fwd steps peak b hall
    unfold runStates
    cases hbk : states.back? with
    | none => trivial
    | some s =>
      simp only
      split
      · trivial
      · have hS : SOK prog A V b fwd s := by
          rw [Array.back?_eq_getElem?] at hbk
          exact hall _ _ hbk
        have hl : LookOK prog A V (fun _ _ => True) (fun s0 dirFwd steps peak =>
            runStates prog inp limit sf #[s0] dirFwd steps peak) :=
          fun s0 d st pk h0 _ => ih #[s0] d st pk s0.pos (AllOK.single h0)
        have hsz : 0 < prog.insns.size := Nat.lt_of_le_of_lt (Nat.zero_le _) (hs.ip_lt hS.1)
        obtain ⟨d, hd⟩ : ∃ d, prog.insns.size + 1 = d + 2 := ⟨prog.insns.size - 1, by omega⟩
        rw [hd]
        have hsm := tms_ok hs hw hl hS (pkIcaseOrdered_of_nb hnb s)
          (fun _ _ _ _ => ⟨fun _ => trivial, fun _ => trivial⟩) d (steps + 1)
          (if peak < states.size then states.size else peak)
        cases hr : tryMatchState prog inp (fun s0 dirFwd steps peak =>
            runStates prog inp limit sf #[s0] dirFwd steps peak) (d + 2) s fwd (steps + 1)
            (if peak < states.size then states.size else peak) with
        | err e => rw [hr] at hsm; exact hsm.elim
        | outOfFuel => trivial
        | fail s' st pk => exact ih _ _ _ _ _ hall.pop
        | cont s' st pk => rw [hr] at hsm; exact ih _ _ _ _ _ (hall.pop.push hsm)
        | complete s' st pk => rw [hr] at hsm; exact ⟨rfl, hsm.2, hsm.1.2.1, hsm.1.2.2⟩
        | split s' n st pk => rw [hr] at hsm; exact ih _ _ _ _ _ ((hall.pop.push hsm.1).push hsm.2)

end Inv

/-! ## Frame and ordering of the capture ranges for the PikeVM -/

section FO
open Regress.VM.Bt (SRegion InR GInR RClosed rclosed_spec lookConfined lookConfined_spec AgreeOut)

variable {prog : Prog} {inp : Input} (c : OrdCert)

/-- The frame/ordering facts about one thread of a run in region `R` started with the groups `G0`. -/
def TOK (R : Option SRegion) (G0 : Array GroupData) (fwd : Bool) (s : State) : Prop :=
  InR R s.ip ∧ AgreeOut R s.groups G0 ∧ OrdAt c fwd s.ip s.pos s.groups

def PFO (R : Option SRegion) (G0 : Array GroupData) (fwd : Bool) : SM → Prop
  | .cont s' _ _ => TOK c R G0 fwd s'
  | .split s1 s2 _ _ => TOK c R G0 fwd s1 ∧ TOK c R G0 fwd s2
  | .complete s' _ _ => TOK c R G0 fwd s'
  | _ => True

/-- Frame/ordering post-condition of a (nested) attempt. -/
def PkPostFO (R : Option SRegion) (G0 : Array GroupData) : Outcome → Prop
  | .matched _ st _ _ =>
    AgreeOut R st.groups G0 ∧ ∀ (g : Nat) (gd : GroupData), st.groups[g]? = some gd → Ordered gd
  | _ => True

def LookFO (prog : Prog) (c : OrdCert) (Pre : State → Bool → Prop) (look : Runner) : Prop :=
  ∀ s0 d steps peak R', Pre s0 d → RClosed prog (some R') → InR (some R') s0.ip →
    OrdAt c d s0.ip s0.pos s0.groups → PkPostFO (some R') s0.groups (look s0 d steps peak)

/-- A result thread that differs from `s` only by a control successor and a later position. -/
def PS (prog : Prog) (fwd : Bool) (s : State) (insn : Insn) (s' : State) : Prop :=
  s'.groups = s.groups ∧ s'.ip ∈ allSuccs prog s.ip insn ∧ MovedLe fwd s.pos s'.pos

def Plain (prog : Prog) (fwd : Bool) (s : State) (insn : Insn) : SM → Prop
  | .cont s' _ _ => PS prog fwd s insn s'
  | .split a b _ _ => PS prog fwd s insn a ∧ PS prog fwd s insn b
  | .complete _ _ _ => False
  | .fail s' _ _ => s'.groups = s.groups
  | _ => True

variable {c}

theorem TOK.plain (hchk : checkOrd prog c = true) {R : Option SRegion} (hc : RClosed prog R)
    {G0 : Array GroupData} {fwd : Bool} {s : State} (h : TOK c R G0 fwd s) {insn : Insn}
    (hi : prog.insns[s.ip]? = some insn) (hgo : groupOf insn = none)
    (hl : ∀ neg sg eg k, insn ≠ .lookahead neg sg eg k ∧ insn ≠ .lookbehind neg sg eg k)
    {s' : State} (hp : PS prog fwd s insn s') : TOK c R G0 fwd s' := by
  obtain ⟨hin, hag, ⟨v, hv, hvec⟩⟩ := h
  obtain ⟨hg, ht, hm⟩ := hp
  obtain ⟨hs, _, _⟩ := rclosed_spec hc hin hi
  refine ⟨hs _ ht, by rw [hg]; exact hag, ?_⟩
  obtain ⟨vt, hvt, hw⟩ := (checkOrd_spec hchk hi hv).2.2 _ _ (Bt.ordEdges_plain v hl ht)
  rw [Bt.outVec_plain hgo] at hw
  rw [hg]
  exact ⟨vt, hvt, (hvec.mono hm).weaken hw⟩

theorem PFO.of_plain (hchk : checkOrd prog c = true) {R : Option SRegion} (hc : RClosed prog R)
    {G0 : Array GroupData} {fwd : Bool} {s : State} (h : TOK c R G0 fwd s) {insn : Insn}
    (hi : prog.insns[s.ip]? = some insn) (hgo : groupOf insn = none)
    (hl : ∀ neg sg eg k, insn ≠ .lookahead neg sg eg k ∧ insn ≠ .lookbehind neg sg eg k)
    {sm : SM} (hp : Plain prog fwd s insn sm) : PFO c R G0 fwd sm := by
  cases sm with
  | cont s' _ _ => exact h.plain hchk hc hi hgo hl hp
  | split a b _ _ => exact ⟨h.plain hchk hc hi hgo hl hp.1, h.plain hchk hc hi hgo hl hp.2⟩
  | complete _ _ _ => exact hp.elim
  | fail _ _ _ => trivial
  | outOfFuel => trivial
  | err _ => trivial

theorem nextOrFail_plain {fwd : Bool} {s s0 : State} {insn : Insn} (v : Bool) (steps peak : Nat)
    (hg : s0.groups = s.groups) (hip : s0.ip = s.ip) (h1 : s.ip + 1 ∈ allSuccs prog s.ip insn)
    (hm : MovedLe fwd s.pos s0.pos) : Plain prog fwd s insn (nextOrFail v s0 steps peak) := by
  unfold nextOrFail
  split
  · exact ⟨hg, by simp only [hip]; exact h1, hm⟩
  · exact hg

theorem nextElemArm_plain {fwd : Bool} {s : State} {insn : Insn}
    (h1 : s.ip + 1 ∈ allSuccs prog s.ip insn) (f : Nat → Except String Bool) (site : String)
    (steps peak : Nat) : Plain prog fwd s insn (nextElemArm inp fwd s f site steps peak) := by
  unfold nextElemArm
  split
  · trivial
  · exact rfl
  · rename_i hn
    split
    · trivial
    · exact nextOrFail_plain _ _ _ rfl rfl h1 (next_moves hn)

theorem scmArm_plain {fwd : Bool} {s : State} {insn : Insn}
    (h1 : s.ip + 1 ∈ allSuccs prog s.ip insn) {r : Except Unit (Option Nat)}
    (hr : ∀ p, r = .ok (some p) → MovedLe fwd s.pos p) (site : String) (steps peak : Nat) :
    Plain prog fwd s insn (scmArm r s site steps peak) := by
  unfold scmArm
  split
  · trivial
  · exact rfl
  · exact ⟨rfl, h1, hr _ rfl⟩

theorem runLoop_plain {fwd : Bool} {s s0 : State} {insn : Insn} (hg : s0.groups = s.groups)
    (hpos : s0.pos = s.pos) (id mn : Nat) (mx : Option Nat) (gr : Bool) (exit : Nat)
    (h1 : s0.ip + 1 ∈ allSuccs prog s.ip insn) (h2 : exit ∈ allSuccs prog s.ip insn) (init : Bool)
    (steps peak : Nat) : Plain prog fwd s insn (runLoop s0 id mn mx gr exit init steps peak) := by
  have hm : MovedLe fwd s.pos s0.pos := by rw [hpos]; exact MovedLe.refl _ _
  unfold runLoop
  cases hld : s0.loops[id]? with
  | none => trivial
  | some ld =>
    simp only
    cases init with
    | true =>
      simp only [if_true]
      cases maxPos mx <;> cases (mn == 0) <;> simp only [Bool.not_true, Bool.not_false, Bool.and_self,
        Bool.and_true, Bool.and_false, Bool.false_eq_true, if_true, if_false]
      · exact hg
      · exact ⟨hg, h2, hm⟩
      · exact ⟨hg, h1, hm⟩
      · cases gr with
        | true => exact ⟨⟨hg, h2, hm⟩, ⟨hg, h1, hm⟩⟩
        | false => exact ⟨⟨hg, h1, hm⟩, ⟨hg, h2, hm⟩⟩
    | false =>
      simp only [Bool.false_eq_true, if_false]
      split
      · exact hg
      · cases Bt.ltMax (ld.iters + 1) mx <;> cases decide (ld.iters + 1 ≥ mn) <;>
          simp only [Bool.not_true, Bool.not_false, Bool.and_self,
            Bool.and_true, Bool.and_false, Bool.false_eq_true, if_true, if_false]
        · exact hg
        · exact ⟨hg, h2, hm⟩
        · exact ⟨hg, h1, hm⟩
        · cases gr with
          | true => exact ⟨⟨hg, h2, hm⟩, ⟨hg, h1, hm⟩⟩
          | false => exact ⟨⟨hg, h1, hm⟩, ⟨hg, h2, hm⟩⟩

theorem groupArm_fo (hchk : checkOrd prog c = true) {R : Option SRegion} (hc : RClosed prog R)
    {G0 : Array GroupData} {fwd : Bool} {s : State} (h : TOK c R G0 fwd s) {insn : Insn}
    (hi : prog.insns[s.ip]? = some insn) {g : Nat} (hgo : groupOf insn = some g)
    (upd : GroupData → GroupData) (ka : Nat) (hout : ∀ v, outVec insn v = v.setIfInBounds g ka)
    (hsem : ∀ v cg, c[s.ip]? = some (some v) → (∃ k, v[g]? = some k ∧ Sem fwd s.pos k cg) →
      Sem fwd s.pos ka (upd cg)) (site : String) (steps peak : Nat) :
    PFO c R G0 fwd (groupArm g upd s site steps peak) := by
  obtain ⟨hin, hag, ⟨v, hv, hvec⟩⟩ := h
  obtain ⟨hs, hg, _⟩ := rclosed_spec hc hin hi
  unfold groupArm
  cases hcg : s.groups[g]? with
  | none => trivial
  | some cg =>
    simp only [nextOrFail, if_true]
    have hs1 : s.ip + 1 ∈ allSuccs prog s.ip insn := by
      cases insn <;> simp [groupOf] at hgo <;> simp [allSuccs]
    have hedge : (s.ip + 1, outVec insn v) ∈ ordEdges prog s.ip insn v := by
      cases insn <;> simp [groupOf] at hgo <;> simp [ordEdges, allSuccs]
    obtain ⟨vt, hvt, hw⟩ := (checkOrd_spec hchk hi hv).2.2 _ _ hedge
    rw [hout] at hw
    refine ⟨hs _ hs1, ⟨by simp [hag.1], ?_⟩,
      ⟨vt, hvt, (hvec.setGroup g ka (hsem v cg hv (hvec g cg hcg))).weaken hw⟩⟩
    intro g' hgn
    have : g ≠ g' := fun hh => hgn (hh ▸ hg g hgo)
    simp only [Array.getElem?_setIfInBounds, this, if_false]
    exact hag.2 g' hgn

theorem lookArm_fo (hchk : checkOrd prog c = true) (hlc : lookConfined prog = true)
    {R : Option SRegion} (hc : RClosed prog R) {G0 : Array GroupData} {fwd : Bool} {s : State}
    (h : TOK c R G0 fwd s) {insn : Insn} (hi : prog.insns[s.ip]? = some insn) {look : Runner}
    {Pre : State → Bool → Prop} (hl : LookFO prog c Pre look) (d neg : Bool) (sg eg k : Nat)
    (hins : insn = .lookahead neg sg eg k ∨ insn = .lookbehind neg sg eg k)
    (hpre : Pre { s with ip := s.ip + 1 } d) (steps peak : Nat) :
    PFO c R G0 fwd (lookArm look d neg k s steps peak) := by
  obtain ⟨hin, hag, ⟨v, hv, hvec⟩⟩ := h
  obtain ⟨hs, _, hlg⟩ := rclosed_spec hc hin hi
  obtain ⟨hlt, hc'⟩ := lookConfined_spec hlc hi hins
  have hk : InR R k := hs k (by rcases hins with rfl | rfl <;> simp [allSuccs])
  have hgr : ∀ g, sg ≤ g → g < eg → GInR R g := hlg neg sg eg k hins
  have hedges : (s.ip + 1, lookBodyVec v) ∈ ordEdges prog s.ip insn v ∧
      (k, lookContVec neg sg eg v) ∈ ordEdges prog s.ip insn v := by
    rcases hins with rfl | rfl <;> simp [ordEdges]
  obtain ⟨vb, hvb, hwb⟩ := (checkOrd_spec hchk hi hv).2.2 _ _ hedges.1
  obtain ⟨vk, hvk, hwk⟩ := (checkOrd_spec hchk hi hv).2.2 _ _ hedges.2
  have hlk := hl { s with ip := s.ip + 1 } d steps peak ⟨s.ip + 1, k, sg, eg⟩ hpre hc'
    ⟨Nat.le_refl _, hlt⟩ ⟨vb, hvb, hvec.lookBody.weaken hwb⟩
  unfold lookArm
  simp only
  cases hr : look { s with ip := s.ip + 1 } d steps peak with
  | error e => trivial
  | outOfFuel => trivial
  | matched e s' st' pk' =>
    rw [hr] at hlk
    obtain ⟨⟨hsz, hag'⟩, hord⟩ := hlk
    have hag'' : ∀ g : Nat, ¬ (sg ≤ g ∧ g < eg) → s'.groups[g]? = s.groups[g]? := hag'
    simp only
    cases neg with
    | true => simp; trivial
    | false =>
      simp only [Bool.true_bne, Bool.not_false, if_true]
      refine ⟨hk, ⟨by rw [hsz]; exact hag.1, ?_⟩, ⟨vk, hvk, (hvec.lookCont hsz hag'' hord).weaken hwk⟩⟩
      intro g hgn
      show s'.groups[g]? = G0[g]?
      rw [hag'' g (fun hh => hgn (hgr g hh.1 hh.2))]
      exact hag.2 g hgn
  | failed st' pk' =>
    simp only
    cases neg with
    | false => simp; trivial
    | true =>
      simp only [Bool.false_bne, if_true]
      exact ⟨hk, hag, ⟨vk, hvk, hvec.lookContNeg.weaken hwk⟩⟩

/-- The arms of a `Loop1CharBody` body (and of every other plain instruction). -/
theorem tms_plain {look : Runner} {fwd : Bool} {s : State} {insn : Insn}
    (hi : prog.insns[s.ip]? = some insn) (hgo : groupOf insn = none)
    (hl : ∀ neg sg eg k, insn ≠ .lookahead neg sg eg k ∧ insn ≠ .lookbehind neg sg eg k)
    (hnl : ∀ mn mx g, insn ≠ .loop1 mn mx g) (hng : insn ≠ .goal) (d steps peak : Nat) :
    Plain prog fwd s insn (tryMatchState prog inp look (d + 1) s fwd steps peak) := by
  unfold tryMatchState
  rw [hi]
  cases insn with
  | goal => exact absurd rfl hng
  | justFail => exact rfl
  | char ch => exact nextElemArm_plain (by simp [allSuccs]) _ _ _ _
  | charSet cs => exact nextElemArm_plain (by simp [allSuccs]) _ _ _ _
  | matchAny => exact nextElemArm_plain (by simp [allSuccs]) _ _ _ _
  | matchAnyExceptLineTerminator => exact nextElemArm_plain (by simp [allSuccs]) _ _ _ _
  | bracket idx => exact nextElemArm_plain (by simp [allSuccs]) _ _ _ _
  | byteSet bs => exact scmArm_plain (by simp [allSuccs]) (fun p h => scm_moves h) _ _ _
  | asciiBracket bm => exact scmArm_plain (by simp [allSuccs]) (fun p h => scm_moves h) _ _ _
  | byteSeq bs =>
    refine scmArm_plain (by simp [allSuccs]) (fun p h => ?_) _ _ _
    simp only [Except.ok.injEq, Cursor.tryMatchLit, Input.matchBytes] at h
    exact matchBytes_moves h
  | wordBoundary inv =>
    simp only [wordBoundaryArm]
    split
    · trivial
    · split
      · trivial
      · exact nextOrFail_plain _ _ _ rfl rfl (by simp [allSuccs]) (MovedLe.refl _ _)
  | wordBoundaryUnicodeICase inv =>
    simp only [wordBoundaryArm]
    split
    · trivial
    · split
      · trivial
      · exact nextOrFail_plain _ _ _ rfl rfl (by simp [allSuccs]) (MovedLe.refl _ _)
  | startOfLine ml =>
    simp only [lineArm]
    split
    · trivial
    · exact nextOrFail_plain _ _ _ rfl rfl (by simp [allSuccs]) (MovedLe.refl _ _)
    · exact nextOrFail_plain _ _ _ rfl rfl (by simp [allSuccs]) (MovedLe.refl _ _)
  | endOfLine ml =>
    simp only [lineArm]
    split
    · trivial
    · exact nextOrFail_plain _ _ _ rfl rfl (by simp [allSuccs]) (MovedLe.refl _ _)
    · exact nextOrFail_plain _ _ _ rfl rfl (by simp [allSuccs]) (MovedLe.refl _ _)
  | jump t => exact ⟨rfl, by simp [allSuccs], MovedLe.refl _ _⟩
  | alt sec =>
    exact ⟨⟨rfl, by simp [allSuccs], MovedLe.refl _ _⟩, ⟨rfl, by simp [allSuccs], MovedLe.refl _ _⟩⟩
  | beginCaptureGroup g => simp [groupOf] at hgo
  | endCaptureGroup g => simp [groupOf] at hgo
  | resetCaptureGroup g => simp [groupOf] at hgo
  | backRef g ic =>
    simp only
    split
    · trivial
    · split
      · split
        · exact scmArm_plain (by simp [allSuccs]) (fun p h => backrefIcase_moves h) _ _ _
        · refine scmArm_plain (by simp [allSuccs]) (fun p h => ?_) _ _ _
          simp only [Except.ok.injEq] at h
          exact backref_moves h
      · exact nextOrFail_plain _ _ _ rfl rfl (by simp [allSuccs]) (MovedLe.refl _ _)
  | lookahead neg sg eg k => exact absurd rfl (hl neg sg eg k).1
  | lookbehind neg sg eg k => exact absurd rfl (hl neg sg eg k).2
  | enterLoop id mn mx gr exit =>
    exact runLoop_plain rfl rfl id mn mx gr exit (by simp [allSuccs]) (by simp [allSuccs]) true _ _
  | loopAgain bg =>
    simp only
    cases hbg : prog.insns[bg]? with
    | none => trivial
    | some bi =>
      cases bi <;> first
        | trivial
        | exact runLoop_plain (prog := prog) (s := s) (insn := .loopAgain bg)
            (s0 := { s with ip := bg }) rfl rfl _ _ _ _ _
            (by simp [allSuccs, hbg]) (by simp [allSuccs, hbg]) false _ _
  | loop1 mn mx g => exact absurd rfl (hnl mn mx g)

theorem tms_fo_simple (hchk : checkOrd prog c = true) (hlc : lookConfined prog = true)
    {R : Option SRegion} (hc : RClosed prog R) {G0 : Array GroupData} {fwd : Bool} {s : State}
    (h : TOK c R G0 fwd s) {insn : Insn} (hi : prog.insns[s.ip]? = some insn)
    (hnl : ∀ mn mx g, insn ≠ .loop1 mn mx g) {look : Runner} {Pre : State → Bool → Prop}
    (hl : LookFO prog c Pre look)
    (hpre : ∀ neg sg eg k, (insn = .lookahead neg sg eg k → Pre { s with ip := s.ip + 1 } true) ∧
      (insn = .lookbehind neg sg eg k → Pre { s with ip := s.ip + 1 } false))
    (d steps peak : Nat) :
    PFO c R G0 fwd (tryMatchState prog inp look (d + 1) s fwd steps peak) := by
  have hspec := fun v (hv : c[s.ip]? = some (some v)) => checkOrd_spec hchk hi hv
  cases insn with
  | goal => unfold tryMatchState; rw [hi]; exact h
  | beginCaptureGroup g =>
    unfold tryMatchState; rw [hi]
    refine groupArm_fo hchk hc h hi rfl _ 2 (fun _ => rfl) ?_ _ _ _
    intro v cg hv hk
    obtain ⟨k, hk1, hk2⟩ := hk
    rw [(hspec v hv).1 _ rfl] at hk1; cases hk1
    exact sem_begin hk2
  | endCaptureGroup g =>
    unfold tryMatchState; rw [hi]
    refine groupArm_fo hchk hc h hi rfl _ 0 (fun _ => rfl) ?_ _ _ _
    intro v cg hv hk
    obtain ⟨k, hk1, hk2⟩ := hk
    rw [(hspec v hv).2.1 _ rfl] at hk1; cases hk1
    exact sem_end hk2
  | resetCaptureGroup g =>
    unfold tryMatchState; rw [hi]
    exact groupArm_fo hchk hc h hi rfl _ 1 (fun _ => rfl) (fun _ _ _ _ => sem_reset _ _) _ _ _
  | lookahead neg sg eg k =>
    unfold tryMatchState; rw [hi]
    exact lookArm_fo hchk hlc hc h hi hl true neg sg eg k (Or.inl rfl) ((hpre neg sg eg k).1 rfl) _ _
  | lookbehind neg sg eg k =>
    unfold tryMatchState; rw [hi]
    exact lookArm_fo hchk hlc hc h hi hl false neg sg eg k (Or.inr rfl) ((hpre neg sg eg k).2 rfl) _ _
  | loop1 mn mx g => exact absurd rfl (hnl mn mx g)
  | _ =>
    exact PFO.of_plain hchk hc h hi rfl (fun _ _ _ _ => ⟨by simp, by simp⟩)
      (tms_plain hi rfl (fun _ _ _ _ => ⟨by simp, by simp⟩) hnl (by simp) d steps peak)

theorem tms_fo_loop1 (hchk : checkOrd prog c = true) (hw : wfProg prog = true)
    {R : Option SRegion} (hc : RClosed prog R) {G0 : Array GroupData} {fwd : Bool} {s : State}
    (h : TOK c R G0 fwd s) {mn : Nat} {mx : Option Nat} {g : Bool}
    (hi : prog.insns[s.ip]? = some (.loop1 mn mx g)) {look : Runner} (d steps peak : Nat) :
    PFO c R G0 fwd (tryMatchState prog inp look (d + 2) s fwd steps peak) := by
  have hwi := wf_insn hw hi
  simp only [wfInsn, Bool.and_eq_true, decide_eq_true_eq] at hwi
  obtain ⟨⟨_, hlt⟩, hbody⟩ := hwi
  obtain ⟨body, hbi⟩ := getElem?_of_lt' (a := prog.insns) (i := s.ip + 1) (by omega)
  rw [hbi] at hbody
  simp only [Bool.and_eq_true] at hbody
  have hacc := hbody.1
  -- the body is a plain instruction
  have hbgo : groupOf body = none := by cases body <;> first | rfl | simp [scmAccepted] at hacc
  have hbl : ∀ neg sg eg k, body ≠ .lookahead neg sg eg k ∧ body ≠ .lookbehind neg sg eg k := by
    intro neg sg eg k
    constructor <;> (intro hh; rw [hh] at hacc; simp [scmAccepted] at hacc)
  have hbnl : ∀ mn mx g, body ≠ .loop1 mn mx g := by
    intro a b' c' hh; rw [hh] at hacc; simp [scmAccepted] at hacc
  have hbng : body ≠ .goal := by intro hh; rw [hh] at hacc; simp [scmAccepted] at hacc
  have hin := tms_plain (inp := inp) (look := look) (fwd := fwd) (s := { s with ip := s.ip + 1 }) hbi hbgo
    hbl hbnl hbng d steps peak
  have hsimple := tms_body_simple (inp := inp) (look := look) (s := { s with ip := s.ip + 1 }) hbi hacc
    fwd d steps peak
  -- the two kinds of result threads
  have hE : ∀ s1 : State, s1.groups = s.groups → s1.pos = s.pos →
      TOK c R G0 fwd { s1 with ip := s.ip + 2, loop1Iters := 0 } := by
    intro s1 hg hp
    exact h.plain hchk hc hi rfl (fun _ _ _ _ => ⟨by simp, by simp⟩)
      ⟨hg, by simp [allSuccs], by show MovedLe fwd s.pos s1.pos; rw [hp]; exact MovedLe.refl _ _⟩
  have hT : ∀ (s1 : State) (tp : Nat), s1.groups = s.groups → s1.ip = s.ip → MovedLe fwd s.pos tp →
      TOK c R G0 fwd { s1 with pos := tp, loop1Iters := s.loop1Iters + 1 } := by
    intro s1 tp hg hip hm
    obtain ⟨hin', hag, hord⟩ := h
    refine ⟨by show InR R s1.ip; rw [hip]; exact hin', by show AgreeOut R s1.groups G0; rw [hg]; exact hag, ?_⟩
    show OrdAt c fwd s1.ip tp s1.groups
    rw [hip, hg]
    obtain ⟨v, hv, hvec⟩ := hord
    exact ⟨v, hv, hvec.mono hm⟩
  have hfin : ∀ (tp : Option Nat) (s1 : State) (st pk : Nat), s1.groups = s.groups → s1.ip = s.ip →
      s1.pos = s.pos → (∀ p, tp = some p → MovedLe fwd s.pos p) →
      PFO c R G0 fwd
        (match tp, decide (s.loop1Iters ≥ mn) with
          | none, false => .fail s1 st pk
          | none, true => .cont { s1 with ip := s.ip + 2, loop1Iters := 0 } st pk
          | some tp, false => .cont { s1 with pos := tp, loop1Iters := s.loop1Iters + 1 } st pk
          | some tp, true =>
            if g then
              .split { s1 with ip := s.ip + 2, loop1Iters := 0 }
                { s1 with pos := tp, loop1Iters := s.loop1Iters + 1 } st pk
            else
              .split { s1 with pos := tp, loop1Iters := s.loop1Iters + 1 }
                { s1 with ip := s.ip + 2, loop1Iters := 0 } st pk) := by
    intro tp s1 st pk hg hip hpos htp
    cases tp with
    | none =>
      cases decide (s.loop1Iters ≥ mn) with
      | false => trivial
      | true => exact hE s1 hg hpos
    | some p =>
      have hm := htp p rfl
      cases decide (s.loop1Iters ≥ mn) with
      | false => exact hT s1 p hg hip hm
      | true =>
        simp only
        split
        · exact ⟨hE s1 hg hpos, hT s1 p hg hip hm⟩
        · exact ⟨hT s1 p hg hip hm, hE s1 hg hpos⟩
  unfold tryMatchState
  rw [hi]
  simp only
  cases hmax : Bt.ltMax s.loop1Iters mx with
  | false =>
    simp only [Bool.false_eq_true, if_false]
    exact hfin none s steps peak rfl rfl rfl (fun p hp => by cases hp)
  | true =>
    simp only [if_true]
    cases hr : tryMatchState prog inp look (d + 1) { s with ip := s.ip + 1 } fwd steps peak with
    | err e => trivial
    | outOfFuel => trivial
    | split a b' c' d' => rw [hr] at hsimple; exact hsimple.elim
    | complete a b' c' => rw [hr] at hsimple; exact hsimple.elim
    | cont s' st pk =>
      rw [hr] at hin
      simp only
      refine hfin (some s'.pos) _ st pk hin.1 rfl rfl ?_
      intro p hp
      cases hp
      exact hin.2.2
    | fail s' st pk =>
      rw [hr] at hin
      simp only
      exact hfin none _ st pk hin rfl rfl (fun p hp => by cases hp)

theorem tms_fo (hchk : checkOrd prog c = true) (hw : wfProg prog = true)
    (hlc : lookConfined prog = true) {R : Option SRegion} (hc : RClosed prog R)
    {G0 : Array GroupData} {fwd : Bool} {s : State} (h : TOK c R G0 fwd s)
    (hlt : s.ip < prog.insns.size) {look : Runner} {Pre : State → Bool → Prop}
    (hl : LookFO prog c Pre look)
    (hpre : ∀ neg sg eg k,
      (prog.insns[s.ip]? = some (.lookahead neg sg eg k) → Pre { s with ip := s.ip + 1 } true) ∧
      (prog.insns[s.ip]? = some (.lookbehind neg sg eg k) → Pre { s with ip := s.ip + 1 } false))
    (d steps peak : Nat) :
    PFO c R G0 fwd (tryMatchState prog inp look (d + 2) s fwd steps peak) := by
  obtain ⟨insn, hi⟩ := getElem?_of_lt' hlt
  by_cases hl1 : ∃ mn mx g, insn = .loop1 mn mx g
  · obtain ⟨mn, mx, g, rfl⟩ := hl1
    exact tms_fo_loop1 hchk hw hc h hi d steps peak
  · exact tms_fo_simple hchk hlc hc h hi (fun mn mx g hh => hl1 ⟨mn, mx, g, hh⟩) hl
      (fun neg sg eg k => ⟨fun hh => (hpre neg sg eg k).1 (hh ▸ hi), fun hh => (hpre neg sg eg k).2 (hh ▸ hi)⟩)
      (d + 1) steps peak

/-! ### Safety + frame + ordering together -/

section Total
variable {A : Bool → Nat → Nat → Prop} {V : Nat → Prop}

/-- The precondition of a nested attempt: it starts inside a closed region at a configuration where
the certificate holds. -/
def NestPre (prog : Prog) (c : OrdCert) (s0 : State) (d : Bool) : Prop :=
  ∃ R', RClosed prog (some R') ∧ InR (some R') s0.ip ∧ OrdAt c d s0.ip s0.pos s0.groups

theorem nestPre_of_tok (hchk : checkOrd prog c = true) (hlc : lookConfined prog = true)
    {R : Option SRegion} {G0 : Array GroupData} {fwd : Bool} {s : State} (h : TOK c R G0 fwd s)
    {insn : Insn} (hi : prog.insns[s.ip]? = some insn) {neg : Bool} {sg eg k : Nat}
    (hins : insn = .lookahead neg sg eg k ∨ insn = .lookbehind neg sg eg k) (d : Bool) :
    NestPre prog c { s with ip := s.ip + 1 } d := by
  obtain ⟨_, _, ⟨v, hv, hvec⟩⟩ := h
  obtain ⟨hlt, hc'⟩ := lookConfined_spec hlc hi hins
  have hedge : (s.ip + 1, lookBodyVec v) ∈ ordEdges prog s.ip insn v := by
    rcases hins with rfl | rfl <;> simp [ordEdges]
  obtain ⟨vb, hvb, hwb⟩ := (checkOrd_spec hchk hi hv).2.2 _ _ hedge
  exact ⟨⟨s.ip + 1, k, sg, eg⟩, hc', ⟨Nat.le_refl _, hlt⟩, ⟨vb, hvb, hvec.lookBody.weaken hwb⟩⟩

abbrev PGhost := Nat × (Option SRegion × Array GroupData)

/-- The total invariant of one thread. -/
def PT (prog : Prog) (A : Bool → Nat → Nat → Prop) (V : Nat → Prop) (c : OrdCert) (γ : PGhost)
    (fwd : Bool) (s : State) : Prop :=
  SOK prog A V γ.1 fwd s ∧ TOK c γ.2.1 γ.2.2 fwd s

theorem pkIcaseOrdered_of_tok {R : Option SRegion} {G0 : Array GroupData} {fwd : Bool} {s : State}
    (h : TOK c R G0 fwd s) : PkIcaseOrdered prog s := by
  intro g gd rs re _ hg hr
  obtain ⟨_, _, ⟨v, _, hvec⟩⟩ := h
  have ho := hvec.ordered g gd hg
  unfold GroupData.asRange at hr
  split at hr
  · rename_i s' e h1 h2; cases hr; exact ho _ _ h1 h2
  · cases hr

/-- **Safety of the PikeVM executor without the `noIcaseBackref` restriction.** -/
theorem runStates_safe_ord (hs : Spec prog inp A V) (hw : wfProg prog = true)
    (hchk : checkOrd prog c = true) (hlc : lookConfined prog = true) (limit : Nat) :
    ∀ sf states fwd steps peak (γ : PGhost), RClosed prog γ.2.1 →
      (∀ (i : Nat) (s : State), states[i]? = some s → PT prog A V c γ fwd s) →
      PkPost prog V γ.1 fwd (runStates prog inp limit sf states fwd steps peak) ∧
      PkPostFO γ.2.1 γ.2.2 (runStates prog inp limit sf states fwd steps peak) := by
  intro sf
  induction sf with
  | zero => intro states fwd steps peak γ _ _; simp [runStates, PkPost, PkPostFO]
  | succ sf ih =>
    intro states fwd steps peak γ hc hall
    unfold runStates
    cases hbk : states.back? with
    | none => exact ⟨trivial, trivial⟩
    | some s =>
      simp only
      split
      · exact ⟨trivial, trivial⟩
      · have hPT : PT prog A V c γ fwd s := by
          rw [Array.back?_eq_getElem?] at hbk
          exact hall _ _ hbk
        obtain ⟨hS, hT⟩ := hPT
        have hlt := hs.ip_lt hS.1
        -- nested attempts
        have hnest : ∀ s0 d st pk R', SOK prog A V s0.pos d s0 → RClosed prog (some R') →
            InR (some R') s0.ip → OrdAt c d s0.ip s0.pos s0.groups →
            PkPost prog V s0.pos d (runStates prog inp limit sf #[s0] d st pk) ∧
            PkPostFO (some R') s0.groups (runStates prog inp limit sf #[s0] d st pk) := by
          intro s0 d st pk R' h0 hc' hin' hord'
          refine ih #[s0] d st pk (s0.pos, (some R', s0.groups)) hc' ?_
          intro i s1 hi1
          have : i = 0 := by
            have := lt_of_getElem?_eq_some hi1; simp at this; omega
          subst this
          simp at hi1; subst hi1
          exact ⟨h0, hin', ⟨rfl, fun _ _ => rfl⟩, hord'⟩
        have hl : LookOK prog A V (NestPre prog c) (fun s0 dirFwd steps peak =>
            runStates prog inp limit sf #[s0] dirFwd steps peak) := by
          intro s0 d st pk h0 hpre
          obtain ⟨R', hc', hin', hord'⟩ := hpre
          exact (hnest s0 d st pk R' h0 hc' hin' hord').1
        have hlfo : LookFO prog c (fun s0 d => SOK prog A V s0.pos d s0) (fun s0 dirFwd steps peak =>
            runStates prog inp limit sf #[s0] dirFwd steps peak) :=
          fun s0 d st pk R' h0 hc' hin' hord' => (hnest s0 d st pk R' h0 hc' hin' hord').2
        have hsz : 0 < prog.insns.size := Nat.lt_of_le_of_lt (Nat.zero_le _) hlt
        obtain ⟨d, hd⟩ : ∃ d, prog.insns.size + 1 = d + 2 := ⟨prog.insns.size - 1, by omega⟩
        rw [hd]
        have hsm := tms_ok hs hw hl hS (pkIcaseOrdered_of_tok hT)
          (fun neg sg eg k => ⟨fun hi => nestPre_of_tok hchk hlc hT hi (Or.inl rfl) true,
            fun hi => nestPre_of_tok hchk hlc hT hi (Or.inr rfl) false⟩)
          d (steps + 1) (if peak < states.size then states.size else peak)
        have hfo := tms_fo (inp := inp) hchk hw hlc hc hT hlt hlfo
          (fun neg sg eg k =>
            ⟨fun hi => ⟨(hs.look hS.1).1 hi, MovedLe.refl _ _, hS.2.2.of_eq rfl rfl⟩,
             fun hi => ⟨(hs.look hS.1).2 hi, MovedLe.refl _ _, hS.2.2.of_eq rfl rfl⟩⟩)
          d (steps + 1) (if peak < states.size then states.size else peak)
        have hpop : ∀ (i : Nat) (s' : State), states.pop[i]? = some s' → PT prog A V c γ fwd s' := by
          intro i s' hi
          rw [Array.getElem?_pop] at hi
          split at hi
          · exact hall i s' hi
          · cases hi
        have hpush : ∀ (st : Array State) (s1 : State),
            (∀ (i : Nat) (s' : State), st[i]? = some s' → PT prog A V c γ fwd s') →
            PT prog A V c γ fwd s1 →
            ∀ (i : Nat) (s' : State), (st.push s1)[i]? = some s' → PT prog A V c γ fwd s' := by
          intro st s1 h1 h2 i s' hi
          rw [Array.getElem?_push] at hi
          split at hi
          · cases hi; exact h2
          · exact h1 i s' hi
        cases hr : tryMatchState prog inp (fun s0 dirFwd steps peak =>
            runStates prog inp limit sf #[s0] dirFwd steps peak) (d + 2) s fwd (steps + 1)
            (if peak < states.size then states.size else peak) with
        | err e => rw [hr] at hsm; exact hsm.elim
        | outOfFuel => exact ⟨trivial, trivial⟩
        | fail s' st pk => exact ih _ _ _ _ γ hc hpop
        | cont s' st pk =>
          rw [hr] at hsm hfo
          exact ih _ _ _ _ γ hc (hpush _ _ hpop ⟨hsm, hfo⟩)
        | complete s' st pk =>
          rw [hr] at hsm hfo
          exact ⟨⟨rfl, hsm.2, hsm.1.2.1, hsm.1.2.2⟩, hfo.2.1, by
            obtain ⟨v, _, hvec⟩ := hfo.2.2; exact hvec.ordered⟩
        | split s' n st pk =>
          rw [hr] at hsm hfo
          exact ih _ _ _ _ γ hc (hpush _ _ (hpush _ _ hpop ⟨hsm.1, hfo.1⟩) ⟨hsm.2, hfo.2⟩)

end Total

end FO

end Regress.VM.Pk
