import Proofs.C09
import Proofs.C17
/-!
# Closure, part 1: the iterator theorems for environments that are well-behaved only on a closed
set of positions (char boundaries)

`Api.EnvOK env` quantifies over *all* positions `p ≤ len`. For UTF-8 input the executors are
well-behaved only at char boundaries (C06 needs `VUtf8 inp pos`), so `EnvOK (searchEnvBt …)` is not
available. Route chosen here: **the iterator only queries positions of a closed set**.

* `EnvOKOn v env` — the `EnvOK` clauses for positions with `v p = true`, plus closure of `v` under
  everything the iterator computes a new position with (`attempt` end, `nextRightPos`, `findBytes`).
* `restrictEnv v env` — `env` made inert outside `v` (exactly what `IR.semEnv` does for the IR
  semantics). `EnvOKOn v env → EnvOK (restrictEnv v env)`.
* `collectK_restrict` — from a start position in `v` (or beyond `len`) the iterator over `env` and the
  iterator over `restrictEnv v env` return the same list: the positions outside `v` are never
  queried. Likewise `nextMatch_restrict`, `unfoldIter_restrict`.

Hence every C09/C17 theorem about `collectK`, proved for `EnvOK` environments, holds for `env`.
-/
namespace Regress.Closure
open Regress.Api Regress.C09

/-- `EnvOK` on the positions `v`, and `v` is closed under the iterator's moves. -/
structure EnvOKOn (v : Nat → Bool) (env : SearchEnv) : Prop where
  v_le : ∀ p, v p = true → p ≤ env.len
  attempt_range : ∀ p e c, v p = true → env.attempt p = some (e, c) → p ≤ e ∧ v e = true
  next_gt : ∀ p q, v p = true → env.nextRightPos p = some q → p < q ∧ v q = true
  find_range : ∀ p q, v p = true → env.findBytes p = some q → p ≤ q ∧ v q = true

/-- `env`, inert outside `v`: no match, no next position, trivial prefix search. -/
def restrictEnv (v : Nat → Bool) (env : SearchEnv) : SearchEnv :=
  { len := env.len
    attempt := fun p => if v p then env.attempt p else none
    nextRightPos := fun p => if v p then env.nextRightPos p else none
    findBytes := fun p => if v p then env.findBytes p else some p
    names := env.names }

variable {v : Nat → Bool} {env : SearchEnv}

theorem restrict_ok (h : EnvOKOn v env) : EnvOK (restrictEnv v env) where
  attempt_range := by
    intro p e c _ ha
    simp only [restrictEnv] at ha ⊢
    split at ha
    · next hv => have := h.attempt_range p e c hv ha; exact ⟨this.1, h.v_le _ this.2⟩
    · cases ha
  next_gt := by
    intro p q _ hq
    simp only [restrictEnv] at hq ⊢
    split at hq
    · next hv => have := h.next_gt p q hv hq; exact ⟨this.1, h.v_le _ this.2⟩
    · cases hq
  find_range := by
    intro p q hp hq
    simp only [restrictEnv] at hq hp ⊢
    split at hq
    · next hv => have := h.find_range p q hv hq; exact ⟨this.1, h.v_le _ this.2⟩
    · cases hq; exact ⟨Nat.le_refl _, hp⟩

/-- `EnvOK` is `EnvOKOn` for the set of all in-range positions. -/
theorem envOKOn_of_envOK (h : EnvOK env) : EnvOKOn (fun p => decide (p ≤ env.len)) env where
  v_le := by intro p hp; simpa using hp
  attempt_range := by
    intro p e c hp ha; have := h.attempt_range p e c (by simpa using hp) ha; simpa using this
  next_gt := by
    intro p q hp hq; have := h.next_gt p q (by simpa using hp) hq; simpa using this
  find_range := by
    intro p q hp hq; have := h.find_range p q (by simpa using hp) hq; simpa using this

theorem restrict_nextStart {s e : Nat} (he : v e = true) :
    (restrictEnv v env).nextStart s e = env.nextStart s e := by
  simp [SearchEnv.nextStart, restrictEnv, he]

theorem restrict_prefixFuel (h : EnvOKOn v env) : ∀ fuel p, v p = true →
    nextMatchPrefixFuel (restrictEnv v env) fuel p = nextMatchPrefixFuel env fuel p := by
  intro fuel
  induction fuel with
  | zero => intro p _; rfl
  | succ f ih =>
    intro p hp
    simp only [nextMatchPrefixFuel]
    have hfb : (restrictEnv v env).findBytes p = env.findBytes p := by simp [restrictEnv, hp]
    rw [hfb]
    cases hq : env.findBytes p with
    | none => rfl
    | some q =>
      have hvq := (h.find_range p q hp hq).2
      have hatt : (restrictEnv v env).attempt q = env.attempt q := by simp [restrictEnv, hvq]
      simp only [hatt]
      cases ha : env.attempt q with
      | some ec =>
        obtain ⟨e, c⟩ := ec
        have hve := (h.attempt_range q e c hvq ha).2
        simp only [restrict_nextStart hve]
        rfl
      | none =>
        have hn : (restrictEnv v env).nextRightPos q = env.nextRightPos q := by simp [restrictEnv, hvq]
        simp only [hn]
        cases hq' : env.nextRightPos q with
        | none => rfl
        | some q' => exact ih q' (h.next_gt q q' hvq hq').2

theorem restrict_pikeStd (h : EnvOKOn v env) : ∀ fuel p, v p = true →
    pikeNextMatchStdFuel (restrictEnv v env) fuel p = pikeNextMatchStdFuel env fuel p := by
  intro fuel
  induction fuel with
  | zero => intro p _; rfl
  | succ f ih =>
    intro p hvq
    simp only [pikeNextMatchStdFuel]
    have hatt : (restrictEnv v env).attempt p = env.attempt p := by simp [restrictEnv, hvq]
    simp only [hatt]
    cases ha : env.attempt p with
    | some ec =>
      obtain ⟨e, c⟩ := ec
      have hve := (h.attempt_range p e c hvq ha).2
      simp only [restrict_nextStart hve]
      rfl
    | none =>
      have hn : (restrictEnv v env).nextRightPos p = env.nextRightPos p := by simp [restrictEnv, hvq]
      simp only [hn]
      cases hq' : env.nextRightPos p with
      | none => rfl
      | some q' => exact ih q' (h.next_gt p q' hvq hq').2

theorem restrict_anchored (h : EnvOKOn v env) {p : Nat} (hp : v p = true) :
    (match (restrictEnv v env).attempt p with
      | some (e, caps) => some ((restrictEnv v env).successfulMatch p e caps, (restrictEnv v env).nextStart p e)
      | none => none) =
    (match env.attempt p with
      | some (e, caps) => some (env.successfulMatch p e caps, env.nextStart p e)
      | none => none) := by
  have hatt : (restrictEnv v env).attempt p = env.attempt p := by simp [restrictEnv, hp]
  rw [hatt]
  cases ha : env.attempt p with
  | some ec =>
    obtain ⟨e, c⟩ := ec
    have hve := (h.attempt_range p e c hp ha).2
    simp only [restrict_nextStart hve]
    rfl
  | none => rfl

/-- One `next_match` from a position of `v` never looks outside `v`. -/
theorem nextMatch_restrict (h : EnvOKOn v env) (k : Kind) {p : Nat} (hp : v p = true) :
    nextMatch (restrictEnv v env) k p = nextMatch env k p := by
  cases k with
  | btPrefix => exact restrict_prefixFuel h _ p hp
  | btAnchored => exact restrict_anchored h hp
  | pike a =>
    cases a with
    | true => exact restrict_anchored h hp
    | false =>
      simp only [nextMatch, pikeNextMatch, Bool.false_eq_true, if_false]
      exact restrict_pikeStd h _ p hp

/-- What a successful `next_match` from a position of `v` returns: the `StepInv` facts, with the
start, the end and the next start position all in `v`. -/
theorem nextMatch_closed (h : EnvOKOn v env) (k : Kind) {p : Nat} (hp : v p = true) {m : MatchR}
    {ns : Option Nat} (hm : nextMatch env k p = some (m, ns)) :
    p ≤ m.range.1 ∧ m.range.1 ≤ m.range.2 ∧ v m.range.1 = true ∧ v m.range.2 = true ∧
      env.attempt m.range.1 = some (m.range.2, m.captures) ∧ m.names = env.names ∧
      ns = env.nextStart m.range.1 m.range.2 ∧ ∀ c, ns = some c → v c = true := by
  rw [← nextMatch_restrict h k hp] at hm
  have r := nextMatch_inv (restrict_ok h) k (h.v_le p hp) hm
  have hatt := r.att
  simp only [restrictEnv] at hatt
  split at hatt
  · next hv1 =>
    have hve := (h.attempt_range _ _ _ hv1 hatt).2
    have hns : ns = env.nextStart m.range.1 m.range.2 := by
      rw [r.ns_eq, restrict_nextStart hve]
    refine ⟨r.lo, r.wf, hv1, hve, hatt, r.names_eq, hns, ?_⟩
    intro c hc
    rw [hc] at hns
    unfold SearchEnv.nextStart at hns
    split at hns
    · cases hns; exact hve
    · exact (h.next_gt _ _ hve hns.symm).2
  · cases hatt

theorem restrict_collectFuel (h : EnvOKOn v env) (k : Kind) : ∀ fuel c, v c = true →
    Matches.collectFuel (restrictEnv v env) k fuel ⟨some c⟩ = Matches.collectFuel env k fuel ⟨some c⟩ := by
  intro fuel
  induction fuel with
  | zero => intro c _; rfl
  | succ f ih =>
    intro c hc
    rw [collectFuel_succ_some, collectFuel_succ_some, nextMatch_restrict h k hc]
    cases hm : nextMatch env k c with
    | none => rfl
    | some mn =>
      obtain ⟨m, ns⟩ := mn
      cases ns with
      | none => simp only [collectFuel_none]
      | some c' =>
        have := (nextMatch_closed h k hc hm).2.2.2.2.2.2.2 c' rfl
        simp only [ih c' this]

/-- **The iterator only queries positions of `v`.** From a start in `v` (or beyond the end, where
`initial_position` is `None`) the drained iterator over `env` is the drained iterator over the
restricted environment. -/
theorem collectK_restrict (h : EnvOKOn v env) (k : Kind) {start : Nat}
    (hs : v start = true ∨ env.len < start) :
    collectK (restrictEnv v env) k start = collectK env k start := by
  unfold collectK Matches.collect Matches.new
  rw [initialPosition_eq, initialPosition_eq]
  show (Matches.collectFuel (restrictEnv v env) k (env.len + 2)
      ⟨if start ≤ env.len then some start else none⟩) = _
  split
  · next hle =>
    rcases hs with hs | hs
    · exact restrict_collectFuel h k _ start hs
    · omega
  · rw [collectFuel_none, collectFuel_none]

/-! ## The specification side (`first`, `unfoldIter`) -/

theorem restrict_orbitFuel (h : EnvOKOn v env) : ∀ fuel p, v p = true →
    orbitFuel (restrictEnv v env) fuel p = orbitFuel env fuel p ∧
      ∀ r ∈ orbitFuel env fuel p, v r = true := by
  intro fuel
  induction fuel with
  | zero => intro p _; exact ⟨rfl, by intro r hr; simp [orbitFuel] at hr⟩
  | succ f ih =>
    intro p hp
    simp only [orbitFuel]
    have hn : (restrictEnv v env).nextRightPos p = env.nextRightPos p := by simp [restrictEnv, hp]
    rw [hn]
    cases hq : env.nextRightPos p with
    | none => exact ⟨rfl, by intro r hr; simp at hr; subst hr; exact hp⟩
    | some q =>
      have := ih q (h.next_gt p q hp hq).2
      refine ⟨by simp only [this.1], ?_⟩
      intro r hr
      simp only [List.mem_cons] at hr
      rcases hr with rfl | hr
      · exact hp
      · exact this.2 r hr

theorem findSome?_congr_mem {α β : Type} (l : List α) (f g : α → Option β)
    (h : ∀ a ∈ l, f a = g a) : l.findSome? f = l.findSome? g := by
  induction l with
  | nil => rfl
  | cons a t ih =>
    simp only [List.findSome?_cons, h a (by simp)]
    cases g a with
    | some b => rfl
    | none => exact ih (fun x hx => h x (by simp [hx]))

theorem restrict_first (h : EnvOKOn v env) {c : Nat} (hc : v c = true) :
    first (restrictEnv v env) c = first env c := by
  unfold first orbit
  have := restrict_orbitFuel h (env.len + 1) c hc
  show List.findSome? _ (orbitFuel (restrictEnv v env) (env.len + 1) c) = _
  rw [this.1]
  apply findSome?_congr_mem
  intro s hs
  simp [restrictEnv, this.2 s hs]

/-- Every position `first` returns lies in `v`. -/
theorem first_closed (h : EnvOKOn v env) {c : Nat} (hc : v c = true) {s e : Nat} {caps : Caps}
    (hf : first env c = some (s, e, caps)) : v s = true ∧ v e = true ∧ s ≤ e := by
  rw [← restrict_first h hc] at hf
  have := (first_spec_some (restrict_ok h) (h.v_le c hc) s e caps).mp hf
  have hatt := this.2.1
  simp only [restrictEnv] at hatt
  split at hatt
  · next hv => have := h.attempt_range _ _ _ hv hatt; exact ⟨hv, this.2, this.1⟩
  · cases hatt

theorem restrict_unfoldFuel (h : EnvOKOn v env) : ∀ fuel c, v c = true →
    unfoldFuel (restrictEnv v env) fuel (some c) = unfoldFuel env fuel (some c) := by
  intro fuel
  induction fuel with
  | zero => intro c _; rfl
  | succ f ih =>
    intro c hc
    simp only [unfoldFuel, restrict_first h hc]
    cases hf : first env c with
    | none => rfl
    | some x =>
      obtain ⟨s, e, caps⟩ := x
      have hcl := first_closed h hc hf
      have hadv : advance (restrictEnv v env) s e = advance env s e := by
        simp [advance, restrictEnv, hcl.2.1]
      simp only [hadv]
      cases ha : advance env s e with
      | none =>
        have : ∀ env' : SearchEnv, unfoldFuel env' f none = [] := fun _ => unfoldFuel_none f
        rw [this, this]; rfl
      | some c' =>
        have hvc : v c' = true := by
          unfold advance at ha
          split at ha
          · cases ha; exact hcl.2.1
          · exact (h.next_gt _ _ hcl.2.1 ha).2
        rw [ih c' hvc]; rfl

theorem unfoldIter_restrict (h : EnvOKOn v env) {start : Nat}
    (hs : v start = true ∨ env.len < start) :
    unfoldIter (restrictEnv v env) start = unfoldIter env start := by
  unfold unfoldIter
  show unfoldFuel (restrictEnv v env) (env.len + 2) (if start ≤ env.len then some start else none) = _
  split
  · next hle =>
    rcases hs with hs | hs
    · exact restrict_unfoldFuel h _ start hs
    · omega
  · rw [unfoldFuel_none, unfoldFuel_none]

/-! ## Reachability and prefilter admissibility on `v` -/

theorem reach_restrict (h : EnvOKOn v env) {p q : Nat} (hp : v p = true) (hr : Reach env p q) :
    Reach (restrictEnv v env) p q ∧ v q = true := by
  induction hr with
  | refl p => exact ⟨Reach.refl _, hp⟩
  | @step p q r hs _ ih =>
    have hvq := (h.next_gt p q hp hs).2
    have := ih hvq
    exact ⟨Reach.step (by simp [restrictEnv, hp, hs]) this.1, this.2⟩

theorem reach_of_restrict {p q : Nat} (hr : Reach (restrictEnv v env) p q) : Reach env p q := by
  induction hr with
  | refl p => exact Reach.refl _
  | @step p q r hs _ ih =>
    simp only [restrictEnv] at hs
    split at hs
    · exact Reach.step hs ih
    · cases hs

/-- `PrefilterAdmissible` for positions of `v` only. -/
structure PrefilterAdmissibleOn (v : Nat → Bool) (env : SearchEnv) : Prop where
  some_reach : ∀ p q, v p = true → env.findBytes p = some q → Reach env p q
  some_skip : ∀ p q r, v p = true → env.findBytes p = some q →
    Reach env p r → r < q → env.attempt r = none
  none_skip : ∀ p r, v p = true → env.findBytes p = none → Reach env p r → env.attempt r = none

theorem restrict_admissible (h : EnvOKOn v env) (ha : PrefilterAdmissibleOn v env) :
    PrefilterAdmissible (restrictEnv v env) where
  some_reach := by
    intro p q _ hq
    simp only [restrictEnv] at hq
    split at hq
    · next hv => exact (reach_restrict h hv (ha.some_reach p q hv hq)).1
    · cases hq; exact Reach.refl _
  some_skip := by
    intro p q r hp hq hr hlt
    simp only [restrictEnv] at hq
    split at hq
    · next hv =>
      have := ha.some_skip p q r hv hq (reach_of_restrict hr) hlt
      simp [restrictEnv, this]
    · cases hq
      have := (hr.le (restrict_ok h) hp).1
      omega
  none_skip := by
    intro p r _ hq hr
    simp only [restrictEnv] at hq
    split at hq
    · next hv =>
      have := ha.none_skip p r hv hq (reach_of_restrict hr)
      simp [restrictEnv, this]
    · cases hq

/-- The trivial prefix search (`Arbitrary`, `StartAnchored`: `find_bytes = Some`) is admissible. -/
theorem admissibleOn_of_id (h : EnvOKOn v env) (hid : ∀ p, v p = true → env.findBytes p = some p) :
    PrefilterAdmissibleOn v env where
  some_reach := by
    intro p q hp hq; rw [hid p hp] at hq; cases hq; exact Reach.refl _
  some_skip := by
    intro p q r hp hq hr hlt
    rw [hid p hp] at hq; cases hq
    have := ((reach_restrict h hp hr).1.le (restrict_ok h) (h.v_le p hp)).1
    omega
  none_skip := by
    intro p r hp hq; rw [hid p hp] at hq; cases hq

/-! ## The C09 / C17 conclusions for `EnvOKOn` environments -/

section Derived
variable (h : EnvOKOn v env) (k : Kind) {start : Nat} (hs : v start = true ∨ env.len < start)
include h hs

theorem iter_chain_on : ChainFrom env.len start (collectK env k start) := by
  rw [← collectK_restrict h k hs]; exact iter_chain (restrict_ok h) k start

theorem iter_increasing_on : Consec Succeeds (collectK env k start) := by
  rw [← collectK_restrict h k hs]; exact iter_increasing (restrict_ok h) k start

theorem iter_disjoint_on :
    (collectK env k start).Pairwise (fun a b => a.range.2 ≤ b.range.1 ∧ a.range.1 < b.range.1) := by
  rw [← collectK_restrict h k hs]; exact iter_disjoint (restrict_ok h) k start

theorem iter_in_range_on : ∀ m ∈ collectK env k start,
    start ≤ m.range.1 ∧ m.range.1 ≤ m.range.2 ∧ m.range.2 ≤ env.len := by
  rw [← collectK_restrict h k hs]; exact iter_in_range (restrict_ok h) k start

theorem iter_count_le_on (hle : start ≤ env.len) :
    (collectK env k start).length ≤ env.len - start + 1 := by
  rw [← collectK_restrict h k hs]; exact iter_count_le (restrict_ok h) k start hle

/-- Every result starts and ends in `v` and is what the matcher returned at its start. -/
theorem iter_sound_on : ∀ m ∈ collectK env k start,
    v m.range.1 = true ∧ v m.range.2 = true ∧
      env.attempt m.range.1 = some (m.range.2, m.captures) ∧ m.names = env.names := by
  intro m hm
  rw [← collectK_restrict h k hs] at hm
  have := iter_sound (restrict_ok h) k start m hm
  have hatt := this.1
  simp only [restrictEnv] at hatt
  split at hatt
  · next hv => exact ⟨hv, (h.attempt_range _ _ _ hv hatt).2, hatt, this.2⟩
  · cases hatt

theorem iter_sorted_on : C17.Sorted env.len start (collectK env k start) := by
  rw [← collectK_restrict h k hs]; exact C17.iter_sorted (restrict_ok h) k start

end Derived

theorem iter_is_unfold_on (h : EnvOKOn v env) (ha : PrefilterAdmissibleOn v env) {start : Nat}
    (hs : v start = true ∨ env.len < start) : collect env start = unfoldIter env start := by
  have := iter_is_unfold (restrict_ok h) (restrict_admissible h ha) start
  unfold collect at this ⊢
  rwa [collectK_restrict h _ hs, unfoldIter_restrict h hs] at this

theorem iter_is_unfold_pike_on (h : EnvOKOn v env) {start : Nat}
    (hs : v start = true ∨ env.len < start) :
    collectK env (.pike false) start = unfoldIter env start := by
  have := iter_is_unfold_pike (restrict_ok h) start
  rwa [collectK_restrict h _ hs, unfoldIter_restrict h hs] at this

/-- With an admissible prefix search, from positions of `v`, `next_match_with_prefix_search` returns
what the plain scan returns. -/
theorem prefilter_transparent_on (h : EnvOKOn v env) (ha : PrefilterAdmissibleOn v env) {p : Nat}
    (hp : v p = true) :
    nextMatchPrefix env p = nextMatchPrefix { env with findBytes := some } p := by
  have h1 := prefilter_transparent (restrict_ok h) (restrict_admissible h ha) (h.v_le p hp)
  have h2 : nextMatchPrefix (restrictEnv v env) p = nextMatchPrefix env p :=
    restrict_prefixFuel h _ p hp
  have hplain : EnvOKOn v { env with findBytes := some } :=
    { v_le := h.v_le, attempt_range := h.attempt_range, next_gt := h.next_gt,
      find_range := by intro p q hp hq; cases hq; exact ⟨Nat.le_refl _, hp⟩ }
  have h3 : nextMatchPrefix (restrictEnv v { env with findBytes := some }) p =
      nextMatchPrefix { env with findBytes := some } p := restrict_prefixFuel hplain _ p hp
  have h4 : nextMatchPrefix { restrictEnv v env with findBytes := some } p =
      nextMatchPrefix (restrictEnv v { env with findBytes := some }) p := by
    have : ({ restrictEnv v env with findBytes := some } : SearchEnv) =
        restrictEnv v { env with findBytes := some } := by
      simp only [restrictEnv]
      congr 1
      funext p; split <;> rfl
    rw [this]
  rw [← h2, h1, h4, h3]

end Regress.Closure
