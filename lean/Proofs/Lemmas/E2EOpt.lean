import Proofs.Lemmas.KeystoneTop
import Proofs.Lemmas.SemPasses
import Proofs.Lemmas.TotalOpt
import Proofs.Lemmas.Utf8
/-!
# End to end, part 1: the optimizer preserves the side conditions of the keystone lemma

`Keystone.kok` / `Keystone.rootOK` (`Goal` only as the very last thing the root does, back-references
name a group `≥ 1`, no loop maximum is the literal `usize::MAX`, a `Loop1CharBody` body is a
one-instruction matcher) and the number of `Loop` nodes (`Keystone.numLoops`) are side conditions of
`Keystone.keystone_attempt` on the tree that is *emitted*.  Here: every pass of `optimizer::optimize`
(`decat`, `unroll_loops`, `promote_1char_loops`, `form_literal_bytes`, `remove_empties`,
`propagate_early_fails`, `simplify_brackets`), lifted through `walk_mut`, `run_to_fixpoint` and the
pipeline, preserves `kok`, `rootOK`, and does not increase `numLoops`.

The lifting is done once, for a relation `R` between the tree before and after (`RelCongr`: reflexive,
transitive, a congruence for every node constructor), from a node-local statement about each pass
(`PassStep f R : f m w = .ok a → R m (a.result m)`).
-/
namespace Regress.E2E

open Regress.IR Regress.Keystone Regress.Gen

/-! ## The generic lifting -/

/-- Pointwise `R` on lists of the same length. -/
def RelList (R : Node → Node → Prop) : List Node → List Node → Prop
  | [], [] => True
  | a :: as, b :: bs => R a b ∧ RelList R as bs
  | _, _ => False

/-- `R` is a preorder and a congruence for the node constructors. -/
structure RelCongr (R : Node → Node → Prop) : Prop where
  refl : ∀ n, R n n
  trans : ∀ {a b c}, R a b → R b c → R a c
  cat : ∀ {ns ns'}, RelList R ns ns' → R (.cat ns) (.cat ns')
  alt : ∀ {l l' r r'}, R l l' → R r r' → R (.alt l r) (.alt l' r')
  group : ∀ {i nm c c'}, R c c' → R (.group i nm c) (.group i nm c')
  look : ∀ {ng bw sg eg c c'}, R c c' → R (.look ng bw sg eg c) (.look ng bw sg eg c')
  loop : ∀ {b b' q g0 g1}, R b b' → R (.loop b q g0 g1) (.loop b' q g0 g1)
  loop1 : ∀ {b b' q}, R b b' → R (.loop1 b q) (.loop1 b' q)

/-- What a pass does to one node satisfying the invariant `Inv` (which the walk maintains). -/
def PassStep (Inv : Node → Prop) (f : PassFn) (R : Node → Node → Prop) : Prop :=
  ∀ m w a, Inv m → f m w = .ok a → R m (a.result m)

section Generic
variable {Inv : Node → Prop} {h U : HW} {R : Node → Node → Prop} {f : PassFn}

theorem visit_rel (hR : RelCongr R) (hf : PassStep Inv f R) {n m n' : Node} {w w' : Walk} {c c' : Bool}
    (hnm : R n m) (hm : Inv m) (hv : passVisitor f m w c = .ok (n', w', c')) : R n n' := by
  obtain ⟨a, ha, rfl, _⟩ := passVisitor_ok hv
  exact hR.trans hnm (hf m w a hm ha)

/-- The invariant and the group count after a sub-walk (from `processPost_good`). -/
theorem sub_inv (hI : InvCongr Inv) (hh : h.Mono) (hU : U.Mono) (hg : PassGood Inv h U f)
    {n : Node} {w : Walk} {c : Bool} {n' : Node} {w' : Walk} {c' : Bool} (hn : Inv n)
    (he : processPost (passVisitor f) n w c = .ok (n', w', c')) : Inv n' ∧ numGroups n' = numGroups n := by
  obtain ⟨n2, w2, c2, e2, s1, s2, _⟩ := processPost_good hI hh hU hg n w c hn
  rw [he] at e2; cases e2
  exact ⟨s1, s2⟩

theorem sub_inv_list (hI : InvCongr Inv) (hh : h.Mono) (hU : U.Mono) (hg : PassGood Inv h U f)
    {ns : List Node} {w : Walk} {c : Bool} {ns' : List Node} {w' : Walk} {c' : Bool} (hn : ∀ n ∈ ns, Inv n)
    (he : processPostList (passVisitor f) ns w c = .ok (ns', w', c')) : ∀ n ∈ ns', Inv n := by
  obtain ⟨n2, w2, c2, e2, s1, _⟩ := processPostList_good hI hh hU hg ns w c hn
  rw [he] at e2; cases e2
  exact s1

mutual
theorem processPost_rel (hI : InvCongr Inv) (hh : h.Mono) (hU : U.Mono) (hg : PassGood Inv h U f)
    (hR : RelCongr R) (hf : PassStep Inv f R) :
    ∀ (n : Node) (w : Walk) (c : Bool) (n' : Node) (w' : Walk) (c' : Bool), Inv n →
      processPost (passVisitor f) n w c = .ok (n', w', c') → R n n'
  | .cat ns, w, c, n', w', c', hn, h => by
    rw [processPost_cat] at h
    obtain ⟨m, wm, cm, hr, hv⟩ := finish_ok h
    split at hr
    · cases hr
    · rename_i ns' w1 c1 heq
      cases hr
      have hns := (hI.cat ns).1 hn
      exact visit_rel hR hf (hR.cat (processPostList_rel hI hh hU hg hR hf ns _ _ _ _ _ hns heq))
        ((hI.cat ns').2 (sub_inv_list hI hh hU hg hns heq)) hv
  | .alt l r, w, c, n', w', c', hn, h => by
    rw [processPost_alt] at h
    obtain ⟨m, wm, cm, hr, hv⟩ := finish_ok h
    split at hr
    · cases hr
    · rename_i l' w1 c1 heq1
      split at hr
      · cases hr
      · rename_i r' w2 c2 heq2
        cases hr
        have hlr := (hI.alt l r).1 hn
        exact visit_rel hR hf
          (hR.alt (processPost_rel hI hh hU hg hR hf l _ _ _ _ _ hlr.1 heq1)
            (processPost_rel hI hh hU hg hR hf r _ _ _ _ _ hlr.2 heq2))
          ((hI.alt l' r').2 ⟨(sub_inv hI hh hU hg hlr.1 heq1).1, (sub_inv hI hh hU hg hlr.2 heq2).1⟩) hv
  | .loop b q g0 g1, w, c, n', w', c', hn, h => by
    rw [processPost_loop] at h
    obtain ⟨m, wm, cm, hr, hv⟩ := finish_ok h
    split at hr
    · cases hr
    · rename_i b' w1 c1 heq
      cases hr
      have hs := sub_inv hI hh hU hg (hI.loop_sub hn) heq
      exact visit_rel hR hf (hR.loop (processPost_rel hI hh hU hg hR hf b _ _ _ _ _ (hI.loop_sub hn) heq))
        (hI.loop_re hn hs.1 hs.2) hv
  | .loop1 b q, w, c, n', w', c', hn, h => by
    rw [processPost_loop1] at h
    obtain ⟨m, wm, cm, hr, hv⟩ := finish_ok h
    split at hr
    · cases hr
    · rename_i b' w1 c1 heq
      cases hr
      have hs := sub_inv hI hh hU hg (hI.loop1_sub hn) heq
      exact visit_rel hR hf (hR.loop1 (processPost_rel hI hh hU hg hR hf b _ _ _ _ _ (hI.loop1_sub hn) heq))
        (hI.loop1_re hn hs.1 hs.2) hv
  | .group i nm b, w, c, n', w', c', hn, h => by
    rw [processPost_group] at h
    obtain ⟨m, wm, cm, hr, hv⟩ := finish_ok h
    split at hr
    · cases hr
    · rename_i b' w1 c1 heq
      cases hr
      have hs := sub_inv hI hh hU hg (hI.group_sub hn) heq
      exact visit_rel hR hf (hR.group (processPost_rel hI hh hU hg hR hf b _ _ _ _ _ (hI.group_sub hn) heq))
        (hI.group_re hn hs.1 hs.2) hv
  | .look ng bw sg eg b, w, c, n', w', c', hn, h => by
    rw [processPost_look] at h
    obtain ⟨m, wm, cm, hr, hv⟩ := finish_ok h
    split at hr
    · cases hr
    · rename_i b' w1 c1 heq
      cases hr
      have hs := sub_inv hI hh hU hg (hI.look_sub hn) heq
      exact visit_rel hR hf (hR.look (processPost_rel hI hh hU hg hR hf b _ _ _ _ _ (hI.look_sub hn) heq))
        (hI.look_re hn hs.1 hs.2) hv
  | .empty, w, c, n', w', c', hn, h => by
    rw [processPost_leaf _ _ rfl] at h; exact visit_rel hR hf (hR.refl _) hn h
  | .goal, w, c, n', w', c', hn, h => by
    rw [processPost_leaf _ _ rfl] at h; exact visit_rel hR hf (hR.refl _) hn h
  | .char _, w, c, n', w', c', hn, h => by
    rw [processPost_leaf _ _ rfl] at h; exact visit_rel hR hf (hR.refl _) hn h
  | .byteSeq _, w, c, n', w', c', hn, h => by
    rw [processPost_leaf _ _ rfl] at h; exact visit_rel hR hf (hR.refl _) hn h
  | .byteSet _, w, c, n', w', c', hn, h => by
    rw [processPost_leaf _ _ rfl] at h; exact visit_rel hR hf (hR.refl _) hn h
  | .charSet _, w, c, n', w', c', hn, h => by
    rw [processPost_leaf _ _ rfl] at h; exact visit_rel hR hf (hR.refl _) hn h
  | .matchAny, w, c, n', w', c', hn, h => by
    rw [processPost_leaf _ _ rfl] at h; exact visit_rel hR hf (hR.refl _) hn h
  | .matchAnyExceptLT, w, c, n', w', c', hn, h => by
    rw [processPost_leaf _ _ rfl] at h; exact visit_rel hR hf (hR.refl _) hn h
  | .anchor _ _, w, c, n', w', c', hn, h => by
    rw [processPost_leaf _ _ rfl] at h; exact visit_rel hR hf (hR.refl _) hn h
  | .wordBoundary _ _, w, c, n', w', c', hn, h => by
    rw [processPost_leaf _ _ rfl] at h; exact visit_rel hR hf (hR.refl _) hn h
  | .backRef _ _, w, c, n', w', c', hn, h => by
    rw [processPost_leaf _ _ rfl] at h; exact visit_rel hR hf (hR.refl _) hn h
  | .bracket _, w, c, n', w', c', hn, h => by
    rw [processPost_leaf _ _ rfl] at h; exact visit_rel hR hf (hR.refl _) hn h
  | .stringSet _ _, w, c, n', w', c', hn, h => by
    rw [processPost_leaf _ _ rfl] at h; exact visit_rel hR hf (hR.refl _) hn h
theorem processPostList_rel (hI : InvCongr Inv) (hh : h.Mono) (hU : U.Mono) (hg : PassGood Inv h U f)
    (hR : RelCongr R) (hf : PassStep Inv f R) :
    ∀ (ns : List Node) (w : Walk) (c : Bool) (ns' : List Node) (w' : Walk) (c' : Bool), (∀ n ∈ ns, Inv n) →
      processPostList (passVisitor f) ns w c = .ok (ns', w', c') → RelList R ns ns'
  | [], w, c, ns', w', c', _, h => by
    rw [processPostList_nil] at h; cases h; trivial
  | n :: ns, w, c, ns', w', c', hn, h => by
    rw [processPostList_cons] at h
    split at h
    · cases h
    · rename_i n1 w1 c1 heq1
      split at h
      · cases h
      · rename_i ns1 w2 c2 heq2
        cases h
        exact ⟨processPost_rel hI hh hU hg hR hf n _ _ _ _ _ (hn n (List.mem_cons_self ..)) heq1,
          processPostList_rel hI hh hU hg hR hf ns _ _ _ _ _ (fun x hx => hn x (List.mem_cons_of_mem _ hx)) heq2⟩
end

theorem runToFixpoint_rel (hI : InvCongr Inv) (hh : h.Mono) (hU : U.Mono) (hg : PassGood Inv h U f)
    (hR : RelCongr R) (hf : PassStep Inv f R) (unicode : Bool) :
    ∀ (fuel : Nat) (n n' : Node) (c : Bool), Inv n → runToFixpoint f unicode fuel n = .ok (n', c) →
      R n n' ∧ Inv n' := by
  intro fuel
  induction fuel with
  | zero => intro n n' c _ h; simp [runToFixpoint] at h
  | succ k ih =>
    intro n n' c hn h
    unfold runToFixpoint at h
    split at h
    · cases h
    · rename_i n1 c1 e
      have h1 : R n n1 ∧ Inv n1 := by
        unfold runPostorder walkMutPost at e
        split at e
        · cases e
        · rename_i n2 w2 c2 heq
          cases e
          exact ⟨processPost_rel hI hh hU hg hR hf _ _ _ _ _ _ hn heq, (sub_inv hI hh hU hg hn heq).1⟩
      split at h
      · cases h; exact h1
      · have h2 := ih _ _ _ h1.2 h
        exact ⟨hR.trans h1.1 h2.1, h2.2⟩

theorem runPass_rel (hI : InvCongr Inv) (hh : h.Mono) (hU : U.Mono) (hg : PassGood Inv h U f)
    (hR : RelCongr R) (hf : PassStep Inv f R) {fuel : Nat} {r r' : Regex} {c : Bool} (hr : Inv r.node)
    (h : runPass f fuel r = .ok (r', c)) : R r.node r'.node ∧ Inv r'.node ∧ r'.flags = r.flags := by
  unfold runPass at h
  split at h
  · cases h
  · rename_i n changed heq
    cases h
    have := runToFixpoint_rel hI hh hU hg hR hf _ _ _ _ _ hr heq
    exact ⟨this.1, this.2, rfl⟩

end Generic

/-- The seven passes of `optimize`, on trees satisfying `OptIn` (C07: `WF` and one more clause). -/
structure PassesStep (R : Node → Node → Prop) : Prop where
  simplifyBrackets : PassStep OptIn simplifyBrackets R
  decat : PassStep OptIn decat R
  unrollLoops : PassStep OptIn unrollLoops R
  promote1CharLoops : PassStep OptIn promote1CharLoops R
  formLiteralBytes : PassStep OptIn formLiteralBytes R
  removeEmpties : PassStep OptIn removeEmpties R
  propagateEarlyFails : PassStep OptIn propagateEarlyFails R

section Pipeline
variable {R : Node → Node → Prop}

theorem optimizeRound_rel (hR : RelCongr R) (hp : PassesStep R) {fuel : Nat} {r r' : Regex} {c : Bool}
    (hr : OptIn r.node) (h : optimizeRound fuel r = .ok (r', c)) :
    R r.node r'.node ∧ OptIn r'.node ∧ r'.flags = r.flags := by
  have hI := OptIn_invCongr
  unfold optimizeRound at h
  split at h
  · cases h
  · rename_i r1 c1 e1
    have t1 := runPass_rel hI hDecat_mono U_mono decat_good hR hp.decat hr e1
    split at h
    · cases h
    · rename_i r2 c2 e2
      have t2 := runPass_rel hI hUnroll_mono U_mono unrollLoops_good hR hp.unrollLoops t1.2.1 e2
      split at h
      · cases h
      · rename_i r3 c3 e3
        have t3 := runPass_rel hI hPromote_mono U_mono promote1CharLoops_good hR hp.promote1CharLoops t2.2.1 e3
        split at h
        · cases h
        · rename_i r4 c4 e4
          have t4 := runPass_rel hI hFLB_mono U_mono formLiteralBytes_good hR hp.formLiteralBytes t3.2.1 e4
          split at h
          · cases h
          · rename_i r5 c5 e5
            have t5 := runPass_rel hI hSize_mono U_mono removeEmpties_good hR hp.removeEmpties t4.2.1 e5
            split at h
            · cases h
            · rename_i r6 c6 e6
              have t6 := runPass_rel hI hSize_mono U_mono propagateEarlyFails_good hR hp.propagateEarlyFails
                t5.2.1 e6
              cases h
              exact ⟨hR.trans t1.1 (hR.trans t2.1 (hR.trans t3.1 (hR.trans t4.1 (hR.trans t5.1 t6.1)))),
                t6.2.1, by rw [t6.2.2, t5.2.2, t4.2.2, t3.2.2, t2.2.2, t1.2.2]⟩

theorem optimizeLoop_rel (hR : RelCongr R) (hp : PassesStep R) {fuel : Nat} :
    ∀ (outer : Nat) {r r' : Regex}, OptIn r.node → optimizeLoop fuel outer r = .ok r' →
      R r.node r'.node ∧ OptIn r'.node ∧ r'.flags = r.flags := by
  intro outer
  induction outer with
  | zero => intro r r' _ h; simp [optimizeLoop] at h
  | succ k ih =>
    intro r r' hr h
    unfold optimizeLoop at h
    split at h
    · cases h
    · rename_i r1 changed heq
      have t1 := optimizeRound_rel hR hp hr heq
      split at h
      · cases h; exact t1
      · have t2 := ih t1.2.1 h
        exact ⟨hR.trans t1.1 t2.1, t2.2.1, by rw [t2.2.2, t1.2.2]⟩

/-- The whole pipeline `optimizer::optimize` (which also leaves the flags alone). -/
theorem optimize_rel (hR : RelCongr R) (hp : PassesStep R) {fuel : Nat} {r r' : Regex}
    (hr : OptIn r.node) (h : optimize fuel r = .ok r') : R r.node r'.node ∧ r'.flags = r.flags := by
  unfold optimize at h
  split at h
  · cases h
  · rename_i r1 c1 e1
    have t1 := runPass_rel OptIn_invCongr hSB_mono U_mono simplifyBrackets_good hR hp.simplifyBrackets hr e1
    have t2 := optimizeLoop_rel hR hp fuel t1.2.1 h
    exact ⟨hR.trans t1.1 t2.1, by rw [t2.2.2, t1.2.2]⟩

end Pipeline

end Regress.E2E

/-! ## The instance: `kok`, `oneInsnBody`, `rootOK`, `numLoops` -/

namespace Regress.E2E

open Regress.IR Regress.Keystone Regress.Gen

/-- After the pass: still `kok` / a one-instruction `Loop1CharBody` body / `rootOK`, and no more
`Loop` nodes than before. -/
def KR (n m : Node) : Prop :=
  (kok n = true → kok m = true) ∧ (oneInsnBody n = true → oneInsnBody m = true) ∧
  (rootOK n = true → rootOK m = true) ∧ numLoops m ≤ numLoops n

theorem kokList_iff (ns : List Node) : kokList ns = true ↔ ∀ n ∈ ns, kok n = true := by
  induction ns with
  | nil => simp [kokList]
  | cons a t ih => simp [kokList, ih]

theorem kokList_append (xs ys : List Node) : kokList (xs ++ ys) = (kokList xs && kokList ys) := by
  induction xs with
  | nil => simp [kokList]
  | cons a t ih => simp [kokList, ih, Bool.and_assoc]

theorem numLoopsList_append (xs ys : List Node) :
    numLoopsList (xs ++ ys) = numLoopsList xs + numLoopsList ys := by
  induction xs with
  | nil => simp [numLoopsList]
  | cons a t ih => simp [numLoopsList, ih, Nat.add_assoc]

mutual
theorem kok_rootOK : ∀ (n : Node), kok n = true → rootOK n = true
  | .cat ns, h => by simp only [kok] at h; simp only [rootOK]; exact kokList_rootOKList ns h
  | .goal, h => by simp [kok] at h
  | .empty, _ => rfl
  | .char _, _ => rfl
  | .byteSeq _, _ => rfl
  | .byteSet _, _ => rfl
  | .charSet _, _ => rfl
  | .alt _ _, h => h
  | .matchAny, _ => rfl
  | .matchAnyExceptLT, _ => rfl
  | .anchor _ _, _ => rfl
  | .wordBoundary _ _, _ => rfl
  | .group _ _ _, h => h
  | .backRef _ _, h => h
  | .bracket _, _ => rfl
  | .stringSet _ _, h => h
  | .look _ _ _ _ _, h => h
  | .loop _ _ _ _, h => h
  | .loop1 _ _, h => h
theorem kokList_rootOKList : ∀ (ns : List Node), kokList ns = true → rootOKList ns = true
  | [], _ => rfl
  | n :: ns, h => by
    simp only [kokList, Bool.and_eq_true] at h
    simp only [rootOKList]
    split
    · exact kok_rootOK n h.1
    · simp [h.1, kokList_rootOKList ns h.2]
end

/-- `kokList xs → rootOKList ys → rootOKList (xs ++ ys)`. -/
theorem rootOKList_append {xs ys : List Node} (hx : kokList xs = true) (hy : rootOKList ys = true) :
    rootOKList (xs ++ ys) = true := by
  induction xs with
  | nil => simpa using hy
  | cons a t ih =>
    simp only [kokList, Bool.and_eq_true] at hx
    simp only [List.cons_append, rootOKList]
    split
    · exact kok_rootOK a hx.1
    · simp [hx.1, ih hx.2]

theorem rootOKList_cons_cons (a b : Node) (t : List Node) :
    rootOKList (a :: b :: t) = (kok a && rootOKList (b :: t)) := by
  rw [rootOKList]; simp

theorem rootOKList_single (a : Node) : rootOKList [a] = rootOK a := by
  rw [rootOKList]; simp

theorem relList_kok {ns ns' : List Node} (h : RelList KR ns ns') : kokList ns = true → kokList ns' = true := by
  induction ns generalizing ns' with
  | nil => cases ns' <;> simp [RelList] at h ⊢
  | cons a t ih =>
    cases ns' with
    | nil => simp [RelList] at h
    | cons b t' =>
      simp only [RelList] at h
      simp only [kokList, Bool.and_eq_true]
      exact fun hk => ⟨h.1.1 hk.1, ih h.2 hk.2⟩

theorem relList_root {ns ns' : List Node} (h : RelList KR ns ns') :
    rootOKList ns = true → rootOKList ns' = true := by
  induction ns generalizing ns' with
  | nil => cases ns' <;> simp [RelList] at h ⊢
  | cons a t ih =>
    cases ns' with
    | nil => simp [RelList] at h
    | cons b t' =>
      simp only [RelList] at h
      cases t with
      | nil =>
        cases t' with
        | nil => simp only [rootOKList_single]; exact h.1.2.2.1
        | cons _ _ => simp [RelList] at h
      | cons a2 t2 =>
        cases t' with
        | nil => simp [RelList] at h
        | cons b2 t2' =>
          simp only [rootOKList_cons_cons, Bool.and_eq_true]
          exact fun hk => ⟨h.1.1 hk.1, ih h.2 hk.2⟩

theorem relList_loops {ns ns' : List Node} (h : RelList KR ns ns') : numLoopsList ns' ≤ numLoopsList ns := by
  induction ns generalizing ns' with
  | nil => cases ns' <;> simp [RelList] at h ⊢
  | cons a t ih =>
    cases ns' with
    | nil => simp [RelList] at h
    | cons b t' =>
      simp only [RelList] at h
      simp only [numLoopsList]
      have := ih h.2
      have := h.1.2.2.2
      omega

theorem KR_congr : RelCongr KR where
  refl _ := ⟨id, id, id, Nat.le_refl _⟩
  trans h1 h2 := ⟨fun h => h2.1 (h1.1 h), fun h => h2.2.1 (h1.2.1 h), fun h => h2.2.2.1 (h1.2.2.1 h),
    Nat.le_trans h2.2.2.2 h1.2.2.2⟩
  cat h := ⟨by simpa only [kok] using relList_kok h, by simp [oneInsnBody],
    by simpa only [rootOK] using relList_root h, by simpa only [numLoops] using relList_loops h⟩
  alt h1 h2 := by
    refine ⟨?_, by simp [oneInsnBody], ?_, by have := h1.2.2.2; have := h2.2.2.2; simp only [numLoops]; omega⟩
    all_goals
      simp only [rootOK, kok, Bool.and_eq_true]
      exact fun hk => ⟨h1.1 hk.1, h2.1 hk.2⟩
  group h := ⟨by simpa only [kok] using h.1, by simp [oneInsnBody], by simpa only [rootOK, kok] using h.1,
    by simpa only [numLoops] using h.2.2.2⟩
  look h := ⟨by simpa only [kok] using h.1, by simp [oneInsnBody], by simpa only [rootOK, kok] using h.1,
    by simpa only [numLoops] using h.2.2.2⟩
  loop h := by
    refine ⟨?_, by simp [oneInsnBody], ?_, by have := h.2.2.2; simp only [numLoops]; omega⟩
    all_goals
      simp only [rootOK, kok, Bool.and_eq_true]
      exact fun hk => ⟨h.1 hk.1, hk.2⟩
  loop1 h := by
    refine ⟨?_, by simp [oneInsnBody], ?_, by simpa only [numLoops] using h.2.2.2⟩
    all_goals
      simp only [rootOK, kok, Bool.and_eq_true]
      exact fun hk => ⟨h.2.1 hk.1, hk.2⟩


/-! ## The passes, one by one -/

theorem KR_empty {m : Node} (h : oneInsnBody m = false) : KR m .empty :=
  ⟨fun _ => rfl, by simp [h], fun _ => rfl, by simp [numLoops]⟩

theorem KR_fails {m : Node} (h : oneInsnBody m = false) : KR m makeAlwaysFails :=
  ⟨fun _ => rfl, by simp [h], fun _ => rfl, by simp [numLoops, makeAlwaysFails]⟩

/-! ### `decat` -/

theorem decatLoop_kok (rest : List Node) :
    ∀ acc, kokList (decatLoop rest acc) = (kokList acc && kokList rest) := by
  induction rest with
  | nil => intro acc; simp [decatLoop, kokList]
  | cons x rest ih =>
    intro acc
    have hgen : kokList (decatLoop rest (acc ++ [x])) = (kokList acc && kokList (x :: rest)) := by
      rw [ih, kokList_append]; simp [kokList, Bool.and_assoc]
    cases x <;> try (simpa [decatLoop] using hgen)
    case cat nn =>
      simp only [decatLoop]
      rw [ih, kokList_append]; simp [kokList, kok, Bool.and_assoc]

theorem decatLoop_loops (rest : List Node) :
    ∀ acc, numLoopsList (decatLoop rest acc) = numLoopsList acc + numLoopsList rest := by
  induction rest with
  | nil => intro acc; simp [decatLoop, numLoopsList]
  | cons x rest ih =>
    intro acc
    have hgen : numLoopsList (decatLoop rest (acc ++ [x])) = numLoopsList acc + numLoopsList (x :: rest) := by
      rw [ih, numLoopsList_append]; simp [numLoopsList, Nat.add_assoc]
    cases x <;> try (simpa [decatLoop] using hgen)
    case cat nn =>
      simp only [decatLoop]
      rw [ih, numLoopsList_append]; simp [numLoopsList, numLoops, Nat.add_assoc]

theorem decatLoop_root (rest : List Node) :
    ∀ acc, kokList acc = true → rootOKList rest = true → rootOKList (decatLoop rest acc) = true := by
  induction rest with
  | nil => intro acc ha _; simpa [decatLoop] using kokList_rootOKList acc ha
  | cons x rest ih =>
    intro acc ha hr
    cases rest with
    | nil =>
      rw [rootOKList_single] at hr
      have hgen : rootOKList (decatLoop [] (acc ++ [x])) = true := by
        simp only [decatLoop]
        exact rootOKList_append ha (by rw [rootOKList_single]; exact hr)
      cases x <;> try (simpa [decatLoop] using hgen)
      case cat nn =>
        simp only [decatLoop]
        exact rootOKList_append ha (by simpa only [rootOK] using hr)
    | cons y rest' =>
      rw [rootOKList_cons_cons, Bool.and_eq_true] at hr
      have hgen : rootOKList (decatLoop (y :: rest') (acc ++ [x])) = true :=
        ih _ (by rw [kokList_append]; simp [kokList, ha, hr.1]) hr.2
      cases x <;> try (simpa [decatLoop] using hgen)
      case cat nn =>
        simp only [decatLoop]
        exact ih _ (by rw [kokList_append]; simp [ha]; simpa only [kok] using hr.1) hr.2

theorem decat_step : PassStep OptIn decat KR := by
  intro m w a hm h
  unfold decat at h
  split at h
  · rename_i nodes
    split at h
    · cases h; exact KR_empty rfl
    · rename_i x
      cases h
      refine ⟨?_, by simp [oneInsnBody], ?_, ?_⟩
      · simp [PassAction.result, kok, kokList]
      · simp [PassAction.result, rootOK, rootOKList_single]
      · simp [PassAction.result, numLoops, numLoopsList]
    · split at h
      · cases h
        refine ⟨?_, by simp [oneInsnBody], ?_, ?_⟩
        · simp only [PassAction.result, kok, decatLoop_kok]; simp [kokList]
        · simp only [PassAction.result, rootOK]; exact decatLoop_root _ _ rfl
        · simp only [PassAction.result, numLoops, decatLoop_loops]; simp [numLoopsList]
      · cases h; exact KR_congr.refl _
  · cases h; exact KR_congr.refl _

/-! ### `remove_empties` -/

theorem filter_kok (ns : List Node) (p : Node → Bool) (h : kokList ns = true) :
    kokList (ns.filter p) = true := by
  rw [kokList_iff] at *
  intro n hn
  exact h n (List.mem_filter.1 hn).1

theorem filter_loops (ns : List Node) (p : Node → Bool) : numLoopsList (ns.filter p) ≤ numLoopsList ns := by
  induction ns with
  | nil => simp
  | cons a t ih =>
    simp only [List.filter]
    split <;> simp only [numLoopsList] <;> omega

theorem filter_root (ns : List Node) (p : Node → Bool) (h : rootOKList ns = true) :
    rootOKList (ns.filter p) = true := by
  induction ns with
  | nil => simpa using h
  | cons a t ih =>
    cases t with
    | nil =>
      rw [rootOKList_single] at h
      simp only [List.filter]
      split
      · simpa [rootOKList_single] using h
      · rfl
    | cons b t' =>
      rw [rootOKList_cons_cons, Bool.and_eq_true] at h
      have := ih h.2
      rw [List.filter_cons]
      split
      · exact rootOKList_append (xs := [a]) (by simp [kokList, h.1]) this
      · exact this

theorem removeEmpties_step : PassStep OptIn removeEmpties KR := by
  intro m w a hm h
  unfold removeEmpties at h
  split at h
  all_goals try (cases h; exact KR_congr.refl _)
  · rename_i v
    split at h
    · rename_i hv
      cases h
      refine ⟨fun _ => rfl, ?_, fun _ => rfl, by simp [PassAction.result, numLoops]⟩
      intro ho
      simp only [oneInsnBody, Bool.and_eq_true, decide_eq_true_eq] at ho
      cases v <;> simp at hv ho
    · cases h; exact KR_congr.refl _
  · rename_i nodes
    dsimp only at h
    split at h
    · cases h; exact KR_congr.refl _
    · split at h
      · cases h; exact KR_empty rfl
      · rename_i x heq
        cases h
        refine ⟨?_, by simp [oneInsnBody], ?_, ?_⟩
        · intro hk
          have := filter_kok nodes (fun nn => !nn.isEmpty) (by simpa only [kok] using hk)
          rw [heq] at this
          simpa [PassAction.result, kokList] using this
        · intro hk
          have := filter_root nodes (fun nn => !nn.isEmpty) (by simpa only [rootOK] using hk)
          rw [heq, rootOKList_single] at this
          exact this
        · have := filter_loops nodes (fun nn => !nn.isEmpty)
          rw [heq] at this
          simpa [PassAction.result, numLoops, numLoopsList] using this
      · cases h
        refine ⟨?_, by simp [oneInsnBody], ?_, ?_⟩
        · intro hk
          simpa only [PassAction.result, kok] using
            filter_kok nodes (fun nn => !nn.isEmpty) (by simpa only [kok] using hk)
        · intro hk
          simpa only [PassAction.result, rootOK] using
            filter_root nodes (fun nn => !nn.isEmpty) (by simpa only [rootOK] using hk)
        · simpa only [PassAction.result, numLoops] using filter_loops nodes (fun nn => !nn.isEmpty)
  · split at h
    · cases h; exact KR_empty rfl
    · cases h; exact KR_congr.refl _
  · split at h
    · cases h; exact KR_empty rfl
    · cases h; exact KR_congr.refl _
  · split at h
    · cases h; exact KR_empty rfl
    · cases h; exact KR_congr.refl _

/-! ### `propagate_early_fails` -/

theorem propagateEarlyFails_step : PassStep OptIn propagateEarlyFails KR := by
  intro m w a hm h
  unfold propagateEarlyFails at h
  split at h
  · cases h; exact KR_congr.refl _
  · split at h
    · split at h
      · cases h; exact KR_fails rfl
      · cases h; exact KR_congr.refl _
    · rename_i left right
      dsimp only at h
      split at h
      · cases h; exact KR_fails rfl
      · cases h; exact KR_congr.refl _
      · cases h
        refine ⟨?_, by simp [oneInsnBody], ?_, by simp only [PassAction.result, numLoops]; omega⟩
        · simp only [PassAction.result, kok, Bool.and_eq_true]; exact fun hk => hk.2
        · simp only [PassAction.result, rootOK, kok, Bool.and_eq_true]; exact fun hk => kok_rootOK _ hk.2
      · cases h
        refine ⟨?_, by simp [oneInsnBody], ?_, by simp only [PassAction.result, numLoops]; omega⟩
        · simp only [PassAction.result, kok, Bool.and_eq_true]; exact fun hk => hk.1
        · simp only [PassAction.result, rootOK, kok, Bool.and_eq_true]; exact fun hk => kok_rootOK _ hk.1
    · split at h
      · cases h; exact KR_congr.refl _
      · split at h
        · cases h; exact KR_fails rfl
        · cases h; exact KR_congr.refl _
    · cases h; exact KR_congr.refl _

/-! ### `promote_1char_loops` -/

theorem oneInsn_of_oneChar {b : Node} (h : b.matchesExactlyOneChar = true) : oneInsnBody b = true := by
  cases b <;> simp [Node.matchesExactlyOneChar] at h <;> rfl

theorem oneChar_loops {b : Node} (h : b.matchesExactlyOneChar = true) : numLoops b = 0 := by
  cases b <;> simp [Node.matchesExactlyOneChar] at h <;> rfl

theorem promote1CharLoops_step : PassStep OptIn promote1CharLoops KR := by
  intro m w a hm h
  unfold promote1CharLoops at h
  split at h
  · rename_i loopee quant g0 g1
    split at h
    · cases h; exact KR_congr.refl _
    · rename_i hone
      simp only [Bool.not_eq_true, Bool.not_eq_false'] at hone
      split at h
      · cases h
      · cases h
        have ho := oneInsn_of_oneChar (by simpa using hone)
        refine ⟨?_, by simp [oneInsnBody], ?_, by simp [PassAction.result, numLoops]⟩
        all_goals
          simp only [PassAction.result, rootOK, kok, Bool.and_eq_true]
          exact fun hk => ⟨ho, hk.2⟩
  · cases h; exact KR_congr.refl _

/-! ### `unroll_loops` -/

mutual
/-- An unrollable body contains no loop. -/
theorem isUnrollable_loops : ∀ (n : Node) (bud : Nat), (isUnrollable n bud).1 = true → numLoops n = 0
  | .loop _ _ _ _, bud, h => by simp only [isUnrollable] at h; split at h <;> simp at h
  | .loop1 _ _, bud, h => by simp only [isUnrollable] at h; split at h <;> simp at h
  | .cat ns, bud, h => by
    simp only [isUnrollable] at h
    split at h
    · simp at h
    · simpa only [numLoops] using allUnrollable_loops ns _ h
  | .alt l r, bud, h => by
    simp only [isUnrollable] at h
    split at h
    · simp at h
    · split at h
      · simp at h
      · rename_i b heq
        have h1 := isUnrollable_loops l (bud - 1) (by rw [heq])
        have h2 := isUnrollable_loops r b h
        simp only [numLoops]; omega
  | .group _ _ c, bud, h => by
    simp only [isUnrollable] at h
    split at h
    · simp at h
    · simpa only [numLoops] using isUnrollable_loops c _ h
  | .look _ _ _ _ c, bud, h => by
    simp only [isUnrollable] at h
    split at h
    · simp at h
    · simpa only [numLoops] using isUnrollable_loops c _ h
  | .empty, _, _ => rfl
  | .goal, _, _ => rfl
  | .char _, _, _ => rfl
  | .byteSeq _, _, _ => rfl
  | .byteSet _, _, _ => rfl
  | .charSet _, _, _ => rfl
  | .matchAny, _, _ => rfl
  | .matchAnyExceptLT, _, _ => rfl
  | .anchor _ _, _, _ => rfl
  | .wordBoundary _ _, _, _ => rfl
  | .backRef _ _, _, _ => rfl
  | .bracket _, _, _ => rfl
  | .stringSet _ _, _, _ => rfl
theorem allUnrollable_loops : ∀ (ns : List Node) (bud : Nat), (allUnrollable ns bud).1 = true →
    numLoopsList ns = 0
  | [], _, _ => rfl
  | n :: ns, bud, h => by
    simp only [allUnrollable] at h
    split at h
    · simp at h
    · rename_i b heq
      have h1 := isUnrollable_loops n bud (by rw [heq])
      have h2 := allUnrollable_loops ns b h
      simp only [numLoopsList]; omega
end

theorem kokList_replicate (k : Nat) (b : Node) (h : kok b = true) : kokList (List.replicate k b) = true := by
  rw [kokList_iff]; intro n hn; rw [List.eq_of_mem_replicate hn]; exact h

theorem numLoopsList_replicate (k : Nat) (b : Node) (h : numLoops b = 0) :
    numLoopsList (List.replicate k b) = 0 := by
  induction k with
  | zero => rfl
  | succ k ih => simp [List.replicate_succ, numLoopsList, h, ih]

/-- The `max - min` of `unroll_loops` (no wrap-around since `min ≤ max`) is still not the literal
`usize::MAX`. -/
theorem quantBounded_unrolled {q : Quant} (h : quantBounded q = true) (hq : quantOk q = true) :
    quantBounded { min := 0, max := q.max.map (fun v => usizeSub v q.min), greedy := q.greedy } = true := by
  unfold quantBounded at *
  unfold quantOk at hq
  cases hm : q.max with
  | none => rfl
  | some v =>
    rw [hm] at h hq
    simp only [decide_eq_true_eq, Option.map_some] at h hq ⊢
    unfold usizeSub USIZE_MOD
    unfold Regress.VM.USIZE_MAX at *
    split <;> omega

theorem unrollLoops_step : PassStep OptIn unrollLoops KR := by
  intro m w a hm h
  unfold unrollLoops at h
  split at h
  · rename_i loopee quant g0 g1
    split at h
    · cases h; exact KR_congr.refl _
    · split at h
      · cases h; exact KR_congr.refl _
      · split at h
        · cases h; exact KR_congr.refl _
        · rename_i hmin hun
          split at h
          · cases h
          · cases h; exact KR_congr.refl _
          · rename_i unrolled hdup
            cases h
            have hu := unrollDup_eq loopee quant.min [] unrolled hdup
            have hul : unrolled = List.replicate quant.min loopee := by simpa using hu.1
            subst hul
            have hl0 : numLoops loopee = 0 := isUnrollable_loops loopee _ (by simpa using hun)
            simp only [PassAction.result]
            have hkok : kok (.loop loopee quant g0 g1) = true →
                kok (.cat (if (quant.max.map (fun v => usizeSub v quant.min)) != some 0 then
                  List.replicate quant.min loopee ++
                    [.loop loopee { min := 0, max := quant.max.map (fun v => usizeSub v quant.min),
                                    greedy := quant.greedy } g0 g1]
                  else List.replicate quant.min loopee)) = true := by
              intro hk
              simp only [kok, Bool.and_eq_true] at hk
              simp only [kok]
              split
              · rw [kokList_append]
                simp [kokList, kok, kokList_replicate _ _ hk.1, hk.1, quantBounded_unrolled hk.2 hm.1.2.1]
              · exact kokList_replicate _ _ hk.1
            refine ⟨hkok, by simp [oneInsnBody], fun hr => kok_rootOK _ (hkok (by simpa only [rootOK] using hr)), ?_⟩
            simp only [numLoops]
            split
            · rw [numLoopsList_append, numLoopsList_replicate _ _ hl0]; simp [numLoopsList, numLoops]
            · rw [numLoopsList_replicate _ _ hl0]; omega
  · cases h; exact KR_congr.refl _

/-! ### `form_literal_bytes` -/

theorem mergeLiteralBytes_kok (lb : Bool) :
    ∀ (rest : List Node) (prev : Node), kokList (prev :: rest) = true →
      kokList (mergeLiteralBytes lb prev rest).1 = true := by
  intro rest
  induction rest with
  | nil => intro prev hp; simpa [mergeLiteralBytes] using hp
  | cons curr rest ih =>
    intro prev hp
    simp only [kokList, Bool.and_eq_true] at hp
    unfold mergeLiteralBytes
    split
    · split
      · simp only [kokList, Bool.and_eq_true]
        exact ⟨rfl, ih _ (by simp [kokList, kok, hp.2.2])⟩
      · simp only [kokList, Bool.and_eq_true]
        exact ⟨hp.1, ih _ (by simp [kokList, hp.2.1, hp.2.2])⟩
    · simp only [kokList, Bool.and_eq_true]
      exact ⟨hp.1, ih _ (by simp [kokList, hp.2.1, hp.2.2])⟩

theorem mergeLiteralBytes_ne_nil (lb : Bool) (prev : Node) (rest : List Node) :
    (mergeLiteralBytes lb prev rest).1 ≠ [] := by
  cases rest with
  | nil => simp [mergeLiteralBytes]
  | cons curr rest =>
    unfold mergeLiteralBytes
    split
    · split <;> simp
    · simp

theorem rootOKList_cons_of_ne_nil {a : Node} {t : List Node} (ht : t ≠ []) :
    rootOKList (a :: t) = (kok a && rootOKList t) := by
  cases t with
  | nil => exact absurd rfl ht
  | cons b t' => exact rootOKList_cons_cons a b t'

theorem mergeLiteralBytes_root (lb : Bool) :
    ∀ (rest : List Node) (prev : Node), rootOKList (prev :: rest) = true →
      rootOKList (mergeLiteralBytes lb prev rest).1 = true := by
  intro rest
  induction rest with
  | nil => intro prev hp; simpa [mergeLiteralBytes] using hp
  | cons curr rest ih =>
    intro prev hp
    rw [rootOKList_cons_cons, Bool.and_eq_true] at hp
    unfold mergeLiteralBytes
    split
    · rename_i pb cb
      split
      · rw [rootOKList_cons_of_ne_nil (mergeLiteralBytes_ne_nil _ _ _)]
        simp only [kok, Bool.true_and]
        apply ih
        cases rest with
        | nil => rw [rootOKList_single]; rfl
        | cons y rest' =>
          rw [rootOKList_cons_cons] at hp ⊢
          simpa [kok] using hp.2
      · rw [rootOKList_cons_of_ne_nil (mergeLiteralBytes_ne_nil _ _ _), hp.1]
        exact ih _ hp.2
    · rw [rootOKList_cons_of_ne_nil (mergeLiteralBytes_ne_nil _ _ _), hp.1]
      exact ih _ hp.2

theorem mergeLiteralBytes_loops (lb : Bool) :
    ∀ (rest : List Node) (prev : Node),
      numLoopsList (mergeLiteralBytes lb prev rest).1 = numLoopsList (prev :: rest) := by
  intro rest
  induction rest with
  | nil => intro prev; simp [mergeLiteralBytes]
  | cons curr rest ih =>
    intro prev
    unfold mergeLiteralBytes
    split
    · split
      · simp only [numLoopsList, ih, numLoops]
      · simp only [numLoopsList, ih]
    · simp only [numLoopsList, ih]

theorem formLiteralBytes_step : PassStep OptIn formLiteralBytes KR := by
  intro m w a hm h
  unfold formLiteralBytes at h
  split at h
  · rename_i c
    split at h
    · cases h
      refine ⟨fun _ => rfl, fun _ => ?_, fun _ => rfl, by simp [PassAction.result, numLoops]⟩
      have h1 := Utf8.encode_length_pos c
      have h2 := Utf8.encode_length_le c
      simp only [PassAction.result, oneInsnBody, Bool.and_eq_true, decide_eq_true_eq]
      omega
    · cases h; exact KR_congr.refl _
  · split at h
    · cases h
      exact ⟨fun _ => rfl, fun _ => rfl, fun _ => rfl, by simp [PassAction.result, numLoops]⟩
    · cases h; exact KR_congr.refl _
  · split at h
    · cases h; exact KR_congr.refl _
    · rename_i first rest
      dsimp only at h
      split at h
      · cases h
        refine ⟨?_, by simp [oneInsnBody], ?_, ?_⟩
        · simp only [PassAction.result, kok]; exact mergeLiteralBytes_kok _ _ _
        · simp only [PassAction.result, rootOK]; exact mergeLiteralBytes_root _ _ _
        · simp only [PassAction.result, numLoops, mergeLiteralBytes_loops]; exact Nat.le_refl _
      · cases h; exact KR_congr.refl _
  · cases h; exact KR_congr.refl _

/-! ### `simplify_brackets` -/

theorem simplifyBrackets_step : PassStep OptIn simplifyBrackets KR := by
  intro m w a hm h
  unfold simplifyBrackets at h
  split at h
  · rename_i bc
    split at h
    · rename_i newNode hred
      cases h
      obtain ⟨cs, rfl, _⟩ := tryReduceBracket_some hred
      exact ⟨fun _ => rfl, fun _ => rfl, fun _ => rfl, by simp [PassAction.result, numLoops]⟩
    · dsimp only at h
      split at h
      · cases h
        exact ⟨fun _ => rfl, fun _ => rfl, fun _ => rfl, by simp [PassAction.result, numLoops]⟩
      · cases h; exact KR_congr.refl _
  · cases h; exact KR_congr.refl _

/-! ## The pipeline -/

theorem KR_passes : PassesStep KR where
  simplifyBrackets := simplifyBrackets_step
  decat := decat_step
  unrollLoops := unrollLoops_step
  promote1CharLoops := promote1CharLoops_step
  formLiteralBytes := formLiteralBytes_step
  removeEmpties := removeEmpties_step
  propagateEarlyFails := propagateEarlyFails_step

/-- **`optimize` preserves the side conditions of the keystone lemma**: on a tree satisfying C07's
`OptIn` (parser output does), `kok`, `rootOK` are preserved, the number of `Loop` nodes does not
grow, and the flags are untouched. -/
theorem optimize_side {fuel : Nat} {r r' : Regex} (hr : OptIn r.node) (h : optimize fuel r = .ok r') :
    (kok r.node = true → kok r'.node = true) ∧ (rootOK r.node = true → rootOK r'.node = true) ∧
      numLoops r'.node ≤ numLoops r.node ∧ r'.flags = r.flags := by
  have := optimize_rel KR_congr KR_passes hr h
  exact ⟨this.1.1, this.1.2.2.1, this.1.2.2.2, this.2⟩

end Regress.E2E
