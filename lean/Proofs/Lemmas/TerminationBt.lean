import Proofs.Lemmas.Termination
import Proofs.Lemmas.Frame
/-!
# PikeVM termination for programs with general loops AND look-arounds

Extends part (d) of `Proofs/Lemmas/Termination.lean` (`loopProg`, `rank`, `rcost = 3 ^ rank`) to
programs that contain `lookahead` / `lookbehind`.

* `lookLoopProg` = `loopProg`, except that look-arounds are allowed, plus `Bt.lookClosed`
  (`Proofs/Lemmas/Frame.lean`): every look-around body `(j, k)` is a non-empty closed region.
* `lookDepth` = maximal number of look-around bodies around an address.
* `lookBound prog L = (3 ^ rankBound prog L + 1) ^ (lookDepth prog + 1)`.

A run at nesting level `e` charges every state `3 ^ rank s * K ^ (lookDepth - e)` ticks,
`K = 3 ^ rankBound + 1`. A look-around tick pays for its nested run (level `e + 1`, at most
`3 ^ rankBound * K ^ (lookDepth - e - 1)` ticks) and continues at `k` with a smaller rank: the nested
run wrote only loop slots of loops inside the body (footprint lemma, part of the main induction), whose
digits were maximal before.
-/
namespace Regress.VM.Pk
open Regress.VM.Bt (LoopData lookOf insnIn Region lookClosed inBody bodyLoop inRange lookClosed_region)

/-! ## The structural hypothesis -/

/-- Per-instruction clause of `lookLoopProg`: `loopInsnOk`, but look-arounds are allowed (their
conditions are in `lookClosed`). -/
def lookInsnOk (prog : Prog) (j : Nat) : Insn → Bool
  | .lookahead .. => true
  | .lookbehind .. => true
  | i => loopInsnOk prog j i

/-- `loopProg` extended to look-arounds: forward jumps/alternations, properly nested general loops with
loop ids of their own (`loopInsnOk`), and every look-around body `(j, continuation)` is non-empty and
closed (`Bt.lookClosed`: its instructions continue / jump / exit loops / loop again only inside the body,
and write only loop slots of `enterLoop`s inside the body). -/
def lookLoopProg (prog : Prog) : Bool :=
  lookClosed prog &&
  (List.range prog.insns.size).all (fun j =>
    match prog.insns[j]? with
    | some i => lookInsnOk prog j i
    | none => true)

/-- The look-around at `j` (if any) has the address `ip` in its body. -/
def encloses (prog : Prog) (ip j : Nat) : Bool :=
  match prog.insns[j]?.bind lookOf with
  | some (_, _, k) => decide (j < ip) && decide (ip < k)
  | none => false

/-- Number of look-around bodies that contain the address `ip`. -/
def depthAt (prog : Prog) (ip : Nat) : Nat := (List.range prog.insns.size).countP (encloses prog ip)

/-- Maximal nesting depth of look-arounds (0 = no look-around). -/
def lookDepth (prog : Prog) : Nat :=
  (List.range (prog.insns.size + 1)).foldl (fun m ip => max m (depthAt prog ip)) 0

/-- `3 ^ rankBound + 1`: the factor per nesting level. -/
def lookK (prog : Prog) (L : Nat) : Nat := 3 ^ rankBound prog L + 1

/-- Explicit tick bound of one attempt. -/
def lookBound (prog : Prog) (L : Nat) : Nat := lookK prog L ^ (lookDepth prog + 1)

theorem lookLoopProg_closed {prog : Prog} (hf : lookLoopProg prog = true) : lookClosed prog = true := by
  unfold lookLoopProg at hf
  rw [Bool.and_eq_true] at hf
  exact hf.1

theorem lookLoopProg_insn {prog : Prog} (hf : lookLoopProg prog = true) {j : Nat} {i : Insn}
    (h : prog.insns[j]? = some i) : lookInsnOk prog j i = true := by
  have hlt := lt_size_of_getElem? h
  unfold lookLoopProg at hf
  rw [Bool.and_eq_true, List.all_eq_true] at hf
  have := hf.2 j (List.mem_range.mpr hlt)
  simpa [h] using this

/-- The facts about jumps and loops the rank argument uses (what `loopProg` provides). -/
structure LoopFacts (prog : Prog) : Prop where
  jump : ∀ {j t}, prog.insns[j]? = some (Insn.jump t) → j < t
  alt : ∀ {j s}, prog.insns[j]? = some (Insn.alt s) → j < s
  enter : ∀ {j id mn mx g exit}, prog.insns[j]? = some (Insn.enterLoop id mn mx g exit) →
    j < exit ∧ ∀ j' id' mn' mx' g' exit', prog.insns[j']? = some (Insn.enterLoop id' mn' mx' g' exit') →
      j' ≠ j → id' ≠ id
  again : ∀ {j b}, prog.insns[j]? = some (Insn.loopAgain b) →
    b < j ∧ ∃ id mn mx g exit, prog.insns[b]? = some (Insn.enterLoop id mn mx g exit) ∧ j < exit ∧
      ∀ j'' id'' mn'' mx'' g'' exit'', j'' < b →
        prog.insns[j'']? = some (Insn.enterLoop id'' mn'' mx'' g'' exit'') → b + 1 < exit'' → j < exit''

theorem lookLoopProg_facts {prog : Prog} (hf : lookLoopProg prog = true) : LoopFacts prog where
  jump := by
    intro j t h
    have := lookLoopProg_insn hf h
    simpa [lookInsnOk, loopInsnOk] using this
  alt := by
    intro j s h
    have := lookLoopProg_insn hf h
    simpa [lookInsnOk, loopInsnOk] using this
  enter := by
    intro j id mn mx g exit h
    have := lookLoopProg_insn hf h
    simp only [lookInsnOk, loopInsnOk, Bool.and_eq_true, decide_eq_true_eq, List.all_eq_true,
      List.mem_range, Bool.or_eq_true, beq_iff_eq] at this
    refine ⟨this.1, ?_⟩
    intro j' id' mn' mx' g' exit' h' hne
    have h2 := this.2 j' (lt_size_of_getElem? h')
    rcases h2 with h2 | h2
    · exact absurd h2 hne
    · simpa [h'] using h2
  again := by
    intro j b h
    have := lookLoopProg_insn hf h
    simp only [lookInsnOk, loopInsnOk, Bool.and_eq_true, decide_eq_true_eq] at this
    refine ⟨this.1, ?_⟩
    have h2 := this.2
    split at h2
    · rename_i id mn mx g exit hb
      simp only [Bool.and_eq_true, decide_eq_true_eq, List.all_eq_true, List.mem_range] at h2
      refine ⟨id, mn, mx, g, exit, hb, h2.1, ?_⟩
      intro j'' id'' mn'' mx'' g'' exit'' hlt h'' hin
      have := h2.2 j'' hlt
      simp only [h'', Bool.or_eq_true, Bool.not_eq_true', decide_eq_false_iff_not,
        decide_eq_true_eq] at this
      rcases this with h3 | h3
      · exact absurd hin h3
      · exact h3
    · simp at h2

/-- `loopProg` programs (no look-arounds) satisfy `lookLoopProg`. -/
theorem loopProg_lookLoopProg {prog : Prog} (h : loopProg prog = true) : lookLoopProg prog = true := by
  unfold lookLoopProg
  rw [Bool.and_eq_true]
  constructor
  · unfold lookClosed
    rw [List.all_eq_true]
    intro ip hip
    have hlt := List.mem_range.mp hip
    have hi : prog.insns[ip]? = some prog.insns[ip] := by simp [hlt]
    have hok := loopProg_insn h hi
    rw [hi]
    generalize prog.insns[ip] = i at hok
    cases i <;> first | rfl | simp [loopInsnOk] at hok
  · rw [List.all_eq_true]
    intro j hj
    have hlt := List.mem_range.mp hj
    have hi : prog.insns[j]? = some prog.insns[j] := by simp [hlt]
    have hok := loopProg_insn h hi
    rw [hi]
    generalize prog.insns[j] = i at hok
    simp only []
    cases i <;> first | exact hok | rfl

/-! ## Nesting depth -/

theorem countP_lt_of {α} {p q : α → Bool} : ∀ (l : List α), (∀ x ∈ l, p x = true → q x = true) →
    ∀ a, a ∈ l → q a = true → p a = false → l.countP p < l.countP q := by
  intro l
  induction l with
  | nil => intro _ a ha; simp at ha
  | cons x l ih =>
    intro hpq a ha hqa hpa
    have hle : l.countP p ≤ l.countP q :=
      List.countP_mono_left (fun y hy => hpq y (List.mem_cons_of_mem _ hy))
    rcases List.mem_cons.mp ha with rfl | ha'
    · rw [List.countP_cons_of_pos hqa, List.countP_cons_of_neg (by simp [hpa])]
      omega
    · have := ih (fun y hy => hpq y (List.mem_cons_of_mem _ hy)) a ha' hqa hpa
      by_cases hx : p x = true
      · rw [List.countP_cons_of_pos hx, List.countP_cons_of_pos (hpq x (List.mem_cons_self) hx)]
        omega
      · rw [List.countP_cons_of_neg hx]
        by_cases hqx : q x = true
        · rw [List.countP_cons_of_pos hqx]; omega
        · rw [List.countP_cons_of_neg hqx]; exact this

theorem foldl_max_nat (f : Nat → Nat) : ∀ (l : List Nat) (init : Nat),
    init ≤ l.foldl (fun m i => max m (f i)) init ∧
    ∀ x ∈ l, f x ≤ l.foldl (fun m i => max m (f i)) init := by
  intro l
  induction l with
  | nil => intro init; simp
  | cons a l ih =>
    intro init
    simp only [List.foldl_cons, List.mem_cons, forall_eq_or_imp]
    have h1 := (ih (max init (f a))).1
    have h2 := (ih (max init (f a))).2
    refine ⟨by omega, by omega, h2⟩

theorem depthAt_le_lookDepth (prog : Prog) {ip : Nat} (h : ip ≤ prog.insns.size) :
    depthAt prog ip ≤ lookDepth prog :=
  (foldl_max_nat (depthAt prog) _ 0).2 ip (List.mem_range.mpr (by omega))

/-- The look-around at `j` with continuation `k` (if `insns[j]` is one). -/
theorem encloses_iff {prog : Prog} {ip j : Nat} :
    encloses prog ip j = true ↔
      ∃ i sg eg k, prog.insns[j]? = some i ∧ lookOf i = some (sg, eg, k) ∧ j < ip ∧ ip < k := by
  unfold encloses
  cases hi : prog.insns[j]? with
  | none => simp
  | some i =>
    simp only [Option.bind_some]
    cases hl : lookOf i with
    | none => simp [hl]
    | some t =>
      obtain ⟨sg, eg, k⟩ := t
      simp only [Bool.and_eq_true, decide_eq_true_eq, Option.some.injEq, exists_and_left,
        exists_eq_left', hl, Prod.mk.injEq]
      constructor
      · rintro ⟨h1, h2⟩; exact ⟨sg, eg, k, ⟨rfl, rfl, rfl⟩, h1, h2⟩
      · rintro ⟨sg', eg', k', ⟨rfl, rfl, rfl⟩, h1, h2⟩; exact ⟨h1, h2⟩

/-- Inside the body of the look-around at `j` the depth is larger than at `j`. -/
theorem depthAt_body {prog : Prog} (hc : lookClosed prog = true) {j : Nat} {i : Insn} {sg eg k : Nat}
    (hi : prog.insns[j]? = some i) (hl : lookOf i = some (sg, eg, k)) {ip : Nat} (h1 : j < ip)
    (h2 : ip < k) : depthAt prog j + 1 ≤ depthAt prog ip := by
  unfold depthAt
  apply countP_lt_of _ _ j (List.mem_range.mpr (lt_size_of_getElem? hi))
  · exact encloses_iff.mpr ⟨i, sg, eg, k, hi, hl, h1, h2⟩
  · cases h : encloses prog j j with
    | false => rfl
    | true =>
      obtain ⟨_, _, _, _, _, _, h3, _⟩ := encloses_iff.mp h
      omega
  · intro x _ hx
    obtain ⟨ix, sgx, egx, kx, hix, hlx, h3, h4⟩ := encloses_iff.mp hx
    refine encloses_iff.mpr ⟨ix, sgx, egx, kx, hix, hlx, by omega, ?_⟩
    -- `j` is inside the closed body of `x`, so its continuation `k` is too
    have hreg := (lookClosed_region hc hix hlx).2 j i (by simp [inBody, h3, h4]) hi
    have hk : inBody x kx k = true := by
      cases i <;> simp only [lookOf, Option.some.injEq, Prod.mk.injEq, reduceCtorEq] at hl
      all_goals
        obtain ⟨rfl, rfl, rfl⟩ := hl
        simp only [insnIn, Bool.and_eq_true] at hreg
        exact hreg.1.2
    simp only [inBody, Bool.and_eq_true, decide_eq_true_eq] at hk
    omega


/-! ## Every tick on a non-look-around instruction lowers the rank (as in part (d), from `LoopFacts`) -/

section
variable {prog : Prog} {inp : Input} {fwd : Bool}

theorem plain_ok3 (hf : LoopFacts prog) {s : State} {steps peak : Nat} {sm : SM}
    (hs : FullSpec prog inp s fwd steps peak sm) (hlt : s.ip < prog.insns.size) :
    sm.Ok (rcost prog inp.bytes.size fwd) steps (rcost prog inp.bytes.size fwd s) := by
  cases hs with
  | err => simp [SM.Ok]
  | fail s' => exact ok_fail _ _ _ _
  | complete =>
    have := rcost_pos prog inp.bytes.size fwd s
    simp only [SM.Ok]; omega
  | next s' hip hl hp => exact ok_cont _ _ (rank_lt_forward hlt (by omega) hl hp)
  | jump t hj s' hip hl hp =>
    have := hf.jump hj
    exact ok_cont _ _ (rank_lt_forward hlt (by omega) hl (.inl hp))
  | alt sec ha s1 s2 h1 h2 hl1 hl2 hp1 hp2 =>
    have := hf.alt ha
    exact ok_split _ _ (rank_lt_forward hlt (by omega) hl1 (.inl hp1))
      (rank_lt_forward hlt (by omega) hl2 (.inl hp2))

theorem digit_other_set3 (hf : LoopFacts prog) {b id mn mx g exit}
    (hb : prog.insns[b]? = some (Insn.enterLoop id mn mx g exit)) {j : Nat} {i : Insn}
    (hj : prog.insns[j]? = some i) (hne : j ≠ b) (ip pos : Nat) (loops : Array LoopData)
    (ld : LoopData) :
    digit j i ip pos (loops.setIfInBounds id ld) = digit j i ip pos loops := by
  apply digit_set_ne
  intro id' mn' mx' g' e' hi
  subst hi
  exact (hf.enter hb).2 j id' mn' mx' g' e' hj hne

theorem rank_enterLoop3 (hf : LoopFacts prog) {s : State} {id mn mx g exit}
    (hin : prog.insns[s.ip]? = some (Insn.enterLoop id mn mx g exit)) {ld : LoopData}
    (hld : s.loops[id]? = some ld) (s' : State) (hpos : s'.pos = s.pos)
    (hl : s'.loops = s.loops.setIfInBounds id { iters := 0, entry := s.pos })
    (hip : s'.ip = s.ip + 1 ∨ s'.ip = exit) :
    rank prog inp.bytes.size fwd s' < rank prog inp.bytes.size fwd s := by
  have hexit := (hf.enter hin).1
  have hidlt : id < s.loops.size := lt_size_of_getElem? hld
  apply rank_lt_of_digit hpos hin
  · rw [hl, hpos]
    simp only [digit, Nat.le_refl, if_true]
    have hget : (s.loops.setIfInBounds id { iters := 0, entry := s.pos })[id]?
        = some { iters := 0, entry := s.pos } := by
      simp [hidlt]
    rcases hip with hip | hip
    · rw [hip]
      have c1 : ¬ s.ip + 1 ≤ s.ip := by omega
      simp only [c1, if_false]
      split
      · rw [hget]; simp [loopActual]
      · omega
    · rw [hip]
      have c1 : ¬ exit ≤ s.ip := by omega
      simp [c1]
  · intro j i hj hji
    rw [hl, hpos, digit_other_set3 hf hin hji (by omega)]
    apply digit_mono_ip
    rcases hip with hip | hip <;> omega

theorem rank_loopAgain3 (hf : LoopFacts prog) {s : State} {b : Nat}
    (hin : prog.insns[s.ip]? = some (Insn.loopAgain b)) {id mn mx g exit}
    (hb : prog.insns[b]? = some (Insn.enterLoop id mn mx g exit)) {ld : LoopData}
    (hld : s.loops[id]? = some ld)
    (hgo : ¬ (ld.iters + 1 > mn ∧ ld.entry = s.pos))
    (s' : State) (hpos : s'.pos = s.pos)
    (hl : s'.loops = s.loops.setIfInBounds id { iters := ld.iters + 1, entry := s.pos })
    (hip : s'.ip = b + 1 ∨ s'.ip = exit) :
    rank prog inp.bytes.size fwd s' < rank prog inp.bytes.size fwd s := by
  obtain ⟨hbj, id2, mn2, mx2, g2, exit2, hb2, hjexit, hnest⟩ := hf.again hin
  rw [hb] at hb2
  simp only [Option.some.injEq, Insn.enterLoop.injEq] at hb2
  obtain ⟨rfl, rfl, rfl, rfl, rfl⟩ := hb2
  have hidlt : id < s.loops.size := lt_size_of_getElem? hld
  have hget : (s.loops.setIfInBounds id { iters := ld.iters + 1, entry := s.pos })[id]?
      = some { iters := ld.iters + 1, entry := s.pos } := by
    simp [hidlt]
  apply rank_lt_of_digit hpos hb
  · rw [hl, hpos]
    simp only [digit]
    have c0 : ¬ s.ip ≤ b := by omega
    simp only [c0, hjexit, if_true, if_false, hld, loopActual]
    rcases hip with hip | hip
    · rw [hip]
      have c1 : ¬ b + 1 ≤ b := by omega
      have c2 : b + 1 < exit := by omega
      simp only [c1, c2, if_true, if_false, hget]
      by_cases he : ld.entry = s.pos
      · have hle : ld.iters + 1 ≤ mn := Nat.le_of_not_gt (fun hc => hgo ⟨hc, he⟩)
        simp only [he, if_true]; omega
      · simp only [he, if_false]; omega
    · rw [hip]
      have c1 : ¬ exit ≤ b := by omega
      simp only [c1, Nat.lt_irrefl, if_false]
      by_cases he : ld.entry = s.pos
      · have hle : ld.iters + 1 ≤ mn := Nat.le_of_not_gt (fun hc => hgo ⟨hc, he⟩)
        simp only [he, if_true]; omega
      · simp only [he, if_false]; omega
  · intro j i hj hji
    rw [hl, hpos, digit_other_set3 hf hb hji (by omega)]
    rcases hip with hip | hip
    · rw [hip]
      apply digit_back i s.pos s.loops hj hbj
      intro id' mn' mx' g' e' hi hlt
      subst hi
      exact hnest j id' mn' mx' g' e' hj hji hlt
    · rw [hip]; exact digit_mono_ip j i (by omega) _ _

theorem runLoop_init_ok3 (hf : LoopFacts prog) {s : State} {id mn mx g exit}
    (hin : prog.insns[s.ip]? = some (Insn.enterLoop id mn mx g exit)) (steps peak : Nat) :
    (runLoop s id mn mx g exit true steps peak).Ok (rcost prog inp.bytes.size fwd) steps
      (rcost prog inp.bytes.size fwd s) := by
  unfold runLoop
  cases hld : s.loops[id]? with
  | none => simp [SM.Ok]
  | some ld =>
    have hr := rank_enterLoop3 (inp := inp) (fwd := fwd) hf hin hld
    simp only [if_true]
    repeat' split
    all_goals first
      | exact ok_fail _ _ _ _
      | exact ok_cont _ _ (hr _ rfl rfl (.inl rfl))
      | exact ok_cont _ _ (hr _ rfl rfl (.inr rfl))
      | exact ok_split _ _ (hr _ rfl rfl (.inr rfl)) (hr _ rfl rfl (.inl rfl))
      | exact ok_split _ _ (hr _ rfl rfl (.inl rfl)) (hr _ rfl rfl (.inr rfl))

theorem runLoop_again_ok3 (hf : LoopFacts prog) {s : State} {b : Nat}
    (hin : prog.insns[s.ip]? = some (Insn.loopAgain b)) {id mn mx g exit}
    (hb : prog.insns[b]? = some (Insn.enterLoop id mn mx g exit)) (steps peak : Nat) :
    (runLoop { s with ip := b } id mn mx g exit false steps peak).Ok
      (rcost prog inp.bytes.size fwd) steps (rcost prog inp.bytes.size fwd s) := by
  unfold runLoop
  cases hld : s.loops[id]? with
  | none => simp [SM.Ok]
  | some ld =>
    simp only [Bool.false_eq_true, if_false]
    split
    · exact ok_fail _ _ _ _
    · rename_i hc
      have hgo : ¬ (ld.iters + 1 > mn ∧ ld.entry = s.pos) := by
        intro h; apply hc; simp [h.1, h.2]
      have hr := rank_loopAgain3 (inp := inp) (fwd := fwd) hf hin hb hld hgo
      repeat' split
      all_goals first
        | exact ok_fail _ _ _ _
        | exact ok_cont _ _ (hr _ rfl rfl (.inl rfl))
        | exact ok_cont _ _ (hr _ rfl rfl (.inr rfl))
        | exact ok_split _ _ (hr _ rfl rfl (.inr rfl)) (hr _ rfl rfl (.inl rfl))
        | exact ok_split _ _ (hr _ rfl rfl (.inl rfl)) (hr _ rfl rfl (.inr rfl))

/-- `tryMatchState_ok2` for every instruction other than a look-around, from `LoopFacts`. -/
theorem tryMatchState_ok3 (hf : LoopFacts prog) (hl1 : loop1Scm prog = true)
    (look : Runner) (d : Nat) (s : State) (steps peak : Nat) {i : Insn}
    (hin : prog.insns[s.ip]? = some i) (hnl : lookOf i = none) :
    (tryMatchState prog inp look d s fwd steps peak).Ok (rcost prog inp.bytes.size fwd) steps
      (rcost prog inp.bytes.size fwd s) := by
  cases d with
  | zero => simp [tryMatchState, SM.Ok]
  | succ d =>
    have hlt := lt_size_of_getElem? hin
    by_cases hi : isPlain i = true
    · exact plain_ok3 hf (tryMatchState_full hin hi) hlt
    · cases i with
      | lookahead n sg eg k => simp [lookOf] at hnl
      | lookbehind n sg eg k => simp [lookOf] at hnl
      | enterLoop id mn mx g exit =>
        unfold tryMatchState; simp only [hin]
        exact runLoop_init_ok3 hf hin steps peak
      | loopAgain b =>
        obtain ⟨_, id, mn, mx, g, exit, hb, _, _⟩ := hf.again hin
        unfold tryMatchState; simp only [hin, hb]
        exact runLoop_again_ok3 hf hin hb steps peak
      | loop1 mn mx g =>
        obtain ⟨b, hbin, hb⟩ := loop1Scm_body hl1 hin
        have hbp : isPlain b = true := by cases b <;> simp [scmAccepted] at hb <;> rfl
        unfold tryMatchState; simp only [hin]
        by_cases hlt' : Bt.ltMax s.loop1Iters mx = true
        · simp only [hlt', if_true]
          cases d with
          | zero => simp [tryMatchState, SM.Ok]
          | succ d =>
            have hbody := tryMatchState_body (inp := inp) (look := look) (d := d)
              (s := { s with ip := s.ip + 1 }) (fwd := fwd) (steps := steps) (peak := peak)
              hbin hb
            have hfull := tryMatchState_full (inp := inp) (look := look) (d := d)
              (s := { s with ip := s.ip + 1 }) (fwd := fwd) (steps := steps) (peak := peak)
              hbin hbp
            generalize tryMatchState prog inp look (d + 1) { s with ip := s.ip + 1 } fwd steps peak
              = r at hbody hfull
            cases hbody with
            | err e => simp [SM.Ok]
            | fail s' =>
              have hl : s'.loops = s.loops := by cases hfull with | fail _ hl => exact hl
              simp only []
              exact loop1_tail_ok2 hlt none _ steps peak rfl hl rfl (by intro p hp; cases hp)
            | cont s' hmv =>
              have hl : s'.loops = s.loops := by
                cases hfull with
                | next _ _ hl _ => exact hl
                | jump _ _ _ _ hl _ => exact hl
              simp only []
              exact loop1_tail_ok2 hlt (some s'.pos) _ steps peak rfl hl rfl
                (by intro p hp; cases hp; exact hmv)
        · simp only [hlt']
          exact loop1_tail_ok2 hlt none s steps peak rfl rfl rfl (by intro p hp; cases hp)
      | _ => simp [isPlain] at hi

end

/-- Scaling all costs by `M ≥ 1` keeps a tick paid for. -/
theorem SM.Ok.scale {C : State → Nat} {steps c : Nat} {sm : SM} (h : sm.Ok C steps c) {M : Nat}
    (hM : 1 ≤ M) : sm.Ok (fun s => C s * M) steps (c * M) := by
  cases sm with
  | fail s st pk =>
    simp only [SM.Ok] at h ⊢
    have := Nat.le_mul_of_pos_right c hM
    omega
  | complete s st pk =>
    simp only [SM.Ok] at h ⊢
    have := Nat.le_mul_of_pos_right c hM
    omega
  | cont s' st pk =>
    simp only [SM.Ok] at h ⊢
    obtain ⟨d, rfl⟩ : ∃ d, c = C s' + 1 + d := ⟨c - (C s' + 1), by omega⟩
    rw [Nat.add_mul, Nat.add_mul, Nat.one_mul]
    have := Nat.le_mul_of_pos_right d hM
    omega
  | split s1 s2 st pk =>
    simp only [SM.Ok] at h ⊢
    obtain ⟨d, rfl⟩ : ∃ d, c = C s1 + C s2 + 1 + d := ⟨c - (C s1 + C s2 + 1), by omega⟩
    rw [Nat.add_mul, Nat.add_mul, Nat.add_mul, Nat.one_mul]
    have := Nat.le_mul_of_pos_right d hM
    omega
  | outOfFuel => exact h
  | err e => trivial


/-! ## Regions, footprints, and the invariant of a run -/

/-- `loops` differs from `base` only in slots of the footprint `L`. -/
def FootL (L : Nat → Bool) (base loops : Array LoopData) : Prop :=
  ∀ id, L id = false → loops[id]? = base[id]?

theorem FootL.refl (L : Nat → Bool) (base : Array LoopData) : FootL L base base := fun _ _ => rfl

theorem FootL.set {L : Nat → Bool} {base loops : Array LoopData} (h : FootL L base loops) {id : Nat}
    (hL : L id = true) (ld : LoopData) : FootL L base (loops.setIfInBounds id ld) := by
  intro id' h'
  have hne : id ≠ id' := by intro e; subst e; rw [hL] at h'; cases h'
  rw [Array.getElem?_setIfInBounds_ne hne]
  exact h id' h'

/-- The state is inside the region `R` and its loop data differs from `base` only inside `L`. -/
def InR (R L : Nat → Bool) (base : Array LoopData) (s : State) : Prop :=
  R s.ip = true ∧ FootL L base s.loops

/-- Every state handed back by a tick satisfies `Q`. -/
def SM.All (Q : State → Prop) : SM → Prop
  | .cont s _ _ => Q s
  | .split s1 s2 _ _ => Q s1 ∧ Q s2
  | .complete s _ _ => Q s
  | _ => True

theorem bodyLoop_iff {prog : Prog} {ip k id : Nat} :
    bodyLoop prog ip k id = true ↔
      ∃ j mn mx g e, ip < j ∧ j < k ∧ prog.insns[j]? = some (Insn.enterLoop id mn mx g e) := by
  simp only [bodyLoop, List.any_eq_true, List.mem_range]
  constructor
  · rintro ⟨d, hd, hm⟩
    split at hm
    · rename_i id' mn mx g e hj
      simp only [beq_iff_eq] at hm
      subst hm
      exact ⟨ip + 1 + d, mn, mx, g, e, by omega, by omega, hj⟩
    · cases hm
  · rintro ⟨j, mn, mx, g, e, h1, h2, hj⟩
    refine ⟨j - (ip + 1), by omega, ?_⟩
    have : ip + 1 + (j - (ip + 1)) = j := by omega
    simp [this, hj]

/-- `R` is a closed region at nesting level `e` whose look-around bodies write inside `L`. -/
structure Reg (prog : Prog) (R N L G : Nat → Bool) (e : Nat) : Prop where
  closed : Region prog R N L G
  lev : ∀ ip, R ip = true → e ≤ depthAt prog ip
  sub : ∀ j i sg eg k id, R j = true → prog.insns[j]? = some i → lookOf i = some (sg, eg, k) →
    bodyLoop prog j k id = true → L id = true

/-- All addresses / all slots. -/
def allT (_ : Nat) : Bool := true

theorem Reg.top (prog : Prog) : Reg prog allT allT allT allT 0 where
  closed := by
    intro j i _ _
    cases i <;> simp [insnIn, allT]
    split <;> simp
  lev := fun _ _ => Nat.zero_le _
  sub := fun _ _ _ _ _ _ _ _ _ _ => rfl

/-- What `insnIn` says about a look-around. -/
theorem insnIn_look {prog : Prog} {R N L G : Nat → Bool} {j : Nat} {i : Insn} {sg eg k : Nat}
    (hl : lookOf i = some (sg, eg, k)) (h : insnIn prog R N L G j i = true) : R k = true := by
  cases i <;> simp only [lookOf, Option.some.injEq, Prod.mk.injEq, reduceCtorEq] at hl
  all_goals
    obtain ⟨rfl, rfl, rfl⟩ := hl
    simp only [insnIn, Bool.and_eq_true] at h
    exact h.1.2

theorem Reg.body {prog : Prog} (hc : lookClosed prog = true) {R N L G : Nat → Bool} {e : Nat}
    (reg : Reg prog R N L G e) {j : Nat} {i : Insn} {sg eg k : Nat} (hR : R j = true)
    (hi : prog.insns[j]? = some i) (hl : lookOf i = some (sg, eg, k)) :
    j + 1 < k ∧ e + 1 ≤ lookDepth prog ∧
      Reg prog (inBody j k) (inBody j k) (bodyLoop prog j k) (inRange sg eg) (e + 1) := by
  obtain ⟨hk, hreg⟩ := lookClosed_region hc hi hl
  have hlev := reg.lev j hR
  refine ⟨hk, ?_, ⟨hreg, ?_, ?_⟩⟩
  · have h1 := depthAt_body hc hi hl (ip := j + 1) (by omega) hk
    have h2 := depthAt_le_lookDepth prog (ip := j + 1) (by have := lt_size_of_getElem? hi; omega)
    omega
  · intro ip hip
    simp only [inBody, Bool.and_eq_true, decide_eq_true_eq] at hip
    have := depthAt_body hc hi hl hip.1 hip.2
    omega
  · intro j1 i1 sg1 eg1 k1 id hj1 hi1 hl1 hb
    have hk1 := insnIn_look hl1 (hreg j1 i1 hj1 hi1)
    simp only [inBody, Bool.and_eq_true, decide_eq_true_eq] at hj1 hk1
    obtain ⟨j2, mn, mx, g, ex, h1, h2, hj2⟩ := bodyLoop_iff.mp hb
    exact bodyLoop_iff.mpr ⟨j2, mn, mx, g, ex, by omega, by omega, hj2⟩

/-! ### The invariant is preserved by every instruction other than a look-around -/

section
variable {prog : Prog} {inp : Input} {fwd : Bool} {R N L G : Nat → Bool} {base : Array LoopData}

theorem runLoop_inv {s : State} {id mn : Nat} {mx : Option Nat} {g : Bool} {exit : Nat} {init : Bool}
    {steps peak : Nat} (hfoot : FootL L base s.loops) (hL : L id = true)
    (h1 : R (s.ip + 1) = true) (h2 : R exit = true) :
    (runLoop s id mn mx g exit init steps peak).All (InR R L base) := by
  unfold runLoop
  cases hld : s.loops[id]? with
  | none => trivial
  | some ld =>
    simp only []
    repeat' split
    all_goals first
      | exact trivial
      | exact ⟨h1, hfoot.set hL _⟩
      | exact ⟨h2, hfoot.set hL _⟩
      | exact ⟨⟨h2, hfoot.set hL _⟩, ⟨h1, hfoot.set hL _⟩⟩
      | exact ⟨⟨h1, hfoot.set hL _⟩, ⟨h2, hfoot.set hL _⟩⟩

theorem loop1_tail_inv {s : State} {mn : Nat} {g : Bool}
    (tp : Option Nat) (s2 : State) (steps peak : Nat) (hip : s2.ip = s.ip)
    (hl : FootL L base s2.loops) (h0 : R s.ip = true) (h2 : R (s.ip + 2) = true) :
    (match tp, decide (s.loop1Iters ≥ mn) with
      | none, false => SM.fail s2 steps peak
      | none, true => .cont { s2 with ip := s.ip + 2, loop1Iters := 0 } steps peak
      | some tp, false => .cont { s2 with pos := tp, loop1Iters := s.loop1Iters + 1 } steps peak
      | some tp, true =>
        if g then
          .split { s2 with ip := s.ip + 2, loop1Iters := 0 }
            { s2 with pos := tp, loop1Iters := s.loop1Iters + 1 } steps peak
        else
          .split { s2 with pos := tp, loop1Iters := s.loop1Iters + 1 }
            { s2 with ip := s.ip + 2, loop1Iters := 0 } steps peak).All (InR R L base) := by
  have h0' : R s2.ip = true := by rw [hip]; exact h0
  cases tp with
  | none =>
    cases decide (s.loop1Iters ≥ mn) with
    | false => trivial
    | true => exact ⟨h2, hl⟩
  | some p =>
    cases decide (s.loop1Iters ≥ mn) with
    | false => exact ⟨h0', hl⟩
    | true =>
      cases g
      · simp only [Bool.false_eq_true, if_false]; exact ⟨⟨h0', hl⟩, ⟨h2, hl⟩⟩
      · simp only [if_true]; exact ⟨⟨h2, hl⟩, ⟨h0', hl⟩⟩

theorem tryMatchState_inv (hl1 : loop1Scm prog = true)
    (look : Runner) (d : Nat) (s : State) (steps peak : Nat) {i : Insn}
    (hin : prog.insns[s.ip]? = some i) (hnl : lookOf i = none)
    (hI : insnIn prog R N L G s.ip i = true) (hs : InR R L base s) :
    (tryMatchState prog inp look d s fwd steps peak).All (InR R L base) := by
  cases d with
  | zero => simp [tryMatchState, SM.All]
  | succ d =>
    cases i with
    | lookahead n sg eg k => simp [lookOf] at hnl
    | lookbehind n sg eg k => simp [lookOf] at hnl
    | goal => unfold tryMatchState; simp only [hin]; exact hs
    | justFail => unfold tryMatchState; simp only [hin]; trivial
    | jump t =>
      unfold tryMatchState; simp only [hin]
      simp only [insnIn] at hI
      exact ⟨hI, hs.2⟩
    | alt sec =>
      unfold tryMatchState; simp only [hin]
      simp only [insnIn, Bool.and_eq_true] at hI
      exact ⟨⟨hI.2, hs.2⟩, ⟨hI.1, hs.2⟩⟩
    | enterLoop id mn mx g exit =>
      unfold tryMatchState; simp only [hin]
      simp only [insnIn, Bool.and_eq_true] at hI
      exact runLoop_inv hs.2 hI.2 hI.1.1 hI.1.2
    | loopAgain b =>
      unfold tryMatchState; simp only [hin]
      simp only [insnIn] at hI
      cases hb : prog.insns[b]? with
      | none => trivial
      | some ib =>
        cases ib with
        | enterLoop id mn mx g exit =>
          simp only [hb, Bool.and_eq_true] at hI
          exact runLoop_inv (s := { s with ip := b }) hs.2 hI.2 hI.1.1 hI.1.2
        | _ => trivial
    | loop1 mn mx g =>
      obtain ⟨b, hbin, hb⟩ := loop1Scm_body hl1 hin
      have hbp : isPlain b = true := by cases b <;> simp [scmAccepted] at hb <;> rfl
      simp only [insnIn] at hI
      unfold tryMatchState; simp only [hin]
      by_cases hlt' : Bt.ltMax s.loop1Iters mx = true
      · simp only [hlt', if_true]
        cases d with
        | zero => simp [tryMatchState, SM.All]
        | succ d =>
          have hfull := tryMatchState_full (inp := inp) (look := look) (d := d)
            (s := { s with ip := s.ip + 1 }) (fwd := fwd) (steps := steps) (peak := peak)
            hbin hbp
          generalize tryMatchState prog inp look (d + 1) { s with ip := s.ip + 1 } fwd steps peak
            = r at hfull
          cases hfull with
          | err e => trivial
          | complete => trivial
          | alt => trivial
          | fail s' hl =>
            simp only []
            exact loop1_tail_inv none _ steps peak rfl (by simp only [hl]; exact hs.2) hs.1 hI
          | next s' _ hl _ =>
            simp only []
            exact loop1_tail_inv (some s'.pos) _ steps peak rfl (by simp only [hl]; exact hs.2) hs.1 hI
          | jump _ _ s' _ hl _ =>
            simp only []
            exact loop1_tail_inv (some s'.pos) _ steps peak rfl (by simp only [hl]; exact hs.2) hs.1 hI
      · simp only [hlt']
        exact loop1_tail_inv none s steps peak rfl hs.2 hs.1 hI
    | _ =>
      -- the remaining instructions are plain and continue at `s.ip + 1` (or fail)
      have hR1 : R (s.ip + 1) = true := by
        first
          | exact hI
          | (simp only [insnIn, Bool.and_eq_true] at hI; exact hI.1)
      have hfull := tryMatchState_full (inp := inp) (look := look) (d := d) (s := s) (fwd := fwd)
        (steps := steps) (peak := peak) hin rfl
      generalize tryMatchState prog inp look (d + 1) s fwd steps peak = r at hfull
      cases hfull with
      | err e => trivial
      | fail s' hl => trivial
      | complete h => exact hs
      | next s' hip hl _ => exact ⟨by rw [hip]; exact hR1, by rw [hl]; exact hs.2⟩
      | jump t h => rw [hin] at h; cases h
      | alt sec h => rw [hin] at h; cases h

end


/-! ## Costs per nesting level -/

/-- Ticks a state can still cause in a run at look-around nesting level `e`. -/
def lcost (prog : Prog) (L e : Nat) (fwd : Bool) (s : State) : Nat :=
  rcost prog L fwd s * lookK prog L ^ (lookDepth prog - e)

/-- The potential of a state stack at nesting level `e`. -/
def lcostSum (prog : Prog) (L e : Nat) (fwd : Bool) (states : Array State) : Nat :=
  (states.toList.map (lcost prog L e fwd)).sum

theorem lcostSum_push (prog : Prog) (L e : Nat) (fwd : Bool) (states : Array State) (s : State) :
    lcostSum prog L e fwd (states.push s) = lcostSum prog L e fwd states + lcost prog L e fwd s := by
  simp [lcostSum, List.sum_append]

theorem lookK_pow_pos (prog : Prog) (L n : Nat) : 1 ≤ lookK prog L ^ n :=
  Nat.one_le_pow _ _ (Nat.succ_pos _)

theorem lcost_pos (prog : Prog) (L e : Nat) (fwd : Bool) (s : State) : 1 ≤ lcost prog L e fwd s :=
  Nat.mul_pos (rcost_pos prog L fwd s) (lookK_pow_pos prog L _)

/-- `Outcome.within b`, and the matched state satisfies `P`. -/
def Outcome.Good (b : Nat) (P : State → Prop) : Outcome → Prop
  | .matched _ s st _ => st ≤ b ∧ P s
  | .failed st _ => st ≤ b
  | .outOfFuel => False
  | .error _ => True

theorem Outcome.Good.within {b : Nat} {P : State → Prop} {o : Outcome} (h : o.Good b P) :
    o.within b := by
  cases o with
  | matched p s st pk => exact h.1
  | failed st pk => exact h
  | outOfFuel => exact h
  | error e => trivial

theorem Outcome.Good.mono {a b : Nat} (hab : a ≤ b) {P : State → Prop} {o : Outcome}
    (h : o.Good a P) : o.Good b P := by
  cases o with
  | matched p s st pk => exact ⟨Nat.le_trans h.1 hab, h.2⟩
  | failed st pk => exact Nat.le_trans h hab
  | outOfFuel => exact h
  | error e => trivial

/-- What the termination argument needs from the nested-attempt runner: started inside any closed
region (at any level), it terminates within the level's cost of its start state and hands back a
state that differs from the start state only in the loop slots of the region's footprint. -/
def Runner.Good (prog : Prog) (inp : Input) (sf limit : Nat) (look : Runner) : Prop :=
  ∀ (R N L G : Nat → Bool) (e : Nat) (s0 : State) (dfwd : Bool) (st pk : Nat),
    Reg prog R N L G e → R s0.ip = true →
    lcost prog inp.bytes.size e dfwd s0 + 1 ≤ sf →
    st + lcost prog inp.bytes.size e dfwd s0 ≤ limit →
    (look s0 dfwd st pk).Good (st + lcost prog inp.bytes.size e dfwd s0)
      (fun s' => FootL L s0.loops s'.loops)

/-- A nested run one level deeper costs less than one unit of this level's factor. -/
theorem nested_le (prog : Prog) (L : Nat) {e : Nat} (he : e + 1 ≤ lookDepth prog) (dfwd : Bool)
    (s0 : State) :
    lcost prog L (e + 1) dfwd s0 + 1 ≤ lookK prog L ^ (lookDepth prog - e) := by
  have hsplit : lookDepth prog - e = (lookDepth prog - (e + 1)) + 1 := by omega
  rw [hsplit, Nat.pow_succ]
  unfold lcost rcost
  have hr : 3 ^ rank prog L dfwd s0 ≤ 3 ^ rankBound prog L :=
    Nat.pow_le_pow_right (by omega) (Nat.le_of_lt (rank_lt_bound _ _ _ _))
  have hM := lookK_pow_pos prog L (lookDepth prog - (e + 1))
  generalize lookK prog L ^ (lookDepth prog - (e + 1)) = M' at hM ⊢
  have := Nat.mul_le_mul_right M' hr
  unfold lookK
  rw [Nat.mul_add, Nat.mul_one, Nat.mul_comm M' (3 ^ rankBound prog L)]
  omega

section
variable {prog : Prog} {inp : Input} {fwd : Bool}

theorem ok_fail_look {e : Nat} {s s' : State} {steps st2 peak nb : Nat}
    (hnb : nb + 1 ≤ lookK prog inp.bytes.size ^ (lookDepth prog - e)) (hst : st2 ≤ steps + nb) :
    (SM.fail s' st2 peak).Ok (lcost prog inp.bytes.size e fwd) steps
      (lcost prog inp.bytes.size e fwd s) := by
  have h1 : lookK prog inp.bytes.size ^ (lookDepth prog - e) ≤ lcost prog inp.bytes.size e fwd s :=
    Nat.le_mul_of_pos_left _ (rcost_pos _ _ _ _)
  simp only [SM.Ok]; omega

theorem ok_cont_look {e : Nat} {s s'' : State} {steps st2 peak nb : Nat}
    (hr : rank prog inp.bytes.size fwd s'' < rank prog inp.bytes.size fwd s)
    (hnb : nb + 1 ≤ lookK prog inp.bytes.size ^ (lookDepth prog - e)) (hst : st2 ≤ steps + nb) :
    (SM.cont s'' st2 peak).Ok (lcost prog inp.bytes.size e fwd) steps
      (lcost prog inp.bytes.size e fwd s) := by
  have h3 := pow3_step hr hr
  have ha : 1 ≤ 3 ^ rank prog inp.bytes.size fwd s'' := Nat.one_le_pow _ _ (by omega)
  simp only [SM.Ok, lcost, rcost]
  generalize lookK prog inp.bytes.size ^ (lookDepth prog - e) = M at hnb ⊢
  generalize 3 ^ rank prog inp.bytes.size fwd s'' = a at h3 ha ⊢
  generalize 3 ^ rank prog inp.bytes.size fwd s = c at h3 ⊢
  have h4 := Nat.mul_le_mul_right M (show a + a + 1 ≤ c from h3)
  have h5 := Nat.mul_le_mul_right M ha
  rw [Nat.add_mul, Nat.add_mul, Nat.one_mul] at h4
  rw [Nat.one_mul] at h5
  omega

/-- The continuation of a look-around has a smaller rank than the state at the look-around, if the
nested run changed only loop slots of loops inside the body. -/
theorem rank_look (hf : LoopFacts prog) {s : State} {i : Insn} {sg eg k : Nat}
    (hin : prog.insns[s.ip]? = some i) (_hlk : lookOf i = some (sg, eg, k)) (hjk : s.ip < k)
    {loops' : Array LoopData} (hfoot : FootL (bodyLoop prog s.ip k) s.loops loops')
    (s'' : State) (hpos : s''.pos = s.pos) (hip : s''.ip = k) (hl : s''.loops = loops') :
    rank prog inp.bytes.size fwd s'' < rank prog inp.bytes.size fwd s := by
  have hlt := lt_size_of_getElem? hin
  apply rank_lt_of_le hpos (by omega) hlt
  intro j ij hj
  rw [hpos, hip, hl]
  cases ij with
  | enterLoop id mn mx g exit =>
    by_cases hle : s.ip ≤ j
    · calc digit j (Insn.enterLoop id mn mx g exit) k s.pos loops'
          ≤ digitMax (Insn.enterLoop id mn mx g exit) := digit_le_max _ _ _ _ _
        _ = digit j (Insn.enterLoop id mn mx g exit) s.ip s.pos s.loops := by
            simp [digit, digitMax, hle]
    · have hb : bodyLoop prog s.ip k id = false := by
        cases h : bodyLoop prog s.ip k id with
        | false => rfl
        | true =>
          exfalso
          obtain ⟨j2, mn2, mx2, g2, e2, h1, _, hj2⟩ := bodyLoop_iff.mp h
          exact (hf.enter hj).2 j2 id mn2 mx2 g2 e2 hj2 (by omega) rfl
      have e := hfoot id hb
      have : digit j (Insn.enterLoop id mn mx g exit) k s.pos loops'
          = digit j (Insn.enterLoop id mn mx g exit) k s.pos s.loops := by
        simp only [digit, e]
      rw [this]
      exact digit_mono_ip j _ (by omega) _ _
  | _ => simp [digit]

theorem lookArm_ok3 (hf : LoopFacts prog) (hc : lookClosed prog = true) {R N L G : Nat → Bool}
    {base : Array LoopData} {e : Nat} (reg : Reg prog R N L G e) {look : Runner} {sf limit : Nat}
    (hlook : Runner.Good prog inp sf limit look) {s : State} {steps peak : Nat}
    {i : Insn} {sg eg k : Nat} (hin : prog.insns[s.ip]? = some i) (hlk : lookOf i = some (sg, eg, k))
    (hs : InR R L base s)
    (hsf : lcost prog inp.bytes.size e fwd s ≤ sf)
    (hlim : steps + lcost prog inp.bytes.size e fwd s ≤ limit + 1) (dirFwd negate : Bool) :
    (lookArm look dirFwd negate k s steps peak).Ok (lcost prog inp.bytes.size e fwd) steps
        (lcost prog inp.bytes.size e fwd s) ∧
      (lookArm look dirFwd negate k s steps peak).All (InR R L base) := by
  obtain ⟨hk, hD, regB⟩ := Reg.body hc reg hs.1 hin hlk
  have hRk : R k = true := insnIn_look hlk (reg.closed _ _ hs.1 hin)
  have hnb := nested_le prog inp.bytes.size hD dirFwd { s with ip := s.ip + 1 }
  have hM : lookK prog inp.bytes.size ^ (lookDepth prog - e) ≤ lcost prog inp.bytes.size e fwd s :=
    Nat.le_mul_of_pos_left _ (rcost_pos _ _ _ _)
  have hgood := hlook _ _ _ _ (e + 1) { s with ip := s.ip + 1 } dirFwd steps peak regB
    (by simp [inBody]; omega) (by omega) (by omega)
  -- footprints compose
  have hcomp : ∀ loops', FootL (bodyLoop prog s.ip k) s.loops loops' → FootL L base loops' := by
    intro loops' h id hid
    have hb : bodyLoop prog s.ip k id = false := by
      cases h' : bodyLoop prog s.ip k id with
      | false => rfl
      | true => rw [reg.sub _ _ _ _ _ id hs.1 hin hlk h'] at hid; cases hid
    rw [h id hb]
    exact hs.2 id hid
  unfold lookArm
  simp only []
  cases hr : look { s with ip := s.ip + 1 } dirFwd steps peak with
  | error e => exact ⟨trivial, trivial⟩
  | outOfFuel => rw [hr] at hgood; exact hgood.elim
  | matched p s' st2 pk2 =>
    rw [hr] at hgood
    obtain ⟨hst, hfoot⟩ := hgood
    simp only [] at hfoot
    cases negate with
    | false =>
      simp only [bne_iff_ne, ne_eq, Bool.true_eq_false, not_false_eq_true, if_true]
      exact ⟨ok_cont_look (rank_look hf hin hlk (by omega) hfoot _ rfl rfl rfl) hnb (by omega),
        hRk, hcomp _ hfoot⟩
    | true =>
      simp only [bne_self_eq_false, Bool.false_eq_true, if_false]
      exact ⟨ok_fail_look hnb (by omega), trivial⟩
  | failed st2 pk2 =>
    rw [hr] at hgood
    simp only [Outcome.Good] at hgood
    cases negate with
    | true =>
      simp only [bne_iff_ne, ne_eq, Bool.false_eq_true, not_false_eq_true, if_true]
      exact ⟨ok_cont_look (rank_look hf hin hlk (by omega) (FootL.refl _ _) _ rfl rfl rfl) hnb
        (by omega), hRk, hs.2⟩
    | false =>
      simp only [bne_self_eq_false, Bool.false_eq_true, if_false]
      exact ⟨ok_fail_look hnb (by omega), trivial⟩

/-- One tick of a run at level `e` inside the region `R`. -/
theorem tryMatchState_tick (hf : lookLoopProg prog = true) (hl1 : loop1Scm prog = true)
    {R N L G : Nat → Bool} {base : Array LoopData} {e : Nat} (reg : Reg prog R N L G e)
    {look : Runner} {sf limit : Nat} (hlook : Runner.Good prog inp sf limit look)
    (d : Nat) (s : State) (steps peak : Nat) (hs : InR R L base s)
    (hsf : lcost prog inp.bytes.size e fwd s ≤ sf)
    (hlim : steps + lcost prog inp.bytes.size e fwd s ≤ limit + 1) :
    (tryMatchState prog inp look d s fwd steps peak).Ok (lcost prog inp.bytes.size e fwd) steps
        (lcost prog inp.bytes.size e fwd s) ∧
      (tryMatchState prog inp look d s fwd steps peak).All (InR R L base) := by
  have facts := lookLoopProg_facts hf
  have hc := lookLoopProg_closed hf
  cases hin : prog.insns[s.ip]? with
  | none =>
    cases d <;> simp [tryMatchState, hin, SM.Ok, SM.All]
  | some i =>
    cases hlk : lookOf i with
    | none =>
      refine ⟨?_, tryMatchState_inv hl1 look d s steps peak hin hlk (reg.closed _ _ hs.1 hin) hs⟩
      exact (tryMatchState_ok3 facts hl1 look d s steps peak hin hlk).scale (lookK_pow_pos _ _ _)
    | some t =>
      obtain ⟨sg, eg, k⟩ := t
      cases d with
      | zero => simp [tryMatchState, SM.Ok, SM.All]
      | succ d =>
        cases i <;> simp only [lookOf, Option.some.injEq, Prod.mk.injEq, reduceCtorEq] at hlk
        all_goals
          obtain ⟨rfl, rfl, rfl⟩ := hlk
          unfold tryMatchState
          simp only [hin]
          exact lookArm_ok3 facts hc reg hlook hin rfl hs hsf hlim _ _

end


/-! ## The main induction -/

/-- **General form.** A run whose stack consists of states inside a closed region `R` (nesting level
`e`, footprint `L` relative to `base`) terminates within `steps + lcostSum` ticks, and a matched state
still differs from `base` only in the loop slots `L`. -/
theorem runStates_region (prog : Prog) (hf : lookLoopProg prog = true)
    (hl1 : loop1Scm prog = true) (inp : Input) (limit : Nat) :
    ∀ (sf : Nat) (R N L G : Nat → Bool) (e : Nat) (base : Array LoopData) (states : Array State)
      (fwd : Bool) (steps peak : Nat),
      Reg prog R N L G e → (∀ s ∈ states, InR R L base s) →
      lcostSum prog inp.bytes.size e fwd states + 1 ≤ sf →
      steps + lcostSum prog inp.bytes.size e fwd states ≤ limit →
      (runStates prog inp limit sf states fwd steps peak).Good
        (steps + lcostSum prog inp.bytes.size e fwd states) (fun s' => FootL L base s'.loops) := by
  intro sf
  induction sf with
  | zero => intro R N L G e base states fwd steps peak _ _ h1 _; omega
  | succ sf ih =>
    intro R N L G e base states fwd steps peak reg hall h1 h2
    simp only [runStates]
    cases hb : states.back? with
    | none => simp only [Outcome.Good]; omega
    | some s =>
      obtain ⟨rest, rfl⟩ := Array.back?_eq_some_iff.mp hb
      rw [lcostSum_push] at h1 h2 ⊢
      have hc := lcost_pos prog inp.bytes.size e fwd s
      have hs : InR R L base s := hall s Array.mem_push_self
      have hrest : ∀ x ∈ rest, InR R L base x := fun x hx => hall x (Array.mem_push_of_mem _ hx)
      simp only []
      have hlim : ¬ steps ≥ limit := by omega
      simp only [hlim, if_false]
      generalize (if peak < (rest.push s).size then (rest.push s).size else peak) = peak1
      have hlook : Runner.Good prog inp sf limit
          (fun s0 dirFwd steps peak => runStates prog inp limit sf #[s0] dirFwd steps peak) := by
        intro R' N' L' G' e' s0 dfwd st pk reg' hR' hh1 hh2
        have e1 : lcostSum prog inp.bytes.size e' dfwd #[s0] = lcost prog inp.bytes.size e' dfwd s0 := by
          simp [lcostSum]
        have := ih R' N' L' G' e' s0.loops #[s0] dfwd st pk reg'
          (by intro x hx; simp at hx; subst hx; exact ⟨hR', FootL.refl _ _⟩)
          (by rw [e1]; exact hh1) (by rw [e1]; exact hh2)
        rw [e1] at this
        exact this
      obtain ⟨hok, hinv⟩ := tryMatchState_tick (inp := inp) (fwd := fwd) hf hl1 reg hlook
        (prog.insns.size + 1) s (steps + 1) peak1 hs (by omega) (by omega)
      cases hr : tryMatchState prog inp
          (fun s0 dirFwd steps peak => runStates prog inp limit sf #[s0] dirFwd steps peak)
          (prog.insns.size + 1) s fwd (steps + 1) peak1 with
      | err e => simp [Outcome.Good]
      | outOfFuel => rw [hr] at hok; exact hok
      | complete s2 st2 pk2 =>
        rw [hr] at hok hinv; simp only [SM.Ok] at hok
        exact ⟨by omega, hinv.2⟩
      | fail s2 st2 pk2 =>
        rw [hr] at hok; simp only [SM.Ok] at hok
        simp only [Array.pop_push]
        exact Outcome.Good.mono (by omega)
          (ih R N L G e base rest fwd st2 pk2 reg hrest (by omega) (by omega))
      | cont s2 st2 pk2 =>
        rw [hr] at hok hinv; simp only [SM.Ok] at hok
        simp only [Array.pop_push]
        have := ih R N L G e base (rest.push s2) fwd st2 pk2 reg
          (by
            intro x hx
            rcases Array.mem_push.mp hx with hx | rfl
            · exact hrest x hx
            · exact hinv)
          (by rw [lcostSum_push]; omega) (by rw [lcostSum_push]; omega)
        rw [lcostSum_push] at this
        exact Outcome.Good.mono (by omega) this
      | split s2 new st2 pk2 =>
        rw [hr] at hok hinv; simp only [SM.Ok] at hok
        simp only [Array.pop_push]
        have := ih R N L G e base ((rest.push s2).push new) fwd st2 pk2 reg
          (by
            intro x hx
            rcases Array.mem_push.mp hx with hx | rfl
            · rcases Array.mem_push.mp hx with hx | rfl
              · exact hrest x hx
              · exact hinv.1
            · exact hinv.2)
          (by rw [lcostSum_push, lcostSum_push]; omega) (by rw [lcostSum_push, lcostSum_push]; omega)
        rw [lcostSum_push, lcostSum_push] at this
        exact Outcome.Good.mono (by omega) this

/-- **Top level, any state stack**: the potential is `Σ 3 ^ rank s * (3 ^ rankBound + 1) ^ lookDepth`. -/
theorem runStates_terminates3 (prog : Prog) (hf : lookLoopProg prog = true)
    (hl1 : loop1Scm prog = true) (inp : Input) (limit sf : Nat) (states : Array State) (fwd : Bool)
    (steps peak : Nat)
    (h1 : lcostSum prog inp.bytes.size 0 fwd states + 1 ≤ sf)
    (h2 : steps + lcostSum prog inp.bytes.size 0 fwd states ≤ limit) :
    (runStates prog inp limit sf states fwd steps peak).within
      (steps + lcostSum prog inp.bytes.size 0 fwd states) :=
  (runStates_region prog hf hl1 inp limit sf allT allT allT allT 0 #[] states fwd steps peak
    (Reg.top prog) (fun _ _ => ⟨rfl, fun _ h => by simp [allT] at h⟩) h1 h2).within

theorem lcost_le_lookBound (prog : Prog) (L : Nat) (fwd : Bool) (s : State) :
    lcost prog L 0 fwd s ≤ lookBound prog L := by
  unfold lcost lookBound rcost
  rw [Nat.sub_zero, Nat.pow_succ, Nat.mul_comm (lookK prog L ^ lookDepth prog)]
  apply Nat.mul_le_mul_right
  have : 3 ^ rank prog L fwd s ≤ 3 ^ rankBound prog L :=
    Nat.pow_le_pow_right (by omega) (Nat.le_of_lt (rank_lt_bound _ _ _ _))
  unfold lookK
  omega

/-- Explicit tick bound for one attempt on a program with loops and look-arounds:
`(3 ^ rankBound prog L + 1) ^ (lookDepth prog + 1)`. -/
theorem tryAtPos_terminates3 (prog : Prog) (hf : lookLoopProg prog = true)
    (hl1 : loop1Scm prog = true) (inp : Input) (fuel : Nat) (init : State) (fwd : Bool)
    (h : lookBound prog inp.bytes.size ≤ fuel) :
    (tryAtPos prog inp fuel init fwd).within (lookBound prog inp.bytes.size) := by
  have e : lcostSum prog inp.bytes.size 0 fwd #[init] = lcost prog inp.bytes.size 0 fwd init := by
    simp [lcostSum]
  have hc := lcost_le_lookBound prog inp.bytes.size fwd init
  have := runStates_terminates3 prog hf hl1 inp fuel (fuel + 1) #[init] fwd 0 0
    (by rw [e]; omega) (by rw [e]; omega)
  rw [e] at this
  exact Outcome.within_mono (by omega) this

theorem attempt_terminates3 (prog : Prog) (hf : lookLoopProg prog = true)
    (hl1 : loop1Scm prog = true) (inp : Input) (fuel pos : Nat)
    (h : lookBound prog inp.bytes.size ≤ fuel) :
    (attempt prog inp fuel pos).within (lookBound prog inp.bytes.size) :=
  tryAtPos_terminates3 prog hf hl1 inp fuel _ true h

end Regress.VM.Pk

/-! ## Non-vacuity: programs emitted by the real compiler (`rvharness probe` dumps) -/
namespace Regress.VM.Pk.LookExamples

/-- The bytes of `\w`. -/
def wordBytes : List Nat :=
  [0x30, 0x31, 0x32, 0x33, 0x34, 0x35, 0x36, 0x37, 0x38, 0x39, 0x41, 0x42, 0x43, 0x44, 0x45, 0x46, 0x47,
   0x48, 0x49, 0x4a, 0x4b, 0x4c, 0x4d, 0x4e, 0x4f, 0x50, 0x51, 0x52, 0x53, 0x54, 0x55, 0x56, 0x57, 0x58,
   0x59, 0x5a, 0x5f, 0x61, 0x62, 0x63, 0x64, 0x65, 0x66, 0x67, 0x68, 0x69, 0x6a, 0x6b, 0x6c, 0x6d, 0x6e,
   0x6f, 0x70, 0x71, 0x72, 0x73, 0x74, 0x75, 0x76, 0x77, 0x78, 0x79, 0x7a]

/-- `(?:(?=(?:ab|c)*d)\w)+`: a loop inside a look-ahead inside a loop. -/
def progLoopInLookInLoop : Prog :=
  { insns := #[.enterLoop 0 1 none true 12, .lookahead false 0 0 10, .enterLoop 1 0 none true 8, .alt 6,
               .byteSeq [0x61, 0x62], .jump 7, .byteSeq [0x63], .loopAgain 2, .byteSeq [0x64], .goal,
               .asciiBracket wordBytes, .loopAgain 0, .goal],
    brackets := #[], loops := 2, groups := 0, flags := {}, names := [], startPred := .set wordBytes }

/-- `(?<=a+)b`: a look-behind with a `loop1`. -/
def progBehindLoop1 : Prog :=
  { insns := #[.lookbehind false 0 0 5, .byteSeq [0x61], .loop1 0 none true, .byteSeq [0x61], .goal,
               .byteSeq [0x62], .goal],
    brackets := #[], loops := 0, groups := 0, flags := {}, names := [], startPred := .set [0x62] }

/-- `(?=a(?!b(?<=ab)))`: look-arounds nested three deep. -/
def progNested : Prog :=
  { insns := #[.lookahead false 0 0 9, .byteSeq [0x61], .lookahead true 0 0 8, .byteSeq [0x62],
               .lookbehind false 0 0 7, .byteSeq [0x61, 0x62], .goal, .goal, .goal, .goal],
    brackets := #[], loops := 0, groups := 0, flags := {}, names := [], startPred := .arbitrary }

/-- `(?:(?<=(?:x(?=y)){2,})z)*`: loop ⊃ look-behind ⊃ (unrolled) loop ⊃ look-ahead. -/
def progDeep : Prog :=
  { insns := #[.enterLoop 0 0 none true 19, .lookbehind false 0 0 17, .lookahead false 0 0 5,
               .byteSeq [0x79], .goal, .byteSeq [0x78], .lookahead false 0 0 9, .byteSeq [0x79], .goal,
               .byteSeq [0x78], .enterLoop 1 0 none true 16, .lookahead false 0 0 14, .byteSeq [0x79],
               .goal, .byteSeq [0x78], .loopAgain 10, .goal, .byteSeq [0x7a], .loopAgain 0, .goal],
    brackets := #[], loops := 2, groups := 0, flags := {}, names := [], startPred := .arbitrary }

/-- `Regress.C02.progLookInLoop`, `/(?:(?=(a|b)c)\1.)+/`. -/
def progLookInLoop : Prog :=
  { insns := #[.enterLoop 0 1 none true 14, .resetCaptureGroup 0, .lookahead false 0 1 11,
               .beginCaptureGroup 0, .alt 7, .byteSeq [0x61], .jump 8, .byteSeq [0x62], .endCaptureGroup 0,
               .byteSeq [0x63], .goal, .backRef 0 false, .matchAnyExceptLineTerminator, .loopAgain 0, .goal],
    brackets := #[], loops := 1, groups := 1, flags := {}, names := [], startPred := .arbitrary }

/-- `Regress.C02.progLookBehind`, `/(?<=(a))b|(?!ab)(a)b/`. -/
def progLookBehind : Prog :=
  { insns := #[.alt 8, .lookbehind false 0 1 6, .beginCaptureGroup 0, .byteSeq [0x61], .endCaptureGroup 0,
               .goal, .byteSeq [0x62], .jump 15, .lookahead true 1 1 11, .byteSeq [0x61, 0x62], .goal,
               .beginCaptureGroup 1, .byteSeq [0x61], .endCaptureGroup 1, .byteSeq [0x62], .goal],
    brackets := #[], loops := 0, groups := 2, flags := {}, names := [], startPred := .set [0x61, 0x62] }

/-- `Regress.C02.progLookLoop`, `/(?=(?:ab|c)*)c/`. -/
def progLookLoop : Prog :=
  { insns := #[.lookahead false 0 0 8, .enterLoop 0 0 none true 7, .alt 5, .byteSeq [0x61, 0x62],
               .jump 6, .byteSeq [0x63], .loopAgain 1, .goal, .byteSeq [0x63], .goal],
    brackets := #[], loops := 1, groups := 0, flags := {}, names := [], startPred := .set [0x63] }

/-- `Regress.C02.progLookGroup`, `/(?:(?=(a+?))a)*c/`. -/
def progLookGroup : Prog :=
  { insns := #[.enterLoop 0 0 none true 11, .resetCaptureGroup 0, .lookahead false 0 1 9,
               .beginCaptureGroup 0, .byteSeq [0x61], .loop1 0 none false, .byteSeq [0x61],
               .endCaptureGroup 0, .goal, .byteSeq [0x61], .loopAgain 0, .byteSeq [0x63], .goal],
    brackets := #[], loops := 1, groups := 1, flags := {}, names := [], startPred := .arbitrary }

/-- `Regress.C05.progLookLoop1`, `(?=(a))a*b|c`. -/
def progLookLoop1 : Prog :=
  { insns := #[.alt 10, .lookahead false 0 1 6, .beginCaptureGroup 0, .byteSeq [0x61],
               .endCaptureGroup 0, .goal, .loop1 0 none true, .byteSeq [0x61], .byteSeq [0x62],
               .jump 11, .byteSeq [0x63], .goal],
    brackets := #[], loops := 0, groups := 1, flags := {}, names := [], startPred := .arbitrary }

/-- `Regress.C05.progLookbehind`, `(?<!b)a+?b`. -/
def progLookbehind : Prog :=
  { insns := #[.lookbehind true 0 0 3, .byteSeq [0x62], .goal, .byteSeq [0x61],
               .loop1 0 none false, .byteSeq [0x61], .byteSeq [0x62], .goal],
    brackets := #[], loops := 0, groups := 0, flags := {}, names := [], startPred := .set [0x61] }

def inpAbcd : Input := { kind := .utf8, bytes := #[0x61, 0x62, 0x63, 0x64], unicode := false }
def inpAab : Input := { kind := .utf8, bytes := #[0x61, 0x61, 0x62], unicode := false }
def inpXyz : Input := { kind := .utf8, bytes := #[0x78, 0x79, 0x78, 0x79, 0x7a, 0x7a], unicode := false }

/-- The hypotheses hold (and `loopProg` does not), with the nesting depths. -/
example : lookLoopProg progLoopInLookInLoop = true ∧ loop1Scm progLoopInLookInLoop = true ∧
    loopProg progLoopInLookInLoop = false ∧ lookDepth progLoopInLookInLoop = 1 := by decide +kernel
example : lookLoopProg progBehindLoop1 = true ∧ loop1Scm progBehindLoop1 = true ∧
    lookDepth progBehindLoop1 = 1 := by decide +kernel
example : lookLoopProg progNested = true ∧ loop1Scm progNested = true ∧
    lookDepth progNested = 3 := by decide +kernel
example : lookLoopProg progDeep = true ∧ loop1Scm progDeep = true ∧
    loopProg progDeep = false ∧ lookDepth progDeep = 2 := by decide +kernel
example : lookLoopProg progLookInLoop = true ∧ loop1Scm progLookInLoop = true ∧
    lookDepth progLookInLoop = 1 := by decide +kernel
example : lookLoopProg progLookBehind = true ∧ loop1Scm progLookBehind = true ∧
    lookDepth progLookBehind = 1 := by decide +kernel
example : lookLoopProg progLookLoop = true ∧ loop1Scm progLookLoop = true ∧
    lookDepth progLookLoop = 1 := by decide +kernel
example : lookLoopProg progLookGroup = true ∧ loop1Scm progLookGroup = true ∧
    lookDepth progLookGroup = 1 := by decide +kernel
example : lookLoopProg progLookLoop1 = true ∧ loop1Scm progLookLoop1 = true ∧
    lookDepth progLookLoop1 = 1 := by decide +kernel
example : lookLoopProg progLookbehind = true ∧ loop1Scm progLookbehind = true ∧
    lookDepth progLookbehind = 1 := by decide +kernel
/-- A program without look-arounds (`Regress.C05.progLoop`, `(a|b)*c`) has depth 0: `loopProg` holds,
hence `lookLoopProg` (`loopProg_lookLoopProg`), and the bound is `3 ^ rankBound + 1`. -/
def progLoop : Prog :=
  { insns := #[.enterLoop 0 0 none true 9, .resetCaptureGroup 0, .beginCaptureGroup 0, .alt 6,
               .byteSeq [0x61], .jump 7, .byteSeq [0x62], .endCaptureGroup 0, .loopAgain 0,
               .byteSeq [0x63], .goal],
    brackets := #[], loops := 1, groups := 1, flags := {}, names := [], startPred := .arbitrary }
example : loopProg progLoop = true ∧ lookLoopProg progLoop = true ∧ lookDepth progLoop = 0 := by
  decide +kernel
example (L : Nat) : lookBound progLoop L = 3 ^ rankBound progLoop L + 1 := by
  have : lookDepth progLoop = 0 := by decide +kernel
  simp [lookBound, lookK, this]

/-- Concrete attempts (the real engine finds the same matches `0..1`, `2..4`; `2..3`; `0..0`; `4..4`). -/
example : (attempt progLoopInLookInLoop inpAbcd 100 0).summary = .matched 1 25 6 ∧
    (attempt progLoopInLookInLoop inpAbcd 100 2).summary = .matched 4 30 4 ∧
    (attempt progLoopInLookInLoop inpAbcd 20 0).summary = .outOfFuel := by
  refine ⟨?_, ?_, ?_⟩ <;> decide +kernel
example : (attempt progBehindLoop1 inpAab 100 2).summary = .matched 3 7 2 ∧
    (attempt progNested inpAbcd 100 0).summary = .failed 8 1 ∧
    (attempt progNested inpAab 100 0).summary = .matched 0 6 1 ∧
    (attempt progDeep inpXyz 100 4).summary = .matched 4 5 2 := by
  refine ⟨?_, ?_, ?_, ?_⟩ <;> decide +kernel

/-- The theorem applied: every attempt of the loop-in-look-ahead-in-loop program terminates within
`lookBound` ticks. -/
example (inp : Input) (fuel pos : Nat)
    (h : lookBound progLoopInLookInLoop inp.bytes.size ≤ fuel) :
    (attempt progLoopInLookInLoop inp fuel pos).within (lookBound progLoopInLookInLoop inp.bytes.size) :=
  attempt_terminates3 _ (by decide +kernel) (by decide +kernel) inp fuel pos h

end Regress.VM.Pk.LookExamples

#print axioms Regress.VM.Pk.runStates_region
#print axioms Regress.VM.Pk.runStates_terminates3
#print axioms Regress.VM.Pk.tryAtPos_terminates3
#print axioms Regress.VM.Pk.attempt_terminates3
#print axioms Regress.VM.Pk.loopProg_lookLoopProg
