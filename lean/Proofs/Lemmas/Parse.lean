import RegressModel.Syntax.Parse
/-!
# Helper lemmas about the parser model: the capture-group pre-scan terminates within its fuel

`scanLoop_ok`: with fuel `> input.length` the pre-scan loop never runs out of fuel (and has no other
panic site), hence `parseCaptureGroups` returns `Ok` or a syntax error (`parseCaptureGroups_cases`).
-/
namespace Regress.Parse

theorem scanBrace_length {inp acc s rest} (h : scanBrace inp acc = some (s, rest)) :
    rest.length < inp.length := by
  induction inp generalizing acc with
  | nil => simp [scanBrace] at h
  | cons c tl ih =>
    unfold scanBrace at h
    split at h
    · cases h
    · split at h
      · cases h; simp
      · have := ih h; simp; omega

theorem take4_length {inp s rest} (h : take4 inp = some (s, rest)) : rest.length + 4 = inp.length := by
  unfold take4 at h
  split at h
  · split at h
    · cases h; simp
    · cases h
  · cases h

theorem tryEscapeUnicodeSequence_length (inp : List Nat) :
    (tryEscapeUnicodeSequence inp).2.length ≤ inp.length := by
  unfold tryEscapeUnicodeSequence
  split
  · split
    · simp
    · rename_i h
      have := scanBrace_length h
      split
      · split <;> simp at * <;> omega
      · simp
  · split
    · simp
    · rename_i h
      have h4 := take4_length h
      split
      · simp
      · split
        · split
          · split
            · simp at *; omega
            · rename_i h2
              have h42 := take4_length h2
              split
              · simp at *; omega
              · split <;> simp at * <;> omega
          · simp; omega
        · simp; omega

theorem nameChar_length {inp c rest} (h : nameChar inp = some (c, rest)) :
    rest.length < inp.length := by
  unfold nameChar at h
  split at h
  · cases h
  · split at h
    · cases h
    · split at h
      · split at h
        · rename_i rest2
          have := tryEscapeUnicodeSequence_length rest2
          split at h
          · rename_i e rest3 heq
            rw [heq] at this
            split at h
            · cases h; simp at *; omega
            · cases h
          · cases h
        · cases h; simp
      · cases h; simp

theorem nameLoop_ok (fuel : Nat) (inp acc orig : List Nat) (hf : inp.length < fuel)
    (hi : inp.length ≤ orig.length) :
    ∃ r rest, nameLoop fuel inp acc orig = .ok (r, rest) ∧ rest.length ≤ orig.length := by
  induction fuel generalizing inp acc with
  | zero => omega
  | succ fuel ih =>
    unfold nameLoop
    split
    · exact ⟨_, _, rfl, Nat.le_refl _⟩
    · rename_i c0 rest0
      split
      · exact ⟨_, _, rfl, by simp only [List.length_cons] at hi; omega⟩
      · split
        · exact ⟨_, _, rfl, Nat.le_refl _⟩
        · rename_i c rest h
          have hl := nameChar_length h
          split
          · exact ih rest _ (by omega) (by omega)
          · exact ⟨_, _, rfl, Nat.le_refl _⟩

theorem tryConsumeName_ok (inp : List Nat) :
    ∃ r rest, tryConsumeName inp = .ok (r, rest) ∧ rest.length ≤ inp.length := by
  unfold tryConsumeName
  split
  · rename_i orig
    split
    · exact ⟨_, _, rfl, by simp⟩
    · rename_i c rest h
      have hl := nameChar_length h
      split
      · obtain ⟨r, rest', h1, h2⟩ := nameLoop_ok (rest.length + 1) rest [c] orig (by omega) (by omega)
        exact ⟨r, rest', h1, by simp; omega⟩
      · exact ⟨_, _, rfl, by simp⟩
  · exact ⟨_, _, rfl, Nat.le_refl _⟩

theorem skipBracket_length (inp : List Nat) : (skipBracket inp).length ≤ inp.length := by
  fun_induction skipBracket inp <;> simp at * <;> omega

theorem skipBracketV_length (inp : List Nat) (d : Nat) : (skipBracketV inp d).length ≤ inp.length := by
  fun_induction skipBracketV inp d <;> simp at * <;> omega

theorem scanLoop_ok (fl : IR.Flags) (fuel : Nat) (inp : List Nat) (sc : Scan)
    (hf : inp.length < fuel) : ∃ sc', scanLoop fl fuel inp sc = .ok sc' := by
  induction fuel generalizing inp sc with
  | zero => omega
  | succ fuel ih =>
    unfold scanLoop
    split
    · exact ⟨_, rfl⟩
    · rename_i c rest
      simp only [List.length_cons] at hf
      split
      · exact ih _ _ (by simp; omega)
      · split
        · split
          · exact ih _ _ (by have := skipBracketV_length rest 1; omega)
          · exact ih _ _ (by have := skipBracket_length rest; omega)
        · split
          · split
            · rename_i rest2
              obtain ⟨r, rest3, h1, h2⟩ := tryConsumeName_ok rest2
              rw [h1]
              cases r <;> simp only <;> exact ih _ _ (by simp at *; omega)
            · simp only
              exact ih _ _ (by omega)
          · split
            · split <;> exact ih _ _ (by omega)
            · split <;> exact ih _ _ (by omega)

/-- The pre-scan returns `Ok` or a syntax error ("Duplicate capture group name"): it has no panic
site and never exhausts its fuel. -/
theorem parseCaptureGroups_cases (st : PState) :
    (∃ st', parseCaptureGroups st = .ok st') ∨ (∃ msg, parseCaptureGroups st = .error (.syntax msg)) := by
  unfold parseCaptureGroups
  obtain ⟨sc, h⟩ := scanLoop_ok st.flags (st.input.length + 1) st.input
    { named := st.named, gmax := st.groupCountMax } (by omega)
  rw [h]
  simp only
  split
  · exact Or.inr ⟨_, rfl⟩
  · exact Or.inl ⟨_, rfl⟩

end Regress.Parse
