import Proofs.Lemmas.RoundTripDefs
import Proofs.Lemmas.RoundTripAtoms
/-!
# Round trip, part 13: property escapes `\p{…}` / `\P{…}`

`propertyEscape_print`: `try_consume_unicode_property_escape` on the printed name is `Lower.lowerProp`;
`atom_prop`: the atom.
-/
namespace Regress.RoundTrip
open Regress Regress.IR Regress.Parse Regress.Lower Regress.Print

/-! ## The name tables (checked by evaluation) -/

theorem propName_gc : Props.propertyNameFromStr (Packed.nameOfBytes [0x67, 0x63]) = some 0 := by decide +kernel
theorem propName_sc : Props.propertyNameFromStr (Packed.nameOfBytes [0x73, 0x63]) = some 1 := by decide +kernel
theorem propName_scx : Props.propertyNameFromStr (Packed.nameOfBytes [0x73, 0x63, 0x78]) = some 2 := by
  decide +kernel

/-! ## The loop of `try_consume_unicode_property_escape` -/

def NameBytes (bs : List Nat) : Prop := ∀ b ∈ bs, (Props.isAsciiAlnum b || b == 0x5F) = true

theorem alnum_ne {b : Nat} (h : (Props.isAsciiAlnum b || b == 0x5F) = true) : b ≠ 0x7D ∧ b ≠ 0x3D := by
  simp only [Props.isAsciiAlnum, Bool.or_eq_true, Bool.and_eq_true, decide_eq_true_eq, beq_iff_eq] at h
  omega

theorem consumeEscapeLoop_bytes (us : Bool) : ∀ (bs : List Nat) (tl : List Nat) (buf : Nat) (nm : Option Nat),
    NameBytes bs →
    Props.consumeEscapeLoop us (bs ++ tl) buf nm =
      Props.consumeEscapeLoop us tl (bs.foldl (fun acc b => acc * 256 + b) buf) nm := by
  intro bs
  induction bs with
  | nil => intro tl buf nm _; rfl
  | cons b bs ih =>
    intro tl buf nm h
    have hb := h b (by simp)
    obtain ⟨h1, h2⟩ := alnum_ne hb
    have e1 : (b == 0x7D) = false := by simpa using h1
    have e2 : (b == 0x3D) = false := by simpa using h2
    simp only [List.cons_append, Props.consumeEscapeLoop, e1, e2, Bool.false_and, Bool.false_eq_true, if_false,
      hb, if_true, List.foldl_cons]
    exact ih tl _ nm (fun c hc => h c (by simp [hc]))

theorem consumeEscapeLoop_close (us : Bool) (rest : List Nat) (buf : Nat) (nm : Option Nat) :
    Props.consumeEscapeLoop us (0x7D :: rest) buf nm =
      (match Props.propertyFromStr buf nm us with
       | some k => some (k, rest)
       | none => none) := by
  simp only [Props.consumeEscapeLoop, show ((0x7D : Nat) == 0x7D) = true from rfl, if_true]
  cases Props.propertyFromStr buf nm us <;> rfl

theorem nameBytes_fold {name : Nat} (h : propNameOK name = true) :
    (nameBytes name).foldl (fun acc b => acc * 256 + b) 1 = name ∧ NameBytes (nameBytes name) := by
  simp only [propNameOK, Bool.and_eq_true, beq_iff_eq, List.all_eq_true] at h
  exact ⟨h.1, h.2⟩

/-- The printed property name is looked up like `lowerProp` does. -/
theorem consumePropertyEscape_print (us : Bool) {kind name : Nat} {nm : Option Nat} (rest : List Nat)
    (hk : propName kind = some nm) (hn : propNameOK name = true) :
    Props.consumePropertyEscape us ([0x7B] ++ propPrefix kind ++ nameBytes name ++ [0x7D] ++ rest) =
      (match Props.propertyFromStr name nm us with
       | some k => some (k, rest)
       | none => none) := by
  obtain ⟨hfold, hbytes⟩ := nameBytes_fold hn
  simp only [Props.consumePropertyEscape, List.cons_append, List.nil_append, List.append_assoc]
  match kind, hk with
  | 0, hk =>
    simp only [propName, Option.some.injEq] at hk
    subst hk
    simp only [propPrefix, List.nil_append]
    rw [consumeEscapeLoop_bytes us _ _ _ _ hbytes, hfold, consumeEscapeLoop_close]
  | 1, hk =>
    simp only [propName, Option.some.injEq] at hk
    subst hk
    have h0 := propName_gc
    simp only [Packed.nameOfBytes, List.foldl_cons, List.foldl_nil] at h0
    simp only [propPrefix, List.cons_append, List.nil_append, Props.consumeEscapeLoop,
      show ((0x67 : Nat) == 0x7D) = false from rfl, show ((0x67 : Nat) == 0x3D) = false from rfl,
      show ((0x63 : Nat) == 0x7D) = false from rfl, show ((0x63 : Nat) == 0x3D) = false from rfl,
      show ((0x3D : Nat) == 0x7D) = false from rfl, show ((0x3D : Nat) == 0x3D) = true from rfl,
      show (Props.isAsciiAlnum 0x67 || (0x67 : Nat) == 0x5F) = true from rfl,
      show (Props.isAsciiAlnum 0x63 || (0x63 : Nat) == 0x5F) = true from rfl,
      Bool.false_and, Bool.false_eq_true, if_false, if_true, Option.isNone_none, Bool.true_and, h0]
    rw [consumeEscapeLoop_bytes us _ _ _ _ hbytes, hfold, consumeEscapeLoop_close]
  | 2, hk =>
    simp only [propName, Option.some.injEq] at hk
    subst hk
    have h0 := propName_sc
    simp only [Packed.nameOfBytes, List.foldl_cons, List.foldl_nil] at h0
    simp only [propPrefix, List.cons_append, List.nil_append, Props.consumeEscapeLoop,
      show ((0x73 : Nat) == 0x7D) = false from rfl, show ((0x73 : Nat) == 0x3D) = false from rfl,
      show ((0x63 : Nat) == 0x7D) = false from rfl, show ((0x63 : Nat) == 0x3D) = false from rfl,
      show ((0x3D : Nat) == 0x7D) = false from rfl, show ((0x3D : Nat) == 0x3D) = true from rfl,
      show (Props.isAsciiAlnum 0x73 || (0x73 : Nat) == 0x5F) = true from rfl,
      show (Props.isAsciiAlnum 0x63 || (0x63 : Nat) == 0x5F) = true from rfl,
      Bool.false_and, Bool.false_eq_true, if_false, if_true, Option.isNone_none, Bool.true_and, h0]
    rw [consumeEscapeLoop_bytes us _ _ _ _ hbytes, hfold, consumeEscapeLoop_close]
  | 3, hk =>
    simp only [propName, Option.some.injEq] at hk
    subst hk
    have h0 := propName_scx
    simp only [Packed.nameOfBytes, List.foldl_cons, List.foldl_nil] at h0
    simp only [propPrefix, List.cons_append, List.nil_append, Props.consumeEscapeLoop,
      show ((0x73 : Nat) == 0x7D) = false from rfl, show ((0x73 : Nat) == 0x3D) = false from rfl,
      show ((0x63 : Nat) == 0x7D) = false from rfl, show ((0x63 : Nat) == 0x3D) = false from rfl,
      show ((0x78 : Nat) == 0x7D) = false from rfl, show ((0x78 : Nat) == 0x3D) = false from rfl,
      show ((0x3D : Nat) == 0x7D) = false from rfl, show ((0x3D : Nat) == 0x3D) = true from rfl,
      show (Props.isAsciiAlnum 0x73 || (0x73 : Nat) == 0x5F) = true from rfl,
      show (Props.isAsciiAlnum 0x63 || (0x63 : Nat) == 0x5F) = true from rfl,
      show (Props.isAsciiAlnum 0x78 || (0x78 : Nat) == 0x5F) = true from rfl,
      Bool.false_and, Bool.false_eq_true, if_false, if_true, Option.isNone_none, Bool.true_and, h0]
    rw [consumeEscapeLoop_bytes us _ _ _ _ hbytes, hfold, consumeEscapeLoop_close]
  | k + 4, hk => simp [propName] at hk

/-- `try_consume_unicode_property_escape` on the printed text (after `\p` / `\P`) is `lowerProp`. -/
theorem propertyEscape_print (us : Bool) {kind name : Nat} {pk : PropKind} (rest : List Nat)
    (h : lowerProp us kind name = .ok pk) (hn : propNameOK name = true) :
    propertyEscape us ([0x7B] ++ propPrefix kind ++ nameBytes name ++ [0x7D] ++ rest) = .ok (pk, rest) := by
  unfold lowerProp at h
  cases hk : propName kind with
  | none => rw [hk] at h; cases h
  | some nm =>
    rw [hk] at h
    simp only at h
    unfold propertyEscape
    rw [consumePropertyEscape_print us rest hk hn]
    cases hp : Props.propertyFromStr name nm us with
    | none => rw [hp] at h; cases h
    | some k =>
      rw [hp] at h
      cases k with
      | charClass p len =>
        simp only [Except.ok.injEq] at h
        subst h
        rfl
      | stringSet idx =>
        simp only at h ⊢
        cases ht : Gen.stringTables[idx]? with
        | none => rw [ht] at h; cases h
        | some pl =>
          rw [ht] at h
          simp only [Except.ok.injEq] at h
          subst h
          rfl

section
variable {P : ES.Node} {T : Nat}

theorem atom_prop (neg : Bool) (kind name : Nat) : AtomR P T (.prop neg kind name) := by
  intro st x rest result f c0 hl hin hc hnd hinv hlim hlex hf
  simp only [lexOK] at hlex
  simp only [lowerNode, lowerPropAtom] at hl
  cases hu : (st.flags.unicode || st.flags.unicodeSets) with
  | false => rw [hu] at hl; simp at hl
  | true =>
    rw [hu] at hl
    simp only [Bool.not_true, Bool.false_eq_true, if_false] at hl
    cases hp : lowerProp st.flags.unicodeSets kind name with
    | error e => rw [hp] at hl; cases hl
    | ok pk =>
      rw [hp] at hl
      have hpe := propertyEscape_print st.flags.unicodeSets rest hp hlex
      simp only [pr, printProp, List.cons_append, List.nil_append, List.append_assoc] at hin hf
      simp only [List.cons_append, List.nil_append, List.append_assoc] at hpe
      obtain rfl := head_eq hin hc
      obtain ⟨f', rfl⟩ : ∃ f', f = f' + 1 := ⟨f - 1, by simp at hf; omega⟩
      rw [adv_leaf st rest rfl rfl rfl, consumeAtom]
      cases neg with
      | false =>
        simp only [Bool.false_eq_true, if_false] at hin
        have hesc : consumeAtomEscape { st with input := 0x70 :: 0x7B :: (propPrefix kind ++ (nameBytes name ++
            0x7D :: rest)) } = .ok (x, { st with input := rest }) := by
          unfold consumeAtomEscape
          simp only [show ((0x70 : Nat) == 0x64) = false from rfl, show ((0x70 : Nat) == 0x44) = false from rfl,
            show ((0x70 : Nat) == 0x73) = false from rfl, show ((0x70 : Nat) == 0x53) = false from rfl,
            show ((0x70 : Nat) == 0x77) = false from rfl, show ((0x70 : Nat) == 0x57) = false from rfl,
            show ((0x70 : Nat) == 0x70) = true from rfl, show ((0x70 : Nat) == 0x50) = false from rfl,
            Bool.or_self, Bool.false_eq_true, if_false, Bool.true_or, hu, Bool.and_self, if_true, hpe]
          cases pk with
          | charClass cps =>
            simp only [Bool.false_and, Bool.false_eq_true, if_false] at hl ⊢
            cases hi : st.flags.icase with
            | false => rw [hi] at hl; simp only [Bool.false_eq_true, if_false, Except.ok.injEq] at hl ⊢; rw [hl]
            | true => rw [hi] at hl; simp only [if_true, Except.ok.injEq] at hl ⊢; rw [hl]
          | stringSet strs =>
            simp only [Bool.false_eq_true, if_false, Except.ok.injEq] at hl ⊢
            rw [hl]
        simp [consume, hin, hesc, quantifiable]
      | true =>
        simp only [if_true] at hin
        have hesc : consumeAtomEscape { st with input := 0x50 :: 0x7B :: (propPrefix kind ++ (nameBytes name ++
            0x7D :: rest)) } = .ok (x, { st with input := rest }) := by
          unfold consumeAtomEscape
          simp only [show ((0x50 : Nat) == 0x64) = false from rfl, show ((0x50 : Nat) == 0x44) = false from rfl,
            show ((0x50 : Nat) == 0x73) = false from rfl, show ((0x50 : Nat) == 0x53) = false from rfl,
            show ((0x50 : Nat) == 0x77) = false from rfl, show ((0x50 : Nat) == 0x57) = false from rfl,
            show ((0x50 : Nat) == 0x70) = false from rfl, show ((0x50 : Nat) == 0x50) = true from rfl,
            Bool.or_self, Bool.false_eq_true, if_false, Bool.or_true, hu, Bool.and_self, if_true, hpe]
          cases pk with
          | charClass cps =>
            simp only [Bool.true_and] at hl ⊢
            cases hi : st.flags.icase with
            | false => rw [hi] at hl; simp only [Bool.false_eq_true, if_false, Except.ok.injEq] at hl ⊢; rw [hl]
            | true => rw [hi] at hl; simp only [if_true, Except.ok.injEq] at hl ⊢; rw [hl]
          | stringSet strs => simp at hl
        simp [consume, hin, hesc, quantifiable]

end

end Regress.RoundTrip
