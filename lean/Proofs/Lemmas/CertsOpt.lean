import Proofs.Lemmas.E2EOpt
import Proofs.Lemmas.CertsIR
/-!
# Certificates, part 0b: the optimizer preserves the IR-level side conditions `irOK`

Every pass of `optimizer::optimize` (`simplify_brackets`, `decat`, `unroll_loops`,
`promote_1char_loops`, `form_literal_bytes`, `remove_empties`, `propagate_early_fails`), lifted through
`walk_mut`, `run_to_fixpoint` and the pipeline by `E2E.optimize_rel`, keeps the list of capture groups
(`Closure.groupList`, hence `groupIds`, `numGroups`, `groupIdsDense`) and preserves `gscoped lo hi`
(every `lo hi`), `refsOK N` (every `N`), `leafOK`, `l1ok`, `endsOK` of `Proofs/Lemmas/CertsIR.lean`.

One relation `GR` between the tree before and after carries all of them (`l1ok` is needed on its own
for the `Loop1CharBody` congruence of `leafOK`, the equality of the group lists for the `Loop` congruence
of `gscoped`).
-/
namespace Regress.Certs

open Regress Regress.IR Regress.Keystone Regress.Closure Regress.E2E Regress.Gen

/-- The relation lifted through the walks. -/
def GR (n m : Node) : Prop :=
  groupList m = groupList n ∧
  (∀ lo hi, gscoped lo hi n = true → gscoped lo hi m = true) ∧
  (∀ N, refsOK N n = true → refsOK N m = true) ∧
  (leafOK n = true → leafOK m = true) ∧
  (l1ok n = true → l1ok m = true) ∧
  (endsOK n = true → endsOK m = true)

/-! ## Lists -/

theorem groupLists_append (xs ys : List Node) :
    groupLists (xs ++ ys) = groupLists xs ++ groupLists ys := by
  induction xs with
  | nil => simp [groupLists]
  | cons a t ih => simp [groupLists, ih, List.append_assoc]

theorem groupList_nil_of_numGroups {n : Node} (h : numGroups n = 0) : groupList n = [] :=
  List.eq_nil_of_length_eq_zero (by rw [groupList_length, h])

theorem relList_groups {R : Node → Node → Prop} (hR : ∀ a b, R a b → groupList b = groupList a)
    {ns ns' : List Node} (h : RelList R ns ns') : groupLists ns' = groupLists ns := by
  induction ns generalizing ns' with
  | nil => cases ns' <;> simp [RelList] at h ⊢
  | cons a t ih =>
    cases ns' with
    | nil => simp [RelList] at h
    | cons b t' =>
      simp only [RelList] at h
      simp only [groupLists, ih h.2]
      rw [hR _ _ h.1]

theorem relList_forall {R : Node → Node → Prop} {P Q : Node → Prop} (hPQ : ∀ a b, R a b → P a → Q b)
    {ns ns' : List Node} (h : RelList R ns ns') : (∀ n ∈ ns, P n) → ∀ n ∈ ns', Q n := by
  induction ns generalizing ns' with
  | nil => cases ns' <;> simp [RelList] at h ⊢
  | cons a t ih =>
    cases ns' with
    | nil => simp [RelList] at h
    | cons b t' =>
      simp only [RelList] at h
      intro hp n hn
      rcases List.mem_cons.1 hn with rfl | hn
      · exact hPQ _ _ h.1 (hp a (List.mem_cons_self ..))
      · exact ih h.2 (fun x hx => hp x (List.mem_cons_of_mem _ hx)) n hn

theorem endsOKList_cons_cons (a b : Node) (t : List Node) :
    endsOKList (a :: b :: t) = endsOKList (b :: t) := by
  rw [endsOKList]; simp

theorem endsOKList_single (a : Node) : endsOKList [a] = endsOK a := by
  rw [endsOKList]; simp

theorem endsOKList_cons_of_ne_nil {a : Node} {t : List Node} (ht : t ≠ []) :
    endsOKList (a :: t) = endsOKList t := by
  cases t with
  | nil => exact absurd rfl ht
  | cons b t' => exact endsOKList_cons_cons a b t'

theorem endsOKList_append (xs : List Node) {ys : List Node} (hy : ys ≠ []) :
    endsOKList (xs ++ ys) = endsOKList ys := by
  induction xs with
  | nil => rfl
  | cons a t ih =>
    rw [List.cons_append, endsOKList_cons_of_ne_nil (by simp [hy]), ih]

theorem endsOKList_ne_nil {ns : List Node} (h : endsOKList ns = true) : ns ≠ [] := by
  rintro rfl; simp [endsOKList] at h

theorem relList_ends {R : Node → Node → Prop} (hR : ∀ a b, R a b → endsOK a = true → endsOK b = true)
    {ns ns' : List Node} (h : RelList R ns ns') : endsOKList ns = true → endsOKList ns' = true := by
  induction ns generalizing ns' with
  | nil => cases ns' <;> simp [RelList, endsOKList] at h ⊢
  | cons a t ih =>
    cases ns' with
    | nil => simp [RelList] at h
    | cons b t' =>
      simp only [RelList] at h
      cases t with
      | nil =>
        cases t' with
        | nil => simp only [endsOKList_single]; exact hR _ _ h.1
        | cons _ _ => simp [RelList] at h
      | cons a2 t2 =>
        cases t' with
        | nil => simp [RelList] at h
        | cons b2 t2' =>
          simp only [endsOKList_cons_cons]
          exact ih h.2

/-! ## `GR` is a congruence -/

theorem GR_congr : RelCongr GR where
  refl _ := ⟨rfl, fun _ _ => id, fun _ => id, id, id, id⟩
  trans h1 h2 := ⟨h2.1.trans h1.1, fun lo hi h => h2.2.1 lo hi (h1.2.1 lo hi h),
    fun N h => h2.2.2.1 N (h1.2.2.1 N h), fun h => h2.2.2.2.1 (h1.2.2.2.1 h),
    fun h => h2.2.2.2.2.1 (h1.2.2.2.2.1 h), fun h => h2.2.2.2.2.2 (h1.2.2.2.2.2 h)⟩
  cat h := by
    refine ⟨?_, ?_, ?_, ?_, by simp [l1ok], ?_⟩
    · simpa only [groupList] using relList_groups (fun _ _ r => r.1) h
    · intro lo hi
      simp only [gscoped, scopedList_iff]
      exact relList_forall (fun _ _ r => r.2.1 lo hi) h
    · intro N
      simp only [refsOK, refsOKList_iff]
      exact relList_forall (fun _ _ r => r.2.2.1 N) h
    · simp only [leafOK, leafOKList_iff]
      exact relList_forall (fun _ _ r => r.2.2.2.1) h
    · simp only [endsOK]
      exact relList_ends (fun _ _ r => r.2.2.2.2.2) h
  alt h1 h2 := by
    refine ⟨?_, ?_, ?_, ?_, by simp [l1ok], by simp [endsOK]⟩
    · simp only [groupList]; rw [h1.1, h2.1]
    · intro lo hi
      simp only [gscoped, Bool.and_eq_true]
      exact fun hk => ⟨h1.2.1 lo hi hk.1, h2.2.1 lo hi hk.2⟩
    · intro N
      simp only [refsOK, Bool.and_eq_true]
      exact fun hk => ⟨h1.2.2.1 N hk.1, h2.2.2.1 N hk.2⟩
    · simp only [leafOK, Bool.and_eq_true]
      exact fun hk => ⟨h1.2.2.2.1 hk.1, h2.2.2.2.1 hk.2⟩
  group h := by
    refine ⟨?_, ?_, ?_, ?_, by simp [l1ok], by simp [endsOK]⟩
    · simp only [groupList]; rw [h.1]
    · intro lo hi
      simp only [gscoped, Bool.and_eq_true]
      exact fun hk => ⟨hk.1, h.2.1 lo hi hk.2⟩
    · intro N
      simpa only [refsOK] using h.2.2.1 N
    · simpa only [leafOK] using h.2.2.2.1
  look h := by
    refine ⟨?_, ?_, ?_, ?_, by simp [l1ok], by simp [endsOK]⟩
    · simpa only [groupList] using h.1
    · intro lo hi
      simp only [gscoped, Bool.and_eq_true]
      exact fun hk => ⟨hk.1, h.2.1 _ _ hk.2⟩
    · intro N
      simpa only [refsOK] using h.2.2.1 N
    · simpa only [leafOK] using h.2.2.2.1
  loop h := by
    refine ⟨?_, ?_, ?_, ?_, by simp [l1ok], by simp [endsOK]⟩
    · simpa only [groupList] using h.1
    · intro lo hi
      simp only [gscoped, groupIds, Bool.and_eq_true]
      rw [h.1]
      exact fun hk => ⟨⟨hk.1.1, h.2.1 lo hi hk.1.2⟩, hk.2⟩
    · intro N
      simpa only [refsOK] using h.2.2.1 N
    · simpa only [leafOK] using h.2.2.2.1
  loop1 h := by
    refine ⟨?_, ?_, ?_, ?_, by simp [l1ok], by simp [endsOK]⟩
    · simpa only [groupList] using h.1
    · intro lo hi
      simpa only [gscoped] using h.2.1 lo hi
    · intro N
      simpa only [refsOK] using h.2.2.1 N
    · simp only [leafOK, Bool.and_eq_true]
      exact fun hk => ⟨h.2.2.2.2.1 hk.1, h.2.2.2.1 hk.2⟩

/-! ## Nodes without groups, replacements by leaves -/

theorem groupList_of_isEmpty {n : Node} (h : n.isEmpty = true) : groupList n = [] := by
  cases n <;> simp [Node.isEmpty] at h <;> rfl

theorem groupLists_filter_nonempty (ns : List Node) :
    groupLists (ns.filter (fun nn => !nn.isEmpty)) = groupLists ns := by
  induction ns with
  | nil => rfl
  | cons a t ih =>
    rw [List.filter_cons]
    split
    · simp only [groupLists, ih]
    · rename_i h
      simp only [groupLists, ih]
      rw [groupList_of_isEmpty (by simpa using h)]
      rfl

theorem groupLists_replicate (k : Nat) (b : Node) (h : groupList b = []) :
    groupLists (List.replicate k b) = [] := by
  induction k with
  | zero => rfl
  | succ k ih => simp [List.replicate_succ, groupLists, h, ih]

mutual
/-- `contains_capture_groups` is complete on well-formed trees (it does not look into a
`Loop1CharBody`, whose body has no group by `WF`). -/
theorem groupList_of_not_contains : ∀ (n : Node), WF n → containsCaptureGroups n = false → groupList n = []
  | .group _ _ _, _, h => by simp [containsCaptureGroups] at h
  | .cat ns, hw, h => by
    simp only [containsCaptureGroups] at h
    simp only [groupList]
    exact groupLists_of_not_contains ns hw h
  | .alt l r, hw, h => by
    simp only [containsCaptureGroups, Bool.or_eq_false_iff] at h
    simp only [groupList, groupList_of_not_contains l hw.1 h.1, groupList_of_not_contains r hw.2 h.2,
      List.append_nil]
  | .loop b _ _ _, hw, h => by
    simp only [containsCaptureGroups] at h
    simp only [groupList]
    exact groupList_of_not_contains b hw.1 h
  | .look _ _ _ _ c, hw, h => by
    simp only [containsCaptureGroups] at h
    simp only [groupList]
    exact groupList_of_not_contains c hw h
  | .loop1 b _, hw, _ => by
    simp only [groupList]
    exact groupList_nil_of_numGroups hw.2.2
  | .empty, _, _ => rfl
  | .goal, _, _ => rfl
  | .char _, _, _ => rfl
  | .byteSeq _, _, _ => rfl
  | .byteSet _, _, _ => rfl
  | .charSet _, _, _ => rfl
  | .matchAny, _, _ => rfl
  | .matchAnyExceptLT, _, _ => rfl
  | .anchor _ _, _, _ => rfl
  | .wordBoundary _ _, _, _ => rfl
  | .backRef _ _, _, _ => rfl
  | .bracket _, _, _ => rfl
  | .stringSet _ _, _, _ => rfl
theorem groupLists_of_not_contains : ∀ (ns : List Node), WFList ns → anyContainsCaptureGroups ns = false →
    groupLists ns = []
  | [], _, _ => rfl
  | n :: ns, hw, h => by
    simp only [anyContainsCaptureGroups, Bool.or_eq_false_iff] at h
    simp only [groupLists, groupList_of_not_contains n hw.1 h.1, groupLists_of_not_contains ns hw.2 h.2,
      List.append_nil]
end

/-- A group-free node whose `l1ok`, `endsOK` are false may be replaced by `Empty`. -/
theorem GR_empty {m : Node} (hg : groupList m = []) (h1 : l1ok m = false) (he : endsOK m = false) :
    GR m .empty :=
  ⟨by rw [hg]; rfl, fun _ _ _ => rfl, fun _ _ => rfl, fun _ => rfl, by simp [h1], by simp [he]⟩

/-- A group-free node whose `l1ok` is false may be replaced by the always-failing node. -/
theorem GR_fails {m : Node} (hg : groupList m = []) (h1 : l1ok m = false) : GR m makeAlwaysFails :=
  ⟨by rw [hg]; rfl, fun _ _ _ => rfl, fun _ _ => rfl, fun _ => rfl, by simp [h1], fun _ => rfl⟩

/-! ### `decat` -/

theorem decatLoop_groups (rest : List Node) :
    ∀ acc, groupLists (decatLoop rest acc) = groupLists acc ++ groupLists rest := by
  induction rest with
  | nil => intro acc; simp [decatLoop, groupLists]
  | cons x rest ih =>
    intro acc
    have hgen : groupLists (decatLoop rest (acc ++ [x])) = groupLists acc ++ groupLists (x :: rest) := by
      rw [ih, groupLists_append]; simp [groupLists, List.append_assoc]
    cases x <;> try (simpa [decatLoop] using hgen)
    case cat nn =>
      simp only [decatLoop]
      rw [ih, groupLists_append]; simp [groupLists, groupList, List.append_assoc]

/-- A predicate that holds of a `Cat` only if it holds of its children survives the flattening. -/
theorem decatLoop_all {P : Node → Prop} (hcat : ∀ nn, P (.cat nn) → ∀ x ∈ nn, P x) (rest : List Node) :
    ∀ acc, (∀ x ∈ acc, P x) → (∀ x ∈ rest, P x) → ∀ x ∈ decatLoop rest acc, P x := by
  induction rest with
  | nil => intro acc ha _; simpa [decatLoop] using ha
  | cons x rest ih =>
    intro acc ha hr
    have hx := hr x (List.mem_cons_self ..)
    have hr' : ∀ y ∈ rest, P y := fun y hy => hr y (List.mem_cons_of_mem _ hy)
    have hgen : ∀ y ∈ decatLoop rest (acc ++ [x]), P y :=
      ih _ (fun y hy => by
        rcases List.mem_append.1 hy with h | h
        · exact ha y h
        · rw [List.mem_singleton.1 h]; exact hx) hr'
    cases x <;> try (simpa [decatLoop] using hgen)
    case cat nn =>
      simp only [decatLoop]
      exact ih _ (fun y hy => by
        rcases List.mem_append.1 hy with h | h
        · exact ha y h
        · exact hcat nn hx y h) hr'

theorem decatLoop_ends (rest : List Node) :
    ∀ acc, endsOKList rest = true → endsOKList (decatLoop rest acc) = true := by
  induction rest with
  | nil => intro acc h; simp [endsOKList] at h
  | cons x rest ih =>
    intro acc hr
    cases rest with
    | nil =>
      rw [endsOKList_single] at hr
      have hgen : endsOKList (decatLoop [] (acc ++ [x])) = true := by
        simp only [decatLoop]
        rw [endsOKList_append _ (by simp), endsOKList_single]; exact hr
      cases x <;> try (simpa [decatLoop] using hgen)
      case cat nn =>
        simp only [decatLoop]
        simp only [endsOK] at hr
        rw [endsOKList_append _ (endsOKList_ne_nil hr)]; exact hr
    | cons y rest' =>
      rw [endsOKList_cons_cons] at hr
      have hgen : endsOKList (decatLoop (y :: rest') (acc ++ [x])) = true := ih _ hr
      cases x <;> try (simpa [decatLoop] using hgen)
      case cat nn =>
        simp only [decatLoop]
        exact ih _ hr

theorem decat_step : PassStep OptIn decat GR := by
  intro m w a hm h
  unfold decat at h
  split at h
  · rename_i nodes
    split at h
    · cases h; exact GR_empty rfl rfl rfl
    · rename_i x
      cases h
      refine ⟨?_, ?_, ?_, ?_, by simp [l1ok], ?_⟩
      · simp [PassAction.result, groupList, groupLists]
      · intro lo hi; simp [PassAction.result, gscoped, gscopedList]
      · intro N; simp [PassAction.result, refsOK, refsOKList]
      · simp [PassAction.result, leafOK, leafOKList]
      · simp [PassAction.result, endsOK, endsOKList_single]
    · split at h
      · cases h
        refine ⟨?_, ?_, ?_, ?_, by simp [l1ok], ?_⟩
        · simp only [PassAction.result, groupList, decatLoop_groups]
          simp [groupLists]
        · intro lo hi
          simp only [PassAction.result, gscoped, scopedList_iff]
          exact decatLoop_all (P := fun n => gscoped lo hi n = true)
            (fun nn hn => by simpa only [gscoped, scopedList_iff] using hn) _ _ (by simp)
        · intro N
          simp only [PassAction.result, refsOK, refsOKList_iff]
          exact decatLoop_all (P := fun n => refsOK N n = true)
            (fun nn hn => by simpa only [refsOK, refsOKList_iff] using hn) _ _ (by simp)
        · simp only [PassAction.result, leafOK, leafOKList_iff]
          exact decatLoop_all (P := fun n => leafOK n = true)
            (fun nn hn => by simpa only [leafOK, leafOKList_iff] using hn) _ _ (by simp)
        · simp only [PassAction.result, endsOK]; exact decatLoop_ends _ _
      · cases h; exact GR_congr.refl _
  · cases h; exact GR_congr.refl _

/-! ### `remove_empties` -/

theorem isOneCharSeq_nil : Regress.VM.isOneCharSeq [] = false := by
  simp [Regress.VM.isOneCharSeq, Utf8.nextRight]

theorem not_isEmpty_of_endsOK {n : Node} (h : endsOK n = true) : n.isEmpty = false := by
  cases n <;> simp [endsOK] at h <;> rfl

theorem filter_ends (ns : List Node) (h : endsOKList ns = true) :
    endsOKList (ns.filter (fun nn => !nn.isEmpty)) = true := by
  induction ns with
  | nil => simp [endsOKList] at h
  | cons a t ih =>
    cases t with
    | nil =>
      rw [endsOKList_single] at h
      simp [List.filter, not_isEmpty_of_endsOK h, endsOKList_single, h]
    | cons b t' =>
      rw [endsOKList_cons_cons] at h
      have := ih h
      rw [List.filter_cons]
      split
      · rw [endsOKList_cons_of_ne_nil (endsOKList_ne_nil this)]; exact this
      · exact this

theorem removeEmpties_step : PassStep OptIn removeEmpties GR := by
  intro m w a hm h
  unfold removeEmpties at h
  split at h
  all_goals try (cases h; exact GR_congr.refl _)
  · rename_i v
    split at h
    · rename_i hv
      cases h
      have : v = [] := by simpa using hv
      subst this
      exact GR_empty rfl (by simp [l1ok, isOneCharSeq_nil]) rfl
    · cases h; exact GR_congr.refl _
  · rename_i nodes
    dsimp only at h
    have hf := groupLists_filter_nonempty nodes
    have hsub : ∀ x ∈ nodes.filter (fun nn => !nn.isEmpty), x ∈ nodes := fun x hx => (List.mem_filter.1 hx).1
    have he := filter_ends nodes
    split at h
    · cases h; exact GR_congr.refl _
    · split at h
      · rename_i heq
        cases h
        rw [heq] at hf he
        refine GR_empty (by simpa only [groupList, groupLists] using hf.symm) rfl ?_
        cases hE : endsOK (.cat nodes) with
        | false => rfl
        | true => simp only [endsOK] at hE; simpa [endsOKList] using he hE
      · rename_i x heq
        cases h
        rw [heq] at hf hsub he
        have hx := hsub x (by simp)
        refine ⟨?_, ?_, ?_, ?_, by simp [l1ok], ?_⟩
        · simp only [PassAction.result, groupList]
          rw [← hf]; simp [groupLists]
        · intro lo hi
          simp only [PassAction.result, gscoped, scopedList_iff]
          exact fun hk => hk x hx
        · intro N
          simp only [PassAction.result, refsOK, refsOKList_iff]
          exact fun hk => hk x hx
        · simp only [PassAction.result, leafOK, leafOKList_iff]
          exact fun hk => hk x hx
        · simp only [PassAction.result, endsOK]
          intro hk
          simpa only [endsOKList_single] using he hk
      · cases h
        refine ⟨?_, ?_, ?_, ?_, by simp [l1ok], ?_⟩
        · simp only [PassAction.result, groupList]
          exact hf
        · intro lo hi
          simp only [PassAction.result, gscoped, scopedList_iff]
          exact fun hk x hx => hk x (hsub x hx)
        · intro N
          simp only [PassAction.result, refsOK, refsOKList_iff]
          exact fun hk x hx => hk x (hsub x hx)
        · simp only [PassAction.result, leafOK, leafOKList_iff]
          exact fun hk x hx => hk x (hsub x hx)
        · simp only [PassAction.result, endsOK]
          exact he
  · rename_i left right
    split at h
    · rename_i he
      cases h
      simp only [Bool.and_eq_true] at he
      exact GR_empty (by simp only [groupList, groupList_of_isEmpty he.1, groupList_of_isEmpty he.2,
        List.append_nil]) rfl rfl
    · cases h; exact GR_congr.refl _
  · rename_i loopee quant g0 g1
    split at h
    · rename_i he
      cases h
      refine GR_empty ?_ rfl rfl
      simp only [groupList]
      simp only [Bool.or_eq_true, Bool.and_eq_true, beq_iff_eq] at he
      rcases he with he | he
      · exact groupList_of_isEmpty he
      · have hw : WF (.loop loopee quant g0 g1) := hm.1
        exact groupList_nil_of_numGroups (hw.2.2.mpr (by omega))
    · cases h; exact GR_congr.refl _
  · rename_i negate _ _ _ contents
    split at h
    · rename_i he
      cases h
      simp only [Bool.and_eq_true] at he
      exact GR_empty (by simpa only [groupList] using groupList_of_isEmpty he.2) rfl rfl
    · cases h; exact GR_congr.refl _

/-! ### `propagate_early_fails` -/

theorem propagateEarlyFails_step : PassStep OptIn propagateEarlyFails GR := by
  intro m w a hm h
  unfold propagateEarlyFails at h
  split at h
  · cases h; exact GR_congr.refl _
  · rename_i hcc
    have hnil : groupList m = [] := groupList_of_not_contains m hm.1 (by simpa using hcc)
    split at h
    · split at h
      · cases h; exact GR_fails hnil rfl
      · cases h; exact GR_congr.refl _
    · rename_i left right
      dsimp only at h
      have hnil' := hnil
      simp only [groupList, List.append_eq_nil_iff] at hnil'
      split at h
      · cases h; exact GR_fails hnil rfl
      · cases h; exact GR_congr.refl _
      · cases h
        refine ⟨by rw [hnil]; exact hnil'.2, ?_, ?_, ?_, by simp [l1ok], by simp [endsOK]⟩
        · intro lo hi; simp only [PassAction.result, gscoped, Bool.and_eq_true]; exact fun hk => hk.2
        · intro N; simp only [PassAction.result, refsOK, Bool.and_eq_true]; exact fun hk => hk.2
        · simp only [PassAction.result, leafOK, Bool.and_eq_true]; exact fun hk => hk.2
      · cases h
        refine ⟨by rw [hnil]; exact hnil'.1, ?_, ?_, ?_, by simp [l1ok], by simp [endsOK]⟩
        · intro lo hi; simp only [PassAction.result, gscoped, Bool.and_eq_true]; exact fun hk => hk.1
        · intro N; simp only [PassAction.result, refsOK, Bool.and_eq_true]; exact fun hk => hk.1
        · simp only [PassAction.result, leafOK, Bool.and_eq_true]; exact fun hk => hk.1
    · split at h
      · cases h; exact GR_congr.refl _
      · split at h
        · cases h; exact GR_fails hnil rfl
        · cases h; exact GR_congr.refl _
    · cases h; exact GR_congr.refl _

/-! ### `promote_1char_loops` -/

theorem l1ok_of_oneChar {b : Node} (h : b.matchesExactlyOneChar = true) : l1ok b = true := by
  cases b <;> simp [Node.matchesExactlyOneChar] at h <;> simp [l1ok, h]

theorem promote1CharLoops_step : PassStep OptIn promote1CharLoops GR := by
  intro m w a hm h
  unfold promote1CharLoops at h
  split at h
  · rename_i loopee quant g0 g1
    split at h
    · cases h; exact GR_congr.refl _
    · rename_i hone
      simp only [Bool.not_eq_true, Bool.not_eq_false'] at hone
      split at h
      · cases h
      · cases h
        have ho := l1ok_of_oneChar (by simpa using hone)
        refine ⟨by simp only [PassAction.result, groupList], ?_, ?_, ?_, by simp [l1ok], by simp [endsOK]⟩
        · intro lo hi; simp only [PassAction.result, gscoped, Bool.and_eq_true]; exact fun hk => hk.1.2
        · intro N; simp only [PassAction.result, refsOK]; exact id
        · simp only [PassAction.result, leafOK, Bool.and_eq_true]; exact fun hk => ⟨ho, hk⟩
  · cases h; exact GR_congr.refl _

/-! ### `unroll_loops` -/

theorem unrollLoops_step : PassStep OptIn unrollLoops GR := by
  intro m w a hm h
  unfold unrollLoops at h
  split at h
  · rename_i loopee quant g0 g1
    split at h
    · cases h; exact GR_congr.refl _
    · rename_i hg
      split at h
      · cases h; exact GR_congr.refl _
      · split at h
        · cases h; exact GR_congr.refl _
        · split at h
          · cases h
          · cases h; exact GR_congr.refl _
          · rename_i unrolled hdup
            cases h
            have hu := unrollDup_eq loopee quant.min [] unrolled hdup
            have hul : unrolled = List.replicate quant.min loopee := by simpa using hu.1
            subst hul
            have hw : WF (.loop loopee quant g0 g1) := hm.1
            have hnil : groupList loopee = [] := groupList_nil_of_numGroups (hw.2.2.mpr (by omega))
            refine ⟨?_, ?_, ?_, ?_, by simp [l1ok], by simp [endsOK]⟩
            · simp only [PassAction.result, groupList, hnil]
              split
              · rw [groupLists_append, groupLists_replicate _ _ hnil]
                simp [groupLists, groupList, hnil]
              · exact groupLists_replicate _ _ hnil
            · intro lo hi hk
              have hb : gscoped lo hi loopee = true := by
                simp only [gscoped, Bool.and_eq_true] at hk; exact hk.1.2
              simp only [PassAction.result, gscoped, scopedList_iff]
              intro x hx
              split at hx
              · rcases List.mem_append.1 hx with hx | hx
                · rw [List.eq_of_mem_replicate hx]; exact hb
                · rw [List.mem_singleton.1 hx]
                  simpa only [gscoped] using hk
              · rw [List.eq_of_mem_replicate hx]; exact hb
            · intro N hk
              simp only [refsOK] at hk
              simp only [PassAction.result, refsOK, refsOKList_iff]
              intro x hx
              split at hx
              · rcases List.mem_append.1 hx with hx | hx
                · rw [List.eq_of_mem_replicate hx]; exact hk
                · rw [List.mem_singleton.1 hx]
                  simpa only [refsOK] using hk
              · rw [List.eq_of_mem_replicate hx]; exact hk
            · intro hk
              simp only [leafOK] at hk
              simp only [PassAction.result, leafOK, leafOKList_iff]
              intro x hx
              split at hx
              · rcases List.mem_append.1 hx with hx | hx
                · rw [List.eq_of_mem_replicate hx]; exact hk
                · rw [List.mem_singleton.1 hx]
                  simpa only [leafOK] using hk
              · rw [List.eq_of_mem_replicate hx]; exact hk
  · cases h; exact GR_congr.refl _

/-! ### `form_literal_bytes` -/

/-- The encoding of a scalar value is a one-character byte sequence. -/
theorem isOneCharSeq_encode {c : Nat} (hc : Utf8.isScalar c = true) :
    Regress.VM.isOneCharSeq (Utf8.encode c) = true := by
  unfold Regress.VM.isOneCharSeq
  rw [Utf8.nextRight_of_hasAt (p := 0) hc (by intro i hi; simp)]
  simp

theorem mergeLiteralBytes_groups (lb : Bool) :
    ∀ (rest : List Node) (prev : Node),
      groupLists (mergeLiteralBytes lb prev rest).1 = groupLists (prev :: rest) := by
  intro rest
  induction rest with
  | nil => intro prev; simp [mergeLiteralBytes]
  | cons curr rest ih =>
    intro prev
    unfold mergeLiteralBytes
    split
    · split
      · simp only [groupLists, ih, groupList]
      · simp only [groupLists, ih]
    · simp only [groupLists, ih]

/-- A predicate that holds of every `ByteSequence` survives the merging. -/
theorem mergeLiteralBytes_all {P : Node → Prop} (hb : ∀ bs, P (.byteSeq bs)) (lb : Bool) :
    ∀ (rest : List Node) (prev : Node), (∀ x ∈ prev :: rest, P x) →
      ∀ x ∈ (mergeLiteralBytes lb prev rest).1, P x := by
  intro rest
  induction rest with
  | nil => intro prev hp; simpa [mergeLiteralBytes] using hp
  | cons curr rest ih =>
    intro prev hp
    have hprev := hp prev (List.mem_cons_self ..)
    have hrest : ∀ x ∈ curr :: rest, P x := fun x hx => hp x (List.mem_cons_of_mem _ hx)
    have hrest' : ∀ x ∈ rest, P x := fun x hx => hrest x (List.mem_cons_of_mem _ hx)
    unfold mergeLiteralBytes
    split
    · split
      · intro x hx
        rcases List.mem_cons.1 hx with rfl | hx
        · exact hb _
        · exact ih _ (fun y hy => by
            rcases List.mem_cons.1 hy with rfl | hy
            · exact hb _
            · exact hrest' y hy) x hx
      · intro x hx
        rcases List.mem_cons.1 hx with rfl | hx
        · exact hprev
        · exact ih _ hrest x hx
    · intro x hx
      rcases List.mem_cons.1 hx with rfl | hx
      · exact hprev
      · exact ih _ hrest x hx

theorem mergeLiteralBytes_ends (lb : Bool) :
    ∀ (rest : List Node) (prev : Node), endsOKList (prev :: rest) = true →
      endsOKList (mergeLiteralBytes lb prev rest).1 = true := by
  intro rest
  induction rest with
  | nil => intro prev hp; simpa [mergeLiteralBytes] using hp
  | cons curr rest ih =>
    intro prev hp
    rw [endsOKList_cons_cons] at hp
    unfold mergeLiteralBytes
    split
    · rename_i pb cb
      split
      · rw [endsOKList_cons_of_ne_nil (mergeLiteralBytes_ne_nil _ _ _)]
        apply ih
        cases rest with
        | nil => rw [endsOKList_single] at hp; simp [endsOK] at hp
        | cons y rest' =>
          rw [endsOKList_cons_cons] at hp ⊢
          exact hp
      · rw [endsOKList_cons_of_ne_nil (mergeLiteralBytes_ne_nil _ _ _)]
        exact ih _ hp
    · rw [endsOKList_cons_of_ne_nil (mergeLiteralBytes_ne_nil _ _ _)]
      exact ih _ hp

theorem formLiteralBytes_step : PassStep OptIn formLiteralBytes GR := by
  intro m w a hm h
  unfold formLiteralBytes at h
  split at h
  · rename_i c
    split at h
    · rename_i hc
      cases h
      exact ⟨rfl, fun _ _ _ => rfl, fun _ _ => rfl, fun _ => rfl,
        fun _ => by simpa only [PassAction.result, l1ok] using isOneCharSeq_encode hc, by simp [endsOK]⟩
    · cases h; exact GR_congr.refl _
  · split at h
    · cases h
      exact ⟨rfl, fun _ _ _ => rfl, fun _ _ => rfl, fun _ => rfl,
        by simp only [PassAction.result, l1ok]; exact id, by simp only [PassAction.result, endsOK]; exact id⟩
    · cases h; exact GR_congr.refl _
  · split at h
    · cases h; exact GR_congr.refl _
    · rename_i first rest
      dsimp only at h
      split at h
      · cases h
        refine ⟨?_, ?_, ?_, ?_, by simp [l1ok], ?_⟩
        · simp only [PassAction.result, groupList, mergeLiteralBytes_groups]
        · intro lo hi
          simp only [PassAction.result, gscoped, scopedList_iff]
          exact mergeLiteralBytes_all (P := fun n => gscoped lo hi n = true) (fun _ => rfl) _ _ _
        · intro N
          simp only [PassAction.result, refsOK, refsOKList_iff]
          exact mergeLiteralBytes_all (P := fun n => refsOK N n = true) (fun _ => rfl) _ _ _
        · simp only [PassAction.result, leafOK, leafOKList_iff]
          exact mergeLiteralBytes_all (P := fun n => leafOK n = true) (fun _ => rfl) _ _ _
        · simp only [PassAction.result, endsOK]; exact mergeLiteralBytes_ends _ _ _
      · cases h; exact GR_congr.refl _
  · cases h; exact GR_congr.refl _

/-! ### `simplify_brackets` -/

theorem tryReduceBracket_some' {bc : IR.Bracket} {n : Node} (h : tryReduceBracket bc = some n) :
    bc.invert = false ∧ n = .charSet (bc.ivs.flatMap ivCodepoints) := by
  unfold tryReduceBracket at h
  split at h
  · cases h
  · rename_i hi
    dsimp only at h
    split at h
    · cases h
    · cases h
      exact ⟨by simpa using hi, rfl⟩

theorem toIvList_ok {ivs : List (Nat × Nat)} (hw : CPS.WF (toIvList ivs)) :
    ∀ iv ∈ ivs, iv.1 ≤ iv.2 ∧ iv.2 ≤ 0x10FFFF := by
  intro iv hiv
  have := ((CPS.WF_iff _).1 hw).1 ⟨iv.1, iv.2⟩ (by
    simp only [toIvList, List.mem_map]; exact ⟨iv, hiv, rfl⟩)
  simpa [CPS.ivOk] using this

/-- The inversion of a set that does not contain every code point is not empty. -/
theorem inverted_ne_nil {ivs : List (Nat × Nat)} (hw : CPS.WF (toIvList ivs))
    (h : ivsContainsAll ivs = false) : CPS.inverted (toIvList ivs) ≠ [] := by
  rw [CPS.inverted_eq]
  match ivs, hw, h with
  | [], _, _ => simp [toIvList, CPS.invAux]
  | [p], hw, h =>
    have hp := toIvList_ok hw p (by simp)
    simp only [ivsContainsAll, Regress.CODE_POINT_MAX, Bool.and_eq_false_iff, beq_eq_false_iff_ne] at h
    simp only [toIvList, List.map_cons, List.map_nil, CPS.invAux]
    intro hnil
    rw [List.append_eq_nil_iff] at hnil
    obtain ⟨h1, h2⟩ := hnil
    split at h1
    · cases h1
    · split at h2
      · cases h2
      · omega
  | p :: q :: r, hw, _ =>
    have hlt : p.2 + 1 < q.1 := by
      simp only [toIvList, List.map_cons, CPS.WF] at hw
      exact hw.2.1
    simp only [toIvList, List.map_cons, CPS.invAux]
    intro hnil
    rw [List.append_eq_nil_iff, List.append_eq_nil_iff] at hnil
    have h2 := hnil.2.1
    split at h2
    · cases h2
    · omega

/-- The inversion of a non-empty set does not contain every code point. -/
theorem inverted_not_all {ivs : List (Nat × Nat)} (hw : CPS.WF (toIvList ivs)) (h : ivs ≠ []) :
    ivsContainsAll (ofIvList (CPS.inverted (toIvList ivs))) = false := by
  cases hE : ivsContainsAll (ofIvList (CPS.inverted (toIvList ivs))) with
  | false => rfl
  | true =>
    exfalso
    obtain ⟨_, _, hmem⟩ := CPS.invAux_spec (toIvList ivs) 0 hw (fun _ _ => Nat.zero_le _)
    rw [← CPS.inverted_eq] at hmem
    generalize CPS.inverted (toIvList ivs) = t at hE hmem
    match t, hE with
    | [x], hE =>
      simp only [ofIvList, List.map_cons, List.map_nil, ivsContainsAll, Regress.CODE_POINT_MAX,
        Bool.and_eq_true, beq_iff_eq] at hE
      match ivs, h, hw with
      | p :: rest, _, hw =>
        have hp := toIvList_ok hw p (by simp)
        have h1 := (hmem p.1).1 ⟨x, by simp, by omega, by omega⟩
        exact h1.2.2 ⟨⟨p.1, p.2⟩, by simp [toIvList], Nat.le_refl _, hp.1⟩
    | [], hE => simp [ofIvList, ivsContainsAll] at hE
    | _ :: _ :: _, hE => simp [ofIvList, ivsContainsAll] at hE

theorem flatMap_ivCodepoints_ne_nil {ivs : List (Nat × Nat)} (hw : CPS.WF (toIvList ivs)) (h : ivs ≠ []) :
    ivs.flatMap ivCodepoints ≠ [] := by
  match ivs, h, hw with
  | p :: rest, _, hw =>
    have hp := toIvList_ok hw p (by simp)
    simp only [List.flatMap_cons, ivCodepoints]
    intro hnil
    rw [List.append_eq_nil_iff] at hnil
    have := congrArg List.length hnil.1
    simp at this
    omega

theorem simplifyBrackets_step : PassStep OptIn simplifyBrackets GR := by
  intro m w a hm h
  unfold simplifyBrackets at h
  split at h
  · rename_i bc
    have hw : CPS.WF (toIvList bc.ivs) := hm.1
    split at h
    · rename_i newNode hred
      cases h
      obtain ⟨hinv, rfl⟩ := tryReduceBracket_some' hred
      refine ⟨rfl, fun _ _ _ => rfl, fun _ _ => rfl, fun _ => ?_, fun h1 => ?_, by simp [endsOK]⟩
      · simp only [PassAction.result, leafOK, List.all_eq_true, decide_eq_true_eq, List.mem_flatMap]
        rintro c ⟨iv, hiv, hc⟩
        have := toIvList_ok hw iv hiv
        simp only [ivCodepoints, List.mem_range'_1] at hc
        simp only [U32]
        omega
      · simp only [l1ok, IR.Bracket.isEmpty, hinv, Bool.not_eq_true', List.isEmpty_eq_false_iff] at h1
        simp only [PassAction.result, l1ok, Bool.not_eq_true', List.isEmpty_eq_false_iff]
        exact flatMap_ivCodepoints_ne_nil hw h1
    · dsimp only at h
      split at h
      · cases h
        refine ⟨rfl, fun _ _ _ => rfl, fun _ _ => rfl, fun _ => rfl, fun h1 => ?_, by simp [endsOK]⟩
        simp only [PassAction.result, l1ok, IR.Bracket.isEmpty, Bool.not_eq_true'] at h1 ⊢
        cases hi : bc.invert with
        | false =>
          rw [hi] at h1
          simp only [List.isEmpty_eq_false_iff] at h1
          simpa using inverted_not_all hw h1
        | true =>
          rw [hi] at h1
          simp only at h1
          have := inverted_ne_nil hw h1
          simpa [ofIvList] using this
      · cases h; exact GR_congr.refl _
  · cases h; exact GR_congr.refl _

/-! ## The pipeline -/

theorem GR_passes : PassesStep GR where
  simplifyBrackets := simplifyBrackets_step
  decat := decat_step
  unrollLoops := unrollLoops_step
  promote1CharLoops := promote1CharLoops_step
  formLiteralBytes := formLiteralBytes_step
  removeEmpties := removeEmpties_step
  propagateEarlyFails := propagateEarlyFails_step

/-- `optimize` keeps the list of capture groups `(id, name)` in emission order. -/
theorem optimize_groupList {fuel : Nat} {r r' : Regex} (hr : OptIn r.node) (h : optimize fuel r = .ok r') :
    groupList r'.node = groupList r.node :=
  (optimize_rel GR_congr GR_passes hr h).1.1

/-- **`optimize` preserves the IR-level side conditions of the program certificates**: on a tree
satisfying C07's `OptIn` (parser output does), the group ids are unchanged, and `gscoped lo hi`,
`refsOK N`, `leafOK`, `endsOK` are preserved. -/
theorem optimize_irok {fuel : Nat} {r r' : Regex} (hr : OptIn r.node) (h : optimize fuel r = .ok r') :
    groupIds r'.node = groupIds r.node ∧
    (∀ lo hi, gscoped lo hi r.node = true → gscoped lo hi r'.node = true) ∧
    (∀ N, refsOK N r.node = true → refsOK N r'.node = true) ∧
    (leafOK r.node = true → leafOK r'.node = true) ∧
    (endsOK r.node = true → endsOK r'.node = true) := by
  have := (optimize_rel GR_congr GR_passes hr h).1
  exact ⟨by simp only [groupIds, this.1], this.2.1, this.2.2.1, this.2.2.2.1, this.2.2.2.2.2⟩

/-- `optimize` keeps the number of capture groups. -/
theorem optimize_numGroups {fuel : Nat} {r r' : Regex} (hr : OptIn r.node) (h : optimize fuel r = .ok r') :
    numGroups r'.node = numGroups r.node := by
  rw [← groupIds_length, ← groupIds_length, (optimize_irok hr h).1]

/-- **`optimize` preserves `irOK`.** -/
theorem optimize_irOK {fuel : Nat} {r r' : Regex} (hr : OptIn r.node) (h : optimize fuel r = .ok r')
    (hk : irOK r.node = true) : irOK r'.node = true := by
  obtain ⟨h1, h2, h3, h4, h5⟩ := irOK_parts hk
  obtain ⟨e, p1, p2, p3, p4⟩ := optimize_irok hr h
  have hn := optimize_numGroups hr h
  simp only [irOK, Bool.and_eq_true]
  refine ⟨⟨⟨⟨?_, ?_⟩, p3 h3⟩, p4 h4⟩, ?_⟩
  · rw [hn]; exact p1 _ _ h1
  · rw [hn]; exact p2 _ h2
  · unfold groupIdsDense at h5 ⊢
    rw [e]; exact h5

/-! ## Non-vacuity -/

/-- `IR.exTree` (the parser's IR of `/(?=(a))(?:a|[bc]){2,3}é/`) satisfies the hypotheses. -/
example : OptIn exTree := optInB_sound (by decide)
example : irOK exTree = true := by decide

/-- A tree with a back-reference, a loop with a capture group, a one-character loop (promoted to a
`Loop1CharBody` whose body becomes a `ByteSequence`), and a bracket. -/
def exTree2 : Node :=
  .cat [.loop (.group 0 none (.char 97)) { min := 0, max := none, greedy := true } 0 1,
    .loop (.char 233) { min := 1, max := none, greedy := true } 1 1,
    .loop (.bracket { invert := true, ivs := [(98, 99)] }) { min := 0, max := some 1, greedy := false } 1 1,
    .backRef 1 false, .goal]

example : OptIn exTree2 := optInB_sound (by decide)
example : irOK exTree2 = true := by decide

/-- What `optimize` makes of `exTree2` (evaluated). -/
def exTree2Out : Node :=
  .cat [.loop (.group 0 none (.byteSeq [97])) { min := 0, max := none, greedy := true } 0 1,
    .cat [.byteSeq [195, 169], .loop1 (.byteSeq [195, 169]) { min := 0, max := none, greedy := true }],
    .loop1 (.bracket { invert := true, ivs := [(98, 99)] }) { min := 0, max := some 1, greedy := false },
    .backRef 1 false, .goal]

example : optimize 50 ⟨exTree2, {}⟩ = .ok ⟨exTree2Out, {}⟩ := by rfl
example : irOK exTree2Out = true := by decide

/-- The checker is not trivial: a back-reference to a missing group, a `Loop1CharBody` whose body is
not the encoding of one scalar value, a loop whose reset range misses a group of its body. -/
example : irOK (.cat [.backRef 1 false, .goal]) = false := by decide
example : irOK (.cat [.loop1 (.byteSeq [97, 98]) ⟨0, none, true⟩, .goal]) = false := by decide
example : irOK (.cat [.loop (.group 0 none (.char 97)) ⟨0, none, true⟩ 0 0, .goal]) = false := by decide

end Regress.Certs
