import Proofs.Lemmas.LowerSets
/-!
# ES specification ⇒ IR semantics: Unicode property tables

A property escape that the parser resolves to a code point table (`lowerProp … = .charClass cps`)
is, by `Proofs/C11.lean`, a name the specification's snapshot accepts, with the identical table
(`ES.lookupProp`), and the table is well formed.
-/
namespace Regress.Lower

open Regress Regress.IR Regress.VM Regress.Parse Regress.CPS

/-- strictly increasing -/
def strictSorted : List Nat → Bool
  | [] => true
  | [_] => true
  | a :: b :: r => decide (a < b) && strictSorted (b :: r)

theorem names_lone_sorted : strictSorted (Oracle.acceptedLone.map (·.1)) = true := by decide +kernel
theorem names_gc_sorted : strictSorted (Oracle.acceptedGc.map (·.1)) = true := by decide +kernel
theorem names_sc_sorted : strictSorted (Oracle.acceptedSc.map (·.1)) = true := by decide +kernel
theorem names_scx_sorted : strictSorted (Oracle.acceptedScx.map (·.1)) = true := by decide +kernel

theorem tables_lone_wf : Oracle.acceptedLone.all (fun e => Packed.wf (Packed.decode e.2.2 e.2.1)) = true := by
  decide +kernel
theorem tables_gc_wf : Oracle.acceptedGc.all (fun e => Packed.wf (Packed.decode e.2.2 e.2.1)) = true := by
  decide +kernel
theorem tables_sc_wf : Oracle.acceptedSc.all (fun e => Packed.wf (Packed.decode e.2.2 e.2.1)) = true := by
  decide +kernel
theorem tables_scx_wf : Oracle.acceptedScx.all (fun e => Packed.wf (Packed.decode e.2.2 e.2.1)) = true := by
  decide +kernel


/-! ## Unique names: `find?` returns the entry -/

theorem strictSorted_lt : ∀ (a : Nat) (l : List Nat), strictSorted (a :: l) = true → ∀ x ∈ l, a < x
  | _, [], _, x, hx => by cases hx
  | a, b :: r, h, x, hx => by
    simp only [strictSorted, Bool.and_eq_true, decide_eq_true_eq] at h
    rcases List.mem_cons.1 hx with rfl | hx
    · exact h.1
    · exact Nat.lt_trans h.1 (strictSorted_lt b r h.2 x hx)

theorem strictSorted_tail {a : Nat} {l : List Nat} (h : strictSorted (a :: l) = true) : strictSorted l = true := by
  cases l with
  | nil => rfl
  | cons b r => simp only [strictSorted, Bool.and_eq_true] at h; exact h.2

theorem find?_of_sorted : ∀ (l : List (Nat × Nat × Nat)) (nm : Nat) (t : Nat × Nat),
    strictSorted (l.map (·.1)) = true → (nm, t) ∈ l → l.find? (fun e => e.1 == nm) = some (nm, t)
  | [], _, _, _, h => by cases h
  | e :: r, nm, t, hs, h => by
    simp only [List.map_cons] at hs
    rcases List.mem_cons.1 h with rfl | h
    · simp
    · have hlt := strictSorted_lt e.1 (r.map (·.1)) hs nm (List.mem_map.2 ⟨_, h, rfl⟩)
      have hne : (e.1 == nm) = false := by simp; omega
      rw [List.find?_cons, hne]
      exact find?_of_sorted r nm t (strictSorted_tail hs) h

theorem lookupProp_lone {nm : Nat} {t : Nat × Nat} (hm : (nm, t) ∈ Oracle.acceptedLone) :
    ES.lookupProp 0 nm = some (Packed.decode t.2 t.1) := by
  simp only [ES.lookupProp, find?_of_sorted _ nm t names_lone_sorted hm]
theorem lookupProp_gc {nm : Nat} {t : Nat × Nat} (hm : (nm, t) ∈ Oracle.acceptedGc) :
    ES.lookupProp 1 nm = some (Packed.decode t.2 t.1) := by
  simp only [ES.lookupProp, find?_of_sorted _ nm t names_gc_sorted hm]
theorem lookupProp_sc {nm : Nat} {t : Nat × Nat} (hm : (nm, t) ∈ Oracle.acceptedSc) :
    ES.lookupProp 2 nm = some (Packed.decode t.2 t.1) := by
  simp only [ES.lookupProp, find?_of_sorted _ nm t names_sc_sorted hm]
theorem lookupProp_scx {nm : Nat} {t : Nat × Nat} (hm : (nm, t) ∈ Oracle.acceptedScx) :
    ES.lookupProp 3 nm = some (Packed.decode t.2 t.1) := by
  simp only [ES.lookupProp, find?_of_sorted _ nm t names_scx_sorted hm]

theorem propertyFromStr_us {s : Nat} {nm : Option Nat} {p l : Nat}
    (h : Props.propertyFromStr s nm true = some (.charClass p l)) :
    Props.propertyFromStr s nm false = some (.charClass p l) := by
  cases nm with
  | some k => rcases k with _ | _ | k <;> simpa [Props.propertyFromStr] using h
  | none =>
    simp only [Props.propertyFromStr] at h ⊢
    cases hb : Props.lookup3 Gen.binaryNames s with
    | some t => simpa [hb] using h
    | none =>
      simp only [hb, if_true] at h ⊢
      cases hst : Props.lookup2 Gen.stringNames s with
      | some i => simp [hst] at h
      | none => simpa [hst] using h

/-- A property escape that lowers to a code point table: the specification's snapshot has the same
name with the same (well-formed) table. -/
theorem lowerProp_charClass {us : Bool} {kind name : Nat} {cps : IvList}
    (h : lowerProp us kind name = .ok (.charClass cps)) :
    ∃ ivs, ES.lookupProp kind name = some ivs ∧ cps = ivsOfPairs ivs ∧ Packed.wf ivs = true := by
  simp only [lowerProp] at h
  cases hk : propName kind with
  | none => simp [hk] at h
  | some nm =>
    simp only [hk] at h
    cases hp : Props.propertyFromStr name nm us with
    | none => simp [hp] at h
    | some k =>
      cases k with
      | stringSet idx =>
        simp only [hp] at h
        split at h <;> cases h
      | charClass p len =>
        simp only [hp, Except.ok.injEq, PropKind.charClass.injEq] at h
        subst h
        have hp' : Props.propertyFromStr name nm false = some (.charClass p len) := by
          cases us
          · exact hp
          · exact propertyFromStr_us hp
        refine ⟨Packed.decode len p, ?_, rfl, ?_⟩
        · match kind, hk with
          | 0, hk =>
            simp only [propName, Option.some.injEq] at hk; subst hk
            have hr : Props.resolve 0 name = some (p, len) := by simp [Props.resolve, hp']
            exact lookupProp_lone (C11.lone_sound name _ hr)
          | 1, hk =>
            simp only [propName, Option.some.injEq] at hk; subst hk
            have hr : Props.resolve 1 name = some (p, len) := by simp [Props.resolve, hp']
            exact lookupProp_gc (C11.gc_sound name _ hr)
          | 2, hk =>
            simp only [propName, Option.some.injEq] at hk; subst hk
            have hr : Props.resolve 2 name = some (p, len) := by simp [Props.resolve, hp']
            exact lookupProp_sc (C11.sc_sound name _ hr)
          | 3, hk =>
            simp only [propName, Option.some.injEq] at hk; subst hk
            have hr : Props.resolve 3 name = some (p, len) := by simp [Props.resolve, hp']
            exact lookupProp_scx (C11.scx_sound name _ hr)
        · match kind, hk with
          | 0, hk =>
            simp only [propName, Option.some.injEq] at hk; subst hk
            have hr : Props.resolve 0 name = some (p, len) := by simp [Props.resolve, hp']
            exact List.all_eq_true.1 tables_lone_wf _ (C11.lone_sound name _ hr)
          | 1, hk =>
            simp only [propName, Option.some.injEq] at hk; subst hk
            have hr : Props.resolve 1 name = some (p, len) := by simp [Props.resolve, hp']
            exact List.all_eq_true.1 tables_gc_wf _ (C11.gc_sound name _ hr)
          | 2, hk =>
            simp only [propName, Option.some.injEq] at hk; subst hk
            have hr : Props.resolve 2 name = some (p, len) := by simp [Props.resolve, hp']
            exact List.all_eq_true.1 tables_sc_wf _ (C11.sc_sound name _ hr)
          | 3, hk =>
            simp only [propName, Option.some.injEq] at hk; subst hk
            have hr : Props.resolve 3 name = some (p, len) := by simp [Props.resolve, hp']
            exact List.all_eq_true.1 tables_scx_wf _ (C11.scx_sound name _ hr)

/-- Without `i`, `\p{…}` / `\P{…}` of the specification against the table (and its complement). -/
theorem den_propEscape {rer : ES.RER} (hic : rer.unicodeSets = false ∨ rer.ignoreCase = false) {us : Bool}
    {kind name : Nat} {cps : IvList} (h : lowerProp us kind name = .ok (.charClass cps)) :
    Den (ES.propEscape rer false kind name).chars cps ∧
      Den (ES.propEscape rer true kind name).chars (inverted cps) ∧
      (∀ neg, (ES.propEscape rer neg kind name).strs = []) := by
  obtain ⟨ivs, hl, rfl, hw⟩ := lowerProp_charClass h
  have hmsf : ∀ A : ES.CharSet, ES.maybeSimpleCaseFolding rer A = A := by
    intro A; rcases hic with h | h <;> simp [ES.maybeSimpleCaseFolding, h]
  have hall : ∀ c, (ES.allCharacters rer).chars c = decide (c ≤ 0x10FFFF) := by
    intro c; rcases hic with h | h <;> simp [ES.allCharacters, h]
  have hpos : Den (ES.propEscape rer false kind name).chars (ivsOfPairs ivs) := by
    refine (den_table hw).congr (fun c _ => ?_)
    simp [ES.propEscape, ES.propCharSet, hl, hmsf, ES.CharSet.ofIntervals, Packed.mem]
  refine ⟨hpos, ?_, ?_⟩
  · refine (den_inverted hpos).congr (fun c _ => ?_)
    simp [ES.propEscape, ES.characterComplement, hall]
  · intro neg
    cases neg <;>
      simp [ES.propEscape, ES.propCharSet, hl, hmsf, ES.CharSet.ofIntervals, ES.characterComplement]

end Regress.Lower
