import Proofs.Lemmas.RoundTripGroups
/-!
# Round trip, part 6: group names

`try_consume_named_capture_group_name` reads a printed name back (`tryConsumeName_print`); the named
capture group `(?<name> … )` (`atom_named_group`) and the named back-reference `\k<name>` (`atom_nref`).
-/
namespace Regress.RoundTrip
open Regress Regress.IR Regress.Parse Regress.Lower Regress.Print

/-! ## Facts about the identifier tables (checked by evaluation) -/

theorem idStart_5C : isIdStart 0x5C = false := by decide +kernel
theorem idStart_3D : isIdStart 0x3D = false := by decide +kernel
theorem idStart_21 : isIdStart 0x21 = false := by decide +kernel
theorem idStart_3E : isIdStart 0x3E = false := by decide +kernel
theorem idStart_5B : isIdStart 0x5B = false := by decide +kernel
theorem idStart_28 : isIdStart 0x28 = false := by decide +kernel
theorem idStart_29 : isIdStart 0x29 = false := by decide +kernel
theorem idStart_7C : isIdStart 0x7C = false := by decide +kernel
theorem idCont_5C : isIdContinue 0x5C = false := by decide +kernel
theorem idCont_3E : isIdContinue 0x3E = false := by decide +kernel
theorem idCont_5B : isIdContinue 0x5B = false := by decide +kernel
theorem idCont_28 : isIdContinue 0x28 = false := by decide +kernel
theorem idCont_29 : isIdContinue 0x29 = false := by decide +kernel
theorem idCont_7C : isIdContinue 0x7C = false := by decide +kernel

theorem ne_of_pred {p : Nat → Bool} {c k : Nat} (h : p c = true) (hk : p k = false) : c ≠ k := by
  intro he; subst he; rw [h] at hk; cases hk

/-- The characters after the first of a printed name. -/
def NameTail (cs : List Nat) : Prop := ∀ d ∈ cs, isChar d = true ∧ isIdContinue d = true

theorem nameOK_cons {c : Nat} {cs : List Nat} (h : nameOK (c :: cs) = true) :
    isChar c = true ∧ isIdStart c = true ∧ NameTail cs := by
  simp only [nameOK, Bool.and_eq_true, List.all_eq_true] at h
  exact ⟨h.1.1, h.1.2, fun d hd => h.2 d hd⟩

theorem nameOK_ne_nil {nm : List Nat} (h : nameOK nm = true) : ∃ c cs, nm = c :: cs := by
  cases nm with
  | nil => simp [nameOK] at h
  | cons c cs => exact ⟨c, cs, rfl⟩

/-! ## `try_consume_named_capture_group_name` -/

theorem nameChar_plain {c : Nat} (rest : List Nat) (h1 : isChar c = true) (h2 : c ≠ 0x5C) :
    nameChar (c :: rest) = some (c, rest) := by
  simp [nameChar, h1, h2]

theorem nameLoop_print : ∀ (cs : List Nat) (fuel : Nat) (acc orig rest : List Nat), NameTail cs →
    cs.length < fuel →
    nameLoop fuel (cs ++ 0x3E :: rest) acc orig = .ok (some (acc ++ cs), rest) := by
  intro cs
  induction cs with
  | nil =>
    intro fuel acc orig rest _ hf
    obtain ⟨f, rfl⟩ : ∃ f, fuel = f + 1 := ⟨fuel - 1, by simp at hf; omega⟩
    simp [nameLoop]
  | cons d ds ih =>
    intro fuel acc orig rest ht hf
    obtain ⟨f, rfl⟩ : ∃ f, fuel = f + 1 := ⟨fuel - 1, by simp at hf; omega⟩
    obtain ⟨h1, h2⟩ := ht d (by simp)
    have h3 : d ≠ 0x5C := ne_of_pred h2 idCont_5C
    have h4 : d ≠ 0x3E := ne_of_pred h2 idCont_3E
    simp only [List.cons_append, nameLoop, nameChar_plain _ h1 h3]
    simp only [beq_iff_eq, h4, if_false, h2, if_true]
    rw [ih f (acc ++ [d]) orig rest (fun e he => ht e (by simp [he])) (by simp at hf; omega)]
    simp

/-- `<name>` is read back as `name`. -/
theorem tryConsumeName_print {nm : List Nat} (h : nameOK nm = true) (rest : List Nat) :
    tryConsumeName (0x3C :: (nm ++ 0x3E :: rest)) = .ok (some nm, rest) := by
  obtain ⟨c, cs, rfl⟩ := nameOK_ne_nil h
  obtain ⟨h1, h2, ht⟩ := nameOK_cons h
  have h3 : c ≠ 0x5C := ne_of_pred h2 idStart_5C
  simp only [tryConsumeName, List.cons_append, nameChar_plain _ h1 h3, h2, if_true]
  rw [nameLoop_print cs _ [c] _ rest ht (by simp; omega)]
  simp

section
variable {P : ES.Node} {T : Nat}

/-! ## Named capture groups -/

theorem atom_named_group {n : ES.Node} (idx : Nat) (nm : List Nat) (hd : DisjR P T n) :
    AtomR P T (.group idx (some nm) n) := by
  intro st x rest result f c0 hl hin hc hnd hinv hlim hlex hf
  simp only [lowerNode] at hl
  cases hbody : lowerNode P T n st.flags (st.groupCount + 1) with
  | error e => rw [hbody] at hl; cases hl
  | ok body =>
    rw [hbody] at hl
    simp only [Except.ok.injEq] at hl
    subst hl
    simp only [pr, groupOpen, List.append_assoc, List.cons_append, List.nil_append] at hin
    simp only [pr, groupOpen, List.length_append, List.length_cons, List.length_nil] at hf
    simp only [lexOK, Bool.and_eq_true] at hlex
    obtain rfl := head_eq hin hc
    obtain ⟨c, cs, rfl⟩ := nameOK_ne_nil hlex.1
    obtain ⟨h1, h2, ht⟩ := nameOK_cons hlex.1
    have hc3d : c ≠ 0x3D := ne_of_pred h2 idStart_3D
    have hc21 : c ≠ 0x21 := ne_of_pred h2 idStart_21
    obtain ⟨f', rfl⟩ : ∃ f', f = f' + 1 := ⟨f - 1, by omega⟩
    have hdp := hlim.depth
    have hlo := hlim.loops
    have hg := hlim.groups
    simp only [prDepth, countLoops, ES.countParens] at hdp hlo hg
    have hgc : ¬ (st.groupCount ≥ Gen.MAX_CAPTURE_GROUPS) := by omega
    have hd' := hd { st with input := pr .disj n ++ 0x29 :: rest, groupCount := st.groupCount + 1 } body
      (0x29 :: rest) f' hbody rfl (.inr ⟨rest, rfl⟩) (hinv.of_eq rfl rfl)
      ⟨by simp only; omega, by simp only; omega, by simp only; omega⟩ hlex.2 (by omega)
    have hname := tryConsumeName_print hlex.1 (pr .disj n ++ 0x29 :: rest)
    simp only [List.cons_append] at hin hname
    have e1 : ((0x3D : Nat) == c) = false := by simp; exact fun h => hc3d h.symm
    have e2 : ((0x21 : Nat) == c) = false := by simp; exact fun h => hc21 h.symm
    rw [consumeAtom]
    simp only [show ((0x28 : Nat) == 0x5E) = false from rfl, show ((0x28 : Nat) == 0x24) = false from rfl,
      show ((0x28 : Nat) == 0x5C) = false from rfl, show ((0x28 : Nat) == 0x2E) = false from rfl,
      show ((0x28 : Nat) == 0x28) = true from rfl, Bool.false_eq_true, if_false, if_true]
    simp only [tryConsumeStr, hin, stripPrefix?, show ((0x28 : Nat) == 0x28) = true from rfl,
      show ((0x3F : Nat) == 0x3F) = true from rfl, show ((0x3D : Nat) == 0x3C) = false from rfl,
      show ((0x21 : Nat) == 0x3C) = false from rfl, show ((0x3C : Nat) == 0x3C) = true from rfl,
      show ((0x3A : Nat) == 0x3C) = false from rfl, e1, e2, Bool.false_eq_true, if_false, if_true,
      modifierGroupHead, consume]
    simp only [hgc, if_false, hname]
    rw [hd']
    simp only [tryConsume, adv_input, show ((0x29 : Nat) == 0x29) = true from rfl, if_true]
    fin_atom

/-! ## Named back-references -/

theorem atom_nref (nm : List Nat) : AtomR P T (.nref nm) := by
  intro st x rest result f c0 hl hin hc hnd hinv hlim hlex hf
  simp only [lexOK] at hlex
  simp only [pr, List.append_assoc, List.cons_append, List.nil_append] at hin hf
  obtain rfl := head_eq hin hc
  obtain ⟨f', rfl⟩ : ∃ f', f = f' + 1 := ⟨f - 1, by simp at hf; omega⟩
  obtain ⟨l, hl1, hl2⟩ := hinv.named nm
  have hname := tryConsumeName_print hlex rest
  have hne : l ≠ [] := by
    intro h0
    subst h0
    simp only [List.map_nil] at hl1
    simp only [lowerNode, ← hl1] at hl
    cases hl
  have hnamed : st.named.isEmpty = false := by
    cases hn : st.named with
    | nil => rw [hn] at hl2; simp [mapGet, hne] at hl2
    | cons a b => rfl
  have hget : mapGet st.named nm = some l := by
    rw [hl2]; simp [hne]
  rw [adv_leaf st rest rfl rfl rfl, consumeAtom]
  have hesc : consumeAtomEscape { st with input := 0x6B :: 0x3C :: (nm ++ 0x3E :: rest) } =
      .ok (x, { st with input := rest }) := by
    unfold consumeAtomEscape
    simp only [show ((0x6B : Nat) == 0x64) = false from rfl, show ((0x6B : Nat) == 0x44) = false from rfl,
      show ((0x6B : Nat) == 0x73) = false from rfl, show ((0x6B : Nat) == 0x53) = false from rfl,
      show ((0x6B : Nat) == 0x77) = false from rfl, show ((0x6B : Nat) == 0x57) = false from rfl,
      show ((0x6B : Nat) == 0x70) = false from rfl, show ((0x6B : Nat) == 0x50) = false from rfl,
      show ((0x6B : Nat) == 0x6B) = true from rfl,
      show (decide ((0x31 : Nat) ≤ 0x6B) && decide ((0x6B : Nat) ≤ 0x39)) = false from rfl,
      Bool.or_self, Bool.false_and, Bool.false_eq_true, if_false, hnamed, Bool.not_false, Bool.or_true,
      Bool.true_and, if_true, hname, hget]
    simp only [lowerNode, ← hl1] at hl
    match l, hne, hl with
    | [i], _, hl =>
      simp only [List.map_cons, List.map_nil, Except.ok.injEq] at hl
      simp [hl]
    | i :: j :: k, _, hl =>
      simp only [List.map_cons, Except.ok.injEq] at hl
      simp [← hl]
  simp [consume, hin, hesc, quantifiable]

end

end Regress.RoundTrip
