import Proofs.Lemmas.LowerBase
/-!
# ES specification ⇒ IR semantics: states, captures, and the leaf matchers

* how `Rel` evolves under the capture-table operations of both sides (`setCapture` /
  `resetCaptures` against `setStart` / `setEnd` / `resetGroups`);
* `sim_charset`: `CharacterSetMatcher(rer, A, invert, direction)` against any IR node that is one
  `cursor::next` plus a test, given that the test decides "∃ a ∈ A. Canonicalize(a) = Canonicalize(ch)"
  (xor `invert`) on scalar values;
* assertions `^ $ \b \B`, the empty matcher, back-references (case-sensitive).
-/
namespace Regress.Lower

open Regress Regress.IR Regress.VM

/-! ## `Rel` under state updates -/

theorem Rel.boundary {cs : List Nat} {x : ES.State} {st : St} (h : Rel cs x st) : AtBoundary cs st.pos :=
  ⟨x.endIndex, h.idx, h.pos⟩

theorem Rel.withIdx {cs : List Nat} {x : ES.State} {st : St} (h : Rel cs x st) {e : Nat} (he : e ≤ cs.length) :
    Rel cs { x with endIndex := e } { st with pos := Utf8.off cs e } :=
  ⟨he, rfl, h.len, h.caps⟩

theorem Rel.look {cs : List Nat} {x y : ES.State} {st s : St} (hx : Rel cs x st) (hy : Rel cs y s) :
    Rel cs { endIndex := x.endIndex, captures := y.captures } { pos := st.pos, caps := s.caps } :=
  ⟨hx.idx, hx.pos, hy.len, hy.caps⟩

/-- An ES capture whose IR group is pristine is undefined. -/
theorem Rel.es_none {cs : List Nat} {x : ES.State} {st : St} (h : Rel cs x st) {i : Nat}
    (hi : st.caps[i]? = some (none, none)) : (x.captures[i]?).getD none = none := by
  have := h.caps i
  rw [hi] at this
  cases hx : (x.captures[i]?).getD none with
  | none => rfl
  | some p =>
    rw [hx] at this
    obtain ⟨a, b⟩ := p
    simp only [CapRel, Option.getD_some, Prod.mk.injEq] at this
    exact absurd this.2.2.1 (by simp)

theorem modify_getElem?_ne {α} (l : List α) (f : α → α) {i j : Nat} (h : i ≠ j) :
    (l.modify i f)[j]? = l[j]? := by
  rw [List.getElem?_modify]; simp [h]

theorem modify_getElem?_eq {α} (l : List α) (f : α → α) {i : Nat} {c : α} (h : l[i]? = some c) :
    (l.modify i f)[i]? = some (f c) := by
  rw [List.getElem?_modify, h]; simp

theorem lt_of_getElem?_some {α} {l : List α} {i : Nat} {c : α} (h : l[i]? = some c) : i < l.length :=
  (List.getElem?_eq_some_iff.1 h).1

theorem Rel.setStart_open {cs : List Nat} {x : ES.State} {st : St} (h : Rel cs x st) {id : Nat} (p : Nat)
    (hi : st.caps[id]? = some (none, none)) : Rel cs x (st.setStart id p) := by
  refine ⟨h.idx, h.pos, by simp [h.len], fun i => ?_⟩
  simp only [St.setStart]
  by_cases hid : id = i
  · subst hid
    rw [h.es_none hi, modify_getElem?_eq _ _ hi]
    exact Or.inr rfl
  · rw [modify_getElem?_ne _ _ hid]; exact h.caps i

theorem Rel.setEnd_open {cs : List Nat} {x : ES.State} {st : St} (h : Rel cs x st) {id : Nat} (p : Nat)
    (hi : st.caps[id]? = some (none, none)) : Rel cs x (st.setEnd id p) := by
  refine ⟨h.idx, h.pos, by simp [h.len], fun i => ?_⟩
  simp only [St.setEnd]
  by_cases hid : id = i
  · subst hid
    rw [h.es_none hi, modify_getElem?_eq _ _ hi]
    exact Or.inl rfl
  · rw [modify_getElem?_ne _ _ hid]; exact h.caps i

theorem setCapture_getElem?_ne (caps : List (Option (Nat × Nat))) (r : Option (Nat × Nat)) {id i : Nat}
    (h : id ≠ i) : (ES.setCapture caps (id + 1) r)[i]? = caps[i]? := by
  simp [ES.setCapture, List.getElem?_set, h]

theorem setCapture_getElem?_eq (caps : List (Option (Nat × Nat))) (r : Option (Nat × Nat)) {id : Nat}
    (h : id < caps.length) : (ES.setCapture caps (id + 1) r)[id]? = some r := by
  simp [ES.setCapture, List.getElem?_set, h]

/-- Closing a group, forward: `cap[id + 1] := (a, y.endIndex)` against `groups[id].end := pos`. -/
theorem Rel.close_fwd {cs : List Nat} {y : ES.State} {s : St} (h : Rel cs y s) {id a : Nat} {e0 : Option Nat}
    (hi : s.caps[id]? = some (some (Utf8.off cs a), e0)) (ha : a ≤ y.endIndex) :
    Rel cs { endIndex := y.endIndex, captures := ES.setCapture y.captures (id + 1) (some (a, y.endIndex)) }
      (s.setEnd id s.pos) := by
  refine ⟨h.idx, h.pos, by simp [ES.setCapture, h.len], fun i => ?_⟩
  simp only [St.setEnd]
  by_cases hid : id = i
  · subst hid
    have hlt : id < s.caps.length := lt_of_getElem?_some hi
    rw [modify_getElem?_eq _ _ hi, setCapture_getElem?_eq _ _ (by rw [h.len]; exact hlt)]
    exact ⟨ha, h.idx, by simp [h.pos]⟩
  · rw [modify_getElem?_ne _ _ hid, setCapture_getElem?_ne _ _ hid]; exact h.caps i

/-- Closing a group, backward: `cap[id + 1] := (y.endIndex, b)` against `groups[id].start := pos`. -/
theorem Rel.close_bwd {cs : List Nat} {y : ES.State} {s : St} (h : Rel cs y s) {id b : Nat} {s0 : Option Nat}
    (hi : s.caps[id]? = some (s0, some (Utf8.off cs b))) (hb : y.endIndex ≤ b) (hbl : b ≤ cs.length) :
    Rel cs { endIndex := y.endIndex, captures := ES.setCapture y.captures (id + 1) (some (y.endIndex, b)) }
      (s.setStart id s.pos) := by
  refine ⟨h.idx, h.pos, by simp [ES.setCapture, h.len], fun i => ?_⟩
  simp only [St.setStart]
  by_cases hid : id = i
  · subst hid
    have hlt : id < s.caps.length := lt_of_getElem?_some hi
    rw [modify_getElem?_eq _ _ hi, setCapture_getElem?_eq _ _ (by rw [h.len]; exact hlt)]
    exact ⟨hb, hbl, by simp [h.pos]⟩
  · rw [modify_getElem?_ne _ _ hid, setCapture_getElem?_ne _ _ hid]; exact h.caps i

theorem resetCaptures_length (caps : List (Option (Nat × Nat))) (pi : Nat) :
    ∀ pc, (ES.resetCaptures caps pi pc).length = caps.length := by
  intro pc
  induction pc generalizing caps with
  | zero => rfl
  | succ k ih => simp [ES.resetCaptures, ih, ES.setCapture]

theorem resetCaptures_getElem? (pi : Nat) : ∀ (pc : Nat) (caps : List (Option (Nat × Nat))) (i : Nat),
    (ES.resetCaptures caps pi pc)[i]? =
      if pi ≤ i ∧ i < pi + pc then (caps[i]?).map (fun _ => none) else caps[i]? := by
  intro pc
  induction pc with
  | zero =>
    intro caps i
    have : ¬ (pi ≤ i ∧ i < pi + 0) := by omega
    rw [if_neg this]; rfl
  | succ k ih =>
    intro caps i
    simp only [ES.resetCaptures, ih, ES.setCapture, Nat.add_one_ne_zero, if_false, Nat.add_sub_cancel,
      List.getElem?_set]
    by_cases h1 : pi ≤ i ∧ i < pi + k
    · have h2 : pi ≤ i ∧ i < pi + (k + 1) := ⟨h1.1, by omega⟩
      have h3 : pi + k ≠ i := by omega
      simp [h1, h2, h3]
    · by_cases h3 : pi + k = i
      · have h2 : pi ≤ i ∧ i < pi + (k + 1) := by omega
        subst h3
        simp only [h1, if_false, h2, if_true]
        by_cases hl : pi + k < caps.length
        · simp [hl]
        · simp [hl, List.getElem?_eq_none (Nat.le_of_not_lt hl)]
      · have h2 : ¬ (pi ≤ i ∧ i < pi + (k + 1)) := by omega
        simp [h1, h2, h3]

/-- Resetting the captures of a quantified atom on both sides. -/
theorem Rel.reset {cs : List Nat} {x : ES.State} {st : St} (h : Rel cs x st) (pi pc : Nat) :
    Rel cs { x with captures := ES.resetCaptures x.captures pi pc } (st.resetGroups pi (pi + pc)) := by
  refine ⟨h.idx, h.pos, by simp [resetCaptures_length, h.len], fun i => ?_⟩
  simp only [St.resetGroups, resetFrom_getElem?, resetCaptures_getElem?, Nat.zero_add]
  by_cases hr : pi ≤ i ∧ i < pi + pc
  · simp only [hr, and_self, if_true]
    cases hx : x.captures[i]? <;> cases hs : st.caps[i]? <;> simp [CapRel]
  · simp only [hr, if_false]
    have := h.caps i
    cases hs : st.caps[i]? with
    | none => rw [hs] at this; simpa using this
    | some c => rw [hs] at this; simpa using this

theorem Fresh.reset (st : St) (lo hi : Nat) (h : hi ≤ st.caps.length) : Fresh (st.resetGroups lo hi) lo hi := by
  refine ⟨by simp [h], fun i h1 h2 => ?_⟩
  simp only [St.resetGroups, resetFrom_getElem?, Nat.zero_add]
  have : i < st.caps.length := by omega
  simp [List.getElem?_eq_getElem this, h1, h2]

/-! ## The empty matcher -/

theorem sim_empty (inp : Input) (cs : List Nat) (total : Nat) (ir : Node) (fwd : Bool) (lo hi : Nat)
    (hsem : ∀ st, sem inp ir fwd st = [st]) : Sim inp cs total ES.emptyMatcher ir fwd lo hi := by
  intro fuel x st c k hr _ _ hc
  rw [hsem]
  simp only [ES.emptyMatcher, List.findSome?_cons, List.findSome?_nil]
  have := hc x st (by rw [hsem]; simp) hr
  cases hk : k st <;> simpa [hk] using this

/-! ## A zero-width test -/

theorem sim_guard (inp : Input) (cs : List Nat) (total : Nat) (m : ES.Matcher) (ir : Node) (fwd : Bool) (lo hi : Nat)
    (t : St → Bool) (hsem : ∀ st, sem inp ir fwd st = guardSt st (t st))
    (hm : ∀ fuel x c st, Rel cs x st → m.run fuel x c = if t st then c x else .failure) :
    Sim inp cs total m ir fwd lo hi := by
  intro fuel x st c k hr _ _ hc
  rw [hsem, findSome?_guardSt, hm fuel x c st hr]
  by_cases hb : t st = true
  · simp only [hb, if_true]
    exact hc x st (by rw [hsem, hb]; simp [guardSt]) hr
  · simp only [hb]; rfl

/-! ## `CharacterSetMatcher` -/

theorem toArray_getD (cs : List Nat) {k : Nat} (hk : k < cs.length) : cs.toArray.getD k 0 = cs[k] := by
  simp [Array.getD, hk]

theorem charset_decide (found invert t : Bool) (h : (found != invert) = t) (r : ES.MatchResult) :
    (if (!invert && !found) = true then ES.MatchResult.failure
     else if (invert && found) = true then ES.MatchResult.failure else r) =
      if t = true then r else ES.MatchResult.failure := by
  subst h; cases found <;> cases invert <;> rfl

theorem sim_charset {inp : Input} {cs : List Nat} (ht : Utf8Text inp cs) (total : Nat) (rer : ES.RER) (A : ES.CharSet)
    (invert back : Bool) (test : Nat → Bool) (ir : Node) (lo hi : Nat)
    (hsem : ∀ st, sem inp ir (!back) st = optSt st (charStep inp (!back) st.pos test))
    (htest : ∀ ch, Utf8.isScalar ch = true → ((ES.existsCanonMember rer A ch) != invert) = test ch) :
    Sim inp cs total (ES.characterSetMatcher cs.toArray rer A invert (dirOf back)) ir (!back) lo hi := by
  intro fuel x st c k hr _ _ hc
  have hcont : ∀ e, e ≤ cs.length → charStep inp (!back) st.pos test = some (Utf8.off cs e) →
      ResRel cs (c { x with endIndex := e }) (k { st with pos := Utf8.off cs e }) := by
    intro e he hstep
    exact hc _ _ (by rw [hsem, hstep]; simp [optSt]) (hr.withIdx he)
  rw [hsem, findSome?_optSt]
  have hidx := hr.idx
  have hpos := hr.pos
  cases back with
  | false =>
    simp only [dirOf_false, Bool.not_false] at hcont ⊢
    simp only [ES.characterSetMatcher, reduceCtorEq, false_and, true_and, false_or, if_true,
      List.size_toArray]
    by_cases hlt : x.endIndex < cs.length
    · have hns : ¬ (x.endIndex + 1 > cs.length) := by omega
      have hmin : min x.endIndex (x.endIndex + 1) = x.endIndex := by omega
      simp only [hns, if_false, hmin, toArray_getD cs hlt]
      have hstep := charStep_fwd_at ht hlt test
      rw [← hpos] at hstep
      have hsc := ht.scalar _ (List.getElem_mem hlt)
      have htt := htest _ hsc
      rw [hstep]
      rw [charset_decide _ _ _ htt]
      by_cases hte : test cs[x.endIndex] = true
      · simp only [hte, if_true]
        exact hcont (x.endIndex + 1) (by omega) (by rw [hstep, hte]; rfl)
      · simp only [hte]; rfl
    · have he : x.endIndex = cs.length := by omega
      have hns : x.endIndex + 1 > cs.length := by omega
      simp only [hns, if_true]
      have hstep := charStep_fwd_end ht test
      rw [← he, ← hpos] at hstep
      rw [hstep]; rfl
  | true =>
    simp only [dirOf_true, Bool.not_true] at hcont ⊢
    simp only [ES.characterSetMatcher, reduceCtorEq, false_and, true_and, or_false, if_false]
    by_cases h0 : x.endIndex = 0
    · simp only [h0, if_true]
      have hstep := charStep_bwd_start ht test
      rw [h0] at hpos
      rw [← hpos] at hstep
      rw [hstep]; rfl
    · have hpos0 : 0 < x.endIndex := by omega
      have hmin : min x.endIndex (x.endIndex - 1) = x.endIndex - 1 := by omega
      have hlt : x.endIndex - 1 < cs.length := by omega
      simp only [h0, if_false, hmin, toArray_getD cs hlt]
      have hstep := charStep_bwd_at ht hpos0 hidx test
      rw [← hpos] at hstep
      have hsc := ht.scalar _ (List.getElem_mem hlt)
      have htt := htest _ hsc
      rw [hstep]
      rw [charset_decide _ _ _ htt]
      by_cases hte : test cs[x.endIndex - 1] = true
      · simp only [hte, if_true]
        exact hcont (x.endIndex - 1) (by omega) (by rw [hstep, hte]; rfl)
      · simp only [hte]; rfl


/-! ## Peeking on well-formed text -/

theorem peekLeft_at {inp : Input} {cs : List Nat} (ht : Utf8Text inp cs) {k : Nat} (hk0 : 0 < k)
    (hk : k ≤ cs.length) : inp.peekLeft (Utf8.off cs k) = .ok (some (cs[k - 1]'(by omega))) := by
  have := next_bwd_at ht hk0 hk
  simp only [Cursor.next, Bool.false_eq_true, if_false] at this
  simp only [Input.peekLeft, this]

theorem peekLeft_start {inp : Input} {cs : List Nat} (ht : Utf8Text inp cs) :
    inp.peekLeft 0 = .ok none := by
  have := next_bwd_start ht
  simp only [Cursor.next, Bool.false_eq_true, if_false, Utf8.off_zero] at this
  simp only [Input.peekLeft, this]

theorem peekRight_at {inp : Input} {cs : List Nat} (ht : Utf8Text inp cs) {k : Nat} (hk : k < cs.length) :
    inp.peekRight (Utf8.off cs k) = .ok (some cs[k]) := by
  have := next_fwd_at ht hk
  simp only [Cursor.next, if_true] at this
  simp only [Input.peekRight, this]

theorem peekRight_end {inp : Input} {cs : List Nat} (ht : Utf8Text inp cs) :
    inp.peekRight (Utf8.off cs cs.length) = .ok none := by
  have := next_fwd_end ht
  simp only [Cursor.next, if_true] at this
  simp only [Input.peekRight, this]

theorem es_isLT_eq (c : Nat) : ES.isLineTerminator c = VM.isLineTerminator c := rfl

/-! ## `^` and `$` -/

theorem sim_bol {inp : Input} {cs : List Nat} (ht : Utf8Text inp cs) (total : Nat) (rer : ES.RER) (ml fwd : Bool)
    (hml : rer.multiline = ml) (lo hi : Nat) :
    Sim inp cs total (ES.bolMatcher cs.toArray rer) (.anchor true ml) fwd lo hi := by
  apply sim_guard inp cs total _ _ fwd lo hi (fun st => startOfLine inp ml st.pos)
  · intro st; simp only [sem, if_true]
  · intro fuel x c st hr
    simp only [ES.bolMatcher, hr.pos, hml]
    by_cases h0 : x.endIndex = 0
    · simp [h0, startOfLine, peekLeft_start ht]
    · have hpos : 0 < x.endIndex := by omega
      have hlt : x.endIndex - 1 < cs.length := by have := hr.idx; omega
      simp only [h0, false_or, startOfLine, peekLeft_at ht hpos hr.idx, toArray_getD cs hlt, es_isLT_eq]
      cases ml <;> simp

theorem sim_eol {inp : Input} {cs : List Nat} (ht : Utf8Text inp cs) (total : Nat) (rer : ES.RER) (ml fwd : Bool)
    (hml : rer.multiline = ml) (lo hi : Nat) :
    Sim inp cs total (ES.eolMatcher cs.toArray rer) (.anchor false ml) fwd lo hi := by
  apply sim_guard inp cs total _ _ fwd lo hi (fun st => endOfLine inp ml st.pos)
  · intro st; simp only [sem, Bool.false_eq_true, if_false]
  · intro fuel x c st hr
    simp only [ES.eolMatcher, hr.pos, hml, List.size_toArray]
    by_cases hl : x.endIndex = cs.length
    · simp [hl, endOfLine, peekRight_end ht]
    · have hlt : x.endIndex < cs.length := by have := hr.idx; omega
      simp only [hl, false_or, endOfLine, peekRight_at ht hlt, toArray_getD cs hlt, es_isLT_eq, hlt, true_and]
      cases ml <;> simp

/-! ## `\b` and `\B` -/

theorem isWordCharAt_left {inp : Input} {cs : List Nat} (ht : Utf8Text inp cs) (rer : ES.RER) (p : Nat → Bool)
    (hp : ∀ ch, Utf8.isScalar ch = true → (ES.wordCharacters rer).chars ch = p ch) {e : Nat} (he : e ≤ cs.length) :
    peekTest (inp.peekLeft (Utf8.off cs e)) p = some (ES.isWordCharAt cs.toArray rer e) := by
  by_cases h0 : e = 0
  · subst h0; simp [peekLeft_start ht, peekTest, ES.isWordCharAt]
  · have hpos : 0 < e := by omega
    have hlt : e - 1 < cs.length := by omega
    have hns : ¬ (e = 0 ∨ e - 1 ≥ cs.length) := by omega
    simp only [peekLeft_at ht hpos he, peekTest, ES.isWordCharAt, List.size_toArray, hns, if_false,
      toArray_getD cs hlt, hp _ (ht.scalar _ (List.getElem_mem hlt))]

theorem isWordCharAt_right {inp : Input} {cs : List Nat} (ht : Utf8Text inp cs) (rer : ES.RER) (p : Nat → Bool)
    (hp : ∀ ch, Utf8.isScalar ch = true → (ES.wordCharacters rer).chars ch = p ch) {e : Nat} (he : e ≤ cs.length) :
    peekTest (inp.peekRight (Utf8.off cs e)) p = some (ES.isWordCharAt cs.toArray rer (e + 1)) := by
  by_cases hl : e = cs.length
  · subst hl; simp [peekRight_end ht, peekTest, ES.isWordCharAt]
  · have hlt : e < cs.length := by omega
    have hns : ¬ (e + 1 = 0 ∨ e ≥ cs.length) := by omega
    simp only [peekRight_at ht hlt, peekTest, ES.isWordCharAt, List.size_toArray, hns, if_false,
      Nat.add_sub_cancel, toArray_getD cs hlt, hp _ (ht.scalar _ (List.getElem_mem hlt))]

theorem sim_wordBoundary {inp : Input} {cs : List Nat} (ht : Utf8Text inp cs) (total : Nat) (rer : ES.RER)
    (neg ui fwd : Bool) (lo hi : Nat)
    (hp : ∀ ch, Utf8.isScalar ch = true →
      (ES.wordCharacters rer).chars ch = (if ui then isWordCharUnicodeIcase else isWordChar) ch) :
    Sim inp cs total (ES.wordBoundaryMatcher cs.toArray rer neg) (.wordBoundary neg ui) fwd lo hi := by
  apply sim_guard inp cs total _ _ fwd lo hi (fun st => wordBoundary inp neg ui st.pos)
  · intro st; simp only [sem]
  · intro fuel x c st hr
    simp only [ES.wordBoundaryMatcher, wordBoundary, hr.pos,
      isWordCharAt_left ht rer _ hp hr.idx, isWordCharAt_right ht rer _ hp hr.idx]


/-! ## Back-references (case-sensitive) -/

theorem allBelow_iff (p : Nat → Bool) : ∀ n, ES.allBelow p n = true ↔ ∀ i, i < n → p i = true
  | 0 => by simp [ES.allBelow]
  | n + 1 => by
    simp only [ES.allBelow, Bool.and_eq_true, allBelow_iff p n]
    constructor
    · rintro ⟨h1, h2⟩ i hi
      by_cases h : i = n
      · subst h; exact h2
      · exact h1 i (by omega)
    · intro h; exact ⟨fun i hi => h i (by omega), h n (by omega)⟩

theorem canonicalize_id {rer : ES.RER} (h : rer.ignoreCase = false) (ch : Nat) : ES.canonicalize rer ch = ch := by
  simp [ES.canonicalize, h]

theorem sub_length (cs : List Nat) {rs len : Nat} (h : rs + len ≤ cs.length) :
    ((cs.drop rs).take len).length = len := by
  simp; omega

/-- The code points `[rs, rs+len)` are a prefix of the text from `e` on. -/
theorem prefix_sub_iff (cs : List Nat) {rs e len : Nat} (h1 : rs + len ≤ cs.length) (hel : e ≤ cs.length) :
    (cs.drop rs).take len <+: cs.drop e ↔
      e + len ≤ cs.length ∧ ∀ i, i < len → cs.toArray.getD (rs + i) 0 = cs.toArray.getD (e + i) 0 := by
  rw [List.prefix_iff_eq_take, sub_length cs h1]
  constructor
  · intro h
    have hl := congrArg List.length h
    simp only [List.length_take, List.length_drop] at hl
    have he : e + len ≤ cs.length := by omega
    refine ⟨he, fun i hi => ?_⟩
    have hi1 : rs + i < cs.length := by omega
    have hi2 : e + i < cs.length := by omega
    rw [toArray_getD cs hi1, toArray_getD cs hi2]
    have := congrArg (fun l => l[i]?) h
    simp only [List.getElem?_take, hi, if_true, List.getElem?_drop] at this
    rw [List.getElem?_eq_getElem hi1, List.getElem?_eq_getElem hi2] at this
    exact Option.some.inj this
  · rintro ⟨he, h⟩
    apply List.ext_getElem?
    intro i
    simp only [List.getElem?_take, List.getElem?_drop]
    by_cases hi : i < len
    · have hi1 : rs + i < cs.length := by omega
      have hi2 : e + i < cs.length := by omega
      have := h i hi
      rw [toArray_getD cs hi1, toArray_getD cs hi2] at this
      simp [hi, List.getElem?_eq_getElem hi1, List.getElem?_eq_getElem hi2, this]
    · simp [hi]

/-- The code points `[rs, rs+len)` are a suffix of the text up to `e`. -/
theorem suffix_sub_iff (cs : List Nat) {rs e len : Nat} (h1 : rs + len ≤ cs.length) (he : e ≤ cs.length) :
    (cs.drop rs).take len <:+ cs.take e ↔
      len ≤ e ∧ ∀ i, i < len → cs.toArray.getD (rs + i) 0 = cs.toArray.getD (e - len + i) 0 := by
  rw [List.suffix_iff_eq_drop, sub_length cs h1]
  constructor
  · intro h
    have hl := congrArg List.length h
    simp only [List.length_take, List.length_drop] at hl
    have hle : len ≤ e := by omega
    refine ⟨hle, fun i hi => ?_⟩
    have hi1 : rs + i < cs.length := by omega
    have hi2 : e - len + i < cs.length := by omega
    rw [toArray_getD cs hi1, toArray_getD cs hi2]
    have := congrArg (fun l => l[i]?) h
    simp only [List.getElem?_take, hi, if_true, List.getElem?_drop, List.length_take] at this
    have hmin : min e cs.length = e := by omega
    rw [hmin] at this
    have hlt : e - len + i < e := by omega
    simp only [hlt, if_true] at this
    rw [List.getElem?_eq_getElem hi1, List.getElem?_eq_getElem hi2] at this
    exact Option.some.inj this
  · rintro ⟨hle, h⟩
    apply List.ext_getElem?
    intro i
    simp only [List.getElem?_take, List.getElem?_drop, List.length_take]
    have hmin : min e cs.length = e := by omega
    rw [hmin]
    by_cases hi : i < len
    · have hi1 : rs + i < cs.length := by omega
      have hi2 : e - len + i < cs.length := by omega
      have hlt : e - len + i < e := by omega
      have := h i hi
      rw [toArray_getD cs hi1, toArray_getD cs hi2] at this
      simp [hi, hlt, List.getElem?_eq_getElem hi1, List.getElem?_eq_getElem hi2, this]
    · have hlt : ¬ (e - len + i < e) := by omega
      simp [hi, hlt]

/-- `backref` on the bytes of a capture against the comparison of code points. -/
theorem backRefStep_fwd {inp : Input} {cs : List Nat} (ht : Utf8Text inp cs) {rs re e : Nat} (h1 : rs ≤ re)
    (h2 : re ≤ cs.length) (he : e ≤ cs.length) :
    backRefStep inp false true (Utf8.off cs rs) (Utf8.off cs re) (Utf8.off cs e) =
      if e + (re - rs) ≤ cs.length ∧
          ES.allBelow (fun i => cs.toArray.getD (rs + i) 0 == cs.toArray.getD (e + i) 0) (re - rs) = true
      then some (Utf8.off cs (e + (re - rs))) else none := by
  have hoff : ¬ (Utf8.off cs re < Utf8.off cs rs) := Nat.not_lt.2 (Utf8.off_mono h1 h2)
  have hds : Utf8.AllScalar ((cs.drop rs).take (re - rs)) := allScalar_sub ht.scalar rs (re - rs)
  have hlen : rs + (re - rs) ≤ cs.length := by omega
  simp only [backRefStep, Bool.false_eq_true, if_false, backref, Input.subrangeEq, hoff, Utf8.subrangeEq,
    ht.bytes, slice_between cs h1]
  have key := Utf8.matchBytes_iff_chars ht.scalar hds e
  rw [sub_length cs hlen] at key
  have hp := prefix_sub_iff cs (e := e) hlen he
  by_cases hc : e + (re - rs) ≤ cs.length ∧
      ES.allBelow (fun i => cs.toArray.getD (rs + i) 0 == cs.toArray.getD (e + i) 0) (re - rs) = true
  · rw [if_pos hc]
    apply (key _).2
    refine ⟨hp.2 ⟨hc.1, fun i hi => ?_⟩, rfl⟩
    have := (allBelow_iff _ _).1 hc.2 i hi
    exact eq_of_beq this
  · rw [if_neg hc]
    cases hm : Utf8.matchBytes (Utf8.text cs) true (Utf8.off cs e) (Utf8.encodeAll ((cs.drop rs).take (re - rs))) with
    | none => rfl
    | some e' =>
      exfalso; apply hc
      obtain ⟨hpre, _⟩ := (key e').1 hm
      obtain ⟨hle, hall⟩ := hp.1 hpre
      exact ⟨hle, (allBelow_iff _ _).2 (fun i hi => by simp [hall i hi])⟩

theorem backRefStep_bwd {inp : Input} {cs : List Nat} (ht : Utf8Text inp cs) {rs re e : Nat} (h1 : rs ≤ re)
    (h2 : re ≤ cs.length) (he : e ≤ cs.length) :
    backRefStep inp false false (Utf8.off cs rs) (Utf8.off cs re) (Utf8.off cs e) =
      if (re - rs) ≤ e ∧
          ES.allBelow (fun i => cs.toArray.getD (rs + i) 0 == cs.toArray.getD (e - (re - rs) + i) 0) (re - rs) = true
      then some (Utf8.off cs (e - (re - rs))) else none := by
  have hoff : ¬ (Utf8.off cs re < Utf8.off cs rs) := Nat.not_lt.2 (Utf8.off_mono h1 h2)
  have hds : Utf8.AllScalar ((cs.drop rs).take (re - rs)) := allScalar_sub ht.scalar rs (re - rs)
  have hlen : rs + (re - rs) ≤ cs.length := by omega
  simp only [backRefStep, Bool.false_eq_true, if_false, backref, Input.subrangeEq, hoff, Utf8.subrangeEq,
    ht.bytes, slice_between cs h1]
  have key := Utf8.matchBytes_back_iff_chars ht.scalar hds he
  rw [sub_length cs hlen] at key
  have hp := suffix_sub_iff cs (e := e) hlen he
  by_cases hc : (re - rs) ≤ e ∧
      ES.allBelow (fun i => cs.toArray.getD (rs + i) 0 == cs.toArray.getD (e - (re - rs) + i) 0) (re - rs) = true
  · rw [if_pos hc]
    apply (key _).2
    refine ⟨hp.2 ⟨hc.1, fun i hi => ?_⟩, rfl⟩
    have := (allBelow_iff _ _).1 hc.2 i hi
    exact eq_of_beq this
  · rw [if_neg hc]
    cases hm : Utf8.matchBytes (Utf8.text cs) false (Utf8.off cs e) (Utf8.encodeAll ((cs.drop rs).take (re - rs))) with
    | none => rfl
    | some e' =>
      exfalso; apply hc
      obtain ⟨hpre, _⟩ := (key e').1 hm
      obtain ⟨hle, hall⟩ := hp.1 hpre
      exact ⟨hle, (allBelow_iff _ _).2 (fun i hi => by simp [hall i hi])⟩


theorem getCapture_eq (caps : List (Option (Nat × Nat))) {n : Nat} (hn : 1 ≤ n) :
    ES.getCapture caps n = (caps[n - 1]?).getD none := by
  have : n ≠ 0 := by omega
  simp [ES.getCapture, this, List.getD_eq_getElem?_getD]

/-- Back-references, given what `backRefStep` computes in terms of `Canonicalize` (`canon`). -/
theorem sim_backref_gen {inp : Input} {cs : List Nat} (total : Nat) (rer : ES.RER) (icase : Bool)
    (canon : Nat → Nat) (hcanon : ∀ ch, ES.canonicalize rer ch = canon ch)
    (hF : ∀ {rs re e : Nat}, rs ≤ re → re ≤ cs.length → e ≤ cs.length →
      backRefStep inp icase true (Utf8.off cs rs) (Utf8.off cs re) (Utf8.off cs e) =
        if e + (re - rs) ≤ cs.length ∧
            ES.allBelow (fun i => canon (cs.toArray.getD (rs + i) 0) == canon (cs.toArray.getD (e + i) 0)) (re - rs) = true
        then some (Utf8.off cs (e + (re - rs))) else none)
    (hB : ∀ {rs re e : Nat}, rs ≤ re → re ≤ cs.length → e ≤ cs.length →
      backRefStep inp icase false (Utf8.off cs rs) (Utf8.off cs re) (Utf8.off cs e) =
        if (re - rs) ≤ e ∧
            ES.allBelow (fun i => canon (cs.toArray.getD (rs + i) 0) ==
              canon (cs.toArray.getD (e - (re - rs) + i) 0)) (re - rs) = true
        then some (Utf8.off cs (e - (re - rs))) else none)
    (n : Nat) (hn1 : 1 ≤ n) (hn2 : n ≤ total) (back : Bool) (lo hi : Nat) :
    Sim inp cs total (ES.backreferenceMatcher cs.toArray rer [n] (dirOf back)) (.backRef n icase) (!back) lo hi := by
  intro fuel x st c k hr hl _ hc
  have hn0 : (n == 0) = false := by simp; omega
  have hlt : n - 1 < st.caps.length := by omega
  have hcap := hr.caps (n - 1)
  rw [List.getElem?_eq_getElem hlt] at hcap
  simp only [Option.getD_some] at hcap
  have hsem : sem inp (.backRef n icase) (!back) st =
      match st.caps[n - 1] with
      | (some rs, some re) => optSt st (backRefStep inp icase (!back) rs re st.pos)
      | _ => [st] := by
    simp only [sem, hn0, Bool.false_eq_true, if_false, List.getElem?_eq_getElem hlt]
    split <;> simp_all
  simp only [ES.backreferenceMatcher, List.foldl_cons, List.foldl_nil, getCapture_eq _ hn1]
  cases he : (x.captures[n - 1]?).getD none with
  | none =>
    rw [he] at hcap
    simp only
    have hsem' : sem inp (.backRef n icase) (!back) st = [st] := by
      rw [hsem]
      rcases hcap with h | h
      · split
        · rename_i heq; rw [heq] at h; cases h
        · rfl
      · split
        · rename_i heq; rw [heq] at h; cases h
        · rfl
    rw [hsem']
    simp only [List.findSome?_cons, List.findSome?_nil]
    have := hc x st (by rw [hsem']; simp) hr
    cases hk : k st <;> simpa [hk] using this
  | some p =>
    obtain ⟨rs, re⟩ := p
    rw [he] at hcap
    obtain ⟨h1, h2, hceq⟩ := hcap
    have hsem' : sem inp (.backRef n icase) (!back) st =
        optSt st (backRefStep inp icase (!back) (Utf8.off cs rs) (Utf8.off cs re) st.pos) := by
      rw [hsem, hceq]
    rw [hsem', findSome?_optSt]
    have hcont : ∀ e, e ≤ cs.length →
        backRefStep inp icase (!back) (Utf8.off cs rs) (Utf8.off cs re) st.pos = some (Utf8.off cs e) →
        ResRel cs (c { x with endIndex := e }) (k { st with pos := Utf8.off cs e }) := by
      intro e hel hstep
      exact hc _ _ (by rw [hsem', hstep]; simp [optSt]) (hr.withIdx hel)
    simp only [hcanon, List.size_toArray]
    have hidx := hr.idx
    cases back with
    | false =>
      simp only [dirOf_false, Bool.not_false, reduceCtorEq, false_and, true_and, false_or, if_true] at hcont ⊢
      have hstep := hF h1 h2 hidx
      rw [← hr.pos] at hstep
      have hmin : min x.endIndex (x.endIndex + (re - rs)) = x.endIndex := by omega
      rw [hmin]
      by_cases hov : x.endIndex + (re - rs) > cs.length
      · have : ¬ (x.endIndex + (re - rs) ≤ cs.length ∧
            ES.allBelow (fun i => canon (cs.toArray.getD (rs + i) 0) == canon (cs.toArray.getD (x.endIndex + i) 0)) (re - rs) = true) :=
          fun h => by omega
        rw [if_neg this] at hstep
        simp only [hov, if_true, hstep]; rfl
      · simp only [hov, if_false]
        by_cases hall : ES.allBelow (fun i => canon (cs.toArray.getD (rs + i) 0) ==
            canon (cs.toArray.getD (x.endIndex + i) 0)) (re - rs) = true
        · rw [if_pos ⟨by omega, hall⟩] at hstep
          simp only [hall, if_true, hstep]
          exact hcont _ (by omega) hstep
        · rw [if_neg (fun h => hall h.2)] at hstep
          simp only [hall, hstep]; rfl
    | true =>
      simp only [dirOf_true, Bool.not_true, reduceCtorEq, false_and, true_and, or_false, if_false] at hcont ⊢
      have hstep := hB h1 h2 hidx
      rw [← hr.pos] at hstep
      have hmin : min x.endIndex (x.endIndex - (re - rs)) = x.endIndex - (re - rs) := by omega
      rw [hmin]
      by_cases hov : x.endIndex < re - rs
      · have : ¬ ((re - rs) ≤ x.endIndex ∧
            ES.allBelow (fun i => canon (cs.toArray.getD (rs + i) 0) ==
              canon (cs.toArray.getD (x.endIndex - (re - rs) + i) 0)) (re - rs) = true) :=
          fun h => by omega
        rw [if_neg this] at hstep
        simp only [hov, if_true, hstep]; rfl
      · simp only [hov, if_false]
        by_cases hall : ES.allBelow (fun i => canon (cs.toArray.getD (rs + i) 0) ==
            canon (cs.toArray.getD (x.endIndex - (re - rs) + i) 0)) (re - rs) = true
        · rw [if_pos ⟨by omega, hall⟩] at hstep
          simp only [hall, if_true, hstep]
          exact hcont _ (by omega) hstep
        · rw [if_neg (fun h => hall h.2)] at hstep
          simp only [hall, hstep]; rfl

theorem sim_backref {inp : Input} {cs : List Nat} (ht : Utf8Text inp cs) (total : Nat) (rer : ES.RER)
    (hic : rer.ignoreCase = false) (n : Nat) (hn1 : 1 ≤ n) (hn2 : n ≤ total) (back : Bool) (lo hi : Nat) :
    Sim inp cs total (ES.backreferenceMatcher cs.toArray rer [n] (dirOf back)) (.backRef n false) (!back) lo hi :=
  sim_backref_gen total rer false id (fun ch => canonicalize_id hic ch)
    (fun h1 h2 he => backRefStep_fwd ht h1 h2 he) (fun h1 h2 he => backRefStep_bwd ht h1 h2 he) n hn1 hn2 back lo hi

/-! ## Without `i`: `Canonicalize` is the identity -/

theorem canonClass_noicase {rer : ES.RER} (h : rer.ignoreCase = false) (ch : Nat) : ES.canonClass rer ch = [ch] := by
  simp [ES.canonClass, h]

theorem existsCanonMember_noicase {rer : ES.RER} (h : rer.ignoreCase = false) (a : ES.CharSet) (ch : Nat) :
    ES.existsCanonMember rer a ch = a.chars ch := by
  simp [ES.existsCanonMember, canonClass_noicase h]

theorem isBasicWordChar_eq (c : Nat) : ES.isBasicWordChar c = VM.isWordChar c := by
  simp only [ES.isBasicWordChar, ES.isDigit, VM.isWordChar]

theorem wordCharacters_noicase {rer : ES.RER} (h : rer.ignoreCase = false) (ch : Nat) :
    (ES.wordCharacters rer).chars ch = VM.isWordChar ch := by
  simp [ES.wordCharacters, canonicalize_id h, isBasicWordChar_eq]

theorem isScalar_le' {c : Nat} (h : Utf8.isScalar c = true) : c ≤ 0x10FFFF := Utf8.isScalar_le h


end Regress.Lower
