import Proofs.Lemmas.SemUtf8
import Proofs.Lemmas.SemPasses
/-!
# Soundness of `compute_start_predicate` w.r.t. the IR semantics: helper lemmas
-/
namespace Regress.IR

open Regress.VM Regress AbstractStartPredicate

/-! ## The first-byte bitmap -/

theorem setByteRange_contains (bm : ByteBitmap) (lo hi b : Nat) :
    (setByteRange bm lo hi).contains b = (bm.contains b || decide (lo ≤ b ∧ b ≤ hi)) := by
  simp only [setByteRange, ByteBitmap.contains_foldl_set, List.mem_range'_1]
  congr 1
  rw [Bool.eq_iff_iff]; simp; omega

theorem rangeStep_contains (bm : ByteBitmap) (lo hi b : Nat) :
    (if lo ≤ hi then setByteRange bm (Utf8.firstByte lo) (Utf8.firstByte hi) else bm).contains b =
      (bm.contains b || decide (lo ≤ hi ∧ Utf8.firstByte lo ≤ b ∧ b ≤ Utf8.firstByte hi)) := by
  split
  · rename_i h; simp [setByteRange_contains, h]
  · rename_i h; simp [h]

theorem addFirstBytes_contains (first last : Nat) (bm : ByteBitmap) (b : Nat) :
    (addUtf8FirstBytesToBitmap first last bm).contains b =
      (bm.contains b || decide (b ∈ Utf8.firstBytesOfInterval first last)) := by
  simp only [addUtf8FirstBytesToBitmap, List.foldl_cons, List.foldl_nil, rangeStep_contains,
    Utf8.mem_firstBytesOfInterval]
  rw [Bool.eq_iff_iff]
  simp only [Bool.or_eq_true, decide_eq_true_eq, or_assoc]

theorem cpsToFirstByteBitmap_foldl (ivs : List (Nat × Nat)) (bm : ByteBitmap) (b : Nat) :
    (ivs.foldl (fun bm iv => addUtf8FirstBytesToBitmap iv.1 iv.2 bm) bm).contains b =
      (bm.contains b || decide (∃ iv ∈ ivs, b ∈ Utf8.firstBytesOfInterval iv.1 iv.2)) := by
  induction ivs generalizing bm with
  | nil => simp
  | cons iv ivs ih =>
    simp only [List.foldl_cons, ih, addFirstBytes_contains]
    rw [Bool.eq_iff_iff]; simp [or_assoc]

/-- The bitmap contains the lead byte of every member of the set. -/
theorem cpsToFirstByteBitmap_sound {ivs : List (Nat × Nat)} (hw : CPS.WF (toIvList ivs)) {c : Nat}
    (hc : CPS.mem (toIvList ivs) c) : (cpsToFirstByteBitmap ivs).contains (Utf8.firstByte c) = true := by
  simp only [cpsToFirstByteBitmap, cpsToFirstByteBitmap_foldl, ByteBitmap.contains_empty, Bool.false_or,
    decide_eq_true_eq]
  obtain ⟨iv, hm, h1, h2⟩ := hc
  simp only [toIvList, List.mem_map] at hm
  obtain ⟨iv', hm', rfl⟩ := hm
  have hle : iv'.2 ≤ 0x10FFFF :=
    (((CPS.WF_iff (toIvList ivs)).1 hw).1 ⟨iv'.1, iv'.2⟩ (by simp only [toIvList, List.mem_map]; exact ⟨iv', hm', rfl⟩)).2
  exact ⟨iv', hm', Utf8.firstByte_mem_interval h1 h2 hle⟩

/-! ## Zero-width nodes, first iterations -/

theorem loopIter_pos {body : St → List St} (q : Quant) (g0 g1 : Nat)
    (hb : ∀ s s', s' ∈ body s → s'.pos = s.pos) :
    ∀ k iter entry st s, s ∈ loopIter body q g0 g1 k iter entry st → s.pos = st.pos := by
  intro k
  induction k with
  | zero => intro _ _ _ _ h; simp [loopIter] at h
  | succ k ih =>
    intro iter entry st s h
    have taken : ∀ s, s ∈ (body (st.resetGroups g0 g1)).flatMap (loopIter body q g0 g1 k (iter + 1) st.pos) →
        s.pos = st.pos := by
      intro s hs
      obtain ⟨s1, h1, h2⟩ := List.mem_flatMap.1 hs
      rw [ih _ _ _ _ h2, hb _ _ h1]; rfl
    simp only [loopIter] at h
    split at h
    · simp at h
    · split at h
      · simp at h
      · simp at h; rw [h]
      · exact taken s h
      · split at h
        · rcases List.mem_append.1 h with h | h
          · exact taken s h
          · simp at h; rw [h]
        · rcases List.mem_cons.1 h with h | h
          · rw [h]
          · exact taken s h

theorem loop1Iter_pos {body : St → List St} (q : Quant) (hb : ∀ s s', s' ∈ body s → s'.pos = s.pos) :
    ∀ k iter st s, s ∈ loop1Iter body q k iter st → s.pos = st.pos := by
  intro k
  induction k with
  | zero => intro _ _ _ h; simp [loop1Iter] at h
  | succ k ih =>
    intro iter st s h
    simp only [loop1Iter] at h
    split at h
    · simp at h
    · simp at h; rw [h]
    · rename_i st' heq _
      have hm : st' ∈ body st := by
        split at heq
        · exact List.mem_of_mem_head? heq
        · cases heq
      rw [ih _ _ _ h, hb _ _ hm]
    · rename_i st' heq _
      have hm : st' ∈ body st := by
        split at heq
        · exact List.mem_of_mem_head? heq
        · cases heq
      split at h
      · rcases List.mem_append.1 h with h | h
        · rw [ih _ _ _ h, hb _ _ hm]
        · simp at h; rw [h]
      · rcases List.mem_cons.1 h with h | h
        · rw [h]
        · rw [ih _ _ _ h, hb _ _ hm]

/-- A loop with `min > 0` that has a success ran its body at the entry position. -/
theorem loopIter_first {body : St → List St} {q : Quant} {g0 g1 k e : Nat} {st : St} (hmin : 0 < q.min)
    (h : loopIter body q g0 g1 k 0 e st ≠ []) : body (st.resetGroups g0 g1) ≠ [] := by
  cases k with
  | zero => simp [loopIter] at h
  | succ k =>
    have hge : decide (0 ≥ q.min) = false := by simp; omega
    have hng : ¬ (0 > q.min) := by omega
    simp only [loopIter, hge, hng, decide_false, Bool.and_false] at h
    intro hb
    rw [hb] at h
    cases hm : maxOk q 0 <;> simp [hm] at h

theorem loop1Iter_first {body : St → List St} {q : Quant} {k : Nat} {st : St} (hmin : 0 < q.min)
    (h : loop1Iter body q k 0 st ≠ []) : body st ≠ [] := by
  cases k with
  | zero => simp [loop1Iter] at h
  | succ k =>
    have hge : decide (0 ≥ q.min) = false := by simp; omega
    simp only [loop1Iter, hge] at h
    intro hb
    rw [hb] at h
    cases maxOk q 0 <;> simp at h

theorem optSt_ne_nil {st : St} {o : Option Nat} (h : optSt st o ≠ []) : ∃ p, o = some p := by
  cases o with
  | none => simp [optSt] at h
  | some p => exact ⟨p, rfl⟩

/-- A forward `match_bytes` success: the literal is a prefix of the rest of the input. -/
theorem matchBytes_fwd_prefix {inp : Input} {pos e : Nat} {lit : List Nat}
    (h : inp.matchBytes true pos lit = some e) : lit <+: restBytes inp pos := by
  unfold Input.matchBytes Utf8.matchBytes Utf8.tryMoveRight at h
  simp only [if_true] at h
  split at h
  · cases h
  · rename_i e' he
    split at he
    · cases he
    · cases he
      split at h
      · rename_i hs
        have hs' : Utf8.slice inp.bytes pos (pos + lit.length) = lit := by simpa using hs
        rw [Utf8.slice_eq] at hs'
        rw [← hs']
        exact List.take_prefix _ _
      · cases h

/-- A forward `byteStep` success: the byte at the position passes the test. -/
theorem byteStep_fwd_head {inp : Input} {pos e : Nat} {t : Nat → Bool} (h : byteStep inp true pos t = some e) :
    ∃ b, (restBytes inp pos).head? = some b ∧ t b = true := by
  unfold byteStep at h
  split at h
  · rename_i b pos' heq
    split at h
    · rename_i ht
      refine ⟨b, ?_, ht⟩
      unfold Cursor.nextByte at heq
      simp only [if_true] at heq
      unfold Input.peekByteRight Utf8.peekByteRight at heq
      by_cases h1 : pos > inp.bytes.size
      · simp [h1] at heq
      · by_cases h0 : pos = inp.bytes.size
        · simp [h0] at heq
        · rw [if_neg h1, if_neg (by simpa using h0)] at heq
          cases hb : inp.bytes[pos]? with
          | none => simp [hb] at heq
          | some b' =>
            simp [hb] at heq
            obtain ⟨rfl, _⟩ := heq
            have hlt := getElem?_some_lt hb
            simp only [restBytes]
            rw [List.head?_drop]
            simpa using hb
    · cases h
  · cases h

/-! ## `compute_start_predicate` is sound -/

theorem bracket_sound {inp : Input} {cs : List Nat} (ht : Utf8Text inp cs) (bc : Bracket)
    (hw : CPS.WF (toIvList bc.ivs)) {p e : Nat} (hb : AtBoundary cs p)
    (hs : charStep inp true p (bracketTest { invert := bc.invert, ivs := bc.ivs }) = some e) :
    ∃ h0, (restBytes inp p).head? = some h0 ∧
      (cpsToFirstByteBitmap (if bc.invert
        then (CPS.inverted (bc.ivs.map fun iv => { first := iv.1, last := iv.2 })).map fun iv => (iv.first, iv.last)
        else bc.ivs)).contains h0 = true := by
  obtain ⟨c, htest, hle, hhead⟩ := charStep_fwd_head ht hb hs
  refine ⟨_, hhead, ?_⟩
  unfold bracketTest at htest
  cases hinv : bc.invert with
  | false =>
    simp only [hinv, Bool.false_eq_true, if_false] at htest ⊢
    apply cpsToFirstByteBitmap_sound hw
    rw [← any_iff_mem]
    cases ha : (bc.ivs.any fun iv => decide (iv.1 ≤ c) && decide (c ≤ iv.2)) with
    | true => rfl
    | false => simp [ha] at htest
  | true =>
    simp only [hinv, if_true] at htest ⊢
    have hnm : ¬ CPS.mem (toIvList bc.ivs) c := by
      rw [← any_iff_mem]
      cases ha : (bc.ivs.any fun iv => decide (iv.1 ≤ c) && decide (c ≤ iv.2)) with
      | true => simp [ha] at htest
      | false => simp
    have hm : CPS.mem (CPS.inverted (toIvList bc.ivs)) c := (C12.inverted_mem hw hle).2 hnm
    have := cpsToFirstByteBitmap_sound (ivs := ofIvList (CPS.inverted (toIvList bc.ivs)))
      (by rw [toIvList_ofIvList]; exact C12.inverted_wf hw) (by rw [toIvList_ofIvList]; exact hm)
    exact this

mutual
theorem csp_sound {inp : Input} {cs : List Nat} (ht : Utf8Text inp cs) : ∀ (n : Node), WF n →
    (∀ P, computeStartPredicate n = .ok (some P) → ∀ st, AtBoundary cs st.pos → sem inp n true st ≠ [] →
        admits P (restBytes inp st.pos)) ∧
    (computeStartPredicate n = .ok none → ∀ st s, s ∈ sem inp n true st → s.pos = st.pos)
  | .byteSeq bv, _ => by
    refine ⟨?_, by simp [computeStartPredicate]⟩
    intro P hP st _ hne
    simp only [computeStartPredicate, Except.ok.injEq, Option.some.injEq] at hP; subst hP
    simp only [sem] at hne
    obtain ⟨e, he⟩ := optSt_ne_nil hne
    exact matchBytes_fwd_prefix he
  | .byteSet bytes, _ => by
    refine ⟨?_, by simp [computeStartPredicate]⟩
    intro P hP st _ hne
    simp only [computeStartPredicate, Except.ok.injEq, Option.some.injEq] at hP; subst hP
    simp only [sem] at hne
    obtain ⟨e, he⟩ := optSt_ne_nil hne
    obtain ⟨b, hb, htb⟩ := byteStep_fwd_head he
    exact ⟨b, hb, by rw [ByteBitmap.contains_new]; simpa using htb⟩
  | .empty, _ => ⟨fun P hP _ _ _ => by simp [computeStartPredicate] at hP; subst hP; trivial, by simp [computeStartPredicate]⟩
  | .goal, _ => ⟨fun P hP _ _ _ => by simp [computeStartPredicate] at hP; subst hP; trivial, by simp [computeStartPredicate]⟩
  | .backRef _ _, _ => ⟨fun P hP _ _ _ => by simp [computeStartPredicate] at hP; subst hP; trivial, by simp [computeStartPredicate]⟩
  | .stringSet _ _, _ => ⟨fun P hP _ _ _ => by simp [computeStartPredicate] at hP; subst hP; trivial, by simp [computeStartPredicate]⟩
  | .char _, _ => ⟨fun P hP _ _ _ => by simp [computeStartPredicate] at hP; subst hP; trivial, by simp [computeStartPredicate]⟩
  | .matchAny, _ => ⟨fun P hP _ _ _ => by simp [computeStartPredicate] at hP; subst hP; trivial, by simp [computeStartPredicate]⟩
  | .matchAnyExceptLT, _ => ⟨fun P hP _ _ _ => by simp [computeStartPredicate] at hP; subst hP; trivial, by simp [computeStartPredicate]⟩
  | .anchor _ _, _ => ⟨fun P hP _ _ _ => by simp [computeStartPredicate] at hP; subst hP; trivial, by simp [computeStartPredicate]⟩
  | .wordBoundary _ _, _ => ⟨fun P hP _ _ _ => by simp [computeStartPredicate] at hP; subst hP; trivial, by simp [computeStartPredicate]⟩
  | .charSet chars, _ => by
    refine ⟨?_, by simp [computeStartPredicate]⟩
    intro P hP st hb hne
    simp only [computeStartPredicate, Except.ok.injEq, Option.some.injEq] at hP; subst hP
    simp only [sem] at hne
    obtain ⟨e, he⟩ := optSt_ne_nil hne
    obtain ⟨c, htest, _, hhead⟩ := charStep_fwd_head ht hb he
    refine ⟨_, hhead, ?_⟩
    rw [ByteBitmap.contains_new, charsetContains_eq] at *
    simp only [decide_eq_true_eq, List.mem_map] at *
    exact ⟨c, htest, rfl⟩
  | .bracket bc, hw => by
    refine ⟨?_, by simp [computeStartPredicate]⟩
    intro P hP st hb hne
    simp only [computeStartPredicate, Except.ok.injEq, Option.some.injEq] at hP; subst hP
    simp only [sem] at hne
    obtain ⟨e, he⟩ := optSt_ne_nil hne
    simp only [WF] at hw
    exact bracket_sound ht bc hw hb he
  | .look _ _ _ _ _, _ => by
    refine ⟨by simp [computeStartPredicate], ?_⟩
    intro _ st s h
    simp only [sem] at h
    split at h
    · split at h <;> simp at h
      rw [h]
    · split at h <;> simp at h
      rw [h]
  | .cat ns, hw => by
    simp only [WF] at hw
    have ih := fsp_sound ht ns hw
    refine ⟨?_, ?_⟩
    · intro P hP st hb hne
      simp only [computeStartPredicate] at hP
      simp only [sem] at hne
      exact ih.1 P hP st hb hne
    · intro hN st s h
      simp only [computeStartPredicate] at hN
      simp only [sem] at h
      exact ih.2 hN st s h
  | .group id _ c, hw => by
    simp only [WF] at hw
    have ih := csp_sound ht c hw
    refine ⟨?_, ?_⟩
    · intro P hP st hb hne
      simp only [computeStartPredicate] at hP
      simp only [sem, if_true] at hne
      have hne' : sem inp c true (st.setStart id st.pos) ≠ [] := by
        intro hh; rw [hh] at hne; simp at hne
      exact ih.1 P hP (st.setStart id st.pos) hb hne'
    · intro hN st s h
      simp only [computeStartPredicate] at hN
      simp only [sem, if_true] at h
      obtain ⟨s1, h1, rfl⟩ := List.mem_map.1 h
      have := ih.2 hN _ _ h1
      simpa [St.setStart, St.setEnd] using this
  | .loop b q g0 g1, hw => by
    simp only [WF] at hw
    have ih := csp_sound ht b hw.1
    refine ⟨?_, ?_⟩
    · intro P hP st hb hne
      simp only [computeStartPredicate] at hP
      split at hP
      · rename_i hmin
        simp only [sem] at hne
        exact ih.1 P hP (st.resetGroups g0 g1) hb (loopIter_first hmin hne)
      · simp at hP; subst hP; trivial
    · intro hN st s h
      simp only [computeStartPredicate] at hN
      split at hN
      · simp only [sem] at h
        exact loopIter_pos q g0 g1 (fun s1 s2 h12 => ih.2 hN s1 s2 h12) _ _ _ _ _ h
      · simp at hN
  | .loop1 b q, hw => by
    simp only [WF] at hw
    have ih := csp_sound ht b hw.1
    refine ⟨?_, ?_⟩
    · intro P hP st hb hne
      simp only [computeStartPredicate] at hP
      split at hP
      · rename_i hmin
        simp only [sem] at hne
        exact ih.1 P hP st hb (loop1Iter_first hmin hne)
      · simp at hP; subst hP; trivial
    · intro hN st s h
      simp only [computeStartPredicate] at hN
      split at hN
      · simp only [sem] at h
        exact loop1Iter_pos q (fun s1 s2 h12 => ih.2 hN s1 s2 h12) _ _ _ _ h
      · simp at hN
  | .alt l r, hw => by
    simp only [WF] at hw
    have ihl := csp_sound ht l hw.1
    have ihr := csp_sound ht r hw.2
    refine ⟨?_, ?_⟩
    · intro P hP st hb hne
      simp only [computeStartPredicate] at hP
      split at hP
      · cases hP
      · rename_i x hx
        split at hP
        · cases hP
        · rename_i y hy
          split at hP
          · rename_i x' y'
            split at hP
            · cases hP
            · rename_i d hd
              simp only [Except.ok.injEq, Option.some.injEq] at hP; subst hP
              simp only [sem] at hne
              apply disjunction_admits x' y' _ _ hd
              by_cases hl : sem inp l true st = []
              · right
                rw [hl, List.nil_append] at hne
                exact ihr.1 y' hy st hb hne
              · left
                exact ihl.1 x' hx st hb hl
          · simp only [Except.ok.injEq, Option.some.injEq] at hP; subst hP; trivial
    · intro hN
      simp only [computeStartPredicate] at hN
      split at hN
      · cases hN
      · split at hN
        · cases hN
        · split at hN
          · split at hN <;> cases hN
          · cases hN
theorem fsp_sound {inp : Input} {cs : List Nat} (ht : Utf8Text inp cs) : ∀ (ns : List Node), WFList ns →
    (∀ P, firstStartPredicate ns = .ok (some P) → ∀ st, AtBoundary cs st.pos → semCat inp ns true st ≠ [] →
        admits P (restBytes inp st.pos)) ∧
    (firstStartPredicate ns = .ok none → ∀ st s, s ∈ semCat inp ns true st → s.pos = st.pos)
  | [], _ => by
    refine ⟨by simp [firstStartPredicate], ?_⟩
    intro _ st s h
    simp [semCat] at h; rw [h]
  | n :: ns, hw => by
    simp only [WFList] at hw
    have ih1 := csp_sound ht n hw.1
    have ih2 := fsp_sound ht ns hw.2
    refine ⟨?_, ?_⟩
    · intro P hP st hb hne
      simp only [firstStartPredicate] at hP
      simp only [semCat] at hne
      split at hP
      · cases hP
      · rename_i p hp
        simp only [Except.ok.injEq, Option.some.injEq] at hP; subst hP
        apply ih1.1 p hp st hb
        intro hh; rw [hh] at hne; simp at hne
      · rename_i hN
        have : ∃ s1 ∈ sem inp n true st, semCat inp ns true s1 ≠ [] := by
          apply Classical.byContradiction
          intro hcon
          apply hne
          rw [List.flatMap_eq_nil_iff]
          intro s1 hs1
          apply Classical.byContradiction
          intro hh
          exact hcon ⟨s1, hs1, hh⟩
        obtain ⟨s1, hs1, hne1⟩ := this
        have hpos := ih1.2 hN st s1 hs1
        have := ih2.1 P hP s1 (by rw [hpos]; exact hb) hne1
        rw [hpos] at this
        exact this
    · intro hN st s h
      simp only [firstStartPredicate] at hN
      simp only [semCat] at h
      split at hN
      · cases hN
      · cases hN
      · rename_i hN1
        obtain ⟨s1, h1, h2⟩ := List.mem_flatMap.1 h
        rw [ih2.2 hN _ _ h2, ih1.2 hN1 _ _ h1]
end

/-! ## `is_start_anchored` -/

theorem nextLeft_none {bytes : Array Nat} {pos : Nat} (h : Utf8.nextLeft bytes pos = .ok none) : pos = 0 := by
  unfold Utf8.nextLeft at h
  by_cases h0 : pos = 0
  · exact h0
  · rw [if_neg (by simpa using h0)] at h
    repeat' (split at h)
    all_goals first
      | (cases h; done)
      | (dsimp only at h; split at h <;> cases h)

theorem peekLeft_none {inp : Input} {pos : Nat} (h : inp.peekLeft pos = .ok none) : pos = 0 := by
  unfold Input.peekLeft at h
  split at h
  · cases h
  · rename_i heq
    unfold Input.nextLeft at heq
    cases hk : inp.kind with
    | utf8 => rw [hk] at heq; exact nextLeft_none heq
    | ascii =>
      rw [hk] at heq
      simp only at heq
      by_cases h0 : pos = 0
      · exact h0
      · rw [if_neg (by simpa using h0)] at heq
        split at heq <;> cases heq
  · cases h

/-- A non-multiline `^` only succeeds at offset 0. -/
theorem startOfLine_zero {inp : Input} {pos : Nat} (h : startOfLine inp false pos = true) : pos = 0 := by
  unfold startOfLine at h
  split at h
  · rename_i heq; exact peekLeft_none heq
  · simp at h
  · cases h

theorem anchored_pos {inp : Input} : ∀ (n : Node), isStartAnchored n = true → ∀ st, sem inp n true st ≠ [] → st.pos = 0
  | .anchor sol multiline, h, st, hne => by
    cases sol with
    | false => simp [isStartAnchored] at h
    | true =>
      simp only [isStartAnchored, Bool.not_eq_true'] at h
      subst h
      simp only [sem, if_true, guardSt] at hne
      split at hne
      · rename_i hs; exact startOfLine_zero hs
      · exact absurd rfl hne
  | .cat [], h, _, _ => by simp [isStartAnchored] at h
  | .cat (first :: rest), h, st, hne => by
    simp only [isStartAnchored] at h
    simp only [sem, semCat] at hne
    apply anchored_pos first h st
    intro hh; rw [hh] at hne; simp at hne
  | .group id _ c, h, st, hne => by
    simp only [isStartAnchored] at h
    simp only [sem, if_true] at hne
    have := anchored_pos c h (st.setStart id st.pos) (by intro hh; rw [hh] at hne; simp at hne)
    simpa [St.setStart] using this
  | .alt l r, h, st, hne => by
    simp only [isStartAnchored, Bool.and_eq_true] at h
    simp only [sem] at hne
    by_cases hl : sem inp l true st = []
    · rw [hl, List.nil_append] at hne
      exact anchored_pos r h.2 st hne
    · exact anchored_pos l h.1 st hl
  | .empty, h, _, _ => by simp [isStartAnchored] at h
  | .goal, h, _, _ => by simp [isStartAnchored] at h
  | .char _, h, _, _ => by simp [isStartAnchored] at h
  | .byteSeq _, h, _, _ => by simp [isStartAnchored] at h
  | .byteSet _, h, _, _ => by simp [isStartAnchored] at h
  | .charSet _, h, _, _ => by simp [isStartAnchored] at h
  | .matchAny, h, _, _ => by simp [isStartAnchored] at h
  | .matchAnyExceptLT, h, _, _ => by simp [isStartAnchored] at h
  | .wordBoundary _ _, h, _, _ => by simp [isStartAnchored] at h
  | .backRef _ _, h, _, _ => by simp [isStartAnchored] at h
  | .bracket _, h, _, _ => by simp [isStartAnchored] at h
  | .stringSet _ _, h, _, _ => by simp [isStartAnchored] at h
  | .look _ _ _ _ _, h, _, _ => by simp [isStartAnchored] at h
  | .loop _ _ _ _, h, _, _ => by simp [isStartAnchored] at h
  | .loop1 _ _, h, _, _ => by simp [isStartAnchored] at h

end Regress.IR
