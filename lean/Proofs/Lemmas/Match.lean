import RegressModel.Api.Match
/-!
# Helper lemmas for C16 (`Match::group`, `Groups`, `Match::named_group`, `NamedGroups`)

Specification functions (`dedupFirst`, `namedSpecFrom`), characterisations of the fuel loops
`skipEmptyNames`, `bestRangeLoop`, `NamedGroups.nextLoop`, `NamedGroups.collectFuel`,
`Groups.collectFuel`, and list facts used by `Proofs/C16.lean`.
-/
namespace Regress.Api

/-- Equality of `Except` results is decidable (used by the `decide` examples/counterexamples). -/
instance instDecidableEqExcept {ε α : Type} [DecidableEq ε] [DecidableEq α] :
    DecidableEq (Except ε α)
  | .ok a, .ok b => if h : a = b then isTrue (h ▸ rfl) else isFalse (fun h' => h (Except.ok.inj h'))
  | .error a, .error b =>
    if h : a = b then isTrue (h ▸ rfl) else isFalse (fun h' => h (Except.error.inj h'))
  | .ok _, .error _ => isFalse (fun h => nomatch h)
  | .error _, .ok _ => isFalse (fun h => nomatch h)

/-! ## `dedupFirst`: keep an element iff it did not occur earlier -/

/-- `dedupFirstAux seen l`: walk `l` left to right, keep an element iff it is not in `seen`
(= everything that occurred before it); a kept element is added to `seen`. -/
def dedupFirstAux {α : Type} [DecidableEq α] : List α → List α → List α
  | _, [] => []
  | seen, x :: xs =>
    if x ∈ seen then dedupFirstAux seen xs else x :: dedupFirstAux (x :: seen) xs

/-- The distinct elements of `l` in order of first occurrence. -/
def dedupFirst {α : Type} [DecidableEq α] (l : List α) : List α := dedupFirstAux [] l

section dedup
variable {α : Type} [DecidableEq α]

theorem dedupFirstAux_congr (l : List α) : ∀ (s₁ s₂ : List α),
    (∀ x ∈ l, x ∈ s₁ ↔ x ∈ s₂) → dedupFirstAux s₁ l = dedupFirstAux s₂ l := by
  induction l with
  | nil => intros; rfl
  | cons x xs ih =>
    intro s₁ s₂ h
    have hx := h x (by simp)
    simp only [dedupFirstAux]
    by_cases h1 : x ∈ s₁
    · have h2 := hx.mp h1
      simp only [h1, h2, if_true]
      exact ih _ _ (fun y hy => h y (by simp [hy]))
    · have h2 : x ∉ s₂ := fun h' => h1 (hx.mpr h')
      simp only [h1, h2, if_false]
      congr 1
      exact ih _ _ (fun y hy => by simp [h y (by simp [hy])])

theorem mem_dedupFirstAux (l : List α) : ∀ (s : List α) (x : α),
    x ∈ dedupFirstAux s l ↔ x ∈ l ∧ x ∉ s := by
  induction l with
  | nil => intro s x; simp [dedupFirstAux]
  | cons y ys ih =>
    intro s x
    simp only [dedupFirstAux]
    by_cases h1 : y ∈ s
    · simp only [h1, if_true, ih, List.mem_cons]
      constructor
      · rintro ⟨h, hs⟩; exact ⟨Or.inr h, hs⟩
      · rintro ⟨h | h, hs⟩
        · subst h; exact absurd h1 hs
        · exact ⟨h, hs⟩
    · simp only [h1, if_false, List.mem_cons, ih, not_or]
      constructor
      · rintro (h | ⟨h, hxy, hs⟩)
        · subst h; exact ⟨Or.inl rfl, h1⟩
        · exact ⟨Or.inr h, hs⟩
      · rintro ⟨h | h, hs⟩
        · exact Or.inl h
        · by_cases hxy : x = y
          · exact Or.inl hxy
          · exact Or.inr ⟨h, hxy, hs⟩

/-- `dedupFirst l` has exactly the elements of `l`. -/
theorem mem_dedupFirst (l : List α) (x : α) : x ∈ dedupFirst l ↔ x ∈ l := by
  simp [dedupFirst, mem_dedupFirstAux]

theorem nodup_dedupFirstAux (l : List α) : ∀ s : List α, (dedupFirstAux s l).Nodup := by
  induction l with
  | nil => intro s; simp [dedupFirstAux]
  | cons y ys ih =>
    intro s
    simp only [dedupFirstAux]
    by_cases h1 : y ∈ s
    · simp only [h1, if_true]; exact ih s
    · simp only [h1, if_false, List.nodup_cons]
      refine ⟨?_, ih _⟩
      simp [mem_dedupFirstAux]

/-- `dedupFirst l` has no duplicates. -/
theorem nodup_dedupFirst (l : List α) : (dedupFirst l).Nodup := nodup_dedupFirstAux l []

theorem dedupFirstAux_append_singleton (l : List α) : ∀ (s : List α) (x : α),
    dedupFirstAux s (l ++ [x]) =
      if x ∈ s ∨ x ∈ l then dedupFirstAux s l else dedupFirstAux s l ++ [x] := by
  induction l with
  | nil => intro s x; by_cases h : x ∈ s <;> simp [dedupFirstAux, h]
  | cons y ys ih =>
    intro s x
    simp only [List.cons_append, dedupFirstAux]
    by_cases h1 : y ∈ s
    · simp only [h1, if_true, ih, List.mem_cons]
      by_cases hxy : x = y
      · subst hxy; simp [h1]
      · simp [hxy]
    · simp only [h1, if_false, ih, List.mem_cons]
      by_cases hxy : x = y
      · subst hxy; simp
      · by_cases hs : x ∈ s <;> by_cases hy : x ∈ ys <;> simp [hxy, hs, hy]

/-- Defining equation of "order of first occurrence": appending `x` appends it to the result iff
`x` did not occur before. Together with `dedupFirst [] = []` this determines `dedupFirst`. -/
theorem dedupFirst_append_singleton (l : List α) (x : α) :
    dedupFirst (l ++ [x]) = if x ∈ l then dedupFirst l else dedupFirst l ++ [x] := by
  simp [dedupFirst, dedupFirstAux_append_singleton]

theorem dedupFirst_nil : dedupFirst ([] : List α) = [] := rfl

theorem length_dedupFirstAux_le (l : List α) : ∀ s : List α,
    (dedupFirstAux s l).length ≤ l.length := by
  induction l with
  | nil => intro s; simp [dedupFirstAux]
  | cons y ys ih =>
    intro s
    simp only [dedupFirstAux]
    by_cases h1 : y ∈ s
    · simp only [h1, if_true, List.length_cons]; have := ih s; omega
    · simp only [h1, if_false, List.length_cons]; have := ih (y :: s); omega

theorem dedupFirstAux_eq_self (l : List α) : ∀ s : List α,
    l.Nodup → (∀ x ∈ l, x ∉ s) → dedupFirstAux s l = l := by
  induction l with
  | nil => intros; rfl
  | cons y ys ih =>
    intro s hnd hs
    have h1 : y ∉ s := hs y (by simp)
    rw [List.nodup_cons] at hnd
    simp only [dedupFirstAux, h1, if_false]
    congr 1
    apply ih _ hnd.2
    intro x hx
    simp only [List.mem_cons, not_or]
    exact ⟨fun h => hnd.1 (h ▸ hx), hs x (by simp [hx])⟩

end dedup

/-! ## `Match::group` and `Groups` -/

/-- All groups: the whole match followed by the captures. -/
def MatchR.allGroups (m : MatchR) : List (Option Range) := some m.range :: m.captures

theorem group_eq_getElem? (m : MatchR) (i : Nat) : m.group i = (m.allGroups[i]?).join := by
  unfold MatchR.group MatchR.allGroups
  cases i with
  | zero => simp
  | succ j =>
    by_cases h : j + 1 ≤ m.captures.length
    · have hj : j < m.captures.length := by omega
      simp [h, hj]
    · have hj : m.captures.length ≤ j := by omega
      simp [h, hj]

theorem group_of_lt (m : MatchR) (i : Nat) (h : i < m.allGroups.length) :
    m.group i = m.allGroups[i] := by
  rw [group_eq_getElem?, List.getElem?_eq_getElem h]; rfl

/-- Draining a `Groups` whose `max` is `captures.len() + 1` from index `i` yields `allGroups.drop i`,
provided `fuel ≥ max - i` (= `sizeHint`). -/
theorem Groups.collectFuel_eq (m : MatchR) : ∀ (fuel i : Nat), m.captures.length + 1 - i ≤ fuel →
    Groups.collectFuel m fuel { nextGroupIdx := i, max := m.captures.length + 1 }
      = m.allGroups.drop i := by
  intro fuel
  induction fuel with
  | zero =>
    intro i h
    have : m.allGroups.length ≤ i := by simp [MatchR.allGroups]; omega
    simp [Groups.collectFuel, List.drop_eq_nil_of_le this]
  | succ fuel ih =>
    intro i h
    by_cases hi : i < m.captures.length + 1
    · have hlt : i < m.allGroups.length := by simpa [MatchR.allGroups] using hi
      simp only [Groups.collectFuel, Groups.next, hi, if_true]
      rw [ih (i + 1) (by omega), List.drop_eq_getElem_cons hlt, group_of_lt m i hlt]
    · have : m.allGroups.length ≤ i := by simp [MatchR.allGroups]; omega
      simp [Groups.collectFuel, Groups.next, hi, List.drop_eq_nil_of_le this]

/-! ## Specification of `named_groups().collect()` -/

/-- Items still to be yielded by a `NamedGroups` whose `next_group_idx` is `i`: the non-empty names at
indices `≥ i` that did not occur at any earlier index (of the whole list), each paired with
`named_group(name)`. -/
def namedSpecFrom (m : MatchR) (i : Nat) : List (List Nat × Option Range) :=
  (dedupFirstAux (m.names.take i) ((m.names.drop i).filter (fun s => !s.isEmpty))).map
    (fun n => (n, m.namedGroup n))

/-- Specification of `named_groups().collect()`. -/
def namedSpec (m : MatchR) : List (List Nat × Option Range) :=
  (dedupFirst (m.names.filter (fun s => !s.isEmpty))).map (fun n => (n, m.namedGroup n))

theorem namedSpecFrom_zero (m : MatchR) : namedSpecFrom m 0 = namedSpec m := by
  simp [namedSpecFrom, namedSpec, dedupFirst]

theorem namedSpecFrom_of_le (m : MatchR) (i : Nat) (h : m.names.length ≤ i) :
    namedSpecFrom m i = [] := by
  simp [namedSpecFrom, List.drop_eq_nil_of_le h, dedupFirstAux]

theorem namedSpecFrom_step (m : MatchR) (i : Nat) (n : List Nat) (h : m.names[i]? = some n) :
    namedSpecFrom m i =
      if n.isEmpty || decide (n ∈ m.names.take i) then namedSpecFrom m (i + 1)
      else (n, m.namedGroup n) :: namedSpecFrom m (i + 1) := by
  obtain ⟨hi, hn⟩ := List.getElem?_eq_some_iff.mp h
  have hdrop : m.names.drop i = n :: m.names.drop (i + 1) := by
    rw [List.drop_eq_getElem_cons hi, hn]
  have htake : ∀ L : List (List Nat),
      dedupFirstAux (m.names.take (i + 1)) L = dedupFirstAux (n :: m.names.take i) L := by
    intro L
    apply dedupFirstAux_congr
    intro x _
    rw [List.take_add_one, h]
    simp [or_comm]
  unfold namedSpecFrom
  rw [hdrop, htake]
  by_cases he : n.isEmpty = true
  · simp only [he, Bool.true_or, if_true, List.filter_cons, Bool.not_true]
    congr 1
    apply dedupFirstAux_congr
    intro x hx
    have hxne : x.isEmpty = false := by simpa using (List.mem_filter.mp hx).2
    have : x ≠ n := by
      intro hxn; rw [hxn, he] at hxne; cases hxne
    simp [this]
  · have he' : n.isEmpty = false := by simpa using he
    by_cases hs : n ∈ m.names.take i
    · simp only [he', hs, decide_true, Bool.or_true, if_true, List.filter_cons, Bool.not_false,
        dedupFirstAux]
      congr 1
      apply dedupFirstAux_congr
      intro x _
      simp only [List.mem_cons]
      constructor
      · exact Or.inr
      · rintro (hx | hx)
        · exact hx ▸ hs
        · exact hx
    · simp [he', hs, dedupFirstAux]

/-- Skipping a run of empty names does not change the specification. -/
theorem namedSpecFrom_skip (m : MatchR) (i : Nat) : ∀ (d : Nat),
    (∀ k, i ≤ k → k < i + d → m.names[k]? = some []) → namedSpecFrom m i = namedSpecFrom m (i + d) := by
  intro d
  induction d with
  | zero => intro _; rfl
  | succ d ih =>
    intro h
    rw [ih (fun k h1 h2 => h k h1 (by omega)), namedSpecFrom_step m (i + d) [] (h _ (by omega) (by omega))]
    simp [Nat.add_assoc]

theorem length_namedSpecFrom_le (m : MatchR) (i : Nat) :
    (namedSpecFrom m i).length ≤ ((m.names.drop i).filter (fun s => !s.isEmpty)).length := by
  simp only [namedSpecFrom, List.length_map]
  exact length_dedupFirstAux_le _ _

theorem namedSpecFrom_of_nodup (m : MatchR) (i : Nat)
    (hnd : (m.names.filter (fun s => !s.isEmpty)).Nodup) :
    namedSpecFrom m i =
      ((m.names.drop i).filter (fun s => !s.isEmpty)).map (fun n => (n, m.namedGroup n)) := by
  unfold namedSpecFrom
  rw [← List.take_append_drop i m.names, List.filter_append, List.nodup_append] at hnd
  obtain ⟨_, h2, h3⟩ := hnd
  rw [dedupFirstAux_eq_self _ _ (by simpa using h2)]
  intro x hx hx'
  have hx2 : x ∈ m.names.drop i ∧ x.isEmpty = false := by simpa using List.mem_filter.mp hx
  refine h3 x (List.mem_filter.mpr ⟨?_, by simp [hx2.2]⟩) x (by simpa using hx) rfl
  simpa using hx'

/-! ## The fuel loops of `NamedGroups::next` -/

/-- `skipEmptyNames` = `idx +` length of the maximal run of empty names starting at `idx`. -/
theorem skipEmptyNames_eq (names : List (List Nat)) : ∀ (fuel idx : Nat), names.length - idx ≤ fuel →
    skipEmptyNames names fuel idx = idx + ((names.drop idx).takeWhile (·.isEmpty)).length := by
  intro fuel
  induction fuel with
  | zero =>
    intro idx h
    simp [skipEmptyNames, List.drop_eq_nil_of_le (show names.length ≤ idx by omega)]
  | succ fuel ih =>
    intro idx h
    by_cases hi : idx < names.length
    · rw [List.drop_eq_getElem_cons hi]
      simp only [skipEmptyNames, List.getElem?_eq_getElem hi, List.takeWhile_cons]
      by_cases he : names[idx].isEmpty = true
      · simp only [he, if_true, List.length_cons]
        rw [ih (idx + 1) (by omega)]; omega
      · simp [he]
    · have hle : names.length ≤ idx := by omega
      simp [skipEmptyNames, List.getElem?_eq_none hle, List.drop_eq_nil_of_le hle]

/-- What the `while` loop establishes. -/
theorem skipEmptyNames_spec (names : List (List Nat)) : ∀ (fuel idx : Nat),
    names.length - idx ≤ fuel → idx ≤ names.length →
    idx ≤ skipEmptyNames names fuel idx ∧ skipEmptyNames names fuel idx ≤ names.length ∧
    (∀ k, idx ≤ k → k < skipEmptyNames names fuel idx → names[k]? = some []) ∧
    (∀ n, names[skipEmptyNames names fuel idx]? = some n → n.isEmpty = false) := by
  intro fuel
  induction fuel with
  | zero =>
    intro idx h hle
    have : idx = names.length := by omega
    simp only [skipEmptyNames]
    refine ⟨Nat.le_refl _, hle, fun k h1 h2 => by omega, fun n hn => ?_⟩
    rw [List.getElem?_eq_none (by omega)] at hn; cases hn
  | succ fuel ih =>
    intro idx h hle
    cases hn : names[idx]? with
    | none =>
      have e : skipEmptyNames names (fuel + 1) idx = idx := by simp [skipEmptyNames, hn]
      rw [e]
      exact ⟨Nat.le_refl _, hle, fun k h1 h2 => by omega, fun n hn' => by rw [hn] at hn'; cases hn'⟩
    | some n =>
      have hi : idx < names.length := (List.getElem?_eq_some_iff.mp hn).1
      by_cases he : n.isEmpty = true
      · have e : skipEmptyNames names (fuel + 1) idx = skipEmptyNames names fuel (idx + 1) := by
          simp [skipEmptyNames, hn, he]
        rw [e]
        obtain ⟨h1, h2, h3, h4⟩ := ih (idx + 1) (by omega) (by omega)
        refine ⟨by omega, h2, fun k hk1 hk2 => ?_, h4⟩
        by_cases hk : k = idx
        · subst hk; rw [hn]; simpa using he
        · exact h3 k (by omega) hk2
      · have e : skipEmptyNames names (fuel + 1) idx = idx := by simp [skipEmptyNames, hn, he]
        rw [e]
        refine ⟨Nat.le_refl _, hle, fun k h1 h2 => by omega, fun n' hn' => ?_⟩
        rw [hn] at hn'; cases hn'; simpa using he

theorem findSome_filter_zip_first (name : List Nat) :
    ∀ (a : List (List Nat)) (b : List (Option Range)) (idx : Nat) (c0 : Option Range),
    a[idx]? = some name → b[idx]? = some c0 → name ∉ a.take idx →
    ((a.zip b).filter (fun p => p.1 == name)).findSome? (fun p => p.2)
      = c0.or ((((a.zip b).drop (idx + 1)).filter (fun p => p.1 == name)).findSome? (fun p => p.2)) := by
  intro a
  induction a with
  | nil => intro b idx c0 h; simp at h
  | cons x xs ih =>
    intro b idx c0 ha hb hnot
    cases b with
    | nil => simp at hb
    | cons y ys =>
      cases idx with
      | zero =>
        simp only [List.getElem?_cons_zero, Option.some.injEq] at ha hb
        subst ha; subst hb
        cases y <;> simp
      | succ j =>
        simp only [List.getElem?_cons_succ] at ha hb
        have hx : x ≠ name := by
          intro hx; apply hnot; simp [hx]
        have hnot' : name ∉ xs.take j := by
          intro h'; apply hnot; simp [h']
        simp [hx, ih ys j c0 ha hb hnot']

/-- `named_group(name)` when `idx` is the first occurrence of `name`. -/
theorem namedGroup_first (m : MatchR) (idx : Nat) (name : List Nat) (c0 : Option Range)
    (hne : name.isEmpty = false) (hn : m.names[idx]? = some name) (hc : m.captures[idx]? = some c0)
    (hfirst : name ∉ m.names.take idx) :
    m.namedGroup name = c0.or
      ((((m.names.zip m.captures).drop (idx + 1)).filter (fun p => p.1 == name)).findSome?
        (fun p => p.2)) := by
  unfold MatchR.namedGroup
  simp only [hne, Bool.false_eq_true, if_false]
  exact findSome_filter_zip_first name _ _ idx c0 hn hc hfirst

/-- The `for check_idx in ..` loop: it never panics when every name index is a capture index, and it
computes `best_range.or(first participating later group with this name)`. -/
theorem bestRangeLoop_eq (m : MatchR) (name : List Nat) (hle : m.names.length ≤ m.captures.length) :
    ∀ (fuel ci : Nat) (best : Option Range), m.names.length - ci ≤ fuel →
    bestRangeLoop m name fuel ci best = .ok (best.or
      ((((m.names.zip m.captures).drop ci).filter (fun p => p.1 == name)).findSome?
        (fun p => p.2))) := by
  intro fuel
  induction fuel with
  | zero =>
    intro ci best h
    have : (m.names.zip m.captures).length ≤ ci := by rw [List.length_zip]; omega
    simp [bestRangeLoop, List.drop_eq_nil_of_le this]
  | succ fuel ih =>
    intro ci best h
    by_cases hi : ci < m.names.length
    · have hi2 : ci < m.captures.length := by omega
      have hz : ci < (m.names.zip m.captures).length := by rw [List.length_zip]; omega
      rw [List.drop_eq_getElem_cons hz, List.getElem_zip]
      simp only [bestRangeLoop, List.getElem?_eq_getElem hi, List.getElem?_eq_getElem hi2]
      have ih' := fun b => ih (ci + 1) b (by omega)
      by_cases hnm : m.names[ci] = name
      · cases best with
        | some r => simp [hnm, ih']
        | none =>
          cases hc : m.captures[ci] with
          | some r => simp [hnm]
          | none => simp [hnm, ih']
      · simp [hnm, ih']
    · have hle' : m.names.length ≤ ci := by omega
      have : (m.names.zip m.captures).length ≤ ci := by rw [List.length_zip]; omega
      simp [bestRangeLoop, List.getElem?_eq_none hle', List.drop_eq_nil_of_le this]

/-- The outer `loop` of `NamedGroups::next`, started at `next_group_idx = i ≤ end` with enough fuel and
with every name index a capture index: it does not panic, does not run out of fuel, and either
* returns `None` with final `next_group_idx = j`, and nothing remains from `i` nor from `j`; or
* returns `Some x` with `next_group_idx = j > i`, where `x` is the head of what remained from `i` and
  what remains from `j` is the tail. -/
theorem NamedGroups.nextLoop_spec (m : MatchR) (hle : m.names.length ≤ m.captures.length) :
    ∀ (fuel i : Nat), i ≤ m.names.length → m.names.length - i + 1 ≤ fuel →
    ∃ r j, NamedGroups.nextLoop m fuel i = .ok (r, j) ∧ i ≤ j ∧ j ≤ m.names.length ∧
      (r = none → namedSpecFrom m i = [] ∧ namedSpecFrom m j = []) ∧
      (∀ x, r = some x → i < j ∧ namedSpecFrom m i = x :: namedSpecFrom m j) := by
  intro fuel
  induction fuel with
  | zero => intro i _ h; omega
  | succ fuel ih =>
    intro i hi hf
    obtain ⟨h1, h2, h3, h4⟩ := skipEmptyNames_spec m.names (m.names.length - i) i (Nat.le_refl _) hi
    simp only [NamedGroups.nextLoop]
    generalize skipEmptyNames m.names (m.names.length - i) i = idx at h1 h2 h3 h4
    have hskip : namedSpecFrom m i = namedSpecFrom m idx := by
      have := namedSpecFrom_skip m i (idx - i) (fun k hk1 hk2 => h3 k hk1 (by omega))
      rwa [show i + (idx - i) = idx by omega] at this
    by_cases hend : idx = m.names.length
    · have h0 : namedSpecFrom m i = [] := by
        rw [hskip]; exact namedSpecFrom_of_le m idx (by omega)
      refine ⟨none, i, by simp [hend], Nat.le_refl _, hi, fun _ => ⟨h0, h0⟩, fun x hx => by cases hx⟩
    · have hlt : idx < m.names.length := by omega
      have hlt2 : idx < m.captures.length := by omega
      have hname : m.names[idx]? = some m.names[idx] := List.getElem?_eq_getElem hlt
      have hcap : m.captures[idx]? = some m.captures[idx] := List.getElem?_eq_getElem hlt2
      have hne : m.names[idx].isEmpty = false := h4 _ hname
      have hstep := namedSpecFrom_step m idx _ hname
      simp only [hne, Bool.false_or] at hstep
      simp only [beq_iff_eq, hend, if_false, hname]
      by_cases hseen : m.names[idx] ∈ m.names.take idx
      · have hany : ((m.names.take idx).any fun n => n == m.names[idx]) = true := by
          simp only [List.any_eq_true, beq_iff_eq]; exact ⟨_, hseen, rfl⟩
        simp only [hseen, decide_true, if_true] at hstep
        simp only [hany, if_true]
        obtain ⟨r, j, e, hj1, hj2, hnone, hsome⟩ := ih (idx + 1) (by omega) (by omega)
        refine ⟨r, j, e, by omega, hj2, fun hr => ?_, fun x hx => ?_⟩
        · have := hnone hr
          exact ⟨by rw [hskip, hstep]; exact this.1, this.2⟩
        · have := hsome x hx
          exact ⟨by omega, by rw [hskip, hstep]; exact this.2⟩
      · have hany : ((m.names.take idx).any fun n => n == m.names[idx]) = false := by
          rw [Bool.eq_false_iff]; intro h
          simp only [List.any_eq_true, beq_iff_eq] at h
          obtain ⟨x, hx, hxe⟩ := h
          exact hseen (hxe ▸ hx)
        simp only [hseen, decide_false, Bool.false_eq_true, if_false] at hstep
        simp only [hany, Bool.false_eq_true, if_false, hcap]
        rw [bestRangeLoop_eq m _ hle _ _ _ (Nat.le_refl _),
          ← namedGroup_first m idx _ _ hne hname hcap hseen]
        refine ⟨some (m.names[idx], m.namedGroup m.names[idx]), idx + 1, rfl, by omega, by omega,
          (fun hr => by cases hr), fun x hx => ?_⟩
        cases hx
        exact ⟨by omega, by rw [hskip, hstep]⟩

/-- `NamedGroups::next` in a state with `next_group_idx ≤ end`. -/
theorem NamedGroups.next_spec (m : MatchR) (hle : m.names.length ≤ m.captures.length)
    (g : NamedGroups) (hg : g.nextGroupIdx ≤ m.names.length) :
    ∃ r g', g.next m = .ok (r, g') ∧ g.nextGroupIdx ≤ g'.nextGroupIdx ∧
      g'.nextGroupIdx ≤ m.names.length ∧
      (r = none → namedSpecFrom m g.nextGroupIdx = [] ∧ namedSpecFrom m g'.nextGroupIdx = []) ∧
      (∀ x, r = some x → g.nextGroupIdx < g'.nextGroupIdx ∧
        namedSpecFrom m g.nextGroupIdx = x :: namedSpecFrom m g'.nextGroupIdx) := by
  obtain ⟨r, j, e, h1, h2, h3, h4⟩ :=
    NamedGroups.nextLoop_spec m hle (m.names.length - g.nextGroupIdx + 1) g.nextGroupIdx hg
      (Nat.le_refl _)
  exact ⟨r, ⟨j⟩, by simp [NamedGroups.next, e], h1, h2, h3, h4⟩

/-- Draining a `NamedGroups` from `next_group_idx = i` yields exactly `namedSpecFrom m i`. -/
theorem NamedGroups.collectFuel_eq (m : MatchR) (hle : m.names.length ≤ m.captures.length) :
    ∀ (fuel : Nat) (g : NamedGroups), g.nextGroupIdx ≤ m.names.length →
    m.names.length - g.nextGroupIdx + 1 ≤ fuel →
    NamedGroups.collectFuel m fuel g = .ok (namedSpecFrom m g.nextGroupIdx) := by
  intro fuel
  induction fuel with
  | zero => intro g _ h; omega
  | succ fuel ih =>
    intro g hg hf
    obtain ⟨r, g', e, h1, h2, h3, h4⟩ := NamedGroups.next_spec m hle g hg
    cases r with
    | none => simp [NamedGroups.collectFuel, e, (h3 rfl).1]
    | some x =>
      obtain ⟨hlt, hs⟩ := h4 x rfl
      simp [NamedGroups.collectFuel, e, ih g' h2 (by omega), hs]

theorem namesOK_le (m : MatchR) (h : m.NamesOK) : m.names.length ≤ m.captures.length := by
  rcases h with h | h
  · simp [h]
  · omega

/-- `named_groups().collect()` never panics under `NamesOK` and equals the specification. -/
theorem namedGroups_eq_spec (m : MatchR) (hle : m.names.length ≤ m.captures.length) :
    m.namedGroups = .ok (namedSpec m) := by
  rw [← namedSpecFrom_zero]
  exact NamedGroups.collectFuel_eq m hle _ NamedGroups.new (Nat.zero_le _) (by simp [NamedGroups.new])

/-! ## Facts about `named_group` and lookups in the specification -/

theorem namedGroup_of_not_mem (m : MatchR) (n : List Nat) (h : n ∉ m.names) :
    m.namedGroup n = none := by
  unfold MatchR.namedGroup
  split
  · rfl
  · have : (m.names.zip m.captures).filter (fun p => p.1 == n) = [] := by
      rw [List.filter_eq_nil_iff]
      rintro ⟨a, b⟩ hab
      have := (List.of_mem_zip hab).1
      simp only [beq_iff_eq]
      intro hab'; exact h (hab' ▸ this)
    simp [this]

theorem find?_map_pair {β : Type} (f : List Nat → β) (n : List Nat) : ∀ (L : List (List Nat)),
    (L.map (fun a => (a, f a))).find? (fun p => p.1 == n) = if n ∈ L then some (n, f n) else none := by
  intro L
  induction L with
  | nil => simp
  | cons x xs ih =>
    by_cases hx : x = n
    · subst hx; simp
    · have hx' : ¬ n = x := fun h => hx h.symm
      simp [hx, hx', ih]

/-- `named_group` through the first participating index (list form). -/
theorem findSome_filter_zip_participating (n : List Nat) (r : Range) :
    ∀ (a : List (List Nat)) (b : List (Option Range)) (i : Nat),
    a[i]? = some n → b[i]? = some (some r) →
    (∀ j, j < i → a[j]? = some n → ∀ r', b[j]? ≠ some (some r')) →
    ((a.zip b).filter (fun p => p.1 == n)).findSome? (fun p => p.2) = some r := by
  intro a
  induction a with
  | nil => intro b i h; simp at h
  | cons x xs ih =>
    intro b i ha hb hmin
    cases b with
    | nil => simp at hb
    | cons y ys =>
      cases i with
      | zero =>
        simp only [List.getElem?_cons_zero, Option.some.injEq] at ha hb
        subst ha; subst hb
        simp
      | succ j =>
        simp only [List.getElem?_cons_succ] at ha hb
        have ih' := ih ys j ha hb (fun k hk hak r' => by
          have := hmin (k + 1) (by omega) (by simpa using hak) r'
          simpa using this)
        by_cases hx : x = n
        · have h0 := hmin 0 (by omega) (by simp [hx])
          cases y with
          | none => simp [hx, ih']
          | some r' => exact absurd (by simp) (h0 r')
        · simp [hx, ih']

theorem findSome_filter_zip_none (n : List Nat) :
    ∀ (a : List (List Nat)) (b : List (Option Range)),
    (∀ j : Nat, a[j]? = some n → ∀ r', b[j]? ≠ some (some r')) →
    ((a.zip b).filter (fun p => p.1 == n)).findSome? (fun p => p.2) = none := by
  intro a
  induction a with
  | nil => intro b _; simp
  | cons x xs ih =>
    intro b hmin
    cases b with
    | nil => simp
    | cons y ys =>
      have ih' := ih ys (fun k hak r' => by
        have := hmin (k + 1) (by simpa using hak) r'
        simpa using this)
      by_cases hx : x = n
      · have h0 := hmin 0 (by simp [hx])
        cases y with
        | none => simp [hx, ih']
        | some r' => exact absurd (by simp) (h0 r')
      · simp [hx, ih']

end Regress.Api
