import Proofs.Lemmas.RoundTripVClass
/-!
# Round trip, part 16: `v`-mode class sets — operands, loops, the atom
-/
namespace Regress.RoundTrip
open Regress Regress.IR Regress.Parse Regress.Lower Regress.Print

section
variable {fl : Flags} {hn : Bool}

/-! ## Leaf operands -/

theorem operand_c (c : Nat) : OperandR fl hn (.c c) := by
  intro fuel rest d x hl _ _ hf
  simp only [lowerVOperand, Except.ok.injEq] at hl
  subst hl
  obtain ⟨f, rfl⟩ : ∃ f, fuel = f + 1 := ⟨fuel - 1, by have := printVOp_length (.c c); omega⟩
  simp only [printVOp]
  exact operand_char fl hn f c rest d

theorem operand_r (lo hi : Nat) : OperandR fl hn (.r lo hi) := by
  intro fuel rest d x hl
  simp [lowerVOperand] at hl

theorem operand_esc (e : ES.ClassEsc) : OperandR fl hn (.esc e) := by
  intro fuel rest d x hl _ _ hf
  simp only [lowerVOperand, Except.ok.injEq] at hl
  subst hl
  obtain ⟨f, rfl⟩ : ∃ f, fuel = f + 1 := ⟨fuel - 1, by have := printVOp_length (.esc e); omega⟩
  simp only [printVOp, printEsc, List.cons_append, List.nil_append]
  rw [classSetOperand]
  cases e <;> simp [escLetter, classOfEsc]

theorem operand_prop (neg : Bool) (kind name : Nat) : OperandR fl hn (.prop neg kind name) := by
  intro fuel rest d x hl hlex _ hf
  simp only [lexVOp] at hlex
  simp only [lowerVOperand] at hl
  obtain ⟨f, rfl⟩ : ∃ f, fuel = f + 1 := ⟨fuel - 1, by have := printVOp_length (.prop neg kind name); omega⟩
  cases hp : lowerProp fl.unicodeSets kind name with
  | error e => rw [hp] at hl; cases hl
  | ok pk =>
    rw [hp] at hl
    have hpe := propertyEscape_print fl.unicodeSets rest hp hlex
    simp only [List.cons_append, List.nil_append, List.append_assoc] at hpe
    simp only [printVOp, printProp, List.cons_append, List.nil_append, List.append_assoc]
    rw [classSetOperand]
    cases neg with
    | false =>
      simp only [Bool.false_eq_true, if_false,
        show ((0x5C : Nat) == 0x5B) = false from rfl, show ((0x5C : Nat) == 0x5C) = true from rfl,
        show ((0x70 : Nat) == 0x71) = false from rfl, show ((0x70 : Nat) == 0x64) = false from rfl,
        show ((0x70 : Nat) == 0x44) = false from rfl, show ((0x70 : Nat) == 0x73) = false from rfl,
        show ((0x70 : Nat) == 0x53) = false from rfl, show ((0x70 : Nat) == 0x77) = false from rfl,
        show ((0x70 : Nat) == 0x57) = false from rfl, show ((0x70 : Nat) == 0x70) = true from rfl, if_true, hpe]
      cases pk with
      | charClass ivs =>
        simp only [Bool.false_eq_true, if_false, Except.ok.injEq] at hl
        simp only [hl]
      | stringSet strs =>
        simp only [Bool.false_eq_true, if_false, Except.ok.injEq] at hl
        simp only [hl]
    | true =>
      simp only [if_true, Bool.false_eq_true, if_false,
        show ((0x5C : Nat) == 0x5B) = false from rfl, show ((0x5C : Nat) == 0x5C) = true from rfl,
        show ((0x50 : Nat) == 0x71) = false from rfl, show ((0x50 : Nat) == 0x64) = false from rfl,
        show ((0x50 : Nat) == 0x44) = false from rfl, show ((0x50 : Nat) == 0x73) = false from rfl,
        show ((0x50 : Nat) == 0x53) = false from rfl, show ((0x50 : Nat) == 0x77) = false from rfl,
        show ((0x50 : Nat) == 0x57) = false from rfl, show ((0x50 : Nat) == 0x70) = false from rfl,
        show ((0x50 : Nat) == 0x50) = true from rfl, hpe]
      cases pk with
      | charClass ivs =>
        simp only [if_true, Except.ok.injEq] at hl
        simp only [hl]
      | stringSet strs => simp at hl

theorem operand_q (strs : List (List Nat)) : OperandR fl hn (.q strs) := by
  intro fuel rest d x hl _ _ hf
  simp only [lowerVOperand] at hl
  cases strs with
  | nil => simp at hl
  | cons s ss =>
    simp only [List.isEmpty_cons, Bool.false_eq_true, if_false, Except.ok.injEq] at hl
    subst hl
    obtain ⟨f, rfl⟩ : ∃ f, fuel = f + 1 := ⟨fuel - 1, by have := printVOp_length (.q (s :: ss)); omega⟩
    simp only [printVOp, List.cons_append, List.nil_append, List.append_assoc]
    rw [classSetOperand]
    simp only [show ((0x5C : Nat) == 0x5B) = false from rfl, show ((0x5C : Nat) == 0x5C) = true from rfl,
      show ((0x71 : Nat) == 0x71) = true from rfl, Bool.false_eq_true, if_false, if_true]
    rw [classStringLoop_print fl.unicode hn s ss rest _ (by simp; omega)]

/-! ## The union loop -/

theorem vNestList_cons (o : ES.VOp) (os : List ES.VOp) : vNestList (o :: os) = max (vNest o) (vNestList os) := by
  simp [vNestList]

theorem union_ok : ∀ (ops : List ES.VOp), (∀ o ∈ ops, OperandR fl hn o) → UnionR fl hn ops := by
  intro ops
  induction ops with
  | nil =>
    intro _ fuel rest d acc acc' hl _ _ hf
    simp only [lowerVUnion, Except.ok.injEq] at hl
    subst hl
    obtain ⟨f, rfl⟩ : ∃ f, fuel = f + 1 := ⟨fuel - 1, by omega⟩
    simp [printVUnion, classSetUnion]
  | cons o os ih =>
    intro hops fuel rest d acc acc' hl hlex hdep hf
    have ihos := ih (fun p hp => hops p (by simp [hp]))
    simp only [lexVOps, Bool.and_eq_true] at hlex
    rw [vNestList_cons] at hdep
    have hlen := printVOp_length o
    simp only [printVUnion, List.length_append] at hf
    obtain ⟨f, rfl⟩ : ∃ f, fuel = f + 1 := ⟨fuel - 1, by omega⟩
    obtain ⟨c, tl, ec, hh⟩ := printVOp_headI o
    have hne := vhead_ne hh
    have e5d : (c == 0x5D) = false := by simpa using hne.2.1
    obtain ⟨m0, mtl, em, hm2d, _, _⟩ := afterOp_union os rest
    -- the range case first
    by_cases hr : ∃ lo hi, o = .r lo hi
    · obtain ⟨lo, hi, rfl⟩ := hr
      simp only [lowerVUnion] at hl
      split at hl
      · cases hl
      · next hle =>
        obtain ⟨f', rfl⟩ : ∃ f', f = f' + 1 := ⟨f - 1, by omega⟩
        simp only [printVOp, List.length_append, List.length_cons, List.length_nil] at hf
        have hih := ihos (f' + 1) rest d _ acc' hl hlex.2 (by omega) (by omega)
        obtain ⟨c1, tl1, ec1, _⟩ := printChar_headI lo
        have hne1 := headI_ne ‹_›
        have e5d1 : (c1 == 0x5D) = false := by simpa using hne1.2.1
        simp only [printVUnion, printVOp, List.append_assoc, List.cons_append, List.nil_append]
        rw [classSetUnion]
        simp only [ec1, List.cons_append, e5d1, Bool.false_eq_true, if_false]
        rw [← List.cons_append, ← ec1, operand_char]
        simp only [operand_char, hle, if_false]
        exact hih
    · -- an ordinary operand
      have hx : ∃ x, lowerVOperand fl o = .ok x ∧ lowerVUnion fl os (acc.unionOperand x) = .ok acc' := by
        cases o with
        | r lo hi => exact absurd ⟨lo, hi, rfl⟩ hr
        | c ch =>
          simp only [lowerVUnion] at hl
          cases h1 : lowerVOperand fl (.c ch) with
          | error e => rw [h1] at hl; cases hl
          | ok x => rw [h1] at hl; exact ⟨x, rfl, hl⟩
        | esc e =>
          simp only [lowerVUnion] at hl
          cases h1 : lowerVOperand fl (.esc e) with
          | error e => rw [h1] at hl; cases hl
          | ok x => rw [h1] at hl; exact ⟨x, rfl, hl⟩
        | prop g k nm =>
          simp only [lowerVUnion] at hl
          cases h1 : lowerVOperand fl (.prop g k nm) with
          | error e => rw [h1] at hl; cases hl
          | ok x => rw [h1] at hl; exact ⟨x, rfl, hl⟩
        | q strs =>
          simp only [lowerVUnion] at hl
          cases h1 : lowerVOperand fl (.q strs) with
          | error e => rw [h1] at hl; cases hl
          | ok x => rw [h1] at hl; exact ⟨x, rfl, hl⟩
        | cls g op ops =>
          simp only [lowerVUnion] at hl
          cases h1 : lowerVOperand fl (.cls g op ops) with
          | error e => rw [h1] at hl; cases hl
          | ok x => rw [h1] at hl; exact ⟨x, rfl, hl⟩
      obtain ⟨x, hx1, hx2⟩ := hx
      have hop := hops o (by simp) f (printVUnion os ++ 0x5D :: rest) d x hx1 hlex.1 (by omega) (by omega)
      have hih := ihos f rest d _ acc' hx2 hlex.2 (by omega) (by omega)
      simp only [printVUnion, List.append_assoc]
      rw [classSetUnion]
      simp only [ec, List.cons_append, e5d, Bool.false_eq_true, if_false]
      rw [← List.cons_append, ← ec, hop]
      simp only
      rw [em] at hih ⊢
      split
      · next heq => simp only [List.cons.injEq] at heq; exact absurd heq.1 hm2d
      · exact hih

/-! ## The intersection and subtraction loops -/

theorem inter_ok : ∀ (os : List ES.VOp) (o : ES.VOp), (∀ p ∈ o :: os, OperandR fl hn p) → InterR fl hn o os := by
  intro os
  induction os with
  | nil =>
    intro o hops fuel rest d acc acc' hl hlex hdep hf
    simp only [lexVOps, Bool.and_eq_true] at hlex
    rw [vNestList_cons] at hdep
    have hlen := printVOp_length o
    simp only [printVSepTail, List.append_nil] at hf ⊢
    obtain ⟨f, rfl⟩ : ∃ f, fuel = f + 1 := ⟨fuel - 1, by omega⟩
    simp only [lowerVInter] at hl
    cases hx : lowerVOperand fl o with
    | error e => rw [hx] at hl; cases hl
    | ok x =>
      rw [hx] at hl
      simp only [Except.ok.injEq] at hl
      subst hl
      obtain ⟨c, tl, ec, hh⟩ := printVOp_headI o
      have hne := vhead_ne hh
      have e26 : (c == 0x26) = false := by simpa using hne.2.2.2
      have hop := hops o (by simp) f (0x5D :: rest) d x hx hlex.1 (by omega) (by omega)
      rw [classSetIntersection]
      simp only [ec, List.cons_append, e26, Bool.false_eq_true, if_false]
      rw [← List.cons_append, ← ec, hop]
      simp
  | cons o2 os ih =>
    intro o hops fuel rest d acc acc' hl hlex hdep hf
    simp only [lexVOps, Bool.and_eq_true] at hlex
    rw [vNestList_cons] at hdep
    have hlen := printVOp_length o
    simp only [printVSepTail, List.length_append, List.length_cons, List.length_nil] at hf
    obtain ⟨f, rfl⟩ : ∃ f, fuel = f + 1 := ⟨fuel - 1, by omega⟩
    simp only [lowerVInter] at hl
    cases hx : lowerVOperand fl o with
    | error e => rw [hx] at hl; cases hl
    | ok x =>
      rw [hx] at hl
      obtain ⟨c, tl, ec, hh⟩ := printVOp_headI o
      have hne := vhead_ne hh
      have e26 : (c == 0x26) = false := by simpa using hne.2.2.2
      have hop := hops o (by simp) f (printVSepTail 0x26 (o2 :: os) ++ 0x5D :: rest) d x hx hlex.1 (by omega)
        (by omega)
      have hih := ih o2 (fun p hp => hops p (by simp at hp ⊢; exact .inr hp)) f rest d _ acc' hl
        (by simp only [lexVOps, Bool.and_eq_true]; exact hlex.2) (by omega)
        (by simp only [List.length_append]; omega)
      simp only [List.append_assoc]
      rw [classSetIntersection]
      simp only [ec, List.cons_append, e26, Bool.false_eq_true, if_false]
      rw [← List.cons_append, ← ec, hop]
      simp only [printVSepTail, List.append_assoc, List.cons_append, List.nil_append,
        show ((0x26 : Nat) == 0x5D) = false from rfl, show ((0x26 : Nat) == 0x26) = true from rfl,
        Bool.false_eq_true, if_false, if_true]
      simpa only [List.append_assoc] using hih

theorem sub_ok : ∀ (os : List ES.VOp) (o : ES.VOp), (∀ p ∈ o :: os, OperandR fl hn p) → SubR fl hn o os := by
  intro os
  induction os with
  | nil =>
    intro o hops fuel rest d acc acc' hl hlex hdep hf
    simp only [lexVOps, Bool.and_eq_true] at hlex
    rw [vNestList_cons] at hdep
    have hlen := printVOp_length o
    simp only [printVSepTail, List.append_nil] at hf ⊢
    obtain ⟨f, rfl⟩ : ∃ f, fuel = f + 1 := ⟨fuel - 1, by omega⟩
    simp only [lowerVSub] at hl
    cases hx : lowerVOperand fl o with
    | error e => rw [hx] at hl; cases hl
    | ok x =>
      rw [hx] at hl
      simp only [Except.ok.injEq] at hl
      subst hl
      have hop := hops o (by simp) f (0x5D :: rest) d x hx hlex.1 (by omega) (by omega)
      rw [classSetSubtraction, hop]
      simp
  | cons o2 os ih =>
    intro o hops fuel rest d acc acc' hl hlex hdep hf
    simp only [lexVOps, Bool.and_eq_true] at hlex
    rw [vNestList_cons] at hdep
    have hlen := printVOp_length o
    simp only [printVSepTail, List.length_append, List.length_cons, List.length_nil] at hf
    obtain ⟨f, rfl⟩ : ∃ f, fuel = f + 1 := ⟨fuel - 1, by omega⟩
    simp only [lowerVSub] at hl
    cases hx : lowerVOperand fl o with
    | error e => rw [hx] at hl; cases hl
    | ok x =>
      rw [hx] at hl
      have hop := hops o (by simp) f (printVSepTail 0x2D (o2 :: os) ++ 0x5D :: rest) d x hx hlex.1 (by omega)
        (by omega)
      have hih := ih o2 (fun p hp => hops p (by simp at hp ⊢; exact .inr hp)) f rest d _ acc' hl
        (by simp only [lexVOps, Bool.and_eq_true]; exact hlex.2) (by omega)
        (by simp only [List.length_append]; omega)
      simp only [List.append_assoc]
      rw [classSetSubtraction, hop]
      simp only [printVSepTail, List.append_assoc, List.cons_append, List.nil_append,
        show ((0x2D : Nat) == 0x5D) = false from rfl, show ((0x2D : Nat) == 0x2D) = true from rfl,
        Bool.false_eq_true, if_false, if_true]
      simpa only [List.append_assoc] using hih

end

end Regress.RoundTrip
