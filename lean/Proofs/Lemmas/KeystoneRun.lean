import RegressModel.VM.Pike
import RegressModel.IR.Sem
/-!
# Keystone, part 1: decomposing a PikeVM run into "tries"

`Pk.runStates` explores an explicit stack of states depth first.  The compiler-correctness proof
decomposes the outcome `o` of a run that starts with a state `s` on top of a stack `rest` and is
about to execute a code fragment into a sequence of *tries*: a list `l` of abstract results (the
successes of the IR semantics, in priority order) such that

* `o` is the outcome of a run whose top state is (a machine state `t` related to) the first
  result, on top of `rest` and some pending states `pend`; and
* whenever the run of `rest ++ pend` (what the machine does if the first try is exhausted) ends
  fine, it decomposes in the same way for the remaining results; and
* if there is no result, `o` is the outcome of a run of `rest`.

Everything is stated for outcomes that are `Fine` (neither `.outOfFuel` nor `.error`): these two
propagate, so no error-freedom needs to be proved here (that is C06) and no fuel needs to be
counted (that is C05).
-/
namespace Regress.Keystone

open Regress.VM Regress.VM.Pk Regress.IR

/-- Neither out of fuel nor an error. -/
def Fine : Outcome → Prop
  | .outOfFuel => False
  | .error _ => False
  | _ => True

theorem Fine.ne_oof {o : Outcome} (h : Fine o) : o ≠ .outOfFuel := by
  intro e; rw [e] at h; exact h

theorem Fine.ne_err {o : Outcome} (h : Fine o) (e : String) : o ≠ .error e := by
  intro e'; rw [e'] at h; exact h

theorem fine_iff (o : Outcome) : Fine o ↔ o ≠ .outOfFuel ∧ ∀ e, o ≠ .error e := by
  cases o <;> simp [Fine]

section
variable (prog : Prog) (inp : Input) (limit : Nat)

/-- The nested-attempt runner that `runStates … (sf + 1)` hands to `tryMatchState`. -/
def lookOf (sf : Nat) : Runner :=
  fun s0 dirFwd steps peak => runStates prog inp limit sf #[s0] dirFwd steps peak

/-- What `runStates` does with the result of `tryMatchState`. -/
def dispatch (sf : Nat) (rest : Array State) (fwd : Bool) : SM → Outcome
  | .err e => .error e
  | .outOfFuel => .outOfFuel
  | .fail _ steps peak => runStates prog inp limit sf rest fwd steps peak
  | .cont s steps peak => runStates prog inp limit sf (rest.push s) fwd steps peak
  | .complete s steps peak => .matched s.pos s steps peak
  | .split s new steps peak => runStates prog inp limit sf ((rest.push s).push new) fwd steps peak

/-- One iteration of the `while` loop. -/
theorem run_push (sf : Nat) (rest : Array State) (s : State) (fwd : Bool) (steps peak : Nat) :
    runStates prog inp limit (sf + 1) (rest.push s) fwd steps peak =
      if steps ≥ limit then .outOfFuel else
        dispatch prog inp limit sf rest fwd
          (tryMatchState prog inp (lookOf prog inp limit sf) (prog.insns.size + 1) s fwd (steps + 1)
            (if peak < rest.size + 1 then rest.size + 1 else peak)) := by
  rw [runStates]
  simp only [Array.back?_push, Array.pop_push, Array.size_push]
  split
  · rfl
  · unfold lookOf
    split <;> simp [dispatch, *]

/-- A fine run of a non-empty stack performs a step. -/
theorem fine_step {sf : Nat} {rest : Array State} {s : State} {fwd : Bool} {steps peak : Nat}
    (h : Fine (runStates prog inp limit sf (rest.push s) fwd steps peak)) :
    ∃ sf', sf = sf' + 1 ∧
      runStates prog inp limit sf (rest.push s) fwd steps peak =
        dispatch prog inp limit sf' rest fwd
          (tryMatchState prog inp (lookOf prog inp limit sf') (prog.insns.size + 1) s fwd (steps + 1)
            (if peak < rest.size + 1 then rest.size + 1 else peak)) := by
  cases sf with
  | zero => rw [runStates] at h; exact h.elim
  | succ sf =>
    refine ⟨sf, rfl, ?_⟩
    rw [run_push] at h ⊢
    split
    · rename_i hl; rw [if_pos hl] at h; exact h.elim
    · rfl

/-- A fine run of the empty stack fails. -/
theorem fine_empty {sf : Nat} {fwd : Bool} {steps peak : Nat}
    (h : Fine (runStates prog inp limit sf #[] fwd steps peak)) :
    runStates prog inp limit sf #[] fwd steps peak = .failed steps peak := by
  cases sf with
  | zero => rw [runStates] at h; exact h.elim
  | succ sf => rw [runStates]; rfl

/-! ## Tries -/

/-- The decomposition of an outcome into tries (see the header). `P r t`: the machine state `t`
represents the result `r`. -/
def Tries (fwd : Bool) (P : St → State → Prop) (rest : Array State) : List St → Outcome → Prop
  | [], o => ∃ sf steps peak, o = runStates prog inp limit sf rest fwd steps peak
  | r :: rs, o => ∃ (pend : Array State) (sf steps peak : Nat) (t : State), P r t ∧
      o = runStates prog inp limit sf ((rest ++ pend).push t) fwd steps peak ∧
      ∀ sf' steps' peak', Fine (runStates prog inp limit sf' (rest ++ pend) fwd steps' peak') →
        Tries fwd P rest rs (runStates prog inp limit sf' (rest ++ pend) fwd steps' peak')

variable {prog inp limit}

theorem Tries.nil_of_eq {fwd : Bool} {P : St → State → Prop} {rest : Array State} {o : Outcome}
    {sf steps peak : Nat} (h : o = runStates prog inp limit sf rest fwd steps peak) :
    Tries prog inp limit fwd P rest [] o := ⟨sf, steps, peak, h⟩

/-- One result, no pending states. -/
theorem Tries.single {fwd : Bool} {P : St → State → Prop} {rest : Array State} {o : Outcome}
    {r : St} {t : State} {sf steps peak : Nat} (hp : P r t)
    (h : o = runStates prog inp limit sf (rest.push t) fwd steps peak) :
    Tries prog inp limit fwd P rest [r] o := by
  refine ⟨#[], sf, steps, peak, t, hp, by simpa using h, ?_⟩
  intro sf' steps' peak' _
  exact ⟨sf', steps', peak', rfl⟩

theorem Tries.mono {fwd : Bool} {P Q : St → State → Prop} (hpq : ∀ r t, P r t → Q r t)
    {rest : Array State} : ∀ {l : List St} {o : Outcome},
    Tries prog inp limit fwd P rest l o → Tries prog inp limit fwd Q rest l o
  | [], _, h => h
  | _ :: rs, _, ⟨pend, sf, steps, peak, t, hp, ho, hk⟩ =>
    ⟨pend, sf, steps, peak, t, hpq _ _ hp, ho, fun sf' steps' peak' hf =>
      Tries.mono hpq (l := rs) (hk sf' steps' peak' hf)⟩

/-- Tries above pending states, followed by the tries of the pending states. -/
theorem Tries.append {fwd : Bool} {P : St → State → Prop} {rest pend : Array State} {l2 : List St}
    (h2 : ∀ sf steps peak, Fine (runStates prog inp limit sf (rest ++ pend) fwd steps peak) →
      Tries prog inp limit fwd P rest l2 (runStates prog inp limit sf (rest ++ pend) fwd steps peak)) :
    ∀ {l1 : List St} {o : Outcome}, Fine o → Tries prog inp limit fwd P (rest ++ pend) l1 o →
      Tries prog inp limit fwd P rest (l1 ++ l2) o
  | [], o, hf, ⟨sf, steps, peak, ho⟩ => by
    subst ho
    simpa using h2 sf steps peak hf
  | r :: rs, o, _, ⟨pend', sf, steps, peak, t, hp, ho, hk⟩ => by
    refine ⟨pend ++ pend', sf, steps, peak, t, hp, by simpa [Array.append_assoc] using ho, ?_⟩
    intro sf' steps' peak' hf'
    rw [← Array.append_assoc] at hf' ⊢
    exact Tries.append h2 (l1 := rs) hf' (hk sf' steps' peak' hf')

/-- Sequencing: every result `r` of the first stage, represented by `t`, is continued by the tries
`f r` of the second stage. -/
theorem Tries.bind {fwd : Bool} {P Q : St → State → Prop} {f : St → List St}
    (hf : ∀ r t, P r t → ∀ (rest' : Array State) (sf steps peak : Nat),
      Fine (runStates prog inp limit sf (rest'.push t) fwd steps peak) →
      Tries prog inp limit fwd Q rest' (f r) (runStates prog inp limit sf (rest'.push t) fwd steps peak))
    {rest : Array State} : ∀ {l : List St} {o : Outcome}, Fine o →
      Tries prog inp limit fwd P rest l o → Tries prog inp limit fwd Q rest (l.flatMap f) o
  | [], _, _, h => h
  | r :: rs, o, hfo, ⟨pend, sf, steps, peak, t, hp, ho, hk⟩ => by
    rw [List.flatMap_cons]
    subst ho
    refine Tries.append (fun sf' steps' peak' hf' => ?_) hfo (hf r t hp (rest ++ pend) sf steps peak hfo)
    exact Tries.bind hf (l := rs) hf' (hk sf' steps' peak' hf')

/-- Sequencing with a single-result second stage. -/
theorem Tries.map {fwd : Bool} {P Q : St → State → Prop} {g : St → St}
    (hg : ∀ r t, P r t → ∀ (rest' : Array State) (sf steps peak : Nat),
      Fine (runStates prog inp limit sf (rest'.push t) fwd steps peak) →
      ∃ t' sf' steps' peak', Q (g r) t' ∧ runStates prog inp limit sf (rest'.push t) fwd steps peak =
        runStates prog inp limit sf' (rest'.push t') fwd steps' peak')
    {rest : Array State} {l : List St} {o : Outcome} (hfo : Fine o)
    (h : Tries prog inp limit fwd P rest l o) : Tries prog inp limit fwd Q rest (l.map g) o := by
  have : ∀ l : List St, l.map g = l.flatMap (fun r => [g r]) := by
    intro l
    induction l with
    | nil => rfl
    | cons a t ih => simp [ih]
  rw [this]
  refine Tries.bind (fun r t hp rest' sf steps peak hfine => ?_) hfo h
  obtain ⟨t', sf', steps', peak', hq, he⟩ := hg r t hp rest' sf steps peak hfine
  exact Tries.single hq he

end

end Regress.Keystone
