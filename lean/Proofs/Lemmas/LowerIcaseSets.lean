import Proofs.Lemmas.LowerIcase
/-!
# ES specification ⇒ IR semantics: classes under `i` with `u` / `v`

* `u`-mode: the specification keeps raw CharSets and canonicalizes at match time; the crate keeps
  the same raw `CodePointSet` and closes it under "same fold" once, at the end of the bracket
  (`add_icase_code_points`).  The class escapes `\w \W` use `WordCharacters(rer)`, which is the
  closure of the basic word characters.
* `v`-mode: the specification keeps *folded* CharSets (sets of class representatives,
  `MaybeSimpleCaseFolding`) and complements relative to the representatives; the crate keeps
  code point sets and closes every operand of `&&`, `--` and of a complement before operating
  (`close_class_set_operand`).  `RDen R s`: the closure of `s` is exactly the set of code points whose
  representative is in `R`.
-/
namespace Regress.Lower

open Regress Regress.IR Regress.VM Regress.Parse Regress.CPS Regress.Fold

/-! ## Closure under "same class" -/

theorem mem_le_of_wf {s : IvList} (hs : WF s) {c : Nat} (h : mem s c) : c ≤ 0x10FFFF := by
  obtain ⟨iv, hiv, _, h2⟩ := h
  have := ((WF_iff s).1 hs).1 iv hiv
  exact Nat.le_trans h2 this.2

theorem mem_closure {s : IvList} (hs : WF s) (c : Nat) :
    mem (addIcaseCodePoints s) c ↔ ∃ d, mem s d ∧ C10.scfRep c = C10.scfRep d := C10.add_icase_scf17 hs c

/-- The set does not separate members of one folding class. -/
def Closed (s : IvList) : Prop := ∀ a b, C10.scfRep a = C10.scfRep b → (mem s a ↔ mem s b)

theorem closed_closure {s : IvList} (hs : WF s) : Closed (addIcaseCodePoints s) := by
  intro a b hab
  rw [mem_closure hs, mem_closure hs, hab]

theorem closed_inverted {s : IvList} (hs : WF s) (hc : Closed s) : Closed (inverted s) := by
  intro a b hab
  by_cases ha : a ≤ 0x10FFFF
  · have hb : b ≤ 0x10FFFF := class_le hab.symm ha
    rw [C12.inverted_mem hs ha, C12.inverted_mem hs hb, hc a b hab]
  · have hb : ¬ b ≤ 0x10FFFF := fun hb => ha (class_le hab hb)
    constructor
    · intro h; exact absurd (C12.inverted_mem_le hs h) ha
    · intro h; exact absurd (C12.inverted_mem_le hs h) hb

theorem mem_closure_of_closed {s : IvList} (hs : WF s) (hc : Closed s) (c : Nat) :
    mem (addIcaseCodePoints s) c ↔ mem s c := by
  rw [mem_closure hs]
  constructor
  · rintro ⟨d, hd, hcd⟩; exact (hc c d hcd).2 hd
  · intro h; exact ⟨c, h, rfl⟩

/-- Matching a raw CharSet under `i`+`u`/`v` is membership in the closure of its code point set. -/
theorem match_closure {rer : ES.RER} (hic : rer.ignoreCase = true) (hu : rer.hasEitherUnicodeFlag = true)
    {A : ES.CharSet} {s : IvList} (hd : Den A.chars s) {ch : Nat} (hch : ch ≤ 0x10FFFF) :
    ES.existsCanonMember rer A ch = true ↔ mem (addIcaseCodePoints s) ch := by
  rw [existsCanonMember_icase hic hu, mem_closure hd.1]
  constructor
  · rintro ⟨a, ha, hA⟩
    exact ⟨a, (hd.2 a (class_le ha hch)).1 hA, ha.symm⟩
  · rintro ⟨d, hd', hcd⟩
    exact ⟨d, hcd.symm, (hd.2 d (mem_le_of_wf hd.1 hd')).2 hd'⟩

/-! ## A bracket node, in general -/

theorem sim_bracket_gen {inp : Input} {cs : List Nat} (ht : Utf8Text inp cs) (total : Nat) (rer : ES.RER)
    (A : ES.CharSet) (invert inv' : Bool) (s : IvList) (back : Bool) (lo hi : Nat)
    (hstr : rer.unicodeSets = false ∨ A.strs = [])
    (hden : ∀ ch, ch ≤ 0x10FFFF →
      (ES.existsCanonMember rer A ch != invert) = bracketTest { invert := inv', ivs := pairsOfIvs s } ch) :
    Sim inp cs total (ES.charSetAtomMatcher cs.toArray rer A invert (dirOf back)) (mkBracket inv' s) (!back) lo hi := by
  rw [charSetAtomMatcher_singles _ _ _ _ _ hstr]
  apply sim_charset ht total rer A invert back (bracketTest { invert := inv', ivs := pairsOfIvs s }) _ _ _
    (fun st => by simp only [mkBracket, sem])
  intro ch hsc
  exact hden ch (isScalar_le' hsc)

theorem bracketTest_mem {s : IvList} (inv : Bool) (c : Nat) :
    bracketTest { invert := inv, ivs := pairsOfIvs s } c = (decide (mem s c) != inv) := by
  simp only [bracketTest]
  by_cases hm : mem s c
  · rw [if_pos ((any_pairsOfIvs s c).2 hm)]; simp [hm]
  · rw [if_neg (fun h' => hm ((any_pairsOfIvs s c).1 h'))]; simp [hm]

/-! ## `\d \s \w` and their complements, `u`-mode with `i` -/

theorem den_closure_trivial {P : Nat → Bool} {s : IvList} (hd : Den P s)
    (htriv : ∀ a b, C10.scfRep a = C10.scfRep b → P a = true → a = b) : Den P (addIcaseCodePoints s) := by
  refine ⟨C10.add_icase_wf hd.1, fun c hc => ?_⟩
  rw [mem_closure hd.1]
  constructor
  · intro h; exact ⟨c, (hd.2 c hc).1 h, rfl⟩
  · rintro ⟨d, hd', hcd⟩
    have hdP := (hd.2 d (mem_le_of_wf hd.1 hd')).2 hd'
    have := htriv d c hcd.symm hdP
    subst this; exact hdP

theorem den_closure_words {P : IvList} (hd : Den ES.isBasicWordChar P) :
    Den (fun c => ES.isBasicWordChar c || ES.isBasicWordChar (C10.scfRep c)) (addIcaseCodePoints P) := by
  refine ⟨C10.add_icase_wf hd.1, fun c hc => ?_⟩
  rw [mem_closure hd.1]
  simp only [Bool.or_eq_true]
  constructor
  · rintro (h | h)
    · exact ⟨c, (hd.2 c hc).1 h, rfl⟩
    · exact ⟨C10.scfRep c, (hd.2 _ (scfRep_le hc)).1 h, (scfRep_idem c).symm⟩
  · rintro ⟨d, hd', hcd⟩
    have hb := (hd.2 d (mem_le_of_wf hd.1 hd')).2 hd'
    right; rw [hcd]; exact basic_scfRep hb

theorem codepointsFromClass_true (ct : ClassType) (pos : Bool) :
    codepointsFromClass ct pos true =
      if pos then addIcaseCodePoints (codepointsFromClassPositive ct)
      else inverted (addIcaseCodePoints (codepointsFromClassPositive ct)) := by
  cases pos <;> simp [codepointsFromClass]

/-- `codepoints_from_class(.., icase = true)` against `CompileToCharSet` of the class escape, for a
RegExp Record with `i` and `u` (not `v`).  (`P` is the positive table, kept abstract: a statement that
mentions the closure of a literal table exhausts the elaborator's recursion depth.) -/
theorem den_classEscape_ui {rer : ES.RER} (hic : rer.ignoreCase = true) (hu : rer.hasEitherUnicodeFlag = true)
    (hus : rer.unicodeSets = false) (e : ES.ClassEsc) (P : IvList) (hP : Den (escPred e) P) :
    Den (ES.classEscape rer e).chars
      (if (classOfEsc e).2 then addIcaseCodePoints P else inverted (addIcaseCodePoints P)) := by
  have hall : ∀ c, (ES.allCharacters rer).chars c = decide (c ≤ 0x10FFFF) := by
    intro c; simp [ES.allCharacters, hus]
  have hw : ∀ c, (ES.maybeSimpleCaseFolding rer (ES.wordCharacters rer)).chars c =
      (ES.isBasicWordChar c || ES.isBasicWordChar (C10.scfRep c)) := by
    intro c
    simp [ES.maybeSimpleCaseFolding, hus, ES.wordCharacters, canonicalize_icase hic hu]
  cases e
  · have := den_closure_trivial hP (fun a b hab ha => digit_trivial hab ha)
    simpa [classOfEsc, ES.classEscape, escPred] using this
  · have := den_closure_trivial hP (fun a b hab ha => digit_trivial hab ha)
    exact (den_inverted this).congr (fun c _ => by
      simp [ES.classEscape, ES.characterComplement, hall, escPred])
  · exact (den_closure_words hP).congr (fun c _ => by simp [ES.classEscape, hw])
  · exact (den_inverted (den_closure_words hP)).congr (fun c _ => by
      simp [ES.classEscape, ES.characterComplement, hall, hw])
  · have := den_closure_trivial hP (fun a b hab ha => ws_trivial hab ha)
    simpa [classOfEsc, ES.classEscape, escPred] using this
  · have := den_closure_trivial hP (fun a b hab ha => ws_trivial hab ha)
    exact (den_inverted this).congr (fun c _ => by
      simp [ES.classEscape, ES.characterComplement, hall, escPred])

theorem classEscape_strs_icase {rer : ES.RER} (e : ES.ClassEsc) : (ES.classEscape rer e).strs = [] := by
  cases e <;> simp [ES.classEscape, ES.characterComplement, ES.maybeSimpleCaseFolding, ES.wordCharacters] <;>
    split <;> simp

theorem closed_class_sets {P : IvList} (hwf : WF P) (pos : Bool) :
    Closed (if pos then addIcaseCodePoints P else inverted (addIcaseCodePoints P)) ∧
      WF (if pos then addIcaseCodePoints P else inverted (addIcaseCodePoints P)) := by
  have h1 := closed_closure hwf
  have h2 := C10.add_icase_wf hwf
  cases pos
  · exact ⟨closed_inverted h2 h1, C12.inverted_wf h2⟩
  · exact ⟨h1, h2⟩


/-! ## Class nodes under `i` with `u` (not `v`) -/

theorem bne_congr_iff {a : Bool} {p : Prop} [Decidable p] (h : a = true ↔ p) (neg : Bool) :
    (a != neg) = (decide p != neg) := by
  have : a = decide p := by
    by_cases hp : p
    · simp [hp, h.2 hp]
    · have : a = false := by cases ha : a with | false => rfl | true => exact absurd (h.1 ha) hp
      simp [hp, this]
  rw [this]

theorem makeBracketClass_icase (ct : ClassType) (pos : Bool) :
    makeBracketClass ct pos true =
      mkBracket false (if pos then addIcaseCodePoints (codepointsFromClassPositive ct)
        else inverted (addIcaseCodePoints (codepointsFromClassPositive ct))) := by
  cases pos <;> simp [makeBracketClass]

/-- Class-like atoms covered under `i` + `u` (not `v`). -/
def classSupportedIU (fl : IR.Flags) : ES.Node → Bool
  | .esc _ => true
  | .prop _ kind name => propIsCharClass fl.unicodeSets kind name
  | .cls _ items => items.all itemOK
  | _ => false

theorem lower_class_node_iu {inp : Input} {cs : List Nat} (ht : Utf8Text inp cs) (pattern : ES.Node) (total : Nat) :
    ∀ (n : ES.Node) (fl : IR.Flags) (rer : ES.RER) (pi : Nat) (back : Bool) (ir : Node),
      FlagsRel rer fl → fl.icase = true → fl.unicode = true → fl.unicodeSets = false →
      classSupportedIU fl n = true → lowerNode pattern total n fl pi = .ok ir →
      ∃ ir', Parse.reverseCats back ir = .ok ir' ∧ NodeSim inp cs total pattern n rer pi back ir ir' := by
  intro n fl rer pi back ir hfl hfi hfu hfus hs hl
  have hic : rer.ignoreCase = true := by rw [hfl.icase]; exact hfi
  have hu : rer.hasEitherUnicodeFlag = true := by rw [hfl.unicode]; exact hfu
  have hus : rer.unicodeSets = false := by rw [hfl.unicodeSets]; exact hfus
  cases n with
  | esc e =>
    simp only [lowerNode, hfi, makeBracketClass_icase, Except.ok.injEq] at hl; subst hl
    apply NodeSim.leaf (reverseCats_mkBracket _ _ _) rfl (numGroups_mkBracket _ _) (inRange_mkBracket _ _ _ _)
    simp only [ES.compileNode]
    have hden := den_classEscape_ui hic hu hus e _ (den_escPositive e)
    have hcl := closed_class_sets (den_escPositive e).1 (classOfEsc e).2
    apply sim_bracket_gen ht total rer _ false false _ back _ _ (Or.inl hus)
    intro ch hch
    rw [bracketTest_mem]
    apply bne_congr_iff
    rw [match_closure hic hu hden hch, mem_closure_of_closed hcl.2 hcl.1]
  | prop neg kind name =>
    simp only [classSupportedIU, propIsCharClass] at hs
    simp only [lowerNode, lowerPropAtom] at hl
    split at hl
    · cases hl
    · cases hp : lowerProp fl.unicodeSets kind name with
      | error e => simp [hp] at hs
      | ok k =>
        cases k with
        | stringSet _ => simp [hp] at hs
        | charClass cps =>
          rw [hp] at hl
          simp only [hfi, hfus, Bool.and_false, if_true, Bool.false_eq_true, if_false] at hl
          obtain ⟨hpos, hneg, hstrs⟩ := den_propEscape (Or.inl hus) hp
          cases neg with
          | false =>
            simp only [Bool.false_eq_true, if_false, Except.ok.injEq] at hl; subst hl
            apply NodeSim.leaf (reverseCats_mkBracket _ _ _) rfl (numGroups_mkBracket _ _)
              (inRange_mkBracket _ _ _ _)
            simp only [ES.compileNode]
            apply sim_bracket_gen ht total rer _ false false _ back _ _ (Or.inl hus)
            intro ch hch
            rw [bracketTest_mem]
            exact bne_congr_iff (match_closure hic hu hpos hch) false
          | true =>
            simp only [if_true, Except.ok.injEq] at hl; subst hl
            apply NodeSim.leaf (reverseCats_mkBracket _ _ _) rfl (numGroups_mkBracket _ _)
              (inRange_mkBracket _ _ _ _)
            simp only [ES.compileNode]
            apply sim_bracket_gen ht total rer _ false false _ back _ _ (Or.inl hus)
            intro ch hch
            rw [bracketTest_mem]
            exact bne_congr_iff (match_closure hic hu hneg hch) false
  | cls neg items =>
    simp only [classSupportedIU] at hs
    simp only [lowerNode, hfus, Bool.false_eq_true, if_false, lowerClass] at hl
    cases hc : lowerClassItems fl items [] with
    | error e => rw [hc] at hl; cases hl
    | ok cps =>
      rw [hc] at hl
      simp only [hfi, if_true, Except.ok.injEq] at hl; subst hl
      have hden := (den_classItems (Or.inl hus) fl true (by simp [hfi, hfu])
        (fun e => by rw [codepointsFromClass_true]; exact den_classEscape_ui hic hu hus e _ (den_escPositive e))
        items [] cps _ den_empty hs hc).congr
        (Q := (ES.classContentsCharSet rer items).chars) (fun c _ => by simp)
      apply NodeSim.leaf (reverseCats_mkBracket _ _ _) rfl (numGroups_mkBracket _ _)
        (inRange_mkBracket _ _ _ _)
      simp only [ES.compileNode]
      have hcc : ES.compileCharacterClass rer neg items = (ES.classContentsCharSet rer items, neg) := by
        cases neg <;> simp [ES.compileCharacterClass, hus]
      rw [hcc]
      apply sim_bracket_gen ht total rer _ neg neg _ back _ _ (Or.inl hus)
      intro ch hch
      rw [bracketTest_mem]
      exact bne_congr_iff (match_closure hic hu hden hch) neg
  | _ => simp [classSupportedIU] at hs

end Regress.Lower
