import Proofs.Lemmas.TotalParse4
import RegressModel.IR.Walk
/-!
# The height of the IR tree returned by the parser model is bounded

`parse_height`: the IR returned by `parse pat fl` has
`height ≤ MAX_NESTING_DEPTH * (log₂ (|pat| + 1) + 4) + 3`.

Per nesting level (`consumeDisjunction` refuses to go deeper than `MAX_NESTING_DEPTH = 256`) the
tree grows by at most: `⌊log₂ #terms⌋ + 1` for the (count-)balanced `Alt` tree built by `make_alt`,
`1` for the `Cat` of one term, `1` for a `Loop` around the atom, `1` for the `CaptureGroup` /
`LookaroundAssertion` node; at the innermost level an atom has height `≤ 3`.
-/
namespace Regress.Parse
open Regress Regress.IR

/-! ## `OkP`: a postcondition for `.ok` results only -/

/-- `Q` holds of the value if the result is `.ok`. -/
def OkP {α : Type} (r : Res α) (Q : α → Prop) : Prop :=
  match r with
  | .ok a => Q a
  | .error _ => True

@[simp] theorem OkP_ok {α : Type} (a : α) (Q : α → Prop) : OkP (.ok a) Q ↔ Q a := Iff.rfl
@[simp] theorem OkP_error {α : Type} (e : ParseError) (Q : α → Prop) : OkP (.error e) Q ↔ True := Iff.rfl
@[simp] theorem OkP_syn {α : Type} (m : String) (Q : α → Prop) : OkP (synErr m) Q ↔ True := Iff.rfl
@[simp] theorem OkP_lim {α : Type} (m : String) (Q : α → Prop) : OkP (limErr m) Q ↔ True := Iff.rfl
@[simp] theorem OkP_panic {α : Type} (m : String) (Q : α → Prop) : OkP (panicAt m) Q ↔ True := Iff.rfl

theorem OkP.ok_of_eq {α : Type} {r : Res α} {a : α} {Q : α → Prop} (h : OkP r Q) (he : r = .ok a) :
    Q a := by
  rw [he] at h; exact h

theorem OkP.mono {α : Type} {r : Res α} {Q Q' : α → Prop} (h : OkP r Q) (hq : ∀ a, Q a → Q' a) :
    OkP r Q' := by
  cases r with
  | ok a => exact hq a h
  | error e => trivial

theorem OkP.intro {α : Type} {r : Res α} {Q : α → Prop} (h : ∀ a, r = .ok a → Q a) : OkP r Q := by
  cases r with
  | ok a => exact h a rfl
  | error e => trivial

theorem Ens.toOkP {α : Type} {r : Res α} {Q : α → Prop} (h : Ens r Q) : OkP r Q := by
  cases r with
  | ok a => exact h
  | error e => trivial

/-! ## `heightList` -/

theorem height_pos (n : Node) : 1 ≤ n.height := by
  cases n <;> simp [Node.height]

theorem heightList_le_iff {ns : List Node} {b : Nat} : heightList ns ≤ b ↔ ∀ n ∈ ns, n.height ≤ b := by
  induction ns with
  | nil => simp [heightList]
  | cons x xs ih => simp [heightList, ih, Nat.max_le]

theorem heightList_mem {ns : List Node} {n : Node} (h : n ∈ ns) : n.height ≤ heightList ns :=
  heightList_le_iff.1 (Nat.le_refl _) n h

theorem heightList_append (xs ys : List Node) :
    heightList (xs ++ ys) = max (heightList xs) (heightList ys) := by
  induction xs with
  | nil => simp [heightList]
  | cons x xs ih => simp [heightList, ih, Nat.max_assoc]

@[simp] theorem heightList_nil : heightList [] = 0 := by simp [heightList]
@[simp] theorem heightList_singleton (n : Node) : heightList [n] = n.height := by simp [heightList]

theorem heightList_take_le (ns : List Node) (k : Nat) : heightList (ns.take k) ≤ heightList ns :=
  heightList_le_iff.2 fun _ hn => heightList_mem (List.mem_of_mem_take hn)

theorem heightList_drop_le (ns : List Node) (k : Nat) : heightList (ns.drop k) ≤ heightList ns :=
  heightList_le_iff.2 fun _ hn => heightList_mem (List.mem_of_mem_drop hn)

theorem heightList_reverse (ns : List Node) : heightList ns.reverse = heightList ns := by
  apply Nat.le_antisymm
  · exact heightList_le_iff.2 fun _ hn => heightList_mem (List.mem_reverse.1 hn)
  · exact heightList_le_iff.2 fun _ hn => heightList_mem (List.mem_reverse.2 hn)

/-! ## `make_cat`, `make_alt` -/

theorem makeCat_singleton (n : Node) : makeCat [n] = n := rfl

/-- `make_cat` adds at most one level. -/
theorem makeCat_height (ns : List Node) : (makeCat ns).height ≤ heightList ns + 1 := by
  unfold makeCat
  split
  · simp [Node.height]
  · simp
  · simp [Node.height]

/-- `make_alt` builds a balanced tree: `2 ^ k` (at least one) alternatives add `k` levels. -/
theorem makeAltFuel_height_pos (fuel : Nat) (ns : List Node) :
    ∀ k, ns.length ≤ fuel → 1 ≤ ns.length → ns.length ≤ 2 ^ k →
      (makeAltFuel fuel ns).height ≤ heightList ns + k := by
  fun_induction makeAltFuel fuel ns
  · intro k _ h; simp at h
  · intro k _ _ _; simp
  · rename_i ns hne1 hne2
    intro k h
    match ns, hne1, hne2 with
    | [], h1, _ => exact absurd rfl h1
    | [x], _, h2 => exact absurd rfl (h2 x)
    | _ :: _ :: _, _, _ => simp at h
  · rename_i fuel ns hne1 hne2 hl ih1 ih2
    intro k hf _ hk
    have hlen : 2 ≤ ns.length := by
      match ns, hne1, hne2 with
      | [], h1, _ => exact absurd rfl h1
      | [x], _, h2 => exact absurd rfl (h2 x)
      | _ :: _ :: _, _, _ => simp
    cases k with
    | zero => simp at hk; omega
    | succ k =>
      rw [Nat.pow_succ] at hk
      have h1 := ih1 k (by simp; omega) (by simp; omega) (by simp; omega)
      have h2 := ih2 k (by simp; omega) (by simp; omega) (by simp; omega)
      have t1 := heightList_take_le ns hl
      have t2 := heightList_drop_le ns hl
      simp only [Node.height]
      omega

theorem makeAlt_height_pos (k : Nat) (ns : List Node) (h1 : 1 ≤ ns.length) (hk : ns.length ≤ 2 ^ k) :
    (makeAlt ns).height ≤ heightList ns + k :=
  makeAltFuel_height_pos _ _ k (Nat.le_refl _) h1 hk

theorem makeAltFuel_height (k fuel : Nat) (ns : List Node) (hf : ns.length ≤ fuel)
    (hk : ns.length ≤ 2 ^ k) : (makeAltFuel fuel ns).height ≤ heightList ns + k + 1 := by
  cases ns with
  | nil => simp [makeAltFuel, Node.height]
  | cons x xs =>
    have := makeAltFuel_height_pos fuel (x :: xs) k hf (by simp) hk
    omega

/-- `ns.length ≤ 2 ^ k → (make_alt ns).height ≤ heightList ns + k + 1`. -/
theorem makeAlt_height (k : Nat) (ns : List Node) (hk : ns.length ≤ 2 ^ k) :
    (makeAlt ns).height ≤ heightList ns + k + 1 :=
  makeAltFuel_height k _ ns (Nat.le_refl _) hk

/-- The balanced `Alt` tree over `ns` has logarithmic height over its leaves. -/
theorem makeAlt_height_log (ns : List Node) :
    (makeAlt ns).height ≤ heightList ns + Nat.log2 ns.length + 2 := by
  have := makeAlt_height (Nat.log2 ns.length + 1) ns (Nat.le_of_lt Nat.lt_log2_self)
  omega

theorem makeAlt_pair (a b : Node) : makeAlt [a, b] = .alt a b := by
  simp [makeAlt, makeAltFuel]

/-! ## Leaf atoms: height `≤ 3` -/

@[simp] theorem mkBracket_height (invert : Bool) (cps : CPS.IvList) : (mkBracket invert cps).height = 1 := by
  simp [mkBracket, Node.height]

@[simp] theorem makeBracketClass_height (ct : ClassType) (positive icase : Bool) :
    (makeBracketClass ct positive icase).height = 1 := by
  simp [makeBracketClass]

theorem charNode_height {fl : Flags} {c : Nat} {n : Node} (h : charNode fl c = .ok n) : n.height = 1 := by
  unfold charNode at h
  split at h
  · cases h; simp [Node.height]
  · simp only at h
    split at h
    all_goals first | (cases h; simp [Node.height]) | (simp [panicAt] at h)

theorem charNode_okp (fl : Flags) (c : Nat) : OkP (charNode fl c) (fun n => n.height = 1) :=
  OkP.intro fun _ h => charNode_height h

@[simp] theorem altsIntoNode_height (alts : List (List Nat)) (icase : Bool) :
    (altsIntoNode alts icase).height = 1 := by
  simp [altsIntoNode, Node.height]

theorem nonemptyNode_height (cs : ClassSet) (icase neg : Bool) : (cs.nonemptyNode icase neg).height ≤ 2 := by
  unfold ClassSet.nonemptyNode
  simp only
  repeat' split
  all_goals simp [makeAlt_pair, Node.height]

/-- `ClassSet::node`: at most `Alt (Alt strings bracket) Empty`. -/
theorem classSetNode_height (cs : ClassSet) (icase neg : Bool) : (cs.node icase neg).height ≤ 3 := by
  unfold ClassSet.node
  simp only
  generalize cs.absorbSingleCharacters = cs
  have := nonemptyNode_height { cs with alts := cs.alts.filter (fun s => !s.isEmpty) } icase neg
  split
  · simp only [makeAlt_pair, Node.height]; omega
  · omega

theorem backRefs_height (idxs : List Nat) (icase : Bool) :
    (Node.cat (idxs.map fun i => .backRef (i + 1) icase)).height ≤ 2 := by
  simp only [Node.height]
  have : heightList (idxs.map fun i => Node.backRef (i + 1) icase) ≤ 1 := by
    apply heightList_le_iff.2
    intro n hn
    obtain ⟨i, _, rfl⟩ := List.mem_map.1 hn
    simp [Node.height]
  omega

/-- `consume_atom_escape`: a leaf, or the `Cat` of back references of a duplicated group name. -/
theorem consumeAtomEscape_height (st : PState) :
    OkP (consumeAtomEscape st) (fun p => p.1.height ≤ 2) := by
  fun_cases consumeAtomEscape st
  all_goals try simp only [*]
  all_goals try (simp; done)
  all_goals try (simp [Node.height]; done)
  all_goals try (simp only [OkP_ok]; rw [charNode_height ‹charNode _ _ = _›]; omega)
  all_goals try (simp only [OkP_ok]; exact backRefs_height _ _)

theorem bracketLoop_height (fl : Flags) (hn : Bool) (invert : Bool) (fuel : Nat) (inp : List Nat)
    (cps : CPS.IvList) :
    OkP (bracketLoop fl hn invert fuel inp cps) (fun p => p.1.height = 1) := by
  fun_induction bracketLoop fl hn invert fuel inp cps
  all_goals try simp only [*]
  all_goals try (simp; done)
  all_goals assumption

theorem consumeBracket_height (fl : Flags) (hn : Bool) (inp : List Nat) :
    OkP (consumeBracket fl hn inp) (fun p => p.1.height = 1) := by
  unfold consumeBracket
  split
  · simp
  · exact bracketLoop_height _ _ _ _ _ _


/-! ## The pieces of `consumeAtom`, heights only -/

/-- Height postcondition of `consumeAtom`: `result` is extended by `pre ++ [x]`, `startOffset`
points at `x` (so the quantifee `result.split_off(start_offset)` is the single node `x`); `pre` is
empty except for the `\c` fallback, where it is one `Char`. -/
def AtomH (a : Nat) (result : List Node) (out : AtomOut) : Prop :=
  ∃ pre x, out.result = result ++ pre ++ [x] ∧ out.startOffset = result.length + pre.length ∧
    heightList pre ≤ 1 ∧ x.height ≤ a

theorem AtomH.mono {a a' : Nat} {result : List Node} {out : AtomOut} (h : AtomH a result out)
    (ha : a ≤ a') : AtomH a' result out := by
  obtain ⟨pre, x, h1, h2, h3, h4⟩ := h
  exact ⟨pre, x, h1, h2, h3, Nat.le_trans h4 ha⟩

theorem atomH_node {result : List Node} {n : Node} {st' : PState} {qa : Bool} {a : Nat}
    (hn : n.height ≤ a) : AtomH a result ⟨result ++ [n], st', result.length, qa⟩ :=
  ⟨[], n, by simp, by simp, by simp, hn⟩

/-- What the pieces need to know about `cd = consumeDisjunction fuel`, below the state `st`. -/
def CDH (cd : PState → Res (Node × PState)) (st : PState) (b : Nat) : Prop :=
  ∀ st', Inv st' → st'.input.length < st.input.length → st'.depth = st.depth →
    OkP (cd st') (fun p => p.1.height ≤ b)

theorem closeParenA_h (result : List Node) {r : Res (Node × PState × Bool)} {a : Nat}
    (h : OkP r (fun p => p.1.height ≤ a)) :
    OkP (closeParenA result result.length r) (AtomH a result) := by
  unfold closeParenA
  split
  · simp
  · rename_i nd st1 qa
    have h1 : nd.height ≤ a := h
    split
    · exact atomH_node h1
    · simp

theorem lookA_h {cd : PState → Res (Node × PState)} {st st1 : PState} {b : Nat} (hcd : CDH cd st b)
    (ha : Adv st st1) (negate backwards qa : Bool) :
    OkP (lookA cd st1 negate backwards qa) (fun p => p.1.height ≤ b + 1) := by
  unfold lookA
  have h := hcd st1 ha.1.inv ha.2.1 ha.1.depth
  simp only
  split
  · simp
  · rename_i contents st2 heq
    have h1 : contents.height ≤ b := h.ok_of_eq heq
    simp only [OkP_ok, Node.height]; omega

theorem cdA_h {cd : PState → Res (Node × PState)} {st st1 : PState} {b : Nat} (hcd : CDH cd st b)
    (ha : Adv st st1) :
    OkP (match cd st1 with
      | .error e => .error e
      | .ok (nd, st) => .ok (nd, st, true)) (fun (p : Node × PState × Bool) => p.1.height ≤ b + 1) := by
  have h := hcd st1 ha.1.inv ha.2.1 ha.1.depth
  split
  · simp
  · rename_i nd st2 heq
    have h1 : nd.height ≤ b := h.ok_of_eq heq
    simp only [OkP_ok]; omega

theorem two_chars_h {st' : PState} (fl : Flags) (result : List Node) :
    OkP (match charNode fl 0x5C, charNode fl 0x63 with
      | .ok a, .ok b => (.ok ⟨result ++ [a, b], st', result.length + 1, true⟩ : Res AtomOut)
      | .error e, _ => .error e
      | _, .error e => .error e) (AtomH 1 result) := by
  split
  · rename_i a b ha' hb'
    refine ⟨[a], b, by simp, by simp, ?_, ?_⟩
    · simp [charNode_height ha']
    · simp [charNode_height hb']
  · simp
  · simp

theorem atomBackslashA_h {st : PState} {rest0 : List Nat} (result : List Node)
    (hinp : st.input = 0x5C :: rest0) : OkP (atomBackslashA st result) (AtomH 2 result) := by
  unfold atomBackslashA
  rw [consume_eq hinp]
  simp only
  split
  · simp
  · split
    · exact atomH_node (by simp [Node.height])
    · split
      · exact atomH_node (by simp [Node.height])
      · split
        · split
          · split
            · split
              · simp
              · rename_i nd heq
                exact atomH_node (by rw [charNode_height heq]; omega)
            · exact (two_chars_h _ _).mono fun _ h => h.mono (by omega)
          · exact (two_chars_h _ _).mono fun _ h => h.mono (by omega)
        · split
          · simp
          · rename_i nd st2 heq
            exact atomH_node ((consumeAtomEscape_height _).ok_of_eq heq)

theorem atomCaptureA_h {cd : PState → Res (Node × PState)} {st : PState} {b : Nat} (hi : Inv st)
    (hcd : CDH cd st b) {c : Nat} {rest0 : List Nat} (result : List Node) (hinp : st.input = c :: rest0) :
    OkP (atomCaptureA cd st result) (AtomH (b + 1) result) := by
  unfold atomCaptureA
  rw [consume_eq hinp]
  simp only
  split
  · simp
  · rename_i hlt
    simp only [ge_iff_le, Nat.not_le] at hlt
    have hi1 : Inv { st with input := rest0, groupCount := st.groupCount + 1 } :=
      ⟨hi.named, hi.depth, by show st.groupCount + 1 ≤ _; omega, hi.loops, (hinp ▸ hi.bnd).tail⟩
    split
    · simp
    · rename_i groupName st3 heq
      have h3 : Step { st with input := rest0, groupCount := st.groupCount + 1 } st3 := by
        split at heq
        · rename_i st2 hq
          obtain ⟨r2, hr2, rfl⟩ := tryConsumeStr_true hq
          have h := tryConsumeName_ens r2
          split at heq
          · cases heq
          · cases heq
          · rename_i name rest he'
            cases heq
            have hsuf : rest <:+ r2 := h.ok_of_eq he'
            have hr2' : r2 <:+ rest0 := by
              have : rest0 = [0x3F] ++ r2 := hr2
              rw [this]; exact List.suffix_append _ _
            exact Step.input hi1 (hsuf.trans hr2')
        · rename_i st2 hq
          cases heq
          rw [tryConsumeStr_false hq]
          exact Step.refl hi1
      apply closeParenA_h
      have hlen : st3.input.length < st.input.length := by
        have h5 : st3.input.length ≤ rest0.length := h3.suf.length_le
        rw [hinp]; simp only [List.length_cons]; omega
      have h := hcd st3 h3.inv hlen h3.depth
      split
      · simp
      · rename_i contents st4 heq'
        have h4 : contents.height ≤ b := h.ok_of_eq heq'
        simp only [OkP_ok, Node.height]; omega

theorem atomParenA_h {cd : PState → Res (Node × PState)} {st : PState} {b : Nat} (hi : Inv st)
    (hcd : CDH cd st b) {rest0 : List Nat} (result : List Node) (hinp : st.input = 0x28 :: rest0) :
    OkP (atomParenA cd st result) (AtomH (b + 1) result) := by
  unfold atomParenA
  simp only
  split
  · rename_i st1 h1
    exact closeParenA_h _ (lookA_h hcd (tryConsumeStr_adv hi (by simp) h1) _ _ _)
  · rename_i st1 h1
    rw [tryConsumeStr_false h1]
    split
    · rename_i st2 h2
      exact closeParenA_h _ (lookA_h hcd (tryConsumeStr_adv hi (by simp) h2) _ _ _)
    · rename_i st2 h2
      rw [tryConsumeStr_false h2]
      split
      · rename_i st3 h3
        exact closeParenA_h _ (lookA_h hcd (tryConsumeStr_adv hi (by simp) h3).lookbehind _ _ _)
      · rename_i st3 h3
        rw [tryConsumeStr_false h3]
        split
        · rename_i st4 h4
          exact closeParenA_h _ (lookA_h hcd (tryConsumeStr_adv hi (by simp) h4).lookbehind _ _ _)
        · rename_i st4 h4
          rw [tryConsumeStr_false h4]
          split
          · rename_i st5 h5
            exact closeParenA_h _ (cdA_h hcd (tryConsumeStr_adv hi (by simp) h5))
          · rename_i st5 h5
            rw [tryConsumeStr_false h5]
            split
            · simp
            · rename_i mods rest hm
              obtain ⟨cur, rest', hinp', hr⟩ := modifierGroupHead_some hm
              have hs : SSuf rest (cur :: rest') := (modifierScan_ens _ _).ok_of_eq hr.symm
              have ha : Adv st { st with input := rest, flags := applyMods st.flags mods } := by
                have := adv_input hi (r := rest) (by
                  rw [hinp']; exact SSuf.of_tail _ (suf_cons _ hs.1))
                exact ⟨⟨⟨hi.named, hi.depth, hi.groups, hi.loops, this.1.inv.bnd⟩, this.1.suf, rfl, rfl⟩,
                  this.2.1, rfl⟩
              apply closeParenA_h
              have h := hcd _ ha.1.inv ha.2.1 ha.1.depth
              split
              · simp
              · rename_i nd st6 heq'
                have h6 : nd.height ≤ b := h.ok_of_eq heq'
                simp only [OkP_ok]; omega
            · exact atomCaptureA_h hi hcd result hinp

theorem atomClassSetA_h {st : PState} {c : Nat} {rest0 : List Nat} (result : List Node)
    (hinp : st.input = c :: rest0) : OkP (atomClassSetA st result) (AtomH 3 result) := by
  unfold atomClassSetA
  rw [consume_eq hinp]
  simp only
  generalize tryConsume 0x5E { st with input := rest0 } = tc
  obtain ⟨negateSet, st1⟩ := tc
  simp only
  split
  · simp
  · split
    · simp
    · exact atomH_node (classSetNode_height _ _ _)

theorem atomCharA_h {st : PState} {c' : Nat} {rest0 : List Nat} (result : List Node)
    (c : Nat) (hinp : st.input = c' :: rest0) : OkP (atomCharA st result c) (AtomH 1 result) := by
  unfold atomCharA
  rw [consume_eq hinp]
  simp only
  split
  · simp
  · rename_i nd heq
    exact atomH_node (by rw [charNode_height heq]; omega)

theorem atomBraceA_h {st : PState} {c' : Nat} {rest0 : List Nat} (result : List Node)
    (hinp : st.input = c' :: rest0) : OkP (atomBraceA st result) (AtomH 1 result) := by
  unfold atomBraceA
  split
  · simp
  · simp
  · rw [consume_eq hinp]
    simp only
    split
    · simp
    · rename_i nd heq
      exact atomH_node (by rw [charNode_height heq]; omega)

/-- One atom: height `≤ 3` for the leaves, one more than the nested disjunction for a group. -/
theorem consumeAtomA_h {cd : PState → Res (Node × PState)} {st : PState} {b a : Nat} (hi : Inv st)
    (hcd : CDH cd st b) (ha3 : 3 ≤ a) (hab : b + 1 ≤ a) {c : Nat} {rest0 : List Nat}
    (result : List Node) (hinp : st.input = c :: rest0) :
    OkP (consumeAtomA cd st result c) (AtomH a result) := by
  unfold consumeAtomA
  simp only
  split
  · rw [consume_eq hinp]; exact atomH_node (by simp [Node.height]; omega)
  split
  · rw [consume_eq hinp]; exact atomH_node (by simp [Node.height]; omega)
  split
  · rename_i hc
    simp only [beq_iff_eq] at hc; subst hc
    exact (atomBackslashA_h result hinp).mono fun _ h => h.mono (by omega)
  split
  · rw [consume_eq hinp]
    refine atomH_node ?_
    split <;> (simp [Node.height]; omega)
  split
  · rename_i hc
    simp only [beq_iff_eq] at hc; subst hc
    exact (atomParenA_h hi hcd result hinp).mono fun _ h => h.mono hab
  split
  · exact (atomClassSetA_h result hinp).mono fun _ h => h.mono ha3
  split
  · have h := consumeBracket_height st.flags (!st.named.isEmpty) st.input
    split
    · simp
    · rename_i nd rest heq
      have h1 : nd.height = 1 := h.ok_of_eq heq
      exact atomH_node (by omega)
  split
  · exact (atomBraceA_h result hinp).mono fun _ h => h.mono (by omega)
  split
  · simp
  split
  · simp
  · exact (atomCharA_h result c hinp).mono fun _ h => h.mono (by omega)


/-! ## The descent -/

/-- Height paid per nesting level: `⌊log₂ (len + 1)⌋ + 1` for the balanced `Alt` tree over at most
`len + 1` terms, one each for the `Cat` of a term, the `Loop` around an atom, the group node. -/
def lvl (len : Nat) : Nat := Nat.log2 (len + 1) + 4

/-- The height budget of a disjunction entered at nesting depth `d`. -/
def budget (len d : Nat) : Nat := (Gen.MAX_NESTING_DEPTH - d) * lvl len + 2

theorem budget_succ {len d : Nat} (h : d + 1 ≤ Gen.MAX_NESTING_DEPTH) :
    budget len d = budget len (d + 1) + lvl len := by
  unfold budget
  have : Gen.MAX_NESTING_DEPTH - d = (Gen.MAX_NESTING_DEPTH - (d + 1)) + 1 := by omega
  rw [this, Nat.succ_mul]; omega

/-- The induction hypothesis / conclusion of the descent at a given amount of fuel: heights, for
patterns of length `≤ len`, in terms of the nesting depth `d` of the state. -/
structure HeightIH (len fuel : Nat) : Prop where
  disj : ∀ st d, Inv st → 4 * st.input.length + 4 ≤ fuel → st.input.length ≤ len → st.depth = d →
    OkP (consumeDisjunction fuel st) (fun p => p.1.height ≤ budget len d)
  dloop : ∀ st terms d, Inv st → 4 * st.input.length + 3 ≤ fuel → st.input.length ≤ len →
    st.depth = d →
    OkP (disjLoop fuel st terms) (fun p => terms.length + 1 ≤ p.1.length ∧
      p.1.length ≤ terms.length + st.input.length + 1 ∧
      heightList p.1 ≤ max (heightList terms) (budget len d + 3))
  tloop : ∀ st result d, Inv st → 4 * st.input.length + 2 ≤ fuel → st.input.length ≤ len →
    st.depth = d → heightList result ≤ budget len d + 2 →
    OkP (termLoop fuel st result) (fun p => p.1.height ≤ budget len d + 3)
  atom : ∀ st result c rest d, Inv st → st.input = c :: rest → 4 * st.input.length + 1 ≤ fuel →
    st.input.length ≤ len → st.depth = d →
    OkP (consumeAtom fuel st result c) (AtomH (budget len d + 1) result)

theorem termLoop_h (len fuel : Nat) (ih : HeightIH len fuel) (st : PState) (result : List Node)
    (d : Nat) (hi : Inv st) (hf : 4 * st.input.length + 2 ≤ fuel + 1) (hl : st.input.length ≤ len)
    (hd : st.depth = d) (hr : heightList result ≤ budget len d + 2) :
    OkP (termLoop (fuel + 1) st result) (fun p => p.1.height ≤ budget len d + 3) := by
  generalize hfu : fuel + 1 = f
  fun_cases termLoop f st result
  all_goals try simp only [*]
  all_goals try (simp; done)
  all_goals try (simp at hfu; done)
  all_goals try (cases hfu)
  · simp only [OkP_ok]; have := makeCat_height result; omega
  · simp only [OkP_ok]; have := makeCat_height result; omega
  · -- no quantifier
    rename_i head r _ out _ _ rest hq hinp hx
    have hA := ((descent_all fuel).atom st result _ _ hi hinp (by omega)).ok_of_eq hx
    obtain ⟨_, _, _, _, _, _, _, hstep, hlen, _⟩ := hA
    obtain ⟨pre, x, hres, hoff, hpre, hxh⟩ :=
      (ih.atom st result _ _ d hi hinp (by omega) hl hd).ok_of_eq hx
    have hqs : rest <:+ out.st.input := (quantifier_ens _ _).ok_of_eq hq
    have hs1 := Step.input hstep.inv hqs
    have hl1 : rest.length ≤ out.st.input.length := hqs.length_le
    refine ih.tloop _ _ d hs1.inv (by show 4 * rest.length + 2 ≤ fuel; omega)
      (by show rest.length ≤ len; omega) (hstep.depth.trans hd) ?_
    show heightList out.result ≤ _
    rw [hres, heightList_append, heightList_append, heightList_singleton]
    omega
  · -- a quantified atom
    rename_i head r _ out _ _ quant rest hq _ _ hqok hle _ _ hloops _ _ hinp hx
    have hA := ((descent_all fuel).atom st result _ _ hi hinp (by omega)).ok_of_eq hx
    obtain ⟨_, _, _, _, _, _, _, hstep, hlen, _⟩ := hA
    obtain ⟨pre, x, hres, hoff, hpre, hxh⟩ :=
      (ih.atom st result _ _ d hi hinp (by omega) hl hd).ok_of_eq hx
    have hqs : rest <:+ out.st.input := (quantifier_ens _ _).ok_of_eq hq
    have hl1 : rest.length ≤ out.st.input.length := hqs.length_le
    have hloops' : out.st.loopCount < Gen.MAX_LOOPS := by
      have : ¬ out.st.loopCount ≥ Gen.MAX_LOOPS := hloops
      omega
    have hi2 : Inv { out.st with input := rest, loopCount := out.st.loopCount + 1 } :=
      ⟨hstep.inv.named, hstep.inv.depth, hstep.inv.groups, by show out.st.loopCount + 1 ≤ _; omega,
        hstep.inv.bnd.suf hqs⟩
    have hdrop : out.result.drop out.startOffset = [x] := by
      rw [hres, hoff, ← List.length_append]; exact List.drop_left
    have htake : out.result.take out.startOffset = result ++ pre := by
      rw [hres, hoff, ← List.length_append]; exact List.take_left
    show OkP (termLoop fuel { out.st with input := rest, loopCount := out.st.loopCount + 1 }
      (out.result.take out.startOffset ++
        [.loop (makeCat (out.result.drop out.startOffset)) quant st.groupCount out.st.groupCount])) _
    rw [hdrop, htake, makeCat_singleton]
    refine ih.tloop _ _ d hi2 (by show 4 * rest.length + 2 ≤ fuel; omega)
      (by show rest.length ≤ len; omega) (hstep.depth.trans hd) ?_
    rw [heightList_append, heightList_append, heightList_singleton]
    simp only [Node.height]
    omega

theorem disjLoop_h (len fuel : Nat) (ih : HeightIH len fuel) (st : PState) (terms : List Node)
    (d : Nat) (hi : Inv st) (hf : 4 * st.input.length + 3 ≤ fuel + 1) (hl : st.input.length ≤ len)
    (hd : st.depth = d) :
    OkP (disjLoop (fuel + 1) st terms) (fun p => terms.length + 1 ≤ p.1.length ∧
      p.1.length ≤ terms.length + st.input.length + 1 ∧
      heightList p.1 ≤ max (heightList terms) (budget len d + 3)) := by
  rw [disjLoop]
  have h := ih.tloop st [] d hi (by omega) hl hd (by simp)
  have hS := (descent_all fuel).tloop st [] hi (by omega) trivial
  split
  · simp
  · rename_i t st1 heq
    have h1 : t.height ≤ budget len d + 3 := h.ok_of_eq heq
    have hs1 : Step st st1 := (hS.ok_of_eq heq).2.1
    have hl1 := hs1.suf.length_le
    simp only
    split
    · rename_i st2 htc
      obtain ⟨rest, hrest, rfl⟩ := tryConsume_true htc
      have hs2 : Step st1 { st1 with input := rest } :=
        Step.input hs1.inv (by rw [hrest]; exact suf_cons _ (suf_refl _))
      rw [hrest] at hl1; simp only [List.length_cons] at hl1
      refine (ih.dloop _ (terms ++ [t]) d hs2.inv (by show 4 * rest.length + 3 ≤ fuel; omega)
        (by show rest.length ≤ len; omega) (hs1.depth.trans hd)).mono ?_
      intro p hp
      obtain ⟨hp1, hp2, hp3⟩ := hp
      rw [heightList_append, heightList_singleton] at hp3
      simp only [List.length_append, List.length_cons, List.length_nil] at hp1 hp2
      have hp2' : p.1.length ≤ terms.length + 1 + rest.length + 1 := hp2
      refine ⟨by omega, by omega, by omega⟩
    · rename_i st2 htc
      simp only [OkP_ok, List.length_append, List.length_cons, List.length_nil]
      rw [heightList_append, heightList_singleton]
      refine ⟨by omega, by omega, by omega⟩

theorem consumeDisjunction_h (len fuel : Nat) (ih : HeightIH len fuel) (st : PState) (d : Nat)
    (hi : Inv st) (hf : 4 * st.input.length + 4 ≤ fuel + 1) (hl : st.input.length ≤ len)
    (hd : st.depth = d) :
    OkP (consumeDisjunction (fuel + 1) st) (fun p => p.1.height ≤ budget len d) := by
  rw [consumeDisjunction]
  simp only
  split
  · simp
  · rename_i hd1
    have hd' : d + 1 ≤ Gen.MAX_NESTING_DEPTH := by
      have : ¬ st.depth + 1 > Gen.MAX_NESTING_DEPTH := hd1
      omega
    have hi1 : Inv { st with depth := st.depth + 1 } :=
      ⟨hi.named, by show st.depth + 1 ≤ _; omega, hi.groups, hi.loops, hi.bnd⟩
    have h := ih.dloop { st with depth := st.depth + 1 } [] (d + 1) hi1
      (by show 4 * st.input.length + 3 ≤ fuel; omega) hl (by show st.depth + 1 = d + 1; omega)
    split
    · simp
    · rename_i terms st1 heq
      obtain ⟨h1, h2, h3⟩ := h.ok_of_eq heq
      simp only [List.length_nil, heightList_nil] at h1 h2 h3
      have h2' : terms.length ≤ st.input.length + 1 := by simpa using h2
      have hk : terms.length ≤ 2 ^ (Nat.log2 (len + 1) + 1) := by
        have := Nat.lt_log2_self (n := len + 1)
        omega
      have := makeAlt_height_pos _ terms (by omega) hk
      simp only [OkP_ok]
      rw [budget_succ hd']
      unfold lvl
      omega

theorem consumeAtom_h (len fuel : Nat) (ih : HeightIH len fuel) (st : PState) (result : List Node)
    (c : Nat) (rest : List Nat) (d : Nat) (hi : Inv st) (hinp : st.input = c :: rest)
    (hf : 4 * st.input.length + 1 ≤ fuel + 1) (hl : st.input.length ≤ len) (hd : st.depth = d) :
    OkP (consumeAtom (fuel + 1) st result c) (AtomH (budget len d + 1) result) := by
  rw [consumeAtom_succ]
  refine consumeAtomA_h (b := budget len d) hi ?_ (by unfold budget; omega) (Nat.le_refl _) result hinp
  intro st' hi' hl' hd'
  exact ih.disj st' d hi' (by omega) (by omega) (hd'.trans hd)

/-- **Heights along the recursive descent.** -/
theorem height_all (len fuel : Nat) : HeightIH len fuel := by
  induction fuel with
  | zero =>
    refine ⟨?_, ?_, ?_, ?_⟩
    · intro st _ _ h; omega
    · intro st _ _ _ h; omega
    · intro st _ _ _ h; omega
    · intro st _ _ _ _ _ _ h; omega
  | succ fuel ih =>
    exact ⟨consumeDisjunction_h len fuel ih, disjLoop_h len fuel ih, termLoop_h len fuel ih,
      consumeAtom_h len fuel ih⟩


/-- `height_all` for `consumeDisjunction`, as an implication. -/
theorem consumeDisjunction_height {fuel len : Nat} {st st' : PState} {n : Node} (hi : Inv st)
    (hf : 4 * st.input.length + 4 ≤ fuel) (hl : st.input.length ≤ len)
    (h : consumeDisjunction fuel st = .ok (n, st')) :
    n.height ≤ (Gen.MAX_NESTING_DEPTH - st.depth) * (Nat.log2 (len + 1) + 4) + 2 :=
  ((height_all len fuel).disj st st.depth hi hf hl rfl).ok_of_eq h

/-! ## `finalize` keeps the height -/

mutual
theorem reverseCats_height : ∀ (b : Bool) (n n' : Node), reverseCats b n = .ok n' → n'.height = n.height
  | b, .cat ns, n', h => by
    rw [reverseCats] at h
    split at h
    · cases h
    · rename_i ns' hns
      cases h
      have := reverseCatsList_height b ns ns' hns
      cases b <;> simp [Node.height, heightList_reverse, this]
  | b, .alt l r, n', h => by
    rw [reverseCats] at h
    split at h
    · rename_i l' r' hl hr
      cases h
      simp [Node.height, reverseCats_height b l l' hl, reverseCats_height b r r' hr]
    · cases h
    · cases h
  | b, .group id name c, n', h => by
    rw [reverseCats] at h
    split at h
    · cases h
    · rename_i c' hc
      cases h
      simp [Node.height, reverseCats_height b c c' hc]
  | b, .look n bw sg eg c, n', h => by
    rw [reverseCats] at h
    split at h
    · cases h
    · rename_i c' hc
      cases h
      simp [Node.height, reverseCats_height bw c c' hc]
  | b, .loop l q g0 g1, n', h => by
    rw [reverseCats] at h
    split at h
    · cases h
    · rename_i c' hc
      cases h
      simp [Node.height, reverseCats_height b l c' hc]
  | b, .loop1 l q, n', h => by
    rw [reverseCats] at h
    split at h
    · cases h
    · rename_i c' hc
      cases h
      simp [Node.height, reverseCats_height b l c' hc]
  | b, .byteSeq bs, n', h => by simp [reverseCats, panicAt] at h
  | b, .byteSet bs, n', h => by simp [reverseCats] at h; subst h; rfl
  | b, .empty, n', h => by simp [reverseCats] at h; subst h; rfl
  | b, .goal, n', h => by simp [reverseCats] at h; subst h; rfl
  | b, .char _, n', h => by simp [reverseCats] at h; subst h; rfl
  | b, .charSet _, n', h => by simp [reverseCats] at h; subst h; rfl
  | b, .matchAny, n', h => by simp [reverseCats] at h; subst h; rfl
  | b, .matchAnyExceptLT, n', h => by simp [reverseCats] at h; subst h; rfl
  | b, .anchor _ _, n', h => by simp [reverseCats] at h; subst h; rfl
  | b, .wordBoundary _ _, n', h => by simp [reverseCats] at h; subst h; rfl
  | b, .backRef _ _, n', h => by simp [reverseCats] at h; subst h; rfl
  | b, .bracket _, n', h => by simp [reverseCats] at h; subst h; rfl
  | b, .stringSet _ _, n', h => by simp [reverseCats] at h; subst h; rfl
theorem reverseCatsList_height : ∀ (b : Bool) (ns ns' : List Node), reverseCatsList b ns = .ok ns' →
    heightList ns' = heightList ns
  | b, [], ns', h => by simp [reverseCatsList] at h; subst h; rfl
  | b, n :: ns, ns', h => by
    rw [reverseCatsList] at h
    split at h
    · rename_i n1 ns1 hn hns
      cases h
      simp [heightList, reverseCats_height b n n1 hn, reverseCatsList_height b ns ns1 hns]
    · cases h
    · cases h
end

theorem finalize_height (st : PState) (re : Regex) :
    OkP (finalize st re) (fun re' => re'.node.height = re.node.height) := by
  unfold finalize
  split
  · split
    · simp
    · rename_i n hn
      exact reverseCats_height _ _ _ hn
  · simp

/-! ## `parse` -/

theorem parseBody_height (st : PState) (hi : Inv st) (hd : st.depth = 0) :
    OkP (parseBody st) (fun re => re.node.height ≤ budget st.input.length 0 + 1) := by
  unfold parseBody
  have h := (height_all st.input.length (parseFuel st.input)).disj st 0 hi (by unfold parseFuel; omega)
    (Nat.le_refl _) hd
  split
  · simp
  · rename_i body st1 heq
    have h1 : body.height ≤ budget st.input.length 0 := h.ok_of_eq heq
    split
    · split <;> simp
    · refine (finalize_height st1 _).mono ?_
      intro re' hre
      rw [hre]
      have hb : 2 ≤ budget st.input.length 0 := by unfold budget; omega
      show (makeCat [body, Node.goal]).height ≤ _
      simp only [makeCat, Node.height, heightList]
      omega

theorem tryParse_height (st : PState) (hi : Inv st) (hd : st.depth = 0) :
    OkP (tryParse st) (fun re => re.node.height ≤ budget st.input.length 0 + 1) := by
  unfold tryParse
  rcases parseCaptureGroups_cases st with ⟨st', h⟩ | ⟨msg, h⟩
  · rw [h]
    obtain ⟨h1, h2, h3, h4, h5⟩ := parseCaptureGroups_inv hi.named h
    have := parseBody_height st' ⟨h1, h3 ▸ hi.depth, h4 ▸ hi.groups, h5 ▸ hi.loops, h2 ▸ hi.bnd⟩
      (h3.trans hd)
    rw [h2] at this
    exact this
  · rw [h]; simp

/-- **The IR tree returned by `parse` has bounded height**: at most
`MAX_NESTING_DEPTH * (⌊log₂ (|pat| + 1)⌋ + 4) + 3`, i.e. `256 · log₂ |pat| + O(1)`.

The product form is essential for the count-balanced `make_alt`: a chain of `D` nested groups each
holding a `2 ^ k`-way alternation, `(a|…|a|(a|…|a|( … )))`, has length `≈ D · 2 ^ (k + 1)` and height
`≈ D · (k + 2)`; the heights of the `Alt` trees of the different nesting levels add up
(`height_adds_up` below), so no bound `c₁ · D + c₂ · log₂ (len + 1) + c₃` with `c₂ < D` holds. -/
theorem parse_height (pat : List Nat) (fl : Flags) (re : Regex) (hb : ∀ c ∈ pat, c ≤ 0x10FFFF)
    (h : parse pat fl = .ok re) :
    re.node.height ≤ Gen.MAX_NESTING_DEPTH * (Nat.log2 (pat.length + 1) + 4) + 3 := by
  unfold parse at h
  have key : ∀ fl' : Flags, OkP (tryParse { input := pat, flags := fl' })
      (fun re => re.node.height ≤ budget pat.length 0 + 1) := fun fl' =>
    tryParse_height { input := pat, flags := fl' } ⟨by intro e he; simp at he,
      by simp [Gen.MAX_NESTING_DEPTH], by simp [Gen.MAX_CAPTURE_GROUPS], by simp [Gen.MAX_LOOPS], hb⟩ rfl
  have := (key _).ok_of_eq h
  simpa [budget, lvl] using this

/-- The same with the numerals spelled out. -/
theorem parse_height' (pat : List Nat) (fl : Flags) (re : Regex) (hb : ∀ c ∈ pat, c ≤ 0x10FFFF)
    (h : parse pat fl = .ok re) : re.node.height ≤ 256 * Nat.log2 (pat.length + 1) + 1027 := by
  have := parse_height pat fl re hb h
  simp only [Gen.MAX_NESTING_DEPTH] at this
  omega


/-! ## Concrete instances -/

/-- The height of the IR returned by `parse` (`none` if the pattern is rejected). -/
def parseHeight? (pat : List Nat) (fl : Flags) : Option Nat :=
  match parse pat fl with
  | .ok re => some re.node.height
  | .error _ => none

theorem parseHeight?_le {pat : List Nat} {fl : Flags} {h : Nat} (hb : ∀ c ∈ pat, c ≤ 0x10FFFF)
    (hp : parseHeight? pat fl = some h) :
    h ≤ Gen.MAX_NESTING_DEPTH * (Nat.log2 (pat.length + 1) + 4) + 3 := by
  unfold parseHeight? at hp
  split at hp
  · rename_i re hre
    cases hp
    exact parse_height pat fl re hb hre
  · cases hp

/-- `a|b|c|(d|e){2}` parses to
`Cat [Alt (Alt a b) (Alt c (Loop (Group (Alt d e)))), Goal]`: height 7 (the bound is `1795`). -/
example : parseHeight? [0x61, 0x7C, 0x62, 0x7C, 0x63, 0x7C, 0x28, 0x64, 0x7C, 0x65, 0x29, 0x7B, 0x32, 0x7D] {}
    = some 7 := by decide +kernel
example : ∀ c ∈ [0x61, 0x7C, 0x62, 0x7C, 0x63, 0x7C, 0x28, 0x64, 0x7C, 0x65, 0x29, 0x7B, 0x32, 0x7D],
    c ≤ 0x10FFFF := by decide
example : Gen.MAX_NESTING_DEPTH * (Nat.log2 (14 + 1) + 4) + 3 = 1795 := by decide +kernel

/-- The heights of the balanced `Alt` trees of the nesting levels add up: every further level of
`(a|b|` … `)` costs 3 (`CaptureGroup`, and a three-way `Alt` of height 2), although the length grows by
only 6 per level -- with `2 ^ k`-way alternations the cost is `k + 1` per level, up to
`MAX_NESTING_DEPTH` levels.  So the height is not `O(MAX_NESTING_DEPTH + log₂ len)`. -/
theorem height_adds_up :
    -- (a|b)
    parseHeight? [0x28, 0x61, 0x7C, 0x62, 0x29] {} = some 4 ∧
    -- (a|b|(a|b))
    parseHeight? [0x28, 0x61, 0x7C, 0x62, 0x7C, 0x28, 0x61, 0x7C, 0x62, 0x29, 0x29] {} = some 7 ∧
    -- (a|b|(a|b|(a|b)))
    parseHeight? [0x28, 0x61, 0x7C, 0x62, 0x7C, 0x28, 0x61, 0x7C, 0x62, 0x7C,
      0x28, 0x61, 0x7C, 0x62, 0x29, 0x29, 0x29] {} = some 10 ∧
    -- (a|b|(a|b|(a|b|(a|b))))
    parseHeight? [0x28, 0x61, 0x7C, 0x62, 0x7C, 0x28, 0x61, 0x7C, 0x62, 0x7C,
      0x28, 0x61, 0x7C, 0x62, 0x7C, 0x28, 0x61, 0x7C, 0x62, 0x29, 0x29, 0x29, 0x29] {} = some 13 := by
  decide +kernel

end Regress.Parse
