import Proofs.Lemmas.FinalKey
import Proofs.Certs
import Proofs.Closure2
/-!
# Final, part 4: `EndToEnd` / `Certs` / `Closure2` re-composed

The theorems of `Proofs/EndToEnd.lean` §§2–4 and `Proofs/Closure2.lean` §C, with

* `maxOK re.node` replaced by `fits inp.len re.node` (`compile_correct_pk_fits`), and
* `ProgOK prog` / `ProgPkOK prog` discharged by `Certs.compiled_progOK` / `Certs.compiled_progCert`.

Nothing here is new mathematics: each proof is the proof of the theorem named in its doc comment with
those two substitutions.
-/
namespace Regress.Final

open Regress Regress.IR Regress.VM Regress.Parse Regress.Keystone Regress.C07 Regress.E2E Regress.Closure
open Regress.EndToEnd Regress.Certs Regress.Closure2 Regress.Api Regress.C09 Regress.VM.Safety

section
variable {pat : List Nat} {fl : IR.Flags} {re : Regex} {prog : Prog} {ofuel : Nat}
  {inp : Input} {cs : List Nat}

/-- `Certs.compile_correct_pk_total` with `fits`. -/
theorem pk_total (hb : ∀ c ∈ pat, c ≤ 0x10FFFF) (hp : parse pat fl = .ok re)
    (hc : compile ofuel pat fl = .ok prog) (ht : IR.Utf8Text inp cs) (hfit : fits inp.len re.node = true)
    (hu : prog.flags.unicode = inp.unicode)
    {p : Nat} (hbd : AtBoundary cs p) (fuel : Nat) (hfuel : Pk.lookBound prog inp.len ≤ fuel) :
    PkAgrees (Pk.attempt prog inp fuel p) (firstMatch inp re.node p) :=
  compile_correct_pk_fits hb hp hc ht hfit hu hbd fuel
    (pk_fine' (compiled_progCert hb hp hc) ht hbd fuel hfuel)

/-- `EndToEnd.compile_correct_pk_safe_partial` with `fits`, `wfProgFull` discharged. -/
theorem pk_safe (hb : ∀ c ∈ pat, c ≤ 0x10FFFF) (hp : parse pat fl = .ok re)
    (hc : compile ofuel pat fl = .ok prog) (ht : IR.Utf8Text inp cs) (hfit : fits inp.len re.node = true)
    (hu : prog.flags.unicode = inp.unicode)
    {p : Nat} (hbd : AtBoundary cs p) (fuel : Nat) (hfuel : Pk.attempt prog inp fuel p ≠ .outOfFuel) :
    PkAgrees (Pk.attempt prog inp fuel p) (firstMatch inp re.node p) := by
  refine compile_correct_pk_fits hb hp hc ht hfit hu hbd fuel ?_
  have herr := C02Full.pk_attempt_no_error (progOK_full (compiled_progOK hb hp hc).1) (validAt ht hbd) fuel
  generalize Pk.attempt prog inp fuel p = o at hfuel herr
  cases o with
  | matched _ _ _ _ => trivial
  | failed _ _ => trivial
  | outOfFuel => exact absurd rfl hfuel
  | error e => exact absurd rfl (herr e)

/-- `Certs.compile_correct_bt` with `fits`. -/
theorem bt_total (hb : ∀ c ∈ pat, c ≤ 0x10FFFF) (hp : parse pat fl = .ok re)
    (hc : compile ofuel pat fl = .ok prog) (ht : IR.Utf8Text inp cs) (hfit : fits inp.len re.node = true)
    (hu : prog.flags.unicode = inp.unicode)
    {p : Nat} (hbd : AtBoundary cs p) (fuel : Nat) (hfuel : Pk.lookBound prog inp.len ≤ fuel) :
    BtAgrees (Bt.attempt prog inp fuel p) (firstMatch inp re.node p) := by
  have P := compiled_progCert hb hp hc
  have hP := pk_total hb hp hc ht hfit hu hbd _ (Nat.le_refl _)
  have hsim := P.executors_agree inp p (EndToEnd.validAt ht hbd) fuel (Pk.lookBound prog inp.len) hfuel
  unfold PkAgrees at hP
  unfold BtAgrees
  generalize Bt.attempt prog inp fuel p = ob at hsim
  generalize Pk.attempt prog inp (Pk.lookBound prog inp.len) p = op at hsim hP
  split at hP
  · obtain ⟨steps, peak, rfl⟩ := hP
    cases ob <;> simp only at hsim
    exact ⟨_, _, _, rfl⟩
  · rename_i σ _
    obtain ⟨st, steps, peak, rfl, hcaps⟩ := hP
    cases ob <;> simp only at hsim
    rename_i e stb s pk
    obtain ⟨rfl, hc2, _⟩ := hsim
    exact ⟨stb, s, pk, rfl, by rw [hc2, capsOf_eq, hcaps]⟩

/-- `EndToEnd.bt_match_is_ir_match_partial`. -/
theorem bt_match_is_ir_match (hb : ∀ c ∈ pat, c ≤ 0x10FFFF) (hp : parse pat fl = .ok re)
    (hc : compile ofuel pat fl = .ok prog) (ht : IR.Utf8Text inp cs) (hfit : fits inp.len re.node = true)
    (hu : prog.flags.unicode = inp.unicode) {p : Nat} (hbd : AtBoundary cs p)
    (fuel : Nat) (hm : (searchEnvBt prog inp fuel).attempt p ≠ none) : firstMatch inp re.node p ≠ none := by
  intro hnone
  have hne : Bt.attempt prog inp fuel p ≠ .outOfFuel := by
    intro h; apply hm; simp only [searchEnvBt, h]
  have hmono := Bt.attempt_fuel_mono prog inp (Nat.le_max_left fuel (Pk.lookBound prog inp.len)) p hne
  have hB := bt_total hb hp hc ht hfit hu hbd (max fuel (Pk.lookBound prog inp.len)) (Nat.le_max_right _ _)
  rw [hmono, hnone] at hB
  obtain ⟨st, steps, peak, h⟩ := hB
  apply hm; simp only [searchEnvBt, h]

/-- `Closure2.pk_match_is_ir_match_partial`. -/
theorem pk_match_is_ir_match (hb : ∀ c ∈ pat, c ≤ 0x10FFFF) (hp : parse pat fl = .ok re)
    (hc : compile ofuel pat fl = .ok prog) (ht : IR.Utf8Text inp cs) (hfit : fits inp.len re.node = true)
    (hu : prog.flags.unicode = inp.unicode) {p : Nat} (hbd : AtBoundary cs p)
    (fuel : Nat) (hm : (searchEnvPk prog inp fuel).attempt p ≠ none) : firstMatch inp re.node p ≠ none := by
  intro hnone
  have hne : Pk.attempt prog inp fuel p ≠ .outOfFuel := by
    intro h; apply hm; simp only [searchEnvPk, h]
  have hP := pk_safe hb hp hc ht hfit hu hbd fuel hne
  rw [hnone] at hP
  obtain ⟨steps, peak, h⟩ := hP
  apply hm; simp only [searchEnvPk, h]

/-- `EndToEnd.prefilter_sound_emitted_partial`. -/
theorem prefilter_sound (hb : ∀ c ∈ pat, c ≤ 0x10FFFF) (hp : parse pat fl = .ok re)
    (hc : compile ofuel pat fl = .ok prog) (ht : IR.Utf8Text inp cs) (hfit : fits inp.len re.node = true)
    (hu : prog.flags.unicode = inp.unicode) (fuel : Nat) :
    StartPredSound prog.startPred inp (searchEnvBt prog inp fuel) := by
  intro r hr hne
  obtain ⟨re', C⟩ := compiled_tree_fits hb hp hc hfit
  have hbd := atBoundary_of_vutf8 ht hr
  have hm := bt_match_is_ir_match hb hp hc ht hfit hu hbd fuel hne
  rw [← C.sem ht hbd] at hm
  exact (C04Sem.predicate_for_re_sound ht re' C.wf' (emit_startPred C.emit) hbd hm).2

/-- `EndToEnd.prefilter_transparent_emitted_partial` (C04 end to end). -/
theorem prefilter_transparent (hb : ∀ c ∈ pat, c ≤ 0x10FFFF) (hp : parse pat fl = .ok re)
    (hc : compile ofuel pat fl = .ok prog) (ht : IR.Utf8Text inp cs) (hfit : fits inp.len re.node = true)
    (hu : prog.flags.unicode = inp.unicode) (fuel : Nat) {start : Nat}
    (hs : Safety.VUtf8 inp start ∨ inp.len < start) :
    collectK (searchEnvBt prog inp fuel) .btPrefix start = unfoldIter (searchEnvBt prog inp fuel) start ∧
    ∀ p, Safety.VUtf8 inp p → nextMatchPrefix (searchEnvBt prog inp fuel) p =
      nextMatchPrefix { searchEnvBt prog inp fuel with findBytes := some } p :=
  iter_is_unfold_bt (progOK_full (compiled_progOK hb hp hc).1) (leads_emitted hb hp hc)
    ⟨ht.kind, ht.bytes, ht.scalar⟩ fuel (prefilter_sound hb hp hc ht hfit hu fuel) hs

/-- `EndToEnd.attempt_eq_spec_partial`. -/
theorem bt_attempt_eq_spec (hb : ∀ c ∈ pat, c ≤ 0x10FFFF) (hp : parse pat fl = .ok re)
    (hc : compile ofuel pat fl = .ok prog) (ht : IR.Utf8Text inp cs) (hfit : fits inp.len re.node = true)
    (hu : prog.flags.unicode = inp.unicode) (fuel : Nat)
    (hfuel : Pk.lookBound prog inp.len ≤ fuel) {p : Nat} (hv : Safety.VUtf8 inp p) :
    (searchEnvBt prog inp fuel).attempt p = (specEnv inp re.node prog).attempt p := by
  have hB := bt_total hb hp hc ht hfit hu (atBoundary_of_vutf8 ht hv) fuel hfuel
  simp only [searchEnvBt, specEnv]
  unfold BtAgrees at hB
  split at hB
  · rename_i heq
    obtain ⟨st, steps, peak, h⟩ := hB
    rw [h, heq]; rfl
  · rename_i σ heq
    obtain ⟨st, steps, peak, h, hcaps⟩ := hB
    rw [h, heq]; simp only [Option.map_some, hcaps]

/-- `Closure2.pk_attempt_eq_spec_partial`. -/
theorem pk_attempt_eq_spec (hb : ∀ c ∈ pat, c ≤ 0x10FFFF) (hp : parse pat fl = .ok re)
    (hc : compile ofuel pat fl = .ok prog) (ht : IR.Utf8Text inp cs) (hfit : fits inp.len re.node = true)
    (hu : prog.flags.unicode = inp.unicode) (fuel : Nat)
    (hfuel : Pk.lookBound prog inp.len ≤ fuel) {p : Nat} (hv : VUtf8 inp p) :
    (searchEnvPk prog inp fuel).attempt p = (specEnv inp re.node prog).attempt p := by
  have hP := pk_total hb hp hc ht hfit hu (atBoundary_of_vutf8 ht hv) fuel hfuel
  simp only [searchEnvPk, specEnv]
  unfold PkAgrees at hP
  split at hP
  · rename_i heq
    obtain ⟨steps, peak, h⟩ := hP
    rw [h, heq]; rfl
  · rename_i σ heq
    obtain ⟨st, steps, peak, h, hcaps⟩ := hP
    rw [h, heq]; simp only [Option.map_some, Keystone.capsOf_eq, hcaps]

/-- `EndToEnd.restrict_eq_spec_partial`. -/
theorem restrict_eq_spec (hb : ∀ c ∈ pat, c ≤ 0x10FFFF) (hp : parse pat fl = .ok re)
    (hc : compile ofuel pat fl = .ok prog) (ht : IR.Utf8Text inp cs) (hfit : fits inp.len re.node = true)
    (hu : prog.flags.unicode = inp.unicode) (fuel : Nat)
    (hfuel : Pk.lookBound prog inp.len ≤ fuel) :
    restrictEnv (vb inp) (searchEnvBt prog inp fuel) = restrictEnv (vb inp) (specEnv inp re.node prog) := by
  have : (fun p => if vb inp p = true then (searchEnvBt prog inp fuel).attempt p else none) =
      (fun p => if vb inp p = true then (specEnv inp re.node prog).attempt p else none) := by
    funext p
    by_cases hv : vb inp p = true
    · rw [if_pos hv, if_pos hv]
      exact bt_attempt_eq_spec hb hp hc ht hfit hu fuel hfuel (vb_iff.mp hv)
    · rw [if_neg hv, if_neg hv]
  unfold restrictEnv
  rw [this]
  rfl

/-- `EndToEnd.envOKOn_spec_partial`: the specification environment is well-behaved on char boundaries. -/
theorem envOKOn_spec (hb : ∀ c ∈ pat, c ≤ 0x10FFFF) (hp : parse pat fl = .ok re)
    (hc : compile ofuel pat fl = .ok prog) (ht : IR.Utf8Text inp cs) (hfit : fits inp.len re.node = true)
    (hu : prog.flags.unicode = inp.unicode) :
    EnvOKOn (vb inp) (specEnv inp re.node prog) := by
  have hOn := envOKOn_bt (progOK_full (compiled_progOK hb hp hc).1) (leads_emitted hb hp hc)
    ⟨ht.kind, ht.bytes, ht.scalar⟩ (Pk.lookBound prog inp.len)
  exact
    { v_le := hOn.v_le
      attempt_range := fun p e c hv ha => hOn.attempt_range p e c hv (by
        rw [bt_attempt_eq_spec hb hp hc ht hfit hu _ (Nat.le_refl _) (vb_iff.mp hv)]; exact ha)
      next_gt := hOn.next_gt
      find_range := hOn.find_range }

/-- `Closure2.anchored_spec_only_at_zero_partial`. -/
theorem anchored_spec_only_at_zero (hb : ∀ c ∈ pat, c ≤ 0x10FFFF) (hp : parse pat fl = .ok re)
    (hc : compile ofuel pat fl = .ok prog) (ht : IR.Utf8Text inp cs) (hfit : fits inp.len re.node = true)
    (ha : isAnchored prog = true) {r : Nat} (hr : 0 < r) (hv : VUtf8 inp r) :
    firstMatch inp re.node r = none := by
  apply Classical.byContradiction
  intro hm
  obtain ⟨re', C⟩ := compiled_tree_fits hb hp hc hfit
  have hbd := atBoundary_of_vutf8 ht hv
  rw [← C.sem ht hbd] at hm
  have := (C04Sem.predicate_for_re_sound ht re' C.wf' (emit_startPred C.emit) hbd hm).1
    (isAnchored_startPred ha)
  omega

theorem anchored_bt_only_at_zero (hb : ∀ c ∈ pat, c ≤ 0x10FFFF) (hp : parse pat fl = .ok re)
    (hc : compile ofuel pat fl = .ok prog) (ht : IR.Utf8Text inp cs) (hfit : fits inp.len re.node = true)
    (hu : prog.flags.unicode = inp.unicode) (ha : isAnchored prog = true)
    (fuel : Nat) : OnlyAtZeroOn (vb inp) (searchEnvBt prog inp fuel) := by
  intro r hr hv
  apply Classical.byContradiction
  intro hne
  have hv' := vb_iff.mp hv
  exact bt_match_is_ir_match hb hp hc ht hfit hu (atBoundary_of_vutf8 ht hv') fuel hne
    (anchored_spec_only_at_zero hb hp hc ht hfit ha hr hv')

theorem anchored_pk_only_at_zero (hb : ∀ c ∈ pat, c ≤ 0x10FFFF) (hp : parse pat fl = .ok re)
    (hc : compile ofuel pat fl = .ok prog) (ht : IR.Utf8Text inp cs) (hfit : fits inp.len re.node = true)
    (hu : prog.flags.unicode = inp.unicode) (ha : isAnchored prog = true)
    (fuel : Nat) : OnlyAtZeroOn (vb inp) (searchEnvPk prog inp fuel) := by
  intro r hr hv
  apply Classical.byContradiction
  intro hne
  have hv' := vb_iff.mp hv
  exact pk_match_is_ir_match hb hp hc ht hfit hu (atBoundary_of_vutf8 ht hv') fuel hne
    (anchored_spec_only_at_zero hb hp hc ht hfit ha hr hv')

/-- The structural hypotheses of `Closure2`'s running-search theorems, for every compiled program. -/
theorem compiled_findHyp2 (hb : ∀ c ∈ pat, c ≤ 0x10FFFF) (hp : parse pat fl = .ok re)
    (hc : compile ofuel pat fl = .ok prog) (ht : IR.Utf8Text inp cs) : FindHyp2 prog inp cs :=
  findHyp2_of_progOK hb hp hc (compiled_progOK hb hp hc).1 ht

/-- The drained pure iterator of the backtracker (prefilter or anchored) is the unfold of the
specification environment, for every per-attempt budget `≥ Pk.lookBound`. -/
theorem collect_bt_spec (hb : ∀ c ∈ pat, c ≤ 0x10FFFF) (hp : parse pat fl = .ok re)
    (hc : compile ofuel pat fl = .ok prog) (ht : IR.Utf8Text inp cs) (hfit : fits inp.len re.node = true)
    (hu : prog.flags.unicode = inp.unicode) (fuel : Nat) (hfuel : Pk.lookBound prog inp.len ≤ fuel)
    {start : Nat} (hs : VUtf8 inp start ∨ inp.len < start) :
    collectK (searchEnvBt prog inp fuel) (kindOf prog .bt) start =
      unfoldIter (specEnv inp re.node prog) start := by
  have H := compiled_findHyp2 hb hp hc ht
  have hs' : vb inp start = true ∨ (searchEnvBt prog inp fuel).len < start :=
    hs.imp (fun h => vb_iff.mpr h) (fun h => h)
  have hOn := envOKOn_bt H.wf H.leads H.text fuel
  have hcoll : collectK (searchEnvBt prog inp fuel) (kindOf prog .bt) start =
      unfoldIter (searchEnvBt prog inp fuel) start := by
    cases ha : isAnchored prog with
    | false =>
      have hk : kindOf prog .bt = .btPrefix := by simp [kindOf, ha]
      rw [hk]
      exact (prefilter_transparent hb hp hc ht hfit hu fuel hs).1
    | true =>
      have hk : kindOf prog .bt = .btAnchored := by simp [kindOf, ha]
      rw [hk]
      exact iter_is_unfold_anchored_on hOn
        (anchored_bt_only_at_zero hb hp hc ht hfit hu ha fuel) (.inl rfl) hs'
  rw [hcoll, ← unfoldIter_restrict hOn hs', restrict_eq_spec hb hp hc ht hfit hu fuel hfuel,
    unfoldIter_restrict (envOKOn_spec hb hp hc ht hfit hu) hs']

/-- … and of the PikeVM. -/
theorem collect_pk_spec (hb : ∀ c ∈ pat, c ≤ 0x10FFFF) (hp : parse pat fl = .ok re)
    (hc : compile ofuel pat fl = .ok prog) (ht : IR.Utf8Text inp cs) (hfit : fits inp.len re.node = true)
    (hu : prog.flags.unicode = inp.unicode) (fuel : Nat) (hfuel : Pk.lookBound prog inp.len ≤ fuel)
    {start : Nat} (hs : VUtf8 inp start ∨ inp.len < start) :
    collectK (searchEnvPk prog inp fuel) (kindOf prog .pk) start =
      unfoldIter (specEnv inp re.node prog) start := by
  have H := compiled_findHyp2 hb hp hc ht
  have hs' : vb inp start = true ∨ (searchEnvPk prog inp fuel).len < start :=
    hs.imp (fun h => vb_iff.mpr h) (fun h => h)
  have hOn := envOKOn_pk H.wf H.text fuel
  have hcoll : collectK (searchEnvPk prog inp fuel) (kindOf prog .pk) start =
      unfoldIter (searchEnvPk prog inp fuel) start := by
    cases ha : isAnchored prog with
    | false =>
      have hk : kindOf prog .pk = .pike false := by simp [kindOf, ha]
      rw [hk]
      exact iter_is_unfold_pike_on hOn hs'
    | true =>
      have hk : kindOf prog .pk = .pike true := by simp [kindOf, ha]
      rw [hk]
      exact iter_is_unfold_anchored_on hOn
        (anchored_pk_only_at_zero hb hp hc ht hfit hu ha fuel) (.inr rfl) hs'
  have hrestr : unfoldIter (restrictEnv (vb inp) (searchEnvPk prog inp fuel)) start =
      unfoldIter (restrictEnv (vb inp) (specEnv inp re.node prog)) start := by
    refine unfoldIter_congr (env1 := restrictEnv (vb inp) (searchEnvPk prog inp fuel))
      (env2 := restrictEnv (vb inp) (specEnv inp re.node prog)) rfl ?_ rfl rfl start
    funext p
    show (if vb inp p = true then (searchEnvPk prog inp fuel).attempt p else none) =
      (if vb inp p = true then (specEnv inp re.node prog).attempt p else none)
    by_cases hv : vb inp p = true
    · rw [if_pos hv, if_pos hv]
      exact pk_attempt_eq_spec hb hp hc ht hfit hu fuel hfuel (vb_iff.mp hv)
    · rw [if_neg hv, if_neg hv]
  rw [hcoll, ← unfoldIter_restrict hOn hs', hrestr,
    unfoldIter_restrict (envOKOn_spec hb hp hc ht hfit hu) hs']

/-- `Closure2.findIter_bt_spec_partial` with `fits`, `ProgOK` discharged. -/
theorem findIter_bt_spec (hb : ∀ c ∈ pat, c ≤ 0x10FFFF) (hp : parse pat fl = .ok re)
    (hc : compile ofuel pat fl = .ok prog) (ht : IR.Utf8Text inp cs) (hfit : fits inp.len re.node = true)
    (hu : prog.flags.unicode = inp.unicode) (fuel0 : Nat) {start : Nat}
    (hs : VUtf8 inp start ∨ inp.len < start) {ms : List MatchR}
    (h : findIter .bt prog inp start fuel0 = .ok ms) :
    ms = unfoldIter (specEnv inp re.node prog) start := by
  have H := compiled_findHyp2 hb hp hc ht
  rw [findIter_bt_eq_collect_partial H (Nat.le_max_left fuel0 (Pk.lookBound prog inp.len))
    (Nat.le_max_right _ _) hs h]
  exact collect_bt_spec hb hp hc ht hfit hu _ (Nat.le_max_right _ _) hs

/-- `Closure2.findIter_pk_spec_partial` with `fits`, `ProgOK` discharged. -/
theorem findIter_pk_spec (hb : ∀ c ∈ pat, c ≤ 0x10FFFF) (hp : parse pat fl = .ok re)
    (hc : compile ofuel pat fl = .ok prog) (ht : IR.Utf8Text inp cs) (hfit : fits inp.len re.node = true)
    (hu : prog.flags.unicode = inp.unicode) (fuel0 : Nat) {start : Nat}
    (hs : VUtf8 inp start ∨ inp.len < start) {ms : List MatchR}
    (h : findIter .pk prog inp start fuel0 = .ok ms) :
    ms = unfoldIter (specEnv inp re.node prog) start := by
  have H := compiled_findHyp2 hb hp hc ht
  rw [findIter_pk_eq_collect_partial H (Nat.le_max_left fuel0 (Pk.lookBound prog inp.len))
    (Nat.le_max_right _ _) hs h]
  exact collect_pk_spec hb hp hc ht hfit hu _ (Nat.le_max_right _ _) hs

end

end Regress.Final
