import Proofs.Lemmas.Sem16Leaf
/-!
# `run_scm_loop` versus the iteration of the one-character body

`loop1Iter` (the formulation `sem` uses for `Loop1CharBody`) and `loop1Scm16` (`run_scm_loop`: the
minimum and maximum positions, then a walk with `next_left_pos` / `next_right_pos`) give the same
list whenever the decoder against the direction of travel inverts the matcher along the run
(`R2` below).  Everything is stated for an abstract matcher `step`, an abstract inverse `back`, a
validity predicate `V` on positions and a rank `rk` that strictly decreases along `step`.
-/
namespace Regress.IR

open Regress.VM Regress

/-- The positions of a run of the matcher from `a`: at most `lim` steps (`none`: unbounded), until
the first failure (`k` bounds the recursion). -/
def runTrace (step : Nat → Option Nat) : Nat → Option Nat → Nat → List Nat
  | 0, _, _ => []
  | k + 1, lim, a =>
    if lim == some 0 then [a]
    else
      match step a with
      | none => [a]
      | some b => a :: runTrace step k (lim.map (· - 1)) b

/-- `loop1Iter` on positions. -/
def loop1Pos (step : Nat → Option Nat) (q : Quant) : Nat → Nat → Nat → List Nat
  | 0, _, _ => []
  | k + 1, iter, pos =>
    let taken : Option Nat := if maxOk q iter then step pos else none
    match taken, decide (iter ≥ q.min) with
    | none, false => []
    | none, true => [pos]
    | some p', false => loop1Pos step q k (iter + 1) p'
    | some p', true =>
      if q.greedy then loop1Pos step q k (iter + 1) p' ++ [pos]
      else pos :: loop1Pos step q k (iter + 1) p'

/-- `{ st with pos := p }`. -/
def St.at (st : St) (p : Nat) : St := { st with pos := p }

/-! ## `loop1Iter` of a one-character body is `loop1Pos` -/

theorem loop1Iter_eq_pos (step : Nat → Option Nat) (body : St → List St)
    (hbody : ∀ s, body s = optSt s (step s.pos)) (q : Quant) :
    ∀ (k iter : Nat) (st : St) (p : Nat),
      loop1Iter body q k iter (st.at p) = (loop1Pos step q k iter p).map st.at := by
  intro k
  induction k with
  | zero => intro _ _ _; rfl
  | succ k ih =>
    intro iter st p
    have hat : ∀ p', (st.at p).at p' = st.at p' := fun _ => rfl
    simp only [loop1Iter, loop1Pos, hbody, St.at]
    cases hm : maxOk q iter
    · simp only [Bool.false_eq_true, if_false]
      cases decide (iter ≥ q.min) <;> rfl
    · simp only [if_true]
      cases hs : step p with
      | none =>
        simp only [optSt, List.head?_nil]
        cases decide (iter ≥ q.min) <;> rfl
      | some p' =>
        simp only [optSt, List.head?_cons]
        have := ih (iter + 1) st p'
        simp only [St.at] at this
        cases decide (iter ≥ q.min)
        · simp only []; exact this
        · simp only []
          split
          · rw [this]; simp [St.at]
          · rw [this]; simp [St.at]

/-! ## The two phases of `loop1Pos` -/

/-- The mandatory iterations. -/
theorem loop1Pos_phase1 (step : Nat → Option Nat) {q : Quant} (hq : quantOk q = true) :
    ∀ (d k iter pos : Nat), iter + d = q.min →
      loop1Pos step q (k + d) iter pos =
        match scmRun step d pos with
        | none => []
        | some mp => loop1Pos step q k q.min mp := by
  intro d
  induction d with
  | zero => intro k iter pos h; simp only [Nat.add_zero] at h; subst h; rfl
  | succ d ih =>
    intro k iter pos h
    have hlt : iter < q.min := by omega
    have hnot : decide (iter ≥ q.min) = false := by simp; omega
    rw [show k + (d + 1) = (k + d) + 1 by omega]
    simp only [loop1Pos, maxOk_of_lt_min hq hlt, if_true, hnot, scmRun]
    cases step pos with
    | none => rfl
    | some p' => exact ih k (iter + 1) p' (by omega)

theorem maxOk_eq_lim (q : Quant) (iter : Nat) : maxOk q iter = !(q.max.map (· - iter) == some 0) := by
  unfold maxOk
  cases q.max with
  | none => rfl
  | some m =>
    simp only [Option.map_some]
    by_cases h : iter < m
    · have : ¬ (m - iter = 0) := by omega
      simp [h, this]
    · have : m - iter = 0 := by omega
      simp [h, this]

/-- The optional iterations. -/
theorem loop1Pos_phase2 (step : Nat → Option Nat) (q : Quant) :
    ∀ (k iter pos : Nat), q.min ≤ iter →
      loop1Pos step q k iter pos =
        if q.greedy then (runTrace step k (q.max.map (· - iter)) pos).reverse
        else runTrace step k (q.max.map (· - iter)) pos := by
  intro k
  induction k with
  | zero => intro _ _ _; simp [loop1Pos, runTrace]
  | succ k ih =>
    intro iter pos h
    have hge : decide (iter ≥ q.min) = true := by simp; omega
    have hlim : (q.max.map (· - iter)).map (· - 1) = q.max.map (· - (iter + 1)) := by
      cases q.max with
      | none => rfl
      | some m => simp only [Option.map_some]; congr 1
    simp only [loop1Pos, runTrace, hge, maxOk_eq_lim q iter]
    by_cases h0 : (q.max.map (· - iter) == some 0) = true
    · simp only [h0, Bool.not_true, Bool.false_eq_true, if_false, if_true]
      split <;> rfl
    · simp only [h0, Bool.not_false, if_true, Bool.false_eq_true, if_false]
      cases step pos with
      | none => simp only []; split <;> rfl
      | some p' =>
        simp only [hlim, ih (iter + 1) p' (by omega)]
        split <;> simp

/-! ## Properties of a run under a rank -/

section
variable {step back : Nat → Option Nat} {V : Nat → Prop} {rk : Nat → Nat}

theorem runTrace_lim0 {lim : Option Nat} (h : (lim == some 0) = true) (k a : Nat) :
    runTrace step (k + 1) lim a = [a] := by simp only [runTrace, h, if_true]

theorem runTrace_none {lim : Option Nat} (h : ¬ (lim == some 0) = true) {a : Nat} (hs : step a = none) (k : Nat) :
    runTrace step (k + 1) lim a = [a] := by simp [runTrace, h, hs]

theorem runTrace_some {lim : Option Nat} (h : ¬ (lim == some 0) = true) {a b : Nat} (hs : step a = some b) (k : Nat) :
    runTrace step (k + 1) lim a = a :: runTrace step k (lim.map (· - 1)) b := by
  simp [runTrace, h, hs]

theorem scmMax_lim0 {lim : Option Nat} (h : (lim == some 0) = true) (k a : Nat) :
    scmMax step (k + 1) lim a = a := by simp only [scmMax, h, if_true]

theorem scmMax_none {lim : Option Nat} (h : ¬ (lim == some 0) = true) {a : Nat} (hs : step a = none) (k : Nat) :
    scmMax step (k + 1) lim a = a := by simp [scmMax, h, hs]

theorem scmMax_some {lim : Option Nat} (h : ¬ (lim == some 0) = true) {a b : Nat} (hs : step a = some b) (k : Nat) :
    scmMax step (k + 1) lim a = scmMax step k (lim.map (· - 1)) b := by
  simp [scmMax, h, hs]

/-- Case analysis of a run with a positive budget. -/
theorem runTrace_cases (k : Nat) (lim : Option Nat) (a : Nat) :
    runTrace step (k + 1) lim a = [a] ∨
      ∃ b, step a = some b ∧ ¬ (lim == some 0) = true ∧
        runTrace step (k + 1) lim a = a :: runTrace step k (lim.map (· - 1)) b := by
  by_cases h0 : (lim == some 0) = true
  · exact Or.inl (runTrace_lim0 h0 k a)
  · cases hs : step a with
    | none => exact Or.inl (runTrace_none h0 hs k)
    | some b => exact Or.inr ⟨b, rfl, h0, runTrace_some h0 hs k⟩

theorem runTrace_head (k : Nat) (lim : Option Nat) (a : Nat) :
    ∃ t, runTrace step (k + 1) lim a = a :: t := by
  rcases runTrace_cases (step := step) k lim a with h | ⟨b, _, _, h⟩
  · exact ⟨[], h⟩
  · exact ⟨_, h⟩

theorem runTrace_tail_rk (hV : ∀ a b, V a → step a = some b → V b) (hrk : ∀ a b, V a → step a = some b → rk b < rk a) :
    ∀ (k : Nat) (lim : Option Nat) (a : Nat), V a → ∀ x ∈ (runTrace step k lim a).tail, rk x < rk a ∧ V x := by
  intro k
  induction k with
  | zero => intro _ _ _ x hx; simp [runTrace] at hx
  | succ k ih =>
    intro lim a ha x hx
    rcases runTrace_cases (step := step) k lim a with h | ⟨b, hb, _, h⟩
    · rw [h] at hx; simp at hx
    · rw [h, List.tail_cons] at hx
      have hvb := hV a b ha hb
      have hrb := hrk a b ha hb
      cases k with
      | zero => simp [runTrace] at hx
      | succ k =>
        obtain ⟨t, ht⟩ := runTrace_head (step := step) k (lim.map (· - 1)) b
        have ih' := ih (lim.map (· - 1)) b hvb
        rw [ht] at hx ih'
        rcases List.mem_cons.1 hx with rfl | hx
        · exact ⟨hrb, hvb⟩
        · have := ih' x (by simpa using hx)
          exact ⟨by omega, this.2⟩

theorem runTrace_length (hV : ∀ a b, V a → step a = some b → V b) (hrk : ∀ a b, V a → step a = some b → rk b < rk a) :
    ∀ (k : Nat) (lim : Option Nat) (a : Nat), V a → (runTrace step k lim a).length ≤ rk a + 1 := by
  intro k
  induction k with
  | zero => intro _ _ _; simp [runTrace]
  | succ k ih =>
    intro lim a ha
    rcases runTrace_cases (step := step) k lim a with h | ⟨b, hb, _, h⟩
    · rw [h]; simp
    · rw [h]
      have := ih (lim.map (· - 1)) b (hV a b ha hb)
      have := hrk a b ha hb
      simp only [List.length_cons]; omega

/-- A budget above the rank is never exhausted. -/
theorem runTrace_fuel (hV : ∀ a b, V a → step a = some b → V b) (hrk : ∀ a b, V a → step a = some b → rk b < rk a) :
    ∀ (k k' : Nat) (lim : Option Nat) (a : Nat), V a → rk a < k → rk a < k' →
      runTrace step k lim a = runTrace step k' lim a := by
  intro k
  induction k with
  | zero => intro _ _ _ _ h _; omega
  | succ k ih =>
    intro k' lim a ha h1 h2
    obtain ⟨k', rfl⟩ : ∃ x, k' = x + 1 := ⟨k' - 1, by omega⟩
    by_cases h0 : (lim == some 0) = true
    · rw [runTrace_lim0 h0, runTrace_lim0 h0]
    · cases hs : step a with
      | none => rw [runTrace_none h0 hs, runTrace_none h0 hs]
      | some b =>
        have := hrk a b ha hs
        rw [runTrace_some h0 hs, runTrace_some h0 hs, ih k' _ b (hV a b ha hs) (by omega) (by omega)]

/-- `scmMax` is the last position of the run. -/
theorem scmMax_eq_last : ∀ (f : Nat) (lim : Option Nat) (a : Nat),
    (runTrace step (f + 1) lim a).getLast? = some (scmMax step f lim a) := by
  intro f
  induction f with
  | zero =>
    intro lim a
    have : scmMax step 0 lim a = a := rfl
    rw [this]
    rcases runTrace_cases (step := step) 0 lim a with h | ⟨b, _, _, h⟩
    · rw [h]; rfl
    · rw [h]; simp [runTrace]
  | succ f ih =>
    intro lim a
    by_cases h0 : (lim == some 0) = true
    · rw [runTrace_lim0 h0, scmMax_lim0 h0]; rfl
    · cases hs : step a with
      | none => rw [runTrace_none h0 hs, scmMax_none h0 hs]; rfl
      | some b =>
        rw [runTrace_some h0 hs, scmMax_some h0 hs]
        obtain ⟨t, ht⟩ := runTrace_head (step := step) f (lim.map (· - 1)) b
        have := ih (lim.map (· - 1)) b
        rw [ht] at this ⊢
        rw [List.getLast?_cons_cons]; exact this

/-! ## The walks of `run_scm_loop` -/

theorem scmWalk_succ (nx : Nat → Option Nat) (st : St) (t f cur : Nat) :
    scmWalk nx st t (f + 1) cur =
      Out.ok (st.at cur) ::
        (if cur == t then [] else match nx cur with
          | none => [Out.panic]
          | some p => scmWalk nx st t f p) := rfl

theorem scmWalk_step {nx : Nat → Option Nat} (st : St) {t cur p : Nat} (f : Nat) (hne : (cur == t) = false)
    (hnx : nx cur = some p) : scmWalk nx st t (f + 1) cur = Out.ok (st.at cur) :: scmWalk nx st t f p := by
  rw [scmWalk_succ, hne, hnx]; rfl

theorem scmWalk_stop (nx : Nat → Option Nat) (st : St) (t f : Nat) :
    scmWalk nx st t (f + 1) t = [Out.ok (st.at t)] := by
  rw [scmWalk_succ]; simp

/-- Greedy: walking back from the end of the run with the inverse decoder lists the run in reverse;
`t0` is a target that is not among the positions after the first. -/
theorem scmWalk_back (hV : ∀ a b, V a → step a = some b → V b) (hback : ∀ a b, V a → step a = some b → back b = some a)
    (st : St) (t0 : Nat) :
    ∀ (k : Nat) (lim : Option Nat) (a f : Nat), V a →
      (∀ x ∈ (runTrace step (k + 1) lim a).tail, x ≠ t0) →
      ∀ last, (runTrace step (k + 1) lim a).getLast? = some last →
      scmWalk back st t0 (f + (runTrace step (k + 1) lim a).length) last =
        ((runTrace step (k + 1) lim a).tail.reverse).map (fun p => Out.ok (st.at p)) ++ scmWalk back st t0 (f + 1) a := by
  intro k
  induction k with
  | zero =>
    intro lim a f ha hne last hlast
    have h1 : runTrace step 1 lim a = [a] := by
      rcases runTrace_cases (step := step) 0 lim a with h | ⟨b, _, _, h⟩
      · exact h
      · rw [h]; simp [runTrace]
    rw [h1] at hlast ⊢
    simp only [List.getLast?_singleton, Option.some.injEq] at hlast
    subst hlast; simp
  | succ k ih =>
    intro lim a f ha hne last hlast
    rcases runTrace_cases (step := step) (k + 1) lim a with h | ⟨b, hb, _, h⟩
    · rw [h] at hlast ⊢
      simp only [List.getLast?_singleton, Option.some.injEq] at hlast
      subst hlast; simp
    · rw [h] at hlast hne ⊢
      have hvb := hV a b ha hb
      obtain ⟨t, ht⟩ := runTrace_head (step := step) k (lim.map (· - 1)) b
      have ih' := ih (lim.map (· - 1)) b (f + 1) hvb
      rw [ht] at hlast hne ih' ⊢
      rw [List.getLast?_cons_cons] at hlast
      simp only [List.tail_cons] at hne ih' ⊢
      have hbne : b ≠ t0 := hne b (by simp)
      have := ih' (fun x hx => hne x (by simp [hx])) last hlast
      simp only [List.length_cons] at this ⊢
      rw [show f + (t.length + 1 + 1) = f + 1 + (t.length + 1) by omega, this]
      have hwb : scmWalk back st t0 (f + 1 + 1) b = Out.ok (st.at b) :: scmWalk back st t0 (f + 1) a :=
        scmWalk_step st (f + 1) (by simpa using hbne) (hback a b ha hb)
      rw [hwb]
      simp

/-- Non-greedy: walking on from the start of the run with the position decoder lists the run. -/
theorem scmWalk_fwd {nx : Nat → Option Nat} (hV : ∀ a b, V a → step a = some b → V b)
    (hrk : ∀ a b, V a → step a = some b → rk b < rk a) (hnx : ∀ a b, V a → step a = some b → nx a = some b)
    (st : St) :
    ∀ (k : Nat) (lim : Option Nat) (a f : Nat), V a →
      ∀ last, (runTrace step (k + 1) lim a).getLast? = some last →
      scmWalk nx st last (f + (runTrace step (k + 1) lim a).length) a =
        (runTrace step (k + 1) lim a).map (fun p => Out.ok (st.at p)) := by
  intro k
  induction k with
  | zero =>
    intro lim a f ha last hlast
    have h1 : runTrace step 1 lim a = [a] := by
      rcases runTrace_cases (step := step) 0 lim a with h | ⟨b, _, _, h⟩
      · exact h
      · rw [h]; simp [runTrace]
    rw [h1] at hlast ⊢
    simp only [List.getLast?_singleton, Option.some.injEq] at hlast
    subst hlast
    simp [scmWalk_stop]
  | succ k ih =>
    intro lim a f ha last hlast
    have htail := runTrace_tail_rk hV hrk (k + 1 + 1) lim a ha
    rcases runTrace_cases (step := step) (k + 1) lim a with h | ⟨b, hb, _, h⟩
    · rw [h] at hlast ⊢
      simp only [List.getLast?_singleton, Option.some.injEq] at hlast
      subst hlast
      simp [scmWalk_stop]
    · rw [h] at hlast htail ⊢
      have hvb := hV a b ha hb
      obtain ⟨t, ht⟩ := runTrace_head (step := step) k (lim.map (· - 1)) b
      have ih' := ih (lim.map (· - 1)) b f hvb last
      rw [ht] at hlast htail ih' ⊢
      rw [List.getLast?_cons_cons] at hlast
      have hmem : last ∈ b :: t := List.mem_of_getLast? hlast
      have hlt := (htail last (by simpa using hmem)).1
      have hane : (a == last) = false := by
        have : a ≠ last := fun hc => by subst hc; omega
        simpa using this
      have := ih' hlast
      simp only [List.length_cons, List.map_cons] at this ⊢
      rw [show f + (t.length + 1 + 1) = (f + (t.length + 1)) + 1 by omega]
      rw [scmWalk_step st _ hane (hnx a b ha hb), this]

end

end Regress.IR
