import Proofs.Lemmas.ByteSearchSets
/-!
# `AsciiBitmap([u8; 16])`
-/
namespace Regress.ByteSearch

/-- The set an `AsciiBitmap` denotes: bit `v % 8` of byte `v / 8`, for `v < 128` only. -/
def AsciiBitmap.mem (bm : AsciiBitmap) (v : Nat) : Bool :=
  decide (v < 128) && (bm.bytes[v / 8]?.getD 0).testBit (v % 8)

theorem AsciiBitmap.default_wf : AsciiBitmap.default.WF := by decide

theorem AsciiBitmap.mem_default (v : Nat) : AsciiBitmap.default.mem v = false := by
  unfold AsciiBitmap.mem AsciiBitmap.default
  simp only [List.getElem?_replicate]
  split <;> simp

theorem shr3 (v : Nat) : v >>> 3 = v / 8 := by rw [Nat.shiftRight_eq_div_pow]
theorem shr7 (v : Nat) : v >>> 7 = v / 128 := by rw [Nat.shiftRight_eq_div_pow]

/-- `contains` never panics on a `u8`, ASCII or not, and decides membership. -/
theorem AsciiBitmap.contains_ok {bm : AsciiBitmap} (hwf : bm.WF) {v : Nat} (hv : v < 256) :
    bm.contains v = .ok (bm.mem v) := by
  unfold AsciiBitmap.contains AsciiBitmap.mem
  simp only [shr3, shr7, and7, and127]
  have hlen : v % 128 / 8 < bm.bytes.length := by rw [hwf.1]; omega
  by_cases h : v < 128
  · have h1 : v / 128 = 0 := by omega
    have h2 : v % 128 = v := by omega
    rw [h1, show (0 ^^^ 1 : Nat) = 1 from rfl, shl_one_ok (by omega : v % 8 < 8)]
    simp only [h2] at hlen ⊢
    rw [List.getElem?_eq_getElem hlen]
    simp [and_two_pow_bne, h]
  · have h1 : v / 128 = 1 := by omega
    rw [h1, show (1 ^^^ 1 : Nat) = 0 from rfl]
    unfold shl
    rw [if_pos (by omega : v % 8 < 8), List.getElem?_eq_getElem hlen]
    simp [h]

theorem AsciiBitmap.set_ok (dbg : Bool) {bm : AsciiBitmap} (hwf : bm.WF) {v : Nat} (hv : v < 128) :
    bm.set dbg v = .ok ⟨bm.bytes.set (v / 8) (bm.bytes[v / 8]?.getD 0 ||| 2 ^ (v % 8))⟩ := by
  have hlen : v / 8 < bm.bytes.length := by rw [hwf.1]; omega
  unfold AsciiBitmap.set
  have hle : v ≤ 127 := by omega
  simp only [shr3, and7, hle, decide_true, Bool.not_true, Bool.and_false, Bool.false_eq_true, if_false]
  rw [shl_one_ok (by omega : v % 8 < 8), List.getElem?_eq_getElem hlen]
  simp

/-- `set(v)` with `128 ≤ v ≤ 255` panics in every build: the `debug_assert!` with debug assertions,
the index `self.0[v >> 3]` (`≥ 16`) without. -/
theorem AsciiBitmap.set_err (dbg : Bool) {bm : AsciiBitmap} (hwf : bm.WF) {v : Nat} (hv : 128 ≤ v) :
    bm.set dbg v = .error (if dbg then .asciiSetDebugAssert else .asciiIndex) := by
  unfold AsciiBitmap.set
  have hle : ¬ v ≤ 127 := by omega
  have hnone : bm.bytes[v / 8]? = none := List.getElem?_eq_none (by rw [hwf.1]; omega)
  cases dbg <;> simp [hle, shr3, hnone]

theorem AsciiBitmap.set_wf (dbg : Bool) {bm bm' : AsciiBitmap} (hwf : bm.WF) {v : Nat} (hv : v < 128)
    (h : bm.set dbg v = .ok bm') : bm'.WF := by
  rw [AsciiBitmap.set_ok dbg hwf hv] at h
  cases h
  refine ⟨by simp [hwf.1], ?_⟩
  intro w hw
  rcases List.mem_or_eq_of_mem_set hw with h | h
  · exact hwf.2 w h
  · subst h
    have hlen : v / 8 < bm.bytes.length := by rw [hwf.1]; omega
    have h1 : bm.bytes[v / 8]?.getD 0 < 2 ^ 8 := by
      rw [List.getElem?_eq_getElem hlen]; exact hwf.2 _ (List.getElem_mem hlen)
    have h2 : 2 ^ (v % 8) < 2 ^ 8 := two_pow_lt_of_lt (by omega)
    exact Nat.or_lt_two_pow h1 h2

theorem AsciiBitmap.mem_set (dbg : Bool) {bm bm' : AsciiBitmap} (hwf : bm.WF) {v : Nat} (hv : v < 128)
    (h : bm.set dbg v = .ok bm') (u : Nat) : bm'.mem u = (bm.mem u || u == v) := by
  rw [AsciiBitmap.set_ok dbg hwf hv] at h
  cases h
  have hlen : v / 8 < bm.bytes.length := by rw [hwf.1]; omega
  unfold AsciiBitmap.mem
  simp only [List.getElem?_set]
  by_cases hq : v / 8 = u / 8
  · rw [if_pos hq, if_pos hlen, Option.getD_some, Nat.testBit_or, Nat.testBit_two_pow, hq]
    by_cases hr : v % 8 = u % 8
    · have : u = v := by omega
      subst this
      simp [hv]
    · have : ¬ u = v := by omega
      simp [hr, this]
  · rw [if_neg hq]
    have : ¬ u = v := by intro h; subst h; exact hq rfl
    simp [this]

/-- The 128-bit number of an `AsciiBitmap` (the representation of `VM.AsciiBitmap` in `Emit.lean`). -/
def AsciiBitmap.toNat (bm : AsciiBitmap) : Nat := packWords 8 bm.bytes

theorem AsciiBitmap.testBit_toNat {bm : AsciiBitmap} (hwf : bm.WF) (v : Nat) :
    bm.toNat.testBit v = (bm.bytes[v / 8]?.getD 0).testBit (v % 8) :=
  testBit_packWords (by decide) bm.bytes hwf.2 v

theorem AsciiBitmap.toNat_lt {bm : AsciiBitmap} (hwf : bm.WF) : bm.toNat < 2 ^ 128 := by
  have := packWords_lt (k := 8) bm.bytes hwf.2
  rw [hwf.1] at this
  exact this

end Regress.ByteSearch
