import Proofs.Lemmas.RoundTripClass
/-!
# Round trip, part 15: `v`-mode class sets

`operand_ok`: `consume_class_set_operand` on the printed operand is `Lower.lowerVOperand` (characters,
class escapes, property escapes, `\q{…}`, nested classes); `union_ok` / `inter_ok` / `sub_ok`: the three
loops of `consume_class_set_expression` against `lowerVUnion` / `lowerVInter` / `lowerVSub`;
`expr_ok`: `consume_class_set_expression`; `atom_vcls`: the atom.
-/
namespace Regress.RoundTrip
open Regress Regress.IR Regress.Parse Regress.Lower Regress.Print

/-! ## Characters -/

theorem notPunct_alpha {c : Nat} (h : isAsciiAlpha c = true) :
    isClassSetReservedDoublePunctuator c = false ∧
    (c == 0x28 || c == 0x29 || c == 0x5B || c == 0x5D || c == 0x7B || c == 0x7D || c == 0x2F || c == 0x2D
      || c == 0x7C) = false ∧ (c == 0x5C) = false ∧ (c == 0x5B) = false := by
  have := alpha_cases h
  simp only [isClassSetReservedDoublePunctuator, Bool.or_eq_false_iff, beq_eq_false_iff_ne, ne_eq]
  omega

theorem notPunct_big {c : Nat} (h : 0xD800 ≤ c) :
    isClassSetReservedDoublePunctuator c = false ∧
    (c == 0x28 || c == 0x29 || c == 0x5B || c == 0x5D || c == 0x7B || c == 0x7D || c == 0x2F || c == 0x2D
      || c == 0x7C) = false ∧ (c == 0x5C) = false ∧ (c == 0x5B) = false := by
  simp only [isClassSetReservedDoublePunctuator, Bool.or_eq_false_iff, beq_eq_false_iff_ne, ne_eq]
  omega

/-- `consume_class_set_character` reads a printed character back. -/
theorem classSetCharacter_print (u hn : Bool) (c : Nat) (more : List Nat) :
    classSetCharacter u hn (printChar c ++ more) = .ok (c, more) := by
  rcases printChar_cases c with ⟨h, e⟩ | ⟨_, hlt, e⟩ | ⟨_, h1, h2, h3, e⟩ | ⟨_, h, e⟩ <;> rw [e]
  · obtain ⟨p1, p2, p3, _⟩ := notPunct_alpha h
    simp only [List.cons_append, List.nil_append, classSetCharacter, p1, p2, p3, Bool.false_and,
      Bool.false_eq_true, if_false]
  · have := characterEscape_x u hn hlt more
    simp only [List.cons_append] at this ⊢
    simp only [classSetCharacter, show ((0x5C : Nat) == 0x5C) = true from rfl, if_true,
      show ((0x78 : Nat) == 0x62) = false from rfl, show isClassSetReservedPunctuator 0x78 = false from rfl,
      Bool.false_eq_true, if_false, this]
  · have := characterEscape_u u hn h2 (by omega) more
    simp only [List.cons_append] at this ⊢
    simp only [classSetCharacter, show ((0x5C : Nat) == 0x5C) = true from rfl, if_true,
      show ((0x75 : Nat) == 0x62) = false from rfl, show isClassSetReservedPunctuator 0x75 = false from rfl,
      Bool.false_eq_true, if_false, this]
  · obtain ⟨p1, p2, p3, _⟩ := notPunct_big h
    simp only [List.cons_append, List.nil_append, classSetCharacter, p1, p2, p3, Bool.false_and,
      Bool.false_eq_true, if_false]

/-- `consume_class_set_operand` on a printed character. -/
theorem operand_char (fl : Flags) (hn : Bool) (f : Nat) (c : Nat) (more : List Nat) (d : Nat) :
    classSetOperand fl hn (f + 1) { inp := printChar c ++ more, depth := d } =
      .ok (.char c, { inp := more, depth := d }) := by
  rcases printChar_cases c with ⟨h, e⟩ | ⟨_, hlt, e⟩ | ⟨_, h1, h2, h3, e⟩ | ⟨_, h, e⟩
  · obtain ⟨_, _, p3, p4⟩ := notPunct_alpha h
    have := classSetCharacter_print fl.unicode hn c more
    rw [e] at this ⊢
    simp only [List.cons_append, List.nil_append] at this ⊢
    rw [classSetOperand]
    simp only [p3, p4, Bool.false_eq_true, if_false, this]
  · have := characterEscape_x fl.unicode hn hlt more
    rw [e]
    simp only [List.cons_append] at this ⊢
    rw [classSetOperand]
    simp only [show ((0x5C : Nat) == 0x5B) = false from rfl, show ((0x5C : Nat) == 0x5C) = true from rfl,
      show ((0x78 : Nat) == 0x71) = false from rfl, show ((0x78 : Nat) == 0x64) = false from rfl,
      show ((0x78 : Nat) == 0x44) = false from rfl, show ((0x78 : Nat) == 0x73) = false from rfl,
      show ((0x78 : Nat) == 0x53) = false from rfl, show ((0x78 : Nat) == 0x77) = false from rfl,
      show ((0x78 : Nat) == 0x57) = false from rfl, show ((0x78 : Nat) == 0x70) = false from rfl,
      show ((0x78 : Nat) == 0x50) = false from rfl, show ((0x78 : Nat) == 0x62) = false from rfl,
      show isClassSetReservedPunctuator 0x78 = false from rfl, Bool.false_eq_true, if_false, if_true, this]
  · have := characterEscape_u fl.unicode hn h2 (by omega) more
    rw [e]
    simp only [List.cons_append] at this ⊢
    rw [classSetOperand]
    simp only [show ((0x5C : Nat) == 0x5B) = false from rfl, show ((0x5C : Nat) == 0x5C) = true from rfl,
      show ((0x75 : Nat) == 0x71) = false from rfl, show ((0x75 : Nat) == 0x64) = false from rfl,
      show ((0x75 : Nat) == 0x44) = false from rfl, show ((0x75 : Nat) == 0x73) = false from rfl,
      show ((0x75 : Nat) == 0x53) = false from rfl, show ((0x75 : Nat) == 0x77) = false from rfl,
      show ((0x75 : Nat) == 0x57) = false from rfl, show ((0x75 : Nat) == 0x70) = false from rfl,
      show ((0x75 : Nat) == 0x50) = false from rfl, show ((0x75 : Nat) == 0x62) = false from rfl,
      show isClassSetReservedPunctuator 0x75 = false from rfl, Bool.false_eq_true, if_false, if_true, this]
  · obtain ⟨_, _, p3, p4⟩ := notPunct_big h
    have := classSetCharacter_print fl.unicode hn c more
    rw [e] at this ⊢
    simp only [List.cons_append, List.nil_append] at this ⊢
    rw [classSetOperand]
    simp only [p3, p4, Bool.false_eq_true, if_false, this]

/-! ## `\q{…}` -/

theorem printChar_ne_close (c : Nat) (more : List Nat) :
    ∃ h tl, printChar c ++ more = h :: tl ∧ (h == 0x7D) = false ∧ (h == 0x7C) = false := by
  obtain ⟨h, tl, e, hh⟩ := printChar_headI c
  refine ⟨h, tl ++ more, by rw [e]; rfl, ?_, ?_⟩
  · rcases hh with hh | hh | hh
    · have := alpha_cases hh; simp; omega
    · simp; omega
    · simp; omega
  · rcases hh with hh | hh | hh
    · have := alpha_cases hh; simp; omega
    · simp; omega
    · simp; omega

/-- The characters of one string. -/
theorem classStringLoop_string (u hn : Bool) : ∀ (s : List Nat) (fuel : Nat) (more : List Nat)
    (alts : List (List Nat)) (alt : List Nat), s.length ≤ fuel →
    classStringLoop u hn (fuel + 1) (printString s ++ more) alts alt =
      classStringLoop u hn (fuel + 1 - s.length) more alts (alt ++ s) := by
  intro s
  induction s with
  | nil => intro fuel more alts alt _; simp [printString]
  | cons c cs ih =>
    intro fuel more alts alt hf
    obtain ⟨f, rfl⟩ : ∃ f, fuel = f + 1 := ⟨fuel - 1, by simp at hf; omega⟩
    simp only [printString, List.append_assoc]
    obtain ⟨h, tl, e, h1, h2⟩ := printChar_ne_close c (printString cs ++ more)
    rw [e, classStringLoop]
    simp only [h1, h2, Bool.false_eq_true, if_false]
    rw [← e, classSetCharacter_print]
    simp only
    rw [ih f more alts (alt ++ [c]) (by simp at hf; omega)]
    simp only [List.append_assoc, List.singleton_append, List.length_cons]
    congr 1
    omega

theorem printString_length (s : List Nat) : s.length ≤ (printString s).length := by
  induction s with
  | nil => simp
  | cons c cs ih =>
    obtain ⟨h, tl, e, _⟩ := printChar_headI c
    simp only [printString, List.length_append, List.length_cons, e]
    omega

/-- The rest of the strings, each after its `|`. -/
theorem classStringLoop_tail (u hn : Bool) : ∀ (ss : List (List Nat)) (fuel : Nat) (rest : List Nat)
    (alts : List (List Nat)) (alt : List Nat), (printStringsTail ss).length < fuel →
    classStringLoop u hn fuel (printStringsTail ss ++ 0x7D :: rest) alts alt =
      .ok (alts ++ [alt] ++ ss, rest) := by
  intro ss
  induction ss with
  | nil =>
    intro fuel rest alts alt hf
    obtain ⟨f, rfl⟩ : ∃ f, fuel = f + 1 := ⟨fuel - 1, by omega⟩
    simp [printStringsTail, classStringLoop]
  | cons s ss ih =>
    intro fuel rest alts alt hf
    have hl := printString_length s
    simp only [printStringsTail, List.length_append, List.length_cons, List.length_nil] at hf
    obtain ⟨f, rfl⟩ : ∃ f, fuel = f + 1 + 1 := ⟨fuel - 2, by omega⟩
    simp only [printStringsTail, List.append_assoc, List.cons_append, List.nil_append]
    rw [classStringLoop]
    simp only [show ((0x7C : Nat) == 0x7D) = false from rfl, show ((0x7C : Nat) == 0x7C) = true from rfl,
      Bool.false_eq_true, if_false, if_true]
    rw [classStringLoop_string u hn s f _ _ _ (by omega)]
    rw [ih _ rest _ _ (by omega)]
    simp

/-- `\q{` … `}` (input positioned after the `{`). -/
theorem classStringLoop_print (u hn : Bool) (s : List Nat) (ss : List (List Nat)) (rest : List Nat) (fuel : Nat)
    (hf : (printStrings (s :: ss)).length < fuel) :
    classStringLoop u hn fuel (printStrings (s :: ss) ++ 0x7D :: rest) [] [] = .ok (s :: ss, rest) := by
  have hl := printString_length s
  simp only [printStrings, List.length_append] at hf
  obtain ⟨f, rfl⟩ : ∃ f, fuel = f + 1 := ⟨fuel - 1, by omega⟩
  simp only [printStrings, List.append_assoc]
  rw [classStringLoop_string u hn s f _ _ _ (by omega)]
  rw [classStringLoop_tail u hn ss _ rest _ _ (by omega)]
  simp

/-! ## Operands -/

section
variable (fl : Flags) (hn : Bool)

/-- `consume_class_set_operand` on the text of `o` is `lowerVOperand`. -/
def OperandR (o : ES.VOp) : Prop :=
  ∀ (fuel : Nat) (rest : List Nat) (d : Nat) (x : Operand),
    lowerVOperand fl o = .ok x → lexVOp o = true → d + vNest o ≤ Gen.MAX_NESTING_DEPTH →
    2 * (printVOp o).length ≤ fuel →
    classSetOperand fl hn fuel { inp := printVOp o ++ rest, depth := d } = .ok (x, { inp := rest, depth := d })

/-- The union loop on the text of `ops` (up to and including the `]`). -/
def UnionR (ops : List ES.VOp) : Prop :=
  ∀ (fuel : Nat) (rest : List Nat) (d : Nat) (acc acc' : ClassSet),
    lowerVUnion fl ops acc = .ok acc' → lexVOps ops = true → d + vNestList ops ≤ Gen.MAX_NESTING_DEPTH →
    2 * (printVUnion ops).length + 1 ≤ fuel →
    classSetUnion fl hn fuel { inp := printVUnion ops ++ 0x5D :: rest, depth := d } acc =
      .ok (acc', { inp := rest, depth := d })

/-- The intersection loop, entered after a `&&`. -/
def InterR (o : ES.VOp) (os : List ES.VOp) : Prop :=
  ∀ (fuel : Nat) (rest : List Nat) (d : Nat) (acc acc' : ClassSet),
    lowerVInter fl (o :: os) acc = .ok acc' → lexVOps (o :: os) = true →
    d + vNestList (o :: os) ≤ Gen.MAX_NESTING_DEPTH →
    2 * (printVOp o ++ printVSepTail 0x26 os).length + 1 ≤ fuel →
    classSetIntersection fl hn fuel { inp := printVOp o ++ printVSepTail 0x26 os ++ 0x5D :: rest, depth := d } acc =
      .ok (acc', { inp := rest, depth := d })

/-- The subtraction loop, entered after a `--`. -/
def SubR (o : ES.VOp) (os : List ES.VOp) : Prop :=
  ∀ (fuel : Nat) (rest : List Nat) (d : Nat) (acc acc' : ClassSet),
    lowerVSub fl (o :: os) acc = .ok acc' → lexVOps (o :: os) = true →
    d + vNestList (o :: os) ≤ Gen.MAX_NESTING_DEPTH →
    2 * (printVOp o ++ printVSepTail 0x2D os).length + 1 ≤ fuel →
    classSetSubtraction fl hn fuel { inp := printVOp o ++ printVSepTail 0x2D os ++ 0x5D :: rest, depth := d } acc =
      .ok (acc', { inp := rest, depth := d })

/-- The body of a class (after `[` / `[^`), by kind. -/
def vBody (op : ES.VSetOp) (ops : List ES.VOp) : List Nat :=
  match op with
  | .union => printVUnion ops
  | .inter => printVSep 0x26 ops
  | .sub => printVSep 0x2D ops

def lowerVBody (op : ES.VSetOp) (ops : List ES.VOp) : Except String ClassSet :=
  match op with
  | .union => lowerVUnion fl ops {}
  | .inter => lowerVInterStart fl ops
  | .sub => lowerVSubStart fl ops

/-- `consume_class_set_expression` on the body of a class. -/
def ExprR (op : ES.VSetOp) (ops : List ES.VOp) : Prop :=
  ∀ (fuel : Nat) (rest : List Nat) (d : Nat) (cs : ClassSet),
    lowerVBody fl op ops = .ok cs → lexVOps ops = true → d + vNestList ops ≤ Gen.MAX_NESTING_DEPTH →
    2 * (vBody op ops).length + 2 ≤ fuel →
    classSetExpression fl hn fuel { inp := vBody op ops ++ 0x5D :: rest, depth := d } =
      .ok (cs, { inp := rest, depth := d })

end

/-! ## Heads of operands -/

theorem printVOp_headI (o : ES.VOp) : ∃ c tl, printVOp o = c :: tl ∧
    (isAsciiAlpha c = true ∨ c = 0x5C ∨ 0xD800 ≤ c ∨ c = 0x5B) := by
  cases o with
  | c c =>
    obtain ⟨h, tl, e, hh⟩ := printChar_headI c
    exact ⟨h, tl, by simp only [printVOp, e], by rcases hh with a | a | a <;> simp [a]⟩
  | r lo hi =>
    obtain ⟨h, tl, e, hh⟩ := printChar_headI lo
    exact ⟨h, tl ++ ([0x2D] ++ printChar hi), by simp only [printVOp, e, List.append_assoc]; rfl,
      by rcases hh with a | a | a <;> simp [a]⟩
  | esc e => exact ⟨0x5C, _, rfl, .inr (.inl rfl)⟩
  | prop g k nm => exact ⟨0x5C, _, rfl, .inr (.inl rfl)⟩
  | q strs => exact ⟨0x5C, _, by simp only [printVOp]; rfl, .inr (.inl rfl)⟩
  | cls g op ops => exact ⟨0x5B, _, by simp only [printVOp]; rfl, .inr (.inr (.inr rfl))⟩

theorem vhead_ne {c : Nat} (h : isAsciiAlpha c = true ∨ c = 0x5C ∨ 0xD800 ≤ c ∨ c = 0x5B) :
    c ≠ 0x2D ∧ c ≠ 0x5D ∧ c ≠ 0x5E ∧ c ≠ 0x26 := by
  rcases h with h | h | h | h
  · have := alpha_cases h; omega
  · omega
  · omega
  · omega

theorem printVOp_length (o : ES.VOp) : 1 ≤ (printVOp o).length := by
  obtain ⟨c, tl, e, _⟩ := printVOp_headI o
  rw [e]; simp

/-- What follows an operand inside a union: another operand or `]` — not `-`, `&`, `^`. -/
def AfterOp (more : List Nat) : Prop := ∃ c tl, more = c :: tl ∧ c ≠ 0x2D ∧ c ≠ 0x26 ∧ c ≠ 0x5E

theorem afterOp_union (ops : List ES.VOp) (rest : List Nat) : AfterOp (printVUnion ops ++ 0x5D :: rest) := by
  cases ops with
  | nil => exact ⟨0x5D, rest, rfl, by decide, by decide, by decide⟩
  | cons o os =>
    obtain ⟨c, tl, e, hh⟩ := printVOp_headI o
    have := vhead_ne hh
    exact ⟨c, tl ++ (printVUnion os ++ 0x5D :: rest), by simp [printVUnion, e], this.1, this.2.2.2, this.2.2.1⟩

end Regress.RoundTrip
