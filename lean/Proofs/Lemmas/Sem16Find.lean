import Proofs.Lemmas.Sem16Main
/-!
# The search: `semFind16` on the UTF-16 text is the translation of `semFind` on the UTF-8 text
-/
namespace Regress.IR

open Regress.VM Regress
open Regress.Utf16 (off16 text16)

/-- The translation of a search result. -/
def findMap (f : Nat → Nat) : Option (Nat × St) → Find16
  | none => .noMatch
  | some (p, s) => .found (f p) (s.mapPos f)

theorem sub_le_off16_sub (cs : List Nat) {k : Nat} : ∀ {j : Nat}, k ≤ j → j ≤ cs.length →
    j - k ≤ off16 cs j - off16 cs k := by
  intro j hkj
  induction j with
  | zero => intro _; omega
  | succ j ih =>
    intro hj
    by_cases hk : k = j + 1
    · subst hk; simp
    · have := ih (by omega) (by omega)
      have h1 := Utf16.off16_lt_succ (cs := cs) (k := j) (by omega)
      have h4 := Utf16.off16_mono (cs := cs) (k := k) (j := j) (by omega) (by omega)
      omega

section
variable {inp8 : Input} {inp16 : Input16} {cs : List Nat}

/-- Between two consecutive char boundaries the UTF-8 scan makes no attempt. -/
theorem semFindFrom_skip (h : Utf8Text inp8 cs) (n : Node) {i : Nat} (hi : i < cs.length) :
    ∀ (d k p : Nat), p + d = Utf8.off cs (i + 1) → Utf8.off cs i < p → d ≤ k →
      semFindFrom inp8 n k p = semFindFrom inp8 n (k - d) (Utf8.off cs (i + 1)) := by
  intro d
  induction d with
  | zero => intro k p hp _ _; simp only [Nat.add_zero] at hp; subst hp; rfl
  | succ d ih =>
    intro k p hp hlt hk
    obtain ⟨k, rfl⟩ : ∃ x, k = x + 1 := ⟨k - 1, by omega⟩
    have hle : Utf8.off cs (i + 1) ≤ inp8.len := by rw [h.len]; exact Utf8.off_le_size cs _
    have hnb : ¬ Utf8.isBoundary inp8.bytes p = true := by
      intro hb
      have hb' := (atBoundary_iff h (by omega)).2 hb
      obtain ⟨j, hj, rfl⟩ := hb'
      have h1 := (Utf8.off_lt_iff (cs := cs) (show i ≤ cs.length by omega) hj).1 hlt
      have h2 := (Utf8.off_lt_iff (cs := cs) hj (show i + 1 ≤ cs.length by omega)).1 (by omega)
      omega
    simp only [semFindFrom]
    rw [if_neg (by omega), if_neg hnb]
    rw [ih k (p + 1) (by omega) (by omega) (by omega)]
    congr 1
    omega

theorem nextRightPos16_at (h : Utf16Text inp16 cs) {i : Nat} (hi : i < cs.length) :
    inp16.nextRightPos (off16 cs i) = some (off16 cs (i + 1)) := by
  have := nextPos16_fwd_at h hi
  simpa [Input16.nextPos] using this

theorem nextRightPos16_end (h : Utf16Text inp16 cs) : inp16.nextRightPos (off16 cs cs.length) = none := by
  rw [h.nextRightPos_eq (Utf16.off16_le_size cs _)]
  exact Utf16.nextRightPos_roundtrip_end cs

/-- The two scans, from the `i`-th boundary. -/
theorem semFindFrom_sim (h : SameText inp8 inp16 cs) {n : Node} (hw : WF n) (hn : noByteNodes n = true) :
    ∀ (d i k8 k16 : Nat), i + d = cs.length → inp8.len + 1 - Utf8.off cs i ≤ k8 → d + 1 ≤ k16 →
      semFindFrom16 inp16 n k16 (off16 cs i) = findMap (to16 cs) (semFindFrom inp8 n k8 (Utf8.off cs i)) := by
  intro d
  induction d with
  | zero =>
    intro i k8 k16 hi h8 h16
    have hi' : i = cs.length := by omega
    subst hi'
    have hlen : Utf8.off cs cs.length = inp8.len := by rw [h.t8.len, Utf8.off_length]
    obtain ⟨k8, rfl⟩ : ∃ x, k8 = x + 1 := ⟨k8 - 1, by omega⟩
    obtain ⟨k16, rfl⟩ : ∃ x, k16 = x + 1 := ⟨k16 - 1, by omega⟩
    have hb : AtBoundary cs (Utf8.off cs cs.length) := ⟨cs.length, Nat.le_refl _, rfl⟩
    simp only [semFindFrom16, semFindFrom]
    rw [if_neg (by omega), if_pos ((atBoundary_iff h.t8 (by omega)).1 hb)]
    have hfm := firstMatch16_sim h hw hn hb
    rw [to16_off cs (Nat.le_refl _)] at hfm
    rw [hfm]
    cases firstMatch inp8 n (Utf8.off cs cs.length) with
    | some s => simp only [Option.map_some, okMap, findMap, to16_off cs (Nat.le_refl _)]
    | none =>
      simp only [Option.map_none, nextRightPos16_end h.t16]
      cases k8 with
      | zero => rfl
      | succ k8 => simp only [semFindFrom]; rw [if_pos (by rw [hlen]; omega)]; rfl
  | succ d ih =>
    intro i k8 k16 hi h8 h16
    have hlt : i < cs.length := by omega
    obtain ⟨k16, rfl⟩ : ∃ x, k16 = x + 1 := ⟨k16 - 1, by omega⟩
    have hb : AtBoundary cs (Utf8.off cs i) := ⟨i, by omega, rfl⟩
    have hle1 : Utf8.off cs (i + 1) ≤ inp8.len := by rw [h.t8.len]; exact Utf8.off_le_size cs _
    have hlt1 := Utf8.off_lt_succ hlt
    obtain ⟨k8, rfl⟩ : ∃ x, k8 = x + 1 := ⟨k8 - 1, by omega⟩
    simp only [semFindFrom16, semFindFrom]
    rw [if_neg (by omega), if_pos ((atBoundary_iff h.t8 (by omega)).1 hb)]
    have hfm := firstMatch16_sim h hw hn hb
    rw [to16_off cs (by omega)] at hfm
    rw [hfm]
    cases firstMatch inp8 n (Utf8.off cs i) with
    | some s => simp only [Option.map_some, okMap, findMap, to16_off cs (show i ≤ cs.length by omega)]
    | none =>
      simp only [Option.map_none, nextRightPos16_at h.t16 hlt]
      rw [semFindFrom_skip h.t8 n hlt (Utf8.off cs (i + 1) - (Utf8.off cs i + 1)) k8 (Utf8.off cs i + 1)
        (by omega) (by omega) (by omega)]
      exact ih (i + 1) _ k16 (by omega) (by omega) (by omega)

/-- A char boundary is not moved by `find_from_utf16`'s adjustment of the start index. -/
theorem snapStart_off16 (h : Utf16Text inp16 cs) {i : Nat} (hi : i ≤ cs.length) :
    snapStart inp16 (off16 cs i) = off16 cs i := by
  unfold snapStart
  split
  · rfl
  · have hsp := splitsPair_off16 h.scalar hi
    unfold splitsPair at hsp
    rw [h.units]
    by_cases h0 : off16 cs i = 0
    · simp [h0]
    · have hbeq : (off16 cs i == 0) = false := by simpa using h0
      simp only [hbeq, Bool.false_eq_true, if_false]
      cases h1 : (text16 cs)[off16 cs i - 1]? with
      | none => rfl
      | some a =>
        cases h2 : (text16 cs)[off16 cs i]? with
        | none => rfl
        | some b =>
          have hlt : off16 cs i < (text16 cs).size := by
            rcases Nat.lt_or_ge (off16 cs i) (text16 cs).size with hh | hh
            · exact hh
            · rw [Array.getElem?_eq_none hh] at h2; cases h2
          have hpos : off16 cs i > 0 := by omega
          simp only [h1, h2, hlt, hpos, decide_true, Bool.true_and] at hsp
          simp only [hsp, Bool.false_eq_true, if_false]

/-- **The search.** From corresponding start boundaries the two searches find corresponding matches. -/
theorem semFind16_sim (h : SameText inp8 inp16 cs) {n : Node} (hw : WF n) (hn : noByteNodes n = true) {i : Nat}
    (hi : i ≤ cs.length) :
    semFind16 inp16 n (off16 cs i) = findMap (to16 cs) (semFind inp8 n (Utf8.off cs i)) := by
  unfold semFind16 semFind
  simp only [snapStart_off16 h.t16 hi]
  have hle : off16 cs i ≤ inp16.len := by rw [h.t16.len]; exact Utf16.off16_le_size cs i
  rw [if_neg (by omega)]
  apply semFindFrom_sim h hw hn (cs.length - i) i _ _ (by omega) (Nat.le_refl _)
  have := sub_le_off16_sub cs hi (Nat.le_refl _)
  rw [Utf16.off16_length, ← h.t16.len] at this
  omega

end

end Regress.IR
