import Proofs.Lemmas.CertsNest
import Proofs.Lemmas.Frame
/-!
# Certificates, part 8: control flow of a layout

* `Lay.succ_in`: the successors (`Safety.allSuccs`) of an instruction of a layout `[b, e)` lie in `[b, e]`;
* `Lay.entry_sub`: an occurrence `[b', e')` is entered only at `b'`: no instruction outside it has a
  successor strictly inside;
* role inversions: a `LoopAgain` / `EnterLoop` / look-around / capture-group instruction of a layout
  is the corresponding own instruction of a `Sub` occurrence;
* loop ids are unique (`Sub.loop_unique`), `Sim.live` and `Sim.loopIds` in terms of occurrences.
-/
namespace Regress.Certs

open Regress.VM Regress.Keystone Regress.VM.Safety

theorem plain_succs {prog : Prog} {i : Insn} (x : Nat) (h : plain i = true) :
    ∀ s ∈ allSuccs prog x i, s = x + 1 := by
  cases i <;> simp [plain] at h <;> simp [allSuccs]

/-- **Closure**: successors stay in `[b, e]`. -/
theorem Lay.succ_in {prog : Prog} {G nb L : Nat} : ∀ {sk : Sk} {b : Nat}, Lay prog.insns sk b →
    sk.ok G nb L = true → ∀ x, b ≤ x → x < b + sk.size → ∀ i, At prog.insns x i →
    ∀ s ∈ allSuccs prog x i, b ≤ s ∧ s ≤ b + sk.size
  | .nil, b, _, _, x, h1, h2, _, _, _, _ => by simp [Sk.size] at h2; omega
  | .one i, b, h, hok, x, h1, h2, i', hat, s, hs => by
    simp only [Sk.size] at h2 ⊢
    have : x = b := by omega
    subst this
    simp only [Lay] at h
    have := at_inj h hat; subst this
    simp only [Sk.ok, Bool.and_eq_true] at hok
    have := plain_succs (prog := prog) x hok.1 s hs
    omega
  | .seq a c, b, h, hok, x, h1, h2, i, hat, s, hs => by
    simp only [Sk.size] at h2 ⊢
    simp only [Lay] at h
    simp only [Sk.ok, Bool.and_eq_true] at hok
    by_cases hx : x < b + a.size
    · have := Lay.succ_in h.1 hok.1 x h1 hx i hat s hs; omega
    · have := Lay.succ_in h.2 hok.2 x (by omega) (by omega) i hat s hs; omega
  | .alt a c, b, h, hok, x, h1, h2, i, hat, s, hs => by
    simp only [Sk.size] at h2 ⊢
    simp only [Lay] at h
    simp only [Sk.ok, Bool.and_eq_true] at hok
    obtain ⟨h0, ha, hj, hc⟩ := h
    by_cases hx0 : x = b
    · subst hx0; have := at_inj h0 hat; subst this
      simp only [allSuccs, List.mem_cons, List.not_mem_nil, or_false] at hs
      omega
    · by_cases hx1 : x < b + 1 + a.size
      · have := Lay.succ_in ha hok.1 x (by omega) hx1 i hat s hs; omega
      · by_cases hx2 : x = b + a.size + 1
        · subst hx2; have := at_inj hj hat; subst this
          simp only [allSuccs, List.mem_cons, List.not_mem_nil, or_false] at hs
          omega
        · have := Lay.succ_in hc hok.2 x (by omega) (by omega) i hat s hs; omega
  | .loop id mn mx gr g0 cnt body, b, h, hok, x, h1, h2, i, hat, s, hs => by
    simp only [Sk.size] at h2 ⊢
    simp only [Lay] at h
    simp only [Sk.ok, Bool.and_eq_true] at hok
    obtain ⟨h0, hr, hb, hl⟩ := h
    by_cases hx0 : x = b
    · subst hx0; have := at_inj h0 hat; subst this
      simp only [allSuccs, List.mem_cons, List.not_mem_nil, or_false] at hs
      omega
    · by_cases hx1 : x < b + 1 + cnt
      · have := hr (x - (b + 1)) (by omega)
        rw [show b + 1 + (x - (b + 1)) = x by omega] at this
        have := at_inj this hat; subst this
        simp only [allSuccs, List.mem_cons, List.not_mem_nil, or_false] at hs
        omega
      · by_cases hx2 : x < b + 1 + cnt + body.size
        · have := Lay.succ_in hb hok.2 x (by omega) hx2 i hat s hs; omega
        · have : x = b + 1 + cnt + body.size := by omega
          subst this; have := at_inj hl hat; subst this
          unfold At at h0
          simp only [allSuccs, h0, List.mem_cons, List.not_mem_nil, or_false] at hs
          omega
  | .loop1 mn mx gr body, b, h, hok, x, h1, h2, i, hat, s, hs => by
    simp only [Sk.size] at h2 ⊢
    simp only [Lay] at h
    simp only [Sk.ok, Bool.and_eq_true] at hok
    by_cases hx0 : x = b
    · subst hx0; have := at_inj h.1 hat; subst this
      simp only [allSuccs, List.mem_cons, List.not_mem_nil, or_false] at hs
      omega
    · have : x = b + 1 := by omega
      subst this; have := at_inj h.2 hat; subst this
      have := plain_succs (prog := prog) (b + 1) hok.1.1.1.2 s hs
      omega
  | .group g body, b, h, hok, x, h1, h2, i, hat, s, hs => by
    simp only [Sk.size] at h2 ⊢
    simp only [Lay] at h
    simp only [Sk.ok, Bool.and_eq_true] at hok
    obtain ⟨h0, hb, hl⟩ := h
    by_cases hx0 : x = b
    · subst hx0; have := at_inj h0 hat; subst this
      simp only [allSuccs, List.mem_cons, List.not_mem_nil, or_false] at hs
      omega
    · by_cases hx2 : x < b + 1 + body.size
      · have := Lay.succ_in hb hok.2 x (by omega) hx2 i hat s hs; omega
      · have : x = b + 1 + body.size := by omega
        subst this; have := at_inj hl hat; subst this
        simp only [allSuccs, List.mem_cons, List.not_mem_nil, or_false] at hs
        omega
  | .look neg bw sg eg body, b, h, hok, x, h1, h2, i, hat, s, hs => by
    simp only [Sk.size] at h2 ⊢
    simp only [Lay] at h
    simp only [Sk.ok, Bool.and_eq_true] at hok
    obtain ⟨h0, hb, hl⟩ := h
    by_cases hx0 : x = b
    · subst hx0; have := at_inj h0 hat; subst this
      cases bw <;> simp only [lookI, allSuccs, Bool.false_eq_true, if_false, if_true, List.mem_cons,
        List.not_mem_nil, or_false] at hs <;> omega
    · by_cases hx2 : x < b + 1 + body.size
      · have := Lay.succ_in hb hok.2 x (by omega) hx2 i hat s hs; omega
      · have : x = b + 1 + body.size := by omega
        subst this; have := at_inj hl hat; subst this
        simp [allSuccs] at hs

/-- **Single entry**: an occurrence is entered only at its first instruction. -/
theorem Lay.entry_sub {prog : Prog} {G nb L : Nat} {sk : Sk} {b : Nat} {s' : Sk} {b' : Nat}
    (hsub : Sub sk b s' b') : Lay prog.insns sk b → sk.ok G nb L = true →
    ∀ x, b ≤ x → x < b + sk.size → ¬ (b' ≤ x ∧ x < b' + s'.size) → ∀ i, At prog.insns x i →
    ∀ s ∈ allSuccs prog x i, ¬ (b' < s ∧ s < b' + s'.size) := by
  induction hsub with
  | refl => intro _ _ x h1 h2 hn; exact absurd ⟨h1, h2⟩ hn
  | @seqL a c b s' b' hs ih =>
    intro h hok x h1 h2 hn i hat s hss
    simp only [Sk.size] at h2
    simp only [Lay] at h
    simp only [Sk.ok, Bool.and_eq_true] at hok
    have hr := hs.range
    by_cases hx : x < b + a.size
    · exact ih h.1 hok.1 x h1 hx hn i hat s hss
    · have := Lay.succ_in h.2 hok.2 x (by omega) (by omega) i hat s hss; omega
  | @seqR a c b s' b' hs ih =>
    intro h hok x h1 h2 hn i hat s hss
    simp only [Sk.size] at h2
    simp only [Lay] at h
    simp only [Sk.ok, Bool.and_eq_true] at hok
    have hr := hs.range
    by_cases hx : x < b + a.size
    · have := Lay.succ_in h.1 hok.1 x h1 hx i hat s hss; omega
    · exact ih h.2 hok.2 x (by omega) (by omega) hn i hat s hss
  | @altL a c b s' b' hs ih =>
    intro h hok x h1 h2 hn i hat s hss
    simp only [Sk.size] at h2
    simp only [Lay] at h
    simp only [Sk.ok, Bool.and_eq_true] at hok
    obtain ⟨h0, ha, hj, hc⟩ := h
    have hr := hs.range
    by_cases hx0 : x = b
    · subst hx0; have := at_inj h0 hat; subst this
      simp only [allSuccs, List.mem_cons, List.not_mem_nil, or_false] at hss
      omega
    · by_cases hx1 : x < b + 1 + a.size
      · exact ih ha hok.1 x (by omega) hx1 hn i hat s hss
      · by_cases hx2 : x = b + a.size + 1
        · subst hx2; have := at_inj hj hat; subst this
          simp only [allSuccs, List.mem_cons, List.not_mem_nil, or_false] at hss
          omega
        · have := Lay.succ_in hc hok.2 x (by omega) (by omega) i hat s hss; omega
  | @altR a c b s' b' hs ih =>
    intro h hok x h1 h2 hn i hat s hss
    simp only [Sk.size] at h2
    simp only [Lay] at h
    simp only [Sk.ok, Bool.and_eq_true] at hok
    obtain ⟨h0, ha, hj, hc⟩ := h
    have hr := hs.range
    by_cases hx0 : x = b
    · subst hx0; have := at_inj h0 hat; subst this
      simp only [allSuccs, List.mem_cons, List.not_mem_nil, or_false] at hss
      omega
    · by_cases hx1 : x < b + 1 + a.size
      · have := Lay.succ_in ha hok.1 x (by omega) hx1 i hat s hss; omega
      · by_cases hx2 : x = b + a.size + 1
        · subst hx2; have := at_inj hj hat; subst this
          simp only [allSuccs, List.mem_cons, List.not_mem_nil, or_false] at hss
          omega
        · exact ih hc hok.2 x (by omega) (by omega) hn i hat s hss
  | @loop id mn mx gr g0 cnt body b s' b' hs ih =>
    intro h hok x h1 h2 hn i hat s hss
    simp only [Sk.size] at h2
    simp only [Lay] at h
    simp only [Sk.ok, Bool.and_eq_true] at hok
    obtain ⟨h0, hr', hb, hl⟩ := h
    have hr := hs.range
    by_cases hx0 : x = b
    · subst hx0; have := at_inj h0 hat; subst this
      simp only [allSuccs, List.mem_cons, List.not_mem_nil, or_false] at hss
      omega
    · by_cases hx1 : x < b + 1 + cnt
      · have := hr' (x - (b + 1)) (by omega)
        rw [show b + 1 + (x - (b + 1)) = x by omega] at this
        have := at_inj this hat; subst this
        simp only [allSuccs, List.mem_cons, List.not_mem_nil, or_false] at hss
        omega
      · by_cases hx2 : x < b + 1 + cnt + body.size
        · exact ih hb hok.2 x (by omega) hx2 hn i hat s hss
        · have : x = b + 1 + cnt + body.size := by omega
          subst this; have := at_inj hl hat; subst this
          unfold At at h0
          simp only [allSuccs, h0, List.mem_cons, List.not_mem_nil, or_false] at hss
          omega
  | @group g body b s' b' hs ih =>
    intro h hok x h1 h2 hn i hat s hss
    simp only [Sk.size] at h2
    simp only [Lay] at h
    simp only [Sk.ok, Bool.and_eq_true] at hok
    obtain ⟨h0, hb, hl⟩ := h
    have hr := hs.range
    by_cases hx0 : x = b
    · subst hx0; have := at_inj h0 hat; subst this
      simp only [allSuccs, List.mem_cons, List.not_mem_nil, or_false] at hss
      omega
    · by_cases hx2 : x < b + 1 + body.size
      · exact ih hb hok.2 x (by omega) hx2 hn i hat s hss
      · have : x = b + 1 + body.size := by omega
        subst this; have := at_inj hl hat; subst this
        simp only [allSuccs, List.mem_cons, List.not_mem_nil, or_false] at hss
        omega
  | @look neg bw sg eg body b s' b' hs ih =>
    intro h hok x h1 h2 hn i hat s hss
    simp only [Sk.size] at h2
    simp only [Lay] at h
    simp only [Sk.ok, Bool.and_eq_true] at hok
    obtain ⟨h0, hb, hl⟩ := h
    have hr := hs.range
    by_cases hx0 : x = b
    · subst hx0; have := at_inj h0 hat; subst this
      cases bw <;> simp only [lookI, allSuccs, Bool.false_eq_true, if_false, if_true, List.mem_cons,
        List.not_mem_nil, or_false] at hss <;> omega
    · by_cases hx2 : x < b + 1 + body.size
      · exact ih hb hok.2 x (by omega) hx2 hn i hat s hss
      · have : x = b + 1 + body.size := by omega
        subst this; have := at_inj hl hat; subst this
        simp [allSuccs] at hss

/-! ## Role inversions -/

section Inv
variable {I : Array Insn} {G nb L : Nat} {sk : Sk} {b : Nat} (hl : Lay I sk b) (hok : sk.ok G nb L = true)
include hl hok

theorem Sub.one_plain {i : Insn} {b' : Nat} (h : Sub sk b (.one i) b') : plain i = true := by
  have := h.ok hok; simp only [Sk.ok, Bool.and_eq_true] at this; exact this.1

theorem Sub.l1_plain {mn : Nat} {mx : Option Nat} {gr : Bool} {body : Insn} {b' : Nat}
    (h : Sub sk b (.loop1 mn mx gr body) b') : plain body = true := by
  have := h.ok hok; simp only [Sk.ok, Bool.and_eq_true] at this; exact this.1.1.1.2

/-- A `LoopAgain` instruction closes a loop occurrence. -/
theorem Lay.again_inv {x e0 : Nat} (h1 : b ≤ x) (h2 : x < b + sk.size) (hat : At I x (.loopAgain e0)) :
    ∃ id mn mx gr g0 cnt body, Sub sk b (.loop id mn mx gr g0 cnt body) e0 ∧ x = e0 + 1 + cnt + body.size := by
  have hr := hl.role x h1 h2 _ hat
  generalize hi : Insn.loopAgain e0 = i at hr
  cases hr with
  | one h => have := Sub.one_plain hl hok h; subst hi; cases this
  | l1Body h _ => have := Sub.l1_plain hl hok h; subst hi; cases this
  | loopAgain h hx => cases hi; exact ⟨_, _, _, _, _, _, _, h, hx⟩
  | altHead _ => cases hi
  | altJump _ _ => cases hi
  | loopHead _ => cases hi
  | loopReset _ _ _ => cases hi
  | l1Head _ => cases hi
  | grpBegin _ => cases hi
  | grpEnd _ _ => cases hi
  | lookHead h => rename_i neg bw sg eg body; cases bw <;> cases hi
  | lookGoal _ _ => cases hi

/-- An `EnterLoop` instruction opens a loop occurrence. -/
theorem Lay.enter_inv {x id mn : Nat} {mx : Option Nat} {gr : Bool} {ex : Nat} (h1 : b ≤ x)
    (h2 : x < b + sk.size) (hat : At I x (.enterLoop id mn mx gr ex)) :
    ∃ g0 cnt body, Sub sk b (.loop id mn mx gr g0 cnt body) x ∧ ex = x + cnt + body.size + 2 := by
  have hr := hl.role x h1 h2 _ hat
  generalize hi : Insn.enterLoop id mn mx gr ex = i at hr
  cases hr with
  | one h => have := Sub.one_plain hl hok h; subst hi; cases this
  | l1Body h _ => have := Sub.l1_plain hl hok h; subst hi; cases this
  | loopHead h => cases hi; exact ⟨_, _, _, h, rfl⟩
  | altHead _ => cases hi
  | altJump _ _ => cases hi
  | loopAgain _ _ => cases hi
  | loopReset _ _ _ => cases hi
  | l1Head _ => cases hi
  | grpBegin _ => cases hi
  | grpEnd _ _ => cases hi
  | lookHead h => rename_i neg bw sg eg body; cases bw <;> cases hi
  | lookGoal _ _ => cases hi

/-- A look-around instruction opens a look-around occurrence. -/
theorem Lay.look_inv {x : Nat} {i : Insn} {sg eg k : Nat} (h1 : b ≤ x) (h2 : x < b + sk.size)
    (hat : At I x i) (hlk : Bt.lookOf i = some (sg, eg, k)) :
    ∃ neg bw body, Sub sk b (.look neg bw sg eg body) x ∧ k = x + body.size + 2 ∧
      i = lookI neg bw sg eg k := by
  have hr := hl.role x h1 h2 _ hat
  cases hr with
  | one h => have := Sub.one_plain hl hok h; cases i <;> simp [plain] at this <;> simp [Bt.lookOf] at hlk
  | l1Body h _ => have := Sub.l1_plain hl hok h; cases i <;> simp [plain] at this <;> simp [Bt.lookOf] at hlk
  | lookHead h =>
    rename_i neg bw sg' eg' body
    cases bw <;> simp only [lookI, Bool.false_eq_true, if_false, if_true, Bt.lookOf, Option.some.injEq,
      Prod.mk.injEq] at hlk <;> obtain ⟨rfl, rfl, rfl⟩ := hlk
    · exact ⟨neg, false, body, h, rfl, rfl⟩
    · exact ⟨neg, true, body, h, rfl, rfl⟩
  | altHead _ => simp [Bt.lookOf] at hlk
  | altJump _ _ => simp [Bt.lookOf] at hlk
  | loopHead _ => simp [Bt.lookOf] at hlk
  | loopAgain _ _ => simp [Bt.lookOf] at hlk
  | loopReset _ _ _ => simp [Bt.lookOf] at hlk
  | l1Head _ => simp [Bt.lookOf] at hlk
  | grpBegin _ => simp [Bt.lookOf] at hlk
  | grpEnd _ _ => simp [Bt.lookOf] at hlk
  | lookGoal _ _ => simp [Bt.lookOf] at hlk

end Inv

/-! ## Loop ids -/

theorem Sub.mem_lids {sk : Sk} {b : Nat} {id mn : Nat} {mx : Option Nat} {gr : Bool} {g0 cnt : Nat} {body : Sk}
    {b' : Nat} (h : Sub sk b (.loop id mn mx gr g0 cnt body) b') : id ∈ sk.lids := by
  generalize hs : Sk.loop id mn mx gr g0 cnt body = s' at h
  induction h with
  | refl => subst hs; simp [Sk.lids]
  | seqL _ ih => simp [Sk.lids, ih hs]
  | seqR _ ih => simp [Sk.lids, ih hs]
  | altL _ ih => simp [Sk.lids, ih hs]
  | altR _ ih => simp [Sk.lids, ih hs]
  | loop _ ih => simp [Sk.lids, ih hs]
  | group _ ih => simp [Sk.lids, ih hs]
  | look _ ih => simp [Sk.lids, ih hs]

/-- **Loop ids are unique**: two loop occurrences with the same id are the same occurrence. -/
theorem Sub.loop_unique : ∀ {sk : Sk} {b : Nat} {id mn1 mn2 : Nat} {mx1 mx2 : Option Nat} {gr1 gr2 : Bool}
    {g1 g2 c1 c2 : Nat} {body1 body2 : Sk} {b1 b2 : Nat}, sk.lids.Nodup →
    Sub sk b (.loop id mn1 mx1 gr1 g1 c1 body1) b1 → Sub sk b (.loop id mn2 mx2 gr2 g2 c2 body2) b2 →
    b1 = b2 ∧ Sk.loop id mn1 mx1 gr1 g1 c1 body1 = Sk.loop id mn2 mx2 gr2 g2 c2 body2 := by
  intro sk
  induction sk with
  | nil => intro _ _ _ _ _ _ _ _ _ _ _ _ _ _ _ _ _ h1 _; rcases h1.inv with ⟨h, _⟩ | h <;> first | cases h | exact h.elim
  | one i => intro _ _ _ _ _ _ _ _ _ _ _ _ _ _ _ _ _ h1 _; rcases h1.inv with ⟨h, _⟩ | h <;> first | cases h | exact h.elim
  | loop1 _ _ _ _ =>
    intro _ _ _ _ _ _ _ _ _ _ _ _ _ _ _ _ _ h1 _; rcases h1.inv with ⟨h, _⟩ | h <;> first | cases h | exact h.elim
  | seq a c iha ihc =>
    intro b id mn1 mn2 mx1 mx2 gr1 gr2 g1 g2 c1 c2 body1 body2 b1 b2 hnd h1 h2
    simp only [Sk.lids] at hnd
    have hnd' := List.nodup_append.1 hnd
    rcases h1.inv with ⟨h, _⟩ | h1
    · cases h
    rcases h2.inv with ⟨h, _⟩ | h2
    · cases h
    rcases h1 with h1 | h1 <;> rcases h2 with h2 | h2
    · exact iha hnd'.1 h1 h2
    · exact absurd rfl (hnd'.2.2 _ h1.mem_lids _ h2.mem_lids)
    · exact absurd rfl (hnd'.2.2 _ h2.mem_lids _ h1.mem_lids)
    · exact ihc hnd'.2.1 h1 h2
  | alt a c iha ihc =>
    intro b id mn1 mn2 mx1 mx2 gr1 gr2 g1 g2 c1 c2 body1 body2 b1 b2 hnd h1 h2
    simp only [Sk.lids] at hnd
    have hnd' := List.nodup_append.1 hnd
    rcases h1.inv with ⟨h, _⟩ | h1
    · cases h
    rcases h2.inv with ⟨h, _⟩ | h2
    · cases h
    rcases h1 with h1 | h1 <;> rcases h2 with h2 | h2
    · exact iha hnd'.1 h1 h2
    · exact absurd rfl (hnd'.2.2 _ h1.mem_lids _ h2.mem_lids)
    · exact absurd rfl (hnd'.2.2 _ h2.mem_lids _ h1.mem_lids)
    · exact ihc hnd'.2.1 h1 h2
  | loop id' mn mx gr g0 cnt body ih =>
    intro b id mn1 mn2 mx1 mx2 gr1 gr2 g1 g2 c1 c2 body1 body2 b1 b2 hnd h1 h2
    simp only [Sk.lids, List.nodup_cons] at hnd
    rcases h1.inv with ⟨h, hb1⟩ | h1
    · cases h
      rcases h2.inv with ⟨h, hb2⟩ | h2
      · cases h; exact ⟨by omega, rfl⟩
      · exact absurd h2.mem_lids hnd.1
    · rcases h2.inv with ⟨h, hb2⟩ | h2
      · cases h; exact absurd h1.mem_lids hnd.1
      · exact ih hnd.2 h1 h2
  | group g body ih =>
    intro b id mn1 mn2 mx1 mx2 gr1 gr2 g1 g2 c1 c2 body1 body2 b1 b2 hnd h1 h2
    simp only [Sk.lids] at hnd
    rcases h1.inv with ⟨h, _⟩ | h1
    · cases h
    rcases h2.inv with ⟨h, _⟩ | h2
    · cases h
    exact ih hnd h1 h2
  | look neg bw sg eg body ih =>
    intro b id mn1 mn2 mx1 mx2 gr1 gr2 g1 g2 c1 c2 body1 body2 b1 b2 hnd h1 h2
    simp only [Sk.lids] at hnd
    rcases h1.inv with ⟨h, _⟩ | h1
    · cases h
    rcases h2.inv with ⟨h, _⟩ | h2
    · cases h
    exact ih hnd h1 h2

/-! ## `Sim.live` -/

section Live
open Regress.VM.Sim
variable {prog : Prog} {G nb L : Nat} {sk : Sk} (hl : Lay prog.insns sk 0) (hsz : prog.insns.size = sk.size)
  (hok : sk.ok G nb L = true)
include hl hsz hok

/-- The loop triples of the program are the loop occurrences of the root skeleton. -/
theorem mem_loopTriples {id e l : Nat} : (id, e, l) ∈ loopTriples prog ↔
    ∃ mn mx gr g0 cnt body, Sub sk 0 (.loop id mn mx gr g0 cnt body) e ∧ l = e + 1 + cnt + body.size := by
  simp only [loopTriples, List.mem_filterMap, List.mem_range]
  constructor
  · rintro ⟨l', hl', hm⟩
    cases hi : prog.insns[l']? with
    | none => simp [hi] at hm
    | some i =>
      cases i with
      | loopAgain e' =>
        simp only [hi] at hm
        cases he : prog.insns[e']? with
        | none => simp [he] at hm
        | some j =>
          cases j with
          | enterLoop id' mn mx gr ex =>
            simp only [he, Option.some.injEq, Prod.mk.injEq] at hm
            obtain ⟨rfl, rfl, rfl⟩ := hm
            obtain ⟨id2, mn2, mx2, gr2, g0, cnt, body, hs, hx⟩ :=
              Lay.again_inv hl hok (Nat.zero_le _) (by omega) hi
            have := (Sub.loop_at hl hs).1
            have := at_inj this he
            cases this
            exact ⟨_, _, _, _, _, _, hs, hx⟩
          | _ => simp [he] at hm
      | _ => simp [hi] at hm
  · rintro ⟨mn, mx, gr, g0, cnt, body, hs, rfl⟩
    obtain ⟨h1, _, h3⟩ := Sub.loop_at hl hs
    unfold At at h1 h3
    exact ⟨_, lt_of_getElem?_eq_some h3, by simp [h3, h1]⟩

/-- `live prog id x`: `x` lies in the body `(e, l]` of the loop occurrence with id `id`. -/
theorem live_iff {id x : Nat} : live prog id x = true ↔
    ∃ e mn mx gr g0 cnt body, Sub sk 0 (.loop id mn mx gr g0 cnt body) e ∧ e < x ∧ x ≤ e + 1 + cnt + body.size := by
  simp only [live, List.any_eq_true, Bool.and_eq_true, beq_iff_eq, decide_eq_true_eq]
  constructor
  · rintro ⟨⟨id', e, l⟩, hm, ⟨rfl, h1⟩, h2⟩
    obtain ⟨mn, mx, gr, g0, cnt, body, hs, rfl⟩ := (mem_loopTriples hl hsz hok).1 hm
    exact ⟨e, mn, mx, gr, g0, cnt, body, hs, h1, h2⟩
  · rintro ⟨e, mn, mx, gr, g0, cnt, body, hs, h1, h2⟩
    exact ⟨(id, e, e + 1 + cnt + body.size), (mem_loopTriples hl hsz hok).2 ⟨_, _, _, _, _, _, hs, rfl⟩,
      ⟨rfl, h1⟩, h2⟩

theorem mem_loopIds {id : Nat} : id ∈ loopIds prog ↔
    ∃ e mn mx gr g0 cnt body, Sub sk 0 (.loop id mn mx gr g0 cnt body) e := by
  simp only [loopIds, List.mem_map]
  constructor
  · rintro ⟨⟨id', e, l⟩, hm, rfl⟩
    obtain ⟨mn, mx, gr, g0, cnt, body, hs, _⟩ := (mem_loopTriples hl hsz hok).1 hm
    exact ⟨e, mn, mx, gr, g0, cnt, body, hs⟩
  · rintro ⟨e, mn, mx, gr, g0, cnt, body, hs⟩
    exact ⟨(id, e, e + 1 + cnt + body.size), (mem_loopTriples hl hsz hok).2 ⟨_, _, _, _, _, _, hs, rfl⟩, rfl⟩

end Live

end Regress.Certs
