import Proofs.Lemmas.LowerStringsI
import Proofs.Lemmas.LowerIcaseV
/-!
# ES specification ⇒ IR semantics: `v`-mode class set expressions with `\q{…}` strings under `i`

The recursion of `Proofs/Lemmas/LowerIcaseV.lean` carrying the strings.  The specification folds
every ClassString (`MaybeSimpleCaseFolding`: code point-wise `scf`); the crate keeps the strings as
written while it forms unions and folds them with `unicode::fold` (`ClassSetAlternativeStrings::fold`
in `close_class_set_operand`) before `&&` / `--`.

* `VSRDen A s` — `s.cps` denotes `A.chars` up to folding (`RDen`), and `A.strs` are the `scf`-images
  of `s.alts`;
* `VSCDen A s` — the same for a closed operand: `s.cps` is closed (`CDen`) and every string of
  `s.alts` is its own `fold`-image, which makes `a ↦ a.map scf` injective on `s.alts`, so that the
  crate's `filter`s by string equality compute the specification's intersection / difference.
-/
namespace Regress.Lower

open Regress Regress.IR Regress.VM Regress.Parse Regress.CPS Regress.Fold

/-! ## `fold` and `scf` on strings -/

theorem map_rep_fold : ∀ a : List Nat, (a.map fold).map C10.scfRep = a.map C10.scfRep
  | [] => rfl
  | x :: a => by simp only [List.map_cons, C10.scfRep_fold, map_rep_fold a]

theorem map_fold_fold : ∀ a : List Nat, (a.map fold).map fold = a.map fold
  | [] => rfl
  | x :: a => by simp only [List.map_cons, C10.fold_idempotent, map_fold_fold a]

theorem map_rep_rep : ∀ a : List Nat, (a.map C10.scfRep).map C10.scfRep = a.map C10.scfRep
  | [] => rfl
  | x :: a => by simp only [List.map_cons, scfRep_idem, map_rep_rep a]

theorem map_fold_of_map_rep : ∀ (a b : List Nat), a.map C10.scfRep = b.map C10.scfRep → a.map fold = b.map fold
  | [], [], _ => rfl
  | [], _ :: _, h => by simp at h
  | _ :: _, [], h => by simp at h
  | x :: a, y :: b, h => by
    simp only [List.map_cons, List.cons.injEq] at h ⊢
    exact ⟨(same_class_iff x y).2 h.1, map_fold_of_map_rep a b h.2⟩

/-- two `fold`-normal strings with the same `scf`-image are equal -/
theorem normal_inj {a b : List Nat} (ha : a.map fold = a) (hb : b.map fold = b)
    (h : a.map C10.scfRep = b.map C10.scfRep) : a = b := by
  rw [← ha, ← hb]; exact map_fold_of_map_rep a b h

theorem mem_foldAlts (alts : List (List Nat)) (t : List Nat) :
    t ∈ foldAlternativeStrings alts ↔ ∃ a ∈ alts, a.map fold = t := by
  unfold foldAlternativeStrings
  have hstep : ∀ (acc : List (List Nat)) (y : List Nat),
      t ∈ (if !acc.contains y then acc ++ [y] else acc) ↔ t ∈ acc ∨ t = y := by
    intro acc y
    by_cases hc : acc.contains y = true
    · simp only [hc, Bool.not_true, Bool.false_eq_true, if_false]
      constructor
      · exact Or.inl
      · rintro (h | h)
        · exact h
        · subst h; simpa using hc
    · have hf : acc.contains y = false := by simpa using hc
      simp only [hf, Bool.not_false, if_true, List.mem_append, List.mem_singleton]
  have : ∀ (l acc : List (List Nat)),
      t ∈ l.foldl (fun folded string =>
        if !folded.contains (string.map fold) then folded ++ [string.map fold] else folded) acc ↔
      t ∈ acc ∨ ∃ a ∈ l, a.map fold = t := by
    intro l
    induction l with
    | nil => intro acc; simp
    | cons x xs ih =>
      intro acc
      simp only [List.foldl_cons, ih, hstep, List.mem_cons]
      constructor
      · rintro ((h | h) | ⟨a, ha, h⟩)
        · exact Or.inl h
        · exact Or.inr ⟨x, Or.inl rfl, h.symm⟩
        · exact Or.inr ⟨a, Or.inr ha, h⟩
      · rintro (h | ⟨a, rfl | ha, h⟩)
        · exact Or.inl (Or.inl h)
        · exact Or.inl (Or.inr h.symm)
        · exact Or.inr ⟨a, ha, h⟩
  simpa using this alts []

/-! ## The two denotations -/

/-- folded CharSet with strings against a `ClassSet` as written -/
structure VSRDen (A : ES.CharSet) (s : ClassSet) : Prop where
  den : RDen A.chars s.cps
  srel : ∀ t, t ∈ A.strs ↔ ∃ a ∈ s.alts, a.map C10.scfRep = t
  len1 : ∀ a ∈ s.alts, a.length ≠ 1
  ns : s.mayContainStrings = false → s.alts = []

/-- the same for a closed `ClassSet` -/
structure VSCDen (A : ES.CharSet) (s : ClassSet) : Prop where
  den : CDen A.chars s.cps
  srel : ∀ t, t ∈ A.strs ↔ ∃ a ∈ s.alts, a.map C10.scfRep = t
  len1 : ∀ a ∈ s.alts, a.length ≠ 1
  ns : s.mayContainStrings = false → s.alts = []
  normal : ∀ a ∈ s.alts, a.map fold = a

theorem VSCDen.vsrden {A : ES.CharSet} {s : ClassSet} (h : VSCDen A s) : VSRDen A s :=
  ⟨h.den.rden, h.srel, h.len1, h.ns⟩

theorem srel_strs_nil {A : ES.CharSet} {alts : List (List Nat)}
    (h : ∀ t, t ∈ A.strs ↔ ∃ a ∈ alts, a.map C10.scfRep = t) (ha : alts = []) : A.strs = [] := by
  cases hs : A.strs with
  | nil => rfl
  | cons a t =>
    obtain ⟨b, hb, _⟩ := (h a).1 (by rw [hs]; simp)
    rw [ha] at hb; cases hb

theorem VSRDen.vrden {A : ES.CharSet} {s : ClassSet} (h : VSRDen A s) (ha : s.alts = []) : VRDen A s :=
  ⟨h.den, srel_strs_nil h.srel ha, ha⟩

def OpSRDen (A : ES.CharSet) : Operand → Prop
  | .char c => c ≤ 0x10FFFF ∧ (∀ x, A.chars x = (x == C10.scfRep c)) ∧ A.strs = []
  | .esc cps => RDen A.chars cps ∧ A.strs = []
  | .cls s => VSRDen A s
  | .strs _ => False

def OpSCDen (A : ES.CharSet) : Operand → Prop
  | .esc cps => CDen A.chars cps ∧ A.strs = []
  | .cls s => VSCDen A s
  | _ => False

theorem vsrden_empty : VSRDen ES.CharSet.empty ({} : ClassSet) :=
  ⟨rden_empty, fun _ => by simp [ES.CharSet.empty], fun _ h => absurd h (by simp), fun _ => rfl⟩

theorem vsrden_unionOperand {A B : ES.CharSet} {s : ClassSet} {op : Operand} (hs : VSRDen A s)
    (ho : OpSRDen B op) : VSRDen (A.union B) (s.unionOperand op) := by
  cases op with
  | char c =>
    obtain ⟨hc, hb, hbs⟩ := ho
    refine ⟨?_, fun t => ?_, hs.len1, hs.ns⟩
    · have := rden_or_of_mem hs.den (rden_single hc) (C12.addOne_wf hs.den.1 hc) (fun x => by
        rw [C12.addOne_mem hs.den.1 hc, mem_single_iff])
      exact this.congr (fun x => by simp [ES.CharSet.union, hb])
    · rw [mem_union_strs, hbs]; simpa [ClassSet.unionOperand] using hs.srel t
  | esc cps =>
    refine ⟨(rden_union hs.den ho.1).congr (fun x => by simp [ES.CharSet.union]), fun t => ?_, hs.len1, hs.ns⟩
    rw [mem_union_strs, ho.2]; simpa [ClassSet.unionOperand] using hs.srel t
  | cls c =>
    refine ⟨(rden_union hs.den ho.den).congr (fun x => by simp [ES.CharSet.union]), fun t => ?_, ?_, ?_⟩
    · rw [mem_union_strs, hs.srel, ho.srel]
      simp only [ClassSet.unionOperand, List.mem_append]
      constructor
      · rintro (⟨a, ha, h⟩ | ⟨a, ha, h⟩)
        · exact ⟨a, Or.inl ha, h⟩
        · exact ⟨a, Or.inr ha, h⟩
      · rintro ⟨a, ha | ha, h⟩
        · exact Or.inl ⟨a, ha, h⟩
        · exact Or.inr ⟨a, ha, h⟩
    · intro str h
      simp only [ClassSet.unionOperand, List.mem_append] at h
      rcases h with h | h
      · exact hs.len1 str h
      · exact ho.len1 str h
    · intro h
      simp only [ClassSet.unionOperand, Bool.or_eq_false_iff] at h
      simp [ClassSet.unionOperand, hs.ns h.1, ho.ns h.2]
  | strs _ => exact ho.elim

theorem vsrden_assoc {A B C : ES.CharSet} {r : ClassSet} (h : VSRDen ((A.union B).union C) r) :
    VSRDen (A.union (B.union C)) r :=
  ⟨h.den.congr (fun x => by simp [ES.CharSet.union, Bool.or_assoc]),
    fun t => by rw [← h.srel, mem_union_strs, mem_union_strs, mem_union_strs, mem_union_strs, or_assoc],
    h.len1, h.ns⟩

/-- `close_class_set_operand` under `i` -/
theorem opSCDen_close {A : ES.CharSet} {op : Operand} (h : OpSRDen A op) :
    OpSCDen A (closeClassSetOperand true op) := by
  cases op with
  | char c =>
    obtain ⟨hc, hb, hs⟩ := h
    simp only [closeClassSetOperand, Bool.not_true, Bool.false_eq_true, if_false, OpSCDen]
    refine ⟨?_, hs⟩
    have h1 : RDen A.chars (addOne [] c) := by
      have := rden_or_of_mem rden_empty (rden_single hc) (C12.addOne_wf (s := []) trivial hc) (fun x => by
        rw [C12.addOne_mem (s := []) trivial hc, mem_single_iff])
      exact this.congr (fun x => by simp [hb])
    exact h1.closure
  | esc cps =>
    simp only [closeClassSetOperand, Bool.not_true, Bool.false_eq_true, if_false, OpSCDen]
    exact ⟨h.1.closure, h.2⟩
  | cls s =>
    simp only [closeClassSetOperand, Bool.not_true, Bool.false_eq_true, if_false, OpSCDen]
    refine ⟨h.den.closure, fun t => ?_, ?_, ?_, ?_⟩
    · rw [h.srel]
      constructor
      · rintro ⟨a, ha, hat⟩
        exact ⟨a.map fold, (mem_foldAlts _ _).2 ⟨a, ha, rfl⟩, by rw [map_rep_fold]; exact hat⟩
      · rintro ⟨b, hb, hbt⟩
        obtain ⟨a, ha, rfl⟩ := (mem_foldAlts _ _).1 hb
        exact ⟨a, ha, by rw [← hbt, map_rep_fold]⟩
    · intro b hb
      obtain ⟨a, ha, rfl⟩ := (mem_foldAlts _ _).1 hb
      simpa using h.len1 a ha
    · intro hf
      have := h.ns hf
      show foldAlternativeStrings s.alts = []
      rw [this]; rfl
    · intro b hb
      obtain ⟨a, ha, rfl⟩ := (mem_foldAlts _ _).1 hb
      exact map_fold_fold a
  | strs _ => exact h.elim

theorem vscden_first {B : ES.CharSet} {op : Operand} (ho : OpSCDen B op) :
    VSCDen B (({} : ClassSet).unionOperand op) := by
  cases op with
  | esc cps =>
    exact ⟨(cden_union cden_empty ho.1).congr (fun x => by simp), fun t => by rw [ho.2]; simp [ClassSet.unionOperand],
      fun a h => by simp [ClassSet.unionOperand] at h, fun _ => rfl,
      fun a h => by simp [ClassSet.unionOperand] at h⟩
  | cls c =>
    refine ⟨(cden_union cden_empty ho.den).congr (fun x => by simp), fun t => ?_, ?_, ?_, ?_⟩
    · rw [ho.srel]; simp [ClassSet.unionOperand]
    · intro a h
      simp only [ClassSet.unionOperand, List.nil_append] at h
      exact ho.len1 a h
    · intro h
      simp only [ClassSet.unionOperand, Bool.false_or] at h
      simp [ClassSet.unionOperand, ho.ns h]
    · intro a h
      simp only [ClassSet.unionOperand, List.nil_append] at h
      exact ho.normal a h
  | char _ => exact ho.elim
  | strs _ => exact ho.elim

theorem vscden_intersectOperand {A B : ES.CharSet} {s : ClassSet} {op : Operand} (hs : VSCDen A s)
    (ho : OpSCDen B op) : VSCDen (A.inter B) (s.intersectOperand op) := by
  cases op with
  | esc cps =>
    have h2 := filter_singleSat_nil s.alts (CPS.contains cps) hs.len1
    refine ⟨(cden_inter hs.den ho.1).congr (fun x => by simp [ES.CharSet.inter]), fun t => ?_, ?_, ?_, ?_⟩
    · simp [ES.CharSet.inter, ho.2, ClassSet.intersectOperand, h2]
    · intro a h; simp [ClassSet.intersectOperand, h2] at h
    · intro _; simp [ClassSet.intersectOperand, h2]
    · intro a h; simp [ClassSet.intersectOperand, h2] at h
  | cls c =>
    have h1 := collectSingles_no_singles c.alts s.cps ho.len1
    have h2 := filter_singleSat_nil s.alts (CPS.contains c.cps) hs.len1
    refine ⟨?_, fun t => ?_, ?_, ?_, ?_⟩
    · simp only [ClassSet.intersectOperand, h1]
      exact (cden_union (cden_inter hs.den ho.den) cden_empty).congr (fun x => by simp [ES.CharSet.inter])
    · simp only [ES.CharSet.inter, ClassSet.intersectOperand, h2, List.append_nil, List.mem_filter,
        List.contains_eq_mem, decide_eq_true_eq, hs.srel, ho.srel]
      constructor
      · rintro ⟨⟨a, ha, hat⟩, ⟨b, hb, hbt⟩⟩
        have : a = b := normal_inj (hs.normal a ha) (ho.normal b hb) (by rw [hat, hbt])
        subst this
        exact ⟨a, ⟨ha, hb⟩, hat⟩
      · rintro ⟨a, ⟨ha, hb⟩, hat⟩
        exact ⟨⟨a, ha, hat⟩, ⟨a, hb, hat⟩⟩
    · intro str h
      simp only [ClassSet.intersectOperand, h2, List.append_nil, List.mem_filter] at h
      exact hs.len1 str h.1
    · intro h
      simp only [ClassSet.intersectOperand, Bool.and_eq_false_iff] at h
      simp only [ClassSet.intersectOperand, h2, List.append_nil]
      rcases h with h | h
      · rw [hs.ns h]; rfl
      · rw [ho.ns h]; simp
    · intro str h
      simp only [ClassSet.intersectOperand, h2, List.append_nil, List.mem_filter] at h
      exact hs.normal str h.1
  | char _ => exact ho.elim
  | strs _ => exact ho.elim

theorem vscden_subtractOperand {A B : ES.CharSet} {s : ClassSet} {op : Operand} (hs : VSCDen A s)
    (ho : OpSCDen B op) : VSCDen (A.sub B) (s.subtractOperand op) := by
  cases op with
  | esc cps =>
    have h2 := filter_singleSat_nil s.alts (CPS.contains cps) hs.len1
    refine ⟨(cden_sub hs.den ho.1).congr (fun x => by simp [ES.CharSet.sub]), fun t => ?_, ?_,
      fun h => by rw [show (s.subtractOperand (.esc cps)).alts = s.alts.filter _ from rfl, hs.ns h]; rfl, ?_⟩
    · simp [ES.CharSet.sub, ho.2, ClassSet.subtractOperand, h2, hs.srel]
    · intro str h
      simp only [ClassSet.subtractOperand, h2, List.mem_filter] at h
      exact hs.len1 str h.1
    · intro str h
      simp only [ClassSet.subtractOperand, h2, List.mem_filter] at h
      exact hs.normal str h.1
  | cls c =>
    have h1 := collectSingles_no_singles c.alts s.cps ho.len1
    have h2 := filter_singleSat_nil s.alts (CPS.contains c.cps) hs.len1
    refine ⟨?_, fun t => ?_, ?_, fun h => by
      rw [show (s.subtractOperand (.cls c)).alts = (s.alts.filter _).filter _ from rfl, hs.ns h]; rfl, ?_⟩
    · simp only [ClassSet.subtractOperand, h1]
      exact (cden_sub (cden_sub hs.den cden_empty) ho.den).congr (fun x => by simp [ES.CharSet.sub])
    · simp only [ES.CharSet.sub, ClassSet.subtractOperand, h2, List.mem_filter, List.contains_nil,
        Bool.not_false, and_true, List.contains_eq_mem, Bool.not_eq_true', decide_eq_false_iff_not, hs.srel,
        ho.srel, List.not_mem_nil, not_false_eq_true]
      constructor
      · rintro ⟨⟨a, ha, hat⟩, hnb⟩
        exact ⟨a, ⟨ha, fun hb => hnb ⟨a, hb, hat⟩⟩, hat⟩
      · rintro ⟨a, ⟨ha, hna⟩, hat⟩
        refine ⟨⟨a, ha, hat⟩, ?_⟩
        rintro ⟨b, hb, hbt⟩
        have : a = b := normal_inj (hs.normal a ha) (ho.normal b hb) (by rw [hat, hbt])
        subst this
        exact hna hb
    · intro str h
      simp only [ClassSet.subtractOperand, h2, List.mem_filter] at h
      exact hs.len1 str h.1.1
    · intro str h
      simp only [ClassSet.subtractOperand, h2, List.mem_filter] at h
      exact hs.normal str h.1.1
  | char _ => exact ho.elim
  | strs _ => exact ho.elim

/-! ## `\q{…}` -/

section
variable {rer : ES.RER} (hic : rer.ignoreCase = true) (hus : rer.unicodeSets = true)
include hic hus

theorem msf_single_i (cp x : Nat) :
    (ES.maybeSimpleCaseFolding rer (ES.CharSet.single cp)).chars x = (x == C10.scfRep cp) := by
  apply bool_eq_of_iff
  rw [msf_chars_iff hic hus]
  simp only [ES.CharSet.single, beq_iff_eq]
  constructor
  · rintro ⟨_, b, hb, rfl⟩; exact hb.symm
  · intro h; subst h; exact ⟨scfRep_idem cp, cp, rfl, rfl⟩

theorem msf_strs_nil_i (X : ES.CharSet) (h : X.strs = []) : (ES.maybeSimpleCaseFolding rer X).strs = [] := by
  simp [ES.maybeSimpleCaseFolding, hic, hus, h]

theorem msf_long_chars {a : List Nat} (h : a.length ≠ 1) (x : Nat) :
    (ES.maybeSimpleCaseFolding rer (ES.CharSet.ofString a)).chars x = false := by
  cases hx : (ES.maybeSimpleCaseFolding rer (ES.CharSet.ofString a)).chars x with
  | false => rfl
  | true =>
    obtain ⟨_, b, _, hb⟩ := (msf_chars_iff hic hus _ x).1 hx
    rw [ofString_long_chars h] at hb; cases hb

theorem msf_long_strs {a : List Nat} (h : a.length ≠ 1) :
    (ES.maybeSimpleCaseFolding rer (ES.CharSet.ofString a)).strs = [a.map C10.scfRep] := by
  have : ES.scfRep = C10.scfRep := funext es_scfRep_eq
  simp [ES.maybeSimpleCaseFolding, hic, hus, ofString_long_strs h, this, List.eraseDups, List.eraseDupsBy,
    List.eraseDupsBy.loop]

theorem classStringSet_den_i :
    ∀ (strs : List (List Nat)) (acc : ClassSet) (A : ES.CharSet), VSRDen A acc →
      strs.all strOK = true →
      VSRDen (A.union (ES.classStringsCharSet rer strs)) (classStringSet strs acc)
  | [], acc, A, ha, _ => by
    simp only [classStringSet]
    exact ⟨ha.den.congr (fun x => by simp [ES.CharSet.union, ES.classStringsCharSet, ES.CharSet.empty]),
      fun str => by rw [mem_union_strs, ← ha.srel]; simp [ES.classStringsCharSet, ES.CharSet.empty],
      ha.len1, ha.ns⟩
  | a :: rest, acc, A, ha, hok => by
    simp only [List.all_cons, Bool.and_eq_true] at hok
    have hassoc : ∀ (B : ES.CharSet) (r : ClassSet),
        VSRDen ((A.union B).union (ES.classStringsCharSet rer rest)) r →
        B = ES.maybeSimpleCaseFolding rer (ES.CharSet.ofString a) →
        VSRDen (A.union (ES.classStringsCharSet rer (a :: rest))) r := by
      intro B r h hB
      subst hB
      simpa [ES.classStringsCharSet] using vsrden_assoc h
    have hoka := hok.1
    have hlong : a.length ≠ 1 →
        VSRDen (A.union (ES.classStringsCharSet rer (a :: rest)))
          (if !acc.alts.contains a then
            classStringSet rest { acc with alts := acc.alts ++ [a], mayContainStrings := true }
          else classStringSet rest { acc with mayContainStrings := true }) := by
      intro hlen
      have hB := msf_long_chars hic hus hlen
      have hBs := msf_long_strs hic hus hlen
      by_cases hcon : acc.alts.contains a = true
      · simp only [hcon, Bool.not_true, Bool.false_eq_true, if_false]
        have hstep : VSRDen (A.union (ES.maybeSimpleCaseFolding rer (ES.CharSet.ofString a)))
            { acc with mayContainStrings := true } :=
          ⟨ha.den.congr (fun x => by simp [ES.CharSet.union, hB]),
            fun str => by
              rw [mem_union_strs, hBs, ha.srel]
              simp only [List.mem_singleton]
              constructor
              · rintro (h | h)
                · exact h
                · subst h; exact ⟨a, by simpa using hcon, rfl⟩
              · exact Or.inl,
            ha.len1, fun h => by cases h⟩
        exact hassoc _ _ (classStringSet_den_i rest _ _ hstep hok.2) rfl
      · simp only [hcon, Bool.not_false, if_true]
        have hstep : VSRDen (A.union (ES.maybeSimpleCaseFolding rer (ES.CharSet.ofString a)))
            { acc with alts := acc.alts ++ [a], mayContainStrings := true } :=
          ⟨ha.den.congr (fun x => by simp [ES.CharSet.union, hB]),
            fun str => by
              rw [mem_union_strs, hBs, ha.srel]
              simp only [List.mem_singleton, List.mem_append]
              constructor
              · rintro (⟨b, hb, h⟩ | h)
                · exact ⟨b, Or.inl hb, h⟩
                · exact ⟨a, Or.inr rfl, h.symm⟩
              · rintro ⟨b, hb | hb, h⟩
                · exact Or.inl ⟨b, hb, h⟩
                · subst hb; exact Or.inr h.symm,
            fun str h => by
              simp only [List.mem_append, List.mem_singleton] at h
              rcases h with h | h
              · exact ha.len1 str h
              · subst h; exact hlen,
            fun h => by cases h⟩
        exact hassoc _ _ (classStringSet_den_i rest _ _ hstep hok.2) rfl
    cases a with
    | cons c t =>
     cases t with
     | nil =>
      simp only [classStringSet]
      have hc : c ≤ 0x10FFFF := strOK_le hoka (by simp)
      have hstep : VSRDen (A.union (ES.maybeSimpleCaseFolding rer (ES.CharSet.ofString [c])))
          { acc with cps := addOne acc.cps c } := by
        refine ⟨?_, fun str => ?_, ha.len1, ha.ns⟩
        · have := rden_or_of_mem ha.den (rden_single hc) (C12.addOne_wf ha.den.1 hc) (fun x => by
            rw [C12.addOne_mem ha.den.1 hc, mem_single_iff])
          exact this.congr (fun x => by
            simp only [ES.CharSet.union, ES.CharSet.ofString, msf_single_i hic hus])
        · rw [mem_union_strs, ← ha.srel]
          have : (ES.maybeSimpleCaseFolding rer (ES.CharSet.ofString [c])).strs = [] :=
            msf_strs_nil_i hic hus _ rfl
          rw [this]; simp
      exact hassoc _ _ (classStringSet_den_i rest _ _ hstep hok.2) rfl
     | cons d r =>
      simp only [classStringSet]
      exact hlong (by simp)
    | nil =>
      simp only [classStringSet]
      exact hlong (by simp)

end

/-! ## The recursion -/

section
variable {rer : ES.RER} (hic : rer.ignoreCase = true) (hu : rer.hasEitherUnicodeFlag = true)
  (hus : rer.unicodeSets = true) (fl : IR.Flags) (hfi : fl.icase = true)
include hic hu hus hfi

theorem opSRDen_nested {negateSet : Bool} {A : ES.CharSet} {result : ClassSet} (h : VSRDen A result)
    (hflag : ¬ (negateSet && result.mayContainStrings) = true) :
    OpSRDen (if negateSet then ES.characterComplement rer A else A)
      (.cls (if negateSet then
          { result with cps := inverted (Fold.addIcaseCodePoints result.cps) }
        else result)) := by
  cases negateSet with
  | false => simpa [OpSRDen] using h
  | true =>
    have ha : result.alts = [] := h.ns (by simpa using hflag)
    simp only [if_true, OpSRDen]
    exact ⟨((cden_complement h.den.closure).congr (fun c => by
        simp [ES.characterComplement, allCharacters_vi hic hus])).rden,
      fun str => by simp [ES.characterComplement, ha],
      fun str hs => by simp [ha] at hs, fun _ => ha⟩

mutual
theorem den_vOperand_si : ∀ (o : ES.VOp) (op : Operand), vopOKS fl.unicodeSets o = true →
    lowerVOperand fl o = .ok op → OpSRDen (ES.vOpCharSet rer o) op
  | .c cp, op, hok, hl => by
    simp only [lowerVOperand, Except.ok.injEq] at hl; subst hl
    simp only [vopOKS, decide_eq_true_eq] at hok
    exact ⟨hok, fun x => by simp only [ES.vOpCharSet]; exact msf_single_i hic hus cp x,
      by simp only [ES.vOpCharSet]; exact msf_strs_nil_i hic hus _ rfl⟩
  | .r _ _, op, hok, hl => by simp [lowerVOperand] at hl
  | .esc e, op, hok, hl => by
    simp only [lowerVOperand, hfi, Except.ok.injEq] at hl; subst hl
    rw [codepointsFromClass_true]
    exact ⟨by simpa [ES.vOpCharSet] using (cden_classEscape_vi hic hu hus e _ (den_escPositive e)).rden,
      by simp [ES.vOpCharSet, classEscape_strs_icase]⟩
  | .prop pneg kind name, op, hok, hl => by
    simp only [lowerVOperand] at hl
    simp only [vopOKS, propIsCharClass] at hok
    cases hp : lowerProp fl.unicodeSets kind name with
    | error e => rw [hp] at hl; cases hl
    | ok k =>
      cases k with
      | stringSet strs => simp [hp] at hok
      | charClass ivs =>
        rw [hp] at hl
        obtain ⟨hpos, hneg, hstrs⟩ := rden_propEscape_vi hic hus hp
        cases pneg with
        | false =>
          simp only [Bool.false_eq_true, if_false, Except.ok.injEq] at hl; subst hl
          exact ⟨by simpa [ES.vOpCharSet] using hpos, by simp [ES.vOpCharSet, hstrs]⟩
        | true =>
          simp only [if_true, hfi, Except.ok.injEq] at hl; subst hl
          exact ⟨by simpa [ES.vOpCharSet] using hneg.rden, by simp [ES.vOpCharSet, hstrs]⟩
  | .q strs, op, hok, hl => by
    simp only [vopOKS] at hok
    simp only [lowerVOperand] at hl
    split at hl
    · cases hl
    · simp only [Except.ok.injEq] at hl; subst hl
      have h1 := classStringSet_den_i hic hus strs {} ES.CharSet.empty vsrden_empty hok
      simp only [OpSRDen, ES.vOpCharSet]
      exact ⟨h1.den.congr (fun x => by simp [ES.CharSet.union, ES.CharSet.empty]),
        fun str => by rw [← h1.srel, mem_union_strs]; simp [ES.CharSet.empty], h1.len1, h1.ns⟩
  | .cls negateSet vop ops, op, hok, hl => by
    simp only [vopOKS] at hok
    simp only [lowerVOperand] at hl
    cases vop with
    | union =>
      simp only at hl
      cases hr : lowerVUnion fl ops {} with
      | error e => rw [hr] at hl; cases hl
      | ok result =>
        rw [hr] at hl
        simp only at hl
        by_cases hflag : (negateSet && result.mayContainStrings) = true
        · rw [if_pos hflag] at hl; cases hl
        rw [if_neg hflag] at hl
        simp only [hfi, if_true, Except.ok.injEq] at hl; subst hl
        have h0 := den_vUnion_si ops {} result ES.CharSet.empty vsrden_empty hok hr
        have h1 : VSRDen (ES.vUnion rer ops) result :=
          ⟨h0.den.congr (fun x => by simp [ES.CharSet.union, ES.CharSet.empty]),
            fun str => by rw [← h0.srel, mem_union_strs]; simp [ES.CharSet.empty], h0.len1, h0.ns⟩
        simp only [ES.vOpCharSet, absorb_id h1.len1]
        exact opSRDen_nested hic hu hus fl hfi h1 hflag
    | inter =>
      simp only at hl
      cases hr : lowerVInterStart fl ops with
      | error e => rw [hr] at hl; cases hl
      | ok result =>
        rw [hr] at hl
        simp only at hl
        by_cases hflag : (negateSet && result.mayContainStrings) = true
        · rw [if_pos hflag] at hl; cases hl
        rw [if_neg hflag] at hl
        simp only [hfi, if_true, Except.ok.injEq] at hl; subst hl
        have h1 := (den_vInterStart_si ops result hok hr).vsrden
        simp only [ES.vOpCharSet, absorb_id h1.len1]
        exact opSRDen_nested hic hu hus fl hfi h1 hflag
    | sub =>
      simp only at hl
      cases hr : lowerVSubStart fl ops with
      | error e => rw [hr] at hl; cases hl
      | ok result =>
        rw [hr] at hl
        simp only at hl
        by_cases hflag : (negateSet && result.mayContainStrings) = true
        · rw [if_pos hflag] at hl; cases hl
        rw [if_neg hflag] at hl
        simp only [hfi, if_true, Except.ok.injEq] at hl; subst hl
        have h1 := (den_vSubStart_si ops result hok hr).vsrden
        simp only [ES.vOpCharSet, absorb_id h1.len1]
        exact opSRDen_nested hic hu hus fl hfi h1 hflag
theorem den_vInterStart_si : ∀ (ops : List ES.VOp) (result : ClassSet),
    vopsOKS fl.unicodeSets ops = true → lowerVInterStart fl ops = .ok result → VSCDen (ES.vInter rer ops) result
  | [], result, hok, hl => by simp [lowerVInterStart] at hl
  | [_], result, hok, hl => by simp [lowerVInterStart] at hl
  | o :: o2 :: os, result, hok, hl => by
    simp only [vopsOKS, Bool.and_eq_true] at hok
    simp only [lowerVInterStart] at hl
    cases hf : lowerVOperand fl o with
    | error e => rw [hf] at hl; cases hl
    | ok first =>
      rw [hf] at hl
      simp only [hfi] at hl
      have h1 := den_vOperand_si o first hok.1 hf
      simp only [ES.vInter]
      exact den_vInter_si (o2 :: os) _ result _ (vscden_first (opSCDen_close h1)) (by simp [vopsOKS, hok.2]) hl
theorem den_vSubStart_si : ∀ (ops : List ES.VOp) (result : ClassSet),
    vopsOKS fl.unicodeSets ops = true → lowerVSubStart fl ops = .ok result → VSCDen (ES.vSub rer ops) result
  | [], result, hok, hl => by simp [lowerVSubStart] at hl
  | [_], result, hok, hl => by simp [lowerVSubStart] at hl
  | o :: o2 :: os, result, hok, hl => by
    simp only [vopsOKS, Bool.and_eq_true] at hok
    simp only [lowerVSubStart] at hl
    cases hf : lowerVOperand fl o with
    | error e => rw [hf] at hl; cases hl
    | ok first =>
      rw [hf] at hl
      simp only [hfi] at hl
      have h1 := den_vOperand_si o first hok.1 hf
      simp only [ES.vSub]
      exact den_vSub_si (o2 :: os) _ result _ (vscden_first (opSCDen_close h1)) (by simp [vopsOKS, hok.2]) hl
theorem den_vUnion_si : ∀ (ops : List ES.VOp) (acc result : ClassSet) (A : ES.CharSet), VSRDen A acc →
    vopsOKS fl.unicodeSets ops = true → lowerVUnion fl ops acc = .ok result →
    VSRDen (A.union (ES.vUnion rer ops)) result
  | [], acc, result, A, ha, hok, hl => by
    simp only [lowerVUnion, Except.ok.injEq] at hl; subst hl
    exact ⟨ha.den.congr (fun x => by simp [ES.CharSet.union, ES.vUnion, ES.CharSet.empty]),
      fun str => by rw [mem_union_strs, ← ha.srel]; simp [ES.vUnion, ES.CharSet.empty], ha.len1, ha.ns⟩
  | o :: os, acc, result, A, ha, hok, hl => by
    simp only [vopsOKS, Bool.and_eq_true] at hok
    by_cases hr : ∃ lo hi, o = .r lo hi
    · obtain ⟨lo, hi, rfl⟩ := hr
      simp only [vopOKS, Bool.and_eq_true, decide_eq_true_eq] at hok
      have : ¬ lo > hi := by omega
      simp only [lowerVUnion, this, if_false] at hl
      have hrange : Den (ES.CharSet.range lo hi).chars [⟨lo, hi⟩] := by
        refine ⟨⟨hok.1.1, hok.1.2⟩, fun c _ => ?_⟩
        simp [ES.CharSet.range, mem]
      have hrd : RDen (ES.vOpCharSet rer (.r lo hi)).chars [⟨lo, hi⟩] := by
        have := rden_msf hic hus hrange (fun b hb => by
          simp only [ES.CharSet.range, Bool.and_eq_true, decide_eq_true_eq] at hb; omega)
        simpa [ES.vOpCharSet] using this
      have hrs : (ES.vOpCharSet rer (.r lo hi)).strs = [] := by
        simp only [ES.vOpCharSet]; exact msf_strs_nil_i hic hus _ rfl
      have hstep : VSRDen (A.union (ES.vOpCharSet rer (.r lo hi))) { acc with cps := add acc.cps ⟨lo, hi⟩ } :=
        ⟨(rden_or_of_mem ha.den hrd (C12.add_wf ha.den.1 ⟨hok.1.1, hok.1.2⟩) (fun x => by
            rw [C12.add_mem ha.den.1 ⟨hok.1.1, hok.1.2⟩]
            simp [mem])).congr (fun x => by simp [ES.CharSet.union]),
          fun str => by rw [mem_union_strs, hrs, ← ha.srel]; simp,
          ha.len1, ha.ns⟩
      have := den_vUnion_si os _ result _ hstep hok.2 hl
      simp only [ES.vUnion]
      exact vsrden_assoc this
    · have hne : ∀ lo hi, o ≠ .r lo hi := fun lo hi h => hr ⟨lo, hi, h⟩
      rw [lowerVUnion_cons hne] at hl
      cases hf : lowerVOperand fl o with
      | error e => rw [hf] at hl; cases hl
      | ok x =>
        rw [hf] at hl
        have h1 := den_vOperand_si o x hok.1 hf
        have hstep := vsrden_unionOperand ha h1
        have := den_vUnion_si os _ result _ hstep hok.2 hl
        simp only [ES.vUnion]
        exact vsrden_assoc this
theorem den_vInter_si : ∀ (ops : List ES.VOp) (acc result : ClassSet) (A : ES.CharSet), VSCDen A acc →
    vopsOKS fl.unicodeSets ops = true → lowerVInter fl ops acc = .ok result →
    VSCDen (ES.vInterFrom rer A ops) result
  | [], acc, result, A, ha, hok, hl => by
    simp only [lowerVInter, Except.ok.injEq] at hl; subst hl
    simpa [ES.vInterFrom] using ha
  | o :: os, acc, result, A, ha, hok, hl => by
    simp only [vopsOKS, Bool.and_eq_true] at hok
    simp only [lowerVInter] at hl
    cases hf : lowerVOperand fl o with
    | error e => rw [hf] at hl; cases hl
    | ok x =>
      rw [hf] at hl
      simp only [hfi] at hl
      have h1 := den_vOperand_si o x hok.1 hf
      simp only [ES.vInterFrom]
      exact den_vInter_si os _ result _ (vscden_intersectOperand ha (opSCDen_close h1)) hok.2 hl
theorem den_vSub_si : ∀ (ops : List ES.VOp) (acc result : ClassSet) (A : ES.CharSet), VSCDen A acc →
    vopsOKS fl.unicodeSets ops = true → lowerVSub fl ops acc = .ok result →
    VSCDen (ES.vSubFrom rer A ops) result
  | [], acc, result, A, ha, hok, hl => by
    simp only [lowerVSub, Except.ok.injEq] at hl; subst hl
    simpa [ES.vSubFrom] using ha
  | o :: os, acc, result, A, ha, hok, hl => by
    simp only [vopsOKS, Bool.and_eq_true] at hok
    simp only [lowerVSub] at hl
    cases hf : lowerVOperand fl o with
    | error e => rw [hf] at hl; cases hl
    | ok x =>
      rw [hf] at hl
      simp only [hfi] at hl
      have h1 := den_vOperand_si o x hok.1 hf
      simp only [ES.vSubFrom]
      exact den_vSub_si os _ result _ (vscden_subtractOperand ha (opSCDen_close h1)) hok.2 hl
end

end


/-! ## The node -/

/-- `v`-mode classes with strings under `i`. -/
def classSupportedSI (fl : IR.Flags) : ES.Node → Bool
  | .vcls _ _ ops => vopsOKS fl.unicodeSets ops
  | _ => false

theorem lower_class_node_si {inp : Input} {cs : List Nat} (ht : Utf8Text inp cs) (hiu : inp.unicode = true)
    (pattern : ES.Node) (total : Nat) :
    ∀ (n : ES.Node) (fl : IR.Flags) (rer : ES.RER) (pi : Nat) (back : Bool) (ir : Node),
      FlagsRel rer fl → fl.icase = true → fl.unicode = true → fl.unicodeSets = true →
      classSupportedSI fl n = true → lowerNode pattern total n fl pi = .ok ir →
      ∃ ir', Parse.reverseCats back ir = .ok ir' ∧ NodeSim inp cs total pattern n rer pi back ir ir' := by
  intro n fl rer pi back ir hfl hfi hfu hfus hs hl
  have hic : rer.ignoreCase = true := by rw [hfl.icase]; exact hfi
  have hu : rer.hasEitherUnicodeFlag = true := by rw [hfl.unicode]; exact hfu
  have hus : rer.unicodeSets = true := by rw [hfl.unicodeSets]; exact hfus
  cases n with
  | vcls neg op ops =>
    simp only [classSupportedSI] at hs
    simp only [lowerNode, hfus, Bool.not_true, Bool.false_eq_true, if_false, lowerVClass] at hl
    have fin : ∀ r, VSRDen (ES.vExprCharSet rer op ops) r → ¬ (neg && r.mayContainStrings) = true →
        ir = r.node fl.icase neg →
        ∃ ir', Parse.reverseCats back ir = .ok ir' ∧
          NodeSim inp cs total pattern (.vcls neg op ops) rer pi back ir ir' := by
      intro r hv hflag hir
      subst hir
      rw [hfi]
      cases neg with
      | true =>
        have halts : r.alts = [] := hv.ns (by simpa using hflag)
        exact vcls_node_iv ht pattern total rer pi back hic hu hus true op ops r (hv.vrden halts)
      | false =>
        have hfacts := (classNode_node r true false).facts back pi pi
        apply NodeSim.leaf hfacts.1 rfl hfacts.2.1 hfacts.2.2
        simp only [ES.compileNode]
        have hcc : ES.compileVCharacterClass rer false op ops = (ES.vExprCharSet rer op ops, false) := by
          simp [ES.compileVCharacterClass]
        rw [hcc]
        exact sim_stringClass_i ht hiu total rer hic hu hus _ r
          (fun ch hch => match_rden hic hu (A := { chars := (ES.vExprCharSet rer op ops).chars }) hv.den hch)
          hv.srel hv.len1 back _ _
    cases op with
    | union =>
      simp only at hl
      cases hr : lowerVUnion fl ops {} with
      | error e => rw [hr] at hl; cases hl
      | ok r =>
        rw [hr] at hl
        simp only at hl
        by_cases hflag : (neg && r.mayContainStrings) = true
        · rw [if_pos hflag] at hl; cases hl
        rw [if_neg hflag] at hl
        simp only [Except.ok.injEq] at hl
        have h0 := den_vUnion_si hic hu hus fl hfi ops {} r ES.CharSet.empty vsrden_empty hs hr
        exact fin r ⟨h0.den.congr (fun x => by simp [ES.vExprCharSet, ES.CharSet.union, ES.CharSet.empty]),
          fun str => by rw [← h0.srel, mem_union_strs]; simp [ES.vExprCharSet, ES.CharSet.empty],
          h0.len1, h0.ns⟩ hflag hl.symm
    | inter =>
      simp only at hl
      cases hr : lowerVInterStart fl ops with
      | error e => rw [hr] at hl; cases hl
      | ok r =>
        rw [hr] at hl
        simp only at hl
        by_cases hflag : (neg && r.mayContainStrings) = true
        · rw [if_pos hflag] at hl; cases hl
        rw [if_neg hflag] at hl
        simp only [Except.ok.injEq] at hl
        exact fin r (den_vInterStart_si hic hu hus fl hfi ops r hs hr).vsrden hflag hl.symm
    | sub =>
      simp only at hl
      cases hr : lowerVSubStart fl ops with
      | error e => rw [hr] at hl; cases hl
      | ok r =>
        rw [hr] at hl
        simp only at hl
        by_cases hflag : (neg && r.mayContainStrings) = true
        · rw [if_pos hflag] at hl; cases hl
        rw [if_neg hflag] at hl
        simp only [Except.ok.injEq] at hl
        exact fin r (den_vSubStart_si hic hu hus fl hfi ops r hs hr).vsrden hflag hl.symm
  | _ => simp [classSupportedSI] at hs

end Regress.Lower
