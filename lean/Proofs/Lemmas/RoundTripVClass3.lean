import Proofs.Lemmas.RoundTripVClass2
/-!
# Round trip, part 17: `v`-mode class sets — expressions, nested classes, the atom
-/
namespace Regress.RoundTrip
open Regress Regress.IR Regress.Parse Regress.Lower Regress.Print

section
variable {fl : Flags} {hn : Bool}

/-! ## `consume_class_set_expression` -/

theorem lowerVUnion_cons_inv {o : ES.VOp} {os : List ES.VOp} {acc acc' : ClassSet}
    (hr : ¬ ∃ lo hi, o = .r lo hi) (hl : lowerVUnion fl (o :: os) acc = .ok acc') :
    ∃ x, lowerVOperand fl o = .ok x ∧ lowerVUnion fl os (acc.unionOperand x) = .ok acc' := by
  cases o with
  | r lo hi => exact absurd ⟨lo, hi, rfl⟩ hr
  | c ch =>
    simp only [lowerVUnion] at hl
    cases h1 : lowerVOperand fl (.c ch) with
    | error e => rw [h1] at hl; cases hl
    | ok x => rw [h1] at hl; exact ⟨x, rfl, hl⟩
  | esc e =>
    simp only [lowerVUnion] at hl
    cases h1 : lowerVOperand fl (.esc e) with
    | error e => rw [h1] at hl; cases hl
    | ok x => rw [h1] at hl; exact ⟨x, rfl, hl⟩
  | prop g k nm =>
    simp only [lowerVUnion] at hl
    cases h1 : lowerVOperand fl (.prop g k nm) with
    | error e => rw [h1] at hl; cases hl
    | ok x => rw [h1] at hl; exact ⟨x, rfl, hl⟩
  | q strs =>
    simp only [lowerVUnion] at hl
    cases h1 : lowerVOperand fl (.q strs) with
    | error e => rw [h1] at hl; cases hl
    | ok x => rw [h1] at hl; exact ⟨x, rfl, hl⟩
  | cls g op ops =>
    simp only [lowerVUnion] at hl
    cases h1 : lowerVOperand fl (.cls g op ops) with
    | error e => rw [h1] at hl; cases hl
    | ok x => rw [h1] at hl; exact ⟨x, rfl, hl⟩

theorem expr_union (ops : List ES.VOp) (hops : ∀ o ∈ ops, OperandR fl hn o) : ExprR fl hn .union ops := by
  intro fuel rest d cs hl hlex hdep hf
  simp only [lowerVBody] at hl
  simp only [vBody] at hf ⊢
  obtain ⟨f, rfl⟩ : ∃ f, fuel = f + 1 := ⟨fuel - 1, by omega⟩
  cases ops with
  | nil =>
    simp only [lowerVUnion, Except.ok.injEq] at hl
    subst hl
    simp [printVUnion, classSetExpression]
  | cons o os =>
    have hu := union_ok os (fun p hp => hops p (by simp [hp]))
    simp only [lexVOps, Bool.and_eq_true] at hlex
    rw [vNestList_cons] at hdep
    have hlen := printVOp_length o
    simp only [printVUnion, List.length_append] at hf
    obtain ⟨c, tl, ec, hh⟩ := printVOp_headI o
    have hne := vhead_ne hh
    have e5d : (c == 0x5D) = false := by simpa using hne.2.1
    obtain ⟨m0, mtl, em, hm2d, hm26, _⟩ := afterOp_union os rest
    by_cases hr : ∃ lo hi, o = .r lo hi
    · obtain ⟨lo, hi, rfl⟩ := hr
      simp only [lowerVUnion] at hl
      split at hl
      · cases hl
      · next hle =>
        obtain ⟨f', rfl⟩ : ∃ f', f = f' + 1 := ⟨f - 1, by omega⟩
        simp only [printVOp, List.length_append, List.length_cons, List.length_nil] at hf
        have hih := hu (f' + 1) rest d _ cs hl hlex.2 (by omega) (by omega)
        obtain ⟨c1, tl1, ec1, hh1⟩ := printChar_headI lo
        have hne1 := headI_ne hh1
        have e5d1 : (c1 == 0x5D) = false := by simpa using hne1.2.1
        obtain ⟨c2, tl2, ec2, hh2⟩ := printChar_headI hi
        have hne2 := headI_ne hh2
        simp only [printVUnion, printVOp, List.append_assoc, List.cons_append, List.nil_append]
        rw [classSetExpression]
        simp only [ec1, List.cons_append, e5d1, Bool.false_eq_true, if_false]
        rw [← List.cons_append, ← ec1, operand_char]
        simp only [show ((0x2D : Nat) == 0x5D) = false from rfl, show ((0x2D : Nat) == 0x26) = false from rfl,
          show ((0x2D : Nat) == 0x2D) = true from rfl, Bool.false_eq_true, if_false, if_true]
        split
        · next r2 heq =>
          rw [ec2] at heq
          simp only [List.cons_append, List.cons.injEq] at heq
          exact absurd heq.1 hne2.1
        · simp only [operand_char, hle, if_false]
          exact hih
    · obtain ⟨x, hx1, hx2⟩ := lowerVUnion_cons_inv hr hl
      have hop := hops o (by simp) f (printVUnion os ++ 0x5D :: rest) d x hx1 hlex.1 (by omega) (by omega)
      have hih := hu f rest d _ cs hx2 hlex.2 (by omega) (by omega)
      simp only [printVUnion, List.append_assoc]
      rw [classSetExpression]
      simp only [ec, List.cons_append, e5d, Bool.false_eq_true, if_false]
      rw [← List.cons_append, ← ec, hop]
      simp only
      cases os with
      | nil =>
        simp only [lowerVUnion, Except.ok.injEq] at hx2
        subst hx2
        simp [printVUnion]
      | cons o2 os2 =>
        obtain ⟨c2, tl2, ec2, hh2⟩ := printVOp_headI o2
        have hne2 := vhead_ne hh2
        have e1 : (c2 == 0x5D) = false := by simpa using hne2.2.1
        have e2 : (c2 == 0x26) = false := by simpa using hne2.2.2.2
        have e3 : (c2 == 0x2D) = false := by simpa using hne2.1
        simp only [printVUnion, ec2, List.cons_append, e1, e2, e3, Bool.false_eq_true, if_false] at hih ⊢
        exact hih

theorem expr_inter (ops : List ES.VOp) (hops : ∀ o ∈ ops, OperandR fl hn o) : ExprR fl hn .inter ops := by
  intro fuel rest d cs hl hlex hdep hf
  simp only [lowerVBody] at hl
  simp only [vBody] at hf ⊢
  obtain ⟨f, rfl⟩ : ∃ f, fuel = f + 1 := ⟨fuel - 1, by omega⟩
  match ops, hops, hl, hlex, hdep, hf with
  | [], _, hl, _, _, _ => simp [lowerVInterStart] at hl
  | [o], _, hl, _, _, _ => simp [lowerVInterStart] at hl
  | o :: o2 :: os, hops, hl, hlex, hdep, hf =>
    simp only [lowerVInterStart] at hl
    cases hx : lowerVOperand fl o with
    | error e => rw [hx] at hl; cases hl
    | ok x =>
      rw [hx] at hl
      simp only [lexVOps, Bool.and_eq_true] at hlex
      rw [vNestList_cons] at hdep
      have hlen := printVOp_length o
      simp only [printVSep, printVSepTail, List.length_append, List.length_cons, List.length_nil] at hf
      obtain ⟨c, tl, ec, hh⟩ := printVOp_headI o
      have hne := vhead_ne hh
      have e5d : (c == 0x5D) = false := by simpa using hne.2.1
      have hop := hops o (by simp) f (printVSepTail 0x26 (o2 :: os) ++ 0x5D :: rest) d x hx hlex.1 (by omega)
        (by omega)
      have hih := inter_ok os o2 (fun p hp => hops p (by simp at hp ⊢; exact .inr hp)) f rest d _ cs hl
        (by simp only [lexVOps, Bool.and_eq_true]; exact hlex.2) (by omega)
        (by simp only [List.length_append]; omega)
      simp only [printVSep, List.append_assoc]
      rw [classSetExpression]
      simp only [ec, List.cons_append, e5d, Bool.false_eq_true, if_false]
      rw [← List.cons_append, ← ec, hop]
      simp only [printVSepTail, List.append_assoc, List.cons_append, List.nil_append,
        show ((0x26 : Nat) == 0x5D) = false from rfl, show ((0x26 : Nat) == 0x26) = true from rfl,
        Bool.false_eq_true, if_false, if_true]
      simpa only [List.append_assoc] using hih

theorem expr_sub (ops : List ES.VOp) (hops : ∀ o ∈ ops, OperandR fl hn o) : ExprR fl hn .sub ops := by
  intro fuel rest d cs hl hlex hdep hf
  simp only [lowerVBody] at hl
  simp only [vBody] at hf ⊢
  obtain ⟨f, rfl⟩ : ∃ f, fuel = f + 1 := ⟨fuel - 1, by omega⟩
  match ops, hops, hl, hlex, hdep, hf with
  | [], _, hl, _, _, _ => simp [lowerVSubStart] at hl
  | [o], _, hl, _, _, _ => simp [lowerVSubStart] at hl
  | o :: o2 :: os, hops, hl, hlex, hdep, hf =>
    simp only [lowerVSubStart] at hl
    cases hx : lowerVOperand fl o with
    | error e => rw [hx] at hl; cases hl
    | ok x =>
      rw [hx] at hl
      simp only [lexVOps, Bool.and_eq_true] at hlex
      rw [vNestList_cons] at hdep
      have hlen := printVOp_length o
      simp only [printVSep, printVSepTail, List.length_append, List.length_cons, List.length_nil] at hf
      obtain ⟨c, tl, ec, hh⟩ := printVOp_headI o
      have hne := vhead_ne hh
      have e5d : (c == 0x5D) = false := by simpa using hne.2.1
      have hop := hops o (by simp) f (printVSepTail 0x2D (o2 :: os) ++ 0x5D :: rest) d x hx hlex.1 (by omega)
        (by omega)
      have hih := sub_ok os o2 (fun p hp => hops p (by simp at hp ⊢; exact .inr hp)) f rest d _ cs hl
        (by simp only [lexVOps, Bool.and_eq_true]; exact hlex.2) (by omega)
        (by simp only [List.length_append]; omega)
      simp only [printVSep, List.append_assoc]
      rw [classSetExpression]
      simp only [ec, List.cons_append, e5d, Bool.false_eq_true, if_false]
      rw [← List.cons_append, ← ec, hop]
      simp only [printVSepTail, List.append_assoc, List.cons_append, List.nil_append,
        show ((0x2D : Nat) == 0x5D) = false from rfl, show ((0x2D : Nat) == 0x26) = false from rfl,
        show ((0x2D : Nat) == 0x2D) = true from rfl, Bool.false_eq_true, if_false, if_true]
      simpa only [List.append_assoc] using hih

theorem expr_ok (op : ES.VSetOp) (ops : List ES.VOp) (hops : ∀ o ∈ ops, OperandR fl hn o) : ExprR fl hn op ops := by
  cases op
  · exact expr_union ops hops
  · exact expr_inter ops hops
  · exact expr_sub ops hops

/-! ## Nested classes -/

/-- The `[^` test (`match rest with | '^' :: r => (true, r) | _ => (false, rest)`) on a text that does not
start with `^`. -/
theorem negMatch_ne {α : Sort u} (c : Nat) (tl : List Nat) (h : c ≠ 0x5E) (a b : List Nat → α) :
    consumeBracket.match_1 (fun _ => α) (c :: tl) a b = b (c :: tl) :=
  consumeBracket.match_1.eq_2 (fun _ => α) (c :: tl) a b (fun r h' => by
    simp only [List.cons.injEq] at h'; exact h h'.1)


/-- The body of a class followed by `]` does not start with `^`. -/
theorem vBody_head (op : ES.VSetOp) (ops : List ES.VOp) (rest : List Nat) :
    ∃ c tl, vBody op ops ++ 0x5D :: rest = c :: tl ∧ c ≠ 0x5E := by
  cases ops with
  | nil => exact ⟨0x5D, rest, by cases op <;> simp [vBody, printVUnion, printVSep], by decide⟩
  | cons o os =>
    obtain ⟨c, tl, e, hh⟩ := printVOp_headI o
    have := vhead_ne hh
    cases op
    · exact ⟨c, tl ++ (printVUnion os ++ 0x5D :: rest), by simp [vBody, printVUnion, e], this.2.2.1⟩
    · exact ⟨c, tl ++ (printVSepTail 0x26 os ++ 0x5D :: rest), by simp [vBody, printVSep, e], this.2.2.1⟩
    · exact ⟨c, tl ++ (printVSepTail 0x2D os ++ 0x5D :: rest), by simp [vBody, printVSep, e], this.2.2.1⟩

theorem printVOp_cls (neg : Bool) (op : ES.VSetOp) (ops : List ES.VOp) :
    printVOp (.cls neg op ops) = [0x5B] ++ (if neg then [0x5E] else []) ++ vBody op ops ++ [0x5D] := by
  cases op <;> simp [printVOp, vBody]

theorem lowerVOperand_cls (neg : Bool) (op : ES.VSetOp) (ops : List ES.VOp) :
    lowerVOperand fl (.cls neg op ops) =
      (match lowerVBody fl op ops with
       | .error e => .error e
       | .ok result =>
         if neg && result.mayContainStrings then .error "Negated class may not contain strings"
         else
           let result :=
             if neg then
               let result := result.absorbSingleCharacters
               let cps := if fl.icase then Fold.addIcaseCodePoints result.cps else result.cps
               { result with cps := CPS.inverted cps }
             else result
           .ok (.cls result)) := by
  cases op <;> simp only [lowerVOperand, lowerVBody] <;> rfl

theorem operand_cls (neg : Bool) (op : ES.VSetOp) (ops : List ES.VOp) (he : ExprR fl hn op ops) :
    OperandR fl hn (.cls neg op ops) := by
  intro fuel rest d x hl hlex hdep hf
  rw [lowerVOperand_cls] at hl
  simp only [lexVOp] at hlex
  simp only [vNest] at hdep
  rw [printVOp_cls] at hf ⊢
  cases hb : lowerVBody fl op ops with
  | error e => rw [hb] at hl; cases hl
  | ok result =>
    rw [hb] at hl
    simp only at hl
    obtain ⟨f, rfl⟩ : ∃ f, fuel = f + 1 := ⟨fuel - 1, by simp at hf; omega⟩
    have hnd : ¬ (d + 1 > Gen.MAX_NESTING_DEPTH) := by omega
    have hex := he f rest (d + 1) result hb hlex (by omega)
      (by simp only [List.length_append, List.length_cons, List.length_nil] at hf; omega)
    cases neg with
    | true =>
      simp only [if_true, List.append_assoc, List.cons_append, List.nil_append]
      rw [classSetOperand]
      simp only [show ((0x5B : Nat) == 0x5B) = true from rfl, if_true, hnd, if_false, hex]
      cases hm : result.mayContainStrings with
      | true => rw [hm] at hl; simp at hl
      | false =>
        rw [hm] at hl
        simp only [Bool.and_false, Bool.false_eq_true, if_false, if_true, Except.ok.injEq] at hl
        simp only [Bool.and_false, Bool.false_eq_true, if_false, Nat.add_sub_cancel, ← hl]
    | false =>
      simp only [Bool.false_and, Bool.false_eq_true, if_false, Except.ok.injEq] at hl
      subst hl
      obtain ⟨c, tl, ec, hc⟩ := vBody_head op ops rest
      simp only [Bool.false_eq_true, if_false, List.append_assoc, List.cons_append, List.nil_append]
      rw [ec] at hex ⊢
      rw [classSetOperand]
      simp only [show ((0x5B : Nat) == 0x5B) = true from rfl, if_true, hnd, if_false, negMatch_ne c tl hc, hex,
        Bool.false_and, Bool.false_eq_true, Nat.add_sub_cancel]

/-! ## All operands -/

theorem operand_ok (fl : Flags) (hn : Bool) (o : ES.VOp) : OperandR fl hn o := by
  induction o using ES.VOp.rec (motive_2 := fun ops => ∀ o ∈ ops, OperandR fl hn o) with
  | c c => exact operand_c c
  | r lo hi => exact operand_r lo hi
  | esc e => exact operand_esc e
  | prop g k nm => exact operand_prop g k nm
  | q strs => exact operand_q strs
  | cls g op ops ih => exact operand_cls g op ops (expr_ok op ops ih)
  | nil => rename_i o ho; cases ho
  | cons a as iha ihas =>
    rename_i o ho
    rcases List.mem_cons.1 ho with rfl | ho
    · exact iha
    · exact ihas o ho

end

/-! ## The atom -/

section
variable {P : ES.Node} {T : Nat}

theorem lowerVClass_eq (fl : Flags) (neg : Bool) (op : ES.VSetOp) (ops : List ES.VOp) :
    lowerVClass fl neg op ops =
      (match lowerVBody fl op ops with
       | .error e => .error e
       | .ok cs =>
         if neg && cs.mayContainStrings then .error "Negated class may not contain strings"
         else .ok (cs.node fl.icase neg)) := by
  cases op <;> simp only [lowerVClass, lowerVBody] <;> rfl

theorem atom_vcls (neg : Bool) (op : ES.VSetOp) (ops : List ES.VOp) : AtomR P T (.vcls neg op ops) := by
  intro st x rest result f c0 hl hin hc hnd hinv hlim hlex hf
  simp only [lexOK] at hlex
  simp only [lowerNode] at hl
  cases hv : st.flags.unicodeSets with
  | false => rw [hv] at hl; simp at hl
  | true =>
    rw [hv] at hl
    simp only [Bool.not_true, Bool.false_eq_true, if_false] at hl
    rw [lowerVClass_eq] at hl
    cases hb : lowerVBody st.flags op ops with
    | error e => rw [hb] at hl; cases hl
    | ok cs =>
      rw [hb] at hl
      simp only at hl
      have hdp := hlim.depth
      simp only [prDepth] at hdp
      simp only [pr, printVClass] at hin hf
      rw [printVOp_cls] at hin hf
      have hc0 : c0 = 0x5B := by rw [hin] at hc; simpa using hc.symm
      subst hc0
      obtain ⟨f', rfl⟩ : ∃ f', f = f' + 1 := ⟨f - 1, by simp at hf; omega⟩
      have hex := fun fuel hfuel => expr_ok op ops (fun o _ => operand_ok st.flags (!st.named.isEmpty) o)
        fuel rest st.depth cs hb hlex hdp hfuel
      rw [adv_leaf st rest rfl rfl rfl, consumeAtom]
      cases neg with
      | true =>
        simp only [if_true, List.append_assoc, List.cons_append, List.nil_append] at hin
        have h1 := hex (2 * ((vBody op ops).length + (rest.length + 1)) + 4) (by omega)
        cases hm : cs.mayContainStrings with
        | true => rw [hm] at hl; simp at hl
        | false =>
          rw [hm] at hl
          simp only [Bool.and_false, Bool.false_eq_true, if_false, Except.ok.injEq] at hl
          simp [hv, hin, consume, tryConsume, h1, hm, hl, quantifiable]
      | false =>
        simp only [Bool.false_eq_true, if_false, List.append_assoc, List.cons_append, List.nil_append] at hin
        simp only [Bool.false_and, Bool.false_eq_true, if_false, Except.ok.injEq] at hl
        obtain ⟨c, tl, ec, hc5e⟩ := vBody_head op ops rest
        have h1 := hex (2 * ((vBody op ops).length + (rest.length + 1)) + 4) (by omega)
        have e5e : (c == 0x5E) = false := by simpa using hc5e
        have htc : tryConsume 0x5E { st with input := vBody op ops ++ 0x5D :: rest } =
            (false, { st with input := vBody op ops ++ 0x5D :: rest }) := by
          simp only [tryConsume, ec, e5e, Bool.false_eq_true, if_false]
        simp [hv, hin, consume, htc, h1, hl, quantifiable]

end

end Regress.RoundTrip
