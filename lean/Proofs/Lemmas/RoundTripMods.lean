import Proofs.Lemmas.RoundTripNames
/-!
# Round trip, part 7: modifier groups `(?add-rem: … )`

`modifierScan_print`: the scanning part of `try_consume_modifier_group` reads the printed letters back
to overrides that act on the flags exactly like `Lower.modsOf add rem`; `atom_mod`: the group.
-/
namespace Regress.RoundTrip
open Regress Regress.IR Regress.Parse Regress.Lower Regress.Print

theorem modifierScan_print (add rem : ES.Mods)
    (h : ((add.isEmpty && rem.isEmpty) || add.overlaps rem) = false) (body : List Nat) :
    ∃ mods m0 tl, printMods add rem ++ 0x3A :: body = m0 :: tl ∧ m0 ≠ 0x3D ∧ m0 ≠ 0x21 ∧ m0 ≠ 0x3C ∧
      m0 ≠ 0x3A ∧ modifierScan (m0 :: tl) {} = .ok (mods, body) ∧
      ∀ fl, applyMods fl mods = applyMods fl (modsOf add rem) := by
  obtain ⟨ai, am, as⟩ := add
  obtain ⟨ri, rm, rs⟩ := rem
  cases ai <;> cases am <;> cases as <;> cases ri <;> cases rm <;> cases rs <;>
    simp [ES.Mods.isEmpty, ES.Mods.overlaps] at h <;>
    exact ⟨_, _, _, by simp [printMods, modLetters, ES.Mods.isEmpty]; exact ⟨rfl, rfl⟩, by decide, by decide,
      by decide, by decide, by simp [modifierScan]; rfl, fun fl => by simp [applyMods, modsOf, ES.Mods.isEmpty]⟩

section
variable {P : ES.Node} {T : Nat}

theorem atom_mod {n : ES.Node} (add rem : ES.Mods) (hd : DisjR P T n) : AtomR P T (.mod add rem n) := by
  intro st x rest result f c0 hl hin hc hnd hinv hlim hlex hf
  simp only [lowerNode] at hl
  cases hcond : ((add.isEmpty && rem.isEmpty) || add.overlaps rem) with
  | true => rw [hcond] at hl; simp at hl
  | false =>
    rw [hcond] at hl
    simp only [Bool.false_eq_true, if_false] at hl
    simp only [lexOK] at hlex
    simp only [pr, List.append_assoc, List.cons_append, List.nil_append] at hin
    simp only [pr, List.length_append, List.length_cons, List.length_nil] at hf
    obtain rfl := head_eq hin hc
    obtain ⟨mods, m0, tl, htxt, n1, n2, n3, n4, hscan, happ⟩ :=
      modifierScan_print add rem hcond (pr .disj n ++ 0x29 :: rest)
    rw [htxt] at hin
    rw [← happ st.flags] at hl
    obtain ⟨f', rfl⟩ : ∃ f', f = f' + 1 := ⟨f - 1, by omega⟩
    have hdp := hlim.depth
    have hlo := hlim.loops
    have hg := hlim.groups
    simp only [prDepth, countLoops, ES.countParens] at hdp hlo hg
    have hd' := hd { st with input := pr .disj n ++ 0x29 :: rest, flags := applyMods st.flags mods } x
      (0x29 :: rest) f' hl rfl (.inr ⟨rest, rfl⟩) (hinv.of_eq rfl rfl)
      ⟨by simp only; omega, by simp only; omega, by simp only; omega⟩ hlex (by omega)
    have e1 : ((0x3D : Nat) == m0) = false := by simp; exact fun h => n1 h.symm
    have e2 : ((0x21 : Nat) == m0) = false := by simp; exact fun h => n2 h.symm
    have e3 : ((0x3C : Nat) == m0) = false := by simp; exact fun h => n3 h.symm
    have e4 : ((0x3A : Nat) == m0) = false := by simp; exact fun h => n4 h.symm
    have e5 : (m0 == 0x3C) = false := by simp; exact n3
    rw [consumeAtom]
    simp only [show ((0x28 : Nat) == 0x5E) = false from rfl, show ((0x28 : Nat) == 0x24) = false from rfl,
      show ((0x28 : Nat) == 0x5C) = false from rfl, show ((0x28 : Nat) == 0x2E) = false from rfl,
      show ((0x28 : Nat) == 0x28) = true from rfl, Bool.false_eq_true, if_false, if_true]
    simp only [tryConsumeStr, hin, stripPrefix?, show ((0x28 : Nat) == 0x28) = true from rfl,
      show ((0x3F : Nat) == 0x3F) = true from rfl, e1, e2, e3, e4, e5, Bool.false_eq_true, if_false, if_true,
      modifierGroupHead, hscan]
    rw [hd']
    simp only [tryConsume, adv_input, show ((0x29 : Nat) == 0x29) = true from rfl, if_true]
    fin_atom

end

end Regress.RoundTrip
