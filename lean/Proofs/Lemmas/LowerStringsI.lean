import Proofs.Lemmas.LowerStringsV
/-!
# ES specification ⇒ IR semantics: `\q{…}` strings under `i` with `v`

Per-string lemmas with case folding: the specification matches a (folded) ClassString character by
character through `Canonicalize`; the crate expands every code point of an alternative with
`unfold_char` (`lower_code_point_sequence`).  Both test "the text here has, position by position,
the same folding classes as the string".
-/
namespace Regress.Lower

open Regress Regress.IR Regress.VM Regress.Parse Regress.CPS Regress.Fold

section
variable {inp : Input} {cs : List Nat}

/-- same folding class, position by position -/
def sameFold (a b : List Nat) : Bool := a.map C10.scfRep == b.map C10.scfRep

/-- the code points at index `k` (forward) / ending at `k` (backward) fold like `s` -/
def occursI (cs : List Nat) (fwd : Bool) (k : Nat) (s : List Nat) : Bool :=
  if fwd then decide (k + s.length ≤ cs.length) && sameFold ((cs.drop k).take s.length) s
  else decide (s.length ≤ k) && decide (k ≤ cs.length) && sameFold ((cs.drop (k - s.length)).take s.length) s

theorem sameFold_cons (a b : Nat) (x y : List Nat) :
    sameFold (a :: x) (b :: y) = (decide (C10.scfRep a = C10.scfRep b) && sameFold x y) := by
  apply bool_eq_of_iff
  simp [sameFold]

theorem occursI_cons_fwd (k c : Nat) (s : List Nat) :
    occursI cs true k (c :: s) =
      (decide (k < cs.length ∧ C10.scfRep (cs.toArray.getD k 0) = C10.scfRep c) && occursI cs true (k + 1) s) := by
  apply bool_eq_of_iff
  simp only [occursI, if_true, List.length_cons, Bool.and_eq_true, decide_eq_true_eq]
  constructor
  · rintro ⟨h1, h2⟩
    have hk : k < cs.length := by omega
    rw [List.drop_eq_getElem_cons hk, List.take_succ_cons, sameFold_cons] at h2
    simp only [Bool.and_eq_true, decide_eq_true_eq] at h2
    exact ⟨⟨hk, by rw [toArray_getD cs hk]; exact h2.1⟩, by omega, h2.2⟩
  · rintro ⟨⟨hk, hc⟩, h1, h2⟩
    refine ⟨by omega, ?_⟩
    rw [List.drop_eq_getElem_cons hk, List.take_succ_cons, sameFold_cons]
    rw [toArray_getD cs hk] at hc
    simp [hc, h2]

theorem sameFold_append_single (x y : List Nat) (a b : Nat) (hl : x.length = y.length) :
    sameFold (x ++ [a]) (y ++ [b]) = (sameFold x y && decide (C10.scfRep a = C10.scfRep b)) := by
  apply bool_eq_of_iff
  simp only [sameFold, List.map_append, List.map_cons, List.map_nil, beq_iff_eq, Bool.and_eq_true,
    decide_eq_true_eq]
  constructor
  · intro h
    have := List.append_inj h (by simp [hl])
    exact ⟨this.1, by simpa using this.2⟩
  · rintro ⟨h1, h2⟩; rw [h1, h2]

theorem occursI_snoc_bwd (k c : Nat) (s : List Nat) :
    occursI cs false k (s ++ [c]) =
      (decide (0 < k ∧ k ≤ cs.length ∧ C10.scfRep (cs.toArray.getD (k - 1) 0) = C10.scfRep c) &&
        occursI cs false (k - 1) s) := by
  apply bool_eq_of_iff
  simp only [occursI, Bool.false_eq_true, if_false, List.length_append, List.length_cons, List.length_nil,
    Bool.and_eq_true, decide_eq_true_eq]
  constructor
  · rintro ⟨⟨h1, h2⟩, h3⟩
    have hlt : k - 1 < cs.length := by omega
    have hidx : s.length < (cs.drop (k - (s.length + 1))).length := by simp; omega
    rw [List.take_succ_eq_append_getElem hidx, sameFold_append_single _ _ _ _ (by simp; omega)] at h3
    simp only [Bool.and_eq_true, decide_eq_true_eq, List.getElem_drop] at h3
    have hc : C10.scfRep cs[k - 1] = C10.scfRep c := by
      rw [← h3.2]; congr 2; omega
    refine ⟨⟨by omega, h2, by rw [toArray_getD cs hlt]; exact hc⟩, ⟨by omega, by omega⟩, ?_⟩
    rw [show k - 1 - s.length = k - (s.length + 1) by omega]
    exact h3.1
  · rintro ⟨⟨hk0, hkl, hc⟩, ⟨h1, _⟩, h3⟩
    have hlt : k - 1 < cs.length := by omega
    rw [toArray_getD cs hlt] at hc
    refine ⟨⟨by omega, hkl⟩, ?_⟩
    have hidx : s.length < (cs.drop (k - (s.length + 1))).length := by simp; omega
    rw [List.take_succ_eq_append_getElem hidx, sameFold_append_single _ _ _ _ (by simp; omega)]
    rw [show k - 1 - s.length = k - (s.length + 1) by omega] at h3
    simp only [Bool.and_eq_true, decide_eq_true_eq, List.getElem_drop]
    refine ⟨h3, ?_⟩
    rw [← hc]; congr 2; omega

theorem occursI_cons_bwd (k c : Nat) (s : List Nat) :
    occursI cs false k (c :: s) =
      (occursI cs false k s &&
        decide (0 < k - s.length ∧ C10.scfRep (cs.toArray.getD (k - s.length - 1) 0) = C10.scfRep c)) := by
  apply bool_eq_of_iff
  simp only [occursI, Bool.false_eq_true, if_false, List.length_cons, Bool.and_eq_true, decide_eq_true_eq]
  constructor
  · rintro ⟨⟨h1, h2⟩, h3⟩
    have hlt : k - (s.length + 1) < cs.length := by omega
    rw [List.drop_eq_getElem_cons hlt, List.take_succ_cons, sameFold_cons] at h3
    simp only [Bool.and_eq_true, decide_eq_true_eq] at h3
    refine ⟨⟨⟨by omega, h2⟩, ?_⟩, by omega, ?_⟩
    · rw [show k - s.length = k - (s.length + 1) + 1 by omega]; exact h3.2
    · rw [show k - s.length - 1 = k - (s.length + 1) by omega, toArray_getD cs hlt]; exact h3.1
  · rintro ⟨⟨⟨h1, h2⟩, h3⟩, h4, h5⟩
    have hlt : k - (s.length + 1) < cs.length := by omega
    refine ⟨⟨by omega, h2⟩, ?_⟩
    rw [List.drop_eq_getElem_cons hlt, List.take_succ_cons, sameFold_cons]
    rw [show k - s.length - 1 = k - (s.length + 1) by omega, toArray_getD cs hlt] at h5
    simp only [Bool.and_eq_true, decide_eq_true_eq]
    exact ⟨h5, by rw [show k - (s.length + 1) + 1 = k - s.length by omega]; exact h3⟩

/-! ## `cpStep` under `i` -/

omit cs inp in
theorem contains_fun (l : List Nat) : (fun b => l.contains b) = (fun c => decide (c ∈ l)) := by
  funext c; simp

omit cs inp in
theorem beq_fun (x : Nat) : (fun c2 : Nat => c2 == x) = (fun c => decide (c ∈ [x])) := by
  funext c; apply bool_eq_of_iff; simp

omit cs inp in
theorem charsetContains_fun (l : List Nat) : charsetContains l = (fun c => decide (c ∈ l)) := by
  funext c
  apply bool_eq_of_iff
  rw [charsetContains_iff]; simp

/-- What `cpStep` tests under `i` with `u`/`v`: one `cursor::next`, membership in `unfold_char cp`. -/
theorem cpStep_icase_charStep (ht : Utf8Text inp cs) (hu : inp.unicode = true) (fwd : Bool) {p : Nat}
    (hb : AtBoundary cs p) (cp : Nat) :
    cpStep inp true fwd p cp = charStep inp fwd p (fun c => decide (c ∈ unfoldChar cp)) := by
  simp only [cpStep, expandCodePoint, Bool.not_true, Bool.false_eq_true, if_false, hu, if_true]
  have hself : cp ∈ unfoldChar cp := (C10.unfold_iff cp cp).2 rfl
  match hl : unfoldChar cp with
  | [] => rw [hl] at hself; cases hself
  | [x] =>
    rw [hl] at hself
    have hx : x = cp := (List.mem_singleton.1 hself).symm
    subst hx
    by_cases hc : Utf8.isScalar x = true
    case neg =>
      simp only [hc, Bool.false_eq_true, if_false]
      rw [beq_fun]
    simp only [hc, if_true]
    -- `matchBytes` of one scalar is the char test
    obtain ⟨k, hk, rfl⟩ := hb
    have hds : Utf8.AllScalar [x] := fun y hy => by simp at hy; subst hy; exact hc
    have henc : Utf8.encodeAll [x] = Utf8.encode x := by simp
    cases fwd with
    | true =>
      simp only [Input.matchBytes, ht.bytes, ← henc]
      have key := Utf8.matchBytes_iff_chars ht.scalar hds k
      by_cases hlt : k < cs.length
      · rw [charStep_fwd_at ht hlt]
        by_cases hcx : cs[k] = x
        · simp only [hcx, List.mem_singleton, decide_true, if_true]
          exact (key _).2 ⟨(single_prefix_iff x k).2 ⟨hlt, by rw [toArray_getD cs hlt]; exact hcx⟩, rfl⟩
        · simp only [List.mem_singleton, hcx, decide_false, Bool.false_eq_true, if_false]
          cases hm : Utf8.matchBytes (Utf8.text cs) true (Utf8.off cs k) (Utf8.encodeAll [x]) with
          | none => rfl
          | some e =>
            have := (single_prefix_iff x k).1 ((key e).1 hm).1
            rw [toArray_getD cs hlt] at this
            exact absurd this.2 hcx
      · have : k = cs.length := by omega
        subst this
        rw [charStep_fwd_end ht]
        cases hm : Utf8.matchBytes (Utf8.text cs) true (Utf8.off cs cs.length) (Utf8.encodeAll [x]) with
        | none => rfl
        | some e =>
          have := (single_prefix_iff x cs.length).1 ((key e).1 hm).1
          omega
    | false =>
      simp only [Input.matchBytes, ht.bytes, ← henc]
      have key := Utf8.matchBytes_back_iff_chars ht.scalar hds hk
      by_cases h0 : 0 < k
      · rw [charStep_bwd_at ht h0 hk]
        have hlt : k - 1 < cs.length := by omega
        by_cases hcx : cs[k - 1] = x
        · simp only [hcx, List.mem_singleton, decide_true, if_true]
          exact (key _).2 ⟨(single_suffix_iff x hk).2 ⟨h0, by rw [toArray_getD cs hlt]; exact hcx⟩, rfl⟩
        · simp only [List.mem_singleton, hcx, decide_false, Bool.false_eq_true, if_false]
          cases hm : Utf8.matchBytes (Utf8.text cs) false (Utf8.off cs k) (Utf8.encodeAll [x]) with
          | none => rfl
          | some e =>
            have := (single_suffix_iff x hk).1 ((key e).1 hm).1
            rw [toArray_getD cs hlt] at this
            exact absurd this.2 hcx
      · have : k = 0 := by omega
        subst this
        have hst := charStep_bwd_start ht (fun c => decide (c ∈ [x]))
        rw [hst]
        cases hm : Utf8.matchBytes (Utf8.text cs) false (Utf8.off cs 0) (Utf8.encodeAll [x]) with
        | none => rfl
        | some e =>
          have := (single_suffix_iff x (Nat.zero_le _)).1 ((key e).1 hm).1
          omega
  | x :: y :: r =>
    simp only
    generalize x :: y :: r = l
    by_cases hascii : l.all (fun c => decide (c ≤ 0x7F)) = true
    · simp only [hascii, if_true]
      rw [byteStep_eq_charStep ht fwd hb _ (fun b hb' => by
        have := List.all_eq_true.1 hascii b (by simpa using hb')
        simp only [decide_eq_true_eq] at this; omega)]
      rw [contains_fun]
    · simp only [hascii, Bool.false_eq_true, if_false]
      rw [charsetContains_fun]

theorem mem_unfold_iff (c cp : Nat) : c ∈ unfoldChar cp ↔ C10.scfRep c = C10.scfRep cp := by
  rw [C10.unfold_iff, same_class_iff]

theorem cpStep_icase_fwd (ht : Utf8Text inp cs) (hu : inp.unicode = true) (k c : Nat) (hk : k ≤ cs.length) :
    cpStep inp true true (Utf8.off cs k) c =
      if k < cs.length ∧ C10.scfRep (cs.toArray.getD k 0) = C10.scfRep c then some (Utf8.off cs (k + 1))
      else none := by
  rw [cpStep_icase_charStep ht hu true ⟨k, hk, rfl⟩ c]
  by_cases hlt : k < cs.length
  · rw [charStep_fwd_at ht hlt, toArray_getD cs hlt]
    simp only [mem_unfold_iff, hlt, true_and]
    by_cases h : C10.scfRep cs[k] = C10.scfRep c <;> simp [h]
  · have : k = cs.length := by omega
    subst this
    rw [charStep_fwd_end ht]; simp

theorem cpStep_icase_bwd (ht : Utf8Text inp cs) (hu : inp.unicode = true) {k : Nat} (hk : k ≤ cs.length) (c : Nat) :
    cpStep inp true false (Utf8.off cs k) c =
      if 0 < k ∧ C10.scfRep (cs.toArray.getD (k - 1) 0) = C10.scfRep c then some (Utf8.off cs (k - 1))
      else none := by
  rw [cpStep_icase_charStep ht hu false ⟨k, hk, rfl⟩ c]
  by_cases h0 : 0 < k
  · have hlt : k - 1 < cs.length := by omega
    rw [charStep_bwd_at ht h0 hk, toArray_getD cs hlt]
    simp only [mem_unfold_iff, h0, true_and]
    by_cases h : C10.scfRep (cs[k - 1]'hlt) = C10.scfRep c <;> simp [h]
  · have : k = 0 := by omega
    subst this
    rw [charStep_bwd_start ht]; simp

theorem cpSeq_icase_fwd (ht : Utf8Text inp cs) (hu : inp.unicode = true) : ∀ (s : List Nat) (k : Nat),
    k ≤ cs.length →
    stepSeq (cpStep inp true true) s (Utf8.off cs k) =
      if occursI cs true k s then some (Utf8.off cs (k + s.length)) else none
  | [], k, hk => by simp [stepSeq, occursI, sameFold, hk]
  | c :: s, k, hk => by
    simp only [stepSeq, cpStep_icase_fwd ht hu k c hk, occursI_cons_fwd]
    by_cases h : k < cs.length ∧ C10.scfRep (cs.toArray.getD k 0) = C10.scfRep c
    · rw [if_pos h]
      simp only [h, and_self, decide_true, Bool.true_and]
      rw [cpSeq_icase_fwd ht hu s (k + 1) (by omega)]
      simp only [List.length_cons]
      rw [show k + 1 + s.length = k + (s.length + 1) by omega]
    · rw [if_neg h]
      have : decide (k < cs.length ∧ C10.scfRep (cs.toArray.getD k 0) = C10.scfRep c) = false := by simpa using h
      simp only [this, Bool.false_and, Bool.false_eq_true, if_false]

theorem cpSeq_icase_bwd (ht : Utf8Text inp cs) (hu : inp.unicode = true) : ∀ (r : List Nat) (k : Nat),
    k ≤ cs.length →
    stepSeq (cpStep inp true false) r (Utf8.off cs k) =
      if occursI cs false k r.reverse then some (Utf8.off cs (k - r.length)) else none
  | [], k, hk => by simp [stepSeq, occursI, sameFold, hk]
  | c :: r, k, hk => by
    simp only [stepSeq, cpStep_icase_bwd ht hu hk c, List.reverse_cons, occursI_snoc_bwd]
    by_cases h : 0 < k ∧ C10.scfRep (cs.toArray.getD (k - 1) 0) = C10.scfRep c
    · rw [if_pos h]
      have h' : (0 < k ∧ k ≤ cs.length ∧ C10.scfRep (cs.toArray.getD (k - 1) 0) = C10.scfRep c) :=
        ⟨h.1, hk, h.2⟩
      simp only [h', and_self, decide_true, Bool.true_and]
      rw [cpSeq_icase_bwd ht hu r (k - 1) (by omega)]
      simp only [List.length_cons]
      rw [show k - 1 - r.length = k - (r.length + 1) by omega]
    · rw [if_neg h]
      have : decide (0 < k ∧ k ≤ cs.length ∧ C10.scfRep (cs.toArray.getD (k - 1) 0) = C10.scfRep c) = false := by
        simp only [decide_eq_false_iff_not]; exact fun hh => h ⟨hh.1, hh.2.2⟩
      simp only [this, Bool.false_and, Bool.false_eq_true, if_false]

/-- One alternative of a `StringSet` under `i`. -/
theorem cpSeq_icase (ht : Utf8Text inp cs) (hu : inp.unicode = true) (fwd : Bool) (s : List Nat) {k : Nat}
    (hk : k ≤ cs.length) :
    cpSeq inp true fwd s (Utf8.off cs k) =
      if occursI cs fwd k s then some (Utf8.off cs (advance fwd k s.length)) else none := by
  cases fwd with
  | true => simpa [cpSeq, advance] using cpSeq_icase_fwd ht hu s k hk
  | false =>
    have := cpSeq_icase_bwd ht hu s.reverse k hk
    simpa [cpSeq, advance] using this


theorem occursI_nil (fwd : Bool) (k : Nat) (hk : k ≤ cs.length) : occursI cs fwd k [] = true := by
  cases fwd <;> simp [occursI, sameFold, hk]

theorem occursI_single_fwd (k c : Nat) :
    occursI cs true k [c] = decide (k < cs.length ∧ C10.scfRep (cs.toArray.getD k 0) = C10.scfRep c) := by
  rw [occursI_cons_fwd]
  apply bool_eq_of_iff
  simp only [Bool.and_eq_true, decide_eq_true_eq, occursI, if_true, List.length_nil, Nat.add_zero, sameFold,
    List.take_zero, List.map_nil, beq_self_eq_true, and_true]
  constructor
  · rintro ⟨h, _⟩; exact h
  · intro h; exact ⟨h, by omega⟩

theorem occursI_single_bwd (k c : Nat) :
    occursI cs false k [c] =
      decide (0 < k ∧ k ≤ cs.length ∧ C10.scfRep (cs.toArray.getD (k - 1) 0) = C10.scfRep c) := by
  have := occursI_snoc_bwd (cs := cs) k c []
  simp only [List.nil_append] at this
  rw [this]
  apply bool_eq_of_iff
  simp only [Bool.and_eq_true, decide_eq_true_eq, occursI, Bool.false_eq_true, if_false, List.length_nil,
    Nat.sub_zero, sameFold, List.take_zero, List.map_nil, beq_self_eq_true, and_true, Nat.zero_le, true_and]
  constructor
  · rintro ⟨h, _⟩; exact h
  · intro h; exact ⟨h, by omega⟩

theorem occursI_bound {fwd : Bool} {e : Nat} {a : List Nat} (he : e ≤ cs.length)
    (h : occursI cs fwd e a = true) : advance fwd e a.length ≤ cs.length := by
  cases fwd <;>
    simp only [occursI, if_true, Bool.false_eq_true, if_false, Bool.and_eq_true, decide_eq_true_eq, advance] at h ⊢ <;>
    omega

/-- `occursI` only looks at the folding classes of the string. -/
theorem occursI_congr (fwd : Bool) (k : Nat) {a b : List Nat} (h : a.map C10.scfRep = b.map C10.scfRep) :
    occursI cs fwd k a = occursI cs fwd k b := by
  have hl : a.length = b.length := by simpa using congrArg List.length h
  simp only [occursI, sameFold, h, hl]

/-! ## The specification's Matchers under `i` -/

theorem existsCanonMember_single_i {rer : ES.RER} (hic : rer.ignoreCase = true)
    (hu : rer.hasEitherUnicodeFlag = true) (c ch : Nat) :
    ES.existsCanonMember rer (ES.CharSet.single c) ch = decide (C10.scfRep ch = C10.scfRep c) := by
  apply bool_eq_of_iff
  rw [existsCanonMember_icase hic hu]
  simp only [ES.CharSet.single, beq_iff_eq, decide_eq_true_eq]
  constructor
  · rintro ⟨a, h1, rfl⟩; exact h1.symm
  · intro h; exact ⟨c, h.symm, rfl⟩

/-- `CharacterSetMatcher` of one character under `i`. -/
theorem csm_single_run_i {rer : ES.RER} (hic : rer.ignoreCase = true) (hu : rer.hasEitherUnicodeFlag = true)
    (back : Bool) (c : Nat) (fuel : Nat) (x : ES.State) (k : ES.Cont) (hx : x.endIndex ≤ cs.length) :
    (ES.characterSetMatcher cs.toArray rer (ES.CharSet.single c) false (dirOf back)).run fuel x k =
      if occursI cs (!back) x.endIndex [c] then k { x with endIndex := advance (!back) x.endIndex 1 }
      else .failure := by
  cases back with
  | false =>
    simp only [dirOf_false, Bool.not_false, ES.characterSetMatcher, reduceCtorEq, false_and, true_and,
      false_or, if_true, List.size_toArray, advance]
    rw [occursI_single_fwd]
    by_cases hlt : x.endIndex < cs.length
    · have hns : ¬ (x.endIndex + 1 > cs.length) := by omega
      have hmin : min x.endIndex (x.endIndex + 1) = x.endIndex := by omega
      rw [if_neg hns, hmin, existsCanonMember_single_i hic hu]
      by_cases h : C10.scfRep (cs.toArray.getD x.endIndex 0) = C10.scfRep c <;> simp [h, hlt]
    · have hns : x.endIndex + 1 > cs.length := by omega
      rw [if_pos hns]
      simp [hlt]
  | true =>
    simp only [dirOf_true, Bool.not_true, ES.characterSetMatcher, reduceCtorEq, false_and, true_and,
      or_false, if_false, List.size_toArray, advance]
    rw [occursI_single_bwd]
    by_cases h0 : x.endIndex = 0
    · rw [if_pos h0]
      simp [h0]
    · have hmin : min x.endIndex (x.endIndex - 1) = x.endIndex - 1 := by omega
      have hpos : 0 < x.endIndex := by omega
      rw [if_neg h0, hmin, existsCanonMember_single_i hic hu]
      by_cases h : C10.scfRep (cs.toArray.getD (x.endIndex - 1) 0) = C10.scfRep c <;> simp [h, hpos, hx]

/-- The Matcher of one ClassString under `i`: the text here folds like the string. -/
theorem classString_run_i {rer : ES.RER} (hic : rer.ignoreCase = true) (hu : rer.hasEitherUnicodeFlag = true)
    (back : Bool) :
    ∀ (s : List Nat) (fuel : Nat) (x : ES.State) (k : ES.Cont), x.endIndex ≤ cs.length →
      (ES.classStringMatcher cs.toArray rer (dirOf back) s).run fuel x k =
        if occursI cs (!back) x.endIndex s then k { x with endIndex := advance (!back) x.endIndex s.length }
        else .failure
  | [], fuel, x, k, hx => by
    cases back <;> simp [ES.classStringMatcher, ES.emptyMatcher, occursI_nil _ _ hx, advance]
  | [c], fuel, x, k, hx => by
    simp only [ES.classStringMatcher]
    exact csm_single_run_i hic hu back c fuel x k hx
  | c :: d :: r, fuel, x, k, hx => by
    simp only [ES.classStringMatcher]
    cases back with
    | false =>
      simp only [dirOf_false, ES.matchSequence, Bool.not_false]
      have h1 := csm_single_run_i (cs := cs) hic hu false c fuel x
        (fun y => (ES.classStringMatcher cs.toArray rer .forward (d :: r)).run fuel y k) hx
      simp only [dirOf_false, Bool.not_false] at h1
      rw [h1, occursI_cons_fwd (cs := cs) x.endIndex c (d :: r), occursI_single_fwd]
      by_cases h : x.endIndex < cs.length ∧ C10.scfRep (cs.toArray.getD x.endIndex 0) = C10.scfRep c
      · have hd2 : decide (x.endIndex < cs.length ∧
            C10.scfRep (cs.toArray.getD x.endIndex 0) = C10.scfRep c) = true := by
          simp only [decide_eq_true_eq]; exact h
        rw [if_pos hd2, hd2, Bool.true_and]
        have := classString_run_i hic hu false (d :: r) fuel { x with endIndex := advance true x.endIndex 1 } k
          (by simp only [advance, if_true]; omega)
        simp only [dirOf_false, Bool.not_false] at this
        rw [this]
        simp only [advance, if_true, List.length_cons]
        by_cases ho : occursI cs true (x.endIndex + 1) (d :: r) = true
        · rw [if_pos ho, if_pos ho]; congr 2; omega
        · rw [if_neg ho, if_neg ho]
      · have hd2 : decide (x.endIndex < cs.length ∧
            C10.scfRep (cs.toArray.getD x.endIndex 0) = C10.scfRep c) = false := by
          simp only [decide_eq_false_iff_not]; exact h
        rw [hd2, Bool.false_and]
        simp
    | true =>
      simp only [dirOf_true, ES.matchSequence, Bool.not_true]
      have h2 := classString_run_i hic hu true (d :: r) fuel x
        (fun y => (ES.characterSetMatcher cs.toArray rer (ES.CharSet.single c) false .backward).run fuel y k) hx
      simp only [dirOf_true, Bool.not_true] at h2
      rw [h2, occursI_cons_bwd (cs := cs) x.endIndex c (d :: r)]
      by_cases ho : occursI cs false x.endIndex (d :: r) = true
      · rw [if_pos ho, ho, Bool.true_and]
        have hle : (d :: r).length ≤ x.endIndex := by
          simp only [occursI, Bool.false_eq_true, if_false, Bool.and_eq_true, decide_eq_true_eq] at ho
          exact ho.1.1
        have h1 := csm_single_run_i (cs := cs) hic hu true c fuel
          { x with endIndex := advance false x.endIndex (d :: r).length } k
          (by simp only [advance, Bool.false_eq_true, if_false]; omega)
        simp only [dirOf_true, Bool.not_true] at h1
        rw [h1, occursI_single_bwd]
        simp only [advance, Bool.false_eq_true, if_false]
        by_cases hc : 0 < x.endIndex - (d :: r).length ∧
            C10.scfRep (cs.toArray.getD (x.endIndex - (d :: r).length - 1) 0) = C10.scfRep c
        · have hd1 : decide (0 < x.endIndex - (d :: r).length ∧ x.endIndex - (d :: r).length ≤ cs.length ∧
              C10.scfRep (cs.toArray.getD (x.endIndex - (d :: r).length - 1) 0) = C10.scfRep c) = true := by
            simp only [decide_eq_true_eq]
            exact ⟨hc.1, by omega, hc.2⟩
          have hd2 : decide (0 < x.endIndex - (d :: r).length ∧
              C10.scfRep (cs.toArray.getD (x.endIndex - (d :: r).length - 1) 0) = C10.scfRep c) = true := by
            simp only [decide_eq_true_eq]; exact hc
          rw [if_pos hd1, if_pos hd2]
          congr 2
        · have hd1 : ¬ (decide (0 < x.endIndex - (d :: r).length ∧ x.endIndex - (d :: r).length ≤ cs.length ∧
              C10.scfRep (cs.toArray.getD (x.endIndex - (d :: r).length - 1) 0) = C10.scfRep c) = true) := by
            simp only [decide_eq_true_eq]
            exact fun hh => hc ⟨hh.1, hh.2.2⟩
          have hd2 : ¬ (decide (0 < x.endIndex - (d :: r).length ∧
              C10.scfRep (cs.toArray.getD (x.endIndex - (d :: r).length - 1) 0) = C10.scfRep c) = true) := by
            simp only [decide_eq_true_eq]; exact hc
          rw [if_neg hd1, if_neg hd2]
      · rw [if_neg ho]
        have : occursI cs false x.endIndex (d :: r) = false := by simpa using ho
        rw [this, Bool.false_and]
        simp

/-- `CharacterSetMatcher(rer, A, false, direction)` (any flags) as a one-character trial. -/
theorem csm_run_gen {rer : ES.RER} (A : ES.CharSet) (back : Bool) (fuel : Nat)
    (x : ES.State) (k : ES.Cont) (hx : x.endIndex ≤ cs.length) :
    (ES.characterSetMatcher cs.toArray rer A false (dirOf back)).run fuel x k =
      match charTrial cs (!back) x.endIndex (ES.existsCanonMember rer A) with
      | none => .failure
      | some l => k { x with endIndex := advance (!back) x.endIndex l } := by
  cases back with
  | false =>
    simp only [dirOf_false, Bool.not_false, ES.characterSetMatcher, reduceCtorEq, false_and, true_and,
      false_or, if_true, List.size_toArray, charTrial]
    by_cases hlt : x.endIndex < cs.length
    · have hns : ¬ (x.endIndex + 1 > cs.length) := by omega
      have hmin : min x.endIndex (x.endIndex + 1) = x.endIndex := by omega
      rw [if_neg hns, hmin]
      simp only [hlt, true_and, Bool.true_and, Bool.false_and, Bool.false_eq_true, if_false, advance, if_true]
      cases ES.existsCanonMember rer A (cs.toArray.getD x.endIndex 0) <;> simp
    · have hns : x.endIndex + 1 > cs.length := by omega
      rw [if_pos hns]
      simp [hlt]
  | true =>
    simp only [dirOf_true, Bool.not_true, ES.characterSetMatcher, reduceCtorEq, false_and, true_and,
      or_false, if_false, List.size_toArray, charTrial, Bool.false_eq_true]
    by_cases h0 : x.endIndex = 0
    · rw [if_pos h0]
      simp [h0]
    · have hmin : min x.endIndex (x.endIndex - 1) = x.endIndex - 1 := by omega
      have hpos : 0 < x.endIndex := by omega
      rw [if_neg h0, hmin]
      simp only [hpos, true_and, Bool.true_and, Bool.false_and, Bool.false_eq_true, if_false, advance]
      cases ES.existsCanonMember rer A (cs.toArray.getD (x.endIndex - 1) 0) <;> simp

/-- the trial a string offers under `i` -/
def strTrialI (cs : List Nat) (fwd : Bool) (e : Nat) (s : List Nat) : Option Nat :=
  if occursI cs fwd e s then some s.length else none

def Trial.offerI (cs : List Nat) (fwd : Bool) (e : Nat) (P : Nat → Bool) : Trial → Option Nat
  | .str s => strTrialI cs fwd e s
  | .single => charTrial cs fwd e P
  | .empty => some 0

/-- The specification's Matcher of a class with strings under `i`, as a trial list. -/
theorem charSetAtom_trials_i {rer : ES.RER} (hic : rer.ignoreCase = true) (hu : rer.hasEitherUnicodeFlag = true)
    (hus : rer.unicodeSets = true)
    (A : ES.CharSet) (back : Bool) (fuel : Nat) (x : ES.State) (c : ES.Cont) (hx : x.endIndex ≤ cs.length) :
    (ES.charSetAtomMatcher cs.toArray rer A false (dirOf back)).run fuel x c =
      tryListES (fun l => c { x with endIndex := advance (!back) x.endIndex l })
        (((A.strs.filter (fun s => s.length > 1)).mergeSort (fun s t => s.length ≥ t.length)).map
            (strTrialI cs (!back) x.endIndex) ++
          [charTrial cs (!back) x.endIndex (ES.existsCanonMember rer { chars := A.chars })] ++
          (if A.strs.contains [] then [some 0] else [])) := by
  simp only [ES.charSetAtomMatcher, hus, Bool.not_true, Bool.false_or]
  by_cases hs : A.onlySingles = true
  · simp only [hs, if_true]
    have hnil : A.strs = [] := by simpa [ES.CharSet.onlySingles] using hs
    have hA : ES.existsCanonMember rer A = ES.existsCanonMember rer { chars := A.chars } := by
      funext ch; simp [ES.existsCanonMember]
    rw [csm_run_gen A back fuel x c hx, hnil, hA]
    simp only [List.filter_nil, List.mergeSort_nil, List.map_nil, List.nil_append, List.contains_nil,
      Bool.false_eq_true, if_false, List.append_nil]
    cases charTrial cs (!back) x.endIndex (ES.existsCanonMember rer { chars := A.chars }) with
    | none => rfl
    | some l => simp [tryListES, orElse]; cases c { x with endIndex := advance (!back) x.endIndex l } <;> rfl
  · simp only [hs, Bool.false_eq_true, if_false]
    let long := (A.strs.filter (fun s => s.length > 1)).mergeSort (fun s t => s.length ≥ t.length)
    let L : List Trial := long.map Trial.str ++ [Trial.single] ++ (if A.strs.contains [] then [Trial.empty] else [])
    have hms : (if A.strs.contains [] = true then
          long.map (ES.classStringMatcher cs.toArray rer (dirOf back)) ++
            [ES.characterSetMatcher cs.toArray rer { chars := A.chars } false (dirOf back)] ++ [ES.emptyMatcher]
        else long.map (ES.classStringMatcher cs.toArray rer (dirOf back)) ++
            [ES.characterSetMatcher cs.toArray rer { chars := A.chars } false (dirOf back)]) =
        L.map (Trial.matcher cs.toArray rer A (dirOf back)) := by
      simp only [L]
      split <;> simp [Trial.matcher, List.map_append, Function.comp_def]
    have hT : long.map (strTrialI cs (!back) x.endIndex) ++
          [charTrial cs (!back) x.endIndex (ES.existsCanonMember rer { chars := A.chars })] ++
          (if A.strs.contains [] then [some 0] else []) =
        L.map (Trial.offerI cs (!back) x.endIndex (ES.existsCanonMember rer { chars := A.chars })) := by
      simp only [L]
      split <;> simp [Trial.offerI, List.map_append, Function.comp_def]
    show (ES.alternativesOf (if A.strs.contains [] = true then _ else _)).run fuel x c = _
    rw [hms, hT]
    apply alternativesOf_run
    intro a _
    cases a with
    | str s =>
      simp only [Trial.matcher, Trial.offerI, strTrialI]
      rw [classString_run_i hic hu back s fuel x c hx]
      split <;> rfl
    | single =>
      simp only [Trial.matcher, Trial.offerI]
      exact csm_run_gen { chars := A.chars } back fuel x c hx
    | empty =>
      simp only [Trial.matcher, Trial.offerI, ES.emptyMatcher]
      congr 1
      cases back <;> simp [advance]

/-! ## The crate's node under `i` -/

theorem sem_stringSet_icase (ht : Utf8Text inp cs) (hu : inp.unicode = true) (fwd : Bool) (st : St) {e : Nat}
    (he : e ≤ cs.length) (hpos : st.pos = Utf8.off cs e) :
    ∀ (alts : List (List Nat)),
      sem inp (.stringSet alts true) fwd st = trialStates cs st fwd e (alts.map (strTrialI cs fwd e)) := by
  intro alts
  simp only [sem]
  induction alts with
  | nil => rfl
  | cons a t ih =>
    simp only [List.flatMap_cons, List.map_cons, ih]
    rw [hpos, cpSeq_icase ht hu fwd a he]
    simp only [trialStates, List.filterMap_cons, strTrialI]
    by_cases ho : occursI cs fwd e a = true
    · simp [ho, optSt]
    · have : occursI cs fwd e a = false := by simpa using ho
      simp [this, optSt]

/-- The successes of `ClassSet::node` under `i` (not negated) as a trial list. -/
theorem node_trials_i (ht : Utf8Text inp cs) (hu : inp.unicode = true) (fwd : Bool) (st : St) {e : Nat}
    (he : e ≤ cs.length) (hpos : st.pos = Utf8.off cs e) (s : ClassSet) (hlen1 : ∀ a ∈ s.alts, a.length ≠ 1) :
    sem inp (s.node true false) fwd st =
      trialStates cs st fwd e
        ((sortByLenDesc (s.alts.filter (fun a => !a.isEmpty))).map (strTrialI cs fwd e) ++
          [charTrial cs fwd e (bracketTest { invert := false, ivs := pairsOfIvs (addIcaseCodePoints s.cps) })] ++
          (if s.alts.any (fun a => a.isEmpty) then [some 0] else [])) := by
  have hstr := sem_stringSet_icase ht hu fwd st he hpos (sortByLenDesc (s.alts.filter (fun a => !a.isEmpty)))
  have hbr : sem inp (mkBracket false (addIcaseCodePoints s.cps)) fwd st =
      trialStates cs st fwd e
        [charTrial cs fwd e (bracketTest { invert := false, ivs := pairsOfIvs (addIcaseCodePoints s.cps) })] :=
    sem_bracket_trial ht fwd st he hpos _ _ (by simp only [mkBracket, sem])
  have h0 : sem inp (({ s with alts := s.alts.filter (fun a => !a.isEmpty) } : ClassSet).nonemptyNode true false)
        fwd st =
      trialStates cs st fwd e
        ((sortByLenDesc (s.alts.filter (fun a => !a.isEmpty))).map (strTrialI cs fwd e) ++
          [charTrial cs fwd e (bracketTest { invert := false, ivs := pairsOfIvs (addIcaseCodePoints s.cps) })]) := by
    simp only [ClassSet.nonemptyNode, if_true]
    by_cases h1 : (s.alts.filter (fun a => !a.isEmpty)).isEmpty = true
    · have hnil : s.alts.filter (fun a => !a.isEmpty) = [] := by simpa using h1
      rw [hnil]
      simp only [List.isEmpty_nil, if_true]
      rw [hbr]; simp [sortByLenDesc]
    · simp only [h1, Bool.false_eq_true, if_false]
      by_cases h2 : (addIcaseCodePoints s.cps).isEmpty = true
      · have hnil : addIcaseCodePoints s.cps = [] := by simpa using h2
        simp only [h2, if_true, altsIntoNode]
        rw [hstr, hnil, charTrial_empty, trialStates_none]
      · simp only [h2, Bool.false_eq_true, if_false, makeAlt_two, altsIntoNode]
        rw [sem_alt, hstr, hbr, trialStates_append]
  rw [node_eq s true false hlen1]
  by_cases hE : s.alts.any (fun a => a.isEmpty) = true
  · simp only [hE, if_true, makeAlt_two]
    rw [sem_alt, h0, trialStates_zero st fwd hpos]
    simp only [sem]
  · simp only [hE, Bool.false_eq_true, if_false, List.append_nil]
    exact h0

theorem mem_map_strTrialI {fwd : Bool} {e l : Nat} {L : List (List Nat)} :
    some l ∈ L.map (strTrialI cs fwd e) ↔ ∃ a ∈ L, occursI cs fwd e a = true ∧ a.length = l := by
  simp only [List.mem_map, strTrialI]
  constructor
  · rintro ⟨a, ha, h⟩
    split at h
    · rename_i ho; exact ⟨a, ha, ho, by simpa using h⟩
    · cases h
  · rintro ⟨a, ha, ho, hl⟩
    exact ⟨a, ha, by simp [ho, hl]⟩

theorem desc_strTrialsI {fwd : Bool} {e : Nat} (m : Nat) (R : List (Option Nat)) :
    ∀ (L : List (List Nat)), L.Pairwise (fun a b => b.length ≤ a.length) → (∀ a ∈ L, m ≤ a.length) →
      Desc R → (∀ l, some l ∈ R → l ≤ m) → Desc (L.map (strTrialI cs fwd e) ++ R)
  | [], _, _, hR, _ => hR
  | a :: t, hp, hm, hR, hRm => by
    obtain ⟨h1, h2⟩ := List.pairwise_cons.1 hp
    have ih := desc_strTrialsI (fwd := fwd) (e := e) m R t h2 (fun b hb => hm b (by simp [hb])) hR hRm
    simp only [List.map_cons, List.cons_append, strTrialI]
    split
    · refine ⟨fun l' hl' => ?_, ih⟩
      rcases List.mem_append.1 hl' with h | h
      · obtain ⟨b, hb, _, rfl⟩ := mem_map_strTrialI.1 h
        exact h1 b hb
      · have := hRm l' h; have := hm a (by simp); omega
    · exact ih

/-- **A `v`-mode class with strings under `i`.**  `A` is the specification's (folded) CharSet,
`s` the crate's set: `s.cps` denotes `A.chars` up to folding, and `A.strs` are the foldings of
`s.alts`. -/
theorem sim_stringClass_i (ht : Utf8Text inp cs) (hiu : inp.unicode = true) (total : Nat) (rer : ES.RER)
    (hic : rer.ignoreCase = true) (hu : rer.hasEitherUnicodeFlag = true)
    (hus : rer.unicodeSets = true) (A : ES.CharSet) (s : ClassSet)
    (htest : ∀ ch, ch ≤ 0x10FFFF → (ES.existsCanonMember rer { chars := A.chars } ch = true ↔
        mem (addIcaseCodePoints s.cps) ch))
    (hsrel : ∀ t, t ∈ A.strs ↔ ∃ a ∈ s.alts, a.map C10.scfRep = t) (hlen1 : ∀ str ∈ s.alts, str.length ≠ 1)
    (back : Bool) (lo hi : Nat) :
    Sim inp cs total (ES.charSetAtomMatcher cs.toArray rer A false (dirOf back)) (s.node true false) (!back) lo hi := by
  intro fuel x st c k hr _ _ hc
  have he := hr.idx
  rw [charSetAtom_trials_i hic hu hus A back fuel x c he, node_trials_i ht hiu (!back) st he hr.pos s hlen1,
    findSome?_trialStates]
  -- the strings of both sides offer the same lengths
  have hoff : ∀ l, (∃ t ∈ (A.strs.filter (fun s => s.length > 1)).mergeSort (fun s t => s.length ≥ t.length),
        occursI cs (!back) x.endIndex t = true ∧ t.length = l) ↔
      (∃ a ∈ sortByLenDesc (s.alts.filter (fun a => !a.isEmpty)),
        occursI cs (!back) x.endIndex a = true ∧ a.length = l) := by
    intro l
    constructor
    · rintro ⟨t, ht', ho, hl⟩
      rw [List.mem_mergeSort, List.mem_filter, hsrel] at ht'
      obtain ⟨⟨a, ha, hat⟩, h2⟩ := ht'
      have hlen : a.length = t.length := by rw [← hat]; simp
      refine ⟨a, ?_, ?_, by omega⟩
      · rw [mem_sortByLenDesc, List.mem_filter]
        refine ⟨ha, ?_⟩
        simp only [decide_eq_true_eq] at h2
        cases a with
        | nil => simp at hlen; omega
        | cons _ _ => rfl
      · rw [← ho]; exact occursI_congr _ _ (by rw [← hat, List.map_map]; congr 1; funext y; exact (scfRep_idem y).symm)
    · rintro ⟨a, ha, ho, hl⟩
      rw [mem_sortByLenDesc, List.mem_filter] at ha
      refine ⟨a.map C10.scfRep, ?_, ?_, by simpa using hl⟩
      · rw [List.mem_mergeSort, List.mem_filter, hsrel]
        refine ⟨⟨a, ha.1, rfl⟩, ?_⟩
        have := hlen1 a ha.1
        have h2 := ha.2
        cases a with
        | nil => simp at h2
        | cons b t => simp only [List.length_map, List.length_cons, decide_eq_true_eq] at this ⊢; omega
      · rw [← ho]; exact occursI_congr _ _ (by rw [List.map_map]; congr 1; funext y; exact scfRep_idem y)
  have htb : charTrial cs (!back) x.endIndex (ES.existsCanonMember rer { chars := A.chars }) =
      charTrial cs (!back) x.endIndex
        (bracketTest { invert := false, ivs := pairsOfIvs (addIcaseCodePoints s.cps) }) :=
    charTrial_congr ht _ _ (fun ch hch => by
      apply bool_eq_of_iff
      rw [htest ch hch, bracketTest_mem]; simp)
  have hE : A.strs.contains [] = s.alts.any (fun a => a.isEmpty) := by
    apply bool_eq_of_iff
    simp only [List.contains_iff_mem, hsrel, List.any_eq_true, List.isEmpty_iff]
    constructor
    · rintro ⟨a, ha, hat⟩
      exact ⟨a, ha, by simpa using hat⟩
    · rintro ⟨a, ha, rfl⟩; exact ⟨[], ha, rfl⟩
  rw [htb, hE]
  have hpw : ((A.strs.filter (fun s => s.length > 1)).mergeSort (fun s t => s.length ≥ t.length)).Pairwise
      (fun a b => b.length ≤ a.length) := by
    have := List.pairwise_mergeSort (le := fun (s t : List Nat) => decide (s.length ≥ t.length))
      (fun a b c h1 h2 => by simp only [decide_eq_true_eq] at *; omega)
      (fun a b => by simp only [Bool.or_eq_true, decide_eq_true_eq]; omega)
      (A.strs.filter (fun s => s.length > 1))
    exact this.imp (fun h => by simpa using h)
  have htail := desc_tail
    (charTrial cs (!back) x.endIndex (bracketTest { invert := false, ivs := pairsOfIvs (addIcaseCodePoints s.cps) }))
    (s.alts.any (fun a => a.isEmpty)) (fun l h => charTrial_one h)
  have hge2 : ∀ a ∈ (A.strs.filter (fun s => s.length > 1)).mergeSort (fun s t => s.length ≥ t.length),
      2 ≤ a.length := by
    intro a ha
    rw [List.mem_mergeSort, List.mem_filter] at ha
    have := ha.2; simp only [decide_eq_true_eq] at this; omega
  have hge2' : ∀ a ∈ sortByLenDesc (s.alts.filter (fun a => !a.isEmpty)), 2 ≤ a.length := by
    intro a ha
    rw [mem_sortByLenDesc, List.mem_filter] at ha
    have := hlen1 a ha.1
    have h2 := ha.2
    cases a with
    | nil => simp at h2
    | cons b t => simp only [List.length_cons] at this ⊢; omega
  have hd1 := desc_strTrialsI (cs := cs) (fwd := !back) (e := x.endIndex) 2 _ _ hpw hge2 htail.1 htail.2
  have hd2 := desc_strTrialsI (cs := cs) (fwd := !back) (e := x.endIndex) 2 _ _
    (pairwise_sortByLenDesc (s.alts.filter (fun a => !a.isEmpty))) hge2' htail.1 htail.2
  rw [← List.append_assoc] at hd1 hd2
  apply resRel_tryList hd1 hd2
  · intro l
    simp only [List.mem_append, mem_map_strTrialI, hoff]
  · intro l hl
    have hbound : advance (!back) x.endIndex l ≤ cs.length := by
      simp only [List.mem_append, mem_map_strTrialI] at hl
      rcases hl with (⟨a, _, ho, rfl⟩ | hl) | hl
      · exact occursI_bound he ho
      · simp only [List.mem_singleton] at hl
        exact charTrial_bound he hl.symm
      · split at hl
        · simp only [List.mem_singleton, Option.some.injEq] at hl
          subst hl; cases back <;> simp [advance] <;> omega
        · cases hl
    refine hc _ _ ?_ (hr.withIdx hbound)
    rw [node_trials_i ht hiu (!back) st he hr.pos s hlen1]
    apply mem_trialStates
    have : some l ∈ ((A.strs.filter (fun s => s.length > 1)).mergeSort (fun s t => s.length ≥ t.length)).map
          (strTrialI cs (!back) x.endIndex) ++
        [charTrial cs (!back) x.endIndex
          (bracketTest { invert := false, ivs := pairsOfIvs (addIcaseCodePoints s.cps) })] ++
        (if s.alts.any (fun a => a.isEmpty) then [some 0] else []) := hl
    simp only [List.mem_append, mem_map_strTrialI, hoff] at this ⊢
    exact this

end

end Regress.Lower
