import Proofs.Lemmas.RoundTripScanNode
/-!
# Round trip, part 20: the alternative paths of the pre-scan (duplicate group names)

`collect_named_group_locations` records for every named group its *alternative path*: for every
nesting depth `d` up to the depth of the group, the id of the enclosing parenthesis at depth `d` and the
index of the alternative (number of `|` seen so far) at depth `d`.  Two groups of the same name conflict
unless their paths first differ in the alternative index of the same parenthesis.

This file describes the paths (`PathK`) and the shape of the scan state (`Sh`) step by step.
-/
namespace Regress.RoundTrip
open Regress Regress.IR Regress.Parse Regress.Lower Regress.Print

/-! ## The two depth-indexed maps -/

theorem altGet_altInsert (m : List (Nat × Nat)) (d v d' : Nat) :
    altGet (altInsert m d v) d' = if d' = d then some v else altGet m d' := by
  induction m with
  | nil =>
    by_cases h : d' = d
    · subst h; simp [altInsert, altGet]
    · have : (d == d') = false := by simpa using fun e => h e.symm
      simp [altInsert, altGet, h, this]
  | cons x xs ih =>
    obtain ⟨k, w⟩ := x
    by_cases hk : k = d
    · subst hk
      by_cases h : d' = k
      · subst h; simp [altInsert, altGet]
      · have : (k == d') = false := by simpa using fun e => h e.symm
        simp [altInsert, altGet, h, this]
    · have hkd : (k == d) = false := by simpa using hk
      simp only [altInsert, hkd, Bool.false_eq_true, if_false, altGet]
      by_cases h : k = d'
      · subst h
        have : ¬ k = d := hk
        simp [this]
      · have : (k == d') = false := by simpa using h
        simp only [this, Bool.false_eq_true, if_false, ih]

theorem altGet_altRemove (m : List (Nat × Nat)) (d d' : Nat) :
    altGet (altRemove m d) d' = if d' = d then none else altGet m d' := by
  induction m with
  | nil => simp [altRemove, altGet]
  | cons x xs ih =>
    obtain ⟨k, w⟩ := x
    simp only [altRemove] at ih ⊢
    by_cases hk : k = d
    · subst hk
      have : (k != k) = false := by simp
      simp only [List.filter_cons, this, Bool.false_eq_true, if_false, ih, altGet]
      by_cases h : d' = k
      · simp [h]
      · have : (k == d') = false := by simpa using fun e => h e.symm
        simp [h, this]
    · have hne : (k != d) = true := by simpa using hk
      simp only [List.filter_cons, hne, if_true, altGet, ih]
      by_cases h : k = d'
      · subst h
        have : ¬ k = d := hk
        simp [this]
      · have : (k == d') = false := by simpa using h
        simp [this]

/-- The id of the enclosing parenthesis at depth `d`. -/
def gidAt (sc : Scan) (d : Nat) : Nat := (altGet sc.groupIds d).getD 0
/-- The alternative index at depth `d`. -/
def altAt (sc : Scan) (d : Nat) : Nat := (altGet sc.altIdx d).getD 0

/-- The path recorded for a named group opened in state `sc`. -/
def curPath (sc : Scan) : List (Nat × Nat) :=
  (List.range (sc.parenDepth + 1)).map fun d => (gidAt sc d, altAt sc d)

theorem curPath_length (sc : Scan) : (curPath sc).length = sc.parenDepth + 1 := by simp [curPath]

theorem curPath_get (sc : Scan) {d : Nat} (h : d ≤ sc.parenDepth) :
    (curPath sc)[d]? = some (gidAt sc d, altAt sc d) := by
  simp [curPath, List.getElem?_map, List.getElem?_range (show d < sc.parenDepth + 1 by omega)]

/-! ## Shapes -/

/-- Two states agree on everything a path at depth `≤ D` reads, except possibly the alternative index at
depth `D` itself. -/
structure Agree (D : Nat) (a b : Scan) : Prop where
  gids : ∀ d, d ≤ D → gidAt b d = gidAt a d
  alts : ∀ d, d < D → altAt b d = altAt a d

theorem Agree.refl (D : Nat) (a : Scan) : Agree D a a := ⟨fun _ _ => rfl, fun _ _ => rfl⟩

theorem Agree.trans {D : Nat} {a b c : Scan} (h1 : Agree D a b) (h2 : Agree D b c) : Agree D a c :=
  ⟨fun d hd => (h2.gids d hd).trans (h1.gids d hd), fun d hd => (h2.alts d hd).trans (h1.alts d hd)⟩

theorem Agree.mono {D D' : Nat} {a b : Scan} (h : Agree D a b) (hd : D' ≤ D) : Agree D' a b :=
  ⟨fun d h' => h.gids d (by omega), fun d h' => h.alts d (by omega)⟩

/-- The scan of a balanced piece of text with `bars` top-level `|`: same depth, same enclosing
parentheses, the alternative index at the current depth advanced by `bars`. -/
structure Sh (bars : Nat) (a b : Scan) : Prop where
  depth : b.parenDepth = a.parenDepth
  agree : Agree a.parenDepth a b
  top : altAt b a.parenDepth = altAt a a.parenDepth + bars

theorem Sh.refl (a : Scan) : Sh 0 a a := ⟨rfl, Agree.refl _ _, rfl⟩

theorem Sh.of_seq {a b : Scan} (h : SEq a b) : Sh 0 a b := by
  unfold SEq at h; subst h; exact Sh.refl _

theorem Sh.trans {m n : Nat} {a b c : Scan} (h1 : Sh m a b) (h2 : Sh n b c) : Sh (m + n) a c := by
  refine ⟨h2.depth.trans h1.depth, h1.agree.trans (by rw [← h1.depth]; exact h2.agree), ?_⟩
  have := h2.top
  rw [h1.depth] at this
  rw [this, h1.top]
  omega

theorem curPath_take_agree {D : Nat} {a b : Scan} (h : Agree D a b) (ha : D ≤ a.parenDepth)
    (hb : D ≤ b.parenDepth) : (curPath b).take D = (curPath a).take D := by
  apply List.ext_getElem?
  intro i
  by_cases hi : i < D
  · rw [List.getElem?_take_of_lt hi, List.getElem?_take_of_lt hi, curPath_get b (by omega),
      curPath_get a (by omega), h.gids i (by omega), h.alts i hi]
  · simp [List.getElem?_take, hi]

/-! ## Paths -/

/-- A path recorded while scanning at depth `a.parenDepth`: it extends the path of `a` below the current
depth, and at the current depth it is in the current parenthesis with an alternative index in
`[lo, hi]`. -/
def PathK (a : Scan) (lo hi : Nat) (p : List (Nat × Nat)) : Prop :=
  a.parenDepth + 1 ≤ p.length ∧ p.take a.parenDepth = (curPath a).take a.parenDepth ∧
    ∃ k, p[a.parenDepth]? = some (gidAt a a.parenDepth, k) ∧ lo ≤ k ∧ k ≤ hi

theorem PathK.mono {a : Scan} {lo hi lo' hi' : Nat} {p : List (Nat × Nat)} (h : PathK a lo hi p)
    (h1 : lo' ≤ lo) (h2 : hi ≤ hi') : PathK a lo' hi' p := by
  obtain ⟨x, y, k, z, w1, w2⟩ := h
  exact ⟨x, y, k, z, by omega, by omega⟩

/-- Paths relative to a later state at the same depth are paths relative to the earlier one. -/
theorem PathK.of_agree {a b : Scan} {lo hi : Nat} {p : List (Nat × Nat)} (hd : b.parenDepth = a.parenDepth)
    (hag : Agree a.parenDepth a b) (h : PathK b lo hi p) : PathK a lo hi p := by
  obtain ⟨x, y, k, z, w1, w2⟩ := h
  rw [hd] at x y z
  refine ⟨x, ?_, k, ?_, w1, w2⟩
  · rw [y]; exact curPath_take_agree hag (Nat.le_refl _) (by omega)
  · rw [z, hag.gids _ (Nat.le_refl _)]

/-- The path of a group opened in state `a` itself. -/
theorem pathK_cur (a : Scan) : PathK a (altAt a a.parenDepth) (altAt a a.parenDepth) (curPath a) :=
  ⟨by rw [curPath_length]; omega, rfl, altAt a a.parenDepth, curPath_get a (Nat.le_refl _), Nat.le_refl _,
    Nat.le_refl _⟩

/-- A path recorded inside a parenthesis opened in state `a` (scan state `a1` after the `(`). -/
theorem PathK.of_inner {a a1 : Scan} {lo hi : Nat} {p : List (Nat × Nat)}
    (hd : a1.parenDepth = a.parenDepth + 1) (hag : Agree a.parenDepth a a1)
    (htop : altAt a1 a.parenDepth = altAt a a.parenDepth) (h : PathK a1 lo hi p) :
    PathK a (altAt a a.parenDepth) (altAt a a.parenDepth) p := by
  obtain ⟨x, y, _⟩ := h
  rw [hd] at x y
  have hget : p[a.parenDepth]? = ((curPath a1).take (a.parenDepth + 1))[a.parenDepth]? := by
    rw [← y, List.getElem?_take_of_lt (by omega)]
  refine ⟨by omega, ?_, altAt a a.parenDepth, ?_, Nat.le_refl _, Nat.le_refl _⟩
  · have : p.take a.parenDepth = (p.take (a.parenDepth + 1)).take a.parenDepth := by
      rw [List.take_take]; congr 1; omega
    rw [this, y, List.take_take, show min a.parenDepth (a.parenDepth + 1) = a.parenDepth by omega]
    exact curPath_take_agree hag (Nat.le_refl _) (by omega)
  · rw [hget, List.getElem?_take_of_lt (by omega), curPath_get a1 (by omega), hag.gids _ (Nat.le_refl _), htop]

/-! ## Conflicts -/

theorem conflictsWith_prefix : ∀ (base p q : List (Nat × Nat)),
    conflictsWith (base ++ p) (base ++ q) = conflictsWith p q := by
  intro base
  induction base with
  | nil => intro p q; rfl
  | cons x xs ih => intro p q; simp [conflictsWith, ih]

theorem conflictsWith_diff (g k1 k2 : Nat) (p q : List (Nat × Nat)) (h : k1 ≠ k2) :
    conflictsWith ((g, k1) :: p) ((g, k2) :: q) = false := by
  simp [conflictsWith, h]

theorem split_at {p : List (Nat × Nat)} {D : Nat} {x : Nat × Nat} (h : p[D]? = some x) :
    p = p.take D ++ x :: p.drop (D + 1) := by
  have hlt : D < p.length := by
    rcases Nat.lt_or_ge D p.length with h' | h'
    · exact h'
    · rw [List.getElem?_eq_none h'] at h; cases h
  have hx : p[D] = x := by
    rw [List.getElem?_eq_getElem hlt] at h; exact Option.some.inj h
  rw [← hx, List.getElem_cons_drop, List.take_append_drop]

/-- Paths at the same depth of the same state with different alternative indices do not conflict. -/
theorem pathK_noConflict {a : Scan} {lo1 hi1 lo2 hi2 : Nat} {p q : List (Nat × Nat)} (hp : PathK a lo1 hi1 p)
    (hq : PathK a lo2 hi2 q) (h : hi1 < lo2) : conflictsWith p q = false := by
  obtain ⟨_, tp, k1, gp, _, u1⟩ := hp
  obtain ⟨_, tq, k2, gq, l2, _⟩ := hq
  rw [split_at gp, split_at gq, tp, tq, conflictsWith_prefix]
  exact conflictsWith_diff _ _ _ _ _ (by omega)

/-- No two entries of the same name conflict (in recording order). -/
def PairOK (l : List (List Nat × List (Nat × Nat))) : Prop :=
  l.Pairwise (fun x y => x.1 = y.1 → conflictsWith x.2 y.2 = false)

theorem PairOK.nil : PairOK [] := List.Pairwise.nil

theorem PairOK.append {l1 l2 : List (List Nat × List (Nat × Nat))} (h1 : PairOK l1) (h2 : PairOK l2)
    (hc : ∀ x ∈ l1, ∀ y ∈ l2, x.1 = y.1 → conflictsWith x.2 y.2 = false) : PairOK (l1 ++ l2) :=
  List.pairwise_append.2 ⟨h1, h2, hc⟩

end Regress.RoundTrip
