import RegressModel.VM.Emit
/-!
# Closure, part 5 (C16, emitter side): `group_names` is indexed by group id

The repaired emitter stores the name of a capture group at the index of its group id
(`self.group_names[idx] = name`, resizing with `""`), and counts the groups it meets. Facts proved
about `VM.emitNode` / `VM.emit`:

* `emitNode_gs` — the only parts of the emitter state that determine `groups` / `group_names` are
  updated by the `CaptureGroup` arm only: after emitting `n`, they are the fold of `stepG` over
  `groupList n`, the capture groups of `n` in emission (pre-)order.
* `names_by_id` — if the group ids of the IR are a permutation of `0..n-1` (`groupIdsDense`; inside a
  look-behind the parser reverses `Cat` nodes, so the ids do not appear in increasing order), then
  `prog.groups = n`, and `prog.names` is `[]` when no group is named, and otherwise has length
  `prog.groups` with entry `id` = the name of the group with that id (`[]` for an unnamed group).
-/
namespace Regress.Closure
open Regress.VM
open Regress.IR (Node Regex)

/-! ## The capture groups of an IR -/

mutual
/-- The capture groups `(id, name)` of a node, in the order `emit_node` meets them. -/
def groupList : Node → List (Nat × Option (List Nat))
  | .group id name c => (id, name) :: groupList c
  | .cat ns => groupLists ns
  | .alt l r => groupList l ++ groupList r
  | .look _ _ _ _ c => groupList c
  | .loop l _ _ _ => groupList l
  | .loop1 l _ => groupList l
  | .empty | .goal | .char _ | .byteSeq _ | .byteSet _ | .charSet _ | .matchAny | .matchAnyExceptLT
  | .anchor _ _ | .wordBoundary _ _ | .backRef _ _ | .bracket _ | .stringSet _ _ => []
def groupLists : List Node → List (Nat × Option (List Nat))
  | [] => []
  | n :: ns => groupList n ++ groupLists ns
end

def groupIds (n : Node) : List Nat := (groupList n).map (·.1)

/-- The group ids are a permutation of `0 .. n-1` (`n` = number of `CaptureGroup` nodes): pairwise
distinct, all `< n`, and every `i < n` occurs. Decidable; what `parse.rs` establishes (ids are
handed out consecutively from 0, one per `(`…`)`), and what the optimizer preserves (it never removes
or duplicates a capture group). -/
def groupIdsDense (n : Node) : Bool :=
  decide (groupIds n).Nodup && (groupIds n).all (· < (groupIds n).length) &&
    (List.range (groupIds n).length).all (fun i => (groupIds n).contains i)

/-! ## The state components and their update -/

/-- `(result.groups, self.group_names)`. -/
def gs (s : EmitState) : Nat × Array (List Nat) := (s.groups, s.groupNames)

/-- `group_names.resize(idx + 1, "")` if too short, then `group_names[idx] = name`. -/
def setName (names : Array (List Nat)) (id : Nat) (name : Option (List Nat)) : Array (List Nat) :=
  (if names.size ≤ id then names ++ Array.replicate (id + 1 - names.size) [] else names).set! id
    (name.getD [])

/-- The `CaptureGroup` arm on `(groups, group_names)` (`groups` is a `u32`). -/
def stepG (x : Nat × Array (List Nat)) (g : Nat × Option (List Nat)) : Nat × Array (List Nat) :=
  ((x.1 + 1) % 4294967296, setName x.2 g.1 g.2)

theorem gs_emitInsn (i : Insn) (s : EmitState) : gs (emitInsn i s) = gs s := rfl

theorem gs_emitGroupBegin (id : Nat) (name : Option (List Nat)) (s : EmitState) :
    gs (emitGroupBegin id name s) = stepG (gs s) (id, name) := rfl

theorem gs_fixInsn {idx : Nat} {upd : Insn → Option Insn} {err : EmitErr} {s s' : EmitState}
    (h : fixInsn idx upd err s = .ok s') : gs s' = gs s := by
  unfold fixInsn at h
  split at h
  · cases h
  · split at h
    · cases h
    · cases h; rfl

theorem gs_emitAll {α : Type} {f : α → EmitM}
    (hf : ∀ a s s', f a s = .ok s' → gs s' = gs s) :
    ∀ (l : List α) (s s' : EmitState), emitAll f l s = .ok s' → gs s' = gs s := by
  intro l
  induction l with
  | nil => intro s s' h; simp only [emitAll] at h; cases h; rfl
  | cons a t ih =>
    intro s s' h
    simp only [emitAll] at h
    cases h1 : f a s with
    | error e => rw [h1] at h; cases h
    | ok s1 => rw [h1] at h; rw [ih s1 s' h, hf a s s1 h1]

theorem gs_emitByteSetInsn {bytes : List Nat} {s s' : EmitState}
    (h : emitByteSetInsn bytes s = .ok s') : gs s' = gs s := by
  unfold emitByteSetInsn at h
  split at h <;> first | (cases h; rfl) | cases h

theorem gs_emitByteSequenceInsn (seq : List Nat) (s s' : EmitState)
    (h : emitByteSequenceInsn seq s = .ok s') : gs s' = gs s := by
  unfold emitByteSequenceInsn at h
  split at h
  · cases h; rfl
  · cases h

theorem gs_emitByteSequence {bytes : List Nat} {s s' : EmitState}
    (h : emitByteSequence bytes s = .ok s') : gs s' = gs s := by
  unfold emitByteSequence at h
  split at h <;> exact gs_emitAll gs_emitByteSequenceInsn _ _ _ h

theorem gs_emitCharSet {chars : List Nat} {s s' : EmitState}
    (h : emitCharSet chars s = .ok s') : gs s' = gs s := by
  unfold emitCharSet at h
  split at h
  · cases h; rfl
  · split at h
    · cases h
    · cases h; rfl

theorem gs_emitPiece (p : Piece) (s s' : EmitState) (h : emitPiece p s = .ok s') : gs s' = gs s := by
  cases p with
  | char c => simp only [emitPiece] at h; cases h; rfl
  | byteSequence b => exact gs_emitByteSequence h
  | byteSet b => exact gs_emitByteSetInsn h
  | charSet c => exact gs_emitCharSet h

theorem gs_emitCodePointSequence {cps : List Nat} {icase : Bool} {s s' : EmitState}
    (h : emitCodePointSequence emitPiece cps icase s = .ok s') : gs s' = gs s := by
  unfold emitCodePointSequence at h
  split at h
  · cases h
  · exact gs_emitAll gs_emitPiece _ _ _ h

theorem gs_emitStringSetPriors (icase : Bool) : ∀ (l : List (List Nat)) (fx : List Nat)
    (s s' : EmitState) (fx' : List Nat),
    emitStringSetPriors emitPiece icase l fx s = .ok (s', fx') → gs s' = gs s := by
  intro l
  induction l with
  | nil => intro fx s s' fx' h; simp only [emitStringSetPriors] at h; cases h; rfl
  | cons cps rest ih =>
    intro fx s s' fx' h
    simp only [emitStringSetPriors, emitInsnOffset] at h
    split at h
    · cases h
    · next s1 h1 =>
      split at h
      · cases h
      · next s2 h2 =>
        rw [ih _ _ _ _ h, gs_fixInsn h2, gs_emitInsn, gs_emitCodePointSequence h1, gs_emitInsn]

theorem gs_emitStringSet {alts : List (List Nat)} {icase : Bool} {s s' : EmitState}
    (h : emitStringSet emitPiece alts icase s = .ok s') : gs s' = gs s := by
  unfold emitStringSet at h
  split at h
  · cases h; rfl
  · dsimp only at h
    split at h
    · cases h
    · next s1 fx h1 =>
      split at h
      · cases h
      · next s2 h2 =>
        have h3 := gs_emitAll (f := fun jumpIdx => fixInsn jumpIdx (setJumpTarget (nextOffset s2)) .shouldBeJump)
          (fun a s s' hh => gs_fixInsn hh) _ _ _ h
        rw [h3, gs_emitCodePointSequence h2, gs_emitStringSetPriors _ _ _ _ _ _ h1]

theorem gs_emitBracket {c : IR.Bracket} {s s' : EmitState} (h : emitBracket c s = .ok s') :
    gs s' = gs s := by
  unfold emitBracket at h
  split at h <;> (cases h; rfl)

theorem gs_foldl_emitInsn (f : Nat → Insn) : ∀ (l : List Nat) (s : EmitState),
    gs (l.foldl (fun s gid => emitInsn (f gid) s) s) = gs s := by
  intro l
  induction l with
  | nil => intro s; rfl
  | cons a t ih => intro s; simp only [List.foldl_cons]; rw [ih]; rfl

theorem gs_emitLoopEnter (q : IR.Quant) (g0 g1 : Nat) (s : EmitState) :
    gs (emitLoopEnter q g0 g1 s).1 = gs s := by
  simp only [emitLoopEnter, emitInsnOffset]
  rw [gs_foldl_emitInsn]
  rfl

theorem gs_emitLoopFinish {idx : Nat} {s s' : EmitState} (h : emitLoopFinish idx s = .ok s') :
    gs s' = gs s := by
  unfold emitLoopFinish at h
  rw [gs_fixInsn h]; rfl

theorem gs_emitLookBegin (ng bw : Bool) (sg eg : Nat) (s : EmitState) :
    gs (emitLookBegin ng bw sg eg s).1 = gs s := by
  simp only [emitLookBegin, emitInsnOffset]
  split <;> rfl

theorem gs_emitLookFinish {idx : Nat} {prev : Bool} {s s' : EmitState}
    (h : emitLookFinish idx prev s = .ok s') : gs s' = gs s := by
  unfold emitLookFinish at h
  dsimp only at h
  split at h
  · cases h
  · next s1 h1 => cases h; rw [← gs_emitInsn .goal s, ← gs_fixInsn h1]; rfl

theorem gs_emitAltFinish {a j rb : Nat} {s s' : EmitState} (h : emitAltFinish a j rb s = .ok s') :
    gs s' = gs s := by
  unfold emitAltFinish at h
  split at h
  · cases h
  · next s1 h1 => rw [gs_fixInsn h, gs_fixInsn h1]

/-! ## `emit_node` -/

mutual
/-- After `emit_node(n)`, `(groups, group_names)` is the fold of the `CaptureGroup` update over the
capture groups of `n` in emission order. -/
theorem emitNode_gs : (n : Node) → (s s' : EmitState) → emitNode n s = .ok s' →
    gs s' = (groupList n).foldl stepG (gs s)
  | .empty, s, s', h => by simp only [emitNode] at h; cases h; simp [groupList]
  | .goal, s, s', h => by simp only [emitNode] at h; cases h; simp [groupList, gs_emitInsn]
  | .char _, s, s', h => by simp only [emitNode] at h; cases h; simp [groupList, gs_emitInsn]
  | .matchAny, s, s', h => by simp only [emitNode] at h; cases h; simp [groupList, gs_emitInsn]
  | .matchAnyExceptLT, s, s', h => by
    simp only [emitNode] at h; cases h; simp [groupList, gs_emitInsn]
  | .anchor _ _, s, s', h => by simp only [emitNode] at h; cases h; simp [groupList, gs_emitInsn]
  | .backRef _ _, s, s', h => by simp only [emitNode] at h; cases h; simp [groupList, gs_emitInsn]
  | .wordBoundary _ u, s, s', h => by
    simp only [emitNode] at h
    split at h <;> (cases h; simp [groupList, gs_emitInsn])
  | .byteSeq _, s, s', h => by
    simp only [emitNode] at h; simp [groupList, gs_emitByteSequence h]
  | .byteSet _, s, s', h => by
    simp only [emitNode] at h; simp [groupList, gs_emitByteSetInsn h]
  | .charSet _, s, s', h => by
    simp only [emitNode] at h; simp [groupList, gs_emitCharSet h]
  | .bracket _, s, s', h => by
    simp only [emitNode] at h; simp [groupList, gs_emitBracket h]
  | .stringSet _ _, s, s', h => by
    simp only [emitNode] at h; simp [groupList, gs_emitStringSet h]
  | .cat ns, s, s', h => by
    simp only [emitNode] at h
    simp only [groupList]
    exact emitNodes_gs ns s s' h
  | .loop1 l q, s, s', h => by
    simp only [emitNode] at h
    simp only [groupList]
    rw [emitNode_gs l _ s' h, gs_emitInsn]
  | .loop l q g0 g1, s, s', h => by
    simp only [emitNode] at h
    simp only [groupList]
    split at h
    · cases h
    · next s1 h1 =>
      rw [gs_emitLoopFinish h, emitNode_gs l _ s1 h1, gs_emitLoopEnter]
  | .group id name c, s, s', h => by
    simp only [emitNode] at h
    simp only [groupList, List.foldl_cons]
    split at h
    · cases h
    · next s1 h1 =>
      cases h
      rw [gs_emitInsn, emitNode_gs c _ s1 h1, gs_emitGroupBegin]
  | .look ng bw sg eg c, s, s', h => by
    simp only [emitNode] at h
    simp only [groupList]
    split at h
    · cases h
    · next s1 h1 =>
      rw [gs_emitLookFinish h, emitNode_gs c _ s1 h1, gs_emitLookBegin]
  | .alt l r, s, s', h => by
    simp only [emitNode, emitInsnOffset] at h
    simp only [groupList, List.foldl_append]
    split at h
    · cases h
    · next s1 h1 =>
      split at h
      · cases h
      · next s2 h2 =>
        rw [gs_emitAltFinish h, emitNode_gs r _ s2 h2, gs_emitInsn, emitNode_gs l _ s1 h1, gs_emitInsn]
theorem emitNodes_gs : (ns : List Node) → (s s' : EmitState) → emitNodes ns s = .ok s' →
    gs s' = (groupLists ns).foldl stepG (gs s)
  | [], s, s', h => by simp only [emitNodes] at h; cases h; simp [groupLists]
  | n :: ns, s, s', h => by
    simp only [emitNodes] at h
    simp only [groupLists, List.foldl_append]
    split at h
    · cases h
    · next s1 h1 => rw [emitNodes_gs ns s1 s' h, emitNode_gs n s s1 h1]
end

/-! ## The fold, for dense ids -/

theorem setName_size (a : Array (List Nat)) (id : Nat) (nm : Option (List Nat)) :
    (setName a id nm).size = max a.size (id + 1) := by
  unfold setName
  split <;> simp <;> omega

theorem setName_get_self (a : Array (List Nat)) (id : Nat) (nm : Option (List Nat)) :
    (setName a id nm)[id]? = some (nm.getD []) := by
  unfold setName
  split
  · rw [Array.set!_eq_setIfInBounds, Array.getElem?_setIfInBounds_self_of_lt (by simp; omega)]
  · rw [Array.set!_eq_setIfInBounds, Array.getElem?_setIfInBounds_self_of_lt (by omega)]

theorem setName_get_ne (a : Array (List Nat)) (id : Nat) (nm : Option (List Nat)) {j : Nat}
    (hj : j ≠ id) (hlt : j < a.size) : (setName a id nm)[j]? = a[j]? := by
  unfold setName
  rw [Array.set!_eq_setIfInBounds, Array.getElem?_setIfInBounds_ne (Ne.symm hj)]
  split
  · rw [Array.getElem?_append_left hlt]
  · rfl

/-- The names component of the fold. -/
def applyNames (l : List (Nat × Option (List Nat))) (a : Array (List Nat)) : Array (List Nat) :=
  l.foldl (fun a g => setName a g.1 g.2) a

theorem foldl_stepG_snd : ∀ (l : List (Nat × Option (List Nat))) (x : Nat × Array (List Nat)),
    (l.foldl stepG x).2 = applyNames l x.2 := by
  intro l
  induction l with
  | nil => intro x; rfl
  | cons g t ih => intro x; simp only [List.foldl_cons, applyNames]; rw [ih]; rfl

theorem foldl_stepG_fst : ∀ (l : List (Nat × Option (List Nat))) (x : Nat × Array (List Nat)),
    x.1 + l.length < 4294967296 → (l.foldl stepG x).1 = x.1 + l.length := by
  intro l
  induction l with
  | nil => intro x _; rfl
  | cons g t ih =>
    intro x hx
    simp only [List.foldl_cons, List.length_cons] at hx ⊢
    rw [ih]
    · simp only [stepG]; rw [Nat.mod_eq_of_lt (by omega)]; omega
    · simp only [stepG]; rw [Nat.mod_eq_of_lt (by omega)]; omega

theorem applyNames_size_ge : ∀ (l : List (Nat × Option (List Nat))) (a : Array (List Nat)),
    a.size ≤ (applyNames l a).size ∧ ∀ g ∈ l, g.1 < (applyNames l a).size := by
  intro l
  induction l with
  | nil => intro a; exact ⟨Nat.le_refl _, by intro g hg; cases hg⟩
  | cons g t ih =>
    intro a
    simp only [applyNames, List.foldl_cons]
    have := ih (setName a g.1 g.2)
    simp only [applyNames] at this
    have hs := setName_size a g.1 g.2
    refine ⟨by omega, ?_⟩
    intro g' hg'
    simp only [List.mem_cons] at hg'
    rcases hg' with rfl | hg'
    · omega
    · exact this.2 g' hg'

theorem applyNames_size_le (n : Nat) : ∀ (l : List (Nat × Option (List Nat))) (a : Array (List Nat)),
    a.size ≤ n → (∀ g ∈ l, g.1 < n) → (applyNames l a).size ≤ n := by
  intro l
  induction l with
  | nil => intro a ha _; exact ha
  | cons g t ih =>
    intro a ha hl
    simp only [applyNames, List.foldl_cons]
    apply ih
    · rw [setName_size]; have := hl g (by simp); omega
    · intro g' hg'; exact hl g' (by simp [hg'])

theorem applyNames_get_notin : ∀ (l : List (Nat × Option (List Nat))) (a : Array (List Nat)) (j : Nat),
    j ∉ l.map (·.1) → j < a.size → (applyNames l a)[j]? = a[j]? := by
  intro l
  induction l with
  | nil => intro a j _ _; rfl
  | cons g t ih =>
    intro a j hj hlt
    simp only [List.map_cons, List.mem_cons, not_or] at hj
    simp only [applyNames, List.foldl_cons]
    have := ih (setName a g.1 g.2) j hj.2 (by rw [setName_size]; omega)
    simp only [applyNames] at this
    rw [this, setName_get_ne a g.1 g.2 hj.1 hlt]

theorem applyNames_get : ∀ (l : List (Nat × Option (List Nat))) (a : Array (List Nat)),
    (l.map (·.1)).Nodup → ∀ id nm, (id, nm) ∈ l → (applyNames l a)[id]? = some (nm.getD []) := by
  intro l
  induction l with
  | nil => intro a _ id nm h; cases h
  | cons g t ih =>
    intro a hnd id nm hmem
    simp only [List.map_cons, List.nodup_cons] at hnd
    simp only [List.mem_cons] at hmem
    rcases hmem with rfl | hmem
    · simp only [applyNames, List.foldl_cons]
      have := applyNames_get_notin t (setName a id nm) id hnd.1 (by rw [setName_size]; omega)
      simp only [applyNames] at this
      rw [this, setName_get_self]
    · simp only [applyNames, List.foldl_cons]
      exact ih _ hnd.2 id nm hmem

/-- The meaning of `groupIdsDense`. -/
theorem groupIdsDense_spec {n : Node} (h : groupIdsDense n = true) :
    (groupIds n).Nodup ∧ (∀ i ∈ groupIds n, i < (groupIds n).length) ∧
      ∀ i, i < (groupIds n).length → i ∈ groupIds n := by
  simp only [groupIdsDense, Bool.and_eq_true, decide_eq_true_eq, List.all_eq_true,
    List.mem_range, List.contains_iff_mem] at h
  exact ⟨h.1.1, h.1.2, h.2⟩

/-- **`names_by_id`.** For an IR whose group ids are a permutation of `0..n-1` (with `n < 2³²`), the
emitted program has `groups = n`; its `names` are `[]` if no group is named; otherwise there is
exactly one entry per group, and entry `id` is the name of the capture group with id `id` (`[]` for
an unnamed group) — in whatever order the groups were emitted. -/
theorem names_by_id (r : Regex) (prog : Prog) (he : emit r = .ok prog)
    (hd : groupIdsDense r.node = true) (hn : (groupList r.node).length < 4294967296) :
    prog.groups = (groupList r.node).length ∧
    (prog.names = [] ∨ prog.names.length = prog.groups) ∧
    ((∀ g ∈ groupList r.node, g.2.getD [] = []) → prog.names = []) ∧
    ((∃ g ∈ groupList r.node, g.2.getD [] ≠ []) →
      prog.names.length = prog.groups ∧
      ∀ id nm, (id, nm) ∈ groupList r.node → prog.names[id]? = some (nm.getD [])) := by
  obtain ⟨hnd, hlt, hsurj⟩ := groupIdsDense_spec hd
  have hlen : (groupIds r.node).length = (groupList r.node).length := by simp [groupIds]
  unfold emit emitWith at he
  split at he
  · cases he
  · split at he
    · cases he
    · next sp hsp s hs =>
      simp only [Except.ok.injEq] at he
      have hgs := emitNode_gs r.node _ s hs
      have hg : s.groups = (groupList r.node).length := by
        have := congrArg Prod.fst hgs
        rw [foldl_stepG_fst _ _ (by simpa [gs] using hn)] at this
        simpa [gs] using this
      have hnames : s.groupNames = applyNames (groupList r.node) #[] := by
        have := congrArg Prod.snd hgs
        rw [foldl_stepG_snd] at this
        simpa [gs] using this
      have hsize : s.groupNames.size = (groupList r.node).length := by
        apply Nat.le_antisymm
        · rw [hnames]
          apply applyNames_size_le _ _ _ (by simp)
          intro g hg'
          rw [← hlen]
          exact hlt g.1 (List.mem_map_of_mem hg')
        · rcases Nat.eq_zero_or_pos (groupList r.node).length with h0 | hpos
          · omega
          · have hmem := hsurj ((groupList r.node).length - 1) (by omega)
            simp only [groupIds, List.mem_map] at hmem
            obtain ⟨g, hg', hg1⟩ := hmem
            have := (applyNames_size_ge (groupList r.node) #[]).2 g hg'
            rw [← hnames] at this
            omega
      have hget : ∀ id nm, (id, nm) ∈ groupList r.node → s.groupNames[id]? = some (nm.getD []) := by
        intro id nm hm
        rw [hnames]
        exact applyNames_get _ _ hnd id nm hm
      have hany : s.groupNames.any (fun nm => !nm.isEmpty) = true ↔
          ∃ g ∈ groupList r.node, g.2.getD [] ≠ [] := by
        rw [Array.any_eq_true]
        constructor
        · rintro ⟨i, hi, hne⟩
          have hmem := hsurj i (by rw [hlen, ← hsize]; exact hi)
          simp only [groupIds, List.mem_map] at hmem
          obtain ⟨g, hg', rfl⟩ := hmem
          refine ⟨g, hg', ?_⟩
          have := hget g.1 g.2 hg'
          rw [Array.getElem?_eq_getElem hi] at this
          simp only [Option.some.injEq] at this
          rw [← this]
          simpa using hne
        · rintro ⟨g, hg', hne⟩
          have hi : g.1 < s.groupNames.size := by
            rw [hsize, ← hlen]; exact hlt g.1 (List.mem_map_of_mem hg')
          refine ⟨g.1, hi, ?_⟩
          have := hget g.1 g.2 hg'
          rw [Array.getElem?_eq_getElem hi] at this
          simp only [Option.some.injEq] at this
          rw [this]
          simpa using hne
      subst he
      simp only
      refine ⟨hg, ?_, ?_, ?_⟩
      · split
        · right; simp [hsize, hg]
        · left; rfl
      · intro hall
        split
        · next hc =>
          obtain ⟨g, hg', hne⟩ := hany.mp hc
          exact absurd (hall g hg') hne
        · rfl
      · intro hex
        rw [if_pos (hany.mpr hex)]
        refine ⟨by simp [hsize, hg], ?_⟩
        intro id nm hm
        have := hget id nm hm
        simpa using this

end Regress.Closure
