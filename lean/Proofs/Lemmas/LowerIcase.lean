import Proofs.Lemmas.LowerFold
/-!
# ES specification ⇒ IR semantics: case-insensitive atoms under `u` / `v`

With `ignoreCase` and a Unicode flag the specification canonicalizes with simple case folding; the
crate expands literals at compile time (`unfold_char`), closes classes under "same fold"
(`add_icase_code_points`) and tests word characters through `fold`.  By `Proofs/C10.lean` these are
the same equivalence (the Unicode 17 simple-case-folding classes).
-/
namespace Regress.Lower

open Regress Regress.IR Regress.VM Regress.Parse Regress.CPS Regress.Fold

theorem bool_eq_of_iff {a b : Bool} (h : a = true ↔ b = true) : a = b := by
  cases a <;> cases b <;> simp_all

theorem charsetContains_iff (cs : List Nat) (c : Nat) : charsetContains cs c = true ↔ c ∈ cs := by
  unfold charsetContains
  have : ∀ (l : List Nat) (acc : Bool), l.foldl (fun r v => r || v == c) acc = true ↔ acc = true ∨ c ∈ l := by
    intro l
    induction l with
    | nil => intro acc; simp
    | cons x t ih =>
      intro acc
      simp only [List.foldl_cons, ih, Bool.or_eq_true, beq_iff_eq, List.mem_cons]
      constructor
      · rintro ((h | h) | h)
        · exact Or.inl h
        · exact Or.inr (Or.inl h.symm)
        · exact Or.inr (Or.inr h)
      · rintro (h | h | h)
        · exact Or.inl (Or.inl h)
        · exact Or.inl (Or.inr h.symm)
        · exact Or.inr h
  simpa using this cs false

/-- "same Unicode 17 simple-case-folding class" in terms of the crate's `fold`. -/
theorem same_class_iff (a b : Nat) : fold a = fold b ↔ C10.scfRep a = C10.scfRep b := C10.fold_is_scf17 a b

section
variable {inp : Input} {cs : List Nat}

/-! ## Literal characters -/

/-- What `char_node` returns under `i` with `u`/`v`: one `cursor::next` plus a membership test in
`unfold_char c`. -/
theorem charNode_icase {fl : IR.Flags} (hfi : fl.icase = true) (hfu : fl.unicode = true) {c : Nat} {ir : Node}
    (h : charNode fl c = .ok ir) :
    ∃ test : Nat → Bool, (∀ fwd st, sem inp ir fwd st = optSt st (charStep inp fwd st.pos test)) ∧
      (∀ ch, test ch = true ↔ ch ∈ unfoldChar c) ∧
      (∀ b, Parse.reverseCats b ir = .ok ir) ∧ numGroups ir = 0 ∧ (∀ lo hi, InRange lo hi ir) := by
  simp only [charNode, hfi, Bool.not_true, Bool.false_eq_true, if_false, expandCodePoint, hfu, if_true] at h
  match hcl : unfoldChar c, h with
  | [x], h =>
    simp only [Except.ok.injEq] at h; subst h
    exact ⟨fun c2 => c2 == x, fun _ _ => by simp only [sem], fun ch => by simp,
      fun _ => by simp [Parse.reverseCats], rfl, fun _ _ => by simp [InRange]⟩
  | [x, y], h =>
    simp only [Except.ok.injEq] at h; subst h
    exact ⟨charsetContains [x, y], fun _ _ => by simp only [sem], fun ch => charsetContains_iff _ _,
      fun _ => by simp [Parse.reverseCats], rfl, fun _ _ => by simp [InRange]⟩
  | [x, y, z], h =>
    simp only [Except.ok.injEq] at h; subst h
    exact ⟨charsetContains [x, y, z], fun _ _ => by simp only [sem], fun ch => charsetContains_iff _ _,
      fun _ => by simp [Parse.reverseCats], rfl, fun _ _ => by simp [InRange]⟩
  | [x, y, z, w], h =>
    simp only [Except.ok.injEq] at h; subst h
    exact ⟨charsetContains [x, y, z, w], fun _ _ => by simp only [sem], fun ch => charsetContains_iff _ _,
      fun _ => by simp [Parse.reverseCats], rfl, fun _ _ => by simp [InRange]⟩

theorem sim_char_icase (ht : Utf8Text inp cs) (total : Nat) (rer : ES.RER) (hic : rer.ignoreCase = true)
    (hu : rer.hasEitherUnicodeFlag = true) (c : Nat) (test : Nat → Bool) (ir : Node) (back : Bool) (lo hi : Nat)
    (hsem : ∀ st, sem inp ir (!back) st = optSt st (charStep inp (!back) st.pos test))
    (htest : ∀ ch, test ch = true ↔ ch ∈ unfoldChar c) :
    Sim inp cs total (ES.characterSetMatcher cs.toArray rer (ES.CharSet.single c) false (dirOf back)) ir (!back)
      lo hi := by
  apply sim_charset ht total rer _ false back test ir lo hi hsem
  intro ch _
  apply bool_eq_of_iff
  rw [htest, C10.unfold_iff, same_class_iff]
  simp only [bne_iff_ne, ne_eq, Bool.not_eq_false]
  rw [existsCanonMember_icase hic hu]
  simp only [ES.CharSet.single, beq_iff_eq]
  constructor
  · rintro ⟨a, ha, rfl⟩; exact ha.symm
  · intro h; exact ⟨c, h.symm, rfl⟩

/-! ## `.` -/

theorem dot_icase_test {rer : ES.RER} (hic : rer.ignoreCase = true) (hu : rer.hasEitherUnicodeFlag = true)
    (dotAll : Bool) (hd : rer.dotAll = dotAll) {ch : Nat} (hch : ch ≤ 0x10FFFF) :
    (ES.existsCanonMember rer
        (if rer.dotAll then ES.allCharacters rer
         else { chars := fun c => (ES.allCharacters rer).chars c && !ES.isLineTerminator c }) ch != false) =
      (if dotAll then true else !VM.isLineTerminator ch) := by
  apply bool_eq_of_iff
  simp only [bne_iff_ne, ne_eq, Bool.not_eq_false]
  rw [existsCanonMember_icase hic hu]
  have hrep : C10.scfRep (C10.scfRep ch) = C10.scfRep ch := scfRep_idem ch
  have hle := scfRep_le hch
  have hall : (ES.allCharacters rer).chars (C10.scfRep ch) = true := by
    simp only [ES.allCharacters, hic, Bool.and_true]
    split <;> simp [hle, es_scfRep_eq, hrep]
  subst hd
  cases hda : rer.dotAll with
  | true =>
    simp only [if_true]
    exact ⟨fun _ => trivial, fun _ => ⟨C10.scfRep ch, hrep, hall⟩⟩
  | false =>
    simp only [Bool.false_eq_true, if_false, Bool.and_eq_true, Bool.not_eq_true', es_isLT_eq]
    constructor
    · rintro ⟨a, ha, _, hlt⟩
      cases hl : VM.isLineTerminator ch with
      | false => rfl
      | true =>
        have : ch = a := lt_trivial ha.symm hl
        subst this; rw [hl] at hlt; cases hlt
    · intro h
      refine ⟨C10.scfRep ch, hrep, hall, ?_⟩
      cases hl : VM.isLineTerminator (C10.scfRep ch) with
      | false => rfl
      | true =>
        have : C10.scfRep ch = ch := lt_trivial hrep hl
        rw [this] at hl; rw [hl] at h; cases h

/-! ## Word characters -/

theorem basic_lt {c : Nat} (h : ES.isBasicWordChar c = true) : c < 128 := by
  rw [isBasicWordChar_eq] at h; exact C10.isWordChar_lt h

/-- `WordCharacters(rer)` under `i` with `u`/`v` is `is_word_char_unicode_icase`. -/
theorem wordCharacters_icase {rer : ES.RER} (hic : rer.ignoreCase = true) (hu : rer.hasEitherUnicodeFlag = true)
    (ch : Nat) : (ES.wordCharacters rer).chars ch = VM.isWordCharUnicodeIcase ch := by
  apply bool_eq_of_iff
  have hfe : Fold.isWordCharUnicodeIcase ch = Fold.isWordChar (fold ch) := C10.isWordCharUnicodeIcase_eq ch
  have e1 : VM.isWordCharUnicodeIcase ch = Fold.isWordCharUnicodeIcase ch := rfl
  have e2 : ∀ x, ES.isBasicWordChar x = Fold.isWordChar x := fun x => by
    simp only [ES.isBasicWordChar, ES.isDigit, Fold.isWordChar]
  rw [e1, hfe]
  simp only [ES.wordCharacters, canonicalize_icase hic hu, Bool.or_eq_true, e2]
  have hlow : ∀ x, x < 128 → Fold.isWordChar (fold x) = Fold.isWordChar x := by
    intro x hx
    have h1 := List.all_eq_true.1 C10.ascii_word_check x (List.mem_range.2 hx)
    simp only [beq_iff_eq] at h1
    rw [(C10.ascii_fold_agrees hx).1, h1]
  constructor
  · rintro (h | h)
    · have hlt : ch < 128 := C10.isWordChar_lt h
      rw [hlow ch hlt]; exact h
    · have hlt : C10.scfRep ch < 128 := C10.isWordChar_lt h
      rw [← C10.fold_scfRep ch, hlow _ hlt]; exact h
  · intro h
    by_cases hlt : ch < 128
    · left; rw [← hlow ch hlt]; exact h
    · right
      have hf : fold ch < 128 := C10.isWordChar_lt h
      have hcases := (C10.fold_into_ascii ch).1 ⟨by omega, hf⟩
      rcases hcases with rfl | rfl <;> decide +kernel

end

/-! ## Case-insensitive back-references -/

theorem isScalar_eq (c : Nat) : Utf8.isScalar c = Fold.isScalar c := by
  apply bool_eq_of_iff
  simp only [Utf8.isScalar, Fold.isScalar, Bool.or_eq_true, Bool.and_eq_true, decide_eq_true_eq]
  omega

theorem input_fold_eq {inp : Input} (hk : inp.kind = .utf8) (hu : inp.unicode = true) {c : Nat}
    (hc : Utf8.isScalar c = true) : inp.fold c = fold c := by
  have := C10.utf8Fold_eq (c := c) (by rw [← isScalar_eq]; exact hc) true
  simp only [Fold.utf8Fold, Fold.foldCodePoint, if_true] at this
  simp only [Input.fold, Input.foldElem, hk, hu, Fold.foldCodePoint, if_true, isScalar_eq]
  exact this

theorem foldEquals_iff {inp : Input} (hk : inp.kind = .utf8) (hu : inp.unicode = true) {c1 c2 : Nat}
    (h1 : Utf8.isScalar c1 = true) (h2 : Utf8.isScalar c2 = true) :
    inp.foldEquals c1 c2 = true ↔ C10.scfRep c1 = C10.scfRep c2 := by
  simp only [Input.foldEquals, Bool.or_eq_true, beq_iff_eq, input_fold_eq hk hu h1, input_fold_eq hk hu h2,
    ← same_class_iff]
  constructor
  · rintro (h | h)
    · rw [h]
    · exact h
  · exact Or.inr

section
variable {inp ref : Input} {cs ds : List Nat}

theorem icaseLoop_fwd (ht : Utf8Text inp cs) (hr : Utf8Text ref ds) (hu : inp.unicode = true) :
    ∀ (n j e fuel : Nat), j + n = ds.length → e ≤ cs.length → n + 1 ≤ fuel →
      backrefIcaseLoop inp ref true fuel (Utf8.off ds j) (Utf8.off cs e) =
        .ok (if e + n ≤ cs.length ∧
              ∀ i, i < n → C10.scfRep (ds.toArray.getD (j + i) 0) = C10.scfRep (cs.toArray.getD (e + i) 0)
             then some (Utf8.off cs (e + n)) else none) := by
  intro n
  induction n with
  | zero =>
    intro j e fuel hj he hf
    obtain ⟨f', rfl⟩ : ∃ f', fuel = f' + 1 := ⟨fuel - 1, by omega⟩
    have hjl : j = ds.length := by omega
    subst hjl
    simp only [backrefIcaseLoop, next_fwd_end hr]
    simp [he]
  | succ n ih =>
    intro j e fuel hj he hf
    obtain ⟨f', rfl⟩ : ∃ f', fuel = f' + 1 := ⟨fuel - 1, by omega⟩
    have hjl : j < ds.length := by omega
    simp only [backrefIcaseLoop, next_fwd_at hr hjl]
    by_cases hel : e < cs.length
    · simp only [next_fwd_at ht hel]
      have hs1 := hr.scalar _ (List.getElem_mem hjl)
      have hs2 := ht.scalar _ (List.getElem_mem hel)
      by_cases hfe : inp.foldEquals ds[j] cs[e] = true
      · simp only [hfe, if_true]
        rw [ih (j + 1) (e + 1) f' (by omega) (by omega) (by omega)]
        have h0 := (foldEquals_iff ht.kind hu hs1 hs2).1 hfe
        congr 1
        have : (e + 1 + n ≤ cs.length ∧ ∀ i, i < n →
              C10.scfRep (ds.toArray.getD (j + 1 + i) 0) = C10.scfRep (cs.toArray.getD (e + 1 + i) 0)) ↔
            (e + (n + 1) ≤ cs.length ∧ ∀ i, i < n + 1 →
              C10.scfRep (ds.toArray.getD (j + i) 0) = C10.scfRep (cs.toArray.getD (e + i) 0)) := by
          constructor
          · rintro ⟨h1, h2⟩
            refine ⟨by omega, fun i hi => ?_⟩
            cases i with
            | zero => simpa [toArray_getD ds hjl, toArray_getD cs hel] using h0
            | succ i =>
              have := h2 i (by omega)
              rw [show j + 1 + i = j + (i + 1) by omega, show e + 1 + i = e + (i + 1) by omega] at this
              exact this
          · rintro ⟨h1, h2⟩
            refine ⟨by omega, fun i hi => ?_⟩
            have := h2 (i + 1) (by omega)
            rw [show j + 1 + i = j + (i + 1) by omega, show e + 1 + i = e + (i + 1) by omega]
            exact this
        by_cases hc : (e + (n + 1) ≤ cs.length ∧ ∀ i, i < n + 1 →
              C10.scfRep (ds.toArray.getD (j + i) 0) = C10.scfRep (cs.toArray.getD (e + i) 0))
        · rw [if_pos hc, if_pos (this.2 hc)]; congr 2; omega
        · rw [if_neg hc, if_neg (fun h => hc (this.1 h))]
      · simp only [hfe]
        have h0 : ¬ C10.scfRep ds[j] = C10.scfRep cs[e] := fun h =>
          hfe ((foldEquals_iff ht.kind hu hs1 hs2).2 h)
        have hn : ¬ (e + (n + 1) ≤ cs.length ∧ ∀ i, i < n + 1 →
              C10.scfRep (ds.toArray.getD (j + i) 0) = C10.scfRep (cs.toArray.getD (e + i) 0)) := by
          rintro ⟨_, h2⟩
          have := h2 0 (by omega)
          simp only [Nat.add_zero, toArray_getD ds hjl, toArray_getD cs hel] at this
          exact h0 this
        rw [if_neg hn]; simp
    · have hee : e = cs.length := by omega
      subst hee
      simp only [next_fwd_end ht]
      rw [if_neg (fun h => by omega)]

theorem icaseLoop_bwd (ht : Utf8Text inp cs) (hr : Utf8Text ref ds) (hu : inp.unicode = true) :
    ∀ (n j e fuel : Nat), j = n → j ≤ ds.length → e ≤ cs.length → n + 1 ≤ fuel →
      backrefIcaseLoop inp ref false fuel (Utf8.off ds j) (Utf8.off cs e) =
        .ok (if n ≤ e ∧
              ∀ i, i < n → C10.scfRep (ds.toArray.getD i 0) = C10.scfRep (cs.toArray.getD (e - n + i) 0)
             then some (Utf8.off cs (e - n)) else none) := by
  intro n
  induction n with
  | zero =>
    intro j e fuel hj hjl he hf
    obtain ⟨f', rfl⟩ : ∃ f', fuel = f' + 1 := ⟨fuel - 1, by omega⟩
    subst hj
    simp only [backrefIcaseLoop, next_bwd_start hr]
    simp
  | succ n ih =>
    intro j e fuel hj hjl he hf
    obtain ⟨f', rfl⟩ : ∃ f', fuel = f' + 1 := ⟨fuel - 1, by omega⟩
    subst hj
    simp only [backrefIcaseLoop, next_bwd_at hr (by omega : 0 < n + 1) hjl, Nat.add_sub_cancel]
    have hnl : n < ds.length := by omega
    by_cases he0 : 0 < e
    · simp only [next_bwd_at ht he0 he]
      have hel : e - 1 < cs.length := by omega
      have hs1 := hr.scalar _ (List.getElem_mem hnl)
      have hs2 := ht.scalar _ (List.getElem_mem hel)
      by_cases hfe : inp.foldEquals ds[n] (cs[e - 1]'hel) = true
      · simp only [hfe, if_true]
        rw [ih n (e - 1) f' rfl (by omega) (by omega) (by omega)]
        have h0 := (foldEquals_iff ht.kind hu hs1 hs2).1 hfe
        congr 1
        have : (n ≤ e - 1 ∧ ∀ i, i < n →
              C10.scfRep (ds.toArray.getD i 0) = C10.scfRep (cs.toArray.getD (e - 1 - n + i) 0)) ↔
            (n + 1 ≤ e ∧ ∀ i, i < n + 1 →
              C10.scfRep (ds.toArray.getD i 0) = C10.scfRep (cs.toArray.getD (e - (n + 1) + i) 0)) := by
          constructor
          · rintro ⟨h1, h2⟩
            refine ⟨by omega, fun i hi => ?_⟩
            by_cases hin : i = n
            · subst hin
              rw [show e - (i + 1) + i = e - 1 by omega, toArray_getD ds hnl, toArray_getD cs hel]
              exact h0
            · have := h2 i (by omega)
              rw [show e - 1 - n = e - (n + 1) by omega] at this
              exact this
          · rintro ⟨h1, h2⟩
            refine ⟨by omega, fun i hi => ?_⟩
            have := h2 i (by omega)
            rw [show e - 1 - n = e - (n + 1) by omega]
            exact this
        by_cases hc : (n + 1 ≤ e ∧ ∀ i, i < n + 1 →
              C10.scfRep (ds.toArray.getD i 0) = C10.scfRep (cs.toArray.getD (e - (n + 1) + i) 0))
        · rw [if_pos hc, if_pos (this.2 hc)]; congr 2; omega
        · rw [if_neg hc, if_neg (fun h => hc (this.1 h))]
      · simp only [hfe]
        have h0 : ¬ C10.scfRep ds[n] = C10.scfRep (cs[e - 1]'hel) := fun h =>
          hfe ((foldEquals_iff ht.kind hu hs1 hs2).2 h)
        have hn : ¬ (n + 1 ≤ e ∧ ∀ i, i < n + 1 →
              C10.scfRep (ds.toArray.getD i 0) = C10.scfRep (cs.toArray.getD (e - (n + 1) + i) 0)) := by
          rintro ⟨h1, h2⟩
          have := h2 n (by omega)
          rw [show e - (n + 1) + n = e - 1 by omega, toArray_getD ds hnl, toArray_getD cs hel] at this
          exact h0 this
        rw [if_neg hn]; simp
    · have hee : e = 0 := by omega
      subst hee
      simp only [next_bwd_start ht]
      rw [if_neg (fun h => by omega)]

end


theorem length_le_encodeAll (ds : List Nat) : ds.length ≤ (Utf8.encodeAll ds).length := by
  induction ds with
  | nil => simp
  | cons d t ih =>
    have := Utf8.encode_length_pos d
    simp only [Utf8.encodeAll_cons, List.length_cons, List.length_append]; omega

theorem sub_getD (cs : List Nat) {rs len i : Nat} (h : rs + len ≤ cs.length) (hi : i < len) :
    ((cs.drop rs).take len).toArray.getD i 0 = cs.toArray.getD (rs + i) 0 := by
  have h1 : i < ((cs.drop rs).take len).length := by rw [sub_length cs h]; exact hi
  have h2 : rs + i < cs.length := by omega
  rw [toArray_getD _ h1, toArray_getD _ h2]
  simp [List.getElem_take, List.getElem_drop]

section
variable {inp : Input} {cs : List Nat}

/-- The sub-input of a capture is the UTF-8 text of the captured code points. -/
theorem ref_text (ht : Utf8Text inp cs) {rs re : Nat} (h1 : rs ≤ re) :
    Utf8Text { kind := inp.kind, bytes := inp.bytes.extract (Utf8.off cs rs) (Utf8.off cs re), unicode := inp.unicode }
      ((cs.drop rs).take (re - rs)) := by
  refine ⟨ht.kind, ?_, allScalar_sub ht.scalar rs (re - rs)⟩
  have := slice_between cs h1
  simp only [Utf8.slice] at this
  show inp.bytes.extract (Utf8.off cs rs) (Utf8.off cs re) = Utf8.text ((cs.drop rs).take (re - rs))
  rw [ht.bytes]
  apply Array.ext'
  simpa [Utf8.text] using this

theorem backrefIcase_ok (ht : Utf8Text inp cs) {rs re : Nat} (h1 : rs ≤ re) (h2 : re ≤ cs.length) :
    (decide (Utf8.off cs rs > Utf8.off cs re) || decide (Utf8.off cs re > inp.bytes.size)) = false := by
  have ha := Utf8.off_mono h1 h2
  have hb := Utf8.off_le_size cs re
  rw [ht.bytes]
  simp only [Bool.or_eq_false_iff, decide_eq_false_iff_not]
  omega

theorem backRefStep_icase_fwd (ht : Utf8Text inp cs) (hu : inp.unicode = true) {rs re e : Nat} (h1 : rs ≤ re)
    (h2 : re ≤ cs.length) (he : e ≤ cs.length) :
    backRefStep inp true true (Utf8.off cs rs) (Utf8.off cs re) (Utf8.off cs e) =
      if e + (re - rs) ≤ cs.length ∧
          ES.allBelow (fun i => C10.scfRep (cs.toArray.getD (rs + i) 0) ==
            C10.scfRep (cs.toArray.getD (e + i) 0)) (re - rs) = true
      then some (Utf8.off cs (e + (re - rs))) else none := by
  have hlen : rs + (re - rs) ≤ cs.length := by omega
  have hr := ref_text ht h1
  have hdl := sub_length cs hlen
  have hfuel : ((cs.drop rs).take (re - rs)).length + 1 ≤
      (inp.bytes.extract (Utf8.off cs rs) (Utf8.off cs re)).size + 1 := by
    have := length_le_encodeAll ((cs.drop rs).take (re - rs))
    have hb : inp.bytes.extract (Utf8.off cs rs) (Utf8.off cs re) = Utf8.text ((cs.drop rs).take (re - rs)) :=
      hr.bytes
    rw [hb]; simp only [Utf8.size_text]; omega
  simp only [backRefStep, if_true, backrefIcase, backrefIcase_ok ht h1 h2, Bool.false_eq_true, if_false]
  have hloop := icaseLoop_fwd ht hr hu ((cs.drop rs).take (re - rs)).length 0 e _ (by omega) he hfuel
  rw [Utf8.off_zero] at hloop
  simp only [Nat.zero_add] at hloop
  rw [hloop, hdl]
  have hiff : (∀ i, i < re - rs → C10.scfRep (((cs.drop rs).take (re - rs)).toArray.getD i 0) =
        C10.scfRep (cs.toArray.getD (e + i) 0)) ↔
      ES.allBelow (fun i => C10.scfRep (cs.toArray.getD (rs + i) 0) ==
        C10.scfRep (cs.toArray.getD (e + i) 0)) (re - rs) = true := by
    rw [allBelow_iff]
    constructor
    · intro h i hi; have := h i hi; rw [sub_getD cs hlen hi] at this; exact beq_iff_eq.2 this
    · intro h i hi; have := h i hi; rw [sub_getD cs hlen hi]; exact eq_of_beq this
  by_cases hc : e + (re - rs) ≤ cs.length ∧ ES.allBelow (fun i => C10.scfRep (cs.toArray.getD (rs + i) 0) ==
      C10.scfRep (cs.toArray.getD (e + i) 0)) (re - rs) = true
  · rw [if_pos hc, if_pos ⟨hc.1, hiff.2 hc.2⟩]
  · rw [if_neg hc, if_neg (fun h => hc ⟨h.1, hiff.1 h.2⟩)]

theorem backRefStep_icase_bwd (ht : Utf8Text inp cs) (hu : inp.unicode = true) {rs re e : Nat} (h1 : rs ≤ re)
    (h2 : re ≤ cs.length) (he : e ≤ cs.length) :
    backRefStep inp true false (Utf8.off cs rs) (Utf8.off cs re) (Utf8.off cs e) =
      if (re - rs) ≤ e ∧
          ES.allBelow (fun i => C10.scfRep (cs.toArray.getD (rs + i) 0) ==
            C10.scfRep (cs.toArray.getD (e - (re - rs) + i) 0)) (re - rs) = true
      then some (Utf8.off cs (e - (re - rs))) else none := by
  have hlen : rs + (re - rs) ≤ cs.length := by omega
  have hr := ref_text ht h1
  have hdl := sub_length cs hlen
  have hfuel : ((cs.drop rs).take (re - rs)).length + 1 ≤
      (inp.bytes.extract (Utf8.off cs rs) (Utf8.off cs re)).size + 1 := by
    have := length_le_encodeAll ((cs.drop rs).take (re - rs))
    have hb : inp.bytes.extract (Utf8.off cs rs) (Utf8.off cs re) = Utf8.text ((cs.drop rs).take (re - rs)) :=
      hr.bytes
    rw [hb]; simp only [Utf8.size_text]; omega
  simp only [backRefStep, if_true, backrefIcase, backrefIcase_ok ht h1 h2, Bool.false_eq_true, if_false]
  have hsz : (inp.bytes.extract (Utf8.off cs rs) (Utf8.off cs re)).size =
      Utf8.off ((cs.drop rs).take (re - rs)) ((cs.drop rs).take (re - rs)).length := by
    have hb : inp.bytes.extract (Utf8.off cs rs) (Utf8.off cs re) = Utf8.text ((cs.drop rs).take (re - rs)) :=
      hr.bytes
    rw [Utf8.off_length, hb]
  rw [hsz] at hfuel ⊢
  have hloop := icaseLoop_bwd ht hr hu ((cs.drop rs).take (re - rs)).length _ e _ rfl (Nat.le_refl _) he hfuel
  rw [hloop, hdl]
  have hiff : (∀ i, i < re - rs → C10.scfRep (((cs.drop rs).take (re - rs)).toArray.getD i 0) =
        C10.scfRep (cs.toArray.getD (e - (re - rs) + i) 0)) ↔
      ES.allBelow (fun i => C10.scfRep (cs.toArray.getD (rs + i) 0) ==
        C10.scfRep (cs.toArray.getD (e - (re - rs) + i) 0)) (re - rs) = true := by
    rw [allBelow_iff]
    constructor
    · intro h i hi; have := h i hi; rw [sub_getD cs hlen hi] at this; exact beq_iff_eq.2 this
    · intro h i hi; have := h i hi; rw [sub_getD cs hlen hi]; exact eq_of_beq this
  by_cases hc : (re - rs) ≤ e ∧ ES.allBelow (fun i => C10.scfRep (cs.toArray.getD (rs + i) 0) ==
      C10.scfRep (cs.toArray.getD (e - (re - rs) + i) 0)) (re - rs) = true
  · rw [if_pos hc, if_pos ⟨hc.1, hiff.2 hc.2⟩]
  · rw [if_neg hc, if_neg (fun h => hc ⟨h.1, hiff.1 h.2⟩)]

/-- `\N` under `i` with `u`/`v`. -/
theorem sim_backref_icase (ht : Utf8Text inp cs) (hu : inp.unicode = true) (total : Nat) (rer : ES.RER)
    (hic : rer.ignoreCase = true) (hru : rer.hasEitherUnicodeFlag = true) (n : Nat) (hn1 : 1 ≤ n) (hn2 : n ≤ total)
    (back : Bool) (lo hi : Nat) :
    Sim inp cs total (ES.backreferenceMatcher cs.toArray rer [n] (dirOf back)) (.backRef n true) (!back) lo hi :=
  sim_backref_gen total rer true C10.scfRep (fun ch => canonicalize_icase hic hru ch)
    (fun h1 h2 he => backRefStep_icase_fwd ht hu h1 h2 he) (fun h1 h2 he => backRefStep_icase_bwd ht hu h1 h2 he)
    n hn1 hn2 back lo hi

end

end Regress.Lower
