import RegressModel.IR.Sem
import RegressModel.IR.Optimize
import Proofs.Lemmas.Utf8
/-!
# Helper lemmas about the IR semantics `sem`

* `ObsEq`: observational equality of success lists ("the same first success under every
  continuation"), the relation in which the optimizer passes preserve `sem`; it is a congruence for
  every IR constructor (`NodeEq.*`).
* `semCat_append`, `sem_adv` (the cursor only moves in the direction of travel and stays inside the
  input), `loopIter_fuel` (the iteration budget of a loop is never exhausted).
-/
namespace Regress.IR

open Regress.VM

/-! ## Observational equality of success lists -/

/-- Two success lists are observationally equal if every continuation finds the same first
success in both. (Equivalently: they are equal after erasing every repetition of an element that
already occurred.) -/
def ObsEq (l l' : List St) : Prop := ∀ k : St → Option St, l.findSome? k = l'.findSome? k

theorem ObsEq.refl (l : List St) : ObsEq l l := fun _ => rfl
theorem ObsEq.of_eq {l l' : List St} (h : l = l') : ObsEq l l' := h ▸ ObsEq.refl l
theorem ObsEq.symm {l l' : List St} (h : ObsEq l l') : ObsEq l' l := fun k => (h k).symm
theorem ObsEq.trans {a b c : List St} (h1 : ObsEq a b) (h2 : ObsEq b c) : ObsEq a c :=
  fun k => (h1 k).trans (h2 k)

theorem findSome?_flatMap' {α β γ} (l : List α) (f : α → List β) (k : β → Option γ) :
    (l.flatMap f).findSome? k = l.findSome? (fun a => (f a).findSome? k) := by
  induction l with
  | nil => rfl
  | cons a t ih =>
    simp only [List.flatMap_cons, List.findSome?_append, List.findSome?_cons, ih]
    cases (f a).findSome? k <;> rfl

theorem head?_eq_findSome? {α} (l : List α) : l.head? = l.findSome? some := by
  cases l <;> rfl

theorem ObsEq.head? {l l' : List St} (h : ObsEq l l') : l.head? = l'.head? := by
  rw [head?_eq_findSome?, head?_eq_findSome?]; exact h _

theorem ObsEq.nil_iff {l l' : List St} (h : ObsEq l l') : l = [] ↔ l' = [] := by
  have := h.head?
  cases l <;> cases l' <;> simp_all

theorem ObsEq.append {a a' b b' : List St} (h1 : ObsEq a a') (h2 : ObsEq b b') :
    ObsEq (a ++ b) (a' ++ b') := by
  intro k; simp only [List.findSome?_append, h1 k, h2 k]

theorem ObsEq.flatMap {l l' : List St} {f f' : St → List St} (h1 : ObsEq l l')
    (h2 : ∀ s, ObsEq (f s) (f' s)) : ObsEq (l.flatMap f) (l'.flatMap f') := by
  intro k
  rw [findSome?_flatMap', findSome?_flatMap']
  have : (fun a => (f a).findSome? k) = (fun a => (f' a).findSome? k) := funext fun a => h2 a k
  rw [this]; exact h1 _

theorem ObsEq.map {l l' : List St} (g : St → St) (h : ObsEq l l') : ObsEq (l.map g) (l'.map g) := by
  intro k; simp only [List.findSome?_map]; exact h _

theorem ObsEq.cons (s : St) {l l' : List St} (h : ObsEq l l') : ObsEq (s :: l) (s :: l') :=
  ObsEq.append (ObsEq.refl [s]) h

/-- A repeated success is unobservable. -/
theorem ObsEq.dup (s : St) : ObsEq [s, s] [s] := by
  intro k; simp only [List.findSome?_cons, List.findSome?_nil]; cases k s <;> rfl

theorem findSome?_congr_mem {α β} (l : List α) (g g' : α → Option β) (h : ∀ a ∈ l, g a = g' a) :
    l.findSome? g = l.findSome? g' := by
  induction l with
  | nil => rfl
  | cons a t ih =>
    simp only [List.findSome?_cons]
    rw [h a (by simp), ih (fun b hb => h b (by simp [hb]))]

/-- `flatMap` respects `ObsEq`; the continuations need to agree only on the members of the left list. -/
theorem ObsEq.flatMap_mem {l l' : List St} {f f' : St → List St} (h1 : ObsEq l l')
    (h2 : ∀ s ∈ l, ObsEq (f s) (f' s)) : ObsEq (l.flatMap f) (l'.flatMap f') := by
  intro k
  rw [findSome?_flatMap', findSome?_flatMap']
  rw [findSome?_congr_mem l _ (fun a => (f' a).findSome? k) (fun a ha => h2 a ha k)]
  exact h1 _

/-! ## State invariants, observational equality of nodes -/

/-- A predicate on states that the bookkeeping operations of the semantics preserve. The
unconditional development uses `StInv.top`; `form_literal_bytes` needs "every offset of the state
is a char boundary of well-formed UTF-8". -/
structure StInv where
  G : St → Prop
  reset : ∀ st g0 g1, G st → G (st.resetGroups g0 g1)
  setStart : ∀ st id, G st → G (st.setStart id st.pos)
  setEnd : ∀ st id, G st → G (st.setEnd id st.pos)
  restore : ∀ st s, G st → G s → G { pos := st.pos, caps := s.caps }

/-- The trivial invariant. -/
def StInv.top : StInv :=
  { G := fun _ => True, reset := fun _ _ _ _ => trivial, setStart := fun _ _ _ => trivial,
    setEnd := fun _ _ _ => trivial, restore := fun _ _ _ _ => trivial }

/-- `n` preserves the invariant. -/
def Pres (I : StInv) (inp : Input) (fwd : Bool) (n : Node) : Prop :=
  ∀ st, I.G st → ∀ s ∈ sem inp n fwd st, I.G s

/-- Observational equality of two nodes at direction `fwd`, on the states satisfying `I`. -/
def NodeEq (I : StInv) (inp : Input) (fwd : Bool) (n n' : Node) : Prop :=
  ∀ st, I.G st → ObsEq (sem inp n fwd st) (sem inp n' fwd st)

theorem NodeEq.refl (I : StInv) (inp : Input) (fwd : Bool) (n : Node) : NodeEq I inp fwd n n :=
  fun _ _ => ObsEq.refl _
theorem NodeEq.symm {I : StInv} {inp : Input} {fwd : Bool} {n n' : Node} (h : NodeEq I inp fwd n n') :
    NodeEq I inp fwd n' n := fun st hg => (h st hg).symm
theorem NodeEq.trans {I : StInv} {inp : Input} {fwd : Bool} {a b c : Node} (h1 : NodeEq I inp fwd a b)
    (h2 : NodeEq I inp fwd b c) : NodeEq I inp fwd a c := fun st hg => (h1 st hg).trans (h2 st hg)
theorem NodeEq.of_eq {I : StInv} {inp : Input} {fwd : Bool} {n n' : Node}
    (h : ∀ st, sem inp n fwd st = sem inp n' fwd st) : NodeEq I inp fwd n n' :=
  fun st _ => ObsEq.of_eq (h st)

/-- `Cat` lists, pointwise (the left nodes preserve the invariant). -/
inductive ListEq (I : StInv) (inp : Input) (fwd : Bool) : List Node → List Node → Prop
  | nil : ListEq I inp fwd [] []
  | cons {n n' ns ns'} : NodeEq I inp fwd n n' → Pres I inp fwd n → ListEq I inp fwd ns ns' →
      ListEq I inp fwd (n :: ns) (n' :: ns')

/-! ## `sem` depends on the children only through their `sem` (congruence) -/

theorem semCat_congr {I : StInv} {inp : Input} {fwd : Bool} {ns ns' : List Node} (h : ListEq I inp fwd ns ns') :
    ∀ st, I.G st → ObsEq (semCat inp ns fwd st) (semCat inp ns' fwd st) := by
  induction h with
  | nil => intro st _; exact ObsEq.refl _
  | cons h1 hp _ ih =>
    intro st hg
    simp only [semCat]
    exact ObsEq.flatMap_mem (h1 st hg) (fun s hs => ih s (hp st hg s hs))

theorem NodeEq.cat {I : StInv} {inp : Input} {fwd : Bool} {ns ns' : List Node} (h : ListEq I inp fwd ns ns') :
    NodeEq I inp fwd (.cat ns) (.cat ns') := by
  intro st hg; simp only [sem]; exact semCat_congr h st hg

theorem NodeEq.alt {I : StInv} {inp : Input} {fwd : Bool} {l l' r r' : Node} (h1 : NodeEq I inp fwd l l')
    (h2 : NodeEq I inp fwd r r') : NodeEq I inp fwd (.alt l r) (.alt l' r') := by
  intro st hg; simp only [sem]; exact ObsEq.append (h1 st hg) (h2 st hg)

theorem NodeEq.group {I : StInv} {inp : Input} {fwd : Bool} {c c' : Node} (id : Nat) (name : Option (List Nat))
    (h : NodeEq I inp fwd c c') : NodeEq I inp fwd (.group id name c) (.group id name c') := by
  intro st hg; simp only [sem]
  refine ObsEq.map _ (h _ ?_)
  cases fwd
  · exact I.setEnd st id hg
  · exact I.setStart st id hg

theorem NodeEq.look {I : StInv} {inp : Input} {fwd : Bool} {c c' : Node} (negate backwards : Bool) (sg eg : Nat)
    (h : NodeEq I inp (!backwards) c c') :
    NodeEq I inp fwd (.look negate backwards sg eg c) (.look negate backwards sg eg c') := by
  intro st hg
  simp only [sem]
  have hh := (h st hg).head?
  cases h1 : sem inp c (!backwards) st with
  | nil =>
    cases h2 : sem inp c' (!backwards) st with
    | nil => exact ObsEq.refl _
    | cons b t => rw [h1, h2] at hh; simp at hh
  | cons a t =>
    cases h2 : sem inp c' (!backwards) st with
    | nil => rw [h1, h2] at hh; simp at hh
    | cons b t' =>
      rw [h1, h2] at hh
      simp at hh
      subst hh
      exact ObsEq.refl _

theorem loopIter_congr {I : StInv} {body body' : St → List St} (q : Quant) (g0 g1 : Nat)
    (h : ∀ s, I.G s → ObsEq (body s) (body' s)) (hp : ∀ s, I.G s → ∀ s' ∈ body s, I.G s') :
    ∀ k iter entry st, I.G st →
      ObsEq (loopIter body q g0 g1 k iter entry st) (loopIter body' q g0 g1 k iter entry st) := by
  intro k
  induction k with
  | zero => intro _ _ _ _; exact ObsEq.refl _
  | succ k ih =>
    intro iter entry st hg
    simp only [loopIter]
    have hr := I.reset st g0 g1 hg
    split
    · exact ObsEq.refl _
    · have hf := ObsEq.flatMap_mem (h (st.resetGroups g0 g1) hr)
        (fun s hs => ih (iter + 1) st.pos s (hp _ hr s hs))
      split
      · exact ObsEq.refl _
      · exact ObsEq.refl _
      · exact hf
      · split
        · exact ObsEq.append hf (ObsEq.refl _)
        · exact ObsEq.cons _ hf

theorem NodeEq.loop {I : StInv} {inp : Input} {fwd : Bool} {b b' : Node} (q : Quant) (g0 g1 : Nat)
    (h : NodeEq I inp fwd b b') (hp : Pres I inp fwd b) :
    NodeEq I inp fwd (.loop b q g0 g1) (.loop b' q g0 g1) := by
  intro st hg; simp only [sem]; exact loopIter_congr q g0 g1 h hp _ _ _ _ hg

theorem loop1Iter_congr {I : StInv} {body body' : St → List St} (q : Quant)
    (h : ∀ s, I.G s → ObsEq (body s) (body' s)) (hp : ∀ s, I.G s → ∀ s' ∈ body s, I.G s') :
    ∀ k iter st, I.G st → loop1Iter body q k iter st = loop1Iter body' q k iter st := by
  intro k
  induction k with
  | zero => intro _ _ _; rfl
  | succ k ih =>
    intro iter st hg
    simp only [loop1Iter, ← (h st hg).head?]
    cases hb : body st with
    | nil => cases maxOk q iter <;> cases decide (iter ≥ q.min) <;> simp
    | cons a t =>
      have ha : I.G a := hp st hg a (by simp [hb])
      cases maxOk q iter <;> cases decide (iter ≥ q.min) <;> simp [ih _ a ha]

theorem NodeEq.loop1 {I : StInv} {inp : Input} {fwd : Bool} {b b' : Node} (q : Quant)
    (h : NodeEq I inp fwd b b') (hp : Pres I inp fwd b) : NodeEq I inp fwd (.loop1 b q) (.loop1 b' q) := by
  intro st hg; simp only [sem]; exact ObsEq.of_eq (loop1Iter_congr q h hp _ _ _ hg)

/-! ## Basic facts about `sem` -/

theorem flatMap_singleton' {α} (l : List α) : l.flatMap (fun s => [s]) = l := by
  induction l with
  | nil => rfl
  | cons a t ih => simp [List.flatMap_cons, ih]

/-- `Cat` is sequential composition. -/
theorem semCat_append (inp : Input) (xs ys : List Node) (fwd : Bool) (st : St) :
    semCat inp (xs ++ ys) fwd st = (semCat inp xs fwd st).flatMap (fun s => semCat inp ys fwd s) := by
  induction xs generalizing st with
  | nil => simp [semCat]
  | cons x xs ih =>
    simp only [List.cons_append, semCat, List.flatMap_assoc]
    congr 1; funext s; exact ih s

theorem semCat_singleton (inp : Input) (x : Node) (fwd : Bool) (st : St) :
    semCat inp [x] fwd st = sem inp x fwd st := by
  simp only [semCat, flatMap_singleton']

theorem semCat_cons (inp : Input) (x : Node) (xs : List Node) (fwd : Bool) (st : St) :
    semCat inp (x :: xs) fwd st = (sem inp x fwd st).flatMap (fun s => semCat inp xs fwd s) := by
  simp only [semCat]

theorem resetFrom_noop (caps : List Cap) (i g0 g1 : Nat) (h : g1 ≤ g0) : resetFrom caps i g0 g1 = caps := by
  induction caps generalizing i with
  | nil => rfl
  | cons c cs ih =>
    simp only [resetFrom, ih]
    have : (decide (g0 ≤ i) && decide (i < g1)) = false := by
      cases hd : decide (g0 ≤ i) <;> simp_all
      omega
    simp [this]

theorem St.resetGroups_noop (st : St) (g0 g1 : Nat) (h : g1 ≤ g0) : st.resetGroups g0 g1 = st := by
  simp [St.resetGroups, resetFrom_noop _ _ _ _ h]

theorem optSt_pos (st : St) : optSt st (some st.pos) = [st] := rfl

theorem matchBytes_nil (inp : Input) (fwd : Bool) (pos : Nat) : inp.matchBytes fwd pos [] = some pos := by
  cases fwd <;> simp [Input.matchBytes, Utf8.matchBytes, Utf8.tryMoveRight, Utf8.tryMoveLeft, Utf8.slice]

theorem charStep_false (inp : Input) (fwd : Bool) (pos : Nat) (p : Nat → Bool) (h : ∀ c, p c = false) :
    charStep inp fwd pos p = none := by
  unfold charStep
  split
  · simp [h]
  · rfl

theorem byteStep_false (inp : Input) (fwd : Bool) (pos : Nat) (p : Nat → Bool) (h : ∀ c, p c = false) :
    byteStep inp fwd pos p = none := by
  unfold byteStep
  split
  · simp [h]
  · rfl

theorem sem_empty (inp : Input) (fwd : Bool) (st : St) : sem inp .empty fwd st = [st] := by simp only [sem]

/-! ## The cursor moves only in the direction of travel -/

theorem getElem?_some_lt {bytes : Array Nat} {i b : Nat} (h : bytes[i]? = some b) : i < bytes.size := by
  rcases Nat.lt_or_ge i bytes.size with hlt | hge
  · exact hlt
  · simp [Array.getElem?_eq_none hge] at h

theorem nextRight_spec {bytes : Array Nat} {pos c p : Nat} (h : Utf8.nextRight bytes pos = .ok (some (c, p))) :
    c ≤ 0x10FFFF ∧ pos < p ∧ p ≤ bytes.size := by
  unfold Utf8.nextRight at h
  by_cases h0 : (pos == bytes.size) = true
  · simp [h0] at h
  · simp only [h0, if_false] at h
    cases hb : bytes[pos]? with
    | none => simp [hb] at h
    | some b0 =>
      have hlt := getElem?_some_lt hb
      simp only [hb] at h
      by_cases h1 : b0 < 128
      · simp [h1] at h; omega
      · simp only [h1, if_false] at h
        have hs : Utf8.seqLen b0 = 2 ∨ Utf8.seqLen b0 = 3 ∨ Utf8.seqLen b0 = 4 := by
          unfold Utf8.seqLen; simp only [h1, if_false]; split
          · simp
          · split <;> simp
        rcases hs with hs | hs | hs <;> simp only [hs] at h
        · cases hb1 : bytes[pos+1]? with
          | none => simp [hb1] at h
          | some b1 =>
            have := getElem?_some_lt hb1
            simp only [hb1] at h
            by_cases hsc : Utf8.isScalar (Utf8.w2 b0 b1) = true
            · simp [hsc] at h; obtain ⟨rfl, rfl⟩ := h; exact ⟨Utf8.isScalar_le hsc, by omega, by omega⟩
            · simp [hsc] at h
        · cases hb1 : bytes[pos+1]? with
          | none => simp [hb1] at h
          | some b1 =>
            cases hb2 : bytes[pos+2]? with
            | none => simp [hb1, hb2] at h
            | some b2 =>
              have := getElem?_some_lt hb2
              simp only [hb1, hb2] at h
              by_cases hsc : Utf8.isScalar (Utf8.w3 b0 b1 b2) = true
              · simp [hsc] at h; obtain ⟨rfl, rfl⟩ := h; exact ⟨Utf8.isScalar_le hsc, by omega, by omega⟩
              · simp [hsc] at h
        · cases hb1 : bytes[pos+1]? with
          | none => simp [hb1] at h
          | some b1 =>
            cases hb2 : bytes[pos+2]? with
            | none => simp [hb1, hb2] at h
            | some b2 =>
              cases hb3 : bytes[pos+3]? with
              | none => simp [hb1, hb2, hb3] at h
              | some b3 =>
                have := getElem?_some_lt hb3
                simp only [hb1, hb2, hb3] at h
                by_cases hsc : Utf8.isScalar (Utf8.w4 b0 b1 b2 b3) = true
                · simp [hsc] at h; obtain ⟨rfl, rfl⟩ := h; exact ⟨Utf8.isScalar_le hsc, by omega, by omega⟩
                · simp [hsc] at h

theorem nextLeft_spec {bytes : Array Nat} {pos c p : Nat} (h : Utf8.nextLeft bytes pos = .ok (some (c, p))) :
    c ≤ 0x10FFFF ∧ p < pos := by
  unfold Utf8.nextLeft at h
  by_cases h0 : pos = 0
  · simp [h0] at h
  · simp only [h0, if_false] at h
    repeat' (split at h)
    all_goals first
      | (cases h; done)
      | (simp only [Except.ok.injEq, Option.some.injEq, Prod.mk.injEq] at h; obtain ⟨rfl, rfl⟩ := h
         refine ⟨?_, by omega⟩
         first | omega | exact Utf8.isScalar_le ‹_›)

/-- The elements of the input are code points (`Utf8Input`: always; `AsciiInput`: bytes). -/
def InputOK (inp : Input) : Prop := inp.kind = .utf8 ∨ ∀ (i b : Nat), inp.bytes[i]? = some b → b ≤ 0x10FFFF

/-- `p'` is strictly further than `p` in the direction of travel (and inside the input). -/
def Adv (inp : Input) (fwd : Bool) (p p' : Nat) : Prop :=
  if fwd then p < p' ∧ p' ≤ inp.len else p' < p

/-- `p'` is `p` or further in the direction of travel. -/
def WeakAdv (inp : Input) (fwd : Bool) (p p' : Nat) : Prop := p' = p ∨ Adv inp fwd p p'

theorem WeakAdv.refl (inp : Input) (fwd : Bool) (p : Nat) : WeakAdv inp fwd p p := Or.inl rfl

theorem WeakAdv.trans {inp : Input} {fwd : Bool} {a b c : Nat} (h1 : WeakAdv inp fwd a b) (h2 : WeakAdv inp fwd b c) :
    WeakAdv inp fwd a c := by
  unfold WeakAdv Adv at *
  cases fwd <;> simp at * <;> omega

theorem Adv.mu_lt {inp : Input} {fwd : Bool} {p p' : Nat} (h : Adv inp fwd p p') : mu inp fwd p' < mu inp fwd p := by
  unfold Adv at h; unfold mu
  cases fwd <;> simp at * <;> omega

theorem WeakAdv.mu_le {inp : Input} {fwd : Bool} {p p' : Nat} (h : WeakAdv inp fwd p p') :
    mu inp fwd p' ≤ mu inp fwd p := by
  rcases h with h | h
  · rw [h]; exact Nat.le_refl _
  · exact Nat.le_of_lt h.mu_lt

theorem WeakAdv.adv_of_ne {inp : Input} {fwd : Bool} {p p' : Nat} (h : WeakAdv inp fwd p p') (hne : p' ≠ p) :
    Adv inp fwd p p' := by
  rcases h with h | h
  · exact absurd h hne
  · exact h

theorem cursor_next_spec {inp : Input} {fwd : Bool} {pos c p : Nat}
    (h : Cursor.next inp fwd pos = .ok (some (c, p))) : Adv inp fwd pos p ∧ (InputOK inp → c ≤ 0x10FFFF) := by
  unfold Cursor.next at h
  cases fwd
  · simp only [Bool.false_eq_true, if_false] at h
    unfold Input.nextLeft at h
    cases hk : inp.kind with
    | utf8 =>
      simp only [hk] at h
      have := nextLeft_spec h
      exact ⟨by simpa [Adv] using this.2, fun _ => this.1⟩
    | ascii =>
      simp only [hk] at h
      by_cases h0 : pos = 0
      · simp [h0] at h
      · rw [if_neg (by simpa using h0)] at h
        cases hb : inp.bytes[pos - 1]? with
        | none => simp [hb] at h
        | some b =>
          simp [hb] at h
          obtain ⟨rfl, rfl⟩ := h
          refine ⟨by simp [Adv]; omega, fun hok => ?_⟩
          rcases hok with hok | hok
          · rw [hk] at hok; cases hok
          · exact hok _ _ hb
  · simp only [if_true] at h
    unfold Input.nextRight at h
    cases hk : inp.kind with
    | utf8 =>
      simp only [hk] at h
      have := nextRight_spec h
      exact ⟨by simpa [Adv, Input.len] using this.2, fun _ => this.1⟩
    | ascii =>
      simp only [hk] at h
      by_cases h0 : pos = inp.bytes.size
      · simp [h0] at h
      · rw [if_neg (by simpa using h0)] at h
        cases hb : inp.bytes[pos]? with
        | none => simp [hb] at h
        | some b =>
          have := getElem?_some_lt hb
          simp [hb] at h
          obtain ⟨rfl, rfl⟩ := h
          refine ⟨by simp [Adv, Input.len]; omega, fun hok => ?_⟩
          rcases hok with hok | hok
          · rw [hk] at hok; cases hok
          · exact hok _ _ hb

theorem charStep_adv {inp : Input} {fwd : Bool} {pos p : Nat} {t : Nat → Bool}
    (h : charStep inp fwd pos t = some p) : Adv inp fwd pos p := by
  unfold charStep at h
  split at h
  · rename_i c pos' heq
    split at h
    · cases h; exact (cursor_next_spec heq).1
    · cases h
  · cases h

/-- The element that a successful `charStep` read satisfies the test (and is a code point). -/
theorem charStep_elem {inp : Input} {fwd : Bool} {pos p : Nat} {t : Nat → Bool}
    (h : charStep inp fwd pos t = some p) :
    ∃ c, Cursor.next inp fwd pos = .ok (some (c, p)) ∧ t c = true := by
  unfold charStep at h
  split at h
  · rename_i c pos' heq
    split at h
    · cases h; exact ⟨c, heq, ‹_›⟩
    · cases h
  · cases h

theorem byteStep_adv {inp : Input} {fwd : Bool} {pos p : Nat} {t : Nat → Bool}
    (h : byteStep inp fwd pos t = some p) : Adv inp fwd pos p := by
  unfold byteStep at h
  split at h
  · rename_i b pos' heq
    split at h
    · cases h
      unfold Cursor.nextByte at heq
      cases fwd
      · simp only [Bool.false_eq_true, if_false] at heq
        unfold Input.peekByteLeft Utf8.peekByteLeft at heq
        by_cases h1 : pos > inp.bytes.size
        · simp [h1] at heq
        · by_cases h0 : pos = 0
          · simp [h1, h0] at heq
          · rw [if_neg h1, if_neg (by simpa using h0)] at heq
            cases hb : inp.bytes[pos - 1]? with
            | none => simp [hb] at heq
            | some b' =>
              simp [hb] at heq
              obtain ⟨_, rfl⟩ := heq
              simp [Adv]; omega
      · simp only [if_true] at heq
        unfold Input.peekByteRight Utf8.peekByteRight at heq
        by_cases h1 : pos > inp.bytes.size
        · simp [h1] at heq
        · by_cases h0 : pos = inp.bytes.size
          · simp [h0] at heq
          · rw [if_neg h1, if_neg (by simpa using h0)] at heq
            cases hb : inp.bytes[pos]? with
            | none => simp [hb] at heq
            | some b' =>
              have := getElem?_some_lt hb
              simp [hb] at heq
              obtain ⟨_, rfl⟩ := heq
              simp [Adv, Input.len]; omega
    · cases h
  · cases h

theorem matchBytes_adv {inp : Input} {fwd : Bool} {pos p : Nat} {lit : List Nat}
    (h : inp.matchBytes fwd pos lit = some p) : WeakAdv inp fwd pos p := by
  unfold Input.matchBytes Utf8.matchBytes at h
  cases fwd
  · simp only [Bool.false_eq_true, if_false] at h
    unfold Utf8.tryMoveLeft at h
    split at h
    · cases h
    · rename_i s hs
      split at hs
      · cases hs
      · cases hs
        split at h
        · cases h
          by_cases hl : lit.length = 0
          · left; omega
          · right; simp [Adv]; omega
        · cases h
  · simp only [if_true] at h
    unfold Utf8.tryMoveRight at h
    split at h
    · cases h
    · rename_i e he
      split at he
      · cases he
      · cases he
        split at h
        · cases h
          by_cases hl : lit.length = 0
          · left; omega
          · right; simp [Adv, Input.len]; omega
        · cases h

theorem backrefIcaseLoop_adv {inp ref : Input} {fwd : Bool} :
    ∀ (fuel refPos pos : Nat) {p : Nat}, backrefIcaseLoop inp ref fwd fuel refPos pos = .ok (some p) →
      WeakAdv inp fwd pos p := by
  intro fuel
  induction fuel with
  | zero => intro _ _ _ h; simp [backrefIcaseLoop] at h
  | succ k ih =>
    intro refPos pos p h
    unfold backrefIcaseLoop at h
    split at h
    · cases h
    · cases h; exact WeakAdv.refl _ _ _
    · split at h
      · cases h
      · cases h
      · rename_i c2 pos' heq
        split at h
        · exact WeakAdv.trans (Or.inr (cursor_next_spec heq).1) (ih _ _ h)
        · cases h

theorem backRefStep_adv {inp : Input} {icase fwd : Bool} {rs re pos p : Nat}
    (h : backRefStep inp icase fwd rs re pos = some p) : WeakAdv inp fwd pos p := by
  unfold backRefStep at h
  split at h
  · split at h
    · rename_i r heq
      subst h
      unfold backrefIcase at heq
      split at heq
      · cases heq
      · exact backrefIcaseLoop_adv _ _ _ heq
    · cases h
  · unfold backref Input.subrangeEq at h
    split at h
    · cases h
    · exact matchBytes_adv (lit := Utf8.slice inp.bytes rs re) h

theorem cpStep_adv {inp : Input} {icase fwd : Bool} {pos cp p : Nat}
    (h : cpStep inp icase fwd pos cp = some p) : WeakAdv inp fwd pos p := by
  unfold cpStep at h
  split at h
  · split at h
    · exact matchBytes_adv h
    · exact Or.inr (charStep_adv h)
  · split at h
    · exact Or.inr (byteStep_adv h)
    · exact Or.inr (charStep_adv h)

theorem stepSeq_adv {inp : Input} {fwd : Bool} {step : Nat → Nat → Option Nat}
    (hs : ∀ pos c p, step pos c = some p → WeakAdv inp fwd pos p) :
    ∀ (cs : List Nat) (pos : Nat) {p : Nat}, stepSeq step cs pos = some p → WeakAdv inp fwd pos p := by
  intro cs
  induction cs with
  | nil => intro pos p h; simp [stepSeq] at h; exact Or.inl h.symm
  | cons c cs ih =>
    intro pos p h
    unfold stepSeq at h
    split at h
    · cases h
    · rename_i pos' heq
      exact (hs _ _ _ heq).trans (ih _ h)

theorem mem_optSt {st s : St} {o : Option Nat} (h : s ∈ optSt st o) : ∃ p, o = some p ∧ s = { st with pos := p } := by
  cases o with
  | none => simp [optSt] at h
  | some p => simp [optSt] at h; exact ⟨p, rfl, h⟩

theorem flatMap_congr_mem {α β} (l : List α) (f g : α → List β) (h : ∀ a ∈ l, f a = g a) :
    l.flatMap f = l.flatMap g := by
  induction l with
  | nil => rfl
  | cons a t ih =>
    simp only [List.flatMap_cons]
    rw [h a (by simp), ih (fun b hb => h b (by simp [hb]))]

theorem loopIter_adv {inp : Input} {fwd : Bool} {body : St → List St} (q : Quant) (g0 g1 : Nat)
    (hb : ∀ s s', s' ∈ body s → WeakAdv inp fwd s.pos s'.pos) :
    ∀ k iter entry st s, s ∈ loopIter body q g0 g1 k iter entry st → WeakAdv inp fwd st.pos s.pos := by
  intro k
  induction k with
  | zero => intro _ _ _ _ h; simp [loopIter] at h
  | succ k ih =>
    intro iter entry st s h
    have taken : ∀ s, s ∈ (body (st.resetGroups g0 g1)).flatMap (loopIter body q g0 g1 k (iter + 1) st.pos) →
        WeakAdv inp fwd st.pos s.pos := by
      intro s hs
      obtain ⟨s1, h1, h2⟩ := List.mem_flatMap.1 hs
      have := hb _ _ h1
      exact WeakAdv.trans this (ih _ _ _ _ h2)
    simp only [loopIter] at h
    split at h
    · simp at h
    · split at h
      · simp at h
      · simp at h; rw [h]; exact WeakAdv.refl _ _ _
      · exact taken s h
      · split at h
        · rcases List.mem_append.1 h with h | h
          · exact taken s h
          · simp at h; rw [h]; exact WeakAdv.refl _ _ _
        · rcases List.mem_cons.1 h with h | h
          · rw [h]; exact WeakAdv.refl _ _ _
          · exact taken s h

theorem loop1Iter_adv {inp : Input} {fwd : Bool} {body : St → List St} (q : Quant)
    (hb : ∀ s s', s' ∈ body s → WeakAdv inp fwd s.pos s'.pos) :
    ∀ k iter st s, s ∈ loop1Iter body q k iter st → WeakAdv inp fwd st.pos s.pos := by
  intro k
  induction k with
  | zero => intro _ _ _ h; simp [loop1Iter] at h
  | succ k ih =>
    intro iter st s h
    simp only [loop1Iter] at h
    split at h
    · simp at h
    · simp at h; rw [h]; exact WeakAdv.refl _ _ _
    · rename_i st' heq _
      have hm : st' ∈ body st := by
        split at heq
        · exact List.mem_of_mem_head? heq
        · cases heq
      exact (hb _ _ hm).trans (ih _ _ _ h)
    · rename_i st' heq _
      have hm : st' ∈ body st := by
        split at heq
        · exact List.mem_of_mem_head? heq
        · cases heq
      split at h
      · rcases List.mem_append.1 h with h | h
        · exact (hb _ _ hm).trans (ih _ _ _ h)
        · simp at h; rw [h]; exact WeakAdv.refl _ _ _
      · rcases List.mem_cons.1 h with h | h
        · rw [h]; exact WeakAdv.refl _ _ _
        · exact (hb _ _ hm).trans (ih _ _ _ h)

theorem mem_guardSt {st s : St} {b : Bool} (h : s ∈ guardSt st b) : s = st := by
  unfold guardSt at h; split at h <;> simp at h; exact h

theorem optSt_adv {inp : Input} {fwd : Bool} {st s : St} {o : Option Nat}
    (ho : ∀ p, o = some p → WeakAdv inp fwd st.pos p) (h : s ∈ optSt st o) : WeakAdv inp fwd st.pos s.pos := by
  obtain ⟨p, hp, rfl⟩ := mem_optSt h
  exact ho p hp

mutual
/-- Every success of a node lies at the entry position or further in the direction of travel
(and, travelling forward, inside the input). -/
theorem sem_adv (inp : Input) :
    ∀ (n : Node) (fwd : Bool) (st s : St), s ∈ sem inp n fwd st → WeakAdv inp fwd st.pos s.pos
  | .empty, fwd, st, s, h => by simp [sem] at h; rw [h]; exact WeakAdv.refl _ _ _
  | .goal, fwd, st, s, h => by simp [sem] at h; rw [h]; exact WeakAdv.refl _ _ _
  | .char c, fwd, st, s, h => by
    simp only [sem] at h; exact optSt_adv (fun p hp => Or.inr (charStep_adv hp)) h
  | .byteSeq bs, fwd, st, s, h => by
    simp only [sem] at h; exact optSt_adv (fun p hp => matchBytes_adv hp) h
  | .byteSet bs, fwd, st, s, h => by
    simp only [sem] at h; exact optSt_adv (fun p hp => Or.inr (byteStep_adv hp)) h
  | .charSet cs, fwd, st, s, h => by
    simp only [sem] at h; exact optSt_adv (fun p hp => Or.inr (charStep_adv hp)) h
  | .cat ns, fwd, st, s, h => by
    simp only [sem] at h; exact semCat_adv inp ns fwd st s h
  | .alt l r, fwd, st, s, h => by
    simp only [sem] at h
    rcases List.mem_append.1 h with h | h
    · exact sem_adv inp l fwd st s h
    · exact sem_adv inp r fwd st s h
  | .matchAny, fwd, st, s, h => by
    simp only [sem] at h; exact optSt_adv (fun p hp => Or.inr (charStep_adv hp)) h
  | .matchAnyExceptLT, fwd, st, s, h => by
    simp only [sem] at h; exact optSt_adv (fun p hp => Or.inr (charStep_adv hp)) h
  | .anchor _ _, fwd, st, s, h => by
    simp only [sem] at h; rw [mem_guardSt h]; exact WeakAdv.refl _ _ _
  | .wordBoundary _ _, fwd, st, s, h => by
    simp only [sem] at h; rw [mem_guardSt h]; exact WeakAdv.refl _ _ _
  | .group id _ c, fwd, st, s, h => by
    simp only [sem] at h
    obtain ⟨s1, h1, rfl⟩ := List.mem_map.1 h
    have := sem_adv inp c fwd _ s1 h1
    cases fwd <;> simpa [St.setStart, St.setEnd] using this
  | .backRef g icase, fwd, st, s, h => by
    simp only [sem] at h
    split at h
    · simp at h
    · split at h
      · simp at h
      · exact optSt_adv (fun p hp => backRefStep_adv hp) h
      · simp at h; rw [h]; exact WeakAdv.refl _ _ _
  | .bracket bc, fwd, st, s, h => by
    simp only [sem] at h; exact optSt_adv (fun p hp => Or.inr (charStep_adv hp)) h
  | .stringSet alts icase, fwd, st, s, h => by
    simp only [sem] at h
    obtain ⟨a, _, h2⟩ := List.mem_flatMap.1 h
    exact optSt_adv (fun p hp => stepSeq_adv (fun _ _ _ hq => cpStep_adv hq) _ _ hp) h2
  | .look negate backwards _ _ c, fwd, st, s, h => by
    simp only [sem] at h
    split at h
    · split at h <;> simp at h
      rw [h]; exact WeakAdv.refl _ _ _
    · split at h <;> simp at h
      rw [h]; exact WeakAdv.refl _ _ _
  | .loop body q g0 g1, fwd, st, s, h => by
    simp only [sem] at h
    exact loopIter_adv q g0 g1 (fun s1 s2 h12 => sem_adv inp body fwd s1 s2 h12) _ _ _ _ _ h
  | .loop1 body q, fwd, st, s, h => by
    simp only [sem] at h
    exact loop1Iter_adv q (fun s1 s2 h12 => sem_adv inp body fwd s1 s2 h12) _ _ _ _ h
theorem semCat_adv (inp : Input) :
    ∀ (ns : List Node) (fwd : Bool) (st s : St), s ∈ semCat inp ns fwd st → WeakAdv inp fwd st.pos s.pos
  | [], fwd, st, s, h => by simp [semCat] at h; rw [h]; exact WeakAdv.refl _ _ _
  | n :: ns, fwd, st, s, h => by
    simp only [semCat] at h
    obtain ⟨s1, h1, h2⟩ := List.mem_flatMap.1 h
    exact (sem_adv inp n fwd st s1 h1).trans (semCat_adv inp ns fwd s1 s h2)
end

/-- Travelling forward from inside the input, a node ends inside the input. -/
theorem sem_pos_le_len (inp : Input) (n : Node) (st s : St) (h : s ∈ sem inp n true st) (hp : st.pos ≤ inp.len) :
    st.pos ≤ s.pos ∧ s.pos ≤ inp.len := by
  rcases sem_adv inp n true st s h with h | h
  · omega
  · simp [Adv] at h; omega

/-- Travelling backward, a node ends at or before its entry position. -/
theorem sem_pos_le_back (inp : Input) (n : Node) (st s : St) (h : s ∈ sem inp n false st) : s.pos ≤ st.pos := by
  rcases sem_adv inp n false st s h with h | h
  · omega
  · simp [Adv] at h; omega

/-! ## The iteration budget of a loop is never exhausted -/

/-- An iteration beyond the minimum that did not move the cursor fails (whatever the budget). -/
theorem loopIter_stuck (body : St → List St) (q : Quant) (g0 g1 k iter : Nat) (st : St) (h : iter > q.min) :
    loopIter body q g0 g1 k iter st.pos st = [] := by
  cases k with
  | zero => rfl
  | succ k => simp [loopIter, h]

/-- Any two budgets of at least `(min - iter) + (distance to the end) + 2` give the same result. -/
theorem loopIter_fuel {inp : Input} {fwd : Bool} {body : St → List St} (q : Quant) (g0 g1 : Nat)
    (hb : ∀ s s', s' ∈ body s → WeakAdv inp fwd s.pos s'.pos) :
    ∀ k k' iter entry st, (q.min - iter) + mu inp fwd st.pos + 2 ≤ k → (q.min - iter) + mu inp fwd st.pos + 2 ≤ k' →
      loopIter body q g0 g1 k iter entry st = loopIter body q g0 g1 k' iter entry st := by
  intro k
  induction k with
  | zero => intro k' iter entry st h _; omega
  | succ k ih =>
    intro k' iter entry st h1 h2
    obtain ⟨k1, rfl⟩ : ∃ k1, k' = k1 + 1 := ⟨k' - 1, by omega⟩
    have key : (body (st.resetGroups g0 g1)).flatMap (loopIter body q g0 g1 k (iter + 1) st.pos) =
        (body (st.resetGroups g0 g1)).flatMap (loopIter body q g0 g1 k1 (iter + 1) st.pos) := by
      apply flatMap_congr_mem
      intro s hs
      have hadv : WeakAdv inp fwd st.pos s.pos := hb (st.resetGroups g0 g1) s hs
      by_cases hstuck : s.pos = st.pos ∧ iter + 1 > q.min
      · rw [← hstuck.1, loopIter_stuck _ _ _ _ _ _ _ hstuck.2, loopIter_stuck _ _ _ _ _ _ _ hstuck.2]
      · have hmu := hadv.mu_le
        have : (q.min - (iter + 1)) + mu inp fwd s.pos + 2 ≤ k ∧ (q.min - (iter + 1)) + mu inp fwd s.pos + 2 ≤ k1 := by
          by_cases hp : s.pos = st.pos
          · have : ¬ (iter + 1 > q.min) := fun hh => hstuck ⟨hp, hh⟩
            omega
          · have := (hadv.adv_of_ne hp).mu_lt
            omega
        exact ih k1 (iter + 1) st.pos s this.1 this.2
    simp only [loopIter, key]

end Regress.IR
