import Proofs.Lemmas.C08FragVCls
/-!
# C08 fragment equivalence, part 3: the simulation

The crate's descent (`consumeDisjunction` / `disjLoop` / `termLoop` / `consumeAtom`) against the
grammar recognizer (`disj` / `alt` / `body` / `term` / `quantified` / `atom`) on the fragment, by
induction on the recognizer's fuel.  `u` is the mode (`true`: UnicodeMode, `false`: Annex B).
-/
namespace Regress.C08Frag
open Regress Regress.IR Regress.Parse Regress.ESG

theorem quantStep_some {g : Nat} {out : AtomOut} {q : Quant} {r2 : List Nat}
    (hq : quantifier out.st.flags.unicode out.st.input = .ok (some q, r2))
    (hqa : out.quantifierAllowed = true) :
    quantStep g out =
      if qRev q = true then synErr "Invalid quantifier"
      else if out.startOffset > out.result.length then panicAt "consume_term: result.split_off(start_offset)"
      else if out.st.loopCount ≥ Gen.MAX_LOOPS then limErr "Loop count limit exceeded"
      else .ok ({ out.st with input := r2, loopCount := out.st.loopCount + 1 },
        out.result.take out.startOffset ++
          [.loop (makeCat (out.result.drop out.startOffset)) q g out.st.groupCount]) := by
  unfold quantStep
  rw [hq]
  simp only [hqa, Bool.not_true, Bool.false_eq_true, if_false]
  rfl

/-- Quantifiable atom: the optional quantifier, crate against grammar. -/
theorem quantStep_qa {F : Feat} {u : Bool} {Γ : Glob} (g : Nat) (out : AtomOut) (hqa : out.quantifierAllowed = true)
    (hoff : out.startOffset ≤ out.result.length) (hi : PInv F u Γ out.st) (est : ESG.St) {stk : List Frame}
    (hj : Joint F Γ stk est out.st) :
    match optQuant out.st.input with
    | .ok r2 =>
      (∃ st' acc', quantStep g out = .ok (st', acc') ∧ st'.input = r2 ∧ st'.depth = out.st.depth ∧
        PInv F u Γ st' ∧ Joint F Γ stk est st') ∨
      (qbad u r2 = true ∧ IsSyn (quantStep g out))
    | .bad => IsSyn (quantStep g out)
    | .fuel => False := by
  have hs := quantSim u out.st.input
  have hu := hi.uni
  cases ho : optQuant out.st.input with
  | fuel => rw [ho] at hs; exact hs
  | bad =>
    rw [ho] at hs
    obtain ⟨_, q, r2, hq, hrev⟩ := hs
    simp only
    rw [← hu] at hq
    rw [quantStep_some hq hqa, if_pos hrev]
    exact isSyn_synErr _
  | ok r2 =>
    rw [ho] at hs
    simp only
    rcases hs with ⟨hb, rfl, hq⟩ | ⟨hb, hd, q, hq, hrev⟩ | ⟨hb, rfl, msg, hq⟩
    · left
      refine ⟨out.st, out.result, ?_, rfl, rfl, hi, hj⟩
      unfold quantStep
      rw [hu, hq]
    · left
      rw [← hu] at hq
      rw [quantStep_some hq hqa]
      rw [if_neg (by rw [hrev]; simp), if_neg (by omega)]
      have hql := quants_qdrop hd
      have hl := hi.loops
      rw [if_neg (by simp only [Gen.MAX_LOOPS]; omega)]
      obtain ⟨p, hp, hnp⟩ := hd.neutral F
      have hi2 := hi.drop hp hnp
      have hj2 := hj.drop hp hnp
      refine ⟨_, _, rfl, rfl, rfl, ⟨hi2.uni, hi2.nov, hi2.frag, hi2.chars, hi2.depth, hi2.groups, ?_, hi2.gmax, hi2.cap,
        hi2.named, hi2.nok, hi2.usets⟩, ⟨hj2.groups, hj2.names, hj2.ne, hj2.scope⟩⟩
      simp only; omega
    · right
      refine ⟨hb, msg, ?_⟩
      unfold quantStep
      rw [hu, hq]

/-- Non-quantifiable atom (anchors, look-arounds): the crate still looks for a quantifier. -/
theorem quantStep_noq {F : Feat} {u : Bool} {Γ : Glob} (g : Nat) (out : AtomOut) (hqa : out.quantifierAllowed = false)
    (hi : PInv F u Γ out.st) :
    (qbad u out.st.input = false → quantStep g out = .ok (out.st, out.result)) ∧
    (qbad u out.st.input = true → IsSyn (quantStep g out)) := by
  have hu := hi.uni
  constructor
  · intro hb
    unfold quantStep
    rw [hu, (quant_of_not_qbad hb).1]
  · intro hb
    unfold quantStep
    rw [hu]
    rcases quant_of_qbad hb with ⟨msg, hq⟩ | ⟨q, r2, hq⟩
    · rw [hq]; exact ⟨msg, rfl⟩
    · rw [hq]
      simp only [hqa, Bool.not_false, if_true]
      exact isSyn_synErr _

/-- Under `qbad` the grammar cannot read another term. -/
theorem alt_qbad (c : Cfg) (n : Nat) (r : List Nat) (est : ESG.St) (h : qbad c.u r = true) :
    alt c (n + 4) r est = .bad := by
  rcases r with _ | ⟨x, r0⟩
  · simp [qbad] at h
  · simp only [qbad, Bool.or_eq_true, beq_iff_eq, Bool.and_eq_true] at h
    have hx : x ≠ 0x7C ∧ x ≠ 0x29 ∧ x ≠ 0x5E ∧ x ≠ 0x24 ∧ x ≠ 0x5C ∧ x ≠ 0x28 ∧ x ≠ 0x2E ∧ x ≠ 0x5B := by
      rcases h with ((h | h) | h) | ⟨h, _⟩ <;> subst h <;> decide
    obtain ⟨h1, h2, h3, h4, h5, h6, h7, h8⟩ := hx
    have ha : atom c (n + 1) (x :: r0) est = .bad := by
      unfold atom
      rcases h with ((h | h) | h) | ⟨h, hb⟩
      · subst h; simp
      · subst h; simp
      · subst h; simp
      · subst h
        rcases hb with hb | hb
        · simp [hb]
        · simp only
          cases hbr : braced r0 with
          | none => simp [hbr] at hb
          | some p => simp
    have hq : quantified c (n + 2) (x :: r0) est = .bad := by
      unfold quantified; rw [ha]
    have ht : term c (n + 3) (x :: r0) est = .bad := by
      unfold term
      simp [h1, h2, h3, h4, h5, h6, hq]
    unfold alt
    simp [h1, h2, ht]

/-! ## Groups: the crate side -/

/-- `cd st1`, the node wrapped by `W`, then `)`. -/
def wrapCd (cd : PState → Res (Node × PState)) (st1 : PState) (W : Node → PState → Node) (qa : Bool) :
    Res (Node × PState × Bool) :=
  match cd st1 with
  | .error e => .error e
  | .ok (nd, st) => .ok (W nd st, st, qa)

theorem closeParen_ok {cd : PState → Res (Node × PState)} {st1 st2 : PState} {nd : Node} {r : List Nat}
    (W : Node → PState → Node) (qa : Bool) (acc : List Node) (off : Nat)
    (h : cd st1 = .ok (nd, st2)) (hr : st2.input = 0x29 :: r) :
    closeParenA acc off (wrapCd cd st1 W qa) = .ok ⟨acc ++ [W nd st2], { st2 with input := r }, off, qa⟩ := by
  unfold closeParenA wrapCd
  rw [h]
  simp [tryConsume, hr]

theorem closeParen_syn {cd : PState → Res (Node × PState)} {st1 : PState}
    (W : Node → PState → Node) (qa : Bool) (acc : List Node) (off : Nat)
    (h : IsSyn (cd st1) ∨ ∃ nd st2, cd st1 = .ok (nd, st2) ∧ ∀ r, st2.input ≠ 0x29 :: r) :
    IsSyn (closeParenA acc off (wrapCd cd st1 W qa)) := by
  unfold closeParenA wrapCd
  rcases h with ⟨msg, h⟩ | ⟨nd, st2, h, hr⟩
  · rw [h]; exact ⟨msg, rfl⟩
  · rw [h]
    have ht : tryConsume 0x29 st2 = (false, st2) := by
      unfold tryConsume
      cases hi : st2.input with
      | nil => rfl
      | cons d rest =>
        simp only
        by_cases hd : d = 0x29
        · subst hd; exact absurd hi (hr rest)
        · simp [hd]
    simp only [ht]
    exact isSyn_synErr _

/-- `cd st1`, then the flags restored (modifier groups), then `)`. -/
def wrapCdF (cd : PState → Res (Node × PState)) (st1 : PState) (saved : Flags) : Res (Node × PState × Bool) :=
  match cd st1 with
  | .error e => .error e
  | .ok (nd, st) => .ok (nd, { st with flags := saved }, true)

theorem closeParenF_ok {cd : PState → Res (Node × PState)} {st1 st2 : PState} {nd : Node} {r : List Nat}
    (saved : Flags) (acc : List Node) (off : Nat)
    (h : cd st1 = .ok (nd, st2)) (hr : st2.input = 0x29 :: r) :
    closeParenA acc off (wrapCdF cd st1 saved) =
      .ok ⟨acc ++ [nd], { st2 with flags := saved, input := r }, off, true⟩ := by
  unfold closeParenA wrapCdF
  rw [h]
  simp [tryConsume, hr]

theorem closeParenF_syn {cd : PState → Res (Node × PState)} {st1 : PState}
    (saved : Flags) (acc : List Node) (off : Nat)
    (h : IsSyn (cd st1) ∨ ∃ nd st2, cd st1 = .ok (nd, st2) ∧ ∀ r, st2.input ≠ 0x29 :: r) :
    IsSyn (closeParenA acc off (wrapCdF cd st1 saved)) := by
  unfold closeParenA wrapCdF
  rcases h with ⟨msg, h⟩ | ⟨nd, st2, h, hr⟩
  · rw [h]; exact ⟨msg, rfl⟩
  · rw [h]
    have ht : tryConsume 0x29 { st2 with flags := saved } = (false, { st2 with flags := saved }) := by
      unfold tryConsume
      cases hi : st2.input with
      | nil => simp [hi]
      | cons d rest =>
        simp only [hi]
        by_cases hd : d = 0x29
        · subst hd; exact absurd hi (hr rest)
        · simp [hd]
    simp only [ht]
    exact isSyn_synErr _

/-! ### `atomParenA` on the shapes of the fragment -/

theorem paren_mod_head {y : Nat} {r : List Nat} (hy : y = 0x69 ∨ y = 0x6D ∨ y = 0x73 ∨ y = 0x2D) :
    modifierGroupHead (0x28 :: 0x3F :: y :: r) = some (modifierScan (y :: r) {}) := by
  unfold modifierGroupHead
  have : (y == 0x3C) = false := by rcases hy with rfl | rfl | rfl | rfl <;> rfl
  simp [this]

theorem paren_mod_ok {cd : PState → Res (Node × PState)} {st : PState} {acc : List Node} {y : Nat}
    {r rest : List Nat} {mods : Mods}
    (hin : st.input = 0x28 :: 0x3F :: y :: r) (hy : y = 0x69 ∨ y = 0x6D ∨ y = 0x73 ∨ y = 0x2D)
    (h : modifierScan (y :: r) {} = .ok (mods, rest)) :
    atomParenA cd st acc = closeParenA acc acc.length
      (wrapCdF cd { st with input := rest, flags := applyMods st.flags mods } st.flags) := by
  have e1 : (0x3D == y) = false := by rcases hy with rfl | rfl | rfl | rfl <;> rfl
  have e2 : (0x21 == y) = false := by rcases hy with rfl | rfl | rfl | rfl <;> rfl
  have e3 : (0x3C == y) = false := by rcases hy with rfl | rfl | rfl | rfl <;> rfl
  have e4 : (0x3A == y) = false := by rcases hy with rfl | rfl | rfl | rfl <;> rfl
  unfold atomParenA
  simp only [tryConsumeStr, stripPrefix?, hin, beq_self_eq_true, if_true, e1, e2, e3, e4,
    Bool.false_eq_true, if_false, paren_mod_head hy, h]
  rfl

theorem paren_mod_err {cd : PState → Res (Node × PState)} {st : PState} {acc : List Node} {y : Nat}
    {r : List Nat}
    (hin : st.input = 0x28 :: 0x3F :: y :: r) (hy : y = 0x69 ∨ y = 0x6D ∨ y = 0x73 ∨ y = 0x2D)
    (h : IsSyn (modifierScan (y :: r) {})) : IsSyn (atomParenA cd st acc) := by
  obtain ⟨msg, h⟩ := h
  have e1 : (0x3D == y) = false := by rcases hy with rfl | rfl | rfl | rfl <;> rfl
  have e2 : (0x21 == y) = false := by rcases hy with rfl | rfl | rfl | rfl <;> rfl
  have e3 : (0x3C == y) = false := by rcases hy with rfl | rfl | rfl | rfl <;> rfl
  have e4 : (0x3A == y) = false := by rcases hy with rfl | rfl | rfl | rfl <;> rfl
  unfold atomParenA
  simp only [tryConsumeStr, stripPrefix?, hin, beq_self_eq_true, if_true, e1, e2, e3, e4,
    Bool.false_eq_true, if_false, paren_mod_head hy, h]
  exact ⟨msg, rfl⟩


theorem paren_lookahead {cd : PState → Res (Node × PState)} {st : PState} {acc : List Node} {r : List Nat}
    (x : Nat) (hx : x = 0x3D ∨ x = 0x21) (hin : st.input = 0x28 :: 0x3F :: x :: r) :
    atomParenA cd st acc = closeParenA acc acc.length
      (wrapCd cd { st with input := r }
        (fun c s => .look (x == 0x21) false st.groupCount s.groupCount c) (!st.flags.unicode)) := by
  unfold atomParenA
  rcases hx with rfl | rfl
  · simp [tryConsumeStr, stripPrefix?, hin]; rfl
  · simp [tryConsumeStr, stripPrefix?, hin]; rfl

theorem paren_lookbehind {cd : PState → Res (Node × PState)} {st : PState} {acc : List Node} {r : List Nat}
    (x : Nat) (hx : x = 0x3D ∨ x = 0x21) (hin : st.input = 0x28 :: 0x3F :: 0x3C :: x :: r) :
    atomParenA cd st acc = closeParenA acc acc.length
      (wrapCd cd { st with input := r, hasLookbehind := true }
        (fun c s => .look (x == 0x21) true st.groupCount s.groupCount c) false) := by
  unfold atomParenA
  rcases hx with rfl | rfl
  · simp [tryConsumeStr, stripPrefix?, hin]; rfl
  · simp [tryConsumeStr, stripPrefix?, hin]; rfl

theorem paren_noncapture {cd : PState → Res (Node × PState)} {st : PState} {acc : List Node} {r : List Nat}
    (hin : st.input = 0x28 :: 0x3F :: 0x3A :: r) :
    atomParenA cd st acc = closeParenA acc acc.length
      (wrapCd cd { st with input := r } (fun c _ => c) true) := by
  unfold atomParenA
  simp [tryConsumeStr, stripPrefix?, hin]; rfl


theorem not_q_head {r : List Nat} (h : ∀ r', r ≠ 0x3F :: r') :
    stripPrefix? [0x3F] r = none ∧ (∀ l, stripPrefix? (0x3F :: l) r = none) := by
  rcases r with _ | ⟨y, r'⟩
  · simp [stripPrefix?]
  · have hy : y ≠ 0x3F := fun e => h r' (by rw [e])
    have : (0x3F == y) = false := by simp; omega
    simp [stripPrefix?, this]

theorem paren_capture {cd : PState → Res (Node × PState)} {st : PState} {acc : List Node} {r : List Nat}
    (hin : st.input = 0x28 :: r) (hr : ∀ r', r ≠ 0x3F :: r') (hg : st.groupCount < Gen.MAX_CAPTURE_GROUPS) :
    atomParenA cd st acc = closeParenA acc acc.length
      (wrapCd cd { st with input := r, groupCount := st.groupCount + 1 }
        (fun c _ => .group st.groupCount none c) true) := by
  obtain ⟨h1, h2⟩ := not_q_head hr
  have hm : modifierGroupHead (0x28 :: r) = none := by
    unfold modifierGroupHead
    split
    · rename_i cur rest heq
      simp only [List.cons.injEq, true_and] at heq
      exact absurd heq (hr _)
    · rfl
  unfold atomParenA
  simp only [tryConsumeStr, stripPrefix?, hin, h2, beq_self_eq_true, if_true, hm]
  unfold atomCaptureA
  rw [consume_eq hin]
  simp only [tryConsumeStr, h1]
  rw [if_neg (by omega)]
  rfl

theorem paren_qend {cd : PState → Res (Node × PState)} {st : PState} {acc : List Node}
    (hin : st.input = [0x28, 0x3F]) (hg : st.groupCount < Gen.MAX_CAPTURE_GROUPS) :
    IsSyn (atomParenA cd st acc) := by
  unfold atomParenA
  simp only [tryConsumeStr, stripPrefix?, hin, beq_self_eq_true, if_true, modifierGroupHead]
  unfold atomCaptureA
  rw [consume_eq hin]
  simp only [tryConsumeStr, stripPrefix?, beq_self_eq_true, if_true]
  rw [if_neg (by omega)]
  simp only [tryConsumeName]
  exact isSyn_synErr _

theorem paren_other {cd : PState → Res (Node × PState)} {st : PState} {acc : List Node} {r : List Nat}
    (x : Nat) (hin : st.input = 0x28 :: 0x3F :: x :: r)
    (hx : x ≠ 0x3C ∧ x ≠ 0x3D ∧ x ≠ 0x21 ∧ x ≠ 0x3A ∧ x ≠ 0x69 ∧ x ≠ 0x6D ∧ x ≠ 0x73 ∧ x ≠ 0x2D) :
    IsSyn (atomParenA cd st acc) := by
  obtain ⟨h1, h2, h3, h4, h5, h6, h7, h8⟩ := hx
  have e1 : (0x3D == x) = false := by simp; omega
  have e2 : (0x21 == x) = false := by simp; omega
  have e3 : (0x3C == x) = false := by simp; omega
  have e4 : (0x3A == x) = false := by simp; omega
  unfold atomParenA
  simp only [tryConsumeStr, stripPrefix?, hin, beq_self_eq_true, if_true, e1, e2, e3, e4,
    Bool.false_eq_true, if_false, modifierGroupHead]
  have e5 : (x == 0x3C) = false := by simp; omega
  simp only [e5, Bool.false_eq_true, if_false]
  unfold modifierScan
  have : (x == 0x69) = false ∧ (x == 0x6D) = false ∧ (x == 0x73) = false ∧ (x == 0x2D) = false ∧
      (x == 0x3A) = false := by simp; omega
  simp only [this, Bool.false_eq_true, if_false]
  exact isSyn_synErr _

/-! ## The grammar side, by shape -/

/-- The input starts with an assertion other than `^` `$`: a look-around opener, `\b`, `\B`. -/
def lookShape : List Nat → Bool
  | 0x28 :: 0x3F :: 0x3C :: x :: _ => x == 0x3D || x == 0x21
  | 0x28 :: 0x3F :: x :: _ => x == 0x3D || x == 0x21
  | 0x5C :: x :: _ => x == 0x62 || x == 0x42
  | _ => false

theorem term_lookbehind (c : Cfg) (n : Nat) (x : Nat) (r : List Nat) (est : ESG.St)
    (hx : x = 0x3D ∨ x = 0x21) :
    term c (n + 1) (0x28 :: 0x3F :: 0x3C :: x :: r) est = body c n r est := by
  unfold term
  rcases hx with rfl | rfl <;> simp

theorem term_lookahead (c : Cfg) (n : Nat) (x : Nat) (r : List Nat) (est : ESG.St)
    (hx : x = 0x3D ∨ x = 0x21) :
    term c (n + 1) (0x28 :: 0x3F :: x :: r) est =
      match body c n r est with
      | .ok (r', st1) =>
        if c.u then .ok (r', st1)
        else
          match optQuant r' with
          | .ok r2 => .ok (r2, st1)
          | .bad => .bad
          | .fuel => .fuel
      | e => e := by
  unfold term
  rcases hx with rfl | rfl <;> simp <;> rfl

theorem term_other (c : Cfg) (n : Nat) (x : Nat) (r : List Nat) (est : ESG.St)
    (hl : lookShape (x :: r) = false) (h1 : x ≠ 0x5E) (h2 : x ≠ 0x24) :
    term c (n + 1) (x :: r) est = quantified c n (x :: r) est := by
  unfold term
  split <;> simp_all [lookShape]

theorem atom_dot (c : Cfg) (n : Nat) (r : List Nat) (est : ESG.St) :
    atom c (n + 1) (0x2E :: r) est = .ok (r, est) := by
  unfold atom; rfl

theorem atom_noncap (c : Cfg) (n : Nat) (r : List Nat) (est : ESG.St) :
    atom c (n + 1) (0x28 :: 0x3F :: 0x3A :: r) est = body c n r est := by
  unfold atom
  simp [modifiers, takeMods]

theorem atom_qother (c : Cfg) (n : Nat) (x : Nat) (r : List Nat) (est : ESG.St)
    (hx : x ≠ 0x3C ∧ x ≠ 0x3A ∧ x ≠ 0x69 ∧ x ≠ 0x6D ∧ x ≠ 0x73 ∧ x ≠ 0x2D) :
    atom c (n + 1) (0x28 :: 0x3F :: x :: r) est = .bad := by
  obtain ⟨h1, h2, h3, h4, h5, h6⟩ := hx
  have hm : modifiers c (x :: r) = none := by
    unfold modifiers takeMods
    simp [h2, h3, h4, h5, h6]
  unfold atom
  simp [h1, hm]

theorem atom_qend (c : Cfg) (n : Nat) (est : ESG.St) :
    atom c (n + 1) [0x28, 0x3F] est = .bad := by
  unfold atom
  simp [modifiers, takeMods]

theorem atom_mod_some (c : Cfg) (n : Nat) {y : Nat} {r r1 : List Nat} (est : ESG.St) (hy : y ≠ 0x3C)
    (h : modifiers c (y :: r) = some r1) :
    atom c (n + 1) (0x28 :: 0x3F :: y :: r) est = body c n r1 est := by
  unfold atom
  simp [hy, h]

theorem atom_mod_none (c : Cfg) (n : Nat) {y : Nat} {r : List Nat} (est : ESG.St) (hy : y ≠ 0x3C)
    (h : modifiers c (y :: r) = none) :
    atom c (n + 1) (0x28 :: 0x3F :: y :: r) est = .bad := by
  unfold atom
  simp [hy, h]

theorem atom_capture (c : Cfg) (n : Nat) (r : List Nat) (est : ESG.St) (hr : ∀ r', r ≠ 0x3F :: r') :
    atom c (n + 1) (0x28 :: r) est = body c n r { est with groups := est.groups + 1 } := by
  unfold atom
  split <;> simp_all

theorem atom_quantchar (c : Cfg) (n : Nat) (x : Nat) (r : List Nat) (est : ESG.St)
    (hx : x = 0x2A ∨ x = 0x2B ∨ x = 0x3F) : atom c (n + 1) (x :: r) est = .bad := by
  unfold atom
  rcases hx with rfl | rfl | rfl <;> simp

theorem atom_brace (c : Cfg) (n : Nat) (r : List Nat) (est : ESG.St) :
    atom c (n + 1) (0x7B :: r) est =
      if c.u then .bad else match braced r with | some _ => .bad | none => .ok (r, est) := by
  unfold atom
  simp
  rfl

theorem atom_close (c : Cfg) (n : Nat) (x : Nat) (r : List Nat) (est : ESG.St)
    (hx : x = 0x7D ∨ x = 0x5D) : atom c (n + 1) (x :: r) est = if c.u then .bad else .ok (r, est) := by
  unfold atom
  rcases hx with rfl | rfl <;> simp

theorem atom_lit (c : Cfg) (n : Nat) (x : Nat) (r : List Nat) (est : ESG.St)
    (hx : ESG.isSyntaxChar x = false) : atom c (n + 1) (x :: r) est = .ok (r, est) := by
  simp only [ESG.isSyntaxChar, Bool.or_eq_false_iff, beq_eq_false_iff_ne] at hx
  unfold atom
  split <;> simp_all

/-! ## Atoms: the crate side -/

theorem cAtom_caret {cd : PState → Res (Node × PState)} {st : PState} {acc : List Node} {r : List Nat}
    (hin : st.input = 0x5E :: r) :
    consumeAtomA cd st acc 0x5E =
      .ok ⟨acc ++ [.anchor true st.flags.multiline], { st with input := r }, acc.length, false⟩ := by
  unfold consumeAtomA
  simp [consume_eq hin]

theorem cAtom_dollar {cd : PState → Res (Node × PState)} {st : PState} {acc : List Node} {r : List Nat}
    (hin : st.input = 0x24 :: r) :
    consumeAtomA cd st acc 0x24 =
      .ok ⟨acc ++ [.anchor false st.flags.multiline], { st with input := r }, acc.length, false⟩ := by
  unfold consumeAtomA
  simp [consume_eq hin]

theorem cAtom_dot {cd : PState → Res (Node × PState)} {st : PState} {acc : List Node} {r : List Nat}
    (hin : st.input = 0x2E :: r) :
    consumeAtomA cd st acc 0x2E =
      .ok ⟨acc ++ [if st.flags.dotAll then .matchAny else .matchAnyExceptLT], { st with input := r },
        acc.length, true⟩ := by
  unfold consumeAtomA
  simp [consume_eq hin]

theorem cAtom_paren {cd : PState → Res (Node × PState)} {st : PState} {acc : List Node} :
    consumeAtomA cd st acc 0x28 = atomParenA cd st acc := by
  unfold consumeAtomA
  simp

theorem cAtom_quantchar {cd : PState → Res (Node × PState)} {st : PState} {acc : List Node} (x : Nat)
    (hx : x = 0x2A ∨ x = 0x2B ∨ x = 0x3F) : IsSyn (consumeAtomA cd st acc x) := by
  unfold consumeAtomA
  rcases hx with rfl | rfl | rfl <;> simp <;> exact isSyn_synErr _

theorem cAtom_lit {cd : PState → Res (Node × PState)} {st : PState} {acc : List Node} {r : List Nat} (x : Nat)
    (hin : st.input = x :: r) (hx : ESG.isSyntaxChar x = false) :
    ∃ nd, consumeAtomA cd st acc x = .ok ⟨acc ++ [nd], { st with input := r }, acc.length, true⟩ := by
  simp only [ESG.isSyntaxChar, Bool.or_eq_false_iff, beq_eq_false_iff_ne] at hx
  obtain ⟨nd, hn⟩ := charNode_ok st.flags x
  refine ⟨nd, ?_⟩
  unfold consumeAtomA
  simp [hx, atomCharA, consume_eq hin, hn]

theorem cAtom_close_u {cd : PState → Res (Node × PState)} {st : PState} {acc : List Node} (x : Nat)
    (hx : x = 0x7D ∨ x = 0x5D ∨ x = 0x7B) (hu : st.flags.unicode = true) : IsSyn (consumeAtomA cd st acc x) := by
  unfold consumeAtomA
  rcases hx with rfl | rfl | rfl <;> simp [hu] <;> exact isSyn_synErr _

theorem cAtom_close_legacy {cd : PState → Res (Node × PState)} {st : PState} {acc : List Node} {r : List Nat}
    (x : Nat) (hin : st.input = x :: r) (hx : x = 0x7D ∨ x = 0x5D) (hu : st.flags.unicode = false) :
    ∃ nd, consumeAtomA cd st acc x = .ok ⟨acc ++ [nd], { st with input := r }, acc.length, true⟩ := by
  obtain ⟨nd, hn⟩ := charNode_ok st.flags x
  refine ⟨nd, ?_⟩
  unfold consumeAtomA
  rcases hx with rfl | rfl <;> simp [hu, atomCharA, consume_eq hin, hn]

theorem cAtom_brace_legacy {cd : PState → Res (Node × PState)} {st : PState} {acc : List Node} {r : List Nat}
    (hin : st.input = 0x7B :: r) (hu : st.flags.unicode = false) :
    match braced r with
    | some _ => IsSyn (consumeAtomA cd st acc 0x7B)
    | none => ∃ nd, consumeAtomA cd st acc 0x7B = .ok ⟨acc ++ [nd], { st with input := r }, acc.length, true⟩ := by
  have hb := bracedSim 0x7B r
  have e : consumeAtomA cd st acc 0x7B = atomBraceA st acc := by
    unfold consumeAtomA; simp [hu]
  rw [e]
  unfold atomBraceA
  rw [hin]
  cases hbr : braced r with
  | none =>
    rw [hbr] at hb
    simp only at hb ⊢
    obtain ⟨nd, hn⟩ := charNode_ok st.flags 0x7B
    exact ⟨nd, by rw [hb]; simp [consume_eq hin, hn]⟩
  | some p =>
    rw [hbr] at hb
    obtain ⟨b, r'⟩ := p
    simp only at hb ⊢
    obtain ⟨q, hq, _⟩ := hb
    rw [hq]
    exact isSyn_synErr _

/-! ## Escapes: crate side and grammar side -/

theorem atom_bs (c : Cfg) (n : Nat) (r : List Nat) (est : ESG.St) :
    atom c (n + 1) (0x5C :: r) est = atomEscape c r est := by
  unfold atom; rfl

theorem term_wb (c : Cfg) (n : Nat) (z : Nat) (r : List Nat) (est : ESG.St) (hz : z = 0x62 ∨ z = 0x42) :
    term c (n + 1) (0x5C :: z :: r) est = .ok (r, est) := by
  unfold term
  rcases hz with rfl | rfl <;> rfl

theorem cAtom_bs {cd : PState → Res (Node × PState)} {st : PState} {acc : List Node} :
    consumeAtomA cd st acc 0x5C = atomBackslashA st acc := by
  unfold consumeAtomA
  simp

theorem cAtom_wb {cd : PState → Res (Node × PState)} {st : PState} {acc : List Node} {r : List Nat}
    (z : Nat) (hz : z = 0x62 ∨ z = 0x42) (hin : st.input = 0x5C :: z :: r) :
    consumeAtomA cd st acc 0x5C =
      .ok ⟨acc ++ [.wordBoundary (z == 0x42) (st.flags.unicode && st.flags.icase)], { st with input := r },
        acc.length, false⟩ := by
  rw [cAtom_bs]
  unfold atomBackslashA
  rw [consume_eq hin]
  rcases hz with rfl | rfl <;> simp

/-- An escape that is not `\b` / `\B`, UnicodeMode: the crate's backslash arm against the grammar's
`AtomEscape`. -/
theorem backslash_sim (F : Feat) (c : Cfg) (hcu : c.u = true) (st : PState) (hu : st.flags.unicode = true)
    (acc : List Node) {r0 : List Nat} (hin : st.input = 0x5C :: r0) (hfr : fragCore F (0x5C :: r0) = true)
    (hch : AllChar r0) (hwb : lookShape (0x5C :: r0) = false)
    (hnd : ∀ x r, r0 = x :: r → ¬ (0x31 ≤ x ∧ x ≤ 0x39)) (hnk : ∀ r, r0 ≠ 0x6B :: r)
    (hnp : ∀ r, r0 ≠ 0x70 :: r ∧ r0 ≠ 0x50 :: r) (est : ESG.St) :
    match atomEscape c r0 est with
    | .ok (r', est') => est' = est ∧ ∃ nd p,
        atomBackslashA st acc = .ok ⟨acc ++ [nd], { st with input := r' }, acc.length, true⟩ ∧
        0x5C :: r0 = p ++ r' ∧ Neutral F p
    | .bad => IsSyn (atomBackslashA st acc)
    | .fuel => False := by
  rcases r0 with _ | ⟨x, r⟩
  · have : atomEscape c [] est = .bad := by unfold atomEscape; rfl
    rw [this]
    unfold atomBackslashA
    rw [consume_eq hin]
    exact isSyn_synErr _
  · have hx : escOk false x = true := by
      have hk : x ≠ 0x6B := fun e => hnk r (by rw [e])
      have hp1 : x ≠ 0x70 := fun e => (hnp r).1 (by rw [e])
      have hp2 : x ≠ 0x50 := fun e => (hnp r).2 (by rw [e])
      simp only [escOk, Bool.not_eq_true', Bool.or_eq_false_iff, beq_eq_false_iff_ne, Bool.and_eq_false_iff]
      exact ⟨⟨hp1, hp2⟩, .inl hk⟩
    simp only [lookShape, Bool.or_eq_false_iff, beq_eq_false_iff_ne] at hwb
    have hab : atomBackslashA st acc =
        match consumeAtomEscape { st with input := x :: r } with
        | .error e => .error e
        | .ok (nd, st') => .ok ⟨acc ++ [nd], st', acc.length, true⟩ := by
      unfold atomBackslashA
      rw [consume_eq hin]
      have e1 : (x == 0x62) = false := by simp [hwb.1]
      have e2 : (x == 0x42) = false := by simp [hwb.2]
      simp only [e1, e2, hu, Bool.not_true, Bool.and_false, Bool.false_eq_true, if_false]
      rfl
    have hd := hnd x r rfl
    have hsim := atomEscape_sim c hcu { st with input := x :: r } hu rfl hx hd hch.tail est
    rw [hab]
    cases hae : atomEscape c (x :: r) est with
    | fuel => rw [hae] at hsim; exact hsim
    | bad =>
      rw [hae] at hsim
      obtain ⟨msg, hm⟩ := hsim
      simp only
      rw [hm]; exact ⟨msg, rfl⟩
    | ok p =>
      obtain ⟨r', est'⟩ := p
      rw [hae] at hsim
      obtain ⟨nd, hnd⟩ := hsim
      obtain ⟨hest, t, ht, hnt⟩ := atomEscape_neutral F 0 c hcu hx hd hae
      simp only
      rw [hnd]
      refine ⟨hest, nd, 0x5C :: x :: t, rfl, by rw [ht]; rfl, ?_⟩
      exact neutral_append (p := [0x5C, x]) (neutral_esc F x) hnt

/-- `\\k`, UnicodeMode: the crate's backslash arm. -/
theorem backslash_k (st : PState) (hu : st.flags.unicode = true) (acc : List Node) {r : List Nat}
    (hin : st.input = 0x5C :: 0x6B :: r) (hnok : NamedOK st.named) :
    (∀ r', tryConsumeName r = .ok (none, r') → IsSyn (atomBackslashA st acc)) ∧
    (∀ name rest', tryConsumeName r = .ok (some name, rest') → mapGet st.named name = none →
      IsSyn (atomBackslashA st acc)) ∧
    (∀ name rest', tryConsumeName r = .ok (some name, rest') → (mapGet st.named name).isSome = true →
      ∃ nd, atomBackslashA st acc = .ok ⟨acc ++ [nd], { st with input := rest' }, acc.length, true⟩) := by
  have hab : atomBackslashA st acc =
      match consumeAtomEscape { st with input := 0x6B :: r } with
      | .error e => .error e
      | .ok (nd, st') => .ok ⟨acc ++ [nd], st', acc.length, true⟩ := by
    unfold atomBackslashA
    rw [consume_eq hin]
    simp only [hu, Bool.not_true, Bool.and_false, Bool.false_eq_true, if_false]
    rfl
  have hce : consumeAtomEscape { st with input := 0x6B :: r } =
      match tryConsumeName r with
      | .error e => .error e
      | .ok (none, _) => synErr "Invalid named backreference syntax"
      | .ok (some name, rest') =>
        match mapGet st.named name with
        | none => synErr "Backreference to invalid named capture group"
        | some [] => panicAt "consume_atom_escape: unreachable!(empty indices)"
        | some [i] => .ok (.backRef (i + 1) st.flags.icase, { st with input := rest' })
        | some idxs => .ok (.cat (idxs.map fun i => .backRef (i + 1) st.flags.icase), { st with input := rest' }) := by
    unfold consumeAtomEscape
    simp [hu]
    rfl
  rw [hab, hce]
  refine ⟨fun r' h => ?_, fun name rest' h hm => ?_, fun name rest' h hm => ?_⟩
  · rw [h]; exact isSyn_synErr _
  · rw [h]; simp only [hm]; exact isSyn_synErr _
  · rw [h]
    simp only
    cases hmg : mapGet st.named name with
    | none => rw [hmg] at hm; cases hm
    | some idxs =>
      rcases idxs with _ | ⟨i, _ | ⟨j, t⟩⟩
      · obtain ⟨e, he, he2⟩ := mapGet_mem hmg
        exact absurd he2 (hnok e he)
      · exact ⟨_, rfl⟩
      · exact ⟨_, rfl⟩

theorem atomEscape_k (c : Cfg) (hcu : c.u = true) (r : List Nat) (est : ESG.St) :
    atomEscape c (0x6B :: r) est = namedRef c r est := by
  unfold atomEscape
  simp [hcu, ESG.isClassEscLetter, ESG.isDigit]

/-- `\\p{…}` / `\\P{…}`, UnicodeMode: the crate's backslash arm against the grammar's AtomEscape. -/
theorem backslash_p (F : Feat) (c : Cfg) (hct : c.t = tabs) (hcu : c.u = true) (st : PState)
    (hu : st.flags.unicode = true) (hv : st.flags.unicodeSets = c.v) (acc : List Node) {x : Nat} {r : List Nat}
    (hx : x = 0x70 ∨ x = 0x50) (hin : st.input = 0x5C :: x :: r) (est : ESG.St) :
    match atomEscape c (x :: r) est with
    | .ok (r', est') => est' = est ∧ ∃ nd p,
        atomBackslashA st acc = .ok ⟨acc ++ [nd], { st with input := r' }, acc.length, true⟩ ∧
        0x5C :: x :: r = p ++ r' ∧ Neutral F p
    | .bad => IsSyn (atomBackslashA st acc)
    | .fuel => False := by
  have hab : atomBackslashA st acc =
      match consumeAtomEscape { st with input := x :: r } with
      | .error e => .error e
      | .ok (nd, st') => .ok ⟨acc ++ [nd], st', acc.length, true⟩ := by
    unfold atomBackslashA
    rw [consume_eq hin]
    have e1 : (x == 0x62) = false := by rcases hx with rfl | rfl <;> rfl
    have e2 : (x == 0x42) = false := by rcases hx with rfl | rfl <;> rfl
    simp only [e1, e2, hu, Bool.not_true, Bool.and_false, Bool.false_eq_true, if_false]
    rfl
  have hsim := atomEscape_p_sim c hct hcu { st with input := x :: r } hu hv hx rfl est
  rw [hab]
  cases hae : atomEscape c (x :: r) est with
  | fuel => rw [hae] at hsim; exact hsim
  | bad =>
    rw [hae] at hsim
    obtain ⟨msg, hm⟩ := hsim
    simp only
    rw [hm]; exact ⟨msg, rfl⟩
  | ok p =>
    obtain ⟨r', est'⟩ := p
    rw [hae] at hsim
    obtain ⟨hest, ⟨nd, hnd⟩, q, hq, hqp⟩ := hsim
    simp only
    rw [hnd]
    refine ⟨hest, nd, 0x5C :: x :: q, rfl, by rw [hq]; rfl, ?_⟩
    exact neutral_append (p := [0x5C, x]) (neutral_esc F x) (neutral_plains F hqp)

/-- A decimal escape, UnicodeMode: the crate's backslash arm. -/
theorem backslash_dec (st : PState) (hu : st.flags.unicode = true) (acc : List Node) {x : Nat} {r : List Nat}
    (hin : st.input = 0x5C :: x :: r) (hd : 0x31 ≤ x ∧ x ≤ 0x39) :
    atomBackslashA st acc =
      if min (takeDigits (x :: r) 0 0).1 USIZE_MAX ≤ st.groupCountMax then
        .ok ⟨acc ++ [.backRef (min (takeDigits (x :: r) 0 0).1 USIZE_MAX) st.flags.icase],
          { st with input := (takeDigits (x :: r) 0 0).2.2 }, acc.length, true⟩
      else synErr "Invalid character escape" := by
  unfold atomBackslashA
  rw [consume_eq hin]
  have e1 : (x == 0x62) = false := by simp; omega
  have e2 : (x == 0x42) = false := by simp; omega
  simp only [e1, e2, hu, Bool.not_true, Bool.and_false, Bool.false_eq_true, if_false]
  rw [consumeAtomEscape_dec { st with input := x :: r } hu rfl hd]
  by_cases h : min (takeDigits (x :: r) 0 0).1 USIZE_MAX ≤ st.groupCountMax
  · simp only [h, if_true]
  · simp only [h, if_false]; rfl

theorem plain_punct {c : Nat} (h : c = 0x3F ∨ c = 0x3C ∨ c = 0x3D ∨ c = 0x21 ∨ c = 0x3A) : Plain c := by
  rcases h with rfl | rfl | rfl | rfl | rfl <;> (refine ⟨?_, ?_, ?_, ?_, ?_, ?_⟩ <;> decide)

/-! ## The simulation statements -/

/-- Crate-side outcome: the state has input `r`, the depth of `st`, and satisfies the invariant. -/
def CR (F : Feat) (u : Bool) (Γ : Glob) (st : PState) (r : List Nat) (st' : PState) : Prop :=
  st'.input = r ∧ st'.depth = st.depth ∧ PInv F u Γ st'

/-- Outcome of a step of the grammar recognizer against the crate.  The grammar's result is `ok`
with a state within the pre-scan count and the crate agrees (`good`), or `ok` with a state that
has seen a decimal escape beyond the pre-scan count and the crate has failed (`syn`), or `bad` and
the crate has failed. -/
def Out (Γ : Glob) (res : R (List Nat × ESG.St)) (good : List Nat → ESG.St → Prop) (syn : Prop) : Prop :=
  match res with
  | .ok (r, est') => (EInv Γ est' ∧ good r est') ∨ (Poisoned Γ est' ∧ syn)
  | .bad => syn ∨ Γ.B = false
  | .fuel => False

/-- The same without the scope scanner's verdict: on `bad` the crate has failed. -/
def OutS (Γ : Glob) (res : R (List Nat × ESG.St)) (good : List Nat → ESG.St → Prop) (syn : Prop) : Prop :=
  match res with
  | .ok (r, est') => (EInv Γ est' ∧ good r est') ∨ (Poisoned Γ est' ∧ syn)
  | .bad => syn
  | .fuel => False

theorem OutS.out {Γ : Glob} {res : R (List Nat × ESG.St)} {good : List Nat → ESG.St → Prop} {syn : Prop}
    (h : OutS Γ res good syn) : Out Γ res good syn := by
  cases res with
  | fuel => exact h
  | bad => exact .inl h
  | ok p => exact h

theorem Out.mono {Γ : Glob} {res : R (List Nat × ESG.St)} {good good' : List Nat → ESG.St → Prop}
    {syn syn' : Prop} (h : Out Γ res good syn) (hg : ∀ r est', EInv Γ est' → good r est' → good' r est')
    (hs : syn → syn') : Out Γ res good' syn' := by
  cases res with
  | fuel => exact h
  | bad => exact h.imp hs id
  | ok p =>
    obtain ⟨r, est'⟩ := p
    rcases h with ⟨h1, h2⟩ | ⟨h1, h2⟩
    · exact .inl ⟨h1, hg r est' h1 h2⟩
    · exact .inr ⟨h1, hs h2⟩

theorem Out.poison {Γ : Glob} {res : R (List Nat × ESG.St)} {good : List Nat → ESG.St → Prop} {syn : Prop}
    (hnf : res ≠ .fuel) (hp : ∀ r est', res = .ok (r, est') → Poisoned Γ est') (hs : syn) :
    Out Γ res good syn := by
  cases res with
  | fuel => exact absurd rfl hnf
  | bad => exact .inl hs
  | ok p => obtain ⟨r, est'⟩ := p; exact .inr ⟨hp r est' rfl, hs⟩

/-- Outcome of one term-loop iteration against a grammar `Term` that left `r` (and has counted `g'`
groups): either the crate is at `r` too, or the crate has already failed on a quantifier that the
grammar will fail on next. -/
def TStep (F : Feat) (u : Bool) (Γ : Glob) (stk : List Frame) (f : Nat) (st : PState) (acc : List Node) (x : Nat)
    (r : List Nat) (est' : ESG.St) : Prop :=
  (∃ st' acc', termStep f st acc x = .ok (st', acc') ∧ CR F u Γ st r st' ∧ Joint F Γ stk est' st') ∨
  (qbad u r = true ∧ IsSyn (termStep f st acc x))

def SimD (c : Cfg) (F : Feat) (u : Bool) (Γ : Glob) (n : Nat) : Prop :=
  ∀ s est, 6 * s.length + 5 ≤ n → EInv Γ est → ∀ f st terms, 4 * s.length + 2 ≤ f → st.input = s →
    PInv F u Γ st → ∀ sv acc stk, SEq sv est.scope → Joint F Γ ((sv, acc) :: stk) est st →
    Out Γ (disj c n s est)
      (fun r est' => ∃ ts st', disjLoop f st terms = .ok (ts, st') ∧ CR F u Γ st r st' ∧
        JointD F Γ sv acc stk est' st')
      (IsSyn (disjLoop f st terms))

def SimA (c : Cfg) (F : Feat) (u : Bool) (Γ : Glob) (n : Nat) : Prop :=
  ∀ s est, 6 * s.length + 4 ≤ n → EInv Γ est → ∀ f st acc, 4 * s.length + 1 ≤ f → st.input = s →
    PInv F u Γ st → ∀ stk, Joint F Γ stk est st →
    Out Γ (alt c n s est)
      (fun r est' => ∃ nd st', termLoop f st acc = .ok (nd, st') ∧ CR F u Γ st r st' ∧
        Joint F Γ stk est' st')
      (IsSyn (termLoop f st acc))

/-- `consume_disjunction` failed, or stopped at something that is not `)`. -/
def SynB (f : Nat) (st : PState) : Prop :=
  IsSyn (consumeDisjunction f st) ∨
    ∃ nd st', consumeDisjunction f st = .ok (nd, st') ∧ ∀ r, st'.input ≠ 0x29 :: r

def SimB (c : Cfg) (F : Feat) (u : Bool) (Γ : Glob) (n : Nat) : Prop :=
  ∀ s est, 6 * s.length + 6 ≤ n → EInv Γ est → ∀ f st, 4 * s.length + 3 ≤ f → st.input = s →
    PInv F u Γ { st with depth := st.depth + 1 } → ∀ sv stk, stk ≠ [] → SEq sv est.scope →
    Joint F Γ ((sv, []) :: stk) est st →
    Out Γ (body c n s est)
      (fun r est' => ∃ nd st', consumeDisjunction f st = .ok (nd, st') ∧ st'.input = 0x29 :: r ∧
        CR F u Γ st r { st' with input := r } ∧ Joint F Γ stk est' { st' with input := r })
      (SynB f st)

def SimT (c : Cfg) (F : Feat) (u : Bool) (Γ : Glob) (n : Nat) : Prop :=
  ∀ x r0 est, 6 * (r0.length + 1) + 3 ≤ n → EInv Γ est → x ≠ 0x29 → x ≠ 0x7C →
    ∀ f st acc, 4 * (r0.length + 1) ≤ f → st.input = x :: r0 → PInv F u Γ st →
    ∀ stk, Joint F Γ stk est st →
    Out Γ (term c n (x :: r0) est) (fun r est' => TStep F u Γ stk f st acc x r est')
      (IsSyn (termStep f st acc x))

def SimQ (c : Cfg) (F : Feat) (u : Bool) (Γ : Glob) (n : Nat) : Prop :=
  ∀ x r0 est, 6 * (r0.length + 1) + 2 ≤ n → EInv Γ est → lookShape (x :: r0) = false →
    x ≠ 0x5E → x ≠ 0x24 → x ≠ 0x29 → x ≠ 0x7C →
    ∀ f st acc, 4 * (r0.length + 1) ≤ f → st.input = x :: r0 → PInv F u Γ st →
    ∀ stk, Joint F Γ stk est st →
    Out Γ (quantified c n (x :: r0) est) (fun r est' => TStep F u Γ stk f st acc x r est')
      (IsSyn (termStep f st acc x))

def SimM (c : Cfg) (F : Feat) (u : Bool) (Γ : Glob) (n : Nat) : Prop :=
  ∀ x r0 est, 6 * (r0.length + 1) + 1 ≤ n → EInv Γ est → lookShape (x :: r0) = false →
    x ≠ 0x5E → x ≠ 0x24 → x ≠ 0x29 → x ≠ 0x7C →
    ∀ f st acc, 4 * (r0.length + 1) ≤ f → st.input = x :: r0 → PInv F u Γ st →
    ∀ stk, Joint F Γ stk est st →
    Out Γ (atom c n (x :: r0) est)
      (fun r est' => ∃ out, consumeAtom f st acc x = .ok out ∧ CR F u Γ st r out.st ∧
        out.startOffset ≤ out.result.length ∧ out.quantifierAllowed = true ∧
        Joint F Γ stk est' out.st)
      (IsSyn (consumeAtom f st acc x))

/-! ### Invariant bookkeeping -/

/-- Entering a non-capturing group or look-around: `(?` and a neutral prefix consumed, `depth + 1`. -/
theorem PInv.enterQ {F : Feat} {u : Bool} {Γ : Glob} {st : PState} (h : PInv F u Γ st) {p r : List Nat}
    (hi : st.input = 0x28 :: 0x3F :: (p ++ r)) (hp : Neutral F p) (hna : namedAhead (p ++ r) = none) (lb : Bool) :
    PInv F u Γ { st with input := r, depth := st.depth + 1, hasLookbehind := lb } := by
  have h1 := h.depth; have h2 := h.groups; have h3 := h.loops; have h4 := h.frag
  have h6 := h.chars; have h8 := h.cap
  rw [hi] at h1 h2 h3 h4 h6 h8
  have e1 : dpot F r + 1 ≤ dpot F (0x28 :: 0x3F :: (p ++ r)) := by
    rw [dpot_open, dpot_other F _ (by decide) (by decide) (by decide) (by decide)]
    have := dpot_neutral hp r
    omega
  have e2 : opens r ≤ opens (0x28 :: 0x3F :: (p ++ r)) := by
    have := opens_append_le p r
    simp [opens]; omega
  have e3 : quants r ≤ quants (0x28 :: 0x3F :: (p ++ r)) := by
    have := quants_append_le p r
    simp [quants]; omega
  rw [capOpens_q, hna, hp.cap_eq r] at h8
  simp only [Option.isSome_none, Bool.false_eq_true, if_false, Nat.zero_add] at h8
  have h5 := hp.frag' (fragCore_tail (by decide) (by decide) (fragCore_tail (by decide) (by decide) h4))
  exact ⟨h.uni, h.nov, h5, fun he c hc => h6 he c (by simp [hc]), by simp only; omega, by simp only; omega,
    by simp only; omega, h.gmax, h8, h.named, h.nok, h.usets⟩

theorem Joint.enterQ {F : Feat} {Γ : Glob} {stk : List Frame} {est : ESG.St} {st : PState}
    (h : Joint F Γ stk est st) {p r : List Nat}
    (hi : st.input = 0x28 :: 0x3F :: (p ++ r)) (hp : Neutral F p) (hna : namedAhead (p ++ r) = none) (lb : Bool) :
    ∃ sv, SEq sv est.scope ∧
      Joint F Γ ((sv, []) :: stk) est { st with input := r, depth := st.depth + 1, hasLookbehind := lb } := by
  have h2 := h.names
  rw [hi, lexNames_q, hna, hp.names_eq r] at h2
  obtain ⟨cur, hc, hs⟩ := h.scope
  rw [hi, scopeGo_q, hna] at hs
  simp only at hs
  rw [hp.scope] at hs
  exact ⟨cur, hc, h.groups, h2, List.cons_ne_nil _ _, cur, hc, hs⟩

/-- Entering a capturing group: `(` consumed, `depth + 1`, one more group. -/
theorem PInv.enterCap {F : Feat} {u : Bool} {Γ : Glob} {st : PState} (h : PInv F u Γ st) {r : List Nat}
    (hi : st.input = 0x28 :: r) (hr : ∀ r', r ≠ 0x3F :: r') :
    PInv F u Γ { st with input := r, depth := st.depth + 1, groupCount := st.groupCount + 1 } := by
  have h1 := h.depth; have h2 := h.groups; have h3 := h.loops; have h4 := h.frag
  have h6 := h.chars; have h8 := h.cap
  rw [hi] at h1 h2 h3 h4 h6 h8
  rw [dpot_open] at h1
  rw [capOpens_cap _ hr] at h8
  simp only [opens, quants] at h2 h3
  simp at h2 h3
  exact ⟨h.uni, h.nov, fragCore_tail (by decide) (by decide) h4, fun he c hc => h6 he c (by simp [hc]), by simp only; omega,
    by simp only; omega, h3, h.gmax, by simp only; omega, h.named, h.nok, h.usets⟩

theorem Joint.enterCap {F : Feat} {Γ : Glob} {stk : List Frame} {est : ESG.St} {st : PState}
    (h : Joint F Γ stk est st) {r : List Nat}
    (hi : st.input = 0x28 :: r) (hr : ∀ r', r ≠ 0x3F :: r') :
    ∃ sv, SEq sv est.scope ∧
      Joint F Γ ((sv, []) :: stk) { est with groups := est.groups + 1 }
        { st with input := r, depth := st.depth + 1, groupCount := st.groupCount + 1 } := by
  have h2 := h.names
  rw [hi, lexNames_plain _ r (by decide) (by decide) (fun _ => hr)] at h2
  obtain ⟨cur, hc, hs⟩ := h.scope
  rw [hi, scopeGo_cap _ _ _ hr] at hs
  exact ⟨cur, hc, by simp only; rw [h.groups], h2, List.cons_ne_nil _ _, cur, hc, hs⟩

/-- Entering a named group: `(?<name>` consumed, `depth + 1`, one more group, one more name. -/
theorem PInv.enterNamed {F : Feat} {u : Bool} {Γ : Glob} {st : PState} (h : PInv F u Γ st) {r0 nm r1 : List Nat}
    (hi : st.input = 0x28 :: 0x3F :: 0x3C :: r0) (hch : AllChar r0) (hg : groupName tabs r0 = some (nm, r1)) :
    PInv F u Γ { st with input := r1, depth := st.depth + 1, groupCount := st.groupCount + 1 } := by
  obtain ⟨p, hp, hnp⟩ := name_neutral F hch hg
  have hna : namedAhead (0x3C :: r0) = some nm := by rw [namedAhead_lt r0 hch, hg]; rfl
  have h1 := h.depth; have h2 := h.groups; have h3 := h.loops; have h4 := h.frag
  have h6 := h.chars; have h8 := h.cap
  rw [hi] at h1 h2 h3 h4 h6 h8
  rw [capOpens_q, hna, hp, hnp.cap_eq r1] at h8
  have e1 : dpot F r1 + 1 ≤ dpot F (0x28 :: 0x3F :: 0x3C :: r0) := by
    rw [dpot_open, dpot_other F _ (by decide) (by decide) (by decide) (by decide), hp]
    have := dpot_neutral hnp r1
    omega
  have e2 : opens r1 + 1 ≤ opens (0x28 :: 0x3F :: 0x3C :: r0) := by
    have := opens_append_le p r1
    rw [hp]; simp [opens]; omega
  have e3 : quants r1 ≤ quants (0x28 :: 0x3F :: 0x3C :: r0) := by
    have := quants_append_le p r1
    rw [hp]; simp [quants]; omega
  have h5 : fragCore F r1 = true := by
    have := fragCore_tail (by decide) (by decide) (fragCore_tail (by decide) (by decide) h4)
    rw [hp] at this
    exact hnp.frag' this
  have h7 : F.e = true ∨ F.nm = true → ∀ c ∈ r1, Parse.isChar c = true := fun he c hc => by
    refine h6 he c ?_
    have : c ∈ 0x3C :: r0 := by rw [hp]; simp [hc]
    simp only [List.mem_cons] at this ⊢
    rcases this with h | h
    · exact .inr (.inr (.inl h))
    · exact .inr (.inr (.inr h))
  simp at h8
  exact ⟨h.uni, h.nov, h5, h7, by simp only; omega, by simp only; omega, by simp only; omega, h.gmax,
    by simp only; omega, h.named, h.nok, h.usets⟩

theorem Joint.enterNamed {F : Feat} {Γ : Glob} {stk : List Frame} {est : ESG.St} {st : PState}
    (h : Joint F Γ stk est st) {r0 nm r1 : List Nat}
    (hi : st.input = 0x28 :: 0x3F :: 0x3C :: r0) (hch : AllChar r0) (hg : groupName tabs r0 = some (nm, r1)) :
    (nm ∈ est.scope ∧ Γ.B = false) ∨
    (nm ∉ est.scope ∧ ∃ sv, SEq sv (nm :: est.scope) ∧
      Joint F Γ ((sv, []) :: stk) { est with groups := est.groups + 1, names := nm :: est.names, scope := nm :: est.scope }
        { st with input := r1, depth := st.depth + 1, groupCount := st.groupCount + 1 }) := by
  obtain ⟨p, hp, hnp⟩ := name_neutral F hch hg
  have hna : namedAhead (0x3C :: r0) = some nm := by rw [namedAhead_lt r0 hch, hg]; rfl
  have h2 := h.names
  rw [hi, lexNames_q, hna, hp, hnp.names_eq r1] at h2
  obtain ⟨cur, hc, hs⟩ := h.scope
  rw [hi, scopeGo_q, hna] at hs
  simp only at hs
  rw [hp, hnp.scope] at hs
  have hcons : SEq (nm :: cur) (nm :: est.scope) := fun x => by
    simp only [List.mem_cons]; rw [hc x]
  cases hcn : cur.contains nm with
  | true =>
    left
    rw [hcn] at hs
    refine ⟨(hc nm).1 (by simpa using hcn), ?_⟩
    simpa using hs.symm
  | false =>
    right
    rw [hcn] at hs
    simp only [Bool.not_false, Bool.true_and] at hs
    refine ⟨fun hm => ?_, nm :: cur, hcons, by simp only; rw [h.groups], ?_, List.cons_ne_nil _ _, nm :: cur, hcons, hs⟩
    · have := (hc nm).2 hm
      simp [this] at hcn
    · simp only [List.reverse_cons, List.append_assoc]
      simpa using h2

theorem PInv.groups_lt {F : Feat} {u : Bool} {Γ : Glob} {st : PState} (h : PInv F u Γ st) {r : List Nat}
    (hi : st.input = 0x28 :: r) : st.groupCount < Gen.MAX_CAPTURE_GROUPS := by
  have h2 := h.groups
  rw [hi] at h2
  simp only [opens] at h2
  simp at h2
  simp only [Gen.MAX_CAPTURE_GROUPS]; omega

/-- Leaving a group: the `)` consumed, `depth` restored. -/
theorem PInv.leave {F : Feat} {u : Bool} {Γ : Glob} {st : PState} (h : PInv F u Γ st) {r : List Nat}
    (hi : st.input = 0x29 :: r) (hd : 1 ≤ st.depth) :
    PInv F u Γ { st with input := r, depth := st.depth - 1 } := by
  have h1 := h.depth; have h2 := h.groups; have h3 := h.loops; have h4 := h.frag
  have h6 := h.chars; have h8 := h.cap
  rw [hi] at h1 h2 h3 h4 h6 h8
  have e1 := dpot_close F r
  rw [capOpens_plain _ _ (by decide) (by decide) (by decide)] at h8
  simp only [opens, quants] at h2 h3
  simp at h2 h3
  exact ⟨h.uni, h.nov, fragCore_tail (by decide) (by decide) h4, fun he c hc => h6 he c (by simp [hc]),
    by simp only; omega, h2, h3, h.gmax, h8, h.named, h.nok, h.usets⟩

theorem JointD.leave {F : Feat} {Γ : Glob} {sv : List (List Nat)} {stk : List Frame} {est : ESG.St} {st : PState}
    (h : JointD F Γ sv [] stk est st) (hne : stk ≠ []) {r : List Nat}
    (hi : st.input = 0x29 :: r) : Joint F Γ stk est { st with input := r, depth := st.depth - 1 } := by
  have h2 := h.names
  rw [hi, lexNames_plain _ r (by decide) (by decide) (fun h => by cases h)] at h2
  obtain ⟨acc', cur, hc, hs⟩ := h.scope
  rw [hi, scopeGo_rparen _ _ _ hne] at hs
  exact ⟨h.groups, h2, hne, acc' ++ cur, by simpa using hc, hs⟩

/-- `Joint` only looks at the group counter and the input of the parser state, and at the group
counter and the names of the recognizer state. -/
theorem Joint.of_eq {F : Feat} {Γ : Glob} {stk : List Frame} {est est' : ESG.St} {st st' : PState}
    (h : Joint F Γ stk est st)
    (h1 : est'.groups = est.groups) (h2 : est'.names = est.names) (h3 : st'.groupCount = st.groupCount)
    (h4 : st'.input = st.input) (h5 : est'.scope = est.scope) : Joint F Γ stk est' st' :=
  ⟨by rw [h1, h3]; exact h.groups, by rw [h2, h4]; exact h.names, h.ne, by rw [h4, h5]; exact h.scope⟩

/-! ### Unfolding equations, conditional form (no `match` in the statements) -/

theorem body_ok {c : Cfg} {n : Nat} {s r : List Nat} {est st1 : ESG.St}
    (h : disj c n s est = .ok (0x29 :: r, st1)) : body c (n + 1) s est = .ok (r, st1) := by
  unfold body; rw [h]; rfl

theorem body_nok {c : Cfg} {n : Nat} {s r : List Nat} {est st1 : ESG.St}
    (h : disj c n s est = .ok (r, st1)) (hr : ∀ r', r ≠ 0x29 :: r') : body c (n + 1) s est = .bad := by
  unfold body; rw [h]
  split
  · rename_i heq; cases heq; exact absurd rfl (hr _)
  · rfl
  · rename_i h1 h2; exact absurd rfl (h2 _)

theorem body_bad {c : Cfg} {n : Nat} {s : List Nat} {est : ESG.St}
    (h : disj c n s est = .bad) : body c (n + 1) s est = .bad := by
  unfold body; rw [h]

theorem body_fuel {c : Cfg} {n : Nat} {s : List Nat} {est : ESG.St}
    (h : disj c n s est = .fuel) : body c (n + 1) s est = .fuel := by
  unfold body; rw [h]

theorem cd_ok {f : Nat} {st st' : PState} {ts : List Node}
    (hd : st.depth + 1 ≤ Gen.MAX_NESTING_DEPTH)
    (h : disjLoop f { st with depth := st.depth + 1 } [] = .ok (ts, st')) :
    consumeDisjunction (f + 1) st = .ok (makeAlt ts, { st' with depth := st'.depth - 1 }) := by
  rw [consumeDisjunction]
  simp only
  rw [if_neg (by omega), h]

theorem cd_err {f : Nat} {st : PState} {e : ParseError}
    (hd : st.depth + 1 ≤ Gen.MAX_NESTING_DEPTH)
    (h : disjLoop f { st with depth := st.depth + 1 } [] = .error e) :
    consumeDisjunction (f + 1) st = .error e := by
  rw [consumeDisjunction]
  simp only
  rw [if_neg (by omega), h]

theorem simB_step {c : Cfg} {F : Feat} {u : Bool} {Γ : Glob} {n : Nat} (hD : SimD c F u Γ n) :
    SimB c F u Γ (n + 1) := by
  intro s est hn he f st hf hin hi sv stk hne hsv hg
  obtain ⟨f', rfl⟩ : ∃ f', f = f' + 1 := ⟨f - 1, by omega⟩
  have hD' := hD s est (by omega) he f' { st with depth := st.depth + 1 } [] (by omega) hin hi sv [] stk hsv
    (hg.of_eq rfl rfl rfl rfl rfl)
  have hdep : st.depth + 1 ≤ Gen.MAX_NESTING_DEPTH := by
    have := hi.depth; simp only [Gen.MAX_NESTING_DEPTH] at *; omega
  cases hd : disj c n s est with
  | fuel => rw [hd] at hD'; exact hD'.elim
  | bad =>
    rw [hd] at hD'
    rw [body_bad hd]
    exact hD'.imp (fun ⟨msg, hm⟩ => .inl ⟨msg, cd_err hdep hm⟩) id
  | ok p =>
    obtain ⟨r, est'⟩ := p
    rw [hd] at hD'
    rcases hD' with ⟨he', ts, st', hl, ⟨hr, hdp, hi'⟩, hg'⟩ | ⟨hp, msg, hm⟩
    · have hcd := cd_ok hdep hl
      simp only at hdp
      by_cases hy : ∃ r', r = 0x29 :: r'
      · obtain ⟨r', rfl⟩ := hy
        rw [body_ok hd]
        exact .inl ⟨he', _, _, hcd, hr, ⟨rfl, by simp only; omega, hi'.leave hr (by omega)⟩,
          (hg'.leave hne hr).of_eq rfl rfl rfl rfl rfl⟩
      · rw [body_nok hd (fun r' e => hy ⟨r', e⟩)]
        exact .inl (.inr ⟨_, _, hcd, fun r' e => hy ⟨r', by rw [← hr]; exact e⟩⟩)
    · have hcd := cd_err hdep hm
      by_cases hy : ∃ r', r = 0x29 :: r'
      · obtain ⟨r', rfl⟩ := hy
        rw [body_ok hd]
        exact .inr ⟨hp, .inl ⟨msg, hcd⟩⟩
      · rw [body_nok hd (fun r' e => hy ⟨r', e⟩)]
        exact .inl (.inl ⟨msg, hcd⟩)

/-! ### `alt` against `termLoop` -/

theorem alt_stop {c : Cfg} {n : Nat} {s : List Nat} {est : ESG.St}
    (h : s = [] ∨ (∃ r, s = 0x7C :: r) ∨ ∃ r, s = 0x29 :: r) : alt c (n + 1) s est = .ok (s, est) := by
  unfold alt
  rcases h with rfl | ⟨r, rfl⟩ | ⟨r, rfl⟩ <;> rfl

theorem alt_term {c : Cfg} {n : Nat} {x : Nat} {r0 : List Nat} {est : ESG.St}
    (h1 : x ≠ 0x7C) (h2 : x ≠ 0x29) :
    (∀ r st1, term c n (x :: r0) est = .ok (r, st1) → alt c (n + 1) (x :: r0) est = alt c n r st1) ∧
    (term c n (x :: r0) est = .bad → alt c (n + 1) (x :: r0) est = .bad) ∧
    (term c n (x :: r0) est = .fuel → alt c (n + 1) (x :: r0) est = .fuel) := by
  have e : alt c (n + 1) (x :: r0) est =
      match term c n (x :: r0) est with
      | .ok (r, st1) => alt c n r st1
      | e => e := by
    rw [alt]
    · rfl
    · intro h; cases h
    · intro t h; cases h; exact h1 rfl
    · intro t h; cases h; exact h2 rfl
  refine ⟨fun r st1 h => ?_, fun h => ?_, fun h => ?_⟩ <;> rw [e, h]

theorem termLoop_stop {f : Nat} {st : PState} {acc : List Node}
    (h : st.input = [] ∨ (∃ r, st.input = 0x7C :: r) ∨ ∃ r, st.input = 0x29 :: r) :
    termLoop (f + 1) st acc = .ok (makeCat acc, st) := by
  rw [termLoop_succ]
  rcases h with h | ⟨r, h⟩ | ⟨r, h⟩ <;> rw [h] <;> rfl

theorem termLoop_step {f : Nat} {st : PState} {acc : List Node} {x : Nat} {r0 : List Nat}
    (hin : st.input = x :: r0) (h1 : x ≠ 0x7C) (h2 : x ≠ 0x29) :
    (∀ st' acc', termStep f st acc x = .ok (st', acc') → termLoop (f + 1) st acc = termLoop f st' acc') ∧
    (∀ e, termStep f st acc x = .error e → termLoop (f + 1) st acc = .error e) := by
  have hc : (x == 0x29 || x == 0x7C) = false := by simp [h1, h2]
  constructor
  · intro st' acc' h
    rw [termLoop_succ, hin]
    simp only [hc, Bool.false_eq_true, if_false, h]
  · intro e h
    rw [termLoop_succ, hin]
    simp only [hc, Bool.false_eq_true, if_false, h]

theorem CR.trans {F : Feat} {u : Bool} {Γ : Glob} {st st' st'' : PState} {r r2 : List Nat}
    (h1 : CR F u Γ st r st') (h2 : CR F u Γ st' r2 st'') : CR F u Γ st r2 st'' :=
  ⟨h2.1, h2.2.1.trans h1.2.1, h2.2.2⟩

theorem simA_step {c : Cfg} {F : Feat} {u : Bool} {Γ : Glob} {n : Nat} (hu : c.u = u) (hT : SimT c F u Γ n)
    (hA : SimA c F u Γ n) : SimA c F u Γ (n + 1) := by
  intro s est hn he f st acc hf hin hi stk hg
  obtain ⟨f', rfl⟩ : ∃ f', f = f' + 1 := ⟨f - 1, by omega⟩
  by_cases hstop : s = [] ∨ (∃ r, s = 0x7C :: r) ∨ ∃ r, s = 0x29 :: r
  · rw [alt_stop hstop, termLoop_stop (by rw [hin]; exact hstop)]
    exact .inl ⟨he, _, _, rfl, ⟨hin, rfl, hi⟩, hg⟩
  · rcases s with _ | ⟨x, r0⟩
    · exact absurd (.inl rfl) hstop
    · have h1 : x ≠ 0x7C := fun e => hstop (.inr (.inl ⟨r0, by rw [e]⟩))
      have h2 : x ≠ 0x29 := fun e => hstop (.inr (.inr ⟨r0, by rw [e]⟩))
      simp only [List.length_cons] at hn hf
      have hT' := hT x r0 est (by omega) he h2 h1 f' st acc (by omega) hin hi stk hg
      obtain ⟨ea, eb, ec⟩ := alt_term (c := c) (n := n) (r0 := r0) (est := est) h1 h2
      obtain ⟨ta, tb⟩ := termLoop_step (f := f') (acc := acc) hin h1 h2
      cases ht : term c n (x :: r0) est with
      | fuel => rw [ht] at hT'; exact hT'.elim
      | bad =>
        rw [ht] at hT'
        rw [eb ht]
        refine hT'.imp (fun ⟨msg, hm⟩ => ?_) id
        rw [tb _ hm]
        exact ⟨msg, rfl⟩
      | ok p =>
        obtain ⟨r, est1⟩ := p
        rw [ht] at hT'
        have hlen := ((dOk c n).2.2.2.1 (x :: r0) est (by simp only [List.length_cons]; omega)).2 r est1 ht
        simp only [List.length_cons] at hlen
        rw [ea r est1 ht]
        rcases hT' with ⟨he1, hts⟩ | ⟨hp, msg, hm⟩
        · rcases hts with ⟨st', acc', hst, hcr, hg1⟩ | ⟨hq, msg, hm⟩
          · rw [ta st' acc' hst]
            have hA' := hA r est1 (by omega) he1 f' st' acc' (by omega) hcr.1 hcr.2.2 stk hg1
            exact hA'.mono (fun r2 est2 _ ⟨nd, st'', hl, hcr2, hg2⟩ => ⟨nd, st'', hl, hcr.trans hcr2, hg2⟩) id
          · obtain ⟨m, rfl⟩ : ∃ m, n = m + 4 := ⟨n - 4, by omega⟩
            rw [alt_qbad c m r est1 (by rw [hu]; exact hq), tb _ hm]
            exact .inl ⟨msg, rfl⟩
        · rw [tb _ hm]
          exact Out.poison ((dOk c n).2.1 r est1 (by omega)).1
            (fun r2 est2 h2 => hp.mono ((mono c n).2.1 r est1 r2 est2 h2)) ⟨msg, rfl⟩

/-! ### `disj` against `disjLoop` -/

theorem disj_eqs {c : Cfg} {n : Nat} {s : List Nat} {est : ESG.St} :
    (∀ r st1 r2 st2, alt c n s est = .ok (0x7C :: r, st1) →
      disj c n r { st1 with scope := est.scope } = .ok (r2, st2) →
      disj c (n + 1) s est = .ok (r2, { st2 with scope := scopeUnion st1.scope st2.scope })) ∧
    (∀ r st1, alt c n s est = .ok (0x7C :: r, st1) →
      disj c n r { st1 with scope := est.scope } = .bad → disj c (n + 1) s est = .bad) ∧
    (∀ r st1, alt c n s est = .ok (0x7C :: r, st1) →
      disj c n r { st1 with scope := est.scope } = .fuel → disj c (n + 1) s est = .fuel) ∧
    (∀ r st1, alt c n s est = .ok (r, st1) → (∀ r', r ≠ 0x7C :: r') →
      disj c (n + 1) s est = .ok (r, st1)) ∧
    (alt c n s est = .bad → disj c (n + 1) s est = .bad) ∧
    (alt c n s est = .fuel → disj c (n + 1) s est = .fuel) := by
  refine ⟨?_, ?_, ?_, ?_, ?_, ?_⟩
  · intro r st1 r2 st2 h1 h2; rw [disj, h1]; simp only; rw [h2]
  · intro r st1 h1 h2; rw [disj, h1]; simp only; rw [h2]
  · intro r st1 h1 h2; rw [disj, h1]; simp only; rw [h2]
  · intro r st1 h1 hr
    rw [disj, h1]
    split
    · rename_i heq; cases heq; exact absurd rfl (hr _)
    · rfl
  · intro h; rw [disj, h]
  · intro h; rw [disj, h]

theorem disjLoop_eqs {f : Nat} {st : PState} {terms : List Node} :
    (∀ t st1 r, termLoop f st [] = .ok (t, st1) → st1.input = 0x7C :: r →
      disjLoop (f + 1) st terms = disjLoop f { st1 with input := r } (terms ++ [t])) ∧
    (∀ t st1, termLoop f st [] = .ok (t, st1) → (∀ r, st1.input ≠ 0x7C :: r) →
      disjLoop (f + 1) st terms = .ok (terms ++ [t], st1)) ∧
    (∀ e, termLoop f st [] = .error e → disjLoop (f + 1) st terms = .error e) := by
  refine ⟨?_, ?_, ?_⟩
  · intro t st1 r h hr
    rw [disjLoop, h]
    simp [tryConsume, hr]
  · intro t st1 h hr
    have ht : tryConsume 0x7C st1 = (false, st1) := by
      unfold tryConsume
      cases hi : st1.input with
      | nil => rfl
      | cons d rest =>
        simp only
        by_cases hd : d = 0x7C
        · subst hd; exact absurd hi (hr rest)
        · simp [hd]
    rw [disjLoop, h]
    simp only [ht]
  · intro e h; rw [disjLoop, h]

theorem simD_step {c : Cfg} {F : Feat} {u : Bool} {Γ : Glob} {n : Nat} (hA : SimA c F u Γ n)
    (hD : SimD c F u Γ n) : SimD c F u Γ (n + 1) := by
  intro s est hn he f st terms hf hin hi sv acc stk hsv hg
  obtain ⟨f', rfl⟩ : ∃ f', f = f' + 1 := ⟨f - 1, by omega⟩
  obtain ⟨d1, d2, d3, d4, d5, d6⟩ := disj_eqs (c := c) (n := n) (s := s) (est := est)
  obtain ⟨l1, l2, l3⟩ := disjLoop_eqs (f := f') (st := st) (terms := terms)
  have hA' := hA s est (by omega) he f' st [] (by omega) hin hi _ hg
  cases ha : alt c n s est with
  | fuel => rw [ha] at hA'; exact hA'.elim
  | bad =>
    rw [ha] at hA'
    rw [d5 ha]
    refine hA'.imp (fun ⟨msg, hm⟩ => ?_) id
    rw [l3 _ hm]
    exact ⟨msg, rfl⟩
  | ok p =>
    obtain ⟨r, est1⟩ := p
    rw [ha] at hA'
    have hlen := ((dOk c n).2.1 s est (by omega)).2 r est1 ha
    rcases hA' with ⟨he1, t, st1, hl, hcr, hg1⟩ | ⟨hp, msg, hm⟩
    · obtain ⟨cur1, hc1, hs1⟩ := hg1.scope
      by_cases hp : ∃ r', r = 0x7C :: r'
      · obtain ⟨r', rfl⟩ := hp
        rw [l1 t st1 r' hl hcr.1]
        have hi1 : PInv F u Γ { st1 with input := r' } :=
          hcr.2.2.tail hcr.1 (by decide) (by decide) (by decide) (by decide)
        have hgr1 := (mono c n).2.1 s est _ est1 ha
        have he1' : EInv Γ { est1 with scope := est.scope } :=
          ⟨he1.maxDec, he1.refs, fun x hx => hgr1.names.subset (he.scope x hx)⟩
        simp only [List.length_cons] at hlen
        rw [hcr.1, scopeGo_bar] at hs1
        have hn1 := hg1.names
        rw [hcr.1, lexNames_plain _ r' (by decide) (by decide) (fun h => by cases h)] at hn1
        have hg1' : Joint F Γ ((sv, acc ++ cur1) :: stk) ({ est1 with scope := est.scope } : ESG.St)
            { st1 with input := r' } := ⟨hg1.groups, hn1, List.cons_ne_nil _ _, sv, hsv, hs1⟩
        have hD' := hD r' _ (by omega) he1' f' { st1 with input := r' } (terms ++ [t]) (by omega) rfl hi1
          sv (acc ++ cur1) stk hsv hg1'
        cases hd : disj c n r' { est1 with scope := est.scope } with
        | fuel => rw [hd] at hD'; exact hD'.elim
        | bad => rw [hd] at hD'; rw [d2 _ _ ha hd]; exact hD'
        | ok p2 =>
          obtain ⟨r2, est2⟩ := p2
          rw [hd] at hD'
          rw [d1 _ _ _ _ ha hd]
          rcases hD' with ⟨he2, ts, st2, hl2, hcr2, hg2⟩ | ⟨hp2, hs2⟩
          · have hgr2 := (mono c n).1 r' _ r2 est2 hd
            obtain ⟨acc', cur', hc', hs'⟩ := hg2.scope
            refine .inl ⟨⟨he2.maxDec, he2.refs, ?_⟩, ts, st2, hl2, ⟨hcr2.1, ?_, hcr2.2.2⟩,
              ⟨hg2.groups, hg2.names, acc', cur', ?_, hs'⟩⟩
            · intro x hx
              simp only [scopeUnion, List.mem_append, List.mem_filter] at hx
              rcases hx with hx | ⟨hx, _⟩
              · exact he2.scope x hx
              · exact hgr2.names.subset (he1.scope x hx)
            · rw [hcr2.2.1]; exact hcr.2.1
            · intro x
              rw [hc' x]
              simp only [List.mem_append, mem_scopeUnion]
              rw [hc1 x]
              constructor
              · rintro ((h | h) | h)
                · exact .inl h
                · exact .inr (.inl h)
                · exact .inr (.inr h)
              · rintro (h | h | h)
                · exact .inl (.inl h)
                · exact .inl (.inr h)
                · exact .inr h
          · exact .inr ⟨hp2, hs2⟩
      · have hnp : ∀ r', r ≠ 0x7C :: r' := fun r' e => hp ⟨r', e⟩
        rw [d4 _ _ ha hnp, l2 t st1 hl (fun r' e => hnp r' (by rw [← hcr.1]; exact e))]
        exact .inl ⟨he1, _, _, rfl, hcr, ⟨hg1.groups, hg1.names, acc, cur1, SEq.append_left acc hc1, hs1⟩⟩
    · rw [l3 _ hm]
      by_cases hpp : ∃ r', r = 0x7C :: r'
      · obtain ⟨r', rfl⟩ := hpp
        simp only [List.length_cons] at hlen
        have hp' : Poisoned Γ ({ est1 with scope := est.scope } : ESG.St) := hp
        cases hd : disj c n r' { est1 with scope := est.scope } with
        | fuel => exact absurd hd ((dOk c n).1 r' _ (by omega)).1
        | bad => rw [d2 _ _ ha hd]; exact .inl ⟨msg, rfl⟩
        | ok p2 =>
          obtain ⟨r2, est2⟩ := p2
          rw [d1 _ _ _ _ ha hd]
          have hgr2 := (mono c n).1 r' _ r2 est2 hd
          exact .inr ⟨hp'.mono ⟨hgr2.maxDec, hgr2.refs, hgr2.names⟩, ⟨msg, rfl⟩⟩
      · have hnp : ∀ r', r ≠ 0x7C :: r' := fun r' e => hpp ⟨r', e⟩
        rw [d4 _ _ ha hnp]
        exact .inr ⟨hp, ⟨msg, rfl⟩⟩

/-! ### `quantified` against one term-loop iteration -/

theorem quantified_eqs {c : Cfg} {n : Nat} {s : List Nat} {est : ESG.St} :
    (∀ r st1 r2, atom c n s est = .ok (r, st1) → optQuant r = .ok r2 →
      quantified c (n + 1) s est = .ok (r2, st1)) ∧
    (∀ r st1, atom c n s est = .ok (r, st1) → optQuant r = .bad → quantified c (n + 1) s est = .bad) ∧
    (atom c n s est = .bad → quantified c (n + 1) s est = .bad) ∧
    (atom c n s est = .fuel → quantified c (n + 1) s est = .fuel) := by
  refine ⟨?_, ?_, ?_, ?_⟩
  · intro r st1 r2 h1 h2; rw [quantified, h1]; simp only; rw [h2]
  · intro r st1 h1 h2; rw [quantified, h1]; simp only; rw [h2]
  · intro h; rw [quantified, h]
  · intro h; rw [quantified, h]

theorem termStep_ok {f : Nat} {st : PState} {acc : List Node} {x : Nat} {out : AtomOut}
    (h : consumeAtom f st acc x = .ok out) : termStep f st acc x = quantStep st.groupCount out := by
  unfold termStep; rw [h]

theorem termStep_err {f : Nat} {st : PState} {acc : List Node} {x : Nat} {e : ParseError}
    (h : consumeAtom f st acc x = .error e) : termStep f st acc x = .error e := by
  unfold termStep; rw [h]

/-- The quantifier part, for a quantifiable atom, in `TStep` form. -/
theorem tstep_qa {F : Feat} {u : Bool} {Γ : Glob} {f : Nat} {st : PState} {acc : List Node} {x : Nat} {out : AtomOut}
    {r : List Nat} (h : consumeAtom f st acc x = .ok out) (hcr : CR F u Γ st r out.st)
    (hoff : out.startOffset ≤ out.result.length) (hqa : out.quantifierAllowed = true) (est' : ESG.St)
    {stk : List Frame} (hg : Joint F Γ stk est' out.st) :
    match optQuant r with
    | .ok r2 => TStep F u Γ stk f st acc x r2 est'
    | .bad => IsSyn (termStep f st acc x)
    | .fuel => False := by
  have hq := quantStep_qa st.groupCount out hqa hoff hcr.2.2 est' hg
  rw [hcr.1] at hq
  rw [termStep_ok h]
  cases ho : optQuant r with
  | fuel => rw [ho] at hq; exact hq
  | bad => rw [ho] at hq; exact hq
  | ok r2 =>
    rw [ho] at hq
    simp only at hq ⊢
    rcases hq with ⟨st', acc', h1, h2, h3, h4, h5⟩ | ⟨h1, h2⟩
    · exact .inl ⟨st', acc', by rw [termStep_ok h, h1], ⟨h2, h3.trans hcr.2.1, h4⟩, h5⟩
    · exact .inr ⟨h1, by rw [termStep_ok h]; exact h2⟩

/-- The quantifier part, for a non-quantifiable atom. -/
theorem tstep_noq {F : Feat} {u : Bool} {Γ : Glob} {f : Nat} {st : PState} {acc : List Node} {x : Nat} {out : AtomOut}
    {r : List Nat} (h : consumeAtom f st acc x = .ok out) (hcr : CR F u Γ st r out.st)
    (hqa : out.quantifierAllowed = false) (est' : ESG.St) {stk : List Frame} (hg : Joint F Γ stk est' out.st) :
    TStep F u Γ stk f st acc x r est' := by
  obtain ⟨h1, h2⟩ := quantStep_noq st.groupCount out hqa hcr.2.2
  rw [hcr.1] at h1 h2
  cases hb : qbad u r with
  | false => exact .inl ⟨out.st, out.result, by rw [termStep_ok h, h1 hb], hcr, hg⟩
  | true => exact .inr ⟨hb, by rw [termStep_ok h]; exact h2 hb⟩

theorem simQ_step {c : Cfg} {F : Feat} {u : Bool} {Γ : Glob} {n : Nat} (hM : SimM c F u Γ n) :
    SimQ c F u Γ (n + 1) := by
  intro x r0 est hn he hl h1 h2 h3 h4 f st acc hf hin hi stk hg
  obtain ⟨q1, q2, q3, q4⟩ := quantified_eqs (c := c) (n := n) (s := x :: r0) (est := est)
  have hM' := hM x r0 est (by omega) he hl h1 h2 h3 h4 f st acc hf hin hi stk hg
  cases ha : atom c n (x :: r0) est with
  | fuel => rw [ha] at hM'; exact hM'.elim
  | bad =>
    rw [ha] at hM'
    rw [q3 ha]
    refine hM'.imp (fun ⟨msg, hm⟩ => ?_) id
    rw [termStep_err hm]
    exact ⟨msg, rfl⟩
  | ok p =>
    obtain ⟨r, est1⟩ := p
    rw [ha] at hM'
    rcases hM' with ⟨he1, out, hout, hcr, hoff, hqa, hg1⟩ | ⟨hp, msg, hm⟩
    · have := tstep_qa hout hcr hoff hqa est1 hg1
      cases ho : optQuant r with
      | fuel => rw [ho] at this; exact this.elim
      | bad => rw [ho] at this; rw [q2 _ _ ha ho]; exact .inl this
      | ok r2 => rw [ho] at this; rw [q1 _ _ _ ha ho]; exact .inl ⟨he1, this⟩
    · have hs : IsSyn (termStep f st acc x) := ⟨msg, termStep_err hm⟩
      cases ho : optQuant r with
      | fuel => exact absurd ho (optQuant_nofuel r)
      | bad => rw [q2 _ _ ha ho]; exact .inl hs
      | ok r2 => rw [q1 _ _ _ ha ho]; exact .inr ⟨hp, hs⟩

/-! ### Groups -/

/-- A parenthesised disjunction: the grammar's `body` against the crate's `consume_disjunction`
followed by the `)` test, for any node wrapper. -/
theorem group_sim {c : Cfg} {F : Feat} {u : Bool} {Γ : Glob} {n : Nat} (hB : SimB c F u Γ n) {r' : List Nat}
    {est1 : ESG.St} {f' : Nat} {st1 : PState} (hn : 6 * r'.length + 6 ≤ n) (he1 : EInv Γ est1)
    (hf : 4 * r'.length + 3 ≤ f') (hin1 : st1.input = r')
    (hi1 : PInv F u Γ { st1 with depth := st1.depth + 1 }) {sv : List (List Nat)} {stk : List Frame}
    (hne : stk ≠ []) (hsv : SEq sv est1.scope) (hg1 : Joint F Γ ((sv, []) :: stk) est1 st1)
    (W : Node → PState → Node) (qa : Bool) (acc : List Node) :
    Out Γ (body c n r' est1)
      (fun r est' => ∃ out,
        closeParenA acc acc.length (wrapCd (consumeDisjunction f') st1 W qa) = .ok out ∧
        CR F u Γ st1 r out.st ∧ out.startOffset ≤ out.result.length ∧ out.quantifierAllowed = qa ∧
        Joint F Γ stk est' out.st)
      (IsSyn (closeParenA acc acc.length (wrapCd (consumeDisjunction f') st1 W qa))) := by
  have hB' := hB r' est1 hn he1 f' st1 hf hin1 hi1 sv stk hne hsv hg1
  refine hB'.mono ?_ (fun hs => closeParen_syn W qa acc acc.length hs)
  rintro r est' _ ⟨nd, st2, hcd, hr, hcr, hg2⟩
  exact ⟨_, closeParen_ok W qa acc acc.length hcd hr, hcr, by simp, rfl, hg2⟩

theorem group_sim_mod {c : Cfg} {F : Feat} {u : Bool} {Γ : Glob} {n : Nat} (hB : SimB c F u Γ n) {r' : List Nat}
    {est1 : ESG.St} {f' : Nat} {st1 : PState} (hn : 6 * r'.length + 6 ≤ n) (he1 : EInv Γ est1)
    (hf : 4 * r'.length + 3 ≤ f') (hin1 : st1.input = r')
    (hi1 : PInv F u Γ { st1 with depth := st1.depth + 1 }) {sv : List (List Nat)} {stk : List Frame}
    (hne : stk ≠ []) (hsv : SEq sv est1.scope) (hg1 : Joint F Γ ((sv, []) :: stk) est1 st1)
    (saved : Flags) (hs1 : saved.unicode = u) (hs2 : F.k = true → saved.unicodeSets = false)
    (hs3 : saved.unicodeSets = Γ.V) (acc : List Node) :
    Out Γ (body c n r' est1)
      (fun r est' => ∃ out,
        closeParenA acc acc.length (wrapCdF (consumeDisjunction f') st1 saved) = .ok out ∧
        CR F u Γ st1 r out.st ∧ out.startOffset ≤ out.result.length ∧ out.quantifierAllowed = true ∧
        Joint F Γ stk est' out.st)
      (IsSyn (closeParenA acc acc.length (wrapCdF (consumeDisjunction f') st1 saved))) := by
  have hB' := hB r' est1 hn he1 f' st1 hf hin1 hi1 sv stk hne hsv hg1
  refine hB'.mono ?_ (fun hs => closeParenF_syn saved acc acc.length hs)
  rintro r est' _ ⟨nd, st2, hcd, hr, hcr, hg2⟩
  exact ⟨_, closeParenF_ok saved acc acc.length hcd hr, ⟨rfl, hcr.2.1, hcr.2.2.setFlags saved hs1 hs2 hs3⟩,
    by simp, rfl, hg2.of_eq rfl rfl rfl rfl rfl⟩

/-- `(?<` that is not a look-behind: the crate's capture arm reads a group name. -/
theorem paren_named {cd : PState → Res (Node × PState)} {st : PState} {acc : List Node} {r0 : List Nat}
    (hin : st.input = 0x28 :: 0x3F :: 0x3C :: r0) (hl : lookShape (0x28 :: 0x3F :: 0x3C :: r0) = false)
    (hg : st.groupCount < Gen.MAX_CAPTURE_GROUPS) :
    (∀ r', tryConsumeName (0x3C :: r0) = .ok (none, r') → IsSyn (atomParenA cd st acc)) ∧
    (∀ nm r1, tryConsumeName (0x3C :: r0) = .ok (some nm, r1) →
      atomParenA cd st acc = closeParenA acc acc.length
        (wrapCd cd { st with input := r1, groupCount := st.groupCount + 1 }
          (fun c _ => .group st.groupCount (some nm) c) true)) := by
  have hz : ∀ z r, r0 = z :: r → z ≠ 0x3D ∧ z ≠ 0x21 := by
    intro z r h; subst h
    simp only [lookShape, Bool.or_eq_false_iff, beq_eq_false_iff_ne] at hl
    exact hl
  have hcap : atomParenA cd st acc = atomCaptureA cd st acc := by
    obtain ⟨inp, fl, lc, gc, gcm, nmd, hlb, d⟩ := st
    simp only at hin
    subst hin
    rcases r0 with _ | ⟨z, r⟩
    · simp [atomParenA, tryConsumeStr, stripPrefix?, modifierGroupHead]
    · obtain ⟨hz1, hz2⟩ := hz z r rfl
      have hb1 : (0x3D == z) = false := by simp; omega
      have hb2 : (0x21 == z) = false := by simp; omega
      simp [atomParenA, tryConsumeStr, stripPrefix?, modifierGroupHead, hb1, hb2]
  rw [hcap]
  unfold atomCaptureA
  rw [consume_eq hin]
  simp only
  rw [if_neg (by omega)]
  simp only [tryConsumeStr, stripPrefix?, beq_self_eq_true, if_true]
  constructor
  · intro r' h
    rw [h]; exact isSyn_synErr _
  · intro nm r1 h
    rw [h]; rfl

theorem atom_named (c : Cfg) (n : Nat) (r0 : List Nat) (est : ESG.St) :
    (groupName c.t r0 = none → atom c (n + 1) (0x28 :: 0x3F :: 0x3C :: r0) est = .bad) ∧
    (∀ nm r1, groupName c.t r0 = some (nm, r1) →
      atom c (n + 1) (0x28 :: 0x3F :: 0x3C :: r0) est =
        match addName c nm { est with groups := est.groups + 1 } with
        | none => .bad
        | some st1 => body c n r1 st1) := by
  constructor
  · intro h; rw [atom, h]
  · intro nm r1 h; rw [atom, h]; rfl

theorem addName_new (c : Cfg) (h25 : c.feat25 = true) (nm : List Nat) (est : ESG.St) (h : nm ∉ est.scope) :
    addName c nm est = some { est with names := nm :: est.names, scope := nm :: est.scope } := by
  unfold addName
  simp [h25, h]

theorem addName_dup (c : Cfg) (h25 : c.feat25 = true) (nm : List Nat) (est : ESG.St) (h : nm ∈ est.scope) :
    addName c nm est = none := by
  unfold addName
  simp [h25, h]

theorem namedRef_eqs (c : Cfg) (est : ESG.St) :
    (∀ r1 nm r2, groupName c.t r1 = some (nm, r2) →
      namedRef c (0x3C :: r1) est = .ok (r2, { est with refs := nm :: est.refs })) ∧
    (∀ r1, groupName c.t r1 = none → namedRef c (0x3C :: r1) est = .bad) ∧
    (∀ r, (∀ r1, r ≠ 0x3C :: r1) → namedRef c r est = .bad) := by
  refine ⟨fun r1 nm r2 h => ?_, fun r1 h => ?_, fun r h => ?_⟩
  · unfold namedRef; simp only [h]
  · unfold namedRef; simp only [h]
  · unfold namedRef
    split
    · rename_i r1; exact absurd rfl (h r1)
    · rfl

theorem parenOk_other {y : Nat} {r2 : List Nat}
    (hl : lookShape (0x28 :: 0x3F :: y :: r2) = false) (hy : y ≠ 0x3A) (hy2 : y ≠ 0x3C)
    (hm : ¬ (y = 0x69 ∨ y = 0x6D ∨ y = 0x73 ∨ y = 0x2D)) :
    y ≠ 0x3C ∧ y ≠ 0x3D ∧ y ≠ 0x21 ∧ y ≠ 0x3A ∧ y ≠ 0x69 ∧ y ≠ 0x6D ∧ y ≠ 0x73 ∧ y ≠ 0x2D := by
  simp only [not_or] at hm
  refine ⟨hy2, ?_, ?_, hy, hm⟩
  · rintro rfl; simp [lookShape] at hl
  · rintro rfl; simp [lookShape] at hl

/-- `parenOk` on a modifier prefix. -/
theorem parenOk_mod {nm md : Bool} {y : Nat} {r2 : List Nat} (hpo : parenOk nm md (0x3F :: y :: r2) = true)
    (hm : y = 0x69 ∨ y = 0x6D ∨ y = 0x73 ∨ y = 0x2D) : md = true := by
  rcases hm with rfl | rfl | rfl | rfl <;> simpa [parenOk] using hpo

theorem simM_step {c : Cfg} {F : Feat} {u : Bool} {Γ : Glob} {n : Nat} (hu : c.u = u) (heu : F.e = true → u = true)
    (hkk : F.k = true → F.e = true ∧ u = true ∧ c.v = false ∧ F.vk = false)
    (hnn : F.nm = true → c.t = tabs ∧ c.feat25 = true) (hmd : F.md = true → c.feat25 = true)
    (hpr : F.pr = true → c.t = tabs ∧ c.v = Γ.V)
    (hle : F.le = true → u = false ∧ Γ.V = false ∧ (F.nm = false → c.n = false ∧ Γ.N = []))
    (hlk : F.lk = true → u = false ∧ c.v = false ∧ Γ.V = false ∧ F.vk = false ∧ (F.nm = false → c.n = false ∧ Γ.N = []))
    (hvcls : F.vk = true → u = true ∧ F.e = true ∧ c.v = true ∧ c.t = tabs ∧ Γ.V = true)
    (hB : SimB c F u Γ n) : SimM c F u Γ (n + 1) := by
  intro x r0 est hn he hl h1 h2 h3 h4 f st acc hf hin hi stk hg
  obtain ⟨f', rfl⟩ : ∃ f', f = f' + 1 := ⟨f - 1, by omega⟩
  rw [consumeAtom_succ]
  have hfr := hi.frag
  rw [hin] at hfr
  have hiu := hi.uni
  by_cases hx1 : x = 0x5C
  · -- an escape
    subst hx1
    refine OutS.out ?_
    rcases fragCore_bs hfr with ⟨he', hE⟩ | ⟨hl', hL⟩
    rotate_left
    · -- Annex B mode: no escape is an error (but `\\` at the end of the pattern)
      obtain ⟨hu0, hV0, hN0⟩ := hle hl'
      subst hu0
      rw [atom_bs, cAtom_bs]
      rcases r0 with _ | ⟨y, r⟩
      · have : atomEscape c [] est = .bad := by unfold atomEscape; rfl
        rw [this]
        unfold atomBackslashA
        rw [consume_eq hin]
        exact isSyn_synErr _
      · have hwb : y ≠ 0x62 ∧ y ≠ 0x42 := by
          simp only [lookShape, Bool.or_eq_false_iff, beq_eq_false_iff_ne] at hl
          exact ⟨hl.1, hl.2⟩
        obtain ⟨r', nd, p, hae, hab, hp, hnp⟩ := backslash_L F c hu st hiu (by rw [hi.usets, hV0])
          acc hin hwb (hL y r rfl).1
          (fun hk => ⟨(hN0 ((hL y r rfl).2 hk)).1, by rw [hi.named, (hN0 ((hL y r rfl).2 hk)).2]⟩) est
        rw [hae, hab]
        exact .inl ⟨he, _, rfl, ⟨rfl, rfl, hi.drop (hin.trans hp) hnp⟩, by simp, rfl, hg.drop (hin.trans hp) hnp⟩
    have hu' := heu he'
    subst hu'
    have hch : AllChar r0 := by
      have := hi.chars (.inl he')
      rw [hin] at this
      exact fun c hc => this c (by simp [hc])
    rw [atom_bs, cAtom_bs]
    by_cases hdig : ∃ y r, r0 = y :: r ∧ 0x31 ≤ y ∧ y ≤ 0x39
    · -- a decimal escape: a back-reference, checked against the pre-scan count by the crate and
      -- against the final group count by the grammar
      obtain ⟨y, r, rfl, hd⟩ := hdig
      rw [atomEscape_dec c hu r hd est, backslash_dec st hiu acc hin hd]
      obtain ⟨p, hp, hnp⟩ := dec_neutral F 0 r hd
      by_cases hle : min (takeDigits (y :: r) 0 0).1 USIZE_MAX ≤ st.groupCountMax
      · rw [if_pos hle]
        rw [hi.gmax] at hle
        refine .inl ⟨⟨?_, he.refs, he.scope⟩, _, rfl, ⟨rfl, rfl, hi.drop (hin.trans hp) hnp⟩, by simp, rfl,
          (hg.drop (hin.trans hp) hnp).of_eq rfl rfl rfl rfl rfl⟩
        have := he.maxDec
        simp only; omega
      · rw [if_neg hle]
        rw [hi.gmax] at hle
        refine .inr ⟨.inl ?_, isSyn_synErr _⟩
        simp only; omega
    by_cases hkc : ∃ r, r0 = 0x6B :: r
    · -- `\\k<name>`: the crate looks the name up in the pre-scan's table at once, the grammar at the end
      obtain ⟨r, rfl⟩ := hkc
      have hnm : F.nm = true := by
        have := hE _ _ rfl
        simp only [Bool.or_eq_true, Bool.and_eq_true] at this
        rcases this with h | h
        · simpa [escOk] using h
        · simp at h
      have hct := (hnn hnm).1
      rw [atomEscape_k c hu r est]
      obtain ⟨k1, k2, k3⟩ := backslash_k st hiu acc hin (by rw [hi.named]; exact hi.nok)
      obtain ⟨n1, n2, n3⟩ := namedRef_eqs c est
      by_cases hlt : ∃ r1, r = 0x3C :: r1
      · obtain ⟨r1, rfl⟩ := hlt
        have hsim := groupName_sim r1 hch.tail.tail
        cases hgn : groupName tabs r1 with
        | none =>
          rw [hgn] at hsim
          rw [n2 r1 (by rw [hct]; exact hgn)]
          exact k1 _ hsim
        | some p =>
          obtain ⟨nm, r2⟩ := p
          rw [hgn] at hsim
          rw [n1 r1 nm r2 (by rw [hct]; exact hgn)]
          obtain ⟨p, hp, hnp⟩ := name_neutral F hch.tail.tail hgn
          have hp' : 0x5C :: 0x6B :: 0x3C :: r1 = ([0x5C, 0x6B] ++ p) ++ r2 := by rw [hp]; simp
          have hnp' : Neutral F ([0x5C, 0x6B] ++ p) := neutral_append (neutral_esc F 0x6B) hnp
          cases hmg : mapGet Γ.N nm with
          | none =>
            exact .inr ⟨.inr ⟨nm, by simp, hmg⟩, k2 nm r2 hsim (by rw [hi.named]; exact hmg)⟩
          | some idxs =>
            obtain ⟨nd, hnd'⟩ := k3 nm r2 hsim (by rw [hi.named, hmg]; rfl)
            refine .inl ⟨⟨he.maxDec, ?_, he.scope⟩, _, hnd', ⟨rfl, rfl, hi.drop (hin.trans hp') hnp'⟩, by simp, rfl,
              (hg.drop (hin.trans hp') hnp').of_eq rfl rfl rfl rfl rfl⟩
            intro x hx
            simp only [List.mem_cons] at hx
            rcases hx with rfl | hx
            · rw [hmg]; rfl
            · exact he.refs x hx
      · have hnc : tryConsumeName r = .ok (none, r) := by
          unfold tryConsumeName
          split
          · rename_i orig; exact absurd rfl (fun h => hlt ⟨orig, h⟩)
          · rfl
        rw [n3 r (fun r1 h => hlt ⟨r1, h⟩)]
        exact k1 _ hnc
    by_cases hpc : ∃ y r, r0 = y :: r ∧ (y = 0x70 ∨ y = 0x50)
    · -- a property escape
      obtain ⟨y, r, rfl, hy⟩ := hpc
      have hprt : F.pr = true := by
        have := hE _ _ rfl
        simp only [Bool.or_eq_true, Bool.and_eq_true] at this
        rcases this with h | h
        · rcases hy with rfl | rfl <;> simp [escOk] at h
        · exact h.1
      obtain ⟨hct, hcv⟩ := hpr hprt
      have hs := backslash_p F c hct hu st hiu (by rw [hi.usets, hcv]) acc hy hin est
      cases hae : atomEscape c (y :: r) est with
      | fuel => rw [hae] at hs; exact hs
      | bad => rw [hae] at hs; exact hs
      | ok p =>
        obtain ⟨r', est'⟩ := p
        rw [hae] at hs
        obtain ⟨rfl, nd, p, hab, hp, hnp⟩ := hs
        exact .inl ⟨he, _, hab, ⟨rfl, rfl, hi.drop (hin.trans hp) hnp⟩, by simp, rfl, hg.drop (hin.trans hp) hnp⟩
    · have hnd' : ∀ y r, r0 = y :: r → ¬ (0x31 ≤ y ∧ y ≤ 0x39) := fun y r h1 h2 => hdig ⟨y, r, h1, h2⟩
      have hs := backslash_sim F c hu st hiu acc hin hfr hch hl hnd' (fun r h => hkc ⟨r, h⟩)
        (fun r => ⟨fun h => hpc ⟨_, r, h, .inl rfl⟩, fun h => hpc ⟨_, r, h, .inr rfl⟩⟩) est
      cases hae : atomEscape c r0 est with
      | fuel => rw [hae] at hs; exact hs
      | bad => rw [hae] at hs; exact hs
      | ok p =>
        obtain ⟨r', est'⟩ := p
        rw [hae] at hs
        obtain ⟨rfl, nd, p, hab, hp, hnp⟩ := hs
        exact .inl ⟨he, _, hab, ⟨rfl, rfl, hi.drop (hin.trans hp) hnp⟩, by simp, rfl, hg.drop (hin.trans hp) hnp⟩
  by_cases hx2 : x = 0x5B
  · -- a character class (no `v`)
    subst hx2
    refine OutS.out ?_
    have hk0 : (F.k || F.lk || F.vk) = true ∧ fragGo F 1 r0 = true := by
      have := hfr
      unfold fragCore at this
      rw [fragGo_open, Bool.and_eq_true] at this
      exact this
    have hs : match atom c (n + 1) (0x5B :: r0) est with
        | .ok (r', est') => est' = est ∧
            (∃ nd, consumeAtomA (consumeDisjunction f') st acc 0x5B =
              .ok ⟨acc ++ [nd], { st with input := r' }, acc.length, true⟩) ∧
            ∃ p, 0x5B :: r0 = p ++ r' ∧ Neutral F p
        | .bad => IsSyn (consumeAtomA (consumeDisjunction f') st acc 0x5B)
        | .fuel => False := by
      by_cases hvk9 : F.vk = true
      · -- class sets (flag `v`)
        obtain ⟨hu1, hve, hcv, hct, hV⟩ := hvcls hvk9
        subst hu1
        have hch : AllChar r0 := by
          have := hi.chars (.inl hve)
          rw [hin] at this
          exact fun c hc => this c (by simp [hc])
        have hdep : st.depth + brk r0 ≤ 256 := by
          have := hi.depth
          rw [hin] at this
          unfold dpot at this
          rw [hvk9] at this
          rw [brk_cons_br] at this
          simp only [if_true] at this
          omega
        exact vclass_sim F c (cd := consumeDisjunction f') st ⟨hvk9, hct, hcv, hiu, by rw [hi.usets, hV]⟩ acc hin hch hdep
          n (by omega) est
      by_cases hlkt : F.lk = true
      · -- Annex B mode
        obtain ⟨hu0, hcv, hV0, hvk0, hN0⟩ := hlk hlkt
        subst hu0
        have hA : AtomSimOn F c st.flags (!st.named.isEmpty) (fun _ => True) :=
          atomSim_L F c hu st.flags _ hiu hlkt hvk0
            (fun h => ⟨(hN0 h).1, by rw [hi.named, (hN0 h).2]; rfl⟩)
        exact class_simG F c false hu hcv (cd := consumeDisjunction f') st hiu (by rw [hi.usets, hV0])
          (fun _ => True) (fun _ _ _ => trivial) hA acc hin trivial hk0.2 n (by omega) est
      · have hlkf : F.lk = false := by simpa using hlkt
        have hvkf : F.vk = false := by
          cases h : F.vk with
          | false => rfl
          | true => exact absurd h hvk9
        have hk : F.k = true := by simpa [hlkf, hvkf] using hk0.1
        obtain ⟨hke, hku, hkv, _⟩ := hkk hk
        subst hku
        have hch : AllChar r0 := by
          have := hi.chars (.inl hke)
          rw [hin] at this
          exact fun c hc => this c (by simp [hc])
        exact class_sim F c hu hkv (fun h => (hpr h).1) hlkf hvkf (cd := consumeDisjunction f') st hiu (hi.nov hk) acc hin
          hch hk0.2 n (by omega) est
    cases hat : atom c (n + 1) (0x5B :: r0) est with
    | fuel => rw [hat] at hs; exact hs
    | bad => rw [hat] at hs; exact hs
    | ok p =>
      obtain ⟨r', est'⟩ := p
      rw [hat] at hs
      obtain ⟨rfl, ⟨nd, hnd'⟩, p, hp, hnp⟩ := hs
      exact .inl ⟨he, _, hnd', ⟨rfl, rfl, hi.drop (hin.trans hp) hnp⟩, by simp, rfl, hg.drop (hin.trans hp) hnp⟩
  have hpo := fragCore_head hx1 hx2 hfr
  by_cases hdot : x = 0x2E
  · subst hdot
    rw [atom_dot, cAtom_dot hin]
    exact .inl ⟨he, _, rfl, ⟨rfl, rfl, hi.tail hin (by decide) (by decide) (by decide) (by decide)⟩, by simp, rfl, hg.tail (F := F) hin (by decide) (by decide) (by decide) (by decide) (by decide)⟩
  by_cases hpar : x = 0x28
  · subst hpar
    rw [cAtom_paren]
    have hpo := hpo rfl
    by_cases hq : ∃ r1, r0 = 0x3F :: r1
    · obtain ⟨r1, rfl⟩ := hq
      rcases r1 with _ | ⟨y, r2⟩
      · -- `(?` at the end of the pattern
        rw [atom_qend]
        exact .inl (paren_qend hin (hi.groups_lt hin))
      · by_cases hy : y = 0x3A
        · subst hy
          rw [atom_noncap, paren_noncapture hin]
          have hna : namedAhead ([0x3A] ++ r2) = none := namedAhead_none (.inl (by intro r' h; cases h))
          have hnp : Neutral F [0x3A] := neutral_plain F (by refine ⟨?_, ?_, ?_, ?_, ?_, ?_⟩ <;> decide)
          have hent := hi.enterQ (p := [0x3A]) (r := r2) hin hnp hna st.hasLookbehind
          obtain ⟨sv, hsv, hgent⟩ := hg.enterQ (p := [0x3A]) (r := r2) hin hnp hna st.hasLookbehind
          simp only [List.length_cons] at hn hf
          have := group_sim hB (r' := r2) (est1 := est) (f' := f') (st1 := { st with input := r2 })
            (by omega) he (by omega) rfl hent hg.ne hsv (hgent.of_eq rfl rfl rfl rfl rfl) (fun c _ => c) true acc
          exact this.mono (fun r est' _ ⟨out, ho, hcr, hoff, hqa, hg2⟩ => ⟨out, ho, hcr, hoff, hqa, hg2⟩) id
        by_cases hy2 : y = 0x3C
        · -- a named group
          subst hy2
          have hnm : F.nm = true := by
            rcases r2 with _ | ⟨z, r3⟩
            · simpa [parenOk] using hpo
            · simp only [parenOk, Bool.or_eq_true, beq_iff_eq] at hpo
              simp only [lookShape, Bool.or_eq_false_iff, beq_eq_false_iff_ne] at hl
              rcases hpo with (h | h) | h
              · exact absurd h hl.1
              · exact absurd h hl.2
              · exact h
          obtain ⟨hct, h25⟩ := hnn hnm
          have hch : AllChar r2 := by
            have := hi.chars (.inr hnm)
            rw [hin] at this
            exact fun c hc => this c (by simp [hc])
          obtain ⟨a1, a2⟩ := atom_named c n r2 est
          obtain ⟨p1, p2⟩ := paren_named (cd := consumeDisjunction f') (acc := acc) hin hl (hi.groups_lt hin)
          have hsim := groupName_sim r2 hch
          cases hgn : groupName tabs r2 with
          | none =>
            rw [hgn] at hsim
            rw [a1 (by rw [hct]; exact hgn)]
            exact .inl (p1 _ hsim)
          | some p =>
            obtain ⟨nm, r1⟩ := p
            rw [hgn] at hsim
            rw [a2 nm r1 (by rw [hct]; exact hgn), p2 nm r1 hsim]
            have hent := hi.enterNamed hin hch hgn
            rcases hg.enterNamed (F := F) hin hch hgn with ⟨hmem, hB0⟩ | ⟨hnew, sv, hsv, hgent⟩
            · -- the name is in scope: the grammar rejects, and so does the scope scanner
              rw [addName_dup c h25 nm { est with groups := est.groups + 1 } hmem]
              exact .inr hB0
            rw [addName_new c h25 nm { est with groups := est.groups + 1 } hnew]
            simp only
            have he1 : EInv Γ ⟨est.groups + 1, nm :: est.names, nm :: est.scope, est.refs, est.maxDec⟩ := by
              refine ⟨he.maxDec, he.refs, ?_⟩
              intro x hx
              simp only [List.mem_cons] at hx ⊢
              rcases hx with rfl | hx
              · exact .inl rfl
              · exact .inr (he.scope x hx)
            have hlen : r1.length < r2.length := groupName_len _ _ _ _ (by rw [hct] at *; exact hgn)
            simp only [List.length_cons] at hn hf
            have := group_sim hB (r' := r1) (est1 := _) (f' := f')
              (st1 := { st with input := r1, groupCount := st.groupCount + 1 })
              (by omega) he1 (by omega) rfl hent hg.ne hsv (hgent.of_eq rfl rfl rfl rfl rfl)
              (fun c _ => .group st.groupCount (some nm) c) true acc
            exact this.mono (fun r est' _ ⟨out, ho, hcr, hoff, hqa, hg2⟩ => ⟨out, ho, hcr, hoff, hqa, hg2⟩) id
        by_cases hmod : y = 0x69 ∨ y = 0x6D ∨ y = 0x73 ∨ y = 0x2D
        · -- a modifier group `(?ims-ims:`
          have h25 := hmd (parenOk_mod hpo hmod)
          obtain ⟨ms1, ms2⟩ := modifiers_sim c h25 (y :: r2) (fun r e => hy (by cases e; rfl))
          cases hmo : modifiers c (y :: r2) with
          | none =>
            rw [atom_mod_none c n est hy2 hmo]
            exact .inl (paren_mod_err hin hmod (ms2 hmo))
          | some r1 =>
            obtain ⟨⟨mods, hms⟩, p, hpne, hp, hpc⟩ := ms1 r1 hmo
            rw [atom_mod_some c n est hy2 hmo, paren_mod_ok hin hmod hms]
            have hna : namedAhead (p ++ r1) = none := by
              rw [← hp]; exact namedAhead_none (.inl (by intro r' h; cases h; exact hy2 rfl))
            have hnp : Neutral F p := neutral_plains F (fun x hx => (hpc x hx).plain)
            have hin' : st.input = 0x28 :: 0x3F :: (p ++ r1) := by rw [hin, hp]
            have hent := hi.enterQ (p := p) (r := r1) hin' hnp hna st.hasLookbehind
            obtain ⟨sv, hsv, hgent⟩ := hg.enterQ (p := p) (r := r1) hin' hnp hna st.hasLookbehind
            obtain ⟨au1, au2⟩ := applyMods_uni st.flags mods
            have hent' := hent.setFlags (applyMods st.flags mods) (by rw [au1]; exact hi.uni)
              (fun hk => by rw [au2]; exact hi.nov hk) (by rw [au2]; exact hi.usets)
            have hlen : r1.length < (y :: r2).length := by
              rw [hp, List.length_append]
              have : 0 < p.length := List.length_pos_iff.2 hpne
              omega
            simp only [List.length_cons] at hn hf hlen
            have := group_sim_mod hB (r' := r1) (est1 := est) (f' := f')
              (st1 := { st with input := r1, flags := applyMods st.flags mods })
              (by omega) he (by omega) rfl hent' hg.ne hsv (hgent.of_eq rfl rfl rfl rfl rfl) st.flags hi.uni hi.nov hi.usets acc
            exact this.mono (fun r est' _ ⟨out, ho, hcr, hoff, hqa, hg2⟩ => ⟨out, ho, hcr, hoff, hqa, hg2⟩) id
        · have hyo := parenOk_other hl hy hy2 hmod
          rw [atom_qother c n y r2 est ⟨hyo.1, hyo.2.2.2.1, hyo.2.2.2.2⟩]
          exact .inl (paren_other y hin hyo)
    · -- capturing group
      have hr : ∀ r', r0 ≠ 0x3F :: r' := fun r' e => hq ⟨r', e⟩
      have hent := hi.enterCap hin hr
      obtain ⟨sv, hsv, hgent⟩ := hg.enterCap hin hr
      rw [atom_capture c n r0 est hr, paren_capture hin hr (hi.groups_lt hin)]
      have he1 : EInv Γ { est with groups := est.groups + 1 } := ⟨he.maxDec, he.refs, he.scope⟩
      have := group_sim hB (r' := r0) (est1 := { est with groups := est.groups + 1 }) (f' := f')
        (st1 := { st with input := r0, groupCount := st.groupCount + 1 })
        (by omega) he1 (by omega) rfl hent hg.ne hsv (hgent.of_eq rfl rfl rfl rfl rfl) (fun c _ => .group st.groupCount none c)
        true acc
      exact this.mono (fun r est' _ ⟨out, ho, hcr, hoff, hqa, hg2⟩ => ⟨out, ho, hcr, hoff, hqa, hg2⟩) id
  by_cases hqc : x = 0x2A ∨ x = 0x2B ∨ x = 0x3F
  · rw [atom_quantchar c n x r0 est hqc]
    exact .inl (cAtom_quantchar x hqc)
  by_cases hbr : x = 0x7B
  · subst hbr
    refine OutS.out ?_
    rw [atom_brace]
    cases u with
    | true =>
      rw [hu]; simp only [if_true]
      exact cAtom_close_u _ (.inr (.inr rfl)) hiu
    | false =>
      rw [hu]; simp only [Bool.false_eq_true, if_false]
      have := cAtom_brace_legacy (cd := consumeDisjunction f') (acc := acc) hin hiu
      cases hb : braced r0 with
      | some p => rw [hb] at this; exact this
      | none =>
        rw [hb] at this
        obtain ⟨nd, hnd⟩ := this
        exact .inl ⟨he, _, hnd, ⟨rfl, rfl, hi.tail hin (by decide) (by decide) (by decide) (by decide)⟩, by simp, rfl, hg.tail (F := F) hin (by decide) (by decide) (by decide) (by decide) (by decide)⟩
  by_cases hcl : x = 0x7D ∨ x = 0x5D
  · refine OutS.out ?_
    rw [atom_close c n x r0 est hcl]
    cases u with
    | true =>
      rw [hu]; simp only [if_true]
      exact cAtom_close_u _ (by rcases hcl with h | h <;> simp [h]) hiu
    | false =>
      rw [hu]; simp only [Bool.false_eq_true, if_false]
      obtain ⟨nd, hnd⟩ := cAtom_close_legacy (cd := consumeDisjunction f') (acc := acc) x hin hcl hiu
      exact .inl ⟨he, _, hnd, ⟨rfl, rfl, hi.tail hin hpar h3 hx1 hx2⟩, by simp, rfl, hg.tail (F := F) hin hpar h3 hx1 hx2 h4⟩
  · have hsc : ESG.isSyntaxChar x = false := by
      simp only [ESG.isSyntaxChar, Bool.or_eq_false_iff, beq_eq_false_iff_ne]
      simp only [not_or] at hqc hcl
      exact ⟨⟨⟨⟨⟨⟨⟨⟨⟨⟨⟨⟨⟨h1, h2⟩, hx1⟩, hdot⟩, hqc.1⟩, hqc.2.1⟩, hqc.2.2⟩, hpar⟩, h3⟩, hx2⟩, hcl.2⟩, hbr⟩, hcl.1⟩, h4⟩
    refine OutS.out ?_
    rw [atom_lit c n x r0 est hsc]
    obtain ⟨nd, hnd⟩ := cAtom_lit (cd := consumeDisjunction f') (acc := acc) x hin hsc
    exact .inl ⟨he, _, hnd, ⟨rfl, rfl, hi.tail hin hpar h3 hx1 hx2⟩, by simp, rfl, hg.tail (F := F) hin hpar h3 hx1 hx2 h4⟩

/-! ### `term` against one term-loop iteration -/

theorem term_anchor (c : Cfg) (n : Nat) (x : Nat) (r : List Nat) (est : ESG.St) (hx : x = 0x5E ∨ x = 0x24) :
    term c (n + 1) (x :: r) est = .ok (r, est) := by
  unfold term
  rcases hx with rfl | rfl <;> rfl

theorem term_la_eqs {c : Cfg} {n : Nat} {x : Nat} {r : List Nat} {est : ESG.St} (hx : x = 0x3D ∨ x = 0x21) :
    (∀ r' st1, body c n r est = .ok (r', st1) → c.u = true →
      term c (n + 1) (0x28 :: 0x3F :: x :: r) est = .ok (r', st1)) ∧
    (∀ r' st1 r2, body c n r est = .ok (r', st1) → c.u = false → optQuant r' = .ok r2 →
      term c (n + 1) (0x28 :: 0x3F :: x :: r) est = .ok (r2, st1)) ∧
    (∀ r' st1, body c n r est = .ok (r', st1) → c.u = false → optQuant r' = .bad →
      term c (n + 1) (0x28 :: 0x3F :: x :: r) est = .bad) ∧
    (body c n r est = .bad → term c (n + 1) (0x28 :: 0x3F :: x :: r) est = .bad) ∧
    (body c n r est = .fuel → term c (n + 1) (0x28 :: 0x3F :: x :: r) est = .fuel) := by
  refine ⟨?_, ?_, ?_, ?_, ?_⟩
  · intro r' st1 h hu; rw [term_lookahead c n x r est hx, h]; simp [hu]
  · intro r' st1 r2 h hu ho; rw [term_lookahead c n x r est hx, h]; simp [hu, ho]
  · intro r' st1 h hu ho; rw [term_lookahead c n x r est hx, h]; simp [hu, ho]
  · intro h; rw [term_lookahead c n x r est hx, h]
  · intro h; rw [term_lookahead c n x r est hx, h]

theorem lookShape_cases {s : List Nat} (h : lookShape s = true) :
    (∃ z r, s = 0x28 :: 0x3F :: 0x3C :: z :: r ∧ (z = 0x3D ∨ z = 0x21)) ∨
    (∃ z r, s = 0x28 :: 0x3F :: z :: r ∧ (z = 0x3D ∨ z = 0x21)) ∨
    (∃ z r, s = 0x5C :: z :: r ∧ (z = 0x62 ∨ z = 0x42)) := by
  unfold lookShape at h
  split at h
  · rename_i z r; exact .inl ⟨z, r, rfl, by simpa using h⟩
  · rename_i z r _; exact .inr (.inl ⟨z, r, rfl, by simpa using h⟩)
  · rename_i z r; exact .inr (.inr ⟨z, r, rfl, by simpa using h⟩)
  · cases h


theorem simT_step {c : Cfg} {F : Feat} {u : Bool} {Γ : Glob} {n : Nat} (hu : c.u = u) (hQ : SimQ c F u Γ n)
    (hB : SimB c F u Γ n) : SimT c F u Γ (n + 1) := by
  intro x r0 est hn he h3 h4 f st acc hf hin hi stk hg
  have hiu := hi.uni
  by_cases hanc : x = 0x5E ∨ x = 0x24
  · -- `^`, `$`
    obtain ⟨f', rfl⟩ : ∃ f', f = f' + 1 := ⟨f - 1, by omega⟩
    rw [term_anchor c n x r0 est hanc]
    refine .inl ⟨he, ?_⟩
    rcases hanc with rfl | rfl
    · have ho := (consumeAtom_succ f' st acc 0x5E).trans (cAtom_caret hin)
      exact tstep_noq ho ⟨rfl, rfl, hi.tail hin (by decide) (by decide) (by decide) (by decide)⟩ rfl _
        (hg.tail (F := F) hin (by decide) (by decide) (by decide) (by decide) (by decide))
    · have ho := (consumeAtom_succ f' st acc 0x24).trans (cAtom_dollar hin)
      exact tstep_noq ho ⟨rfl, rfl, hi.tail hin (by decide) (by decide) (by decide) (by decide)⟩ rfl _
        (hg.tail (F := F) hin (by decide) (by decide) (by decide) (by decide) (by decide))
  by_cases hl : lookShape (x :: r0) = true
  · obtain ⟨f', rfl⟩ : ∃ f', f = f' + 1 := ⟨f - 1, by omega⟩
    rcases lookShape_cases hl with ⟨z, r, hs, hz⟩ | ⟨z, r, hs, hz⟩ | ⟨z, r, hs, hz⟩
    · -- look-behind: never quantifiable
      obtain ⟨rfl, rfl⟩ : x = 0x28 ∧ r0 = 0x3F :: 0x3C :: z :: r := by simpa using hs
      rw [term_lookbehind c n z r est hz]
      have hnp : Neutral F [0x3C, z] := neutral_plains F (by
          intro c hc; simp at hc; apply plain_punct
          rcases hc with rfl | rfl
          · exact .inr (.inl rfl)
          · rcases hz with rfl | rfl
            · exact .inr (.inr (.inl rfl))
            · exact .inr (.inr (.inr (.inl rfl))))
      have hna : namedAhead ([0x3C, z] ++ r) = none := namedAhead_none (.inr (.inl ⟨z, r, rfl, hz⟩))
      have hent := hi.enterQ (p := [0x3C, z]) (r := r) hin hnp hna true
      obtain ⟨sv, hsv, hgent⟩ := hg.enterQ (p := [0x3C, z]) (r := r) hin hnp hna true
      simp only [List.length_cons] at hn hf
      have hgs := group_sim hB (r' := r) (est1 := est) (f' := f')
        (st1 := { st with input := r, hasLookbehind := true })
        (by omega) he (by omega) rfl hent hg.ne hsv (hgent.of_eq rfl rfl rfl rfl rfl)
        (fun c s => .look (z == 0x21) true st.groupCount s.groupCount c) false acc
      have hca : consumeAtom (f' + 1) st acc 0x28 = _ :=
        ((consumeAtom_succ f' st acc 0x28).trans cAtom_paren).trans (paren_lookbehind z hz hin)
      refine hgs.mono ?_ (fun ⟨msg, hm⟩ => ⟨msg, termStep_err (hca.trans hm)⟩)
      rintro r' est' _ ⟨out, ho, hcr, hoff, hqa, hg2⟩
      exact tstep_noq (hca.trans ho) hcr hqa _ hg2
    · -- look-ahead: quantifiable exactly in Annex B
      obtain ⟨rfl, rfl⟩ : x = 0x28 ∧ r0 = 0x3F :: z :: r := by simpa using hs
      obtain ⟨t1, t2, t3, t4, t5⟩ := term_la_eqs (c := c) (n := n) (r := r) (est := est) hz
      have hnp : Neutral F [z] := neutral_plain F (plain_punct (by
          rcases hz with rfl | rfl
          · exact .inr (.inr (.inl rfl))
          · exact .inr (.inr (.inr (.inl rfl)))))
      have hna : namedAhead ([z] ++ r) = none :=
        namedAhead_none (.inl (by intro r' h; cases h; rcases hz with h | h <;> cases h))
      have hent := hi.enterQ (p := [z]) (r := r) hin hnp hna st.hasLookbehind
      obtain ⟨sv, hsv, hgent⟩ := hg.enterQ (p := [z]) (r := r) hin hnp hna st.hasLookbehind
      simp only [List.length_cons] at hn hf
      have hgs := group_sim hB (r' := r) (est1 := est) (f' := f')
        (st1 := { st with input := r })
        (by omega) he (by omega) rfl hent hg.ne hsv (hgent.of_eq rfl rfl rfl rfl rfl)
        (fun c s => .look (z == 0x21) false st.groupCount s.groupCount c) (!st.flags.unicode) acc
      have hca : consumeAtom (f' + 1) st acc 0x28 = _ :=
        ((consumeAtom_succ f' st acc 0x28).trans cAtom_paren).trans (paren_lookahead z hz hin)
      cases hb : body c n r est with
      | fuel => rw [hb] at hgs; exact hgs.elim
      | bad =>
        rw [hb] at hgs
        rw [t4 hb]
        exact hgs.imp (fun ⟨msg, hm⟩ => ⟨msg, termStep_err (hca.trans hm)⟩) id
      | ok p =>
        obtain ⟨r', est'⟩ := p
        rw [hb] at hgs
        rcases hgs with ⟨he', out, ho, hcr, hoff, hqa, hg2⟩ | ⟨hp, msg, hm⟩
        · rw [hiu] at hqa
          cases u with
          | true =>
            rw [t1 r' est' hb hu]
            exact .inl ⟨he', tstep_noq (hca.trans ho) hcr hqa _ hg2⟩
          | false =>
            have := tstep_qa (hca.trans ho) hcr hoff hqa est' hg2
            cases hoq : optQuant r' with
            | fuel => rw [hoq] at this; exact this.elim
            | bad => rw [hoq] at this; rw [t3 r' est' hb hu hoq]; exact .inl this
            | ok r2 => rw [hoq] at this; rw [t2 r' est' r2 hb hu hoq]; exact .inl ⟨he', this⟩
        · have hs : IsSyn (termStep (f' + 1) st acc 0x28) := ⟨msg, termStep_err (hca.trans hm)⟩
          cases u with
          | true =>
            rw [t1 r' est' hb hu]
            exact .inr ⟨hp, hs⟩
          | false =>
            cases hoq : optQuant r' with
            | fuel => exact absurd hoq (optQuant_nofuel r')
            | bad => rw [t3 r' est' hb hu hoq]; exact .inl hs
            | ok r2 => rw [t2 r' est' r2 hb hu hoq]; exact .inr ⟨hp, hs⟩
    · -- `\\b`, `\\B`
      obtain ⟨rfl, rfl⟩ : x = 0x5C ∧ r0 = z :: r := by simpa using hs
      rw [term_wb c n z r est hz]
      have ho := (consumeAtom_succ f' st acc 0x5C).trans (cAtom_wb z hz hin)
      exact .inl ⟨he, tstep_noq ho ⟨rfl, rfl, hi.drop (p := [0x5C, z]) hin (neutral_esc F z)⟩ rfl _
        (hg.drop (p := [0x5C, z]) hin (neutral_esc F z))⟩
  · simp only [not_or] at hanc
    rw [term_other c n x r0 est (by simpa using hl) hanc.1 hanc.2]
    exact hQ x r0 est (by omega) he (by simpa using hl) hanc.1 hanc.2 h3 h4 f st acc hf hin hi stk hg

/-! ## The induction -/

/-- **The simulation**, for every fuel of the grammar recognizer. -/
theorem sim_all {c : Cfg} {F : Feat} {u : Bool} (Γ : Glob) (hu : c.u = u) (heu : F.e = true → u = true)
    (hkk : F.k = true → F.e = true ∧ u = true ∧ c.v = false ∧ F.vk = false)
    (hnn : F.nm = true → c.t = tabs ∧ c.feat25 = true) (hmd : F.md = true → c.feat25 = true)
    (hpr : F.pr = true → c.t = tabs ∧ c.v = Γ.V)
    (hle : F.le = true → u = false ∧ Γ.V = false ∧ (F.nm = false → c.n = false ∧ Γ.N = []))
    (hlk : F.lk = true → u = false ∧ c.v = false ∧ Γ.V = false ∧ F.vk = false ∧ (F.nm = false → c.n = false ∧ Γ.N = []))
    (hvcls : F.vk = true → u = true ∧ F.e = true ∧ c.v = true ∧ c.t = tabs ∧ Γ.V = true)
    (n : Nat) :
    SimD c F u Γ n ∧ SimA c F u Γ n ∧ SimB c F u Γ n ∧ SimT c F u Γ n ∧ SimQ c F u Γ n ∧
      SimM c F u Γ n := by
  induction n with
  | zero =>
    refine ⟨?_, ?_, ?_, ?_, ?_, ?_⟩
    · intro s est hn; omega
    · intro s est hn; omega
    · intro s est hn; omega
    · intro x r0 est hn; omega
    · intro x r0 est hn; omega
    · intro x r0 est hn; omega
  | succ n ih =>
    obtain ⟨hD, hA, hB, hT, hQ, hM⟩ := ih
    exact ⟨simD_step hA hD, simA_step hu hT hA, simB_step hD, simT_step hu hQ hB, simQ_step hM,
      simM_step hu heu hkk hnn hmd hpr hle hlk hvcls hB⟩

end Regress.C08Frag
