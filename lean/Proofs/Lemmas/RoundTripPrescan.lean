import Proofs.Lemmas.RoundTripScanNode
/-!
# Round trip, part 10: `parse_capture_groups` on the printed pattern

From `scan_node`: the pre-scan of the printed pattern sets `group_count_max` to the number of groups of
the AST and `named_group_indices` to the AST's named groups (`prescan_print`); the duplicate-name check
passes when all names are different.
-/
namespace Regress.RoundTrip
open Regress Regress.IR Regress.Parse Regress.Lower Regress.Print

/-! ## Association lists -/

theorem mapGet_mapPush {β} (m : List (List Nat × List β)) (k name : List Nat) (v : β) :
    mapGet (mapPush m k v) name =
      if k = name then some ((mapGet m name).getD [] ++ [v]) else mapGet m name := by
  induction m with
  | nil =>
    by_cases h : k = name
    · simp [mapPush, mapGet, h]
    · simp [mapPush, mapGet, h]
  | cons x xs ih =>
    obtain ⟨k', vs⟩ := x
    by_cases h1 : k' = k
    · subst h1
      by_cases h2 : k' = name
      · subst h2; simp [mapPush, mapGet]
      · simp [mapPush, mapGet, h2]
    · by_cases h2 : k = name
      · subst h2
        simp [mapPush, mapGet, h1, ih]
      · by_cases h3 : k' = name
        · subst h3; simp [mapPush, mapGet, h1, h2]
        · simp [mapPush, mapGet, h1, h2, h3, ih]

/-- The 0-based numbers that `pushAll` records for `name`. -/
def addedFor (name : List Nat) (ng : List (List Nat × Nat)) : List Nat :=
  ng.filterMap (fun p => if p.1 == name then some (p.2 - 1) else none)

theorem mapGet_pushAll (name : List Nat) : ∀ (ng : List (List Nat × Nat)) (m : List (List Nat × List Nat)),
    mapGet (pushAll m ng) name =
      if addedFor name ng = [] then mapGet m name
      else some ((mapGet m name).getD [] ++ addedFor name ng) := by
  intro ng
  induction ng with
  | nil => intro m; simp [pushAll, addedFor]
  | cons p ng ih =>
    intro m
    have hstep : pushAll m (p :: ng) = pushAll (mapPush m p.1 (p.2 - 1)) ng := rfl
    rw [hstep, ih, mapGet_mapPush]
    by_cases hp : p.1 = name
    · have hadd : addedFor name (p :: ng) = (p.2 - 1) :: addedFor name ng := by
        simp [addedFor, hp]
      rw [hadd]
      by_cases h0 : addedFor name ng = []
      · simp [hp, h0]
      · simp [hp, h0]
    · have hadd : addedFor name (p :: ng) = addedFor name ng := by
        simp [addedFor, hp]
      rw [hadd]
      simp [hp]

mutual
theorem namedGroups_pos : ∀ (n : ES.Node) (pi : Nat), ∀ p ∈ ES.namedGroups n pi, 1 ≤ p.2
  | .group _ nm n, pi => by
    intro p hp
    simp only [ES.namedGroups, List.mem_append] at hp
    rcases hp with hp | hp
    · cases nm with
      | none => simp at hp
      | some x => simp at hp; subst hp; simp
    · exact namedGroups_pos n (pi + 1) p hp
  | .cat ns, pi => by simpa only [ES.namedGroups] using namedGroupsList_pos ns pi
  | .alt ns, pi => by simpa only [ES.namedGroups] using namedGroupsList_pos ns pi
  | .nc n, pi => by simpa only [ES.namedGroups] using namedGroups_pos n pi
  | .mod _ _ n, pi => by simpa only [ES.namedGroups] using namedGroups_pos n pi
  | .look _ _ n, pi => by simpa only [ES.namedGroups] using namedGroups_pos n pi
  | .quant _ _ _ n, pi => by simpa only [ES.namedGroups] using namedGroups_pos n pi
  | .empty, _ => by simp [ES.namedGroups]
  | .char _, _ => by simp [ES.namedGroups]
  | .dot, _ => by simp [ES.namedGroups]
  | .bol, _ => by simp [ES.namedGroups]
  | .eol, _ => by simp [ES.namedGroups]
  | .wb, _ => by simp [ES.namedGroups]
  | .nwb, _ => by simp [ES.namedGroups]
  | .bref _, _ => by simp [ES.namedGroups]
  | .nref _, _ => by simp [ES.namedGroups]
  | .esc _, _ => by simp [ES.namedGroups]
  | .prop _ _ _, _ => by simp [ES.namedGroups]
  | .cls _ _, _ => by simp [ES.namedGroups]
  | .vcls _ _ _, _ => by simp [ES.namedGroups]
theorem namedGroupsList_pos : ∀ (ns : List ES.Node) (pi : Nat), ∀ p ∈ ES.namedGroupsList ns pi, 1 ≤ p.2
  | [], _ => by simp [ES.namedGroupsList]
  | n :: ns, pi => by
    intro p hp
    simp only [ES.namedGroupsList, List.mem_append] at hp
    rcases hp with hp | hp
    · exact namedGroups_pos n pi p hp
    · exact namedGroupsList_pos ns _ p hp
end

theorem addedFor_succ (name : List Nat) : ∀ (ng : List (List Nat × Nat)), (∀ p ∈ ng, 1 ≤ p.2) →
    (addedFor name ng).map (· + 1) = ng.filterMap (fun p => if p.1 == name then some p.2 else none) := by
  intro ng
  induction ng with
  | nil => intro _; rfl
  | cons p ng ih =>
    intro h
    have hp := h p (by simp)
    have ih' := ih (fun q hq => h q (by simp [hq]))
    by_cases hn : p.1 = name
    · simp only [addedFor, List.filterMap_cons, hn, beq_self_eq_true, if_true, List.map_cons] at ih' ⊢
      rw [ih']
      congr 1
      omega
    · have : (p.1 == name) = false := by simpa using hn
      simp only [addedFor, List.filterMap_cons, this, Bool.false_eq_true, if_false] at ih' ⊢
      exact ih'

/-- The table the pre-scan builds is the one the descent needs. -/
theorem namedR_pushAll (P : ES.Node) : NamedR P (pushAll [] (ES.namedGroups P 0)) := by
  intro name
  refine ⟨addedFor name (ES.namedGroups P 0), ?_, ?_⟩
  · rw [addedFor_succ name _ (namedGroups_pos P 0)]
    rfl
  · rw [mapGet_pushAll]
    by_cases h : addedFor name (ES.namedGroups P 0) = []
    · simp [h, mapGet]
    · simp [h, mapGet]

/-! ## The duplicate-name check -/

theorem mapPush_fresh {β} : ∀ (L : List (List Nat × List β)) (k : List Nat) (v : β), k ∉ L.map (·.1) →
    mapPush L k v = L ++ [(k, [v])] := by
  intro L
  induction L with
  | nil => intro k v _; rfl
  | cons x xs ih =>
    intro k v h
    obtain ⟨k', vs⟩ := x
    simp only [List.map_cons, List.mem_cons, not_or] at h
    have : (k' == k) = false := by simpa using fun e => h.1 e.symm
    simp only [mapPush, this, Bool.false_eq_true, if_false, List.cons_append]
    rw [ih k v h.2]

theorem pushLocs_fresh : ∀ (ns : List (List Nat)) (ps : List (List (Nat × Nat)))
    (L : List (List Nat × List (List (Nat × Nat)))), ns.Nodup → (∀ k ∈ ns, k ∉ L.map (·.1)) →
    pushLocs L ns ps = L ++ (ns.zip ps).map (fun p => (p.1, [p.2])) := by
  intro ns
  induction ns with
  | nil => intro ps L _ _; simp [pushLocs]
  | cons k ns ih =>
    intro ps L hnd hk
    cases ps with
    | nil => simp [pushLocs]
    | cons p ps =>
      have hstep : pushLocs L (k :: ns) (p :: ps) = pushLocs (mapPush L k p) ns ps := rfl
      rw [hstep, mapPush_fresh L k p (hk k (by simp))]
      rw [ih ps _ (List.nodup_cons.1 hnd).2 ?_]
      · simp
      · intro k' hk'
        simp only [List.map_append, List.map_cons, List.map_nil, List.mem_append, List.mem_cons,
          List.not_mem_nil, or_false, not_or]
        refine ⟨hk k' (by simp [hk']), ?_⟩
        intro e
        subst e
        exact (List.nodup_cons.1 hnd).1 hk'

theorem no_conflict {ns : List (List Nat)} (ps : List (List (Nat × Nat))) (h : ns.Nodup) :
    (pushLocs [] ns ps).any (fun e => anyConflict e.2) = false := by
  rw [pushLocs_fresh ns ps [] h (by simp)]
  simp only [List.nil_append, List.any_map, List.any_eq_false]
  intro p _
  simp [anyConflict]

/-! ## `parse_capture_groups` -/

theorem scanLoop_nil (fl : Flags) {f : Nat} (hf : 0 < f) (sc : Scan) : scanLoop fl f [] sc = .ok sc := by
  obtain ⟨f', rfl⟩ : ∃ f', f = f' + 1 := ⟨f - 1, by omega⟩
  rw [scanLoop.eq_def]

theorem prescan_print {fl : Flags} (hc : ClsScan fl) (hv : VClsScan fl) (a : ES.Node) (st : PState)
    (hin : st.input = pr .disj a) (hfl : st.flags = fl) (h0 : st.groupCountMax = 0) (hn : st.named = [])
    (hm : modeOK fl.unicodeSets a = true) (hl : lexOK a = true)
    (hg : ES.countParens a ≤ Gen.MAX_CAPTURE_GROUPS)
    (hnd : ((ES.namedGroups a 0).map (·.1)).Nodup) :
    parseCaptureGroups st =
      .ok { st with groupCountMax := ES.countParens a, named := pushAll [] (ES.namedGroups a 0) } := by
  obtain ⟨sc, f', hf', hscan, hrel⟩ := scan_node hc hv a hm hl .disj
    { named := st.named, gmax := st.groupCountMax } [] (st.input.length + 1) (by rw [hin]; simp)
  simp only [List.append_nil] at hscan
  rw [scanLoop_nil fl hf'] at hscan
  obtain ⟨g1, n1, ps, l1, e1⟩ := hrel (by simp only [h0]; omega)
  simp only [h0, hn, Nat.zero_add] at g1 n1 l1 e1
  have hlocs : sc.locs.any (fun e => anyConflict e.2) = false := by
    rw [e1]
    exact no_conflict ps hnd
  rw [hin] at hscan
  unfold parseCaptureGroups
  rw [hfl, hin, hscan]
  simp only [hlocs, Bool.false_eq_true, if_false, g1, n1]

end Regress.RoundTrip
