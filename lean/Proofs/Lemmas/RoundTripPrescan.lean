import Proofs.Lemmas.RoundTripScanNode
/-!
# Round trip, part 10: `parse_capture_groups` on the printed pattern

The table `named_group_indices` that the pre-scan builds (`pushAll`) is the one the descent needs
(`namedR_pushAll`).  `prescan_print` itself is in `RoundTripPaths5.lean`.
-/
namespace Regress.RoundTrip
open Regress Regress.IR Regress.Parse Regress.Lower Regress.Print

/-! ## Association lists -/

theorem mapGet_mapPush {β} (m : List (List Nat × List β)) (k name : List Nat) (v : β) :
    mapGet (mapPush m k v) name =
      if k = name then some ((mapGet m name).getD [] ++ [v]) else mapGet m name := by
  induction m with
  | nil =>
    by_cases h : k = name
    · simp [mapPush, mapGet, h]
    · simp [mapPush, mapGet, h]
  | cons x xs ih =>
    obtain ⟨k', vs⟩ := x
    by_cases h1 : k' = k
    · subst h1
      by_cases h2 : k' = name
      · subst h2; simp [mapPush, mapGet]
      · simp [mapPush, mapGet, h2]
    · by_cases h2 : k = name
      · subst h2
        simp [mapPush, mapGet, h1, ih]
      · by_cases h3 : k' = name
        · subst h3; simp [mapPush, mapGet, h1, h2]
        · simp [mapPush, mapGet, h1, h2, h3, ih]

/-- The 0-based numbers that `pushAll` records for `name`. -/
def addedFor (name : List Nat) (ng : List (List Nat × Nat)) : List Nat :=
  ng.filterMap (fun p => if p.1 == name then some (p.2 - 1) else none)

theorem mapGet_pushAll (name : List Nat) : ∀ (ng : List (List Nat × Nat)) (m : List (List Nat × List Nat)),
    mapGet (pushAll m ng) name =
      if addedFor name ng = [] then mapGet m name
      else some ((mapGet m name).getD [] ++ addedFor name ng) := by
  intro ng
  induction ng with
  | nil => intro m; simp [pushAll, addedFor]
  | cons p ng ih =>
    intro m
    have hstep : pushAll m (p :: ng) = pushAll (mapPush m p.1 (p.2 - 1)) ng := rfl
    rw [hstep, ih, mapGet_mapPush]
    by_cases hp : p.1 = name
    · have hadd : addedFor name (p :: ng) = (p.2 - 1) :: addedFor name ng := by
        simp [addedFor, hp]
      rw [hadd]
      by_cases h0 : addedFor name ng = []
      · simp [hp, h0]
      · simp [hp, h0]
    · have hadd : addedFor name (p :: ng) = addedFor name ng := by
        simp [addedFor, hp]
      rw [hadd]
      simp [hp]

mutual
theorem namedGroups_pos : ∀ (n : ES.Node) (pi : Nat), ∀ p ∈ ES.namedGroups n pi, 1 ≤ p.2
  | .group _ nm n, pi => by
    intro p hp
    simp only [ES.namedGroups, List.mem_append] at hp
    rcases hp with hp | hp
    · cases nm with
      | none => simp at hp
      | some x => simp at hp; subst hp; simp
    · exact namedGroups_pos n (pi + 1) p hp
  | .cat ns, pi => by simpa only [ES.namedGroups] using namedGroupsList_pos ns pi
  | .alt ns, pi => by simpa only [ES.namedGroups] using namedGroupsList_pos ns pi
  | .nc n, pi => by simpa only [ES.namedGroups] using namedGroups_pos n pi
  | .mod _ _ n, pi => by simpa only [ES.namedGroups] using namedGroups_pos n pi
  | .look _ _ n, pi => by simpa only [ES.namedGroups] using namedGroups_pos n pi
  | .quant _ _ _ n, pi => by simpa only [ES.namedGroups] using namedGroups_pos n pi
  | .empty, _ => by simp [ES.namedGroups]
  | .char _, _ => by simp [ES.namedGroups]
  | .dot, _ => by simp [ES.namedGroups]
  | .bol, _ => by simp [ES.namedGroups]
  | .eol, _ => by simp [ES.namedGroups]
  | .wb, _ => by simp [ES.namedGroups]
  | .nwb, _ => by simp [ES.namedGroups]
  | .bref _, _ => by simp [ES.namedGroups]
  | .nref _, _ => by simp [ES.namedGroups]
  | .esc _, _ => by simp [ES.namedGroups]
  | .prop _ _ _, _ => by simp [ES.namedGroups]
  | .cls _ _, _ => by simp [ES.namedGroups]
  | .vcls _ _ _, _ => by simp [ES.namedGroups]
theorem namedGroupsList_pos : ∀ (ns : List ES.Node) (pi : Nat), ∀ p ∈ ES.namedGroupsList ns pi, 1 ≤ p.2
  | [], _ => by simp [ES.namedGroupsList]
  | n :: ns, pi => by
    intro p hp
    simp only [ES.namedGroupsList, List.mem_append] at hp
    rcases hp with hp | hp
    · exact namedGroups_pos n pi p hp
    · exact namedGroupsList_pos ns _ p hp
end

theorem addedFor_succ (name : List Nat) : ∀ (ng : List (List Nat × Nat)), (∀ p ∈ ng, 1 ≤ p.2) →
    (addedFor name ng).map (· + 1) = ng.filterMap (fun p => if p.1 == name then some p.2 else none) := by
  intro ng
  induction ng with
  | nil => intro _; rfl
  | cons p ng ih =>
    intro h
    have hp := h p (by simp)
    have ih' := ih (fun q hq => h q (by simp [hq]))
    by_cases hn : p.1 = name
    · simp only [addedFor, List.filterMap_cons, hn, beq_self_eq_true, if_true, List.map_cons] at ih' ⊢
      rw [ih']
      congr 1
      omega
    · have : (p.1 == name) = false := by simpa using hn
      simp only [addedFor, List.filterMap_cons, this, Bool.false_eq_true, if_false] at ih' ⊢
      exact ih'

/-- The table the pre-scan builds is the one the descent needs. -/
theorem namedR_pushAll (P : ES.Node) : NamedR P (pushAll [] (ES.namedGroups P 0)) := by
  intro name
  refine ⟨addedFor name (ES.namedGroups P 0), ?_, ?_⟩
  · rw [addedFor_succ name _ (namedGroups_pos P 0)]
    rfl
  · rw [mapGet_pushAll]
    by_cases h : addedFor name (ES.namedGroups P 0) = []
    · simp [h, mapGet]
    · simp [h, mapGet]

/-! ## `parse_capture_groups` -/

theorem scanLoop_nil (fl : Flags) {f : Nat} (hf : 0 < f) (sc : Scan) : scanLoop fl f [] sc = .ok sc := by
  obtain ⟨f', rfl⟩ : ∃ f', f = f' + 1 := ⟨f - 1, by omega⟩
  rw [scanLoop.eq_def]

end Regress.RoundTrip
