import Proofs.Lemmas.SafetyCommon

namespace Regress.VM.Bt

/-! ## A Hoare-style rule for `Bt.run` -/

/-- Post-condition of a run: `QM` on a match, `QF` on failure; running out of the tick budget is
always allowed, an `.error` never. -/
def Post (QM : Nat → State → Prop) (QF : State → Prop) : Outcome → Prop
  | .matched e st _ _ => QM e st
  | .failed st _ _ => QF st
  | .outOfFuel => True
  | .error _ => False

/-- What `tryBacktrack` must deliver. -/
def BtPost (I : Nat → Nat → State → Array BtInsn → Prop) (QF : State → Prop) : BtRes → Prop
  | .resumed ip pos st bts => I ip pos st bts
  | .exhausted st _ => QF st
  | .err _ => False

section Rule
variable {γ : Type} (prog : Prog) (inp : Input)
  (I : γ → Bool → Nat → Nat → State → Array BtInsn → Prop)
  (B : γ → Bool → State → Array BtInsn → Prop)
  (QM : γ → Bool → Nat → State → Prop)
  (QF : γ → Bool → State → Prop)

/-- Verification condition of one instruction. -/
def StepVC (g : γ) (fwd : Bool) (ip pos : Nat) (st : State) (bts : Array BtInsn) : Act → Prop
  | .err _ => False
  | .goal p st' => QM g fwd p st'
  | .cont ip' pos' st' bts' => I g fwd ip' pos' st' bts'
  | .back st' bts' => B g fwd st' bts'
  | .look d neg sg eg k =>
    sg ≤ eg ∧ eg ≤ st.groups.size ∧
    ∃ g' : γ, I g' d (ip + 1) pos st #[.exhausted] ∧
      (∀ e st', QM g' d e st' →
        if neg = false then I g fwd k pos st' (pushSavedGroups (st.groups.extract sg eg).toList sg bts)
        else B g fwd { st' with groups := spliceGroups (st.groups.extract sg eg).toList sg st'.groups } bts) ∧
      (∀ st', QF g' d st' →
        if neg = true then
          I g fwd k pos { st' with groups := spliceGroups (st.groups.extract sg eg).toList sg st'.groups } bts
        else B g fwd { st' with groups := spliceGroups (st.groups.extract sg eg).toList sg st'.groups } bts)

theorem run_rule
    (hstep : ∀ g fwd ip pos st bts, I g fwd ip pos st bts →
      StepVC I B QM QF g fwd ip pos st bts (step prog inp ip pos fwd st bts))
    (hback : ∀ g fwd st bts, B g fwd st bts →
      BtPost (I g fwd) (QF g fwd) (tryBacktrack prog inp fwd st bts))
    (limit : Nat) :
    ∀ sf g ip pos fwd st bts steps peak, I g fwd ip pos st bts →
      Post (QM g fwd) (QF g fwd) (run prog inp limit sf ip pos fwd st bts steps peak) := by
  intro sf
  induction sf with
  | zero => intro g ip pos fwd st bts steps peak _; simp [run, Post]
  | succ sf ih =>
    intro g ip pos fwd st bts steps peak hI
    have hbk : ∀ st' bts' steps' peak', B g fwd st' bts' →
        Post (QM g fwd) (QF g fwd)
          (match tryBacktrack prog inp fwd st' bts' with
            | .err e => .error e
            | .exhausted st _ => .failed st steps' peak'
            | .resumed ip pos st bts => run prog inp limit sf ip pos fwd st bts steps' peak') := by
      intro st' bts' steps' peak' hB
      have h := hback g fwd st' bts' hB
      cases hr : tryBacktrack prog inp fwd st' bts' with
      | err e => rw [hr] at h; exact h.elim
      | exhausted st'' b => rw [hr] at h; exact h
      | resumed ip' pos' st'' bts'' => rw [hr] at h; exact ih g ip' pos' fwd st'' bts'' _ _ h
    unfold run
    split
    · trivial
    · have hs := hstep g fwd ip pos st bts hI
      cases hact : step prog inp ip pos fwd st bts with
      | err e => rw [hact] at hs; exact hs.elim
      | goal p st' => rw [hact] at hs; exact hs
      | cont ip' pos' st' bts' => rw [hact] at hs; exact ih _ _ _ _ _ _ _ _ hs
      | back st' bts' => rw [hact] at hs; exact hbk _ _ _ _ hs
      | look d neg sg eg k =>
        rw [hact] at hs
        obtain ⟨h1, h2, g', hI', hm, hf⟩ := hs
        have hc : ¬ (sg > eg || eg > st.groups.size) = true := by simp; omega
        simp only [hc, if_false]
        have hin := ih g' (ip + 1) pos d st #[.exhausted] (steps + 1)
          (if peak < bts.size then bts.size else peak) hI'
        cases hr : run prog inp limit sf (ip + 1) pos d st #[.exhausted] (steps + 1)
          (if peak < bts.size then bts.size else peak) with
        | error e => rw [hr] at hin; exact hin.elim
        | outOfFuel => trivial
        | matched e st' s' p' =>
          rw [hr] at hin
          have := hm e st' hin
          cases neg with
          | false => simp only [Bool.not_false, if_true] at this ⊢; exact ih _ _ _ _ _ _ _ _ this
          | true =>
            simp only [Bool.not_true, Bool.false_eq_true, if_false] at this ⊢
            exact hbk _ _ _ _ this
        | failed st' s' p' =>
          rw [hr] at hin
          have := hf st' hin
          cases neg with
          | true => simp only [if_true] at this ⊢; exact ih _ _ _ _ _ _ _ _ this
          | false =>
            simp only [Bool.false_eq_true, if_false] at this ⊢
            exact hbk _ _ _ _ this

end Rule

/-! ## The safety invariant -/

open Regress.VM.Safety

section Inv
variable (prog : Prog) (inp : Input) (A : Bool → Nat → Nat → Prop) (V : Nat → Prop)

/-- Both ends of a capture group, when set, are storable positions. -/
def GroupOK (gd : GroupData) : Prop :=
  (∀ s, gd.start = some s → V s) ∧ (∀ e, gd.end_ = some e → V e)

/-- The matcher state has the shape the program expects and stores only valid positions. -/
structure StateOK (st : State) : Prop where
  loops : st.loops.size = prog.loops
  groups : st.groups.size = prog.groups
  gok : ∀ (g : Nat) (gd : GroupData), st.groups[g]? = some gd → GroupOK V gd

/-- A record of the backtrack stack other than the bottom `Exhausted`; `b` is the position at which
the current run was started (a lower bound of every position of a forward run, an upper bound for a
backward run), `fwd` the direction of the run that owns the stack. -/
def RecOK (b : Nat) (fwd : Bool) : BtInsn → Prop
  | .exhausted => False
  | .setPosition ip pos => A fwd ip pos ∧ MovedLe fwd b pos
  | .setLoopData id _ => id < prog.loops
  | .setCaptureGroup id d => id < prog.groups ∧ GroupOK V d
  | .enterNonGreedyLoop ip _ d =>
    (∃ id mn mx g ex, prog.insns[ip]? = some (.enterLoop id mn mx g ex)) ∧
      A fwd (ip + 1) d.entry ∧ MovedLe fwd b d.entry
  | .greedyLoop1Char k mn mx =>
    V mn ∧ V mx ∧ MovedLe fwd mn mx ∧ MovedLe fwd b mn ∧ ∀ p, V p → A fwd k p
  | .nonGreedyLoop1Char k mn mx =>
    V mn ∧ V mx ∧ MovedLe fwd mn mx ∧ MovedLe fwd b mn ∧ ∀ p, V p → A fwd k p

/-- `Exhausted` at the bottom and nowhere else; every other record is `RecOK`. -/
def StackOK (b : Nat) (fwd : Bool) (bts : Array BtInsn) : Prop :=
  bts[0]? = some .exhausted ∧ ∀ i r, 0 < i → bts[i]? = some r → RecOK prog A V b fwd r

/-- The invariant of the `'nextinsn` loop. -/
def Inv (b : Nat) (fwd : Bool) (ip pos : Nat) (st : State) (bts : Array BtInsn) : Prop :=
  A fwd ip pos ∧ MovedLe fwd b pos ∧ StateOK prog V st ∧ StackOK prog A V b fwd bts

/-- The invariant at a `break 'backtrack`. -/
def InvB (b : Nat) (fwd : Bool) (st : State) (bts : Array BtInsn) : Prop :=
  StateOK prog V st ∧ StackOK prog A V b fwd bts

variable {prog inp A V}

theorem stackOK_init (b : Nat) (fwd : Bool) : StackOK prog A V b fwd #[.exhausted] := by
  refine ⟨rfl, ?_⟩
  intro i r hi h
  have : i < (#[BtInsn.exhausted]).size := lt_of_getElem?_eq_some h
  simp at this; omega

theorem StackOK.size_pos {b fwd} {bts : Array BtInsn} (h : StackOK prog A V b fwd bts) : 0 < bts.size :=
  lt_of_getElem?_eq_some h.1

theorem StackOK.push {b fwd} {bts : Array BtInsn} {r : BtInsn} (h : StackOK prog A V b fwd bts)
    (hr : RecOK prog A V b fwd r) : StackOK prog A V b fwd (bts.push r) := by
  have hp := h.size_pos
  refine ⟨?_, ?_⟩
  · rw [Array.getElem?_push]; split
    · omega
    · exact h.1
  · intro i r' hi hg
    rw [Array.getElem?_push] at hg
    split at hg
    · cases hg; exact hr
    · exact h.2 i r' hi hg

theorem StackOK.pop {b fwd} {bts : Array BtInsn} (h : StackOK prog A V b fwd bts) (h1 : 1 < bts.size) :
    StackOK prog A V b fwd bts.pop := by
  refine ⟨?_, ?_⟩
  · rw [Array.getElem?_pop]; split
    · exact h.1
    · omega
  · intro i r hi hg
    rw [Array.getElem?_pop] at hg
    split at hg
    · exact h.2 i r hi hg
    · cases hg

theorem StackOK.setTop {b fwd} {bts : Array BtInsn} {r : BtInsn} (h : StackOK prog A V b fwd bts)
    (h1 : 1 < bts.size) (hr : RecOK prog A V b fwd r) :
    StackOK prog A V b fwd (bts.setIfInBounds (bts.size - 1) r) := by
  refine ⟨?_, ?_⟩
  · rw [Array.getElem?_setIfInBounds]; split
    · omega
    · exact h.1
  · intro i r' hi hg
    rw [Array.getElem?_setIfInBounds] at hg
    split at hg
    · split at hg
      · cases hg; exact hr
      · cases hg
    · exact h.2 i r' hi hg

/-- The top of a well-formed stack: either the bottom `Exhausted` or a good record. -/
theorem StackOK.back {b fwd} {bts : Array BtInsn} (h : StackOK prog A V b fwd bts) :
    (bts.back? = some .exhausted ∧ bts.size = 1) ∨
    (∃ r, bts.back? = some r ∧ RecOK prog A V b fwd r ∧ 1 < bts.size) := by
  have hp := h.size_pos
  by_cases h1 : bts.size = 1
  · left
    rw [Array.back?_eq_getElem?, h1]
    exact ⟨h.1, rfl⟩
  · right
    have hlt : bts.size - 1 < bts.size := by omega
    refine ⟨bts[bts.size - 1], ?_, ?_, by omega⟩
    · rw [Array.back?_eq_getElem?, Array.getElem?_eq_getElem hlt]
    · exact h.2 _ _ (by omega) (Array.getElem?_eq_getElem hlt)

theorem StateOK.setLoops {st : State} (h : StateOK prog V st) (id : Nat) (d : LoopData) :
    StateOK prog V { st with loops := st.loops.setIfInBounds id d } :=
  ⟨by simp [h.loops], h.groups, h.gok⟩

theorem StateOK.setGroup {st : State} (h : StateOK prog V st) (id : Nat) {d : GroupData}
    (hd : GroupOK V d) : StateOK prog V { st with groups := st.groups.setIfInBounds id d } := by
  refine ⟨h.loops, by simp [h.groups], ?_⟩
  intro g gd hg
  simp only [Array.getElem?_setIfInBounds] at hg
  split at hg
  · split at hg
    · cases hg; exact hd
    · cases hg
  · exact h.gok g gd hg

/-! ### `try_backtrack` -/

theorem backLoop_vc (hs : Spec prog inp A V) (hw : wfProg prog = true) (b : Nat) (fwd : Bool) :
    ∀ n st bts, bts.size ≤ n → StateOK prog V st → StackOK prog A V b fwd bts →
      BtPost (Inv prog A V b fwd) (StateOK prog V) (tryBacktrackLoop prog inp fwd n st bts) := by
  intro n
  induction n with
  | zero => intro st bts hn _ hsk; have := hsk.size_pos; omega
  | succ n ih =>
    intro st bts hn hst hsk
    unfold tryBacktrackLoop
    rcases hsk.back with ⟨hb, _⟩ | ⟨r, hb, hr, hsz⟩
    · rw [hb]; exact hst
    · rw [hb]
      have hpop := hsk.pop hsz
      have hpn : bts.pop.size ≤ n := by simp; omega
      cases r with
      | exhausted => exact hr.elim
      | setPosition ip pos => exact ⟨hr.1, hr.2, hst, hpop⟩
      | setLoopData id d =>
        have : id < st.loops.size := by rw [hst.loops]; exact hr
        simp only [this, if_true]
        exact ih _ _ hpn (hst.setLoops id d) hpop
      | setCaptureGroup id d =>
        have : id < st.groups.size := by rw [hst.groups]; exact hr.1
        simp only [this, if_true]
        exact ih _ _ hpn (hst.setGroup id hr.2) hpop
      | enterNonGreedyLoop lip orig d =>
        obtain ⟨⟨id, mn, mx, g, ex, hi⟩, hA, hb'⟩ := hr
        have hwi := wf_insn hw hi
        simp only [wfInsn, Bool.and_eq_true, decide_eq_true_eq] at hwi
        have : id < st.loops.size := by rw [hst.loops]; exact hwi.1.1
        simp only [hi, this, if_true, prepareToEnterLoop]
        refine ⟨hA, hb', hst.setLoops _ _, ?_⟩
        exact (hsk.setTop hsz (r := .setLoopData id _) hwi.1.1).push (r := .setLoopData id d) hwi.1.1
      | greedyLoop1Char k mn mx =>
        obtain ⟨hmn, hmx, hle, hbm, hk⟩ := hr
        by_cases heq : mx = mn
        · simp only [heq, beq_self_eq_true, if_true]
          exact ih _ _ hpn hst hpop
        · have hne : (mx == mn) = false := by simpa using heq
          simp only [hne, Bool.false_eq_true, if_false]
          cases fwd with
          | true =>
            have hlt : mn < mx := by have := hle.1 rfl; omega
            obtain ⟨p, hp, h1, h2, hv⟩ := hs.stepL hmn hmx hlt
            simp only [if_true, hp]
            refine ⟨hk p hv, (MovedLe.fwd ?_), hst, ?_⟩
            · have := hbm.1 rfl; omega
            · exact hsk.setTop hsz (r := .greedyLoop1Char k mn p)
                ⟨hmn, hv, MovedLe.fwd h1, hbm, hk⟩
          | false =>
            have hlt : mx < mn := by have := hle.2 rfl; omega
            obtain ⟨p, hp, h1, h2, hv⟩ := hs.stepR hmx hmn hlt
            simp only [Bool.false_eq_true, if_false, hp]
            refine ⟨hk p hv, (MovedLe.bwd ?_), hst, ?_⟩
            · have := hbm.2 rfl; omega
            · exact hsk.setTop hsz (r := .greedyLoop1Char k mn p)
                ⟨hmn, hv, MovedLe.bwd h2, hbm, hk⟩
      | nonGreedyLoop1Char k mn mx =>
        obtain ⟨hmn, hmx, hle, hbm, hk⟩ := hr
        by_cases heq : mx = mn
        · simp only [heq, beq_self_eq_true, if_true]
          exact ih _ _ hpn hst hpop
        · have hne : (mx == mn) = false := by simpa using heq
          simp only [hne, Bool.false_eq_true, if_false]
          cases fwd with
          | true =>
            have hlt : mn < mx := by have := hle.1 rfl; omega
            obtain ⟨p, hp, h1, h2, hv⟩ := hs.stepR hmn hmx hlt
            simp only [if_true, hp]
            refine ⟨hk p hv, (MovedLe.fwd ?_), hst, ?_⟩
            · have := hbm.1 rfl; omega
            · exact hsk.setTop hsz (r := .nonGreedyLoop1Char k p mx)
                ⟨hv, hmx, MovedLe.fwd h2,
                  MovedLe.fwd (by have := hbm.1 rfl; omega), hk⟩
          | false =>
            have hlt : mx < mn := by have := hle.2 rfl; omega
            obtain ⟨p, hp, h1, h2, hv⟩ := hs.stepL hmx hmn hlt
            simp only [Bool.false_eq_true, if_false, hp]
            refine ⟨hk p hv, (MovedLe.bwd ?_), hst, ?_⟩
            · have := hbm.2 rfl; omega
            · exact hsk.setTop hsz (r := .nonGreedyLoop1Char k p mx)
                ⟨hv, hmx, MovedLe.bwd h1,
                  MovedLe.bwd (by have := hbm.2 rfl; omega), hk⟩

theorem back_vc (hs : Spec prog inp A V) (hw : wfProg prog = true) (b : Nat) (fwd : Bool)
    {st : State} {bts : Array BtInsn} (h : InvB prog A V b fwd st bts) :
    BtPost (Inv prog A V b fwd) (StateOK prog V) (tryBacktrack prog inp fwd st bts) :=
  backLoop_vc hs hw b fwd _ st bts (Nat.le_succ _) h.1 h.2

/-! ### Single-char loops -/

/-- A single-char matcher that is safe on storable positions and moves strictly. -/
def MOK (inp : Input) (V : Nat → Prop) (m : Scm) (fwd : Bool) : Prop :=
  ∀ p, V p → ∃ r, m.matches inp fwd p = .ok r ∧ ∀ p', r = some p' → V p' ∧ Moved fwd p p'

theorem scmExactly_ok {m : Scm} {fwd : Bool} (hm : MOK inp V m fwd) :
    ∀ n pos, V pos → ∃ r, scmExactly m inp fwd n pos = .ok r ∧
      ∀ p', r = some p' → V p' ∧ MovedLe fwd pos p' := by
  intro n
  induction n with
  | zero =>
    intro pos hv
    exact ⟨some pos, rfl, fun p' h => by cases h; exact ⟨hv, MovedLe.refl _ _⟩⟩
  | succ n ih =>
    intro pos hv
    unfold scmExactly
    obtain ⟨r, hr, hp⟩ := hm pos hv
    rw [hr]
    cases r with
    | none => exact ⟨none, rfl, fun p' h => by cases h⟩
    | some p =>
      obtain ⟨hvp, hmv⟩ := hp p rfl
      obtain ⟨r', hr', hp'⟩ := ih p hvp
      exact ⟨r', hr', fun p' h => ⟨(hp' p' h).1, hmv.le.trans (hp' p' h).2⟩⟩

theorem scmUpTo_ok (hs : Spec prog inp A V) {m : Scm} {fwd : Bool} (hm : MOK inp V m fwd) :
    ∀ fuel limit pos, V pos → (fwd = true → inp.len - pos < fuel) → (fwd = false → pos < fuel) →
      ∃ p', scmUpTo m inp fwd fuel limit pos = .ok p' ∧ V p' ∧ MovedLe fwd pos p' := by
  intro fuel
  induction fuel with
  | zero =>
    intro limit pos _ h1 h2
    cases fwd with
    | true => have := h1 rfl; omega
    | false => have := h2 rfl; omega
  | succ fuel ih =>
    intro limit pos hv h1 h2
    unfold scmUpTo
    split
    · exact ⟨pos, rfl, hv, MovedLe.refl _ _⟩
    · obtain ⟨r, hr, hp⟩ := hm pos hv
      rw [hr]
      cases r with
      | none => exact ⟨pos, rfl, hv, MovedLe.refl _ _⟩
      | some p =>
        obtain ⟨hvp, hmv⟩ := hp p rfl
        have hle := hs.v_le hvp
        obtain ⟨p', hr', hv', hm'⟩ := ih (limit.map (· - 1)) p hvp
          (fun f => by have := h1 f; have := hmv.1 f; omega)
          (fun f => by have := h2 f; have := hmv.2 f; omega)
        exact ⟨p', hr', hv', hmv.le.trans hm'⟩

theorem scmUpTo_ok' (hs : Spec prog inp A V) {m : Scm} {fwd : Bool} (hm : MOK inp V m fwd)
    (limit : Option Nat) {pos : Nat} (hv : V pos) :
    ∃ p', scmUpTo m inp fwd (inp.len + 1) limit pos = .ok p' ∧ V p' ∧ MovedLe fwd pos p' :=
  scmUpTo_ok hs hm _ _ _ hv (fun _ => by omega) (fun _ => by have := hs.v_le hv; omega)

theorem runScmLoopImpl_ok (hs : Spec prog inp A V) {m : Scm} {fwd : Bool} (hm : MOK inp V m fwd)
    {pos mn : Nat} {mx : Option Nat} (hv : V pos) (hle : leMax mn mx = true) :
    ∃ r, runScmLoopImpl m inp fwd pos mn mx = .ok r ∧
      ∀ a c, r = some (a, c) → V a ∧ V c ∧ MovedLe fwd pos a ∧ MovedLe fwd a c := by
  unfold runScmLoopImpl
  obtain ⟨r, hr, hp⟩ := scmExactly_ok hm mn pos hv
  rw [hr]
  cases r with
  | none => exact ⟨none, rfl, fun a c h => by cases h⟩
  | some a =>
    obtain ⟨hva, hma⟩ := hp a rfl
    cases mx with
    | none =>
      obtain ⟨c, hc, hvc, hmc⟩ := scmUpTo_ok' hs hm none hva
      simp only [hc]
      exact ⟨_, rfl, fun a' c' h => by cases h; exact ⟨hva, hvc, hma, hmc⟩⟩
    | some mxv =>
      have : ¬ mxv < mn := by simp [leMax] at hle; omega
      obtain ⟨c, hc, hvc, hmc⟩ := scmUpTo_ok' hs hm (some (mxv - mn)) hva
      simp only [this, if_false, hc]
      exact ⟨_, rfl, fun a' c' h => by cases h; exact ⟨hva, hvc, hma, hmc⟩⟩

/-- The five element matchers, from `Spec.elem` transported to storable positions. -/
theorem mok_elem {fwd : Bool} (f : Nat → Bool)
    (hn : ∀ p, V p → ∃ r, Cursor.next inp fwd p = .ok r ∧
      ∀ c p', r = some (c, p') → V p' ∧ Moved fwd p p')
    {m : Scm} (hm : ∀ p, m.matches inp fwd p =
      match Cursor.next inp fwd p with
      | .error e => .error e
      | .ok none => .ok none
      | .ok (some (c, p')) => .ok (if f c then some p' else none)) :
    MOK inp V m fwd := by
  intro p hv
  obtain ⟨r, hr, hp⟩ := hn p hv
  rw [hm, hr]
  cases r with
  | none => exact ⟨none, rfl, fun p' h => by cases h⟩
  | some cp =>
    obtain ⟨c, p'⟩ := cp
    refine ⟨_, rfl, ?_⟩
    intro q hq
    split at hq
    · cases hq; exact hp c _ rfl
    · cases hq

theorem mok_byte {fwd : Bool} (f : Nat → Bool) (bs : List Nat)
    (hn : ∀ p, V p → ∃ r, Cursor.nextByte inp fwd p = .ok r ∧
      ∀ b p', r = some (b, p') → b ∈ bs → V p' ∧ Moved fwd p p')
    (hf : ∀ b, f b = true → b ∈ bs)
    {m : Scm} (hm : ∀ p, m.matches inp fwd p =
      match Cursor.nextByte inp fwd p with
      | .error e => .error e
      | .ok none => .ok none
      | .ok (some (b, p')) => .ok (if f b then some p' else none)) :
    MOK inp V m fwd := by
  intro p hv
  obtain ⟨r, hr, hp⟩ := hn p hv
  rw [hm, hr]
  cases r with
  | none => exact ⟨none, rfl, fun p' h => by cases h⟩
  | some cp =>
    obtain ⟨c, p'⟩ := cp
    refine ⟨_, rfl, ?_⟩
    intro q hq
    split at hq
    · rename_i hfc; cases hq; exact hp c _ rfl (hf c hfc)
    · cases hq

theorem mem_of_byteArraySetContains {bs : List Nat} {b : Nat} (h : byteArraySetContains bs b = true) :
    b ∈ bs := by
  simp only [byteArraySetContains, List.any_eq_true, beq_iff_eq] at h
  obtain ⟨x, hx, rfl⟩ := h; exact hx

theorem mem_of_asciiBitmapContains {bs : List Nat} {b : Nat} (h : asciiBitmapContains bs b = true) :
    b ∈ bs := by
  simp only [asciiBitmapContains, Bool.and_eq_true, List.contains_iff_mem] at h
  exact h.2

/-- The matcher selected for the body of a `loop1` is safe. -/
theorem scmSelect_ok (hs : Spec prog inp A V) (hw : wfProg prog = true) {fwd : Bool} {ip pos : Nat}
    {mn : Nat} {mx : Option Nat} {g : Bool} (hA : A fwd ip pos)
    (hi : prog.insns[ip]? = some (.loop1 mn mx g)) :
    (∃ m, scmSelect prog inp.kind ip = .scm m ∧ MOK inp V m fwd) ∨
      scmSelect prog inp.kind ip = .charNone := by
  have hwi := wf_insn hw hi
  simp only [wfInsn, Bool.and_eq_true, decide_eq_true_eq] at hwi
  obtain ⟨⟨_, _⟩, hbody⟩ := hwi
  have hl := hs.loop1 hA hi
  -- transport of the per-instruction facts at `ip + 1` to `V`
  have hA1 : ∀ p, V p → A fwd (ip + 1) p := fun p hv => ((hl p).2 hv).1
  have hV2 : ∀ p, A fwd (ip + 1 + 1) p → V p := fun p h => (hl p).1.mp h
  cases hb : prog.insns[ip + 1]? with
  | none => rw [hb] at hbody; cases hbody
  | some body =>
    rw [hb] at hbody
    simp only [Bool.and_eq_true] at hbody
    have hwb := wf_insn hw hb
    have hnext : isElem body = true → ∀ p, V p → ∃ r, Cursor.next inp fwd p = .ok r ∧
        ∀ c p', r = some (c, p') → V p' ∧ Moved fwd p p' := by
      intro he p hv
      obtain ⟨r, hr, hp⟩ := hs.elem (hA1 p hv) hb he
      exact ⟨r, hr, fun c p' h => ⟨hV2 _ (hp c p' h).1, (hp c p' h).2⟩⟩
    have hbyte : ∀ bs, (body = .byteSet bs ∨ body = .asciiBracket bs) → ∀ p, V p →
        ∃ r, Cursor.nextByte inp fwd p = .ok r ∧
          ∀ b p', r = some (b, p') → b ∈ bs → V p' ∧ Moved fwd p p' := by
      intro bs hbs p hv
      obtain ⟨r, hr, hp⟩ := hs.byte (bs := bs) (hA1 p hv) (by rcases hbs with h | h <;> simp [hb, h])
      exact ⟨r, hr, fun c p' h hm => ⟨hV2 _ (hp c p' h hm).1, (hp c p' h hm).2⟩⟩
    unfold scmSelect
    rw [hb]
    cases body with
    | char c =>
      simp only
      cases hc : elementTryFrom inp.kind c with
      | none => right; rfl
      | some c' =>
        left
        exact ⟨_, rfl, mok_elem (fun c2 => c2 == c') (hnext rfl) (fun p => rfl)⟩
    | bracket idx =>
      simp only [wfInsn, decide_eq_true_eq] at hwb
      simp only [Array.getElem?_eq_getElem hwb]
      left
      exact ⟨_, rfl, mok_elem (fun c => bracketTest prog.brackets[idx] c) (hnext rfl) (fun p => rfl)⟩
    | asciiBracket bm =>
      left
      exact ⟨_, rfl, mok_byte (fun b => asciiBitmapContains bm b) bm (hbyte bm (Or.inr rfl))
        (fun b h => mem_of_asciiBitmapContains h) (fun p => rfl)⟩
    | matchAny =>
      left
      refine ⟨_, rfl, mok_elem (fun _ => true) (hnext rfl) (fun p => ?_)⟩
      simp only [Scm.matches, if_true]
      cases Cursor.next inp fwd p with
      | error e => rfl
      | ok r =>
        cases r with
        | none => rfl
        | some cp => rfl
    | matchAnyExceptLineTerminator =>
      left
      exact ⟨_, rfl, mok_elem (fun c => !isLineTerminator c) (hnext rfl) (fun p => rfl)⟩
    | charSet cs =>
      left
      exact ⟨_, rfl, mok_elem (fun c => charsetContains cs c) (hnext rfl) (fun p => rfl)⟩
    | byteSet bs =>
      left
      exact ⟨_, rfl, mok_byte (fun b => byteArraySetContains bs b) bs (hbyte bs (Or.inl rfl))
        (fun b h => mem_of_byteArraySetContains h) (fun p => rfl)⟩
    | byteSeq bs =>
      have h6 : 1 ≤ bs.length ∧ bs.length ≤ 6 := by
        have := hbody.1; simp [scmAccepted] at this; exact this
      simp only [h6, and_self, if_true]
      left
      refine ⟨_, rfl, ?_⟩
      intro p hv
      refine ⟨_, rfl, ?_⟩
      intro p' hp'
      have := hs.seq (hA1 p hv) hb hp'
      exact ⟨hV2 _ this.1, this.2⟩
    | _ => simp [scmAccepted] at hbody

theorem withScmLoopImpl_ok (hs : Spec prog inp A V) {fwd : Bool} {ip : Nat}
    (hsel : (∃ m, scmSelect prog inp.kind ip = .scm m ∧ MOK inp V m fwd) ∨
      scmSelect prog inp.kind ip = .charNone)
    {pos mn : Nat} {mx : Option Nat} (hv : V pos) (hle : leMax mn mx = true) :
    ∃ r, withScmLoopImpl prog inp fwd pos mn mx ip = .ok r ∧
      ∀ a c, r = some (a, c) → V a ∧ V c ∧ MovedLe fwd pos a ∧ MovedLe fwd a c := by
  unfold withScmLoopImpl
  rcases hsel with ⟨m, hm, hmok⟩ | hm
  · rw [hm]; exact runScmLoopImpl_ok hs hmok hv hle
  · rw [hm]
    simp only
    split
    · exact ⟨_, rfl, fun a c h => by cases h; exact ⟨hv, hv, MovedLe.refl _ _, MovedLe.refl _ _⟩⟩
    · exact ⟨_, rfl, fun a c h => by cases h⟩

theorem withScmComputeMax_ok (hs : Spec prog inp A V) {fwd : Bool} {ip : Nat}
    (hsel : (∃ m, scmSelect prog inp.kind ip = .scm m ∧ MOK inp V m fwd) ∨
      scmSelect prog inp.kind ip = .charNone)
    {pos : Nat} (limit : Option Nat) (hv : V pos) :
    ∃ p', withScmComputeMax prog inp fwd pos limit ip = .ok p' ∧ V p' ∧ MovedLe fwd pos p' := by
  unfold withScmComputeMax
  rcases hsel with ⟨m, hm, hmok⟩ | hm
  · rw [hm]; exact scmUpTo_ok' hs hmok limit hv
  · rw [hm]; exact ⟨pos, rfl, hv, MovedLe.refl _ _⟩

theorem leMax_self (n : Nat) : leMax n (some n) = true := by simp [leMax]

theorem runScmLoop_ok (hs : Spec prog inp A V) (hw : wfProg prog = true) {b : Nat} {fwd : Bool}
    {ip pos : Nat} {st : State} {bts : Array BtInsn} (h : Inv prog A V b fwd ip pos st bts)
    {mn : Nat} {mx : Option Nat} {g : Bool} (hi : prog.insns[ip]? = some (.loop1 mn mx g)) :
    ∃ r, runScmLoop prog inp fwd bts pos mn mx ip g = .ok r ∧
      ∀ k p bts', r = some (k, p, bts') → Inv prog A V b fwd k p st bts' := by
  obtain ⟨hA, hb, hst, hsk⟩ := h
  have hv : V pos := hs.adm_v hA hi (by intro bs; simp)
  have hsel := scmSelect_ok hs hw hA hi
  have hwi := wf_insn hw hi
  simp only [wfInsn, Bool.and_eq_true, decide_eq_true_eq] at hwi
  have hle := hwi.1.1
  have hl := hs.loop1 hA hi
  unfold runScmLoop
  generalize hmmeq : (if g = true then withScmLoopImpl prog inp fwd pos mn mx ip else _) = mm
  -- the `(min_pos, max_pos)` pair
  have hmm : ∃ r, mm = (.ok r : Except String (Option (Nat × Nat))) ∧
      ∀ a c, r = some (a, c) → V a ∧ V c ∧ MovedLe fwd pos a ∧ MovedLe fwd a c := by
    subst hmmeq
    cases g with
    | true => simp only [if_true]; exact withScmLoopImpl_ok hs hsel hv hle
    | false =>
      simp only [Bool.false_eq_true, if_false]
      obtain ⟨r, hr, hp⟩ := withScmLoopImpl_ok hs hsel hv (leMax_self mn)
      rw [hr]
      cases r with
      | none => exact ⟨none, rfl, fun a c h => by cases h⟩
      | some ac =>
        obtain ⟨a, c0⟩ := ac
        obtain ⟨hva, _, hma, _⟩ := hp a c0 rfl
        simp only
        split
        · obtain ⟨c, hc, hvc, hmc⟩ := withScmComputeMax_ok hs hsel (mx.map (· - mn)) hva
          rw [hc]
          exact ⟨_, rfl, fun a' c' h => by cases h; exact ⟨hva, hvc, hma, hmc⟩⟩
        · exact ⟨_, rfl, fun a' c' h => by cases h; exact ⟨hva, hva, hma, MovedLe.refl _ _⟩⟩
  obtain ⟨r, rfl, hp⟩ := hmm
  cases r with
  | none => exact ⟨none, rfl, fun k p bts' h => by cases h⟩
  | some ac =>
    obtain ⟨a, c⟩ := ac
    obtain ⟨hva, hvc, hma, hmc⟩ := hp a c rfl
    refine ⟨_, rfl, ?_⟩
    intro k p bts' hk
    simp only [Option.some.injEq, Prod.mk.injEq] at hk
    obtain ⟨rfl, rfl, rfl⟩ := hk
    have hk2 : ∀ p, V p → A fwd (ip + 2) p := fun p hv => (hl p).1.mpr hv
    refine ⟨?_, ?_, hst, ?_⟩
    · split
      · exact hk2 _ hvc
      · exact hk2 _ hva
    · split
      · exact hb.trans (hma.trans hmc)
      · exact hb.trans hma
    · split
      · apply hsk.push
        split
        · exact ⟨hva, hvc, hmc, hb.trans hma, hk2⟩
        · exact ⟨hva, hvc, hmc, hb.trans hma, hk2⟩
      · exact hsk

/-! ### One instruction -/

/-- Post-condition of a successful run: the end is a storable position on the right side of the
start, and the state is good. -/
def QMs (prog : Prog) (V : Nat → Prop) (b : Nat) (fwd : Bool) (e : Nat) (st : State) : Prop :=
  V e ∧ MovedLe fwd b e ∧ StateOK prog V st

/-- The verification condition of `run_rule` for the safety invariant. -/
abbrev SVC (prog : Prog) (A : Bool → Nat → Nat → Prop) (V : Nat → Prop) :=
  StepVC (Inv prog A V) (InvB prog A V) (QMs prog V) (fun _ _ st => StateOK prog V st)

theorem nextOrBt_vc {b : Nat} {fwd : Bool} {ip pos : Nat} {st : State} {bts : Array BtInsn}
    (h : Inv prog A V b fwd ip pos st bts) {r : Except Unit (Option Nat)} (site : String)
    (hr : ∃ r', r = .ok r' ∧ ∀ p, r' = some p → A fwd (ip + 1) p ∧ MovedLe fwd pos p) :
    SVC prog A V b fwd ip pos st bts (nextOrBt r site ip st bts) := by
  obtain ⟨r', rfl, hp⟩ := hr
  cases r' with
  | none => exact ⟨h.2.2.1, h.2.2.2⟩
  | some p => exact ⟨(hp p rfl).1, h.2.1.trans (hp p rfl).2, h.2.2.1, h.2.2.2⟩

theorem peekIs_ok {r : Except Unit (Option Nat)} (f : Nat → Bool) (h : ∃ r', r = .ok r') :
    ∃ v, peekIs r f = .ok v := by
  obtain ⟨r', rfl⟩ := h
  cases r' with
  | none => exact ⟨_, rfl⟩
  | some c => exact ⟨_, rfl⟩

theorem getElem?_of_lt {α} {a : Array α} {i : Nat} (h : i < a.size) : ∃ x, a[i]? = some x :=
  ⟨a[i], Array.getElem?_eq_getElem h⟩

theorem groupAct_vc {b : Nat} {fwd : Bool} {ip pos : Nat} {st : State} {bts : Array BtInsn}
    (h : Inv prog A V b fwd ip pos st bts) {g : Nat} (hg : g < prog.groups) (site : String)
    (hA' : A fwd (ip + 1) pos) {upd : GroupData → GroupData}
    (hupd : ∀ cg, GroupOK V cg → GroupOK V (upd cg)) :
    SVC prog A V b fwd ip pos st bts (groupAct g upd site ip pos st bts) := by
  obtain ⟨hA, hb, hst, hsk⟩ := h
  obtain ⟨cg, hcg⟩ := getElem?_of_lt (a := st.groups) (i := g) (by rw [hst.groups]; exact hg)
  unfold groupAct
  rw [hcg]
  have hok := hst.gok g cg hcg
  exact ⟨hA', hb, hst.setGroup g (hupd cg hok), hsk.push (r := .setCaptureGroup g cg) ⟨hg, hok⟩⟩

theorem runLoop_vc {b : Nat} {fwd : Bool} {pos : Nat} {st : State} {bts : Array BtInsn}
    (hst : StateOK prog V st) (hsk : StackOK prog A V b fwd bts) (hb : MovedLe fwd b pos)
    {lip id mn : Nat} {mx : Option Nat} {gr : Bool} {exit : Nat}
    (hi : prog.insns[lip]? = some (.enterLoop id mn mx gr exit)) (hid : id < prog.loops)
    (hA1 : A fwd (lip + 1) pos) (hA2 : A fwd exit pos) (ip0 : Nat) (st0 : State)
    (bts0 : Array BtInsn) :
    SVC prog A V b fwd ip0 pos st0 bts0
      (match runLoop st bts id mn mx gr exit pos lip with
        | .err e => .err e
        | .ok (some nextIp) st bts => .cont nextIp pos st bts
        | .ok none st bts => .back st bts) := by
  obtain ⟨ld, hld⟩ := getElem?_of_lt (a := st.loops) (i := id) (by rw [hst.loops]; exact hid)
  unfold runLoop
  simp only [hld]
  cases h1 : (ld.entry == pos && decide (ld.iters > mn)) with
  | true => simp only [if_true]; exact ⟨hst, hsk⟩
  | false =>
    simp only [Bool.false_eq_true, if_false]
    cases hT : ltMax ld.iters mx <;> cases hN : decide (ld.iters ≥ mn) <;> simp only []
    · exact ⟨hst, hsk⟩
    · exact ⟨hA2, hb, hst, hsk⟩
    · simp only [prepareToEnterLoop]
      exact ⟨hA1, hb, hst.setLoops _ _, hsk.push (r := .setLoopData id ld) hid⟩
    · cases gr with
      | false =>
        simp only [Bool.not_false, if_true]
        exact ⟨hA2, hb, hst.setLoops _ _,
          hsk.push (r := .enterNonGreedyLoop lip ld.entry { ld with entry := pos })
            ⟨⟨_, _, _, _, _, hi⟩, hA1, hb⟩⟩
      | true =>
        simp only [Bool.not_true, Bool.false_eq_true, if_false, prepareToEnterLoop]
        exact ⟨hA1, hb, hst.setLoops _ _,
          (hsk.push (r := .setPosition exit pos) ⟨hA2, hb⟩).push (r := .setLoopData id ld) hid⟩

theorem pushSavedGroups_ok {b : Nat} {fwd : Bool} :
    ∀ (saved : List GroupData) (id : Nat) (bts : Array BtInsn),
      (∀ cg ∈ saved, GroupOK V cg) → id + saved.length ≤ prog.groups →
      StackOK prog A V b fwd bts → StackOK prog A V b fwd (pushSavedGroups saved id bts) := by
  intro saved
  induction saved with
  | nil => intro id bts _ _ h; exact h
  | cons cg rest ih =>
    intro id bts hok hlen h
    unfold pushSavedGroups
    simp only [List.length_cons] at hlen
    exact ih (id + 1) _ (fun c hc => hok c (by simp [hc])) (by omega)
      (h.push (r := .setCaptureGroup id cg) ⟨by omega, hok cg (by simp)⟩)

theorem spliceGroups_ok :
    ∀ (saved : List GroupData) (id : Nat) (gs : Array GroupData),
      (∀ cg ∈ saved, GroupOK V cg) → (∀ (g : Nat) (gd : GroupData), gs[g]? = some gd → GroupOK V gd) →
      (spliceGroups saved id gs).size = gs.size ∧
      ∀ (g : Nat) (gd : GroupData), (spliceGroups saved id gs)[g]? = some gd → GroupOK V gd := by
  intro saved
  induction saved with
  | nil => intro id gs _ h; exact ⟨rfl, h⟩
  | cons cg rest ih =>
    intro id gs hok h
    unfold spliceGroups
    have := ih (id + 1) (gs.setIfInBounds id cg) (fun c hc => hok c (by simp [hc])) (by
      intro g gd hg
      simp only [Array.getElem?_setIfInBounds] at hg
      split at hg
      · split at hg
        · cases hg; exact hok cg (by simp)
        · cases hg
      · exact h g gd hg)
    exact ⟨by rw [this.1]; simp, this.2⟩

theorem StateOK.splice {st st' : State} (h : StateOK prog V st) (h' : StateOK prog V st')
    (sg eg : Nat) :
    StateOK prog V { st' with groups := spliceGroups (st.groups.extract sg eg).toList sg st'.groups } := by
  have hsaved : ∀ cg ∈ (st.groups.extract sg eg).toList, GroupOK V cg := by
    intro cg hcg
    rw [Array.mem_toList_iff, Array.mem_iff_getElem?] at hcg
    obtain ⟨i, hi⟩ := hcg
    rw [Array.getElem?_extract] at hi
    split at hi
    · exact h.gok _ _ hi
    · cases hi
  have := spliceGroups_ok (V := V) _ sg st'.groups hsaved h'.gok
  exact ⟨h'.loops, by rw [← h'.groups]; exact this.1, this.2⟩

/-- The hypothesis under which the `backref_icase` site is safe at a configuration: the referenced
range is not inverted. -/
def IcaseOrdered (prog : Prog) (ip : Nat) (st : State) : Prop :=
  ∀ (g : Nat) (gd : GroupData) (rs re : Nat), prog.insns[ip]? = some (.backRef g true) →
    st.groups[g]? = some gd → gd.asRange = some (rs, re) → rs ≤ re

theorem step_vc (hs : Spec prog inp A V) (hw : wfProg prog = true) {b : Nat} {fwd : Bool}
    {ip pos : Nat} {st : State} {bts : Array BtInsn} (h : Inv prog A V b fwd ip pos st bts)
    (hord : IcaseOrdered prog ip st) :
    SVC prog A V b fwd ip pos st bts (step prog inp ip pos fwd st bts) := by
  have hI := h
  obtain ⟨hA, hb, hst, hsk⟩ := h
  obtain ⟨insn, hi⟩ := getElem?_of_lt (hs.ip_lt hA)
  have hwi := wf_insn hw hi
  have hctrl := hs.ctrl hA hi
  have hB : InvB prog A V b fwd st bts := ⟨hst, hsk⟩
  have helem : isElem insn = true → ∀ (f : Nat → Bool) (site : String),
      SVC prog A V b fwd ip pos st bts (nextOrBt
        (match Cursor.next inp fwd pos with
          | .error e => .error e
          | .ok none => .ok none
          | .ok (some (c, p)) => .ok (if f c then some p else none)) site ip st bts) := by
    intro he f site
    apply nextOrBt_vc hI
    obtain ⟨r, hr, hp⟩ := hs.elem hA hi he
    rw [hr]
    cases r with
    | none => exact ⟨none, rfl, fun p h => by cases h⟩
    | some cp =>
      obtain ⟨c, p⟩ := cp
      refine ⟨_, rfl, ?_⟩
      intro q hq
      split at hq
      · cases hq; exact ⟨(hp c _ rfl).1, (hp c _ rfl).2.le⟩
      · cases hq
  have hbyte : ∀ bs, (insn = .byteSet bs ∨ insn = .asciiBracket bs) → ∀ (f : Nat → Bool) (site : String),
      (∀ x, f x = true → x ∈ bs) →
      SVC prog A V b fwd ip pos st bts (nextOrBt
        (match Cursor.nextByte inp fwd pos with
          | .error e => .error e
          | .ok none => .ok none
          | .ok (some (c, p)) => .ok (if f c then some p else none)) site ip st bts) := by
    intro bs hbs f site hf
    apply nextOrBt_vc hI
    obtain ⟨r, hr, hp⟩ := hs.byte (bs := bs) hA (by rcases hbs with h | h <;> simp [hi, h])
    rw [hr]
    cases r with
    | none => exact ⟨none, rfl, fun p h => by cases h⟩
    | some cp =>
      obtain ⟨c, p⟩ := cp
      refine ⟨_, rfl, ?_⟩
      intro q hq
      split at hq
      · rename_i hfc; cases hq; exact ⟨(hp c _ rfl (hf c hfc)).1, (hp c _ rfl (hf c hfc)).2.le⟩
      · cases hq
  have hpeek : (∀ bs, insn ≠ .byteSeq bs) →
      (∃ r, inp.peekLeft pos = .ok r) ∧ (∃ r, inp.peekRight pos = .ok r) :=
    fun hn => hs.peek (hs.adm_v hA hi hn)
  unfold step
  rw [hi]
  cases insn with
  | goal => exact ⟨hs.adm_v hA hi (by intro bs; simp), hb, hst⟩
  | justFail => exact hB
  | char c =>
    simp only
    cases hc : elementTryFrom inp.kind c with
    | none => exact hB
    | some c' => exact helem rfl (fun c2 => c2 == c') _
  | charSet cs => exact helem rfl (fun c => charsetContains cs c) _
  | matchAny =>
    have := helem rfl (fun _ => true) "try_at_pos: MatchAny input read out of range"
    simp only [if_true] at this
    simp only [Scm.matches]
    exact this
  | matchAnyExceptLineTerminator => exact helem rfl (fun c => !isLineTerminator c) _
  | bracket idx =>
    simp only [wfInsn, decide_eq_true_eq] at hwi
    simp only [Array.getElem?_eq_getElem hwi]
    exact helem rfl (fun c => bracketTest prog.brackets[idx] c) _
  | byteSet bs =>
    exact hbyte bs (Or.inl rfl) (fun x => byteArraySetContains bs x) _ (fun x h => mem_of_byteArraySetContains h)
  | asciiBracket bm =>
    exact hbyte bm (Or.inr rfl) (fun x => asciiBitmapContains bm x) _ (fun x h => mem_of_asciiBitmapContains h)
  | byteSeq bs =>
    apply nextOrBt_vc hI
    refine ⟨_, rfl, ?_⟩
    intro p hp
    have := hs.seq hA hi hp
    exact ⟨this.1, this.2.le⟩
  | wordBoundary inv =>
    obtain ⟨⟨l, hl⟩, ⟨r, hr⟩⟩ := hpeek (by intro bs; simp)
    simp only [wordBoundaryAct]
    obtain ⟨v1, h1⟩ := peekIs_ok isWordChar ⟨l, hl⟩
    obtain ⟨v2, h2⟩ := peekIs_ok isWordChar ⟨r, hr⟩
    rw [h1, h2]
    simp only
    split
    · exact ⟨hctrl _ (by simp [ctrlSuccs]), hb, hst, hsk⟩
    · exact hB
  | wordBoundaryUnicodeICase inv =>
    obtain ⟨⟨l, hl⟩, ⟨r, hr⟩⟩ := hpeek (by intro bs; simp)
    simp only [wordBoundaryAct]
    obtain ⟨v1, h1⟩ := peekIs_ok isWordCharUnicodeIcase ⟨l, hl⟩
    obtain ⟨v2, h2⟩ := peekIs_ok isWordCharUnicodeIcase ⟨r, hr⟩
    rw [h1, h2]
    simp only
    split
    · exact ⟨hctrl _ (by simp [ctrlSuccs]), hb, hst, hsk⟩
    · exact hB
  | startOfLine ml =>
    obtain ⟨⟨l, hl⟩, _⟩ := hpeek (by intro bs; simp)
    simp only [lineAct, hl]
    have hn : A fwd (ip + 1) pos := hctrl _ (by simp [ctrlSuccs])
    cases l with
    | none => exact ⟨hn, hb, hst, hsk⟩
    | some c =>
      simp only
      split
      · exact ⟨hn, hb, hst, hsk⟩
      · exact hB
  | endOfLine ml =>
    obtain ⟨_, ⟨l, hl⟩⟩ := hpeek (by intro bs; simp)
    simp only [lineAct, hl]
    have hn : A fwd (ip + 1) pos := hctrl _ (by simp [ctrlSuccs])
    cases l with
    | none => exact ⟨hn, hb, hst, hsk⟩
    | some c =>
      simp only
      split
      · exact ⟨hn, hb, hst, hsk⟩
      · exact hB
  | jump t => exact ⟨hctrl _ (by simp [ctrlSuccs]), hb, hst, hsk⟩
  | beginCaptureGroup g =>
    simp only [wfInsn, decide_eq_true_eq] at hwi
    have hv := hs.adm_v hA hi (by intro bs; simp)
    refine groupAct_vc hI hwi _ (hctrl _ (by simp [ctrlSuccs])) ?_
    intro cg hcg
    split
    · exact ⟨fun s h => by cases h; exact hv, hcg.2⟩
    · exact ⟨hcg.1, fun s h => by cases h; exact hv⟩
  | endCaptureGroup g =>
    simp only [wfInsn, decide_eq_true_eq] at hwi
    have hv := hs.adm_v hA hi (by intro bs; simp)
    refine groupAct_vc hI hwi _ (hctrl _ (by simp [ctrlSuccs])) ?_
    intro cg hcg
    split
    · exact ⟨hcg.1, fun s h => by cases h; exact hv⟩
    · exact ⟨fun s h => by cases h; exact hv, hcg.2⟩
  | resetCaptureGroup g =>
    simp only [wfInsn, decide_eq_true_eq] at hwi
    refine groupAct_vc hI hwi _ (hctrl _ (by simp [ctrlSuccs])) ?_
    intro cg _
    exact ⟨fun s h => (by cases h), fun s h => (by cases h)⟩
  | backRef g ic =>
    simp only [wfInsn, decide_eq_true_eq] at hwi
    obtain ⟨cg, hcg⟩ := getElem?_of_lt (a := st.groups) (i := g) (by rw [hst.groups]; exact hwi)
    simp only [hcg]
    have hok := hst.gok g cg hcg
    cases hr : cg.asRange with
    | none => exact ⟨hctrl _ (by simp [ctrlSuccs]), hb, hst, hsk⟩
    | some rr =>
      obtain ⟨rs, re⟩ := rr
      have hrs : V rs ∧ V re := by
        unfold GroupData.asRange at hr
        split at hr
        · rename_i s e h1 h2; cases hr; exact ⟨hok.1 _ h1, hok.2 _ h2⟩
        · cases hr
      simp only
      cases ic with
      | true =>
        simp only [if_true]
        apply nextOrBt_vc hI
        exact hs.backrefI hA hi hrs.1 hrs.2 (hord g cg rs re hi hcg hr)
      | false =>
        simp only [Bool.false_eq_true, if_false]
        apply nextOrBt_vc hI
        exact ⟨_, rfl, fun p hp => hs.backref hA hi hrs.1 hrs.2 hp⟩
  | lookahead neg sg eg k =>
    simp only [wfInsn, wfLook, Bool.and_eq_true, decide_eq_true_eq] at hwi
    obtain ⟨⟨⟨⟨h1, h2⟩, _⟩, _⟩, _⟩ := hwi
    refine ⟨h1, by rw [hst.groups]; exact h2, pos,
      ⟨(hs.look hA).1 hi, MovedLe.refl _ _, hst, stackOK_init _ _⟩, ?_, ?_⟩
    · intro e st' hq
      have hk : A fwd k pos := hctrl _ (by simp [ctrlSuccs])
      cases neg with
      | false =>
        simp only [if_true]
        refine ⟨hk, hb, hq.2.2, pushSavedGroups_ok _ _ _ ?_ ?_ hsk⟩
        · intro cg hcg
          rw [Array.mem_toList_iff, Array.mem_iff_getElem?] at hcg
          obtain ⟨i, hi'⟩ := hcg
          rw [Array.getElem?_extract] at hi'
          split at hi'
          · exact hst.gok _ _ hi'
          · cases hi'
        · simp only [Array.length_toList, Array.size_extract, hst.groups]; omega
      | true =>
        simp only [Bool.true_eq_false, if_false]
        exact ⟨hst.splice hq.2.2 sg eg, hsk⟩
    · intro st' hq
      have hk : A fwd k pos := hctrl _ (by simp [ctrlSuccs])
      cases neg with
      | true => simp only [if_true]; exact ⟨hk, hb, hst.splice hq sg eg, hsk⟩
      | false => simp only [Bool.false_eq_true, if_false]; exact ⟨hst.splice hq sg eg, hsk⟩
  | lookbehind neg sg eg k =>
    simp only [wfInsn, wfLook, Bool.and_eq_true, decide_eq_true_eq] at hwi
    obtain ⟨⟨⟨⟨h1, h2⟩, _⟩, _⟩, _⟩ := hwi
    refine ⟨h1, by rw [hst.groups]; exact h2, pos,
      ⟨(hs.look hA).2 hi, MovedLe.refl _ _, hst, stackOK_init _ _⟩, ?_, ?_⟩
    · intro e st' hq
      have hk : A fwd k pos := hctrl _ (by simp [ctrlSuccs])
      cases neg with
      | false =>
        simp only [if_true]
        refine ⟨hk, hb, hq.2.2, pushSavedGroups_ok _ _ _ ?_ ?_ hsk⟩
        · intro cg hcg
          rw [Array.mem_toList_iff, Array.mem_iff_getElem?] at hcg
          obtain ⟨i, hi'⟩ := hcg
          rw [Array.getElem?_extract] at hi'
          split at hi'
          · exact hst.gok _ _ hi'
          · cases hi'
        · simp only [Array.length_toList, Array.size_extract, hst.groups]; omega
      | true =>
        simp only [Bool.true_eq_false, if_false]
        exact ⟨hst.splice hq.2.2 sg eg, hsk⟩
    · intro st' hq
      have hk : A fwd k pos := hctrl _ (by simp [ctrlSuccs])
      cases neg with
      | true => simp only [if_true]; exact ⟨hk, hb, hst.splice hq sg eg, hsk⟩
      | false => simp only [Bool.false_eq_true, if_false]; exact ⟨hst.splice hq sg eg, hsk⟩
  | alt s =>
    exact ⟨hctrl _ (by simp [ctrlSuccs]), hb, hst,
      hsk.push (r := .setPosition s pos) ⟨hctrl _ (by simp [ctrlSuccs]), hb⟩⟩
  | enterLoop id mn mx gr exit =>
    simp only [wfInsn, Bool.and_eq_true, decide_eq_true_eq] at hwi
    obtain ⟨ld, hld⟩ := getElem?_of_lt (a := st.loops) (i := id) (by rw [hst.loops]; exact hwi.1.1)
    simp only [hld]
    exact runLoop_vc (hst.setLoops _ _) (hsk.push (r := .setLoopData id ld) hwi.1.1) hb hi hwi.1.1
      (hctrl _ (by simp [ctrlSuccs])) (hctrl _ (by simp [ctrlSuccs])) ip st bts
  | loopAgain bg =>
    simp only [wfInsn] at hwi
    cases hbg : prog.insns[bg]? with
    | none => rw [hbg] at hwi; cases hwi
    | some bi =>
      cases bi with
      | enterLoop id mn mx gr exit =>
        simp only [hbg]
        have hwb := wf_insn hw hbg
        simp only [wfInsn, Bool.and_eq_true, decide_eq_true_eq] at hwb
        exact runLoop_vc hst hsk hb hbg hwb.1.1
          (hctrl _ (by simp [ctrlSuccs, hbg])) (hctrl _ (by simp [ctrlSuccs, hbg])) ip st bts
      | _ => rw [hbg] at hwi; cases hwi
  | loop1 mn mx g =>
    obtain ⟨r, hr, hp⟩ := runScmLoop_ok hs hw hI hi
    simp only [hr]
    cases r with
    | none => exact hB
    | some t =>
      obtain ⟨k, p, bts'⟩ := t
      exact hp k p bts' rfl

/-- **Safety of the backtracking executor, generic form.** From any configuration satisfying the
invariant, `run` never reaches an error site; a match ends at a storable position weakly after the
start position `b` (in the direction of the run) and leaves a good state; a failure leaves a good
state. -/
theorem run_safe (hs : Spec prog inp A V) (hw : wfProg prog = true)
    (hnb : noIcaseBackref prog = true) (limit : Nat) :
    ∀ sf b ip pos fwd st bts steps peak, Inv prog A V b fwd ip pos st bts →
      Post (QMs prog V b fwd) (StateOK prog V) (run prog inp limit sf ip pos fwd st bts steps peak) :=
  run_rule prog inp (Inv prog A V) (InvB prog A V) (QMs prog V) (fun _ _ st => StateOK prog V st)
    (fun _ _ ip _ _ _ h => step_vc hs hw h
      (fun g' _ _ _ hi => absurd hi (noIcaseBackref_spec hnb ip g')))
    (fun g fwd _ _ h => back_vc hs hw g fwd h) limit

end Inv

end Regress.VM.Bt
